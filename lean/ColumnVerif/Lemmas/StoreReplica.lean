import ColumnVerif.Lemmas.StoreCol
import ColumnVerif.Lemmas.Replay
/-!
Store-level replication (C06 at store level): a replica that replays what the primary's `Store.commit` emits.

* A — what a replica receives: `restrictBuf`, `recvLog` (`Emitted.received .log`), `replayTxn` (`Store.replay`), the ops a
  received buffer list holds for the commit's chunk (`Delivers`, `delivers_log`, `delivers_channel`).
* B — what the primary emits: the buffers `commitChunk` hands to the logger hold, for the chunk, the ops *as rewritten by the
  main pass* (`applyData_ops_append`, `mpSpecG_ops`, `mainPassG_rangeOps`, `cuFold_ops`, `commitChunk_ops`) — any data kind,
  when the pass appends nothing.
* C — one chunk on both sides: key columns (`foldKey_sync`, `applyData_ops_key`), `KindsMatch`, the column-level law
  `applyData_sync_slot`, `chunk_replay_data` (`chunk_replay_num`), `chunk_replay_fill`.
* D — the chunk loop (`loopEmitted`, `replayAll`, `commitLoop_replay_data`, `commitLoop_replay_fill`), `commit`
  (`emittedBy`, `emitted_of_commit`, `commit_replay_data_raw`, `NumSync`, `FillSync`, `DataSync`, `StrGuard`, `KeySync`),
  sequences of commits (`emittedByAll`, `commits_replay_num`, `commits_replay_data`, `commits_replay_key`,
  `commits_replay_fill`), typed reads.
* E — the same schema on both sides: `createColumn_cases`, `numSync_createColumn`, `SameStart`, `mkStore_sameStart`.
* F — single-chunk transactions keep single-chunk buffers (`OneChunk`, `emittedBy_delivers_channel`).
* G — closed form of the stream of a numeric column (`emittedOps`, `emittedBy_ops_num`).
* H — the fill list when inserts reserve their offset before the commit (`Store.reserved`, `ResStep`, `ResRun`,
  `commit_replay_fill_res`, `steps_replay_num`, `steps_replay_fill`).
-/
namespace ColumnVerif.Store
open ColumnVerif.Codec ColumnVerif.Bits

/-! ## A — what a replica receives -/

/-- `Clone` / `ReadFrom` / `Replay` all drop empty buffers -/
def nonEmpty (bufs : List Buf) : List Buf := bufs.filter (fun b => !b.isEmpty)

/-- what the `.log` logger delivers of the buffers `ups` emitted for chunk `ch`: every buffer restricted to the chunk,
    empty ones dropped -/
def recvLog (ups : List Buf) (ch : Nat) : List Buf := nonEmpty (ups.map (fun b => restrictBuf b ch))

theorem received_log (e : Emitted) : e.received .log = recvLog e.updates e.chunk := rfl

theorem received_channel (e : Emitted) : e.received .channel = nonEmpty e.updates := rfl

/-- the transaction `Collection.Replay` commits -/
def replayTxn (ch : Nat) (bufs : List Buf) : Txn := { dirty := [ch], updates := nonEmpty bufs }

theorem replay_eq (s : Store) (ch : Nat) (bufs : List Buf) : s.replay ch bufs = s.commit (replayTxn ch bufs) := rfl

theorem restrictBuf_secs (b : Buf) (ch : Nat) :
    (restrictBuf b ch).secs = b.secs.filter (fun s => s.chunk = ch) := by
  simp [restrictBuf, Buf.secs, List.filter_reverse]

theorem restrictBuf_column (b : Buf) (ch : Nat) : (restrictBuf b ch).column = b.column := rfl

theorem restrictBuf_range (b : Buf) (ch : Nat) : (restrictBuf b ch).range ch = b.range ch := by
  unfold Buf.range
  rw [restrictBuf_secs, List.filter_filter]
  simp

theorem restrictBuf_rangeOps (b : Buf) (ch : Nat) : (restrictBuf b ch).rangeOps ch = b.rangeOps ch := by
  unfold Buf.rangeOps
  rw [restrictBuf_range]

theorem restrictBuf_chunks (b : Buf) (ch : Nat) : ∀ c ∈ (restrictBuf b ch).chunks, c = ch := by
  intro c hc
  unfold Buf.chunks at hc
  rw [restrictBuf_secs] at hc
  obtain ⟨s, hs, rfl⟩ := List.mem_map.1 hc
  simpa using (List.mem_filter.1 hs).2

theorem restrictBuf_isEmpty_of (b : Buf) (ch : Nat) (h : b.isEmpty = true) : (restrictBuf b ch).isEmpty = true := by
  unfold Buf.isEmpty at h ⊢
  rw [List.all_eq_true] at h ⊢
  intro s hs
  exact h s (List.mem_filter.1 hs).1

theorem mem_nonEmpty {bufs : List Buf} {b : Buf} : b ∈ nonEmpty bufs ↔ b ∈ bufs ∧ b.isEmpty = false := by
  unfold nonEmpty
  rw [List.mem_filter]
  simp

theorem nonEmpty_idem (bufs : List Buf) : nonEmpty (nonEmpty bufs) = nonEmpty bufs := by
  unfold nonEmpty
  rw [List.filter_filter]
  simp

theorem opsFor_nonEmpty (ups : List Buf) (x : String) (c : Nat) : opsFor (nonEmpty ups) x c = opsFor ups x c := by
  induction ups with
  | nil => rfl
  | cons u us ih =>
    unfold nonEmpty at ih ⊢
    by_cases he : u.isEmpty = true
    · have h1 : (u :: us).filter (fun b => !b.isEmpty) = us.filter (fun b => !b.isEmpty) := by simp [he]
      rw [h1, ih]
      by_cases hx : u.column = x
      · rw [opsFor_cons_self u us x c hx, isEmpty_range u he c, List.nil_append]
      · rw [opsFor_cons_other u us x c hx]
    · have h1 : (u :: us).filter (fun b => !b.isEmpty) = u :: us.filter (fun b => !b.isEmpty) := by simp [he]
      rw [h1]
      by_cases hx : u.column = x
      · rw [opsFor_cons_self u us x c hx, opsFor_cons_self u _ x c hx, ih]
      · rw [opsFor_cons_other u us x c hx, opsFor_cons_other u _ x c hx, ih]

theorem opsFor_map_restrict (ups : List Buf) (x : String) (ch : Nat) :
    opsFor (ups.map (fun b => restrictBuf b ch)) x ch = opsFor ups x ch := by
  induction ups with
  | nil => rfl
  | cons u us ih =>
    rw [List.map_cons]
    by_cases hx : u.column = x
    · rw [opsFor_cons_self u us x ch hx, opsFor_cons_self (restrictBuf u ch) _ x ch hx, ih, restrictBuf_rangeOps]
    · rw [opsFor_cons_other u us x ch hx, opsFor_cons_other (restrictBuf u ch) _ x ch hx, ih]

/-- the ops the `.log` logger delivers for the column `x` in the commit's chunk are those the emitted buffers hold -/
theorem opsFor_recvLog (ups : List Buf) (x : String) (ch : Nat) :
    opsFor (nonEmpty (recvLog ups ch)) x ch = opsFor ups x ch := by
  unfold recvLog
  rw [nonEmpty_idem, opsFor_nonEmpty, opsFor_map_restrict]

/-- how to compute `markerOps` of a buffer list: every marker buffer of the list holds `R` for the chunk, and `R` is empty
    when the list has no marker buffer -/
theorem markerOps_eq_of (L : List Buf) (ch : Nat) (R : List Op)
    (h1 : ∀ b ∈ L, isMarkerBuf b = true → b.rangeOps ch = R)
    (h2 : (∀ b ∈ L, isMarkerBuf b = false) → R = []) : markerOps L ch = R := by
  unfold markerOps
  cases hf : L.find? isMarkerBuf with
  | none =>
    simp only
    refine (h2 ?_).symm
    intro b hb
    have := List.find?_eq_none.1 hf b hb
    simpa using this
  | some m =>
    exact h1 m (List.mem_of_find?_eq_some hf) (List.find?_some hf)

/-- at most one buffer is named `row` (what `bufferFor` guarantees) -/
def OneRow (ups : List Buf) : Prop :=
  ∀ a ∈ ups, ∀ b ∈ ups, a.column = rowColumn → b.column = rowColumn → a = b

theorem nodup_map_inj {α β : Type} (f : α → β) (l : List α) (h : (l.map f).Nodup) :
    ∀ a ∈ l, ∀ b ∈ l, f a = f b → a = b := by
  induction l with
  | nil => intro a ha; cases ha
  | cons x xs ih =>
    rw [List.map_cons, List.nodup_cons] at h
    intro a ha b hb e
    rcases List.mem_cons.1 ha with ha1 | ha1
    · rcases List.mem_cons.1 hb with hb1 | hb1
      · rw [ha1, hb1]
      · exact absurd (List.mem_map.2 ⟨b, hb1, by rw [← e, ha1]⟩) h.1
    · rcases List.mem_cons.1 hb with hb1 | hb1
      · exact absurd (List.mem_map.2 ⟨a, ha1, by rw [e, hb1]⟩) h.1
      · exact ih h.2 a ha1 b hb1 e

theorem oneRow_of_distinct (ups : List Buf) (h : BufsDistinct ups) : OneRow ups := by
  intro a ha b hb ea eb
  exact nodup_map_inj Buf.column ups h a ha b hb (ea.trans eb.symm)

theorem isMarkerBuf_iff (b : Buf) : isMarkerBuf b = true ↔ b.isEmpty = false ∧ b.column = rowColumn := by
  unfold isMarkerBuf
  simp

/-- with at most one `row` buffer, the `.log` logger delivers the marker ops of the chunk -/
theorem markerOps_recvLog (ups : List Buf) (ch : Nat) (hone : OneRow ups) :
    markerOps (nonEmpty (recvLog ups ch)) ch = markerOps ups ch := by
  unfold recvLog
  rw [nonEmpty_idem]
  apply markerOps_eq_of
  · intro b hb hm
    obtain ⟨hb1, hb2⟩ := mem_nonEmpty.1 hb
    obtain ⟨u, hu, rfl⟩ := List.mem_map.1 hb1
    obtain ⟨_, hcol⟩ := (isMarkerBuf_iff _).1 hm
    rw [restrictBuf_column] at hcol
    have hune : u.isEmpty = false := by
      cases he : u.isEmpty with
      | false => rfl
      | true => rw [restrictBuf_isEmpty_of u ch he] at hb2; cases hb2
    have hum : isMarkerBuf u = true := (isMarkerBuf_iff u).2 ⟨hune, hcol⟩
    rw [restrictBuf_rangeOps]
    unfold markerOps
    cases hf : ups.find? isMarkerBuf with
    | none =>
      have := List.find?_eq_none.1 hf u hu
      rw [hum] at this
      exact absurd rfl this
    | some m =>
      have hm' := (isMarkerBuf_iff m).1 (List.find?_some hf)
      rw [hone u hu m (List.mem_of_find?_eq_some hf) hcol hm'.2]
  · intro hall
    unfold markerOps
    cases hf : ups.find? isMarkerBuf with
    | none => rfl
    | some m =>
      simp only
      have hm' := (isMarkerBuf_iff m).1 (List.find?_some hf)
      have hmem : m ∈ ups := List.mem_of_find?_eq_some hf
      cases he : (restrictBuf m ch).isEmpty with
      | true => rw [← restrictBuf_rangeOps, isEmpty_range _ he]
      | false =>
        have hin : restrictBuf m ch ∈ nonEmpty (ups.map (fun b => restrictBuf b ch)) :=
          mem_nonEmpty.2 ⟨List.mem_map.2 ⟨m, hmem, rfl⟩, he⟩
        have := hall _ hin
        rw [(isMarkerBuf_iff _).2 ⟨he, hm'.2⟩] at this
        cases this

theorem find_marker_nonEmpty (ups : List Buf) : (nonEmpty ups).find? isMarkerBuf = ups.find? isMarkerBuf := by
  induction ups with
  | nil => rfl
  | cons u us ih =>
    unfold nonEmpty at ih ⊢
    by_cases he : u.isEmpty = true
    · have h1 : (u :: us).filter (fun b => !b.isEmpty) = us.filter (fun b => !b.isEmpty) := by simp [he]
      have h2 : isMarkerBuf u = false := by unfold isMarkerBuf; simp [he]
      rw [h1, ih, List.find?_cons, h2]
    · have h1 : (u :: us).filter (fun b => !b.isEmpty) = u :: us.filter (fun b => !b.isEmpty) := by simp [he]
      rw [h1, List.find?_cons, List.find?_cons, ih]

/-- the `.channel` logger (all buffers, empty ones dropped) delivers the same markers -/
theorem markerOps_nonEmpty (ups : List Buf) (ch : Nat) : markerOps (nonEmpty ups) ch = markerOps ups ch := by
  unfold markerOps
  rw [find_marker_nonEmpty]

theorem foldl_insertDedup_const (ch : Nat) (l : List Nat) (h : ∀ c ∈ l, c = ch) :
    l.foldl (fun acc x => insertDedup x acc) [ch] = [ch] := by
  induction l with
  | nil => rfl
  | cons c cs ih =>
    have hc : c = ch := h c (by simp)
    subst hc
    simp only [List.foldl_cons]
    have h1 : insertDedup c [c] = [c] := by simp [insertDedup]
    rw [h1]
    exact ih (fun c' hc' => h c' (by simp [hc']))

/-- buffers that hold sections of the commit's chunk only: the replay transaction has that one dirty chunk -/
theorem replayTxn_dirtyChunks (ch : Nat) (bufs : List Buf) (h : ∀ b ∈ bufs, ∀ c ∈ b.chunks, c = ch) :
    (replayTxn ch bufs).dirtyChunks = [ch] := by
  unfold Txn.dirtyChunks replayTxn
  simp only [List.singleton_append, List.foldl_cons]
  have h1 : insertDedup ch [] = [ch] := rfl
  rw [h1]
  apply foldl_insertDedup_const
  intro c hc
  obtain ⟨l, hl, hcl⟩ := List.mem_flatten.1 hc
  obtain ⟨b, hb, rfl⟩ := List.mem_map.1 hl
  exact h b (mem_nonEmpty.1 hb).1 c hcl

/-- what a delivery of the buffers `ups1` emitted for chunk `ch` has to preserve for the replay to work: only sections of
    the chunk, the ops of every column for the chunk, the markers of the chunk -/
structure Delivers (ups1 : List Buf) (ch : Nat) (bufs : List Buf) : Prop where
  chunks : ∀ b ∈ bufs, ∀ c ∈ b.chunks, c = ch
  ops : ∀ x, opsFor (nonEmpty bufs) x ch = opsFor ups1 x ch
  markers : markerOps (nonEmpty bufs) ch = markerOps ups1 ch

/-- the `.log` logger delivers (with at most one `row` buffer in the transaction) -/
theorem delivers_log (ups1 : List Buf) (ch : Nat) (hone : OneRow ups1) : Delivers ups1 ch (recvLog ups1 ch) := by
  refine ⟨?_, fun x => opsFor_recvLog ups1 x ch, markerOps_recvLog ups1 ch hone⟩
  intro b hb c hc
  obtain ⟨u, _, rfl⟩ := List.mem_map.1 (mem_nonEmpty.1 hb).1
  exact restrictBuf_chunks u ch c hc

/-- the `.channel` logger delivers when the transaction touches the one chunk only -/
theorem delivers_channel (ups1 : List Buf) (ch : Nat) (h : ∀ b ∈ ups1, ∀ c ∈ b.chunks, c = ch) :
    Delivers ups1 ch (nonEmpty ups1) := by
  refine ⟨fun b hb => h b (mem_nonEmpty.1 hb).1, fun x => ?_, ?_⟩
  · rw [nonEmpty_idem, opsFor_nonEmpty]
  · rw [nonEmpty_idem, markerOps_nonEmpty]

/-! ## B — what the primary emits: the chunk's ops as rewritten by the main pass -/

/-- the rewritten ops only grow, by what the step emits on its own -/
theorem stepOf_done (hash : Bytes → Nat) (k : Kind) (acc : ApplyAcc) (o : Op) :
    (stepOf hash k acc o).2.1 = (stepOf hash k (acc.1, [], []) o).2.1 ++ acc.2.1 := by
  obtain ⟨c, done, app⟩ := acc
  cases k with
  | num nk =>
    show (stepNum nk (c, done, app) o).2.1 = (stepNum nk (c, [], []) o).2.1 ++ done
    unfold stepNum
    simp only
    split
    · simp
    · split
      · simp
      · split <;> simp
  | str =>
    show (stepStr (c, done, app) o).2.1 = (stepStr (c, [], []) o).2.1 ++ done
    unfold stepStr
    simp only
    split
    · simp
    · split
      · split <;> simp
      · split <;> simp
  | record =>
    show (stepStr (c, done, app) o).2.1 = (stepStr (c, [], []) o).2.1 ++ done
    unfold stepStr
    simp only
    split
    · simp
    · split
      · split <;> simp
      · split <;> simp
  | enum =>
    show (stepEnum hash (c, done, app) o).2.1 = (stepEnum hash (c, [], []) o).2.1 ++ done
    unfold stepEnum
    simp only
    split
    · simp
    · split <;> simp
  | key =>
    show (stepKey (c, done, app) o).2.1 = (stepKey (c, [], []) o).2.1 ++ done
    unfold stepKey
    simp only
    split
    · simp
    · split <;> simp
  | bool => show o :: done = [o] ++ done; rfl
  | index t r => show o :: done = [o] ++ done; rfl
  | trigger t => show o :: done = [o] ++ done; rfl
  | sorted t => show o :: done = [o] ++ done; rfl

theorem foldStepOf_done (hash : Bytes → Nat) (k : Kind) (ops : List Op) (acc : ApplyAcc) :
    (ops.foldl (stepOf hash k) acc).2.1 = (ops.foldl (stepOf hash k) (acc.1, [], [])).2.1 ++ acc.2.1 := by
  induction ops generalizing acc with
  | nil => simp
  | cons o os ih =>
    simp only [List.foldl_cons]
    rw [ih (stepOf hash k acc o), ih (stepOf hash k (acc.1, [], []) o), stepOf_done hash k acc o, stepOf_fst hash k acc o,
      List.append_assoc]

theorem applyData_ops_nil (hash : Bytes → Nat) (c : Col) (chunk : Nat) : (applyData hash c chunk []).ops = [] := by
  unfold applyData
  split <;> rfl

/-- the rewritten section of `a ++ b` is the rewritten `a` followed by `b` rewritten in the state `a` leaves -/
theorem applyData_ops_append (hash : Bytes → Nat) (c : Col) (chunk : Nat) (a b : List Op) :
    (applyData hash c chunk (a ++ b)).ops =
      (applyData hash c chunk a).ops ++ (applyData hash (applyData hash c chunk a).col chunk b).ops := by
  by_cases h : chunk < c.nchunks
  · have hs := applyData_sameShape hash c chunk a
    rw [(applyData_of_lt hash c chunk (a ++ b) h).2.1,
      (applyData_of_lt hash _ chunk b (by rw [hs.nchunks]; exact h)).2.1, hs.kind,
      (applyData_of_lt hash c chunk a h).2.1, (applyData_of_lt hash c chunk a h).1, List.foldl_append, foldStepOf_done,
      List.reverse_append]
  · have h' : chunk ≥ c.nchunks := by omega
    rw [applyData_of_ge hash c chunk (a ++ b) h', applyData_of_ge hash c chunk a h', applyData_of_ge hash c chunk b h']

/-- the sections of `chunk` the pass leaves in the buffer hold the chunk's ops as `applyData` rewrites them, in order -/
theorem mpSpecG_ops (hash : Bytes → Nat) (chunk : Nat) (S : List Sec) (c : Col) :
    (((mpSpecG hash chunk c S).2.filter (fun s => s.chunk = chunk)).map Sec.ops).flatten =
      (applyData hash c chunk ((S.filter (fun s => s.chunk = chunk)).map Sec.ops).flatten).ops := by
  induction S generalizing c with
  | nil => exact (applyData_ops_nil hash c chunk).symm
  | cons x xs ih =>
    simp only [mpSpecG]
    by_cases h : x.chunk = chunk
    · rw [if_pos h]
      have hf : (x :: xs).filter (fun s => decide (s.chunk = chunk)) = x :: xs.filter (fun s => decide (s.chunk = chunk)) := by
        simp [h]
      rw [hf, List.map_cons, List.flatten_cons, applyData_ops_append, ← ih]
      simp [h, Sec.ops]
    · rw [if_neg h]
      have hf : (x :: xs).filter (fun s => decide (s.chunk = chunk)) = xs.filter (fun s => decide (s.chunk = chunk)) := by
        simp [h]
      rw [hf, ← ih]
      simp [h]

/-- **what the main pass leaves in the buffer for the chunk** (any data kind, nothing appended): the chunk's ops as
    rewritten by `applyData` — this is what the logger is handed -/
theorem mainPassG_rangeOps (hash : Bytes → Nat) (col : Col) (chunk : Nat) (u : Buf)
    (hna : (applyData hash col chunk (u.rangeOps chunk)).appended = []) :
    (mainPass hash col chunk u).2.1.rangeOps chunk = (applyData hash col chunk (u.rangeOps chunk)).ops := by
  rw [(mainPassG hash col chunk u hna).2]
  unfold Buf.rangeOps Buf.range
  rw [secs_set, mpSpecG_ops]

/-- the buffer of the data column `x` itself, as `commitUpdates` hands it on -/
theorem cuStep_self_ops (chunk : Nat) (s : Store) (done : List Buf) (b : Bool) (u : Buf) (x : String) (col : Col)
    (hxr : x ≠ rowColumn) (hux : u.column = x) (hf : s.findCol x = some col) (hd : col.kind.isData = true)
    (hna : (applyData s.hash col chunk (u.rangeOps chunk)).appended = []) :
    ∃ u', (cuStep chunk (s, done, b) u).2.1 = done ++ [u'] ∧ u'.column = u.column ∧
      u'.rangeOps chunk = (applyData s.hash col chunk (u.rangeOps chunk)).ops := by
  unfold cuStep
  simp only
  by_cases he : u.isEmpty = true
  · have hskip : (u.isEmpty || u.column == rowColumn) = true := by simp [he]
    rw [if_pos hskip]
    refine ⟨u, rfl, rfl, ?_⟩
    rw [isEmpty_range u he chunk, applyData_ops_nil]
  · have hskip : ¬ (u.isEmpty || u.column == rowColumn) = true := by
      rw [hux]; simpa [he] using hxr
    rw [if_neg hskip, hux, hf]
    simp only
    rw [if_pos hd]
    exact ⟨_, rfl, (mainPass_general s.hash col chunk u).2.trans hux, mainPassG_rangeOps s.hash col chunk u hna⟩

theorem cuStep_other_ops (chunk : Nat) (s : Store) (done : List Buf) (b : Bool) (u : Buf) :
    ∃ u', (cuStep chunk (s, done, b) u).2.1 = done ++ [u'] ∧ u'.column = u.column := by
  obtain ⟨u', h1, h2, _⟩ := cuStep_relP chunk s s done b u (RegSim.refl s)
  exact ⟨u', h1, h2⟩

/-- **`commitUpdates`, the buffers handed on**: the buffer(s) of the data column `x` hold, for the chunk, the ops as the
    main pass rewrote them -/
theorem cuFold_ops (x : String) (chunk : Nat) (hxr : x ≠ rowColumn) (ups : List Buf) :
    ∀ (s : Store) (done : List Buf) (b : Bool) (col : Col), s.findCol x = some col → col.kind.isData = true →
      (∀ v ∈ ups, ∀ c, s.findCol v.column = some c → x ∉ c.computed) →
      (applyData s.hash col chunk (opsFor ups x chunk)).appended = [] →
      ∃ ups', (ups.foldl (cuStep chunk) (s, done, b)).2.1 = done ++ ups' ∧
        opsFor ups' x chunk = (applyData s.hash col chunk (opsFor ups x chunk)).ops := by
  induction ups with
  | nil =>
    intro s done b col _ _ _ _
    refine ⟨[], by simp, ?_⟩
    have : opsFor [] x chunk = [] := rfl
    rw [this, applyData_ops_nil]
  | cons u us ih =>
    intro s done b col hf hd hcomp hna
    simp only [List.foldl_cons]
    have hsim := cuStep_sim chunk s done b u
    have hcomp' : ∀ v ∈ us, ∀ c, (cuStep chunk (s, done, b) u).1.findCol v.column = some c → x ∉ c.computed := by
      intro v hv c hc
      obtain ⟨c0, hc0, sg⟩ := hsim.sig_back hc
      rw [sg.computed]
      exact hcomp v (by simp [hv]) c0 hc0
    have hhash := hsim.hash
    by_cases hux : u.column = x
    · rw [opsFor_cons_self u us x chunk hux, applyData_appended_append, List.append_eq_nil_iff] at hna
      obtain ⟨f1, _⟩ := cuStep_self_col chunk s done b u x col hxr hux hf hd
        (hcomp u (by simp) col (hux ▸ hf)) hna.1
      obtain ⟨u', e1, c1, o1⟩ := cuStep_self_ops chunk s done b u x col hxr hux hf hd hna.1
      generalize cuStep chunk (s, done, b) u = r at f1 hcomp' hhash e1
      obtain ⟨r1s, r2, r3⟩ := r
      simp only at f1 hcomp' hhash e1
      obtain ⟨us', e2, o2⟩ := ih r1s r2 r3 _ f1
        (by rw [(applyData_sameShape s.hash col chunk (u.rangeOps chunk)).kind]; exact hd) hcomp'
        (by rw [hhash]; exact hna.2)
      refine ⟨u' :: us', ?_, ?_⟩
      · rw [e2, e1]; simp
      · rw [opsFor_cons_self u' us' x chunk (c1.trans hux), o1, o2, hhash, opsFor_cons_self u us x chunk hux,
          applyData_ops_append]
    · rw [opsFor_cons_other u us x chunk hux] at hna
      obtain ⟨f1, _⟩ := cuStep_other_col chunk s done b u x hux (hcomp u (by simp))
      obtain ⟨u', e1, c1⟩ := cuStep_other_ops chunk s done b u
      rw [hf] at f1
      generalize cuStep chunk (s, done, b) u = r at f1 hcomp' hhash e1
      obtain ⟨r1s, r2, r3⟩ := r
      simp only at f1 hcomp' hhash e1
      obtain ⟨us', e2, o2⟩ := ih r1s r2 r3 col f1 hd hcomp' (by rw [hhash]; exact hna)
      refine ⟨u' :: us', ?_, ?_⟩
      · rw [e2, e1]; simp
      · rw [opsFor_cons_other u' us' x chunk (by rw [c1]; exact hux), o2, hhash, opsFor_cons_other u us x chunk hux]

/-- **what `commitChunk` hands to the logger** for a data column `x` (nothing appended — always so for numeric, enum and key
    columns): the ops the transaction issued for `x` in the chunk, as rewritten by `applyData` in the column state the
    markers leave — every `Merge` replaced by the `Put` of its result -/
theorem commitChunk_ops (s : Store) (chunk : Nat) (cr : Bool) (ups : List Buf) (x : String) (col : Col)
    (hxr : x ≠ rowColumn) (hf : s.findCol x = some col) (hd : col.kind.isData = true)
    (hcomp : ∀ v ∈ ups, ∀ c, s.findCol v.column = some c → x ∉ c.computed)
    (hna : (applyData s.hash (applyData s.hash col chunk (markerOpsCr cr ups chunk)).col chunk
      (opsFor ups x chunk)).appended = []) :
    opsFor (s.commitChunk chunk cr ups).2 x chunk =
      (applyData s.hash (applyData s.hash col chunk (markerOpsCr cr ups chunk)).col chunk (opsFor ups x chunk)).ops := by
  rw [commitChunk_def]
  obtain ⟨f1, _⟩ := finishChunk_fields (s.nextId + 1) chunk cr
    ((markStore s chunk cr ups).commitUpdates chunk ups)
  have hreg := markStore_regSim s chunk cr ups
  have fm := markStore_col s chunk cr ups x col hf hd
  have hh := markStore_hash s chunk cr ups
  generalize markStore s chunk cr ups = ms at f1 hreg fm hh
  have hcomp' : ∀ v ∈ ups, ∀ c, ms.findCol v.column = some c → x ∉ c.computed := by
    intro v hv c hc
    obtain ⟨c0, hc0, sg⟩ := hreg.sig_back hc
    rw [sg.computed]
    exact hcomp v hv c0 hc0
  obtain ⟨ups', e1, o1⟩ := cuFold_ops x chunk hxr ups ms [] false _ fm
    (by rw [(applyData_sameShape s.hash col chunk _).kind]; exact hd) hcomp' (by rw [hh]; exact hna)
  rw [f1, commitUpdates_eq, e1, List.nil_append, o1, hh]

/-- the marker buffer is handed on untouched -/
theorem commitChunk_markerOps (s : Store) (chunk : Nat) (cr : Bool) (ups : List Buf) (c : Nat) :
    markerOps (s.commitChunk chunk cr ups).2 c = markerOps ups c := by
  unfold markerOps
  have := StorePlumb.commitChunk_markers s chunk cr ups
  unfold StorePlumb.isMarkerBuf at this
  unfold isMarkerBuf
  rw [this]

/-! ## C — one chunk on both sides -/

/-! ### key columns: never rewritten; the key table follows the slots -/

/-- what `stepKey` does to the key table is determined by the op, the slot of its offset and the key table -/
theorem stepKey_seek_congr (acc acc2 : ApplyAcc) (o : Op) (hs : slot acc2.1 o.idx = slot acc.1 o.idx)
    (hseek : acc2.1.seek = acc.1.seek) : (stepKey acc2 o).1.seek = (stepKey acc o).1.seek := by
  obtain ⟨c, done, app⟩ := acc
  obtain ⟨c2, done2, app2⟩ := acc2
  simp only at hs hseek
  unfold slot at hs
  have hb : Bits.get c2.bits o.idx = Bits.get c.bits o.idx := congrArg Prod.fst hs
  have hd : c2.data.getD o.idx [] = c.data.getD o.idx [] := by
    rw [getD_eq, getD_eq]; exact congrArg Prod.snd hs
  unfold stepKey
  simp only
  split
  · simp only [hb, hd, hseek]
  · split
    · simp only [hd, hseek]
    · exact hseek

/-- two key columns with the same slots and the same key table, the same in-bounds ops: again the same slots and key table -/
theorem foldKey_sync (ops : List Op) :
    ∀ (acc acc2 : ApplyAcc), InBounds acc.1 ops → InBounds acc2.1 ops → (∀ i, slot acc2.1 i = slot acc.1 i) →
      acc2.1.seek = acc.1.seek →
      (ops.foldl stepKey acc2).1.seek = (ops.foldl stepKey acc).1.seek ∧
      ∀ i, slot (ops.foldl stepKey acc2).1 i = slot (ops.foldl stepKey acc).1 i := by
  induction ops with
  | nil => intro acc acc2 _ _ hs hseek; exact ⟨hseek, hs⟩
  | cons o os ih =>
    intro acc acc2 hin hin2 hs hseek
    simp only [List.foldl_cons]
    have ho := hin o (by simp)
    have ho2 := hin2 o (by simp)
    have hsh := stepKey_shape acc o
    have hsh2 := stepKey_shape acc2 o
    apply ih
    · intro x hx
      have := hin x (by simp [hx])
      rw [hsh.bsize, hsh.dsize]; exact this
    · intro x hx
      have := hin2 x (by simp [hx])
      rw [hsh2.bsize, hsh2.dsize]; exact this
    · intro i
      rw [stepKey_slot acc2 o i ho2.1 ho2.2, stepKey_slot acc o i ho.1 ho.2, hs i]
    · exact stepKey_seek_congr acc acc2 o (hs o.idx) hseek

theorem applyData_key_sync (hash hash2 : Bytes → Nat) (c c2 : Col) (chunk : Nat) (ops : List Op)
    (hk : c.kind = .key) (hk2 : c2.kind = .key) (hc : chunk < c.nchunks) (hc2 : chunk < c2.nchunks)
    (hin : InBounds c ops) (hin2 : InBounds c2 ops) (hs : ∀ i, slot c2 i = slot c i) (hseek : c2.seek = c.seek) :
    (applyData hash2 c2 chunk ops).col.seek = (applyData hash c chunk ops).col.seek := by
  rw [applyData_key hash c chunk ops hk hc, applyData_key hash2 c2 chunk ops hk2 hc2]
  exact (foldKey_sync ops (c, [], []) (c2, [], []) hin hin2 hs hseek).1

/-- a key column hands every section on as it is (it has no merge to rewrite) -/
theorem applyData_ops_key (hash : Bytes → Nat) (c : Col) (chunk : Nat) (ops : List Op) (hk : c.kind = .key) :
    (applyData hash c chunk ops).ops = ops := by
  by_cases hc : chunk < c.nchunks
  · rw [(applyData_of_lt hash c chunk ops hc).2.1, hk]
    have key : ∀ (l : List Op) (acc : ApplyAcc), (l.foldl (stepOf hash .key) acc).2.1 = l.reverse ++ acc.2.1 := by
      intro l
      induction l with
      | nil => intro acc; rfl
      | cons o os ih =>
        intro acc
        simp only [List.foldl_cons]
        rw [ih]
        have : (stepOf hash .key acc o).2.1 = o :: acc.2.1 := by
          obtain ⟨c, done, app⟩ := acc
          show (stepKey (c, done, app) o).2.1 = o :: done
          unfold stepKey
          simp only
          split
          · rfl
          · split <;> rfl
        rw [this]
        simp
    rw [key ops (c, [], [])]
    simp
  · rw [applyData_of_ge hash c chunk ops (by omega)]

/-- numeric, string and record columns never touch the key table -/
theorem stepOf_seek_of_not_key (hash : Bytes → Nat) (k : Kind)
    (hk : (∃ nk, k = .num nk) ∨ k = .str ∨ k = .record) (acc : ApplyAcc) (o : Op) :
    (stepOf hash k acc o).1.seek = acc.1.seek := by
  obtain ⟨c, done, app⟩ := acc
  rcases hk with ⟨nk, rfl⟩ | rfl | rfl
  · show (stepNum nk (c, done, app) o).1.seek = c.seek
    unfold stepNum
    simp only
    split
    · rfl
    · split
      · rfl
      · split <;> rfl
  · show (stepStr (c, done, app) o).1.seek = c.seek
    unfold stepStr
    simp only
    split
    · rfl
    · split
      · split <;> rfl
      · split <;> rfl
  · show (stepStr (c, done, app) o).1.seek = c.seek
    unfold stepStr
    simp only
    split
    · rfl
    · split
      · split <;> rfl
      · split <;> rfl

theorem applyData_seek_of_not_key (hash : Bytes → Nat) (c : Col) (chunk : Nat) (ops : List Op)
    (hk : (∃ nk, c.kind = .num nk) ∨ c.kind = .str ∨ c.kind = .record) : (applyData hash c chunk ops).col.seek = c.seek := by
  by_cases hc : chunk < c.nchunks
  · rw [(applyData_of_lt hash c chunk ops hc).1]
    exact foldl_invariant (fun (a : ApplyAcc) => a.1.seek = c.seek) (stepOf hash c.kind) ops (c, [], []) rfl
      (fun b a _ hb => (stepOf_seek_of_not_key hash c.kind hk b a).trans hb)
  · rw [applyData_of_ge hash c chunk ops (by omega)]

/-- numeric, string or record -/
def NotKeyKind (k : Kind) : Prop := (∃ nk, k = .num nk) ∨ k = .str ∨ k = .record

/-- the pairs of kinds the replication theorems cover: numeric on both sides (the two numeric kinds may differ), string /
    record on both sides, or key on both sides -/
def KindsMatch (kp kq : Kind) : Prop :=
  (∃ k k2, kp = .num k ∧ kq = .num k2) ∨ ((kp = .str ∨ kp = .record) ∧ (kq = .str ∨ kq = .record)) ∨
    (kp = .key ∧ kq = .key)

theorem KindsMatch.isData {kp kq : Kind} (h : KindsMatch kp kq) : kp.isData = true ∧ kq.isData = true := by
  rcases h with ⟨k, k2, rfl, rfl⟩ | ⟨h1 | h1, h2 | h2⟩ | ⟨h1, h2⟩ <;> subst_vars <;> exact ⟨rfl, rfl⟩

theorem KindsMatch.storesRaw {kp kq : Kind} (h : KindsMatch kp kq) : kp.storesRaw = true ∧ kq.storesRaw = true := by
  rcases h with ⟨k, k2, rfl, rfl⟩ | ⟨h1 | h1, h2 | h2⟩ | ⟨h1, h2⟩ <;> subst_vars <;> exact ⟨rfl, rfl⟩

theorem KindsMatch.congr {kp kq kp' kq' : Kind} (h : KindsMatch kp kq) (e1 : kp' = kp) (e2 : kq' = kq) :
    KindsMatch kp' kq' := by rw [e1, e2]; exact h

theorem KindsMatch.cases {kp kq : Kind} (h : KindsMatch kp kq) :
    (NotKeyKind kp ∧ NotKeyKind kq) ∨ (kp = .key ∧ kq = .key) := by
  rcases h with ⟨k, k2, h1, h2⟩ | ⟨h1, h2⟩ | h
  · exact Or.inl ⟨Or.inl ⟨k, h1⟩, Or.inl ⟨k2, h2⟩⟩
  · exact Or.inl ⟨Or.inr h1, Or.inr h2⟩
  · exact Or.inr h

/-- an op that is not a `Merge` is handed on as it is, by every kind -/
theorem stepOf_done_of_no_merge (hash : Bytes → Nat) (k : Kind) (acc : ApplyAcc) (o : Op) (h : o.typ ≠ opMerge) :
    (stepOf hash k acc o).2.1 = o :: acc.2.1 := by
  obtain ⟨c, done, app⟩ := acc
  cases k with
  | num nk =>
    show (stepNum nk (c, done, app) o).2.1 = o :: done
    unfold stepNum
    simp only
    split
    · rfl
    · split <;> rfl
  | str =>
    show (stepStr (c, done, app) o).2.1 = o :: done
    unfold stepStr
    simp only
    split
    · rfl
    · split <;> rfl
  | record =>
    show (stepStr (c, done, app) o).2.1 = o :: done
    unfold stepStr
    simp only
    split
    · rfl
    · split <;> rfl
  | enum =>
    show (stepEnum hash (c, done, app) o).2.1 = o :: done
    unfold stepEnum
    simp only
    split
    · rfl
    · split <;> rfl
  | key =>
    show (stepKey (c, done, app) o).2.1 = o :: done
    unfold stepKey
    simp only
    split
    · rfl
    · split <;> rfl
  | bool => rfl
  | index t r => rfl
  | trigger t => rfl
  | sorted t => rfl

/-- a section without `Merge` is handed on as it is (any kind) -/
theorem applyData_ops_of_no_merge (hash : Bytes → Nat) (c : Col) (chunk : Nat) (ops : List Op)
    (h : ∀ o ∈ ops, o.typ ≠ opMerge) : (applyData hash c chunk ops).ops = ops := by
  by_cases hc : chunk < c.nchunks
  · rw [(applyData_of_lt hash c chunk ops hc).2.1]
    have key : ∀ (l : List Op) (acc : ApplyAcc), (∀ o ∈ l, o.typ ≠ opMerge) →
        (l.foldl (stepOf hash c.kind) acc).2.1 = l.reverse ++ acc.2.1 := by
      intro l
      induction l with
      | nil => intro acc _; rfl
      | cons o os ih =>
        intro acc hl
        simp only [List.foldl_cons]
        rw [ih _ (fun x hx => hl x (by simp [hx])), stepOf_done_of_no_merge hash c.kind acc o (hl o (by simp))]
        simp
    rw [key ops (c, [], []) h]
    simp
  · rw [applyData_of_ge hash c chunk ops (by omega)]

/-- numeric, string and record columns leave no `Merge` in the section they hand on -/
theorem stepOf_done_no_merge (hash : Bytes → Nat) (k : Kind)
    (hk : (∃ nk, k = .num nk) ∨ k = .str ∨ k = .record) (acc : ApplyAcc) (o : Op)
    (h : ∀ x ∈ acc.2.1, x.typ ≠ opMerge) : ∀ x ∈ (stepOf hash k acc o).2.1, x.typ ≠ opMerge := by
  by_cases hm : o.typ = opMerge
  · obtain ⟨c, done, app⟩ := acc
    have hpm : opPut ≠ opMerge := by decide
    have hsm : opSkip ≠ opMerge := by decide
    have hpo : o.typ ≠ opPut := by rw [hm]; decide
    rcases hk with ⟨nk, rfl⟩ | rfl | rfl
    · show ∀ x ∈ (stepNum nk (c, done, app) o).2.1, _
      unfold stepNum
      simp only
      rw [if_neg hpo, if_pos hm]
      intro x hx
      rcases List.mem_cons.1 hx with rfl | hx
      · exact hpm
      · exact h x hx
    · show ∀ x ∈ (stepStr (c, done, app) o).2.1, _
      unfold stepStr
      simp only
      rw [if_neg hpo, if_pos hm]
      split
      · intro x hx
        rcases List.mem_cons.1 hx with rfl | hx
        · exact hpm
        · exact h x hx
      · intro x hx
        rcases List.mem_cons.1 hx with rfl | hx
        · exact hsm
        · exact h x hx
    · show ∀ x ∈ (stepStr (c, done, app) o).2.1, _
      unfold stepStr
      simp only
      rw [if_neg hpo, if_pos hm]
      split
      · intro x hx
        rcases List.mem_cons.1 hx with rfl | hx
        · exact hpm
        · exact h x hx
      · intro x hx
        rcases List.mem_cons.1 hx with rfl | hx
        · exact hsm
        · exact h x hx
  · rw [stepOf_done_of_no_merge hash k acc o hm]
    intro x hx
    rcases List.mem_cons.1 hx with rfl | hx
    · exact hm
    · exact h x hx

theorem applyData_ops_no_merge (hash : Bytes → Nat) (c : Col) (chunk : Nat) (ops : List Op)
    (hk : (∃ nk, c.kind = .num nk) ∨ c.kind = .str ∨ c.kind = .record) (hc : chunk < c.nchunks) :
    ∀ o ∈ (applyData hash c chunk ops).ops, o.typ ≠ opMerge := by
  rw [(applyData_of_lt hash c chunk ops hc).2.1]
  have := foldl_invariant (fun (a : ApplyAcc) => ∀ x ∈ a.2.1, x.typ ≠ opMerge) (stepOf hash c.kind) ops (c, [], [])
    (by intro x hx; cases hx) (fun b a _ hb => stepOf_done_no_merge hash c.kind hk b a hb)
  intro o ho
  exact this o (List.mem_reverse.1 ho)

/-- **the column-level law** (`Props/C06`: `replica_stays_in_sync_num`, `replica_stays_in_sync_str_noresize`, per offset; key
    columns: the section is handed on as it is): the section appended nothing on the primary; an offset in sync before is in
    sync after the replica replays the rewritten section -/
theorem applyData_sync_slot (hash hash2 : Bytes → Nat) (c c2 : Col) (chunk : Nat) (ops : List Op) (i : Nat)
    (hm : KindsMatch c.kind c2.kind) (hc : chunk < c.nchunks) (hc2 : chunk < c2.nchunks)
    (hin : InBounds c ops) (hin2 : InBounds c2 ops) (ha : (applyData hash c chunk ops).appended = [])
    (hs : slot c2 i = slot c i) :
    slot (applyData hash2 c2 chunk (applyData hash c chunk ops).ops).col i = slot (applyData hash c chunk ops).col i := by
  rcases hm with ⟨k, k2, hk, hk2⟩ | ⟨hk, hk2⟩ | ⟨hk, hk2⟩
  · have h := applyData_num_replay hash hash2 k k2 c c2 chunk ops i hk hk2 hc hc2 hin hin2 (Or.inr hs)
    rw [ha, List.append_nil] at h
    exact h
  · have ha' := ha
    rw [applyData_str hash c chunk ops hk hc] at ha'
    have h := applyData_str_replay hash hash2 c c2 chunk ops i hk hk2 hc hc2 hin hin2
      (noOpAfterResize_of_appended_nil c ops hin ha' i) (Or.inr hs)
    rw [ha, List.append_nil] at h
    exact h
  · rw [applyData_ops_key hash c chunk ops hk, slotLaw_key hash2 c2.merge c2 chunk ops i hk2 rfl hc2 hin2,
      slotLaw_key hash c.merge c chunk ops i hk rfl hc hin, hs]

theorem colChunks_one (hash : Bytes → Nat) (ups : List Buf) (x : String) (ch : Nat) (col : Col) :
    colChunks hash ups x [ch] col = (applyData hash col ch (markerOps ups ch ++ opsFor ups x ch)).col := rfl

/-- **one chunk, one data column, both sides.** The primary `s` runs the latch section of chunk `ch` (`commitChunk`) and
    hands the rewritten buffers to the logger; the replica `r` replays a delivery `bufs` of them (`Delivers`: `.log` always,
    `.channel` for single-chunk transactions). Kinds: numeric on both sides, string / record on both sides, or key on both
    sides (`KindsMatch`); `hna`: the primary's pass over the ops of `x` appends nothing (automatic for numeric and key
    columns; for strings: no resizing merge takes effect). Every offset whose slot agreed before agrees after; offsets of
    other chunks are not touched on either side; columns with equal slots and equal key tables keep equal key tables. The
    replica's merge function and hash are never consulted. -/
theorem chunk_replay_data (s r : Store) (ch : Nat) (cr : Bool) (ups bufs : List Buf) (x : String) (cp cq : Col)
    (hcr : cr = (ups.find? isMarkerBuf).isSome) (hxr : x ≠ rowColumn)
    (hfp : s.findCol x = some cp) (hfr : r.findCol x = some cq) (hkm : KindsMatch cp.kind cq.kind)
    (hwp : ColWF cp) (hwr : ColWF cq) (hchp : ch < cp.nchunks) (hcovr : r.commits.size ≤ cq.nchunks)
    (hcompP : ∀ v ∈ ups, ∀ c, s.findCol v.column = some c → x ∉ c.computed)
    (hcompR : ∀ v ∈ nonEmpty bufs, ∀ c, r.findCol v.column = some c → x ∉ c.computed)
    (hco : ∀ o ∈ markerOps ups ch ++ opsFor ups x ch, chunkOf o.idx = ch)
    (hmk : ∀ o ∈ markerOps ups ch, o.typ ≠ opMerge)
    (hna0 : (applyData s.hash (applyData s.hash cp ch (markerOps ups ch)).col ch (opsFor ups x ch)).appended = [])
    (hdel : Delivers (s.commitChunk ch cr ups).2 ch bufs) :
    ∃ cp' cq', (s.commitChunk ch cr ups).1.findCol x = some cp' ∧ (r.replay ch bufs).findCol x = some cq' ∧
      cp' = (applyData s.hash cp ch (chunkOps ups x ch)).col ∧
      SameShape cp cp' ∧ cq'.kind = cq.kind ∧ ColWF cq' ∧ (r.replay ch bufs).commits.size ≤ cq'.nchunks ∧
      (∀ i, slot cq i = slot cp i → slot cq' i = slot cp' i) ∧
      (∀ i, chunkOf i ≠ ch → slot cq' i = slot cq i ∧ slot cp' i = slot cp i) ∧
      ((∀ i, slot cq i = slot cp i) → cq.seek = cp.seek → cq'.seek = cp'.seek) := by
  subst hcr
  obtain ⟨hdp, hdr⟩ := hkm.isData
  -- the primary
  have hna : (applyData s.hash (applyData s.hash cp ch (markerOpsCr (ups.find? isMarkerBuf).isSome ups ch)).col ch
      (opsFor ups x ch)).appended = [] := by rw [markerOpsCr_isSome]; exact hna0
  obtain ⟨f1, _, _⟩ := commitChunk_col_full s ch _ ups x cp hxr hfp hdp hcompP hna
  have o1 := commitChunk_ops s ch _ ups x cp hxr hfp hdp hcompP hna
  have m1 := commitChunk_markerOps s ch (ups.find? isMarkerBuf).isSome ups ch
  rw [markerOpsCr_isSome] at f1 o1
  -- what is handed on is the rewritten `markers ++ ops`
  have hem : markerOps ups ch ++ opsFor (s.commitChunk ch (ups.find? isMarkerBuf).isSome ups).2 x ch =
      (applyData s.hash cp ch (markerOps ups ch ++ opsFor ups x ch)).ops := by
    rw [applyData_ops_append, applyData_ops_of_no_merge s.hash cp ch _ hmk, o1]
  have hshm := applyData_sameShape s.hash cp ch (markerOps ups ch)
  have happ : (applyData s.hash cp ch (markerOps ups ch ++ opsFor ups x ch)).appended = [] := by
    rw [applyData_appended_append, applyData_appended_nil_of_no_merge s.hash cp ch _ hmk, hna0]
    rfl
  -- the replica
  have hdirty := replayTxn_dirtyChunks ch bufs hdel.chunks
  have hcd := capCol_data r (replayTxn ch bufs) cq hdr
  obtain ⟨_, hcm2, _, _⟩ := capCol_meta r (replayTxn ch bufs) cq
  have hnaR : NoAppend r.hash (replayTxn ch bufs).updates x (replayTxn ch bufs).dirtyChunks
      (capCol r (replayTxn ch bufs) cq) := by
    rcases hkm.cases with ⟨hl, _⟩ | ⟨_, hq⟩
    · apply NoAppend_of_no_merge
      intro c hc o ho
      rw [hdirty] at hc
      simp only [List.mem_singleton] at hc
      subst hc
      have : opsFor (replayTxn c bufs).updates x c = opsFor (nonEmpty bufs) x c := rfl
      rw [this, hdel.ops x, o1] at ho
      exact applyData_ops_no_merge s.hash _ c _ (by rw [hshm.kind]; exact hl) (by rw [hshm.nchunks]; exact hchp) o ho
    · exact NoAppend_of_kind _ _ _ _ _ (by rw [hcm2, hq]; exact ⟨by simp, by simp⟩)
  have f2 := commit_col r (replayTxn ch bufs) x cq hxr hfr hdr hcompR hnaR
  rw [hdirty, colChunks_one] at f2
  have hops : markerOps (replayTxn ch bufs).updates ch ++ opsFor (replayTxn ch bufs).updates x ch =
      (applyData s.hash cp ch (markerOps ups ch ++ opsFor ups x ch)).ops := by
    show markerOps (nonEmpty bufs) ch ++ opsFor (nonEmpty bufs) x ch = _
    rw [hdel.markers, hdel.ops x, m1, hem]
  rw [hops] at f2
  generalize hc2 : capCol r (replayTxn ch bufs) cq = c2 at f2 hcd hcm2
  obtain ⟨hc2k, _, hc2n, hc2s, hc2w, hc2c⟩ := hcd
  have hw2 : ColWF c2 := hc2w hwr
  have hch2 : ch < c2.nchunks := hc2c hcovr ch (by rw [hdirty]; simp)
  have hin : InBounds cp (markerOps ups ch ++ opsFor ups x ch) := inBounds_of_chunk cp ch _ hwp hchp hco
  have hin2 : InBounds c2 (markerOps ups ch ++ opsFor ups x ch) := inBounds_of_chunk c2 ch _ hw2 hch2 hco
  have hsh := applyData_sameShape s.hash cp ch (markerOps ups ch ++ opsFor ups x ch)
  have hsh2 := applyData_sameShape r.hash c2 ch (applyData s.hash cp ch (markerOps ups ch ++ opsFor ups x ch)).ops
  refine ⟨_, _, f1, f2, rfl, hsh, hsh2.kind.trans hcm2, ColWF.of_shape hsh2 hw2, ?_, ?_, ?_, ?_⟩
  · rw [replay_eq]
    apply commit_cov r (replayTxn ch bufs) cq _ hcovr
    · rw [hsh2.nchunks]; exact hc2n
    · intro c hc
      rw [hdirty] at hc
      simp only [List.mem_singleton] at hc
      rw [hc, hsh2.nchunks]; exact hch2
  · intro i hs
    exact applyData_sync_slot s.hash r.hash cp c2 ch _ i (hkm.congr rfl hcm2) hchp hch2 hin hin2 happ
      ((hc2s i).trans hs)
  · intro i hi
    refine ⟨?_, applyData_chunk_frame s.hash cp ch _ i hco hi⟩
    rw [applyData_chunk_frame r.hash c2 ch _ i ?_ hi, hc2s i]
    exact (applyData_idx s.hash cp ch _ (fun j => chunkOf j = ch) hco).1
  · intro hs hseek
    rcases hkm.cases with ⟨hl, hq⟩ | ⟨hk, hq⟩
    · rw [applyData_seek_of_not_key r.hash c2 ch _ (by rw [hcm2]; exact hq), applyData_seek_of_not_key s.hash cp ch _ hl,
        hc2k, hseek]
    · rw [applyData_ops_key s.hash cp ch _ hk]
      exact applyData_key_sync s.hash r.hash cp c2 ch _ hk (hcm2.trans hq) hchp hch2 hin hin2
        (fun i => (hc2s i).trans (hs i)) (hc2k.trans hseek)

theorem kindsMatch_num {kp kq : Kind} {k k2 : NumKind} (h1 : kp = .num k) (h2 : kq = .num k2) : KindsMatch kp kq :=
  Or.inl ⟨k, k2, h1, h2⟩

theorem appended_nil_num (hash : Bytes → Nat) (c : Col) (k : NumKind) (hk : c.kind = .num k) (ch : Nat) (ops : List Op) :
    (applyData hash c ch ops).appended = [] :=
  applyData_appended_nil_of_kind hash c ch ops (by rw [hk]; exact ⟨by simp, by simp⟩)

/-- the numeric instance: no side condition on the ops -/
theorem chunk_replay_num (s r : Store) (ch : Nat) (cr : Bool) (ups bufs : List Buf) (x : String) (cp cq : Col)
    (k k2 : NumKind) (hcr : cr = (ups.find? isMarkerBuf).isSome) (hxr : x ≠ rowColumn)
    (hfp : s.findCol x = some cp) (hfr : r.findCol x = some cq) (hkp : cp.kind = .num k) (hkr : cq.kind = .num k2)
    (hwp : ColWF cp) (hwr : ColWF cq) (hchp : ch < cp.nchunks) (hcovr : r.commits.size ≤ cq.nchunks)
    (hcompP : ∀ v ∈ ups, ∀ c, s.findCol v.column = some c → x ∉ c.computed)
    (hcompR : ∀ v ∈ nonEmpty bufs, ∀ c, r.findCol v.column = some c → x ∉ c.computed)
    (hco : ∀ o ∈ markerOps ups ch ++ opsFor ups x ch, chunkOf o.idx = ch)
    (hmk : ∀ o ∈ markerOps ups ch, o.typ ≠ opMerge)
    (hdel : Delivers (s.commitChunk ch cr ups).2 ch bufs) :
    ∃ cp' cq', (s.commitChunk ch cr ups).1.findCol x = some cp' ∧ (r.replay ch bufs).findCol x = some cq' ∧
      SameShape cp cp' ∧ cq'.kind = cq.kind ∧ ColWF cq' ∧ (r.replay ch bufs).commits.size ≤ cq'.nchunks ∧
      (∀ i, slot cq i = slot cp i → slot cq' i = slot cp' i) ∧
      (∀ i, chunkOf i ≠ ch → slot cq' i = slot cq i ∧ slot cp' i = slot cp i) := by
  obtain ⟨cp', cq', g1, g2, _, g3, g4, g5, g6, g7, g8, _⟩ := chunk_replay_data s r ch cr ups bufs x cp cq hcr hxr hfp hfr
    (kindsMatch_num hkp hkr) hwp hwr hchp hcovr hcompP hcompR hco hmk
    (appended_nil_num _ _ k (by rw [(applyData_sameShape s.hash cp ch _).kind]; exact hkp) _ _) hdel
  exact ⟨cp', cq', g1, g2, g3, g4, g5, g6, g7, g8⟩

/-- a transaction with one dirty chunk: `commit` is `commitCapacity` followed by that chunk's latch section -/
theorem commit_one_chunk (r : Store) (t : Txn) (ch : Nat) (h : t.dirtyChunks = [ch]) :
    r.commit t = ((r.commitCapacity ch).commitChunk ch t.markers.isSome t.updates).1 := by
  rw [commit_eq']
  unfold capStore commitLoop
  rw [h]
  rfl

theorem commitCapacity_fill_get (s : Store) (last j : Nat) :
    Bits.get (s.commitCapacity last).fill j = Bits.get s.fill j := by
  rcases commitCapacity_cases s last with ⟨_, h2⟩ | ⟨_, _, _, h4, _⟩
  · rw [h2]
  · rw [h4, get_grow]

/-- the fill list after one latch section, as `Txn.commit` calls it -/
theorem commitChunk_fill (s : Store) (ch : Nat) (ups : List Buf) :
    (s.commitChunk ch (ups.find? isMarkerBuf).isSome ups).1.fill = (markerOps ups ch).foldl fillStep s.fill := by
  rw [(commitChunk_gen s ch _ ups).2.2.2.2, markStore_fill]

/-- **one chunk, the fill list, both sides**: a fill bit that agreed before agrees after the replica replayed the chunk -/
theorem chunk_replay_fill (s r : Store) (ch : Nat) (cr : Bool) (ups bufs : List Buf)
    (hcr : cr = (ups.find? isMarkerBuf).isSome) (hdel : Delivers (s.commitChunk ch cr ups).2 ch bufs) (j : Nat)
    (hs : Bits.get r.fill j = Bits.get s.fill j) :
    Bits.get (r.replay ch bufs).fill j = Bits.get (s.commitChunk ch cr ups).1.fill j := by
  subst hcr
  have m1 := commitChunk_markerOps s ch (ups.find? isMarkerBuf).isSome ups ch
  rw [commitChunk_fill, replay_eq, commit_one_chunk r _ ch (replayTxn_dirtyChunks ch bufs hdel.chunks)]
  have hmk : (replayTxn ch bufs).markers.isSome = ((replayTxn ch bufs).updates.find? isMarkerBuf).isSome := rfl
  rw [hmk, commitChunk_fill]
  have hm2 : markerOps (replayTxn ch bufs).updates ch = markerOps ups ch := by
    show markerOps (nonEmpty bufs) ch = _
    rw [hdel.markers, m1]
  rw [hm2, foldFill_get, foldFill_get, commitCapacity_fill_get, hs]

/-! ## D — the chunk loop, `commit`, sequences of commits -/

theorem commitChunk_find_marker (s : Store) (chunk : Nat) (cr : Bool) (ups : List Buf) :
    (s.commitChunk chunk cr ups).2.find? isMarkerBuf = ups.find? isMarkerBuf :=
  StorePlumb.commitChunk_markers s chunk cr ups

/-- what one latch section hands to the logger: nothing, or — when the transaction has markers or a non-empty buffer of an
    existing column — one entry with the buffers as this chunk's pass leaves them -/
def chunkEmitted (cr : Bool) (c : Nat) (s : Store) (ups : List Buf) : List Emitted :=
  if (cr || StorePlumb.updatedFlag s ups) = true then [⟨s.nextId + 1, c, (s.commitChunk c cr ups).2⟩] else []

/-- the entries the chunk loop hands to the logger, in emission order (oldest first) -/
def loopEmitted (cr : Bool) : List Nat → Store → List Buf → List Emitted
  | [], _, _ => []
  | c :: cs, s, ups =>
    chunkEmitted cr c s ups ++ loopEmitted cr cs (s.commitChunk c cr ups).1 (s.commitChunk c cr ups).2

theorem loopEmitted_cons (cr : Bool) (c : Nat) (cs : List Nat) (s : Store) (ups : List Buf) :
    loopEmitted cr (c :: cs) s ups =
      chunkEmitted cr c s ups ++ loopEmitted cr cs (s.commitChunk c cr ups).1 (s.commitChunk c cr ups).2 := rfl

theorem commitLoop_cons (cr : Bool) (c : Nat) (cs : List Nat) (s : Store) (ups : List Buf) :
    commitLoop cr (c :: cs) s ups = commitLoop cr cs (s.commitChunk c cr ups).1 (s.commitChunk c cr ups).2 := rfl

/-- the change stream after the loop (most recent first) -/
theorem commitLoop_emitted (cr : Bool) (cs : List Nat) :
    ∀ (s : Store) (ups : List Buf), s.logger ≠ .none →
      (commitLoop cr cs s ups).1.emitted = (loopEmitted cr cs s ups).reverse ++ s.emitted := by
  induction cs with
  | nil => intro s ups _; rfl
  | cons c cs ih =>
    intro s ups hl
    have hl1 : (s.commitChunk c cr ups).1.logger ≠ .none := by
      rw [(StorePlumb.commitChunk_plumb s c cr ups).logger]; exact hl
    rw [commitLoop_cons, ih _ _ hl1, StorePlumb.commitChunk_emitted s hl, loopEmitted_cons]
    unfold chunkEmitted
    by_cases hE : (cr || StorePlumb.updatedFlag s ups) = true
    · rw [if_pos hE, if_pos hE]; simp
    · rw [if_neg hE, if_neg hE]; simp

/-- the replica: replay the entries in the given order -/
def replayAll (kd : LoggerKind) (r : Store) (es : List Emitted) : Store :=
  es.foldl (fun r e => r.replay e.chunk (e.received kd)) r

theorem replayAll_append (kd : LoggerKind) (r : Store) (a b : List Emitted) :
    replayAll kd r (a ++ b) = replayAll kd (replayAll kd r a) b := by
  unfold replayAll
  rw [List.foldl_append]

theorem replayAll_nil (kd : LoggerKind) (r : Store) : replayAll kd r [] = r := rfl

theorem replayAll_one (kd : LoggerKind) (r : Store) (e : Emitted) :
    replayAll kd r [e] = r.replay e.chunk (e.received kd) := rfl

/-- no non-empty buffer names an existing column: the transaction holds no op for the existing column `x` -/
theorem opsFor_nil_of_not_updated (s : Store) (ups : List Buf) (x : String) (c : Nat) (hxr : x ≠ rowColumn)
    (hf : (s.findCol x).isSome = true) (h : StorePlumb.updatedFlag s ups = false) : opsFor ups x c = [] := by
  unfold opsFor
  rw [List.flatten_eq_nil_iff]
  intro l hl
  obtain ⟨b, hb, rfl⟩ := List.mem_map.1 hl
  obtain ⟨hb1, hb2⟩ := List.mem_filter.1 hb
  have hbx : b.column = x := by simpa using hb2
  unfold StorePlumb.updatedFlag at h
  have := List.any_eq_false.1 h b hb1
  rw [hbx, hf] at this
  have hne : (x != rowColumn) = true := by simpa using hxr
  rw [hne] at this
  have he : b.isEmpty = true := by simpa using this
  exact isEmpty_range b he c

/-- a chunk that is not emitted (no markers, no non-empty buffer of an existing column) leaves the data column `x` alone -/
theorem commitChunk_quiet_col (s : Store) (c : Nat) (ups : List Buf) (x : String) (cp : Col)
    (hxr : x ≠ rowColumn) (hf : s.findCol x = some cp) (hd : cp.kind.isData = true)
    (hcomp : ∀ v ∈ ups, ∀ c, s.findCol v.column = some c → x ∉ c.computed)
    (h : StorePlumb.updatedFlag s ups = false) :
    (s.commitChunk c false ups).1.findCol x = some cp := by
  have ho : opsFor ups x c = [] := opsFor_nil_of_not_updated s ups x c hxr (by rw [hf]; rfl) h
  have hm : markerOpsCr false ups c = [] := rfl
  have := commitChunk_col s c false ups x cp hxr hf hd hcomp (by
    rw [ho, hm]
    exact StorePlumb.applyData_appended_nil s.hash _ c)
  rw [this, ho, hm, List.append_nil, applyData_nil]

/-- **one round of the chunk loop, both sides** (data column `x`, kinds as in `KindsMatch`, the primary's pass of this chunk
    appends nothing): the primary runs the latch section of `c`, the replica replays what was emitted for it (one entry or
    nothing) -/
theorem loop_step_data (x : String) (hxr : x ≠ rowColumn) (kd : LoggerKind) (s r : Store) (ups : List Buf) (cr : Bool)
    (cp cq : Col) (c : Nat) (hcr : cr = (ups.find? isMarkerBuf).isSome)
    (hfp : s.findCol x = some cp) (hfr : r.findCol x = some cq) (hkm : KindsMatch cp.kind cq.kind)
    (hwp : ColWF cp) (hwr : ColWF cq) (hch : c < cp.nchunks) (hcov : r.commits.size ≤ cq.nchunks)
    (hcks : ComputedKinds s) (hckr : ComputedKinds r)
    (hco : ∀ o ∈ markerOps ups c ++ opsFor ups x c, chunkOf o.idx = c)
    (hmk : ∀ o ∈ markerOps ups c, o.typ ≠ opMerge)
    (hna0 : (applyData s.hash (applyData s.hash cp c (markerOps ups c)).col c (opsFor ups x c)).appended = [])
    (hdl : ∀ e ∈ chunkEmitted cr c s ups, Delivers e.updates e.chunk (e.received kd)) :
    ∃ cp1 cq1, (s.commitChunk c cr ups).1.findCol x = some cp1 ∧
      (replayAll kd r (chunkEmitted cr c s ups)).findCol x = some cq1 ∧
      cp1 = (applyData s.hash cp c (chunkOps ups x c)).col ∧
      SameShape cp cp1 ∧ cq1.kind = cq.kind ∧ ColWF cq1 ∧
      (replayAll kd r (chunkEmitted cr c s ups)).commits.size ≤ cq1.nchunks ∧
      ComputedKinds (replayAll kd r (chunkEmitted cr c s ups)) ∧
      (∀ i, slot cq i = slot cp i → slot cq1 i = slot cp1 i) ∧
      (∀ i, chunkOf i ≠ c → slot cq1 i = slot cq i ∧ slot cp1 i = slot cp i) ∧
      ((∀ i, slot cq i = slot cp i) → cq.seek = cp.seek → cq1.seek = cp1.seek) := by
  obtain ⟨hdp, hdr⟩ := hkm.isData
  have hcompP := notComputed_of_computedKinds s hcks x cp hfp hdp ups
  by_cases hE : (cr || StorePlumb.updatedFlag s ups) = true
  · have hce : chunkEmitted cr c s ups = [⟨s.nextId + 1, c, (s.commitChunk c cr ups).2⟩] := by
      unfold chunkEmitted; rw [if_pos hE]
    rw [hce] at hdl ⊢
    rw [replayAll_one]
    have hdel := hdl ⟨s.nextId + 1, c, (s.commitChunk c cr ups).2⟩ (List.mem_singleton.2 rfl)
    simp only at hdel ⊢
    obtain ⟨cp1, cq1, g1, g2, g0, g3, g4, g5, g6, g7, g8, g9⟩ := chunk_replay_data s r c cr ups _ x cp cq hcr hxr hfp hfr hkm
      hwp hwr hch hcov hcompP (notComputed_of_computedKinds r hckr x cq hfr hdr _) hco hmk hna0 hdel
    exact ⟨cp1, cq1, g1, g2, g0, g3, g4, g5, g6, commit_computedKinds r _ hckr, g7, g8, g9⟩
  · have hce : chunkEmitted cr c s ups = [] := by
      unfold chunkEmitted; rw [if_neg hE]
    rw [hce, replayAll_nil]
    have hE' : (cr || StorePlumb.updatedFlag s ups) = false := Bool.not_eq_true _ ▸ hE
    obtain ⟨hcr0, hup⟩ := Bool.or_eq_false_iff.1 hE'
    have hm : markerOps ups c = [] := by
      unfold markerOps
      cases hf : ups.find? isMarkerBuf with
      | none => rfl
      | some m => rw [hcr, hf] at hcr0; cases hcr0
    have ho : opsFor ups x c = [] := opsFor_nil_of_not_updated s ups x c hxr (by rw [hfp]; rfl) hup
    subst hcr0
    refine ⟨cp, cq, commitChunk_quiet_col s c ups x cp hxr hfp hdp hcompP hup, hfr, ?_, SameShape.refl cp, rfl, hwr, hcov,
      hckr, fun i h => h, fun i _ => ⟨rfl, rfl⟩, fun _ h => h⟩
    unfold chunkOps
    rw [hm, ho, List.append_nil, applyData_nil]

/-- **the chunk loop, both sides** (data column `x`, kinds as in `KindsMatch`, guard `NoAppend` on the primary): the primary
    runs the latch sections of the chunks `cs`, the replica replays everything the loop emits, in emission order -/
theorem commitLoop_replay_data (x : String) (hxr : x ≠ rowColumn) (kd : LoggerKind) (cs : List Nat) :
    ∀ (s r : Store) (ups : List Buf) (cr : Bool) (cp cq : Col),
      cs.Nodup → cr = (ups.find? isMarkerBuf).isSome →
      s.findCol x = some cp → r.findCol x = some cq → KindsMatch cp.kind cq.kind → ColWF cp → ColWF cq →
      (∀ c ∈ cs, c < cp.nchunks) → r.commits.size ≤ cq.nchunks → ComputedKinds s → ComputedKinds r →
      (∀ c ∈ cs, ∀ o ∈ markerOps ups c ++ opsFor ups x c, chunkOf o.idx = c) →
      (∀ c ∈ cs, ∀ o ∈ markerOps ups c, o.typ ≠ opMerge) →
      NoAppend s.hash ups x cs cp →
      (∀ e ∈ loopEmitted cr cs s ups, Delivers e.updates e.chunk (e.received kd)) →
      ∃ cp' cq', (commitLoop cr cs s ups).1.findCol x = some cp' ∧
        (replayAll kd r (loopEmitted cr cs s ups)).findCol x = some cq' ∧
        SameShape cp cp' ∧ cq'.kind = cq.kind ∧ ColWF cq' ∧
        (replayAll kd r (loopEmitted cr cs s ups)).commits.size ≤ cq'.nchunks ∧
        ComputedKinds (replayAll kd r (loopEmitted cr cs s ups)) ∧
        (∀ i, slot cq i = slot cp i → slot cq' i = slot cp' i) ∧
        (∀ i, chunkOf i ∉ cs → slot cq' i = slot cq i ∧ slot cp' i = slot cp i) ∧
        ((∀ i, slot cq i = slot cp i) → cq.seek = cp.seek → cq'.seek = cp'.seek) := by
  induction cs with
  | nil =>
    intro s r ups cr cp cq _ _ hfp hfr _ _ hwr _ hcov _ hckr _ _ _ _
    exact ⟨cp, cq, hfp, hfr, SameShape.refl cp, rfl, hwr, hcov, hckr, fun i h => h, fun i _ => ⟨rfl, rfl⟩, fun _ h => h⟩
  | cons c cs ih =>
    intro s r ups cr cp cq hnd hcr hfp hfr hkm hwp hwr hch hcov hcks hckr hco hmk hna hdl
    have hc_notin : c ∉ cs := (List.nodup_cons.1 hnd).1
    have hnd' : cs.Nodup := (List.nodup_cons.1 hnd).2
    obtain ⟨hdp, _⟩ := hkm.isData
    obtain ⟨hna1, hna2⟩ := hna
    have hcompP := notComputed_of_computedKinds s hcks x cp hfp hdp ups
    obtain ⟨cp1, cq1, g1, g2, g0, g3, g4, g5, g6, hck1, g7, g8, g9⟩ := loop_step_data x hxr kd s r ups cr cp cq c hcr hfp hfr hkm
      hwp hwr (hch c (by simp)) hcov hcks hckr (hco c (by simp)) (hmk c (by simp)) hna1
      (fun e he => hdl e (by rw [loopEmitted_cons]; exact List.mem_append_left _ he))
    -- the buffers after the chunk
    have hna' : (applyData s.hash (applyData s.hash cp c (markerOpsCr cr ups c)).col c (opsFor ups x c)).appended = [] := by
      have : markerOpsCr cr ups c = markerOps ups c := by rw [hcr, markerOpsCr_isSome]
      rw [this]; exact hna1
    obtain ⟨_, hreg, hrel⟩ := commitChunk_col_full s c cr ups x cp hxr hfp hdp hcompP hna'
    have hfm := commitChunk_find_marker s c cr ups
    have hmo : ∀ c2, markerOps (s.commitChunk c cr ups).2 c2 = markerOps ups c2 := commitChunk_markerOps s c cr ups
    have hof : ∀ c2 ∈ cs, opsFor (s.commitChunk c cr ups).2 x c2 = opsFor ups x c2 := by
      intro c2 hc2
      apply hrel.opsFor c2
      intro e
      simp only [List.mem_singleton] at e
      exact hc_notin (e ▸ hc2)
    obtain ⟨cp', cq', f1, f2, f3, f4, f5, f6, f7, f8, f9, f10⟩ := ih (s.commitChunk c cr ups).1
      (replayAll kd r (chunkEmitted cr c s ups)) (s.commitChunk c cr ups).2 cr cp1 cq1 hnd'
      (by rw [hfm]; exact hcr) g1 g2 (hkm.congr g3.kind g4) (ColWF.of_shape g3 hwp) g5
      (fun c2 hc2 => by rw [g3.nchunks]; exact hch c2 (by simp [hc2])) g6
      (ComputedKinds.of_regSim hreg hcks) hck1
      (fun c2 hc2 => by rw [hmo c2, hof c2 hc2]; exact hco c2 (by simp [hc2]))
      (fun c2 hc2 => by rw [hmo c2]; exact hmk c2 (by simp [hc2]))
      (by
        rw [commitChunk_hash, g0]
        exact NoAppend_congr s.hash ups _ x cs (fun c2 _ => hmo c2) hof _ hna2)
      (fun e he => hdl e (by rw [loopEmitted_cons]; exact List.mem_append_right _ he))
    rw [commitLoop_cons, loopEmitted_cons, replayAll_append]
    refine ⟨cp', cq', f1, f2, SameShape.trans g3 f3, f4.trans g4, f5, f6, f7, fun i h => f8 i (g7 i h), ?_,
      fun hs hseek => f10 (fun i => g7 i (hs i)) (g9 hs hseek)⟩
    intro i hi
    have h1 : chunkOf i ≠ c := fun e => hi (by simp [e])
    have h2 : chunkOf i ∉ cs := fun e => hi (by simp [e])
    exact ⟨(f9 i h2).1.trans (g8 i h1).1, (f9 i h2).2.trans (g8 i h1).2⟩

/-- the numeric instances -/
theorem loop_step_num (x : String) (hxr : x ≠ rowColumn) (kd : LoggerKind) (s r : Store) (ups : List Buf) (cr : Bool)
    (cp cq : Col) (k k2 : NumKind) (c : Nat) (hcr : cr = (ups.find? isMarkerBuf).isSome)
    (hfp : s.findCol x = some cp) (hfr : r.findCol x = some cq) (hkp : cp.kind = .num k) (hkr : cq.kind = .num k2)
    (hwp : ColWF cp) (hwr : ColWF cq) (hch : c < cp.nchunks) (hcov : r.commits.size ≤ cq.nchunks)
    (hcks : ComputedKinds s) (hckr : ComputedKinds r)
    (hco : ∀ o ∈ markerOps ups c ++ opsFor ups x c, chunkOf o.idx = c)
    (hmk : ∀ o ∈ markerOps ups c, o.typ ≠ opMerge)
    (hdl : ∀ e ∈ chunkEmitted cr c s ups, Delivers e.updates e.chunk (e.received kd)) :
    ∃ cp1 cq1, (s.commitChunk c cr ups).1.findCol x = some cp1 ∧
      (replayAll kd r (chunkEmitted cr c s ups)).findCol x = some cq1 ∧
      SameShape cp cp1 ∧ cq1.kind = cq.kind ∧ ColWF cq1 ∧
      (replayAll kd r (chunkEmitted cr c s ups)).commits.size ≤ cq1.nchunks ∧
      ComputedKinds (replayAll kd r (chunkEmitted cr c s ups)) ∧
      (∀ i, slot cq i = slot cp i → slot cq1 i = slot cp1 i) ∧
      (∀ i, chunkOf i ≠ c → slot cq1 i = slot cq i ∧ slot cp1 i = slot cp i) := by
  obtain ⟨cp1, cq1, g1, g2, _, g3, g4, g5, g6, g7, g8, g9, _⟩ := loop_step_data x hxr kd s r ups cr cp cq c hcr hfp hfr
    (kindsMatch_num hkp hkr) hwp hwr hch hcov hcks hckr hco hmk
    (appended_nil_num _ _ k (by rw [(applyData_sameShape s.hash cp c _).kind]; exact hkp) _ _) hdl
  exact ⟨cp1, cq1, g1, g2, g3, g4, g5, g6, g7, g8, g9⟩

theorem commitLoop_replay_num (x : String) (hxr : x ≠ rowColumn) (kd : LoggerKind) (cs : List Nat) :
    ∀ (s r : Store) (ups : List Buf) (cr : Bool) (cp cq : Col) (k k2 : NumKind),
      cs.Nodup → cr = (ups.find? isMarkerBuf).isSome →
      s.findCol x = some cp → r.findCol x = some cq → cp.kind = .num k → cq.kind = .num k2 → ColWF cp → ColWF cq →
      (∀ c ∈ cs, c < cp.nchunks) → r.commits.size ≤ cq.nchunks → ComputedKinds s → ComputedKinds r →
      (∀ c ∈ cs, ∀ o ∈ markerOps ups c ++ opsFor ups x c, chunkOf o.idx = c) →
      (∀ c ∈ cs, ∀ o ∈ markerOps ups c, o.typ ≠ opMerge) →
      (∀ e ∈ loopEmitted cr cs s ups, Delivers e.updates e.chunk (e.received kd)) →
      ∃ cp' cq', (commitLoop cr cs s ups).1.findCol x = some cp' ∧
        (replayAll kd r (loopEmitted cr cs s ups)).findCol x = some cq' ∧
        SameShape cp cp' ∧ cq'.kind = cq.kind ∧ ColWF cq' ∧
        (replayAll kd r (loopEmitted cr cs s ups)).commits.size ≤ cq'.nchunks ∧
        ComputedKinds (replayAll kd r (loopEmitted cr cs s ups)) ∧
        (∀ i, slot cq i = slot cp i → slot cq' i = slot cp' i) ∧
        (∀ i, chunkOf i ∉ cs → slot cq' i = slot cq i ∧ slot cp' i = slot cp i) := by
  intro s r ups cr cp cq k k2 hnd hcr hfp hfr hkp hkr hwp hwr hch hcov hcks hckr hco hmk hdl
  obtain ⟨cp', cq', g1, g2, g3, g4, g5, g6, g7, g8, g9, _⟩ := commitLoop_replay_data x hxr kd cs s r ups cr cp cq hnd hcr
    hfp hfr (kindsMatch_num hkp hkr) hwp hwr hch hcov hcks hckr hco hmk
    (NoAppend_of_kind _ _ _ _ _ (by rw [hkp]; exact ⟨by simp, by simp⟩)) hdl
  exact ⟨cp', cq', g1, g2, g3, g4, g5, g6, g7, g8, g9⟩

/-- one round of the chunk loop, the fill list on both sides -/
theorem loop_step_fill (kd : LoggerKind) (s r : Store) (ups : List Buf) (cr : Bool) (c : Nat)
    (hcr : cr = (ups.find? isMarkerBuf).isSome)
    (hdl : ∀ e ∈ chunkEmitted cr c s ups, Delivers e.updates e.chunk (e.received kd)) (j : Nat)
    (hs : Bits.get r.fill j = Bits.get s.fill j) :
    Bits.get (replayAll kd r (chunkEmitted cr c s ups)).fill j = Bits.get (s.commitChunk c cr ups).1.fill j := by
  by_cases hE : (cr || StorePlumb.updatedFlag s ups) = true
  · have hce : chunkEmitted cr c s ups = [⟨s.nextId + 1, c, (s.commitChunk c cr ups).2⟩] := by
      unfold chunkEmitted; rw [if_pos hE]
    rw [hce] at hdl ⊢
    rw [replayAll_one]
    have hdel := hdl ⟨s.nextId + 1, c, (s.commitChunk c cr ups).2⟩ (List.mem_singleton.2 rfl)
    simp only at hdel ⊢
    exact chunk_replay_fill s r c cr ups _ hcr hdel j hs
  · have hce : chunkEmitted cr c s ups = [] := by
      unfold chunkEmitted; rw [if_neg hE]
    rw [hce, replayAll_nil]
    have hE' : (cr || StorePlumb.updatedFlag s ups) = false := Bool.not_eq_true _ ▸ hE
    obtain ⟨hcr0, _⟩ := Bool.or_eq_false_iff.1 hE'
    have hm : markerOps ups c = [] := by
      unfold markerOps
      cases hf : ups.find? isMarkerBuf with
      | none => rfl
      | some m => rw [hcr, hf] at hcr0; cases hcr0
    subst hcr
    rw [commitChunk_fill, hm]
    exact hs

/-- **the chunk loop, the fill list on both sides** -/
theorem commitLoop_replay_fill (kd : LoggerKind) (cs : List Nat) :
    ∀ (s r : Store) (ups : List Buf) (cr : Bool), cr = (ups.find? isMarkerBuf).isSome →
      (∀ e ∈ loopEmitted cr cs s ups, Delivers e.updates e.chunk (e.received kd)) →
      ∀ j, Bits.get r.fill j = Bits.get s.fill j →
        Bits.get (replayAll kd r (loopEmitted cr cs s ups)).fill j = Bits.get (commitLoop cr cs s ups).1.fill j := by
  induction cs with
  | nil => intro s r ups cr _ _ j hs; exact hs
  | cons c cs ih =>
    intro s r ups cr hcr hdl j hs
    have h1 := loop_step_fill kd s r ups cr c hcr
      (fun e he => hdl e (by rw [loopEmitted_cons]; exact List.mem_append_left _ he)) j hs
    rw [commitLoop_cons, loopEmitted_cons, replayAll_append]
    exact ih _ _ _ cr (by rw [commitChunk_find_marker]; exact hcr)
      (fun e he => hdl e (by rw [loopEmitted_cons]; exact List.mem_append_right _ he)) j h1

/-! ### `commit` -/

/-- the entries `p.commit t` hands to the logger, in emission order (oldest first) -/
def emittedBy (p : Store) (t : Txn) : List Emitted :=
  loopEmitted t.markers.isSome t.dirtyChunks (capStore p t) t.updates

theorem capStore_quiet (s : Store) (t : Txn) :
    (capStore s t).emitted = s.emitted ∧ (capStore s t).logger = s.logger ∧ (capStore s t).nextId = s.nextId := by
  unfold capStore
  cases t.dirtyChunks.getLast? with
  | none => exact ⟨rfl, rfl, rfl⟩
  | some last =>
    exact ⟨(StorePlumb.commitCapacity_quiet s last).1, (StorePlumb.commitCapacity_plumb s last).logger,
      (StorePlumb.commitCapacity_quiet s last).2.2.1⟩

theorem capStore_fill_get (s : Store) (t : Txn) (j : Nat) : Bits.get (capStore s t).fill j = Bits.get s.fill j := by
  unfold capStore
  cases t.dirtyChunks.getLast? with
  | none => rfl
  | some last => exact commitCapacity_fill_get s last j

/-- **the change stream after a commit** (most recent first): what was there, preceded by `emittedBy p t` -/
theorem emitted_of_commit (p : Store) (t : Txn) (hl : p.logger ≠ .none) :
    (p.commit t).emitted = (emittedBy p t).reverse ++ p.emitted := by
  rw [commit_eq', commitLoop_emitted _ _ _ _ (by rw [(capStore_quiet p t).2.1]; exact hl), (capStore_quiet p t).1]
  rfl

/-- every emitted entry carries as many buffers, under the same names, empty iff they were, as the transaction -/
theorem loopEmitted_sigs (cr : Bool) (cs : List Nat) :
    ∀ (s : Store) (ups : List Buf), ∀ e ∈ loopEmitted cr cs s ups,
      e.updates.map StorePlumb.bufSig = ups.map StorePlumb.bufSig ∧ e.chunk ∈ cs := by
  induction cs with
  | nil => intro s ups e he; cases he
  | cons c cs ih =>
    intro s ups e he
    rw [loopEmitted_cons] at he
    rcases List.mem_append.1 he with he | he
    · unfold chunkEmitted at he
      split at he
      · rw [List.mem_singleton.1 he]
        exact ⟨StorePlumb.commitChunk_sigs s c cr ups, by simp⟩
      · cases he
    · obtain ⟨h1, h2⟩ := ih _ _ e he
      exact ⟨h1.trans (StorePlumb.commitChunk_sigs s c cr ups), by simp [h2]⟩

theorem distinct_of_sigs {a b : List Buf} (h : a.map StorePlumb.bufSig = b.map StorePlumb.bufSig) (hd : BufsDistinct b) :
    BufsDistinct a := by
  unfold BufsDistinct at hd ⊢
  have : a.map (·.column) = b.map (·.column) := by
    have := congrArg (List.map Prod.fst) h
    simpa [StorePlumb.bufSig, Function.comp_def] using this
  rw [this]; exact hd

/-- the `.log` logger delivers every entry of a commit whose buffers have distinct names -/
theorem emittedBy_delivers_log (p : Store) (t : Txn) (hd : BufsDistinct t.updates) :
    ∀ e ∈ emittedBy p t, Delivers e.updates e.chunk (e.received .log) := by
  intro e he
  rw [received_log]
  exact delivers_log e.updates e.chunk
    (oneRow_of_distinct _ (distinct_of_sigs (loopEmitted_sigs _ _ _ _ e he).1 hd))

/-- the `.channel` logger delivers the entries whose buffers hold sections of the entry's chunk only -/
theorem delivers_channel_of (es : List Emitted) (h : ∀ e ∈ es, ∀ b ∈ e.updates, ∀ c ∈ b.chunks, c = e.chunk) :
    ∀ e ∈ es, Delivers e.updates e.chunk (e.received .channel) := by
  intro e he
  rw [received_channel]
  exact delivers_channel e.updates e.chunk (h e he)

/-- what the theorems ask of a transaction, for the column `x`: distinct buffer names (`bufferFor`), the buffers of `x` and
    the marker buffer keep every op in a section of its own chunk (`Buf.Inv`), the marker buffer holds no `Merge`
    (it holds `Insert` / `Delete` only) -/
structure TxnOK (x : String) (t : Txn) : Prop where
  distinct : BufsDistinct t.updates
  chunkOK : ∀ v ∈ t.updates, (v.column = x ∨ isMarkerBuf v = true) → ChunkOK v
  markers : ∀ o ∈ markerAll t.updates, o.typ ≠ opMerge

theorem TxnOK.chunkOps {x : String} {t : Txn} (h : TxnOK x t) (c : Nat) :
    ∀ o ∈ markerOps t.updates c ++ opsFor t.updates x c, chunkOf o.idx = c := by
  have hco : ChunkOps x t.updates [c] := by
    intro v hv hx c' hc' o ho
    exact rangeOps_chunk v (h.chunkOK v hv hx) c' o ho
  intro o ho
  rcases List.mem_append.1 ho with ho | ho
  · exact markerOps_chunk x t.updates [c] hco c (by simp) o ho
  · exact opsFor_chunk x t.updates [c] hco c (by simp) o ho

theorem TxnOK.noMerge {x : String} {t : Txn} (h : TxnOK x t) (c : Nat) :
    ∀ o ∈ markerOps t.updates c, o.typ ≠ opMerge := by
  intro o ho
  apply h.markers o
  unfold markerOps at ho
  unfold markerAll
  cases hf : t.updates.find? isMarkerBuf with
  | none => rw [hf] at ho; cases ho
  | some m => rw [hf] at ho; exact rangeOps_sub_allOps m c o ho

/-- **a whole commit, one data column, both sides** (kinds as in `KindsMatch`; guard `NoAppend` on the primary — automatic for
    numeric columns): the primary commits `t` (any number of dirty chunks), the replica replays everything the commit emits,
    in emission order. Per offset: in sync before ⇒ in sync after; offsets of chunks the transaction does not touch are left
    alone on both sides. -/
theorem commit_replay_data_raw (x : String) (hxr : x ≠ rowColumn) (kd : LoggerKind) (p r : Store) (t : Txn) (cp cq : Col)
    (hfp : p.findCol x = some cp) (hfr : r.findCol x = some cq) (hkm : KindsMatch cp.kind cq.kind)
    (hwp : ColWF cp) (hwr : ColWF cq) (hcovp : p.commits.size ≤ cp.nchunks)
    (hcovr : r.commits.size ≤ cq.nchunks) (hckp : ComputedKinds p) (hckr : ComputedKinds r) (hok : TxnOK x t)
    (hna : NoAppend p.hash t.updates x t.dirtyChunks (capCol p t cp))
    (hdl : ∀ e ∈ emittedBy p t, Delivers e.updates e.chunk (e.received kd)) :
    ∃ cp' cq', (p.commit t).findCol x = some cp' ∧ (replayAll kd r (emittedBy p t)).findCol x = some cq' ∧
      cp'.kind = cp.kind ∧ cp'.merge = cp.merge ∧ cq'.kind = cq.kind ∧ ColWF cp' ∧ ColWF cq' ∧
      (p.commit t).commits.size ≤ cp'.nchunks ∧ (replayAll kd r (emittedBy p t)).commits.size ≤ cq'.nchunks ∧
      ComputedKinds (replayAll kd r (emittedBy p t)) ∧
      (∀ i, slot cq i = slot cp i → slot cq' i = slot cp' i) ∧
      (∀ i, chunkOf i ∉ t.dirtyChunks → slot cq' i = slot cq i ∧ slot cp' i = slot cp i) ∧
      ((∀ i, slot cq i = slot cp i) → cq.seek = cp.seek → cq'.seek = cp'.seek) := by
  obtain ⟨hdp, _⟩ := hkm.isData
  have f0 : (capStore p t).findCol x = some (capCol p t cp) := by rw [capStore_findCol_eq, hfp]; rfl
  obtain ⟨_, m2, _, m4⟩ := capCol_meta p t cp
  obtain ⟨d1, _, d3, d4, d5, d6⟩ := capCol_data p t cp hdp
  obtain ⟨cp', cq', f1, f2, f3, f4, f5, f6, f7, f8, f9, f10⟩ := commitLoop_replay_data x hxr kd t.dirtyChunks (capStore p t) r
    t.updates t.markers.isSome (capCol p t cp) cq (sorted_nodup _ (dirtyChunks_sorted t)) rfl f0 hfr (hkm.congr m2 rfl)
    (d5 hwp) hwr (d6 hcovp) hcovr (capStore_computedKinds p t hckp) hckr (fun c _ => hok.chunkOps c)
    (fun c _ => hok.noMerge c) (by rw [capStore_hash]; exact hna) hdl
  rw [← commit_eq'] at f1
  refine ⟨cp', cq', f1, f2, f3.kind.trans m2, f3.merge.trans m4, f4, ColWF.of_shape f3 (d5 hwp), f5, ?_, f6, f7, ?_, ?_,
    fun hs hseek => f10 (fun i => (hs i).trans (d4 i).symm) (hseek.trans d1.symm)⟩
  · apply commit_cov p t cp cp' hcovp
    · rw [f3.nchunks]; exact d3
    · intro c hc; rw [f3.nchunks]; exact d6 hcovp c hc
  · intro i hs
    exact f8 i (hs.trans (d4 i).symm)
  · intro i hi
    exact ⟨(f9 i hi).1, (f9 i hi).2.trans (d4 i)⟩

/-- the numeric instance: no guard -/
theorem commit_replay_num_raw (x : String) (hxr : x ≠ rowColumn) (kd : LoggerKind) (p r : Store) (t : Txn) (cp cq : Col)
    (k k2 : NumKind) (hfp : p.findCol x = some cp) (hfr : r.findCol x = some cq) (hkp : cp.kind = .num k)
    (hkr : cq.kind = .num k2) (hwp : ColWF cp) (hwr : ColWF cq) (hcovp : p.commits.size ≤ cp.nchunks)
    (hcovr : r.commits.size ≤ cq.nchunks) (hckp : ComputedKinds p) (hckr : ComputedKinds r) (hok : TxnOK x t)
    (hdl : ∀ e ∈ emittedBy p t, Delivers e.updates e.chunk (e.received kd)) :
    ∃ cp' cq', (p.commit t).findCol x = some cp' ∧ (replayAll kd r (emittedBy p t)).findCol x = some cq' ∧
      cp'.kind = .num k ∧ cq'.kind = .num k2 ∧ ColWF cp' ∧ ColWF cq' ∧
      (p.commit t).commits.size ≤ cp'.nchunks ∧ (replayAll kd r (emittedBy p t)).commits.size ≤ cq'.nchunks ∧
      ComputedKinds (replayAll kd r (emittedBy p t)) ∧
      (∀ i, slot cq i = slot cp i → slot cq' i = slot cp' i) ∧
      (∀ i, chunkOf i ∉ t.dirtyChunks → slot cq' i = slot cq i ∧ slot cp' i = slot cp i) := by
  obtain ⟨cp', cq', g1, g2, g3, _, g4, g5, g6, g7, g8, g9, g10, g11, _⟩ := commit_replay_data_raw x hxr kd p r t cp cq hfp hfr
    (kindsMatch_num hkp hkr) hwp hwr hcovp hcovr hckp hckr hok
    (NoAppend_of_kind _ _ _ _ _ (by rw [(capCol_meta p t cp).2.1, hkp]; exact ⟨by simp, by simp⟩)) hdl
  exact ⟨cp', cq', g1, g2, g3.trans hkp, g4.trans hkr, g5, g6, g7, g8, g9, g10, g11⟩

/-- the numeric column `x` of the replica `r` is in sync with the primary `p`: registered on both sides as a numeric column
    (the replica's numeric kind and merge function are free), arrays well-formed and covering the committed chunks, every
    slot — presence bit and raw bytes — equal -/
def NumSync (x : String) (p r : Store) : Prop :=
  ∃ cp cq k k2, p.findCol x = some cp ∧ r.findCol x = some cq ∧ cp.kind = .num k ∧ cq.kind = .num k2 ∧
    ColWF cp ∧ ColWF cq ∧ p.commits.size ≤ cp.nchunks ∧ r.commits.size ≤ cq.nchunks ∧ ∀ i, slot cq i = slot cp i

/-- the fill lists agree bit by bit (the arrays may have grown differently) -/
def FillSync (p r : Store) : Prop := ∀ j, Bits.get r.fill j = Bits.get p.fill j

theorem commit_replay_num (x : String) (hxr : x ≠ rowColumn) (kd : LoggerKind) (p r : Store) (t : Txn)
    (hckp : ComputedKinds p) (hckr : ComputedKinds r) (hok : TxnOK x t)
    (hdl : ∀ e ∈ emittedBy p t, Delivers e.updates e.chunk (e.received kd)) (h : NumSync x p r) :
    NumSync x (p.commit t) (replayAll kd r (emittedBy p t)) ∧ ComputedKinds (replayAll kd r (emittedBy p t)) := by
  obtain ⟨cp, cq, k, k2, hfp, hfr, hkp, hkr, hwp, hwr, hcovp, hcovr, hs⟩ := h
  obtain ⟨cp', cq', g1, g2, g3, g4, g5, g6, g7, g8, g9, g10, _⟩ := commit_replay_num_raw x hxr kd p r t cp cq k k2 hfp hfr
    hkp hkr hwp hwr hcovp hcovr hckp hckr hok hdl
  exact ⟨⟨cp', cq', k, k2, g1, g2, g3, g4, g5, g6, g7, g8, fun i => g10 i (hs i)⟩, g9⟩

theorem commit_replay_fill (kd : LoggerKind) (p r : Store) (t : Txn)
    (hdl : ∀ e ∈ emittedBy p t, Delivers e.updates e.chunk (e.received kd)) (h : FillSync p r) :
    FillSync (p.commit t) (replayAll kd r (emittedBy p t)) := by
  intro j
  rw [commit_eq']
  exact commitLoop_replay_fill kd t.dirtyChunks (capStore p t) r t.updates t.markers.isSome rfl hdl j
    ((h j).trans (capStore_fill_get p t j).symm)

/-! ### sequences of commits -/

/-- everything a sequence of commits hands to the logger, in emission order -/
def emittedByAll : Store → List Txn → List Emitted
  | _, [] => []
  | p, t :: ts => emittedBy p t ++ emittedByAll (p.commit t) ts

theorem commit_logger (p : Store) (t : Txn) : (p.commit t).logger = p.logger := (commit_plumb p t).logger

theorem emitted_of_commits (ts : List Txn) :
    ∀ (p : Store), p.logger ≠ .none → (ts.foldl Store.commit p).emitted = (emittedByAll p ts).reverse ++ p.emitted := by
  induction ts with
  | nil => intro p _; rfl
  | cons t ts ih =>
    intro p hl
    simp only [List.foldl_cons]
    rw [ih (p.commit t) (by rw [commit_logger]; exact hl), emitted_of_commit p t hl]
    simp [emittedByAll]

theorem commits_replay_num (x : String) (hxr : x ≠ rowColumn) (kd : LoggerKind) (ts : List Txn) :
    ∀ (p r : Store), ComputedKinds p → ComputedKinds r → (∀ t ∈ ts, TxnOK x t) →
      (∀ e ∈ emittedByAll p ts, Delivers e.updates e.chunk (e.received kd)) → NumSync x p r →
      NumSync x (ts.foldl Store.commit p) (replayAll kd r (emittedByAll p ts)) := by
  induction ts with
  | nil => intro p r _ _ _ _ h; exact h
  | cons t ts ih =>
    intro p r hckp hckr hok hdl h
    obtain ⟨h1, h2⟩ := commit_replay_num x hxr kd p r t hckp hckr (hok t (by simp))
      (fun e he => hdl e (List.mem_append_left _ he)) h
    simp only [List.foldl_cons, emittedByAll]
    rw [replayAll_append]
    exact ih (p.commit t) _ (commit_computedKinds p t hckp) h2 (fun t' ht' => hok t' (by simp [ht']))
      (fun e he => hdl e (List.mem_append_right _ he)) h1

theorem commits_replay_fill (kd : LoggerKind) (ts : List Txn) :
    ∀ (p r : Store), (∀ e ∈ emittedByAll p ts, Delivers e.updates e.chunk (e.received kd)) → FillSync p r →
      FillSync (ts.foldl Store.commit p) (replayAll kd r (emittedByAll p ts)) := by
  induction ts with
  | nil => intro p r _ h; exact h
  | cons t ts ih =>
    intro p r hdl h
    simp only [List.foldl_cons, emittedByAll]
    rw [replayAll_append]
    exact ih (p.commit t) _ (fun e he => hdl e (List.mem_append_right _ he))
      (commit_replay_fill kd p r t (fun e he => hdl e (List.mem_append_left _ he)) h)

theorem emittedByAll_delivers_log (ts : List Txn) :
    ∀ (p : Store), (∀ t ∈ ts, BufsDistinct t.updates) →
      ∀ e ∈ emittedByAll p ts, Delivers e.updates e.chunk (e.received .log) := by
  induction ts with
  | nil => intro p _ e he; cases he
  | cons t ts ih =>
    intro p hd e he
    rcases List.mem_append.1 he with he | he
    · exact emittedBy_delivers_log p t (hd t (by simp)) e he
    · exact ih (p.commit t) (fun t' ht' => hd t' (by simp [ht'])) e he

/-! ### string / record columns: the same under the guard `NoAppend` -/

/-- the data column `x` (numeric on both sides, or string / record on both sides) of the replica is in sync with the primary -/
def DataSync (x : String) (p r : Store) : Prop :=
  ∃ cp cq, p.findCol x = some cp ∧ r.findCol x = some cq ∧ KindsMatch cp.kind cq.kind ∧
    ColWF cp ∧ ColWF cq ∧ p.commits.size ≤ cp.nchunks ∧ r.commits.size ≤ cq.nchunks ∧ ∀ i, slot cq i = slot cp i

theorem NumSync.data {x : String} {p r : Store} (h : NumSync x p r) : DataSync x p r := by
  obtain ⟨cp, cq, k, k2, a1, a2, a3, a4, a5, a6, a7, a8, a9⟩ := h
  exact ⟨cp, cq, a1, a2, kindsMatch_num a3 a4, a5, a6, a7, a8, a9⟩

/-- a merge function whose result has the delta's length never resizes (so nothing is ever appended) -/
def LenMerge (m : Bytes → Bytes → Bytes) : Prop := ∀ v d, (m v d).length = d.length

/-- the guard of the string theorems, for the transactions `ts`, in a form commits keep: the column's merge function keeps
    the delta's length, or no transaction holds a `Merge` for `x` -/
def StrGuard (x : String) (m : Bytes → Bytes → Bytes) (ts : List Txn) : Prop :=
  LenMerge m ∨ ∀ t ∈ ts, ∀ o ∈ allFor t.updates x, o.typ ≠ opMerge

theorem StrGuard.noAppend {x : String} {m : Bytes → Bytes → Bytes} {t : Txn} {ts : List Txn} (h : StrGuard x m (t :: ts))
    (hash : Bytes → Nat) (col : Col) (hm : col.merge = m) : NoAppend hash t.updates x t.dirtyChunks col := by
  rcases h with h | h
  · exact NoAppend_of_len hash _ x _ col (by rw [hm]; exact h)
  · exact NoAppend_of_no_merge hash _ x _ col
      (fun c _ o ho => h t (by simp) o (opsFor_sub_allFor t.updates x c o ho))

theorem StrGuard.tail {x : String} {m : Bytes → Bytes → Bytes} {t : Txn} {ts : List Txn} (h : StrGuard x m (t :: ts)) :
    StrGuard x m ts := by
  rcases h with h | h
  · exact Or.inl h
  · exact Or.inr (fun t' ht' => h t' (by simp [ht']))

/-- **a whole commit, any covered kind**, under the guard -/
theorem commit_replay_data (x : String) (hxr : x ≠ rowColumn) (kd : LoggerKind) (p r : Store) (t : Txn)
    (hckp : ComputedKinds p) (hckr : ComputedKinds r) (hok : TxnOK x t)
    (hdl : ∀ e ∈ emittedBy p t, Delivers e.updates e.chunk (e.received kd)) (h : DataSync x p r)
    (hna : ∀ cp, p.findCol x = some cp → NoAppend p.hash t.updates x t.dirtyChunks (capCol p t cp)) :
    DataSync x (p.commit t) (replayAll kd r (emittedBy p t)) ∧ ComputedKinds (replayAll kd r (emittedBy p t)) ∧
    (∀ cp cp', p.findCol x = some cp → (p.commit t).findCol x = some cp' → cp'.merge = cp.merge) := by
  obtain ⟨cp, cq, hfp, hfr, hkm, hwp, hwr, hcovp, hcovr, hs⟩ := h
  obtain ⟨cp', cq', g1, g2, g3, g4, g5, g6, g7, g8, g9, g10, g11, _⟩ := commit_replay_data_raw x hxr kd p r t cp cq hfp hfr
    hkm hwp hwr hcovp hcovr hckp hckr hok (hna cp hfp) hdl
  refine ⟨⟨cp', cq', g1, g2, hkm.congr g3 g5, g6, g7, g8, g9, fun i => g11 i (hs i)⟩, g10, ?_⟩
  intro c c' hc hc'
  rw [hfp] at hc
  rw [g1] at hc'
  cases hc
  cases hc'
  exact g4

/-- **any sequence of commits, any covered kind**, under `StrGuard` (for numeric columns use `commits_replay_num`: no guard) -/
theorem commits_replay_data (x : String) (hxr : x ≠ rowColumn) (kd : LoggerKind) (ts : List Txn) :
    ∀ (p r : Store), ComputedKinds p → ComputedKinds r → (∀ t ∈ ts, TxnOK x t) →
      (∀ e ∈ emittedByAll p ts, Delivers e.updates e.chunk (e.received kd)) → DataSync x p r →
      (∀ cp, p.findCol x = some cp → StrGuard x cp.merge ts) →
      DataSync x (ts.foldl Store.commit p) (replayAll kd r (emittedByAll p ts)) := by
  induction ts with
  | nil => intro p r _ _ _ _ h _; exact h
  | cons t ts ih =>
    intro p r hckp hckr hok hdl h hg
    obtain ⟨h1, h2, h3⟩ := commit_replay_data x hxr kd p r t hckp hckr (hok t (by simp))
      (fun e he => hdl e (List.mem_append_left _ he)) h
      (fun cp hcp => (hg cp hcp).noAppend p.hash _ (capCol_meta p t cp).2.2.2)
    simp only [List.foldl_cons, emittedByAll]
    rw [replayAll_append]
    refine ih (p.commit t) _ (commit_computedKinds p t hckp) h2 (fun t' ht' => hok t' (by simp [ht']))
      (fun e he => hdl e (List.mem_append_right _ he)) h1 ?_
    intro cp' hcp'
    obtain ⟨cp, _, hfp, _⟩ := h
    rw [h3 cp cp' hfp hcp']
    exact (hg cp hfp).tail

theorem commits_plumb (ts : List Txn) : ∀ (p : Store), StorePlumb.Plumb p (ts.foldl Store.commit p) := by
  induction ts with
  | nil => intro p; exact StorePlumb.Plumb.refl p
  | cons t ts ih =>
    intro p
    simp only [List.foldl_cons]
    exact StorePlumb.Plumb.trans (commit_plumb p t) (ih (p.commit t))

/-! ### key columns: slots and key table -/

/-- the key column `x` of the replica is in sync with the primary: slots equal and key tables (`seek`: key → offset) equal -/
def KeySync (x : String) (p r : Store) : Prop :=
  ∃ cp cq, p.findCol x = some cp ∧ r.findCol x = some cq ∧ cp.kind = .key ∧ cq.kind = .key ∧
    ColWF cp ∧ ColWF cq ∧ p.commits.size ≤ cp.nchunks ∧ r.commits.size ≤ cq.nchunks ∧
    (∀ i, slot cq i = slot cp i) ∧ cq.seek = cp.seek

theorem kindsMatch_key {kp kq : Kind} (h1 : kp = .key) (h2 : kq = .key) : KindsMatch kp kq := Or.inr (Or.inr ⟨h1, h2⟩)

theorem KeySync.data {x : String} {p r : Store} (h : KeySync x p r) : DataSync x p r := by
  obtain ⟨cp, cq, a1, a2, a3, a4, a5, a6, a7, a8, a9, _⟩ := h
  exact ⟨cp, cq, a1, a2, kindsMatch_key a3 a4, a5, a6, a7, a8, a9⟩

/-- **a whole commit, the key column**: no side condition on the ops (a key column has no merge) -/
theorem commit_replay_key (x : String) (hxr : x ≠ rowColumn) (kd : LoggerKind) (p r : Store) (t : Txn)
    (hckp : ComputedKinds p) (hckr : ComputedKinds r) (hok : TxnOK x t)
    (hdl : ∀ e ∈ emittedBy p t, Delivers e.updates e.chunk (e.received kd)) (h : KeySync x p r) :
    KeySync x (p.commit t) (replayAll kd r (emittedBy p t)) ∧ ComputedKinds (replayAll kd r (emittedBy p t)) := by
  obtain ⟨cp, cq, hfp, hfr, hkp, hkr, hwp, hwr, hcovp, hcovr, hs, hseek⟩ := h
  obtain ⟨cp', cq', g1, g2, g3, _, g5, g6, g7, g8, g9, g10, g11, _, g13⟩ := commit_replay_data_raw x hxr kd p r t cp cq
    hfp hfr (kindsMatch_key hkp hkr) hwp hwr hcovp hcovr hckp hckr hok
    (NoAppend_of_kind _ _ _ _ _ (by rw [(capCol_meta p t cp).2.1, hkp]; exact ⟨by simp, by simp⟩)) hdl
  exact ⟨⟨cp', cq', g1, g2, g3.trans hkp, g5.trans hkr, g6, g7, g8, g9, fun i => g11 i (hs i), g13 hs hseek⟩, g10⟩

theorem commits_replay_key (x : String) (hxr : x ≠ rowColumn) (kd : LoggerKind) (ts : List Txn) :
    ∀ (p r : Store), ComputedKinds p → ComputedKinds r → (∀ t ∈ ts, TxnOK x t) →
      (∀ e ∈ emittedByAll p ts, Delivers e.updates e.chunk (e.received kd)) → KeySync x p r →
      KeySync x (ts.foldl Store.commit p) (replayAll kd r (emittedByAll p ts)) := by
  induction ts with
  | nil => intro p r _ _ _ _ h; exact h
  | cons t ts ih =>
    intro p r hckp hckr hok hdl h
    obtain ⟨h1, h2⟩ := commit_replay_key x hxr kd p r t hckp hckr (hok t (by simp))
      (fun e he => hdl e (List.mem_append_left _ he)) h
    simp only [List.foldl_cons, emittedByAll]
    rw [replayAll_append]
    exact ih (p.commit t) _ (commit_computedKinds p t hckp) h2 (fun t' ht' => hok t' (by simp [ht']))
      (fun e he => hdl e (List.mem_append_right _ he)) h1

/-- with the key column in sync and registered as the primary key on both sides, every key resolves to the same offset -/
theorem KeySync.offsetOf {x : String} {p r : Store} (h : KeySync x p r) (hp : p.pk = some x) (hr : r.pk = some x)
    (key : Bytes) : r.offsetOf key = p.offsetOf key := by
  obtain ⟨cp, cq, hfp, hfr, _, _, _, _, _, _, _, hseek⟩ := h
  unfold Store.offsetOf
  rw [hp, hr]
  simp only [Option.bind_some]
  rw [hfp, hfr]
  simp only [Option.bind_some]
  rw [hseek]

theorem replayAll_pk (kd : LoggerKind) (es : List Emitted) : ∀ (r : Store), (replayAll kd r es).pk = r.pk := by
  induction es with
  | nil => intro r; rfl
  | cons e es ih =>
    intro r
    have : replayAll kd r (e :: es) = replayAll kd (r.replay e.chunk (e.received kd)) es := rfl
    rw [this, ih, replay_eq, commit_pk]

theorem commits_pk (ts : List Txn) (p : Store) : (ts.foldl Store.commit p).pk = p.pk := (commits_plumb ts p).pk

/-! ### from slots to typed reads -/

/-- a well-formed numeric column reads its slot: the value when the presence bit is set -/
theorem read_num_wf (c : Col) (k : NumKind) (hk : c.kind = .num k) (hw : ColWF c) (i : Nat) :
    c.read i = if (slot c i).1 = true then some (slot c i).2 else none := by
  unfold Col.read slot
  rw [hk]
  simp only
  by_cases hb : Bits.get c.bits i = true
  · have hlt : i < c.bits.size := by
      unfold Bits.get at hb
      apply Classical.byContradiction
      intro hge
      rw [Array.getElem?_eq_none (by omega)] at hb
      simp at hb
    have hch : i / 16384 < c.nchunks := by rw [hw.bsize] at hlt; omega
    rw [if_pos ⟨hch, hb⟩, if_pos hb, getD_eq]
  · rw [if_neg (fun h => hb h.2), if_neg hb]

/-- columns in sync read the same at every offset -/
theorem NumSync.read {x : String} {p r : Store} (h : NumSync x p r) :
    ∃ cp cq, p.findCol x = some cp ∧ r.findCol x = some cq ∧ ∀ i, cq.read i = cp.read i := by
  obtain ⟨cp, cq, k, k2, hfp, hfr, hkp, hkr, hwp, hwr, _, _, hs⟩ := h
  refine ⟨cp, cq, hfp, hfr, fun i => ?_⟩
  rw [read_num_wf cq k2 hkr hwr, read_num_wf cp k hkp hwp, hs i]

/-! ## E — the same schema on both sides: `NewCollection` and `CreateColumn` -/

theorem findCol_push_self (s : Store) (c : Col) (h : s.findCol c.name = none) :
    ({ s with cols := s.cols.push c } : Store).findCol c.name = some c := by
  unfold Store.findCol at h ⊢
  rw [← Array.find?_toList] at h ⊢
  simp only [Array.toList_push, List.find?_append, h]
  simp

theorem findCol_push_other (s : Store) (c : Col) (y : String) (h : c.name ≠ y) :
    ({ s with cols := s.cols.push c } : Store).findCol y = s.findCol y := by
  unfold Store.findCol
  rw [← Array.find?_toList, ← Array.find?_toList]
  simp only [Array.toList_push, List.find?_append]
  have : [c].find? (fun c => c.name == y) = none := by simp [h]
  rw [this]
  simp

def baseCap (s : Store) : Nat := if s.cap > s.count then s.cap else s.count

/-- the capacity `CreateColumn` grows a new column to -/
def createCap (s : Store) : Nat :=
  if s.commits.size > 0 ∧ 16384 * (s.commits.size - 1) + 16383 > baseCap s
  then 16384 * (s.commits.size - 1) + 16383 else baseCap s

theorem createCap_covers (s : Store) : s.commits.size ≤ createCap s / 16384 + 1 := by
  unfold createCap
  generalize baseCap s = b
  by_cases h : s.commits.size > 0 ∧ 16384 * (s.commits.size - 1) + 16383 > b
  · rw [if_pos h]; omega
  · rw [if_neg h]
    by_cases h0 : s.commits.size > 0
    · have : ¬ 16384 * (s.commits.size - 1) + 16383 > b := fun h2 => h ⟨h0, h2⟩
      omega
    · omega

/-- `CreateColumn`: either the name exists and nothing happens, or a column grown from a blank one is pushed (and the
    key-column name possibly recorded) -/
theorem createColumn_cases (s : Store) (name : String) (kind : Kind) (merge : Bytes → Bytes → Bytes) :
    ((s.findCol name).isSome = true ∧ (s.createColumn name kind merge).1 = s) ∨
    (s.findCol name = none ∧ ∃ pk, (s.createColumn name kind merge).1 =
      { s with cols := s.cols.push (Col.grow { name := name, kind := kind, merge := merge } (createCap s)), pk := pk }) := by
  unfold Store.createColumn
  by_cases h : (s.findCol name).isSome = true
  · left
    rw [if_pos h]
    exact ⟨h, rfl⟩
  · right
    rw [if_neg h]
    have hn : s.findCol name = none := by
      cases hf : s.findCol name with
      | none => rfl
      | some c => rw [hf] at h; exact absurd rfl h
    refine ⟨hn, ?_⟩
    cases kind with
    | key =>
      simp only
      split
      · exact ⟨s.pk, rfl⟩
      · exact ⟨some name, rfl⟩
    | _ => exact ⟨s.pk, rfl⟩

/-- a blank data column grown to any capacity: well-formed, every slot empty -/
theorem grow_blank (name : String) (kind : Kind) (merge : Bytes → Bytes → Bytes) (hd : kind.isData = true) (idx : Nat) :
    ColWF (Col.grow { name := name, kind := kind, merge := merge } idx) ∧
    (∀ i, slot (Col.grow { name := name, kind := kind, merge := merge } idx) i = (false, [])) ∧
    idx / 16384 < (Col.grow { name := name, kind := kind, merge := merge } idx).nchunks := by
  obtain ⟨_, _, _, g4, g5, g6, _⟩ := grow_data { name := name, kind := kind, merge := merge } hd idx
  refine ⟨g6 ⟨rfl, rfl⟩, fun i => ?_, g4⟩
  rw [g5 i]
  simp [slot, Bits.get]

/-- **a numeric column created on both sides** (any kinds, any merge functions, any capacities) is in sync -/
theorem numSync_createColumn (p r : Store) (x : String) (k k2 : NumKind) (m m2 : Bytes → Bytes → Bytes)
    (hp : p.findCol x = none) (hr : r.findCol x = none) :
    NumSync x (p.createColumn x (.num k) m).1 (r.createColumn x (.num k2) m2).1 := by
  rcases createColumn_cases p x (.num k) m with ⟨h, _⟩ | ⟨_, pk, e1⟩
  · rw [hp] at h; cases h
  rcases createColumn_cases r x (.num k2) m2 with ⟨h, _⟩ | ⟨_, pk2, e2⟩
  · rw [hr] at h; cases h
  obtain ⟨w1, s1, c1⟩ := grow_blank x (.num k) m rfl (createCap p)
  obtain ⟨w2, s2, c2⟩ := grow_blank x (.num k2) m2 rfl (createCap r)
  have n1 := grow_name { name := x, kind := .num k, merge := m } (createCap p)
  have n2 := grow_name { name := x, kind := .num k2, merge := m2 } (createCap r)
  refine ⟨_, _, k, k2, ?_, ?_, ?_, ?_, w1, w2, ?_, ?_, fun i => by rw [s1 i, s2 i]⟩
  · rw [e1]
    have := findCol_push_self { p with pk := pk } _ (by rw [n1]; exact hp)
    rw [n1] at this; exact this
  · rw [e2]
    have := findCol_push_self { r with pk := pk2 } _ (by rw [n2]; exact hr)
    rw [n2] at this; exact this
  · rw [grow_kind]
  · rw [grow_kind]
  · rw [e1]
    have := createCap_covers p
    show p.commits.size ≤ _
    omega
  · rw [e2]
    have := createCap_covers r
    show r.commits.size ≤ _
    omega

/-- **a string / record (or numeric) column created on both sides** is in sync -/
theorem dataSync_createColumn (p r : Store) (x : String) (kind kind2 : Kind) (m m2 : Bytes → Bytes → Bytes)
    (hkm : KindsMatch kind kind2) (hp : p.findCol x = none) (hr : r.findCol x = none) :
    DataSync x (p.createColumn x kind m).1 (r.createColumn x kind2 m2).1 := by
  rcases createColumn_cases p x kind m with ⟨h, _⟩ | ⟨_, pk, e1⟩
  · rw [hp] at h; cases h
  rcases createColumn_cases r x kind2 m2 with ⟨h, _⟩ | ⟨_, pk2, e2⟩
  · rw [hr] at h; cases h
  obtain ⟨w1, s1, c1⟩ := grow_blank x kind m hkm.isData.1 (createCap p)
  obtain ⟨w2, s2, c2⟩ := grow_blank x kind2 m2 hkm.isData.2 (createCap r)
  have n1 := grow_name { name := x, kind := kind, merge := m } (createCap p)
  have n2 := grow_name { name := x, kind := kind2, merge := m2 } (createCap r)
  refine ⟨_, _, ?_, ?_, ?_, w1, w2, ?_, ?_, fun i => by rw [s1 i, s2 i]⟩
  · rw [e1]
    have := findCol_push_self { p with pk := pk } _ (by rw [n1]; exact hp)
    rw [n1] at this; exact this
  · rw [e2]
    have := findCol_push_self { r with pk := pk2 } _ (by rw [n2]; exact hr)
    rw [n2] at this; exact this
  · rw [grow_kind, grow_kind]; exact hkm
  · rw [e1]
    have := createCap_covers p
    show p.commits.size ≤ _
    omega
  · rw [e2]
    have := createCap_covers r
    show r.commits.size ≤ _
    omega

/-- **a key column created on both sides** is in sync (slots and key table) -/
theorem keySync_createColumn (p r : Store) (x : String) (m m2 : Bytes → Bytes → Bytes)
    (hp : p.findCol x = none) (hr : r.findCol x = none) :
    KeySync x (p.createColumn x .key m).1 (r.createColumn x .key m2).1 := by
  obtain ⟨cp, cq, a1, a2, _, a4, a5, a6, a7, a8⟩ := dataSync_createColumn p r x .key .key m m2 (kindsMatch_key rfl rfl) hp hr
  rcases createColumn_cases p x .key m with ⟨h, _⟩ | ⟨_, pk, e1⟩
  · rw [hp] at h; cases h
  rcases createColumn_cases r x .key m2 with ⟨h, _⟩ | ⟨_, pk2, e2⟩
  · rw [hr] at h; cases h
  have f1 := findCol_push_self { p with pk := pk } (Col.grow { name := x, kind := .key, merge := m } (createCap p))
    (by rw [grow_name]; exact hp)
  have f2 := findCol_push_self { r with pk := pk2 } (Col.grow { name := x, kind := .key, merge := m2 } (createCap r))
    (by rw [grow_name]; exact hr)
  rw [grow_name] at f1 f2
  rw [e1, f1] at a1
  rw [e2, f2] at a2
  cases a1
  cases a2
  refine ⟨_, _, by rw [e1]; exact f1, by rw [e2]; exact f2, by rw [grow_kind], by rw [grow_kind], a4, a5, a6, a7, a8, ?_⟩
  rw [(grow_data _ rfl _).1, (grow_data _ rfl _).1]

theorem createColumn_key_pk (s : Store) (x : String) (m : Bytes → Bytes → Bytes) (h : s.findCol x = none)
    (hpk : s.pk = none) : (s.createColumn x .key m).1.pk = some x := by
  unfold Store.createColumn
  rw [h, hpk]
  rfl

/-- creating another column leaves the store's view of `x` alone -/
theorem createColumn_other (s : Store) (y x : String) (kind : Kind) (m : Bytes → Bytes → Bytes) (hne : y ≠ x) :
    (s.createColumn y kind m).1.findCol x = s.findCol x ∧ (s.createColumn y kind m).1.commits = s.commits ∧
    (s.createColumn y kind m).1.fill = s.fill := by
  rcases createColumn_cases s y kind m with ⟨_, e⟩ | ⟨_, pk, e⟩
  · rw [e]; exact ⟨rfl, rfl, rfl⟩
  · rw [e]
    refine ⟨?_, rfl, rfl⟩
    exact findCol_push_other { s with pk := pk } _ x (by rw [grow_name]; exact hne)

theorem numSync_createColumn_other (p r : Store) (x y : String) (kind kind2 : Kind) (m m2 : Bytes → Bytes → Bytes)
    (hne : y ≠ x) (h : NumSync x p r) : NumSync x (p.createColumn y kind m).1 (r.createColumn y kind2 m2).1 := by
  obtain ⟨cp, cq, k, k2, hfp, hfr, r1, r2, r3, r4, r5, r6, r7⟩ := h
  obtain ⟨a1, a2, _⟩ := createColumn_other p y x kind m hne
  obtain ⟨b1, b2, _⟩ := createColumn_other r y x kind2 m2 hne
  exact ⟨cp, cq, k, k2, a1.trans hfp, b1.trans hfr, r1, r2, r3, r4, by rw [a2]; exact r5, by rw [b2]; exact r6, r7⟩

theorem fillSync_createColumn (p r : Store) (y y2 : String) (kind kind2 : Kind) (m m2 : Bytes → Bytes → Bytes)
    (h : FillSync p r) : FillSync (p.createColumn y kind m).1 (r.createColumn y2 kind2 m2).1 := by
  have e1 : (p.createColumn y kind m).1.fill = p.fill := by
    rcases createColumn_cases p y kind m with ⟨_, e⟩ | ⟨_, pk, e⟩ <;> rw [e]
  have e2 : (r.createColumn y2 kind2 m2).1.fill = r.fill := by
    rcases createColumn_cases r y2 kind2 m2 with ⟨_, e⟩ | ⟨_, pk, e⟩ <;> rw [e]
  intro j
  rw [e1, e2]; exact h j

/-- no column has computed columns attached (a collection without indexes / triggers) -/
def NoComputed (s : Store) : Prop := ∀ n c, s.findCol n = some c → c.computed = []

theorem computedKinds_of_noComputed (s : Store) (h : NoComputed s) : ComputedKinds s := by
  intro n c hc m hm
  rw [h n c hc] at hm
  cases hm

theorem noComputed_createColumn (s : Store) (y : String) (kind : Kind) (m : Bytes → Bytes → Bytes) (h : NoComputed s) :
    NoComputed (s.createColumn y kind m).1 := by
  rcases createColumn_cases s y kind m with ⟨_, e⟩ | ⟨hn, pk, e⟩
  · rw [e]; exact h
  · rw [e]
    intro n c hc
    by_cases hny : y = n
    · subst hny
      have := findCol_push_self { s with pk := pk } (Col.grow { name := y, kind := kind, merge := m } (createCap s))
        (by rw [grow_name]; exact hn)
      rw [grow_name] at this
      rw [this] at hc
      cases hc
      rw [grow_computed]
    · rw [findCol_push_other { s with pk := pk } _ n (by rw [grow_name]; exact hny)] at hc
      exact h n c hc

/-- what two collections built the same way share: the same registered names, every registered column numeric and in
    sync, equal fill lists, no computed columns -/
structure SameStart (p r : Store) : Prop where
  names : ∀ x, p.findCol x = none ↔ r.findCol x = none
  cols : ∀ x, p.findCol x ≠ none → NumSync x p r
  fill : FillSync p r
  ncp : NoComputed p
  ncr : NoComputed r

theorem createColumn_self_some (s : Store) (y : String) (kind : Kind) (m : Bytes → Bytes → Bytes) :
    (s.createColumn y kind m).1.findCol y ≠ none := by
  rcases createColumn_cases s y kind m with ⟨h, e⟩ | ⟨hn, pk, e⟩
  · rw [e]
    intro h0
    rw [h0] at h
    cases h
  · rw [e]
    have := findCol_push_self { s with pk := pk } (Col.grow { name := y, kind := kind, merge := m } (createCap s))
      (by rw [grow_name]; exact hn)
    rw [grow_name] at this
    rw [this]
    exact fun h => by cases h

/-- creating a numeric column of the same name on both sides keeps `SameStart` (kinds and merge functions may differ) -/
theorem sameStart_createColumn (p r : Store) (h : SameStart p r) (y : String) (k k2 : NumKind)
    (m m2 : Bytes → Bytes → Bytes) :
    SameStart (p.createColumn y (.num k) m).1 (r.createColumn y (.num k2) m2).1 := by
  refine ⟨fun x => ?_, fun x hx => ?_, fillSync_createColumn p r y y _ _ m m2 h.fill,
    noComputed_createColumn p y _ m h.ncp, noComputed_createColumn r y _ m2 h.ncr⟩
  · by_cases hxy : y = x
    · subst hxy
      exact ⟨fun e => absurd e (createColumn_self_some p y _ m), fun e => absurd e (createColumn_self_some r y _ m2)⟩
    · rw [(createColumn_other p y x _ m hxy).1, (createColumn_other r y x _ m2 hxy).1]
      exact h.names x
  · by_cases hxy : y = x
    · subst hxy
      cases hp : p.findCol y with
      | none => exact numSync_createColumn p r y k k2 m m2 hp ((h.names y).1 hp)
      | some c =>
        have hr : r.findCol y ≠ none := fun e => by rw [(h.names y).2 e] at hp; cases hp
        rcases createColumn_cases p y (.num k) m with ⟨_, e1⟩ | ⟨hn, _⟩
        · rcases createColumn_cases r y (.num k2) m2 with ⟨_, e2⟩ | ⟨hn, _⟩
          · rw [e1, e2]
            exact h.cols y (by rw [hp]; exact fun h => by cases h)
          · exact absurd hn hr
        · rw [hn] at hp; cases hp
    · rw [(createColumn_other p y x _ m hxy).1] at hx
      exact numSync_createColumn_other p r x y _ _ m m2 hxy (h.cols x hx)

/-- `NewCollection` on both sides (any capacities, loggers, hashes) -/
theorem sameStart_new (cap cap2 : Nat) (lg lg2 : LoggerKind) (hash hash2 : Bytes → Nat) :
    SameStart (Store.new cap lg hash) (Store.new cap2 lg2 hash2) := by
  -- `NewCollection` is `CreateColumn "expire"` on an empty registry, up to the capacity the column is grown to
  have key : ∀ (cap : Nat) (lg : LoggerKind) (hash : Bytes → Nat), ∃ (s0 : Store) (i : Nat),
      s0.cols = #[] ∧ s0.commits = #[] ∧ s0.fill = #[] ∧
      Store.new cap lg hash =
        { s0 with cols := s0.cols.push (Col.grow { name := "expire", kind := .num .i64, merge := addMerge64 } i) } := by
    intro cap lg hash
    exact ⟨{ cap := if cap > 0 then cap else 1024, logger := lg, hash := hash }, if cap > 0 then cap else 1024,
      rfl, rfl, rfl, rfl⟩
  obtain ⟨p0, i1, a1, a2, a3, e1⟩ := key cap lg hash
  obtain ⟨r0, i2, b1, b2, b3, e2⟩ := key cap2 lg2 hash2
  have hp0 : ∀ x, p0.findCol x = none := by intro x; unfold Store.findCol; rw [a1]; rfl
  have hr0 : ∀ x, r0.findCol x = none := by intro x; unfold Store.findCol; rw [b1]; rfl
  have n1 := grow_name { name := "expire", kind := .num .i64, merge := addMerge64 } i1
  have n2 := grow_name { name := "expire", kind := .num .i64, merge := addMerge64 } i2
  have f1 := findCol_push_self p0 (Col.grow { name := "expire", kind := .num .i64, merge := addMerge64 } i1)
    (hp0 _)
  have f2 := findCol_push_self r0 (Col.grow { name := "expire", kind := .num .i64, merge := addMerge64 } i2)
    (hr0 _)
  rw [n1] at f1
  rw [n2] at f2
  have o1 : ∀ x, "expire" ≠ x → (Store.new cap lg hash).findCol x = none := by
    intro x hx; rw [e1, findCol_push_other p0 _ x (by rw [n1]; exact hx)]; exact hp0 x
  have o2 : ∀ x, "expire" ≠ x → (Store.new cap2 lg2 hash2).findCol x = none := by
    intro x hx; rw [e2, findCol_push_other r0 _ x (by rw [n2]; exact hx)]; exact hr0 x
  obtain ⟨w1, s1, _⟩ := grow_blank "expire" (.num .i64) addMerge64 rfl i1
  obtain ⟨w2, s2, _⟩ := grow_blank "expire" (.num .i64) addMerge64 rfl i2
  have hsync : NumSync "expire" (Store.new cap lg hash) (Store.new cap2 lg2 hash2) := by
    refine ⟨_, _, .i64, .i64, by rw [e1]; exact f1, by rw [e2]; exact f2, by rw [grow_kind], by rw [grow_kind], w1, w2,
      ?_, ?_, fun i => by rw [s1 i, s2 i]⟩
    · rw [e1]; show p0.commits.size ≤ _; rw [a2]; exact Nat.zero_le _
    · rw [e2]; show r0.commits.size ≤ _; rw [b2]; exact Nat.zero_le _
  refine ⟨fun x => ?_, fun x hx => ?_, ?_, ?_, ?_⟩
  · by_cases hx : "expire" = x
    · subst hx
      rw [e1, e2, f1, f2]
      exact ⟨fun h => (by cases h), fun h => (by cases h)⟩
    · rw [o1 x hx, o2 x hx]
  · by_cases hxe : "expire" = x
    · subst hxe; exact hsync
    · exact absurd (o1 x hxe) hx
  · intro j
    rw [e1, e2]
    show Bits.get r0.fill j = Bits.get p0.fill j
    rw [a3, b3]
  · intro n c hc
    by_cases hne : "expire" = n
    · subst hne
      rw [e1, f1] at hc
      cases hc
      rw [grow_computed]
    · rw [o1 n hne] at hc; cases hc
  · intro n c hc
    by_cases hne : "expire" = n
    · subst hne
      rw [e2, f2] at hc
      cases hc
      rw [grow_computed]
    · rw [o2 n hne] at hc; cases hc

/-- a collection as `NewCollection` followed by `CreateColumn` for the numeric columns `(name, kind, merge)` builds it -/
def mkStore (cap : Nat) (lg : LoggerKind) (hash : Bytes → Nat)
    (cols : List (String × NumKind × (Bytes → Bytes → Bytes))) : Store :=
  cols.foldl (fun s c => (s.createColumn c.1 (.num c.2.1) c.2.2).1) (Store.new cap lg hash)

theorem foldl_sameStart (cols : List (String × NumKind × (Bytes → Bytes → Bytes))) :
    ∀ (cols2 : List (String × NumKind × (Bytes → Bytes → Bytes))) (p r : Store),
      cols2.map (·.1) = cols.map (·.1) → SameStart p r →
      SameStart (cols.foldl (fun s c => (s.createColumn c.1 (.num c.2.1) c.2.2).1) p)
        (cols2.foldl (fun s c => (s.createColumn c.1 (.num c.2.1) c.2.2).1) r) := by
  induction cols with
  | nil =>
    intro cols2 p r hn h
    cases cols2 with
    | nil => exact h
    | cons _ _ => cases hn
  | cons c cs ih =>
    intro cols2 p r hn h
    cases cols2 with
    | nil => cases hn
    | cons c2 cs2 =>
      simp only [List.map_cons, List.cons.injEq] at hn
      simp only [List.foldl_cons]
      apply ih cs2 _ _ hn.2
      rw [hn.1]
      exact sameStart_createColumn p r h c.1 c.2.1 c2.2.1 c.2.2 c2.2.2

/-- **same schema ⇒ same start**: two collections built with the same column names (kinds, merge functions, capacities,
    loggers, hashes free) -/
theorem mkStore_sameStart (cap cap2 : Nat) (lg lg2 : LoggerKind) (hash hash2 : Bytes → Nat)
    (cols cols2 : List (String × NumKind × (Bytes → Bytes → Bytes))) (hn : cols2.map (·.1) = cols.map (·.1)) :
    SameStart (mkStore cap lg hash cols) (mkStore cap2 lg2 hash2 cols2) :=
  foldl_sameStart cols cols2 _ _ hn (sameStart_new cap cap2 lg lg2 hash hash2)

theorem createColumn_quiet (s : Store) (y : String) (kind : Kind) (m : Bytes → Bytes → Bytes) :
    (s.createColumn y kind m).1.emitted = s.emitted ∧ (s.createColumn y kind m).1.logger = s.logger := by
  rcases createColumn_cases s y kind m with ⟨_, e⟩ | ⟨_, pk, e⟩ <;> rw [e] <;> exact ⟨rfl, rfl⟩

theorem mkStore_quiet (cap : Nat) (lg : LoggerKind) (hash : Bytes → Nat)
    (cols : List (String × NumKind × (Bytes → Bytes → Bytes))) :
    (mkStore cap lg hash cols).emitted = [] ∧ (mkStore cap lg hash cols).logger = lg := by
  unfold mkStore
  have : (Store.new cap lg hash).emitted = [] ∧ (Store.new cap lg hash).logger = lg := ⟨rfl, rfl⟩
  generalize Store.new cap lg hash = s at this
  induction cols generalizing s with
  | nil => exact this
  | cons c cs ih =>
    simp only [List.foldl_cons]
    apply ih
    obtain ⟨q1, q2⟩ := createColumn_quiet s c.1 (.num c.2.1) c.2.2
    exact ⟨q1.trans this.1, q2.trans this.2⟩

/-! ## F — single-chunk transactions keep single-chunk buffers (for the `.channel` logger) -/

/-- every section of the buffer belongs to chunk `ch` and holds ops of that chunk -/
def OneChunk (ch : Nat) (b : Buf) : Prop := (∀ s ∈ b.rsecs, s.chunk = ch) ∧ ChunkOK b

theorem OneChunk.chunks {ch : Nat} {b : Buf} (h : OneChunk ch b) : ∀ c ∈ b.chunks, c = ch := by
  intro c hc
  unfold Buf.chunks Buf.secs at hc
  obtain ⟨s, hs, rfl⟩ := List.mem_map.1 hc
  exact h.1 s (List.mem_reverse.1 hs)

theorem oneChunk_of_chunks {ch : Nat} {b : Buf} (h : ∀ c ∈ b.chunks, c = ch) (hok : ChunkOK b) : OneChunk ch b := by
  refine ⟨fun s hs => h s.chunk ?_, hok⟩
  unfold Buf.chunks Buf.secs
  exact List.mem_map.2 ⟨s, List.mem_reverse.2 hs, rfl⟩

theorem put_oneChunk (b : Buf) (o : Op) (ch : Nat) (h : OneChunk ch b) (ho : chunkOf o.idx = ch) :
    OneChunk ch (b.put o) := by
  rcases put_forms b o with ⟨s, rest, hr, _, he⟩ | he
  · rw [he]
    have hs : s ∈ b.rsecs := by rw [hr]; simp
    refine ⟨?_, ?_⟩
    · intro s' hs'
      simp only [List.mem_cons] at hs'
      rcases hs' with rfl | hs'
      · exact h.1 s hs
      · exact h.1 s' (by rw [hr]; simp [hs'])
    · intro s' hs' x hx
      simp only [List.mem_cons] at hs'
      rcases hs' with rfl | hs'
      · simp only [List.mem_cons] at hx
        rcases hx with rfl | hx
        · rw [ho]; exact (h.1 s hs).symm
        · exact h.2 s hs x hx
      · exact h.2 s' (by rw [hr]; simp [hs']) x hx
  · rw [he]
    refine ⟨?_, ?_⟩
    · intro s' hs'
      simp only [List.mem_cons] at hs'
      rcases hs' with rfl | hs'
      · exact ho
      · exact h.1 s' hs'
    · intro s' hs' x hx
      simp only [List.mem_cons] at hs'
      rcases hs' with rfl | hs'
      · simp only [List.mem_singleton] at hx; subst hx; rfl
      · exact h.2 s' hs' x hx

theorem putAll_oneChunk (b : Buf) (ops : List Op) (ch : Nat) (h : OneChunk ch b) (ho : ∀ o ∈ ops, chunkOf o.idx = ch) :
    OneChunk ch (b.putAll ops) := by
  induction ops generalizing b with
  | nil => exact h
  | cons o os ih =>
    rw [Buf.putAll_cons]
    exact ih _ (put_oneChunk b o ch h (ho o (by simp))) (fun x hx => ho x (by simp [hx]))

theorem replaceSec_oneChunk (u : Buf) (i : Nat) (ops' : List Op) (ch : Nat) (h : OneChunk ch u)
    (ho : ∀ o ∈ ops', chunkOf o.idx = ch) :
    OneChunk ch ({ u with rsecs := (replaceSec u.secs i ops').reverse } : Buf) := by
  have key : ∀ s' ∈ replaceSec u.secs i ops', s'.chunk = ch ∧ ∀ x ∈ s'.rops, chunkOf x.idx = s'.chunk := by
    intro s' hs'
    unfold replaceSec at hs'
    obtain ⟨j, hj, e⟩ := List.mem_mapIdx.1 hs'
    have hmem : u.secs[j] ∈ u.rsecs := by
      have : u.secs[j] ∈ u.secs := List.getElem_mem hj
      unfold Buf.secs at this
      exact List.mem_reverse.1 this
    split at e
    · rw [← e]
      have hc : u.secs[j].chunk = ch := h.1 _ hmem
      refine ⟨hc, ?_⟩
      intro x hx
      simp only [List.mem_reverse] at hx
      rw [ho x hx]; exact hc.symm
    · rw [← e]
      exact ⟨h.1 _ hmem, h.2 _ hmem⟩
  refine ⟨fun s hs => (key s (List.mem_reverse.1 hs)).1, fun s hs => (key s (List.mem_reverse.1 hs)).2⟩

theorem mpStep_oneChunk (hash : Bytes → Nat) (ch : Nat) (acc : Col × Buf × Bool) (i : Nat) (h : OneChunk ch acc.2.1) :
    OneChunk ch (mpStep hash ch acc i).2.1 := by
  unfold mpStep
  split
  · exact h
  · rename_i sec hsec
    split
    · exact h
    · have hmem : sec ∈ acc.2.1.rsecs := by
        have : sec ∈ acc.2.1.secs := List.mem_of_getElem? hsec
        unfold Buf.secs at this
        exact List.mem_reverse.1 this
      have hops : ∀ o ∈ sec.ops, chunkOf o.idx = ch := by
        intro o ho
        unfold Sec.ops at ho
        rw [h.2 sec hmem o (List.mem_reverse.1 ho)]
        exact h.1 sec hmem
      obtain ⟨i1, i2⟩ := applyData_idx hash acc.1 ch sec.ops (fun j => chunkOf j = ch) hops
      exact putAll_oneChunk _ _ ch (replaceSec_oneChunk acc.2.1 i _ ch h i1) i2

theorem mainPass_oneChunk (hash : Bytes → Nat) (col : Col) (ch : Nat) (u : Buf) (h : OneChunk ch u) :
    OneChunk ch (mainPass hash col ch u).2.1 := by
  rw [mainPass_eq]
  exact foldl_invariant (fun (acc : Col × Buf × Bool) => OneChunk ch acc.2.1) _ _ (col, u, false) h
    (fun acc i _ hacc => mpStep_oneChunk hash ch acc i hacc)

theorem cuStep_oneChunk (ch : Nat) (s : Store) (done : List Buf) (b : Bool) (u : Buf) (h : OneChunk ch u) :
    ∃ u', (cuStep ch (s, done, b) u).2.1 = done ++ [u'] ∧ OneChunk ch u' := by
  unfold cuStep
  simp only
  split
  · exact ⟨u, rfl, h⟩
  · split
    · exact ⟨u, rfl, h⟩
    · split
      · exact ⟨_, rfl, mainPass_oneChunk _ _ ch u h⟩
      · exact ⟨u, rfl, h⟩

theorem cuFold_oneChunk (ch : Nat) (ups : List Buf) :
    ∀ (s : Store) (done : List Buf) (b : Bool), (∀ u ∈ ups, OneChunk ch u) →
      ∃ ups', (ups.foldl (cuStep ch) (s, done, b)).2.1 = done ++ ups' ∧ ∀ u' ∈ ups', OneChunk ch u' := by
  induction ups with
  | nil => intro s done b _; exact ⟨[], by simp, fun u' hu' => by cases hu'⟩
  | cons u us ih =>
    intro s done b h
    simp only [List.foldl_cons]
    obtain ⟨u', e1, o1⟩ := cuStep_oneChunk ch s done b u (h u (by simp))
    generalize cuStep ch (s, done, b) u = r at e1
    obtain ⟨r1, r2, r3⟩ := r
    simp only at e1
    obtain ⟨us', e2, o2⟩ := ih r1 r2 r3 (fun v hv => h v (by simp [hv]))
    refine ⟨u' :: us', by rw [e2, e1]; simp, ?_⟩
    intro v hv
    rcases List.mem_cons.1 hv with rfl | hv
    · exact o1
    · exact o2 v hv

/-- buffers that hold sections of `ch` only (ops in their own chunk) are handed on as such by the latch section of `ch` -/
theorem commitChunk_oneChunk (s : Store) (ch : Nat) (cr : Bool) (ups : List Buf) (h : ∀ u ∈ ups, OneChunk ch u) :
    ∀ u' ∈ (s.commitChunk ch cr ups).2, OneChunk ch u' := by
  rw [commitChunk_def]
  obtain ⟨f1, _⟩ := finishChunk_fields (s.nextId + 1) ch cr ((markStore s ch cr ups).commitUpdates ch ups)
  rw [f1, commitUpdates_eq]
  obtain ⟨ups', e, o⟩ := cuFold_oneChunk ch ups (markStore s ch cr ups) [] false h
  rw [e, List.nil_append]
  exact o

/-- **a transaction that touches one chunk only**: the `.channel` logger delivers what it emits -/
theorem emittedBy_delivers_channel (p : Store) (t : Txn) (ch : Nat) (hd : t.dirtyChunks = [ch])
    (hok : ∀ v ∈ t.updates, ChunkOK v) :
    ∀ e ∈ emittedBy p t, Delivers e.updates e.chunk (e.received .channel) := by
  have hone : ∀ u ∈ t.updates, OneChunk ch u := by
    intro u hu
    apply oneChunk_of_chunks _ (hok u hu)
    intro c hc
    have : c ∈ t.dirtyChunks := (mem_dirtyChunks t c).2 (Or.inr ⟨u, hu, hc⟩)
    rw [hd] at this
    simpa using this
  apply delivers_channel_of
  intro e he
  unfold emittedBy at he
  rw [hd, loopEmitted_cons] at he
  have hnil : ∀ (s : Store) (ups : List Buf), loopEmitted t.markers.isSome [] s ups = [] := fun _ _ => rfl
  rw [hnil, List.append_nil] at he
  unfold chunkEmitted at he
  split at he
  · rw [List.mem_singleton.1 he]
    intro b hb
    exact (commitChunk_oneChunk _ ch _ _ hone b hb).chunks
  · cases he

theorem emittedByAll_delivers_channel (ts : List Txn) :
    ∀ (p : Store), (∀ t ∈ ts, (∃ ch, t.dirtyChunks = [ch]) ∧ ∀ v ∈ t.updates, ChunkOK v) →
      ∀ e ∈ emittedByAll p ts, Delivers e.updates e.chunk (e.received .channel) := by
  induction ts with
  | nil => intro p _ e he; cases he
  | cons t ts ih =>
    intro p hd e he
    rcases List.mem_append.1 he with he | he
    · obtain ⟨⟨ch, hch⟩, hok⟩ := hd t (by simp)
      exact emittedBy_delivers_channel p t ch hch hok e he
    · exact ih (p.commit t) (fun t' ht' => hd t' (by simp [ht'])) e he

/-! ## G — closed form of what a commit emits for a numeric column -/

/-- **the entry of one chunk, as one list**: the markers of the chunk followed by the ops of `x` the emitted buffers hold for
    it are the rewritten `markers ++ ops` — `(applyData …).ops` of exactly the section `commitChunk_col` applies -/
theorem commitChunk_chunkOps_num (s : Store) (ch : Nat) (cr : Bool) (ups : List Buf) (x : String) (cp : Col) (k : NumKind)
    (hcr : cr = (ups.find? isMarkerBuf).isSome) (hxr : x ≠ rowColumn) (hfp : s.findCol x = some cp)
    (hkp : cp.kind = .num k) (hcks : ComputedKinds s) (hmk : ∀ o ∈ markerOps ups ch, o.typ ≠ opMerge) :
    chunkOps (s.commitChunk ch cr ups).2 x ch = (applyData s.hash cp ch (chunkOps ups x ch)).ops := by
  subst hcr
  have hdp : cp.kind.isData = true := by rw [hkp]; rfl
  have hcompP := notComputed_of_computedKinds s hcks x cp hfp hdp ups
  have hna : (applyData s.hash (applyData s.hash cp ch (markerOpsCr (ups.find? isMarkerBuf).isSome ups ch)).col ch
      (opsFor ups x ch)).appended = [] :=
    applyData_appended_nil_of_kind _ _ _ _
      (by rw [(applyData_sameShape s.hash cp ch _).kind, hkp]; exact ⟨by simp, by simp⟩)
  have o1 := commitChunk_ops s ch _ ups x cp hxr hfp hdp hcompP hna
  rw [markerOpsCr_isSome] at o1
  unfold chunkOps
  rw [commitChunk_markerOps, applyData_ops_append, applyData_ops_of_no_merge s.hash cp ch _ hmk, o1]

/-- what the chunks `cs` emit for the column `x`, chunk by chunk: the rewritten section, the column threaded through -/
def emittedOps (hash : Bytes → Nat) (ups : List Buf) (x : String) : List Nat → Col → List (Nat × List Op)
  | [], _ => []
  | c :: cs, col =>
    (c, (applyData hash col c (chunkOps ups x c)).ops) :: emittedOps hash ups x cs (applyData hash col c (chunkOps ups x c)).col

theorem emittedOps_congr (hash : Bytes → Nat) (ups ups' : List Buf) (x : String) (cs : List Nat)
    (h : ∀ c ∈ cs, chunkOps ups' x c = chunkOps ups x c) (col : Col) :
    emittedOps hash ups' x cs col = emittedOps hash ups x cs col := by
  induction cs generalizing col with
  | nil => rfl
  | cons c cs ih =>
    simp only [emittedOps]
    rw [h c (by simp), ih (fun c' hc' => h c' (by simp [hc']))]

/-- **the chunk loop, closed form** (numeric column, the transaction emits): per entry, chunk and rewritten section -/
theorem loopEmitted_ops_num (x : String) (hxr : x ≠ rowColumn) (cs : List Nat) :
    ∀ (s : Store) (ups : List Buf) (cr : Bool) (cp : Col) (k : NumKind), cs.Nodup → cr = (ups.find? isMarkerBuf).isSome →
      s.findCol x = some cp → cp.kind = .num k → ComputedKinds s →
      (∀ c ∈ cs, ∀ o ∈ markerOps ups c, o.typ ≠ opMerge) → (cr || StorePlumb.updatedFlag s ups) = true →
      (loopEmitted cr cs s ups).map (fun e => (e.chunk, chunkOps e.updates x e.chunk)) = emittedOps s.hash ups x cs cp := by
  induction cs with
  | nil => intro s ups cr cp k _ _ _ _ _ _ _; rfl
  | cons c cs ih =>
    intro s ups cr cp k hnd hcr hfp hkp hcks hmk hE
    have hc_notin : c ∉ cs := (List.nodup_cons.1 hnd).1
    have hnd' : cs.Nodup := (List.nodup_cons.1 hnd).2
    have hdp : cp.kind.isData = true := by rw [hkp]; rfl
    have hcompP := notComputed_of_computedKinds s hcks x cp hfp hdp ups
    have hna : (applyData s.hash (applyData s.hash cp c (markerOpsCr cr ups c)).col c (opsFor ups x c)).appended = [] :=
      applyData_appended_nil_of_kind _ _ _ _
        (by rw [(applyData_sameShape s.hash cp c _).kind, hkp]; exact ⟨by simp, by simp⟩)
    obtain ⟨f1, hreg, hrel⟩ := commitChunk_col_full s c cr ups x cp hxr hfp hdp hcompP hna
    have hmcr : markerOpsCr cr ups c = markerOps ups c := by rw [hcr, markerOpsCr_isSome]
    rw [hmcr] at f1
    have hco : ∀ c2 ∈ cs, chunkOps (s.commitChunk c cr ups).2 x c2 = chunkOps ups x c2 := by
      intro c2 hc2
      unfold chunkOps
      rw [commitChunk_markerOps, hrel.opsFor c2 (by
        intro e
        simp only [List.mem_singleton] at e
        exact hc_notin (e ▸ hc2))]
    have hce : chunkEmitted cr c s ups = [⟨s.nextId + 1, c, (s.commitChunk c cr ups).2⟩] := by
      unfold chunkEmitted; rw [if_pos hE]
    have hE1 : (cr || StorePlumb.updatedFlag (s.commitChunk c cr ups).1 (s.commitChunk c cr ups).2) = true := by
      rw [StorePlumb.updatedFlag_commitChunk]; exact hE
    have := ih (s.commitChunk c cr ups).1 (s.commitChunk c cr ups).2 cr _ k hnd'
      (by rw [commitChunk_find_marker]; exact hcr) f1
      (by rw [(applyData_sameShape s.hash cp c _).kind]; exact hkp) (ComputedKinds.of_regSim hreg hcks)
      (fun c2 hc2 => by rw [commitChunk_markerOps]; exact hmk c2 (by simp [hc2])) hE1
    rw [loopEmitted_cons, hce, List.map_append, this, commitChunk_hash, emittedOps_congr _ _ _ _ _ hco]
    simp only [List.map_cons, List.map_nil, List.singleton_append, emittedOps]
    rw [commitChunk_chunkOps_num s c cr ups x cp k hcr hxr hfp hkp hcks (hmk c (by simp))]
    rfl

/-- **`p.commit t`, closed form of the stream for a numeric column `x`** (the transaction emits; no `Merge` among the markers):
    one entry per dirty chunk, ascending, holding for its chunk the markers followed by the ops issued for `x`, rewritten by
    `applyData` in the column state the previous chunks leave, starting from the column as `commitCapacity` leaves it -/
theorem emittedBy_ops_num (p : Store) (t : Txn) (x : String) (cp : Col) (k : NumKind) (hxr : x ≠ rowColumn)
    (hfp : p.findCol x = some cp) (hkp : cp.kind = .num k) (hckp : ComputedKinds p)
    (hmk : ∀ o ∈ markerAll t.updates, o.typ ≠ opMerge)
    (hE : (t.markers.isSome || StorePlumb.updatedFlag p t.updates) = true) :
    (emittedBy p t).map (fun e => (e.chunk, chunkOps e.updates x e.chunk)) =
      emittedOps p.hash t.updates x t.dirtyChunks (capCol p t cp) := by
  have f0 : (capStore p t).findCol x = some (capCol p t cp) := by rw [capStore_findCol_eq, hfp]; rfl
  obtain ⟨_, m2, _, _⟩ := capCol_meta p t cp
  have hnames : (capStore p t).names = p.names := by
    unfold capStore
    cases t.dirtyChunks.getLast? with
    | none => rfl
    | some last => exact (StorePlumb.commitCapacity_plumb p last).names
  have := loopEmitted_ops_num x hxr t.dirtyChunks (capStore p t) t.updates t.markers.isSome (capCol p t cp) k
    (sorted_nodup _ (dirtyChunks_sorted t)) rfl f0 (m2.trans hkp) (capStore_computedKinds p t hckp)
    (fun c _ o ho => by
      apply hmk o
      unfold markerOps at ho
      unfold markerAll
      cases hf : t.updates.find? isMarkerBuf with
      | none => rw [hf] at ho; cases ho
      | some m => rw [hf] at ho; exact rangeOps_sub_allOps m c o ho)
    (by rw [StorePlumb.updatedFlag_congr hnames rfl]; exact hE)
  rw [capStore_hash] at this
  exact this

/-- replaying a list of entries is committing the list of replay transactions -/
theorem replayAll_eq_commits (kd : LoggerKind) (r : Store) (es : List Emitted) :
    replayAll kd r es = (es.map (fun e => replayTxn e.chunk (e.received kd))).foldl Store.commit r := by
  unfold replayAll
  rw [List.foldl_map]
  rfl

/-- a well-formed numeric / string / record / key column reads its slot -/
theorem read_wf (c : Col) (hkd : c.kind.storesRaw = true) (hw : ColWF c) (i : Nat) :
    c.read i = if (slot c i).1 = true then some (slot c i).2 else none := by
  rw [read_raw c hkd i]
  by_cases hb : (slot c i).1 = true
  · have hlt : i < c.bits.size := by
      unfold slot Bits.get at hb
      apply Classical.byContradiction
      intro hge
      simp only at hb
      rw [Array.getElem?_eq_none (by omega)] at hb
      simp at hb
    have hch : i / 16384 < c.nchunks := by rw [hw.bsize] at hlt; omega
    rw [if_pos ⟨hch, hb⟩, if_pos hb]
  · rw [if_neg (fun h => hb h.2), if_neg hb]

theorem DataSync.read {x : String} {p r : Store} (h : DataSync x p r) :
    ∃ cp cq, p.findCol x = some cp ∧ r.findCol x = some cq ∧ ∀ i, cq.read i = cp.read i := by
  obtain ⟨cp, cq, hfp, hfr, hkm, hwp, hwr, _, _, hs⟩ := h
  refine ⟨cp, cq, hfp, hfr, fun i => ?_⟩
  rw [read_wf cq hkm.storesRaw.2 hwr, read_wf cp hkm.storesRaw.1 hwp, hs i]

/-! ## H — the fill list when inserts reserve their offset before the commit

`Txn.insert` / `Txn.reserve` set the bit of the new row in the shared fill list at once (`Store.next`), the `Insert` marker
reaches the replica with the commit. So when the commit starts the primary's fill list differs from the replica's — but only at
offsets some marker of the transaction addresses, and there the markers decide the bit on both sides. -/

theorem foldl_flagEffect_indep (L : List Op) (hne : L ≠ []) (hall : ∀ o ∈ L, isMarkerOp o) (a b : Bool) :
    L.foldl (flagEffect opInsert) a = L.foldl (flagEffect opInsert) b := by
  cases L with
  | nil => exact absurd rfl hne
  | cons o os =>
    simp only [List.foldl_cons]
    have : flagEffect opInsert a o = flagEffect opInsert b o := by
      unfold flagEffect
      rcases hall o (by simp) with h | h
      · rw [if_pos h, if_pos h]
      · have hni : o.typ ≠ opInsert := by rw [h]; decide
        rw [if_neg hni, if_neg hni, if_pos h, if_pos h]
    rw [this]

/-- one chunk, one fill bit: it agreed before, or a marker of the chunk addresses it (markers are `Insert` / `Delete`) -/
theorem chunk_replay_fill_res (s r : Store) (ch : Nat) (cr : Bool) (ups bufs : List Buf)
    (hcr : cr = (ups.find? isMarkerBuf).isSome) (hdel : Delivers (s.commitChunk ch cr ups).2 ch bufs) (j : Nat)
    (hs : Bits.get r.fill j = Bits.get s.fill j ∨
      ((∀ o ∈ markerOps ups ch, isMarkerOp o) ∧ ∃ o ∈ markerOps ups ch, o.idx = j)) :
    Bits.get (r.replay ch bufs).fill j = Bits.get (s.commitChunk ch cr ups).1.fill j := by
  rcases hs with hs | ⟨hall, o, ho, hoj⟩
  · exact chunk_replay_fill s r ch cr ups bufs hcr hdel j hs
  · subst hcr
    have m1 := commitChunk_markerOps s ch (ups.find? isMarkerBuf).isSome ups ch
    rw [commitChunk_fill, replay_eq, commit_one_chunk r _ ch (replayTxn_dirtyChunks ch bufs hdel.chunks)]
    have hmk : (replayTxn ch bufs).markers.isSome = ((replayTxn ch bufs).updates.find? isMarkerBuf).isSome := rfl
    rw [hmk, commitChunk_fill]
    have hm2 : markerOps (replayTxn ch bufs).updates ch = markerOps ups ch := by
      show markerOps (nonEmpty bufs) ch = _
      rw [hdel.markers, m1]
    rw [hm2, foldFill_get, foldFill_get]
    apply foldl_flagEffect_indep
    · intro hnil
      have : o ∈ (markerOps ups ch).filter (fun o => o.idx = j) := List.mem_filter.2 ⟨ho, by simpa using hoj⟩
      rw [hnil] at this
      cases this
    · intro o' ho'
      exact hall o' (List.mem_filter.1 ho').1

theorem loop_step_fill_res (kd : LoggerKind) (s r : Store) (ups : List Buf) (cr : Bool) (c : Nat)
    (hcr : cr = (ups.find? isMarkerBuf).isSome)
    (hdl : ∀ e ∈ chunkEmitted cr c s ups, Delivers e.updates e.chunk (e.received kd)) (j : Nat)
    (hs : Bits.get r.fill j = Bits.get s.fill j ∨
      ((∀ o ∈ markerOps ups c, isMarkerOp o) ∧ ∃ o ∈ markerOps ups c, o.idx = j)) :
    Bits.get (replayAll kd r (chunkEmitted cr c s ups)).fill j = Bits.get (s.commitChunk c cr ups).1.fill j := by
  rcases hs with hs | ⟨hall, o, ho, hoj⟩
  · exact loop_step_fill kd s r ups cr c hcr hdl j hs
  · -- a marker exists, so the chunk is emitted
    have hcr1 : cr = true := by
      rw [hcr]
      unfold markerOps at ho
      cases hf : ups.find? isMarkerBuf with
      | none => rw [hf] at ho; cases ho
      | some m => rfl
    have hE : (cr || StorePlumb.updatedFlag s ups) = true := by rw [hcr1]; rfl
    have hce : chunkEmitted cr c s ups = [⟨s.nextId + 1, c, (s.commitChunk c cr ups).2⟩] := by
      unfold chunkEmitted; rw [if_pos hE]
    rw [hce] at hdl ⊢
    rw [replayAll_one]
    have hdel := hdl ⟨s.nextId + 1, c, (s.commitChunk c cr ups).2⟩ (List.mem_singleton.2 rfl)
    simp only at hdel ⊢
    exact chunk_replay_fill_res s r c cr ups _ hcr hdel j (Or.inr ⟨hall, o, ho, hoj⟩)

/-- the chunk loop, one fill bit: it agreed before, or a marker of one of the chunks addresses it -/
theorem commitLoop_replay_fill_res (kd : LoggerKind) (cs : List Nat) :
    ∀ (s r : Store) (ups : List Buf) (cr : Bool), cr = (ups.find? isMarkerBuf).isSome →
      (∀ e ∈ loopEmitted cr cs s ups, Delivers e.updates e.chunk (e.received kd)) →
      (∀ c ∈ cs, ∀ o ∈ markerOps ups c, isMarkerOp o) →
      ∀ j, (Bits.get r.fill j = Bits.get s.fill j ∨ ∃ c ∈ cs, ∃ o ∈ markerOps ups c, o.idx = j) →
        Bits.get (replayAll kd r (loopEmitted cr cs s ups)).fill j = Bits.get (commitLoop cr cs s ups).1.fill j := by
  induction cs with
  | nil =>
    intro s r ups cr _ _ _ j hs
    rcases hs with hs | ⟨c, hc, _⟩
    · exact hs
    · cases hc
  | cons c cs ih =>
    intro s r ups cr hcr hdl hall j hs
    have hdl1 : ∀ e ∈ chunkEmitted cr c s ups, Delivers e.updates e.chunk (e.received kd) :=
      fun e he => hdl e (by rw [loopEmitted_cons]; exact List.mem_append_left _ he)
    have hmo : ∀ c2, markerOps (s.commitChunk c cr ups).2 c2 = markerOps ups c2 := commitChunk_markerOps s c cr ups
    rw [commitLoop_cons, loopEmitted_cons, replayAll_append]
    apply ih _ _ _ cr (by rw [commitChunk_find_marker]; exact hcr)
      (fun e he => hdl e (by rw [loopEmitted_cons]; exact List.mem_append_right _ he))
      (fun c2 hc2 => by rw [hmo c2]; exact hall c2 (by simp [hc2]))
    -- either the bit is settled by this chunk, or it is still to come
    by_cases hnow : ∃ o ∈ markerOps ups c, o.idx = j
    · left
      obtain ⟨o, ho, hoj⟩ := hnow
      exact loop_step_fill_res kd s r ups cr c hcr hdl1 j (Or.inr ⟨hall c (by simp), o, ho, hoj⟩)
    · rcases hs with hs | ⟨c2, hc2, o, ho, hoj⟩
      · left
        exact loop_step_fill_res kd s r ups cr c hcr hdl1 j (Or.inl hs)
      · rcases List.mem_cons.1 hc2 with rfl | hc2
        · exact absurd ⟨o, ho, hoj⟩ hnow
        · right
          exact ⟨c2, hc2, o, by rw [hmo c2]; exact ho, hoj⟩

/-- the primary with the reservations of the transaction applied to the shared fill list (`Store.next` / `Store.free`
    change nothing else but the row counter) -/
def Store.reserved (p : Store) (fill : Bitmap) (count : Nat) : Store := { p with fill := fill, count := count }

theorem reserved_self (p : Store) : p.reserved p.fill p.count = p := rfl

/-- `Store.next` is such a reservation, and changes the one bit it returns -/
theorem next_reserved (p : Store) : p.next.1 = p.reserved (Bits.set p.fill p.next.2) (p.count + 1) := rfl

theorem next_fill_get (p : Store) (j : Nat) (h : Bits.get p.next.1.fill j ≠ Bits.get p.fill j) : j = p.next.2 := by
  rw [next_reserved] at h
  show j = p.next.2
  have hg : Bits.get (p.reserved (Bits.set p.fill p.next.2) (p.count + 1)).fill j =
      (decide (j = p.next.2) || Bits.get p.fill j) := get_set p.fill p.next.2 j
  rw [hg] at h
  by_cases e : j = p.next.2
  · exact e
  · simp [e] at h

/-- **a whole commit, the fill list, with reservations**: the replica's fill list agrees with the primary's as it was before
    the transaction reserved its offsets (`p.fill`); the reservations (`fill`) differ from it only at offsets some marker of
    the transaction addresses; markers are `Insert` / `Delete`, in sections of their own chunk. After the commit and the replay
    the fill lists agree. -/
theorem commit_replay_fill_res (kd : LoggerKind) (p r : Store) (t : Txn) (fill : Bitmap) (count : Nat)
    (hdl : ∀ e ∈ emittedBy (p.reserved fill count) t, Delivers e.updates e.chunk (e.received kd))
    (hmk : ∀ o ∈ markerAll t.updates, isMarkerOp o)
    (hok : ∀ m ∈ t.updates, isMarkerBuf m = true → ChunkOK m)
    (hres : ∀ j, Bits.get fill j ≠ Bits.get p.fill j → ∃ o ∈ markerAll t.updates, o.idx = j)
    (h : FillSync p r) :
    FillSync ((p.reserved fill count).commit t) (replayAll kd r (emittedBy (p.reserved fill count) t)) := by
  intro j
  rw [commit_eq']
  have hsub : ∀ c, ∀ o ∈ markerOps t.updates c, o ∈ markerAll t.updates := by
    intro c o ho
    unfold markerOps at ho
    unfold markerAll
    cases hf : t.updates.find? isMarkerBuf with
    | none => rw [hf] at ho; cases ho
    | some m => rw [hf] at ho; exact rangeOps_sub_allOps m c o ho
  apply commitLoop_replay_fill_res kd t.dirtyChunks (capStore (p.reserved fill count) t) r t.updates t.markers.isSome rfl hdl
    (fun c _ o ho => hmk o (hsub c o ho)) j
  by_cases hj : Bits.get fill j = Bits.get p.fill j
  · left
    rw [capStore_fill_get]
    exact (h j).trans hj.symm
  · right
    obtain ⟨o, ho, hoj⟩ := hres j hj
    unfold markerAll at ho
    cases hf : t.updates.find? isMarkerBuf with
    | none => rw [hf] at ho; cases ho
    | some m =>
      rw [hf] at ho
      have hmem := List.mem_of_find?_eq_some hf
      have hmok := hok m hmem (List.find?_some hf)
      refine ⟨chunkOf o.idx, ?_, o, ?_, hoj⟩
      · rw [mem_dirtyChunks]
        exact Or.inr ⟨m, hmem, allOps_chunk_mem m hmok o ho⟩
      · unfold markerOps
        rw [hf]
        show o ∈ m.rangeOps (chunkOf o.idx)
        rw [rangeOps_eq_filter_ok m _ hmok]
        exact List.mem_filter.2 ⟨ho, by simp⟩

/-- one step of a history with reservations: the fill list and row counter as the transaction's reservations leave them,
    then the transaction -/
structure ResStep where
  fill : Bitmap
  count : Nat
  txn : Txn

def ResStep.run (p : Store) (st : ResStep) : Store := (p.reserved st.fill st.count).commit st.txn

/-- the reservations differ from the fill list only where a marker of the transaction will decide the bit -/
def ResOK (p : Store) (st : ResStep) : Prop :=
  ∀ j, Bits.get st.fill j ≠ Bits.get p.fill j → ∃ o ∈ markerAll st.txn.updates, o.idx = j

/-- … at every step of the history, in the state the previous steps leave -/
def ResRun : Store → List ResStep → Prop
  | _, [] => True
  | p, st :: sts => ResOK p st ∧ ResRun (st.run p) sts

/-- a plain commit is a step without reservations -/
def ResStep.plain (p : Store) (t : Txn) : ResStep := ⟨p.fill, p.count, t⟩

theorem ResStep.plain_run (p : Store) (t : Txn) : (ResStep.plain p t).run p = p.commit t := rfl

theorem ResStep.plain_ok (p : Store) (t : Txn) : ResOK p (ResStep.plain p t) := fun _ h => absurd rfl h

def emittedBySteps : Store → List ResStep → List Emitted
  | _, [] => []
  | p, st :: sts => emittedBy (p.reserved st.fill st.count) st.txn ++ emittedBySteps (st.run p) sts

theorem emitted_of_steps (sts : List ResStep) :
    ∀ (p : Store), p.logger ≠ .none → (sts.foldl ResStep.run p).emitted = (emittedBySteps p sts).reverse ++ p.emitted := by
  induction sts with
  | nil => intro p _; rfl
  | cons st sts ih =>
    intro p hl
    simp only [List.foldl_cons]
    have hl1 : (st.run p).logger ≠ .none := by
      unfold ResStep.run
      rw [commit_logger]; exact hl
    rw [ih (st.run p) hl1]
    have : (st.run p).emitted = (emittedBy (p.reserved st.fill st.count) st.txn).reverse ++ p.emitted :=
      emitted_of_commit (p.reserved st.fill st.count) st.txn hl
    rw [this]
    simp [emittedBySteps]

theorem steps_replay_num (x : String) (hxr : x ≠ rowColumn) (kd : LoggerKind) (sts : List ResStep) :
    ∀ (p r : Store), ComputedKinds p → ComputedKinds r → (∀ st ∈ sts, TxnOK x st.txn) →
      (∀ e ∈ emittedBySteps p sts, Delivers e.updates e.chunk (e.received kd)) → NumSync x p r →
      NumSync x (sts.foldl ResStep.run p) (replayAll kd r (emittedBySteps p sts)) := by
  induction sts with
  | nil => intro p r _ _ _ _ h; exact h
  | cons st sts ih =>
    intro p r hckp hckr hok hdl h
    have hck' : ComputedKinds (p.reserved st.fill st.count) := hckp
    have h' : NumSync x (p.reserved st.fill st.count) r := h
    obtain ⟨h1, h2⟩ := commit_replay_num x hxr kd (p.reserved st.fill st.count) r st.txn hck' hckr (hok st (by simp))
      (fun e he => hdl e (List.mem_append_left _ he)) h'
    simp only [List.foldl_cons, emittedBySteps]
    rw [replayAll_append]
    exact ih (st.run p) _ (commit_computedKinds _ st.txn hck') h2 (fun st' hst' => hok st' (by simp [hst']))
      (fun e he => hdl e (List.mem_append_right _ he)) h1

theorem steps_replay_fill (kd : LoggerKind) (sts : List ResStep) :
    ∀ (p r : Store), (∀ e ∈ emittedBySteps p sts, Delivers e.updates e.chunk (e.received kd)) →
      (∀ st ∈ sts, (∀ o ∈ markerAll st.txn.updates, isMarkerOp o) ∧
        ∀ m ∈ st.txn.updates, isMarkerBuf m = true → ChunkOK m) →
      ResRun p sts → FillSync p r →
      FillSync (sts.foldl ResStep.run p) (replayAll kd r (emittedBySteps p sts)) := by
  induction sts with
  | nil => intro p r _ _ _ h; exact h
  | cons st sts ih =>
    intro p r hdl hmk hres h
    simp only [List.foldl_cons, emittedBySteps]
    rw [replayAll_append]
    exact ih (st.run p) _ (fun e he => hdl e (List.mem_append_right _ he)) (fun st' hst' => hmk st' (by simp [hst']))
      hres.2
      (commit_replay_fill_res kd p r st.txn st.fill st.count (fun e he => hdl e (List.mem_append_left _ he))
        (hmk st (by simp)).1 (hmk st (by simp)).2 hres.1 h)

theorem emittedBySteps_delivers_log (sts : List ResStep) :
    ∀ (p : Store), (∀ st ∈ sts, BufsDistinct st.txn.updates) →
      ∀ e ∈ emittedBySteps p sts, Delivers e.updates e.chunk (e.received .log) := by
  induction sts with
  | nil => intro p _ e he; cases he
  | cons st sts ih =>
    intro p hd e he
    rcases List.mem_append.1 he with he | he
    · exact emittedBy_delivers_log _ st.txn (hd st (by simp)) e he
    · exact ih (st.run p) (fun st' hst' => hd st' (by simp [hst'])) e he

end ColumnVerif.Store
