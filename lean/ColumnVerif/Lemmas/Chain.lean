import ColumnVerif.Lemmas.Filter
/-!
Lemmas for whole filter chains: every operator leaves the transaction set up, and the length of
the selection after an operator is either unchanged or `0` (the operator ran into `Clear()`).
-/
namespace ColumnVerif.Store
open ColumnVerif.Bits ColumnVerif.Codec

/-- the operator runs into `txn.index.Clear()`: `With` of a missing column, a typed value filter on a
    missing column or a column of the wrong kind, `WithValue` on a missing column, and the
    single-name `WithUnion` (which is `With`) of a missing column -/
def FilterOp.clears (s : Store) : FilterOp → Bool
  | .with_ ns => ns.any (fun n => (s.findCol n).isNone)
  | .without _ => false
  | .union _ => false
  | .withUnion ns =>
    match ns with
    | [n] => (s.findCol n).isNone
    | _ => false
  | .withNum col _ =>
    match s.findCol col with
    | some c => !c.kind.isNumeric
    | none => true
  | .withString col _ =>
    match s.findCol col with
    | some c => !c.kind.isTextual
    | none => true
  | .withValue col _ => (s.findCol col).isNone

/-- `Union` / `WithUnion`: the operators whose first-call behaviour differs -/
def FilterOp.isUnion : FilterOp → Bool
  | .union _ | .withUnion _ => true
  | _ => false

/-! ### `initialize` -/

theorem initialize_setup (s : Store) (t : Txn) : (t.initialize s).setup = true := by
  unfold Txn.initialize
  cases h : t.setup <;> simp [h]

theorem initialize_of_setup (s : Store) (t : Txn) (h : t.setup = true) : t.initialize s = t := by
  unfold Txn.initialize; simp [h]

theorem initialize_initialize (s : Store) (t : Txn) : (t.initialize s).initialize s = t.initialize s :=
  initialize_of_setup s _ (initialize_setup s t)

/-! ### the name loops keep `setup` -/

theorem unionStep_setup (s : Store) (acc : Txn × Bool) (n : String) :
    (unionStep s acc n).1.setup = acc.1.setup := by
  unfold unionStep
  cases s.findCol n with
  | none => rfl
  | some c => cases acc.2 <;> rfl

theorem union_loop_setup (s : Store) (names : List String) (acc : Txn × Bool) :
    (names.foldl (unionStep s) acc).1.setup = acc.1.setup := by
  induction names generalizing acc with
  | nil => rfl
  | cons n rest ih =>
    simp only [List.foldl_cons]
    rw [ih, unionStep_setup]

theorem with_setup (s : Store) (t : Txn) (names : List String) : (t.with_ s names).setup = true := by
  unfold Txn.with_
  have h0 := initialize_setup s t
  generalize t.initialize s = t0 at h0
  induction names generalizing t0 with
  | nil => exact h0
  | cons n rest ih =>
    simp only [List.foldl_cons]
    apply ih
    cases s.findCol n <;> exact h0

theorem without_setup (s : Store) (t : Txn) (names : List String) : (t.without s names).setup = true := by
  unfold Txn.without
  have h0 := initialize_setup s t
  generalize t.initialize s = t0 at h0
  induction names generalizing t0 with
  | nil => exact h0
  | cons n rest ih =>
    simp only [List.foldl_cons]
    apply ih
    cases s.findCol n <;> exact h0

theorem union_setup (s : Store) (t : Txn) (names : List String) : (t.union s names).setup = true := by
  unfold Txn.union; rw [union_loop_setup, initialize_setup]

theorem withUnion_setup (s : Store) (t : Txn) (names : List String) : (t.withUnion s names).setup = true := by
  unfold Txn.withUnion
  cases h : t.setup with
  | false => simp only [Bool.not_false, if_true]; exact union_setup s t names
  | true =>
    simp only [Bool.not_true, Bool.false_eq_true, if_false]
    split
    · exact with_setup s t names
    · rfl

theorem withPred_setup (s : Store) (t : Txn) (col : String) (kindOk : Kind → Bool) (pred : Bytes → Bool) :
    (t.withPred s col kindOk pred).setup = true := by
  unfold Txn.withPred
  have := initialize_setup s t
  cases s.findCol col with
  | none => exact this
  | some c =>
    simp only
    split <;> exact this

theorem withValue_setup (s : Store) (t : Txn) (col : String) (pred : Bytes → Bool) :
    (t.withValue s col pred).setup = true := by
  unfold Txn.withValue
  have := initialize_setup s t
  cases s.findCol col with
  | none => exact this
  | some c => exact this

/-- every operator leaves the transaction set up (so no later operator re-reads the fill list) -/
theorem applyOp_setup (s : Store) (t : Txn) (op : FilterOp) : (t.applyOp s op).setup = true := by
  cases op with
  | with_ ns => exact with_setup s t ns
  | without ns => exact without_setup s t ns
  | union ns => exact union_setup s t ns
  | withUnion ns => exact withUnion_setup s t ns
  | withNum col pred => exact withPred_setup s t col _ pred
  | withString col pred => exact withPred_setup s t col _ pred
  | withValue col pred => exact withValue_setup s t col pred

theorem chain_setup (s : Store) (t : Txn) (ops : List FilterOp) (h : t.setup = true) :
    (t.chain s ops).setup = true := by
  unfold Txn.chain
  induction ops generalizing t with
  | nil => exact h
  | cons op rest ih => exact ih _ (applyOp_setup s t op)

theorem chain_cons_setup (s : Store) (t : Txn) (op : FilterOp) (rest : List FilterOp) :
    (t.chain s (op :: rest)).setup = true :=
  chain_setup s (t.applyOp s op) rest (applyOp_setup s t op)

/-! ### length of the selection -/

theorem unionStep_size (s : Store) (acc : Txn × Bool) (n : String) :
    (unionStep s acc n).1.sel.size = acc.1.sel.size := by
  unfold unionStep
  cases s.findCol n with
  | none => rfl
  | some c => cases acc.2 <;> simp [size_mapChunks]

theorem union_loop_size (s : Store) (names : List String) (acc : Txn × Bool) :
    (names.foldl (unionStep s) acc).1.sel.size = acc.1.sel.size := by
  induction names generalizing acc with
  | nil => rfl
  | cons n rest ih =>
    simp only [List.foldl_cons]
    rw [ih, unionStep_size]

theorem with_size (s : Store) (t : Txn) (names : List String) :
    (t.with_ s names).sel.size
    = if names.any (fun n => (s.findCol n).isNone) then 0 else (t.initialize s).sel.size := by
  unfold Txn.with_
  generalize t.initialize s = t0
  induction names generalizing t0 with
  | nil => simp
  | cons n rest ih =>
    simp only [List.foldl_cons]
    rw [ih]
    cases hc : s.findCol n with
    | none => simp [hc]
    | some c => simp [hc, size_mapChunks]

theorem without_size (s : Store) (t : Txn) (names : List String) :
    (t.without s names).sel.size = (t.initialize s).sel.size := by
  unfold Txn.without
  generalize t.initialize s = t0
  induction names generalizing t0 with
  | nil => rfl
  | cons n rest ih =>
    simp only [List.foldl_cons]
    rw [ih]
    cases s.findCol n with
    | none => rfl
    | some c => simp [size_mapChunks]

theorem union_size (s : Store) (t : Txn) (names : List String) :
    (t.union s names).sel.size = (t.initialize s).sel.size := by
  unfold Txn.union; exact union_loop_size s names _

theorem withUnion_size (s : Store) (t : Txn) (h : t.setup = true) (names : List String) :
    (t.withUnion s names).sel.size = if (FilterOp.withUnion names).clears s then 0 else t.sel.size := by
  unfold Txn.withUnion
  simp only [h, Bool.not_true, Bool.false_eq_true, if_false]
  by_cases h1 : names.length = 1
  · rw [if_pos h1]
    match names, h1 with
    | [n], _ =>
      rw [with_size, initialize_of_setup s t h]
      simp [FilterOp.clears]
  · rw [if_neg h1]
    have : (FilterOp.withUnion names).clears s = false := by
      unfold FilterOp.clears
      match names, h1 with
      | [], _ => rfl
      | [_], h1 => simp at h1
      | _ :: _ :: _, _ => rfl
    simp [this, size_mapChunks]

theorem withUnion_fresh (s : Store) (t : Txn) (h : t.setup = false) (names : List String) :
    t.withUnion s names = t.union s names := by
  unfold Txn.withUnion; simp [h]

theorem withPred_size_none (s : Store) (t : Txn) (col : String) (kindOk : Kind → Bool) (pred : Bytes → Bool)
    (hc : s.findCol col = none) : (t.withPred s col kindOk pred).sel.size = 0 := by
  unfold Txn.withPred; simp [hc]

theorem withPred_size_some (s : Store) (t : Txn) (col : String) (kindOk : Kind → Bool) (pred : Bytes → Bool)
    (c : Col) (hc : s.findCol col = some c) :
    (t.withPred s col kindOk pred).sel.size = if !kindOk c.kind then 0 else (t.initialize s).sel.size := by
  unfold Txn.withPred
  simp only [hc]
  cases kindOk c.kind <;> simp [size_mapChunks]

theorem withValue_size (s : Store) (t : Txn) (col : String) (pred : Bytes → Bool) :
    (t.withValue s col pred).sel.size
    = if (s.findCol col).isNone then 0 else (t.initialize s).sel.size := by
  unfold Txn.withValue
  cases s.findCol col with
  | none => simp
  | some c => simp [size_mapChunks]

/-- the selection keeps its length, or is truncated to length `0` by `Clear()` -/
theorem applyOp_size (s : Store) (t : Txn) (h : t.setup = true) (op : FilterOp) :
    (t.applyOp s op).sel.size = if op.clears s then 0 else t.sel.size := by
  have hi := initialize_of_setup s t h
  cases op with
  | with_ ns => simp only [Txn.applyOp]; rw [with_size, hi]; rfl
  | without ns => simp only [Txn.applyOp]; rw [without_size, hi]; simp [FilterOp.clears]
  | union ns => simp only [Txn.applyOp]; rw [union_size, hi]; simp [FilterOp.clears]
  | withUnion ns => exact withUnion_size s t h ns
  | withNum col pred =>
    simp only [Txn.applyOp]
    cases hc : s.findCol col with
    | none => simp [FilterOp.clears, hc, withPred_size_none s t col _ pred hc]
    | some c => simp [FilterOp.clears, hc, withPred_size_some s t col _ pred c hc, hi]
  | withString col pred =>
    simp only [Txn.applyOp]
    cases hc : s.findCol col with
    | none => simp [FilterOp.clears, hc, withPred_size_none s t col _ pred hc]
    | some c => simp [FilterOp.clears, hc, withPred_size_some s t col _ pred c hc, hi]
  | withValue col pred => simp only [Txn.applyOp]; rw [withValue_size, hi]; rfl

/-- a first operator other than `Union` / `WithUnion` initializes and then behaves as on a
    set-up transaction -/
theorem applyOp_initialize (s : Store) (t : Txn) (op : FilterOp) (h : op.isUnion = false) :
    t.applyOp s op = (t.initialize s).applyOp s op := by
  cases op with
  | with_ ns => simp only [Txn.applyOp]; unfold Txn.with_; rw [initialize_initialize]
  | without ns => simp only [Txn.applyOp]; unfold Txn.without; rw [initialize_initialize]
  | union ns => simp [FilterOp.isUnion] at h
  | withUnion ns => simp [FilterOp.isUnion] at h
  | withNum col pred => simp only [Txn.applyOp]; unfold Txn.withPred; rw [initialize_initialize]
  | withString col pred => simp only [Txn.applyOp]; unfold Txn.withPred; rw [initialize_initialize]
  | withValue col pred => simp only [Txn.applyOp]; unfold Txn.withValue; rw [initialize_initialize]

end ColumnVerif.Store
