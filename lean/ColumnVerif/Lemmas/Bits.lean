import ColumnVerif.Model.Bits
/-! Lemmas about the bitmap model (`Array Bool`). -/
namespace ColumnVerif.Bits

theorem get_of_ge (b : Bitmap) (i : Nat) (h : b.size ≤ i) : get b i = false := by
  unfold get; simp [Array.getElem?_eq_none h]

theorem get_eq_getElem (b : Bitmap) (i : Nat) (h : i < b.size) : get b i = b[i] := by
  unfold get; simp [h]

theorem size_growTo (b : Bitmap) (n : Nat) : (growTo b n).size = max b.size (64 * n) := by
  unfold growTo; split
  · simp; omega
  · omega

theorem get_growTo (b : Bitmap) (n i : Nat) : get (growTo b n) i = get b i := by
  unfold growTo
  split
  · unfold get
    rw [Array.getElem?_append]
    split
    · rfl
    · rename_i h
      simp only [Array.getElem?_replicate]
      have : b[i]? = none := Array.getElem?_eq_none (by omega)
      rw [this]
      split <;> rfl
  · rfl

theorem get_grow (b : Bitmap) (bit i : Nat) : get (grow b bit) i = get b i := get_growTo b _ i

theorem size_grow_gt (b : Bitmap) (bit : Nat) : bit < (grow b bit).size := by
  unfold grow; rw [size_growTo]; omega

theorem get_set (b : Bitmap) (i j : Nat) : get (set b i) j = (decide (j = i) || get b j) := by
  unfold set
  have hs := size_grow_gt b i
  have hg := get_grow b i j
  unfold get at *
  rw [Array.getElem?_setIfInBounds]
  by_cases hji : j = i
  · subst hji; simp [hs]
  · have : ¬ (i = j) := fun h => hji h.symm
    simp [this, hji, hg]

theorem get_remove (b : Bitmap) (i j : Nat) : get (remove b i) j = (!decide (j = i) && get b j) := by
  unfold remove get
  rw [Array.getElem?_setIfInBounds]
  by_cases hji : j = i
  · subst hji
    by_cases h : j < b.size
    · simp [h]
    · simp [h]
  · have : ¬ (i = j) := fun h => hji h.symm
    simp [this, hji]

theorem firstZero_some {b : Bitmap} {lo n i : Nat} (h : firstZero b lo n = some i) :
    lo ≤ i ∧ i < lo + n ∧ get b i = false := by
  induction n generalizing lo with
  | zero => simp [firstZero] at h
  | succ k ih =>
    unfold firstZero at h
    split at h
    · obtain ⟨a, b', c⟩ := ih h; exact ⟨by omega, by omega, c⟩
    · rename_i hm
      injection h with h; subst h
      exact ⟨by omega, by omega, by simpa using hm⟩

theorem firstZero_none {b : Bitmap} {lo n : Nat} (h : firstZero b lo n = none) :
    ∀ i, lo ≤ i → i < lo + n → get b i = true := by
  induction n generalizing lo with
  | zero => intro i h1 h2; omega
  | succ k ih =>
    unfold firstZero at h
    split at h
    · rename_i hm
      intro i h1 h2
      by_cases e : i = lo
      · subst e; exact hm
      · exact ih h i (by omega) (by omega)
    · simp at h

theorem count_le_size (b : Bitmap) : count b ≤ b.size := by
  unfold count
  have := List.countP_le_length (p := id) (l := b.toList)
  simpa using this

theorem count_eq_size_of_all (b : Bitmap) (h : ∀ i, i < b.size → get b i = true) : count b = b.size := by
  unfold count
  have : b.toList.countP id = b.toList.length := by
    rw [List.countP_eq_length]
    intro x hx
    obtain ⟨i, hi, rfl⟩ := List.mem_iff_getElem.mp hx
    have hi' : i < b.size := by simpa using hi
    have := h i hi'
    rw [get_eq_getElem b i hi'] at this
    simpa using this
  simpa using this

/-- `findFreeIndex` hands out an unoccupied offset whenever fewer bits are set than the
    (incremented) counter says — for every fill pattern, every length -/
theorem findFreeIndex_free (fill : Bitmap) (cnt : Nat) (hc : 0 < cnt) (hinv : count fill ≤ cnt - 1) :
    get fill (findFreeIndex fill cnt) = false := by
  unfold findFreeIndex
  split
  · exact get_of_ge fill _ (Nat.le_refl _)
  · rename_i hfull
    simp only
    split
    · rename_i i hi
      split at hi
      · exact (firstZero_some hi).2.2
      · simp at hi
    · split
      · rename_i i hi
        exact (firstZero_some hi).2.2
      · rename_i hnone
        exfalso
        have hall := firstZero_none hnone
        have := count_eq_size_of_all fill (fun i hi => hall i (by omega) (by omega))
        omega

theorem countP_set_true (l : List Bool) (i : Nat) (h : i < l.length) (hf : l[i] = false) :
    (l.set i true).countP id = l.countP id + 1 := by
  induction l generalizing i with
  | nil => simp at h
  | cons x xs ih =>
    cases i with
    | zero =>
      simp at hf; subst hf
      simp [List.countP_cons]
    | succ k =>
      simp only [List.set_cons_succ, List.countP_cons]
      have := ih k (by simpa using h) (by simpa using hf)
      omega

theorem count_growTo (b : Bitmap) (n : Nat) : count (growTo b n) = count b := by
  unfold growTo count
  split
  · simp [List.countP_append, List.countP_replicate]
  · rfl

theorem count_set_of_false (b : Bitmap) (i : Nat) (h : get b i = false) :
    count (set b i) = count b + 1 := by
  unfold set
  have hs := size_grow_gt b i
  have hg : get (grow b i) i = false := by rw [get_grow]; exact h
  rw [get_eq_getElem _ _ hs] at hg
  have : count ((grow b i).setIfInBounds i true) = count (grow b i) + 1 := by
    unfold count
    rw [Array.toList_setIfInBounds]
    exact countP_set_true _ i (by simpa using hs) (by simpa using hg)
  rw [this]
  unfold grow
  rw [count_growTo]

end ColumnVerif.Bits
