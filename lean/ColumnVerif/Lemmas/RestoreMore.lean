import ColumnVerif.Lemmas.StoreRead
/-!
# Helper lemmas for C07more — the row counter through `commit` / `readState`, bitmap counting up to `get`,
  snapshot ops as a function of what readers see

* `count`: no `Apply` touches `Store.count`; the only writers are the recount at the end of `commitMarkers`, `next()` and
  `free()`. Hence every relation `R (Bits.count fill) count` that holds on the diagonal (`=`, `≤`) is kept by `commit`,
  and a commit whose `row` buffer is not empty establishes `count = Bits.count fill` whatever held before.
* `Bits.count` only depends on `Bits.get` (two fill lists of different length with the same set bits count the same).
* `snapshotOps` of a numeric column only depends on what `read` returns on the chunk (modulo `padTo`).
-/
namespace ColumnVerif.Store
open ColumnVerif.Codec ColumnVerif.Bits

/-! ## `count` is not touched by the column passes -/

theorem setCol_count (s : Store) (c : Col) : (s.setCol c).count = s.count := by
  unfold Store.setCol
  split <;> rfl

theorem applyNamed_count (chunk : Nat) (ops : List Op) (s : Store) (n : String) :
    (applyNamed chunk ops s n).count = s.count := by
  unfold applyNamed
  split
  · exact setCol_count _ _
  · rfl

theorem computedPass_count (s : Store) (names : List String) (chunk : Nat) (u : Buf) :
    (computedPass s names chunk u).count = s.count := by
  rw [computedPass_eq]
  apply foldl_invariant (fun s' => s'.count = s.count) _ _ s rfl
  intro s1 ops _ h1
  apply foldl_invariant (fun s' => s'.count = s.count) _ _ s1 h1
  intro s2 n _ h2
  rw [applyNamed_count]; exact h2

theorem otherMain_count (s : Store) (chunk : Nat) (u : Buf) : (otherMain s chunk u).count = s.count := by
  unfold otherMain
  apply foldl_invariant (fun s' => s'.count = s.count) _ _ s rfl
  intro s1 ops _ h1
  rw [applyNamed_count]; exact h1

theorem cuStep_count (chunk : Nat) (s : Store) (done : List Buf) (b : Bool) (u : Buf) :
    (cuStep chunk (s, done, b) u).1.count = s.count := by
  unfold cuStep
  simp only
  split
  · rfl
  · split
    · rfl
    · split
      · rw [computedPass_count]; exact setCol_count _ _
      · rw [computedPass_count, otherMain_count]

theorem cuFold_count (chunk : Nat) (ups : List Buf) (s : Store) (done : List Buf) (b : Bool) :
    (ups.foldl (cuStep chunk) (s, done, b)).1.count = s.count := by
  induction ups generalizing s done b with
  | nil => rfl
  | cons u us ih =>
    simp only [List.foldl_cons]
    have h1 := cuStep_count chunk s done b u
    generalize cuStep chunk (s, done, b) u = r at h1
    obtain ⟨r1, r2, r3⟩ := r
    rw [ih r1 r2 r3]; exact h1

/-- `commitUpdates` (main passes, computed passes) never writes the row counter … -/
theorem commitUpdates_count (s : Store) (chunk : Nat) (ups : List Buf) :
    (s.commitUpdates chunk ups).1.count = s.count := by
  rw [commitUpdates_eq]; exact cuFold_count chunk ups s [] false

/-- … nor the fill list -/
theorem commitUpdates_fill (s : Store) (chunk : Nat) (ups : List Buf) :
    (s.commitUpdates chunk ups).1.fill = s.fill := by
  rw [commitUpdates_eq]; exact (cuFold_sim chunk ups s [] false).fill

/-! ## the counter and the fill list through one chunk pass, the chunk loop, `commit` -/

theorem commitMarkers_recount (s : Store) (chunk : Nat) (m : Buf) :
    (s.commitMarkers chunk m).count = Bits.count (s.commitMarkers chunk m).fill := rfl

/-- the marker step keeps every relation between the number of set fill bits and the counter that holds on the diagonal -/
theorem markStore_countRel (R : Nat → Nat → Prop) (hR : ∀ n, R n n) (s : Store) (chunk : Nat) (cr : Bool) (ups : List Buf)
    (h : R (Bits.count s.fill) s.count) :
    R (Bits.count (markStore s chunk cr ups).fill) (markStore s chunk cr ups).count := by
  have hp : R (Bits.count (preStore s chunk).fill) (preStore s chunk).count := h
  unfold markStore
  split
  · split
    · rw [commitMarkers_recount]; exact hR _
    · exact hp
  · exact hp

/-- with a non-empty `row` buffer the marker step recounts -/
theorem markStore_recount (s : Store) (chunk : Nat) (ups : List Buf) (m : Buf) (hm : ups.find? isMarkerBuf = some m) :
    (markStore s chunk true ups).count = Bits.count (markStore s chunk true ups).fill := by
  unfold markStore
  rw [if_pos rfl, hm]
  rfl

theorem commitChunk_count_fill (s : Store) (chunk : Nat) (cr : Bool) (ups : List Buf) :
    (s.commitChunk chunk cr ups).1.count = (markStore s chunk cr ups).count ∧
    (s.commitChunk chunk cr ups).1.fill = (markStore s chunk cr ups).fill := by
  rw [commitChunk_def]
  obtain ⟨_, _, f3, _, _, _, f7⟩ := finishChunk_fields (s.nextId + 1) chunk cr
    ((markStore s chunk cr ups).commitUpdates chunk ups)
  rw [f3, f7, commitUpdates_count, commitUpdates_fill]
  exact ⟨rfl, rfl⟩

theorem commitChunk_countRel (R : Nat → Nat → Prop) (hR : ∀ n, R n n) (s : Store) (chunk : Nat) (cr : Bool) (ups : List Buf)
    (h : R (Bits.count s.fill) s.count) :
    R (Bits.count (s.commitChunk chunk cr ups).1.fill) (s.commitChunk chunk cr ups).1.count := by
  obtain ⟨e1, e2⟩ := commitChunk_count_fill s chunk cr ups
  rw [e1, e2]
  exact markStore_countRel R hR s chunk cr ups h

theorem commitChunk_recount (s : Store) (chunk : Nat) (ups : List Buf) (m : Buf) (hm : ups.find? isMarkerBuf = some m) :
    (s.commitChunk chunk true ups).1.count = Bits.count (s.commitChunk chunk true ups).1.fill := by
  obtain ⟨e1, e2⟩ := commitChunk_count_fill s chunk true ups
  rw [e1, e2]
  exact markStore_recount s chunk ups m hm

theorem commitLoop_countRel (R : Nat → Nat → Prop) (hR : ∀ n, R n n) (cr : Bool) (cs : List Nat) :
    ∀ (s : Store) (ups : List Buf), R (Bits.count s.fill) s.count →
      R (Bits.count (commitLoop cr cs s ups).1.fill) (commitLoop cr cs s ups).1.count := by
  induction cs with
  | nil => intro s ups h; exact h
  | cons c cs ih =>
    intro s ups h
    unfold commitLoop
    simp only [List.foldl_cons]
    have h1 := commitChunk_countRel R hR s c cr ups h
    generalize s.commitChunk c cr ups = r at h1
    obtain ⟨s1, ups1⟩ := r
    have := ih s1 ups1 h1
    unfold commitLoop at this
    exact this

/-- a chunk loop over at least one chunk with a non-empty `row` buffer recounts, whatever the counter was -/
theorem commitLoop_recount (cs : List Nat) (hcs : cs ≠ []) (s : Store) (ups : List Buf) (m : Buf)
    (hm : ups.find? isMarkerBuf = some m) :
    (commitLoop true cs s ups).1.count = Bits.count (commitLoop true cs s ups).1.fill := by
  cases cs with
  | nil => exact absurd rfl hcs
  | cons c cs =>
    unfold commitLoop
    simp only [List.foldl_cons]
    have h1 := commitChunk_recount s c ups m hm
    generalize s.commitChunk c true ups = r at h1
    obtain ⟨s1, ups1⟩ := r
    have := commitLoop_countRel (fun n c => c = n) (fun _ => rfl) true cs s1 ups1 h1
    unfold commitLoop at this
    exact this

theorem capStore_count_fill (s : Store) (t : Txn) :
    (capStore s t).count = s.count ∧ Bits.count (capStore s t).fill = Bits.count s.fill := by
  unfold capStore
  cases hl : t.dirtyChunks.getLast? with
  | none => exact ⟨rfl, rfl⟩
  | some last =>
    simp only
    unfold Store.commitCapacity
    split
    · exact ⟨rfl, rfl⟩
    · refine ⟨rfl, ?_⟩
      simp only
      unfold Bits.grow
      exact count_growTo _ _

/-- **`commit` keeps `FillInv` and quiescence**: every relation between the number of set fill bits and the row counter that
    holds on the diagonal (`count = Bits.count fill`, `Bits.count fill ≤ count`) is kept by any commit of any transaction -/
theorem commit_countRel (R : Nat → Nat → Prop) (hR : ∀ n, R n n) (s : Store) (t : Txn)
    (h : R (Bits.count s.fill) s.count) : R (Bits.count (s.commit t).fill) (s.commit t).count := by
  rw [commit_eq']
  apply commitLoop_countRel R hR
  obtain ⟨e1, e2⟩ := capStore_count_fill s t
  rw [e1, e2]; exact h

/-- a commit that carries a non-empty `row` buffer and touches a chunk ends recounted -/
theorem commit_recount (s : Store) (t : Txn) (m : Buf) (hm : t.updates.find? isMarkerBuf = some m)
    (hd : t.dirtyChunks ≠ []) : (s.commit t).count = Bits.count (s.commit t).fill := by
  rw [commit_eq']
  have hcr : t.markers.isSome = true := by
    have : t.markers = some m := hm
    rw [this]; rfl
  rw [hcr]
  exact commitLoop_recount t.dirtyChunks hd (capStore s t) t.updates m hm

/-! ## `Bits.count` only depends on `Bits.get` -/

theorem countP_zero_of_getD (l : List Bool) (h : ∀ j : Nat, (l[j]?).getD false = false) : l.countP id = 0 := by
  induction l with
  | nil => rfl
  | cons x xs ih =>
    have h0 : x = false := by simpa using h 0
    subst h0
    rw [List.countP_cons, ih (fun j => by simpa using h (j + 1))]
    rfl

theorem countP_congr_getD (la : List Bool) :
    ∀ lb : List Bool, (∀ j : Nat, (la[j]?).getD false = (lb[j]?).getD false) → la.countP id = lb.countP id := by
  induction la with
  | nil =>
    intro lb h
    rw [countP_zero_of_getD lb (fun j => by simpa using (h j).symm)]
    rfl
  | cons x xs ih =>
    intro lb h
    cases lb with
    | nil => rw [countP_zero_of_getD (x :: xs) (fun j => by simpa using h j)]; rfl
    | cons y ys =>
      have h0 : x = y := by simpa using h 0
      subst h0
      rw [List.countP_cons, List.countP_cons, ih ys (fun j => by simpa using h (j + 1))]

/-- two bitmaps with the same set bits hold the same number of them — whatever their lengths -/
theorem count_congr (a b : Bitmap) (h : ∀ j, Bits.get a j = Bits.get b j) : Bits.count a = Bits.count b := by
  unfold Bits.count
  apply countP_congr_getD
  intro j
  have := h j
  unfold Bits.get at this
  rw [Array.getElem?_toList, Array.getElem?_toList]
  exact this

theorem count_zero_of_get (a : Bitmap) (h : ∀ j, Bits.get a j = false) : Bits.count a = 0 := by
  rw [count_congr a #[] (fun j => by rw [h j]; rfl)]
  rfl

/-! ## a chunk's snapshot ops are a function of the presence bits and the (padded) values of the chunk -/

theorem snapList_congr (typ lo n : Nat) (p p' : Nat → Bool) (g g' : Nat → Val)
    (hp : ∀ x, x < n → p x = p' x) (hg : ∀ x, x < n → p x = true → g x = g' x) :
    snapList typ lo n p g = snapList typ lo n p' g' := by
  unfold snapList
  have hf : (List.range n).filter p = (List.range n).filter p' := by
    apply List.filter_congr
    intro x hx
    exact hp x (List.mem_range.1 hx)
  rw [← hf]
  apply List.map_congr_left
  intro x hx
  obtain ⟨h1, h2⟩ := List.mem_filter.1 hx
  rw [hg x (List.mem_range.1 h1) h2]

theorem padTo_idem (w : Nat) (bs : Bytes) : padTo w (padTo w bs) = padTo w bs := by
  unfold padTo
  by_cases h : bs.length = 0
  · rw [if_pos h]
    split <;> rfl
  · rw [if_neg h, if_neg h]

/-- `snapshotOps_congr`, array form: two numeric columns of the same kind that both have chunk `ch`, with the same presence
    bits on the chunk and, at every present offset, the same value up to `padTo width` (what `Snapshot` writes), produce the
    same snapshot of the chunk (ops and panic flag) -/
theorem snapshotOps_congr_bits (c1 c2 : Col) (k : NumKind) (hk1 : c1.kind = .num k) (hk2 : c2.kind = .num k) (ch : Nat)
    (h1 : ch < c1.nchunks) (h2 : ch < c2.nchunks)
    (hb : ∀ i, i / 16384 = ch → Bits.get c1.bits i = Bits.get c2.bits i)
    (hv : ∀ i, i / 16384 = ch → Bits.get c1.bits i = true →
      padTo k.width (c1.data.getD i []) = padTo k.width (c2.data.getD i [])) :
    c1.snapshotOps ch = c2.snapshotOps ch := by
  rw [snapshotOps_raw c1 (by rw [hk1]; rfl) ch h1, snapshotOps_raw c2 (by rw [hk2]; rfl) ch h2]
  refine congrArg (fun l => (l, false)) (snapList_congr _ _ _ _ _ _ _ ?_ ?_)
  · intro x hx
    exact hb _ (by omega)
  · intro x hx hp
    unfold snapVal
    rw [hk1, hk2]
    simp only
    rw [hv _ (by omega) hp]

/-- `snapshotOps_congr`, slot form -/
theorem snapshotOps_congr_slot (c1 c2 : Col) (k : NumKind) (hk1 : c1.kind = .num k) (hk2 : c2.kind = .num k) (ch : Nat)
    (h1 : ch < c1.nchunks) (h2 : ch < c2.nchunks)
    (hs : ∀ i, i / 16384 = ch → (slot c1 i).1 = (slot c2 i).1 ∧
      ((slot c1 i).1 = true → padTo k.width (slot c1 i).2 = padTo k.width (slot c2 i).2)) :
    c1.snapshotOps ch = c2.snapshotOps ch := by
  apply snapshotOps_congr_bits c1 c2 k hk1 hk2 ch h1 h2
  · intro i hi
    exact (hs i hi).1
  · intro i hi hp
    rw [getD_eq, getD_eq]
    exact (hs i hi).2 hp

/-- **`snapshotOps_congr`**, reader form: two numeric columns of the same kind that both have chunk `ch` and on which every
    typed read of the chunk agrees up to `padTo width` (in particular: agrees) produce the same snapshot of the chunk -/
theorem snapshotOps_congr_pad (c1 c2 : Col) (k : NumKind) (hk1 : c1.kind = .num k) (hk2 : c2.kind = .num k) (ch : Nat)
    (h1 : ch < c1.nchunks) (h2 : ch < c2.nchunks)
    (hr : ∀ i, i / 16384 = ch → (c1.read i).map (padTo k.width) = (c2.read i).map (padTo k.width)) :
    c1.snapshotOps ch = c2.snapshotOps ch := by
  have key : ∀ i, i / 16384 = ch → Bits.get c1.bits i = Bits.get c2.bits i ∧
      (Bits.get c1.bits i = true → padTo k.width (c1.data.getD i []) = padTo k.width (c2.data.getD i [])) := by
    intro i hi
    have h := hr i hi
    rw [read_data c1 (by rw [hk1]; rfl) i, read_data c2 (by rw [hk2]; rfl) i] at h
    by_cases b1 : Bits.get c1.bits i = true
    · by_cases b2 : Bits.get c2.bits i = true
      · rw [if_pos ⟨by omega, b1⟩, if_pos ⟨by omega, b2⟩] at h
        simp only [Option.map_some, Option.some.injEq] at h
        exact ⟨by rw [b1, b2], fun _ => h⟩
      · rw [if_pos ⟨by omega, b1⟩, if_neg (fun x => b2 x.2)] at h
        cases h
    · by_cases b2 : Bits.get c2.bits i = true
      · rw [if_neg (fun x => b1 x.2), if_pos ⟨by omega, b2⟩] at h
        cases h
      · have e1 : Bits.get c1.bits i = false := by simpa using b1
        have e2 : Bits.get c2.bits i = false := by simpa using b2
        exact ⟨by rw [e1, e2], fun x => absurd x b1⟩
  exact snapshotOps_congr_bits c1 c2 k hk1 hk2 ch h1 h2 (fun i hi => (key i hi).1) (fun i hi => (key i hi).2)

theorem snapshotOps_congr (c1 c2 : Col) (k : NumKind) (hk1 : c1.kind = .num k) (hk2 : c2.kind = .num k) (ch : Nat)
    (h1 : ch < c1.nchunks) (h2 : ch < c2.nchunks) (hr : ∀ i, i / 16384 = ch → c1.read i = c2.read i) :
    c1.snapshotOps ch = c2.snapshotOps ch :=
  snapshotOps_congr_pad c1 c2 k hk1 hk2 ch h1 h2 (fun i hi => by rw [hr i hi])

/-- the `row` buffer of a chunk is a function of the fill bits of the chunk -/
theorem rowBufOf_congr (s1 s2 : Store) (ch : Nat) (h : ∀ j, j / 16384 = ch → Bits.get s1.fill j = Bits.get s2.fill j) :
    rowBufOf s1 ch = rowBufOf s2 ch := by
  unfold rowBufOf rowMarkers
  refine congrArg (fun l => (Buf.empty rowColumn).putAll l) (snapList_congr _ _ _ _ _ _ _ ?_ ?_)
  · intro x hx
    exact h _ (by omega)
  · intro _ _ _; rfl

/-! ## the commit table after `readState` -/

theorem chunkTxn_dirty (s : Store) (n : Nat) : ∀ c ∈ (chunkTxn s n).dirtyChunks, c = n := by
  intro c hc
  rw [mem_dirtyChunks] at hc
  rcases hc with hc | ⟨b, hb, hcb⟩
  · simpa [chunkTxn] using hc
  · exact chunkState_chunks s n b hb c hcb

theorem chunkTxn_last (s : Store) (n : Nat) : (chunkTxn s n).dirtyChunks.getLast? = some n := by
  have hmem : n ∈ (chunkTxn s n).dirtyChunks := by
    rw [mem_dirtyChunks]; left; simp [chunkTxn]
  cases hl : (chunkTxn s n).dirtyChunks.getLast? with
  | none =>
    rw [List.getLast?_eq_none_iff] at hl
    rw [hl] at hmem
    cases hmem
  | some last => rw [chunkTxn_dirty s n last (List.mem_of_getLast? hl)]

/-- committing chunk `n` of a snapshot extends the commit table to `n + 1` entries, or leaves its length alone -/
theorem commit_chunkTxn_commits_size (s s1 : Store) (n : Nat) :
    (s1.commit (chunkTxn s n)).commits.size = max s1.commits.size (n + 1) := by
  rw [commit_eq', (commitLoop_gen _ _ _ _).2.1]
  unfold capStore
  rw [chunkTxn_last]
  simp only
  rcases commitCapacity_cases s1 n with ⟨h1, h2⟩ | ⟨h1, _, h3, _, _⟩
  · rw [h2]; omega
  · rw [h3]; omega

theorem readState_commits_size_upTo (s s0 : Store) (n : Nat) :
    ((List.range n).foldl (fun s0 ch => s0.commit (chunkTxn s ch)) s0).commits.size = max s0.commits.size n := by
  induction n with
  | zero => simp
  | succ n ih =>
    rw [List.range_succ, List.foldl_append]
    simp only [List.foldl_cons, List.foldl_nil]
    rw [commit_chunkTxn_commits_size, ih]
    omega

/-! ## a commit without `row` markers leaves the counter alone -/

theorem commitLoop_count_noMarkers (cs : List Nat) :
    ∀ (s : Store) (ups : List Buf), (commitLoop false cs s ups).1.count = s.count := by
  induction cs with
  | nil => intro s ups; rfl
  | cons c cs ih =>
    intro s ups
    unfold commitLoop
    simp only [List.foldl_cons]
    have h1 : (s.commitChunk c false ups).1.count = s.count := by
      rw [(commitChunk_count_fill s c false ups).1]
      rfl
    generalize s.commitChunk c false ups = r at h1
    obtain ⟨s1, ups1⟩ := r
    have := ih s1 ups1
    unfold commitLoop at this
    rw [this]; exact h1

/-- no non-empty `row` buffer: no `commitMarkers`, no recount -/
theorem commit_count_noMarkers (s : Store) (t : Txn) (h : t.updates.find? isMarkerBuf = none) :
    (s.commit t).count = s.count := by
  rw [commit_eq']
  have hcr : t.markers.isSome = false := by
    have : t.markers = none := h
    rw [this]; rfl
  rw [hcr, commitLoop_count_noMarkers, (capStore_count_fill s t).1]

theorem rowMarkers_nil (s : Store) (ch : Nat) (hdead : ∀ j, j / 16384 = ch → Bits.get s.fill j = false) :
    rowMarkers s ch = [] := by
  unfold rowMarkers snapList
  have : (List.range 16384).filter (fun x => Bits.get s.fill (16384 * ch + x)) = [] := by
    rw [List.filter_eq_nil_iff]
    intro x hx
    rw [hdead _ (by have := List.mem_range.1 hx; omega)]
    decide
  rw [this]; rfl

/-- the transaction `readState` builds for a chunk without live rows has no marker buffer -/
theorem chunkTxn_noMarker (s : Store) (ch : Nat) (hr : s.findCol rowColumn = none)
    (hdead : ∀ j, j / 16384 = ch → Bits.get s.fill j = false) :
    (chunkTxn s ch).updates.find? isMarkerBuf = none := by
  rw [List.find?_eq_none]
  intro b hb
  unfold chunkTxn at hb
  simp only at hb
  rw [chunkState_buffers] at hb
  unfold isMarkerBuf
  rcases List.mem_cons.1 hb with hb | hb
  · rw [hb]
    unfold rowBufOf
    rw [(putAll_empty_rangeOps rowColumn (rowMarkers s ch) ch (rowMarkers_chunk s ch)).2.2.2.1, rowMarkers_nil s ch hdead]
    simp
  · unfold colBufsOf at hb
    obtain ⟨c, hc, rfl⟩ := List.mem_map.1 hb
    have hne := findCol_none_names hr c (List.mem_filter.1 hc).1
    rw [putAll_column]
    have : (Buf.empty c.name).column = c.name := rfl
    rw [this]
    simp [hne]

end ColumnVerif.Store
