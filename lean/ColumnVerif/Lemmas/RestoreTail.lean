import ColumnVerif.Lemmas.StoreReplica
/-!
`Restore` = state section + the logged commits newer than each chunk's stored commit id (C08 / C07 at store level).

* A — `Store.restore` unfolded: `readState`, then `replayAll` over the tail filtered by the id test (`Snap.lastOf`,
  `Snap.newer`, `restore_eq_replayAll`, `filter_newer_*`).
* B — commit ids: `IdsOK` (no chunk stores an id above `nextId`), kept by `commitCapacity`, `commitChunk`, `commit`,
  `replay`; `Store.new` and `createColumn`; the ids `emittedBy` / `emittedByAll` carry (`emittedBy_ids`,
  `emittedByAll_ids`); what a snapshot stores (`lastOf_snapshot`); `emittedByAll_newer`.
* C — the stored id of a chunk after commits: an emitted entry's id is stored with its chunk, later commits only raise it
  (`commits_getD_mono`, `emittedByAll_le_commits`): entries logged BEFORE the state was taken fail the id test.
* D — reads in sync (`SlotRd`, `RdSync`): the slot clause of the replication chain for the relation that ignores the bytes of
  absent slots (`applyData_rd_slot`, `chunk_replay_num_rd`, `commitLoop_replay_num_rd`, `commit_replay_rd`, `commits_replay_rd`).
* E — `readState` of a snapshot into a fresh target gives `RdSync` / `NumSync` / `FillSync` (`rdSync_readState`,
  `numSync_readState`, `fillSync_readState`); a fresh target (`new_findCol_none`, `createColumn_fresh`).
* F — what a commit keeps of the conditions on the source (`commit_num_source`, `commit_fill_committed`).
-/
namespace ColumnVerif.Store
open ColumnVerif.Codec ColumnVerif.Bits

/-! ## A — `restore` is `readState`, then `replayAll` over the filtered tail -/

/-- the commit id the state section stores with chunk `ch` (`0` when the state holds no such chunk) -/
def Snap.lastOf (snap : Snap) (ch : Nat) : Nat := ((snap.chunks[ch]?).map (·.lastCommit)).getD 0

/-- the test `Restore` applies to a logged commit: its id is above the id stored with its chunk -/
def Snap.newer (snap : Snap) (e : Emitted) : Bool := decide (e.id > snap.lastOf e.chunk)

theorem Snap.lastOf_eq (snap : Snap) (ch : Nat) :
    (match snap.chunks[ch]? with | some c => c.lastCommit | none => 0) = snap.lastOf ch := by
  unfold Snap.lastOf
  cases snap.chunks[ch]? <;> rfl

/-- `lastOf` and `newer` look at the state section only -/
theorem Snap.lastOf_tail (snap : Snap) (tl : List Emitted) (ch : Nat) :
    ({ snap with tail := tl } : Snap).lastOf ch = snap.lastOf ch := rfl

theorem Snap.newer_tail (snap : Snap) (tl : List Emitted) : ({ snap with tail := tl } : Snap).newer = snap.newer := rfl

/-- `readState` looks at the state section only -/
theorem readState_tail (s : Store) (snap : Snap) (tl : List Emitted) :
    s.readState { snap with tail := tl } = s.readState snap := rfl

theorem foldl_cond_eq_filter {α β : Type} (p : α → Bool) (f : β → α → β) (l : List α) :
    ∀ (b : β), l.foldl (fun b a => if p a = true then f b a else b) b = (l.filter p).foldl f b := by
  induction l with
  | nil => intro b; rfl
  | cons a l ih =>
    intro b
    simp only [List.foldl_cons, List.filter_cons]
    by_cases h : p a = true
    · rw [if_pos h, if_pos h, List.foldl_cons]; exact ih _
    · rw [if_neg h, if_neg h]; exact ih _

/-- **`Restore` unfolded**: the state section is read, then the logged commits that pass the id test are replayed, in
    order (`replayAll`: `r.replay e.chunk (e.received k)` for each) -/
theorem restore_eq_replayAll (s : Store) (snap : Snap) (k : LoggerKind) :
    s.restore snap k = replayAll k (s.readState snap) (snap.tail.filter snap.newer) := by
  unfold Store.restore replayAll
  simp only
  rw [← foldl_cond_eq_filter]
  congr 1
  funext r e
  unfold Snap.newer Snap.lastOf
  cases snap.chunks[e.chunk]? with
  | none => simp
  | some c => simp

/-- entries that fail the id test are dropped -/
theorem filter_newer_none (snap : Snap) (es : List Emitted) (h : ∀ e ∈ es, e.id ≤ snap.lastOf e.chunk) :
    es.filter snap.newer = [] := by
  rw [List.filter_eq_nil_iff]
  intro e he
  unfold Snap.newer
  have := h e he
  simp only [decide_eq_true_eq]
  omega

/-- entries that pass the id test are kept -/
theorem filter_newer_all (snap : Snap) (es : List Emitted) (h : ∀ e ∈ es, snap.lastOf e.chunk < e.id) :
    es.filter snap.newer = es := by
  rw [List.filter_eq_self]
  intro e he
  unfold Snap.newer
  simpa using h e he

/-! ## B — commit ids -/

/-- no chunk stores a commit id that was not handed out yet -/
def IdsOK (s : Store) : Prop := ∀ ch, s.commits.getD ch 0 ≤ s.nextId

theorem getD_setIfInBounds_nat (a : Array Nat) (i j v : Nat) :
    (a.setIfInBounds i v).getD j 0 = if j = i ∧ i < a.size then v else a.getD j 0 := by
  simp only [Array.getD_eq_getD_getElem?, Array.getElem?_setIfInBounds]
  by_cases e : i = j
  · subst e
    by_cases h : i < a.size
    · simp [h]
    · have : a[i]? = none := Array.getElem?_eq_none (by omega)
      simp [h]
  · have : ¬ j = i := fun h => e h.symm
    simp [e, this]

theorem getD_append_replicate_zero (a : Array Nat) (n j : Nat) :
    (a ++ Array.replicate n 0).getD j 0 = a.getD j 0 := by
  simp only [Array.getD_eq_getD_getElem?, Array.getElem?_append]
  by_cases h : j < a.size
  · rw [if_pos h]
  · rw [if_neg h, Array.getElem?_eq_none (xs := a) (by omega), Array.getElem?_replicate]
    split <;> rfl

theorem commitCapacity_getD (s : Store) (last ch : Nat) :
    (s.commitCapacity last).commits.getD ch 0 = s.commits.getD ch 0 := by
  unfold Store.commitCapacity
  split
  · rfl
  · exact getD_append_replicate_zero _ _ _

theorem capStore_getD (s : Store) (t : Txn) (ch : Nat) : (capStore s t).commits.getD ch 0 = s.commits.getD ch 0 := by
  unfold capStore
  cases t.dirtyChunks.getLast? with
  | none => rfl
  | some last => exact commitCapacity_getD s last ch

theorem commitChunk_getD (s : Store) (c : Nat) (cr : Bool) (ups : List Buf) (ch : Nat) :
    (s.commitChunk c cr ups).1.commits.getD ch 0 =
      if ch = c ∧ c < s.commits.size then s.nextId + 1 else s.commits.getD ch 0 := by
  rw [(StorePlumb.commitChunk_spec s c cr ups).2.2.1]
  exact getD_setIfInBounds_nat _ _ _ _

theorem commitChunk_idsOK (s : Store) (c : Nat) (cr : Bool) (ups : List Buf) (h : IdsOK s) :
    IdsOK (s.commitChunk c cr ups).1 := by
  intro ch
  rw [commitChunk_getD, StorePlumb.commitChunk_nextId]
  split
  · exact Nat.le_refl _
  · exact Nat.le_succ_of_le (h ch)

theorem commitLoop_idsOK (cr : Bool) (cs : List Nat) :
    ∀ (s : Store) (ups : List Buf), IdsOK s → IdsOK (commitLoop cr cs s ups).1 := by
  induction cs with
  | nil => intro s ups h; exact h
  | cons c cs ih =>
    intro s ups h
    rw [commitLoop_cons]
    exact ih _ _ (commitChunk_idsOK s c cr ups h)

theorem capStore_idsOK (s : Store) (t : Txn) (h : IdsOK s) : IdsOK (capStore s t) := by
  intro ch
  rw [capStore_getD, (capStore_quiet s t).2.2]
  exact h ch

/-- **`IdsOK` is kept by every commit** -/
theorem commit_idsOK (s : Store) (t : Txn) (h : IdsOK s) : IdsOK (s.commit t) := by
  rw [commit_eq']
  exact commitLoop_idsOK _ _ _ _ (capStore_idsOK s t h)

theorem commits_idsOK (ts : List Txn) : ∀ (s : Store), IdsOK s → IdsOK (ts.foldl Store.commit s) := by
  induction ts with
  | nil => intro s h; exact h
  | cons t ts ih => intro s h; exact ih _ (commit_idsOK s t h)

theorem replay_idsOK (s : Store) (ch : Nat) (bufs : List Buf) (h : IdsOK s) : IdsOK (s.replay ch bufs) :=
  commit_idsOK s _ h

/-- a new collection has handed out no id and stores none -/
theorem new_idsOK (cap : Nat) (lg : LoggerKind) (hash : Bytes → Nat) : IdsOK (Store.new cap lg hash) := by
  intro ch
  simp [Store.new]

theorem createColumn_idsOK (s : Store) (name : String) (kind : Kind) (merge : Bytes → Bytes → Bytes) (h : IdsOK s) :
    IdsOK (s.createColumn name kind merge).1 := by
  rcases createColumn_cases s name kind merge with ⟨_, e⟩ | ⟨_, pk, e⟩
  · rw [e]; exact h
  · rw [e]; exact h

/-- the ids of the entries the chunk loop emits: above the store's `nextId`, at most one per chunk -/
theorem loopEmitted_ids (cr : Bool) (cs : List Nat) :
    ∀ (s : Store) (ups : List Buf), ∀ e ∈ loopEmitted cr cs s ups, s.nextId < e.id ∧ e.id ≤ s.nextId + cs.length := by
  induction cs with
  | nil => intro s ups e he; cases he
  | cons c cs ih =>
    intro s ups e he
    rw [loopEmitted_cons] at he
    rcases List.mem_append.1 he with he | he
    · unfold chunkEmitted at he
      split at he
      · rw [List.mem_singleton] at he
        subst he
        simp only [List.length_cons]
        omega
      · cases he
    · have := ih _ _ e he
      rw [StorePlumb.commitChunk_nextId] at this
      simp only [List.length_cons]
      omega

theorem commitLoop_nextId (cr : Bool) (cs : List Nat) :
    ∀ (s : Store) (ups : List Buf), (commitLoop cr cs s ups).1.nextId = s.nextId + cs.length := by
  induction cs with
  | nil => intro s ups; rfl
  | cons c cs ih =>
    intro s ups
    rw [commitLoop_cons, ih, StorePlumb.commitChunk_nextId]
    simp only [List.length_cons]
    omega

theorem commit_nextId (s : Store) (t : Txn) : (s.commit t).nextId = s.nextId + t.dirtyChunks.length := by
  rw [commit_eq', commitLoop_nextId, (capStore_quiet s t).2.2]

/-- **the ids a commit hands to the logger**: fresh — above `nextId` — and accounted for in the new `nextId` -/
theorem emittedBy_ids (p : Store) (t : Txn) : ∀ e ∈ emittedBy p t, p.nextId < e.id ∧ e.id ≤ (p.commit t).nextId := by
  intro e he
  have := loopEmitted_ids _ _ _ _ e he
  rw [(capStore_quiet p t).2.2] at this
  rw [commit_nextId]
  exact this

theorem commits_nextId_le (ts : List Txn) : ∀ (p : Store), p.nextId ≤ (ts.foldl Store.commit p).nextId := by
  induction ts with
  | nil => intro p; exact Nat.le_refl _
  | cons t ts ih =>
    intro p
    have := ih (p.commit t)
    rw [commit_nextId] at this
    simp only [List.foldl_cons]
    omega

/-- … of a sequence of commits -/
theorem emittedByAll_ids (ts : List Txn) :
    ∀ (p : Store), ∀ e ∈ emittedByAll p ts, p.nextId < e.id ∧ e.id ≤ (ts.foldl Store.commit p).nextId := by
  induction ts with
  | nil => intro p e he; cases he
  | cons t ts ih =>
    intro p e he
    simp only [emittedByAll] at he
    simp only [List.foldl_cons]
    rcases List.mem_append.1 he with he | he
    · have := emittedBy_ids p t e he
      have := commits_nextId_le ts (p.commit t)
      omega
    · have := ih (p.commit t) e he
      rw [commit_nextId] at this
      omega

/-- what a snapshot stores with chunk `ch`: the collection's last commit id of that chunk (`0` beyond the committed chunks) -/
theorem lastOf_snapshot (s : Store) (ch : Nat) : (s.snapshot).1.lastOf ch = s.commits.getD ch 0 := by
  unfold Snap.lastOf
  rw [snapshot_chunks]
  by_cases h : ch < s.nChunks
  · rw [List.getElem?_map, List.getElem?_range h]
    rfl
  · rw [List.getElem?_eq_none (by simp; omega)]
    unfold Store.nChunks at h
    rw [Array.getD_eq_getD_getElem?, Array.getElem?_eq_none (by omega)]
    rfl

/-- **nothing of the tail is filtered out**: the state was taken of `p0` (ids consistent), the tail was emitted by commits
    on `p0` — every entry's id is above `p0.nextId`, hence above the id the state stores with its chunk -/
theorem emittedByAll_newer (p0 : Store) (ts : List Txn) (h : IdsOK p0) :
    ∀ e ∈ emittedByAll p0 ts, (p0.snapshot).1.lastOf e.chunk < e.id := by
  intro e he
  rw [lastOf_snapshot]
  have := (emittedByAll_ids ts p0 e he).1
  have := h e.chunk
  omega

/-! ## C — the id stored with a chunk after commits -/

theorem commitChunk_commits_size (s : Store) (c : Nat) (cr : Bool) (ups : List Buf) :
    (s.commitChunk c cr ups).1.commits.size = s.commits.size := by
  rw [(StorePlumb.commitChunk_spec s c cr ups).2.2.1, Array.size_setIfInBounds]

/-- a latch section never lowers a stored id -/
theorem commitChunk_getD_mono (s : Store) (c : Nat) (cr : Bool) (ups : List Buf) (h : IdsOK s) (ch : Nat) :
    s.commits.getD ch 0 ≤ (s.commitChunk c cr ups).1.commits.getD ch 0 := by
  rw [commitChunk_getD]
  split
  · exact Nat.le_succ_of_le (h ch)
  · exact Nat.le_refl _

theorem commitLoop_getD_mono (cr : Bool) (cs : List Nat) :
    ∀ (s : Store) (ups : List Buf), IdsOK s → ∀ ch,
      s.commits.getD ch 0 ≤ (commitLoop cr cs s ups).1.commits.getD ch 0 := by
  induction cs with
  | nil => intro s ups _ ch; exact Nat.le_refl _
  | cons c cs ih =>
    intro s ups h ch
    rw [commitLoop_cons]
    exact Nat.le_trans (commitChunk_getD_mono s c cr ups h ch) (ih _ _ (commitChunk_idsOK s c cr ups h) ch)

/-- **stored ids only grow** under commits -/
theorem commit_getD_mono (s : Store) (t : Txn) (h : IdsOK s) (ch : Nat) :
    s.commits.getD ch 0 ≤ (s.commit t).commits.getD ch 0 := by
  rw [commit_eq', ← capStore_getD s t ch]
  exact commitLoop_getD_mono _ _ _ _ (capStore_idsOK s t h) ch

theorem commits_getD_mono (ts : List Txn) :
    ∀ (s : Store), IdsOK s → ∀ ch, s.commits.getD ch 0 ≤ (ts.foldl Store.commit s).commits.getD ch 0 := by
  induction ts with
  | nil => intro s _ ch; exact Nat.le_refl _
  | cons t ts ih =>
    intro s h ch
    exact Nat.le_trans (commit_getD_mono s t h ch) (ih _ (commit_idsOK s t h) ch)

/-- every dirty chunk is allocated in the commit-id table when the chunk loop starts -/
theorem capStore_dirty_lt (s : Store) (t : Txn) : ∀ c ∈ t.dirtyChunks, c < (capStore s t).commits.size := by
  have hsorted := dirtyChunks_sorted t
  unfold capStore
  cases hl : t.dirtyChunks.getLast? with
  | none =>
    rw [List.getLast?_eq_none_iff] at hl
    rw [hl]
    intro c hc; cases hc
  | some last =>
    simp only
    have hle := sorted_le_getLast _ hsorted last hl
    intro c hc
    have := hle c hc
    rcases commitCapacity_cases s last with ⟨h1, h2⟩ | ⟨_, _, h3, _, _⟩
    · rw [h2]; omega
    · rw [h3]; omega

/-- the id of every entry the chunk loop emits is stored with the entry's chunk when the loop ends (or a later one is) -/
theorem loopEmitted_le_commits (cr : Bool) (cs : List Nat) :
    ∀ (s : Store) (ups : List Buf), IdsOK s → (∀ c ∈ cs, c < s.commits.size) →
      ∀ e ∈ loopEmitted cr cs s ups, e.id ≤ (commitLoop cr cs s ups).1.commits.getD e.chunk 0 := by
  induction cs with
  | nil => intro s ups _ _ e he; cases he
  | cons c cs ih =>
    intro s ups h hlt e he
    rw [commitLoop_cons]
    rw [loopEmitted_cons] at he
    have h1 := commitChunk_idsOK s c cr ups h
    rcases List.mem_append.1 he with he | he
    · unfold chunkEmitted at he
      split at he
      · rw [List.mem_singleton] at he
        subst he
        refine Nat.le_trans ?_ (commitLoop_getD_mono cr cs _ _ h1 c)
        rw [commitChunk_getD, if_pos ⟨rfl, hlt c (by simp)⟩]
        exact Nat.le_refl _
      · cases he
    · exact ih _ _ h1 (fun c2 hc2 => by rw [commitChunk_commits_size]; exact hlt c2 (by simp [hc2])) e he

/-- … of a commit -/
theorem emittedBy_le_commits (p : Store) (t : Txn) (h : IdsOK p) :
    ∀ e ∈ emittedBy p t, e.id ≤ (p.commit t).commits.getD e.chunk 0 := by
  intro e he
  rw [commit_eq']
  exact loopEmitted_le_commits _ _ _ _ (capStore_idsOK p t h) (capStore_dirty_lt p t) e he

/-- **entries logged before the state was taken fail the id test**: after the commits `ts`, every entry they emitted has an
    id at most the id stored with its chunk -/
theorem emittedByAll_le_commits (ts : List Txn) :
    ∀ (p : Store), IdsOK p → ∀ e ∈ emittedByAll p ts, e.id ≤ (ts.foldl Store.commit p).commits.getD e.chunk 0 := by
  induction ts with
  | nil => intro p _ e he; cases he
  | cons t ts ih =>
    intro p h e he
    simp only [emittedByAll] at he
    simp only [List.foldl_cons]
    rcases List.mem_append.1 he with he | he
    · exact Nat.le_trans (emittedBy_le_commits p t h e he) (commits_getD_mono ts _ (commit_idsOK p t h) e.chunk)
    · exact ih _ (commit_idsOK p t h) e he

theorem emittedByAll_append (ts1 ts2 : List Txn) :
    ∀ (p : Store), emittedByAll p (ts1 ++ ts2) = emittedByAll p ts1 ++ emittedByAll (ts1.foldl Store.commit p) ts2 := by
  induction ts1 with
  | nil => intro p; rfl
  | cons t ts1 ih =>
    intro p
    simp only [List.cons_append, emittedByAll, List.foldl_cons]
    rw [ih, List.append_assoc]

/-! ## D — reads in sync: the bytes an absent slot holds are ignored (`SlotRd`, `RdSync`)

`NumSync` asks for equal slots, raw bytes of ABSENT slots included. `Delete` leaves the bytes of the slot in place, and a later
`Merge` on the primary merges into them — but what reaches the log is the `Put` of the result. So a replica whose absent slots
hold other bytes (a restored state: none) still reads like the primary after every replay. The chain below redoes the slot
clause of `chunk_replay_num` … `commits_replay_num` for the relation `SlotRd`; everything else is taken from there. -/

/-- two slots read the same: the same presence bit, and the same bytes when present (the bytes an absent slot still holds
    — `Delete` leaves them — are ignored) -/
def SlotRd (a b : Bool × Bytes) : Prop := a.1 = b.1 ∧ (a.1 = true → a.2 = b.2)

theorem SlotRd.of_eq {a b : Bool × Bytes} (h : a = b) : SlotRd a b := by subst h; exact ⟨rfl, fun _ => rfl⟩

theorem slotEffect_rd (m m2 : Bytes → Bytes → Bytes) (w w2 : Nat) (o : Op) (ho : o.typ ≠ opMerge) (a b : Bool × Bytes)
    (h : SlotRd a b) : SlotRd (slotEffect m w a o) (slotEffect m2 w2 b o) := by
  unfold slotEffect
  by_cases h1 : o.typ = opPut
  · rw [if_pos h1, if_pos h1]; exact ⟨rfl, fun _ => rfl⟩
  · rw [if_neg h1, if_neg h1, if_neg ho, if_neg ho]
    by_cases h2 : o.typ = opDelete
    · rw [if_pos h2, if_pos h2]; exact ⟨rfl, fun h => by cases h⟩
    · rw [if_neg h2, if_neg h2]; exact h

theorem foldl_slotEffect_rd (m m2 : Bytes → Bytes → Bytes) (w w2 : Nat) (L : List Op) (hL : ∀ o ∈ L, o.typ ≠ opMerge) :
    ∀ (a b : Bool × Bytes), SlotRd a b → SlotRd (L.foldl (slotEffect m w) a) (L.foldl (slotEffect m2 w2) b) := by
  induction L with
  | nil => intro a b h; exact h
  | cons o L ih =>
    intro a b h
    simp only [List.foldl_cons]
    exact ih (fun o' ho' => hL o' (by simp [ho'])) _ _ (slotEffect_rd m m2 w w2 o (hL o (by simp)) a b h)

/-- the column-level law for reads: the primary applies a section, the replica the rewritten section; an offset that read
    the same before reads the same after -/
theorem applyData_rd_slot (hash hash2 : Bytes → Nat) (k k2 : NumKind) (c c2 : Col) (chunk : Nat) (ops : List Op) (i : Nat)
    (hk : c.kind = .num k) (hk2 : c2.kind = .num k2) (hc : chunk < c.nchunks) (hc2 : chunk < c2.nchunks)
    (hin : InBounds c ops) (hin2 : InBounds c2 ops) (hs : SlotRd (slot c2 i) (slot c i)) :
    SlotRd (slot (applyData hash2 c2 chunk (applyData hash c chunk ops).ops).col i) (slot (applyData hash c chunk ops).col i) := by
  have ha := appended_nil_num hash c k hk chunk ops
  have hnm := applyData_ops_no_merge hash c chunk ops (Or.inl ⟨k, hk⟩) hc
  have hin' : InBounds c (applyData hash c chunk ops).ops :=
    (applyData_idx hash c chunk ops (fun j => j < c.bits.size ∧ j < c.data.size) hin).1
  have hin2' : InBounds c2 (applyData hash c chunk ops).ops :=
    (applyData_idx hash c chunk ops (fun j => j < c2.bits.size ∧ j < c2.data.size) hin2).1
  -- replaying the rewritten section on the primary's own pre-state gives the primary's post-state
  have e1 := applyData_sync_slot hash hash c c chunk ops i (kindsMatch_num hk hk) hc hc hin hin ha rfl
  rw [← e1, slotLaw_num hash2 k2 c2.merge c2 chunk _ i hk2 rfl hc2 hin2', slotLaw_num hash k c.merge c chunk _ i hk rfl hc hin']
  exact foldl_slotEffect_rd _ _ _ _ _ (fun o ho => hnm o (List.mem_filter.1 ho).1) _ _ hs

/-- **one chunk, the numeric column `x`, both sides — reads.** As `chunk_replay_num`, for the weaker relation: an offset
    that read the same before the latch section / its replay reads the same after. -/
theorem chunk_replay_num_rd (s r : Store) (ch : Nat) (cr : Bool) (ups bufs : List Buf) (x : String) (cp cq : Col)
    (k k2 : NumKind) (hcr : cr = (ups.find? isMarkerBuf).isSome) (hxr : x ≠ rowColumn)
    (hfp : s.findCol x = some cp) (hfr : r.findCol x = some cq) (hkp : cp.kind = .num k) (hkr : cq.kind = .num k2)
    (hwp : ColWF cp) (hwr : ColWF cq) (hchp : ch < cp.nchunks) (hcovr : r.commits.size ≤ cq.nchunks)
    (hcompP : ∀ v ∈ ups, ∀ c, s.findCol v.column = some c → x ∉ c.computed)
    (hcompR : ∀ v ∈ nonEmpty bufs, ∀ c, r.findCol v.column = some c → x ∉ c.computed)
    (hco : ∀ o ∈ markerOps ups ch ++ opsFor ups x ch, chunkOf o.idx = ch)
    (hmk : ∀ o ∈ markerOps ups ch, o.typ ≠ opMerge)
    (hdel : Delivers (s.commitChunk ch cr ups).2 ch bufs) :
    ∀ cp' cq', (s.commitChunk ch cr ups).1.findCol x = some cp' → (r.replay ch bufs).findCol x = some cq' →
      ∀ i, SlotRd (slot cq i) (slot cp i) → SlotRd (slot cq' i) (slot cp' i) := by
  subst hcr
  have hdp : cp.kind.isData = true := by rw [hkp]; rfl
  have hdr : cq.kind.isData = true := by rw [hkr]; rfl
  have hna0 : (applyData s.hash (applyData s.hash cp ch (markerOps ups ch)).col ch (opsFor ups x ch)).appended = [] :=
    appended_nil_num _ _ k (by rw [(applyData_sameShape s.hash cp ch _).kind]; exact hkp) _ _
  -- the primary
  have hna : (applyData s.hash (applyData s.hash cp ch (markerOpsCr (ups.find? isMarkerBuf).isSome ups ch)).col ch
      (opsFor ups x ch)).appended = [] := by rw [markerOpsCr_isSome]; exact hna0
  obtain ⟨f1, _, _⟩ := commitChunk_col_full s ch _ ups x cp hxr hfp hdp hcompP hna
  have o1 := commitChunk_ops s ch _ ups x cp hxr hfp hdp hcompP hna
  have m1 := commitChunk_markerOps s ch (ups.find? isMarkerBuf).isSome ups ch
  rw [markerOpsCr_isSome] at f1 o1
  have hem : markerOps ups ch ++ opsFor (s.commitChunk ch (ups.find? isMarkerBuf).isSome ups).2 x ch =
      (applyData s.hash cp ch (markerOps ups ch ++ opsFor ups x ch)).ops := by
    rw [applyData_ops_append, applyData_ops_of_no_merge s.hash cp ch _ hmk, o1]
  have hshm := applyData_sameShape s.hash cp ch (markerOps ups ch)
  -- the replica
  have hdirty := replayTxn_dirtyChunks ch bufs hdel.chunks
  have hcd := capCol_data r (replayTxn ch bufs) cq hdr
  obtain ⟨_, hcm2, _, _⟩ := capCol_meta r (replayTxn ch bufs) cq
  have hnaR : NoAppend r.hash (replayTxn ch bufs).updates x (replayTxn ch bufs).dirtyChunks
      (capCol r (replayTxn ch bufs) cq) :=
    NoAppend_of_kind _ _ _ _ _ (by rw [hcm2, hkr]; exact ⟨by simp, by simp⟩)
  have f2 := commit_col r (replayTxn ch bufs) x cq hxr hfr hdr hcompR hnaR
  rw [hdirty, colChunks_one] at f2
  have hops : markerOps (replayTxn ch bufs).updates ch ++ opsFor (replayTxn ch bufs).updates x ch =
      (applyData s.hash cp ch (markerOps ups ch ++ opsFor ups x ch)).ops := by
    show markerOps (nonEmpty bufs) ch ++ opsFor (nonEmpty bufs) x ch = _
    rw [hdel.markers, hdel.ops x, m1, hem]
  rw [hops] at f2
  generalize hc2 : capCol r (replayTxn ch bufs) cq = c2 at f2 hcd hcm2
  obtain ⟨_, _, _, hc2s, hc2w, hc2c⟩ := hcd
  have hw2 : ColWF c2 := hc2w hwr
  have hch2 : ch < c2.nchunks := hc2c hcovr ch (by rw [hdirty]; simp)
  have hin : InBounds cp (markerOps ups ch ++ opsFor ups x ch) := inBounds_of_chunk cp ch _ hwp hchp hco
  have hin2 : InBounds c2 (markerOps ups ch ++ opsFor ups x ch) := inBounds_of_chunk c2 ch _ hw2 hch2 hco
  intro cp' cq' g1 g2 i hs
  rw [f1] at g1
  rw [replay_eq, f2] at g2
  cases g1
  cases g2
  apply applyData_rd_slot s.hash r.hash k k2 cp c2 ch _ i hkp (hcm2.trans hkr) hchp hch2 hin hin2
  rw [hc2s i]
  exact hs

/-- one round of the chunk loop, reads -/
theorem loop_step_num_rd (x : String) (hxr : x ≠ rowColumn) (kd : LoggerKind) (s r : Store) (ups : List Buf) (cr : Bool)
    (cp cq : Col) (k k2 : NumKind) (c : Nat) (hcr : cr = (ups.find? isMarkerBuf).isSome)
    (hfp : s.findCol x = some cp) (hfr : r.findCol x = some cq) (hkp : cp.kind = .num k) (hkr : cq.kind = .num k2)
    (hwp : ColWF cp) (hwr : ColWF cq) (hch : c < cp.nchunks) (hcov : r.commits.size ≤ cq.nchunks)
    (hcks : ComputedKinds s) (hckr : ComputedKinds r)
    (hco : ∀ o ∈ markerOps ups c ++ opsFor ups x c, chunkOf o.idx = c)
    (hmk : ∀ o ∈ markerOps ups c, o.typ ≠ opMerge)
    (hdl : ∀ e ∈ chunkEmitted cr c s ups, Delivers e.updates e.chunk (e.received kd)) :
    ∀ cp1 cq1, (s.commitChunk c cr ups).1.findCol x = some cp1 →
      (replayAll kd r (chunkEmitted cr c s ups)).findCol x = some cq1 →
      ∀ i, SlotRd (slot cq i) (slot cp i) → SlotRd (slot cq1 i) (slot cp1 i) := by
  have hdp : cp.kind.isData = true := by rw [hkp]; rfl
  have hdr : cq.kind.isData = true := by rw [hkr]; rfl
  have hcompP := notComputed_of_computedKinds s hcks x cp hfp hdp ups
  by_cases hE : (cr || StorePlumb.updatedFlag s ups) = true
  · have hce : chunkEmitted cr c s ups = [⟨s.nextId + 1, c, (s.commitChunk c cr ups).2⟩] := by
      unfold chunkEmitted; rw [if_pos hE]
    rw [hce] at hdl ⊢
    rw [replayAll_one]
    have hdel := hdl ⟨s.nextId + 1, c, (s.commitChunk c cr ups).2⟩ (List.mem_singleton.2 rfl)
    simp only at hdel ⊢
    exact chunk_replay_num_rd s r c cr ups _ x cp cq k k2 hcr hxr hfp hfr hkp hkr hwp hwr hch hcov hcompP
      (notComputed_of_computedKinds r hckr x cq hfr hdr _) hco hmk hdel
  · have hce : chunkEmitted cr c s ups = [] := by
      unfold chunkEmitted; rw [if_neg hE]
    rw [hce, replayAll_nil]
    have hE' : (cr || StorePlumb.updatedFlag s ups) = false := Bool.not_eq_true _ ▸ hE
    obtain ⟨hcr0, hup⟩ := Bool.or_eq_false_iff.1 hE'
    subst hcr0
    intro cp1 cq1 g1 g2 i hs
    rw [commitChunk_quiet_col s c ups x cp hxr hfp hdp hcompP hup] at g1
    rw [hfr] at g2
    cases g1; cases g2
    exact hs

/-- the chunk loop, reads -/
theorem commitLoop_replay_num_rd (x : String) (hxr : x ≠ rowColumn) (kd : LoggerKind) (cs : List Nat) :
    ∀ (s r : Store) (ups : List Buf) (cr : Bool) (cp cq : Col) (k k2 : NumKind),
      cs.Nodup → cr = (ups.find? isMarkerBuf).isSome →
      s.findCol x = some cp → r.findCol x = some cq → cp.kind = .num k → cq.kind = .num k2 → ColWF cp → ColWF cq →
      (∀ c ∈ cs, c < cp.nchunks) → r.commits.size ≤ cq.nchunks → ComputedKinds s → ComputedKinds r →
      (∀ c ∈ cs, ∀ o ∈ markerOps ups c ++ opsFor ups x c, chunkOf o.idx = c) →
      (∀ c ∈ cs, ∀ o ∈ markerOps ups c, o.typ ≠ opMerge) →
      (∀ e ∈ loopEmitted cr cs s ups, Delivers e.updates e.chunk (e.received kd)) →
      ∀ cp' cq', (commitLoop cr cs s ups).1.findCol x = some cp' →
        (replayAll kd r (loopEmitted cr cs s ups)).findCol x = some cq' →
        ∀ i, SlotRd (slot cq i) (slot cp i) → SlotRd (slot cq' i) (slot cp' i) := by
  induction cs with
  | nil =>
    intro s r ups cr cp cq k k2 _ _ hfp hfr _ _ _ _ _ _ _ _ _ _ _ cp' cq' g1 g2 i hs
    have g1' : s.findCol x = some cp' := g1
    have g2' : r.findCol x = some cq' := g2
    rw [hfp] at g1'; rw [hfr] at g2'
    cases g1'; cases g2'
    exact hs
  | cons c cs ih =>
    intro s r ups cr cp cq k k2 hnd hcr hfp hfr hkp hkr hwp hwr hch hcov hcks hckr hco hmk hdl cp' cq' g1 g2 i hs
    have hc_notin : c ∉ cs := (List.nodup_cons.1 hnd).1
    have hnd' : cs.Nodup := (List.nodup_cons.1 hnd).2
    have hdp : cp.kind.isData = true := by rw [hkp]; rfl
    have hcompP := notComputed_of_computedKinds s hcks x cp hfp hdp ups
    have hdl1 : ∀ e ∈ chunkEmitted cr c s ups, Delivers e.updates e.chunk (e.received kd) :=
      fun e he => hdl e (by rw [loopEmitted_cons]; exact List.mem_append_left _ he)
    obtain ⟨cp1, cq1, e1, e2, e3, e4, e5, e6, hck1, _, _⟩ := loop_step_num x hxr kd s r ups cr cp cq k k2 c hcr hfp hfr
      hkp hkr hwp hwr (hch c (by simp)) hcov hcks hckr (hco c (by simp)) (hmk c (by simp)) hdl1
    have hrd1 := loop_step_num_rd x hxr kd s r ups cr cp cq k k2 c hcr hfp hfr
      hkp hkr hwp hwr (hch c (by simp)) hcov hcks hckr (hco c (by simp)) (hmk c (by simp)) hdl1 cp1 cq1 e1 e2 i hs
    have hna' : (applyData s.hash (applyData s.hash cp c (markerOpsCr cr ups c)).col c (opsFor ups x c)).appended = [] :=
      appended_nil_num _ _ k (by rw [(applyData_sameShape s.hash cp c _).kind]; exact hkp) _ _
    obtain ⟨_, hreg, hrel⟩ := commitChunk_col_full s c cr ups x cp hxr hfp hdp hcompP hna'
    have hfm := commitChunk_find_marker s c cr ups
    have hmo : ∀ c2, markerOps (s.commitChunk c cr ups).2 c2 = markerOps ups c2 := commitChunk_markerOps s c cr ups
    have hof : ∀ c2 ∈ cs, opsFor (s.commitChunk c cr ups).2 x c2 = opsFor ups x c2 := by
      intro c2 hc2
      apply hrel.opsFor c2
      intro e
      simp only [List.mem_singleton] at e
      exact hc_notin (e ▸ hc2)
    rw [commitLoop_cons] at g1
    rw [loopEmitted_cons, replayAll_append] at g2
    exact ih (s.commitChunk c cr ups).1 (replayAll kd r (chunkEmitted cr c s ups)) (s.commitChunk c cr ups).2 cr cp1 cq1
      k k2 hnd' (by rw [hfm]; exact hcr) e1 e2 (e3.kind.trans hkp) (e4.trans hkr) (ColWF.of_shape e3 hwp) e5
      (fun c2 hc2 => by rw [e3.nchunks]; exact hch c2 (by simp [hc2])) e6
      (ComputedKinds.of_regSim hreg hcks) hck1
      (fun c2 hc2 => by rw [hmo c2, hof c2 hc2]; exact hco c2 (by simp [hc2]))
      (fun c2 hc2 => by rw [hmo c2]; exact hmk c2 (by simp [hc2]))
      (fun e he => hdl e (by rw [loopEmitted_cons]; exact List.mem_append_right _ he))
      cp' cq' g1 g2 i hrd1

/-- a whole commit, reads -/
theorem commit_replay_num_rd (x : String) (hxr : x ≠ rowColumn) (kd : LoggerKind) (p r : Store) (t : Txn) (cp cq : Col)
    (k k2 : NumKind) (hfp : p.findCol x = some cp) (hfr : r.findCol x = some cq) (hkp : cp.kind = .num k)
    (hkr : cq.kind = .num k2) (hwp : ColWF cp) (hwr : ColWF cq) (hcovp : p.commits.size ≤ cp.nchunks)
    (hcovr : r.commits.size ≤ cq.nchunks) (hckp : ComputedKinds p) (hckr : ComputedKinds r) (hok : TxnOK x t)
    (hdl : ∀ e ∈ emittedBy p t, Delivers e.updates e.chunk (e.received kd)) :
    ∀ cp' cq', (p.commit t).findCol x = some cp' → (replayAll kd r (emittedBy p t)).findCol x = some cq' →
      ∀ i, SlotRd (slot cq i) (slot cp i) → SlotRd (slot cq' i) (slot cp' i) := by
  have hdp : cp.kind.isData = true := by rw [hkp]; rfl
  have f0 : (capStore p t).findCol x = some (capCol p t cp) := by rw [capStore_findCol_eq, hfp]; rfl
  obtain ⟨_, m2, _, _⟩ := capCol_meta p t cp
  obtain ⟨_, _, _, d4, d5, d6⟩ := capCol_data p t cp hdp
  intro cp' cq' g1 g2 i hs
  rw [commit_eq'] at g1
  refine commitLoop_replay_num_rd x hxr kd t.dirtyChunks (capStore p t) r
    t.updates t.markers.isSome (capCol p t cp) cq k k2 (sorted_nodup _ (dirtyChunks_sorted t)) rfl f0 hfr (m2.trans hkp) hkr
    (d5 hwp) hwr (d6 hcovp) hcovr (capStore_computedKinds p t hckp) hckr (fun c _ => hok.chunkOps c)
    (fun c _ => hok.noMerge c) hdl cp' cq' g1 g2 i ?_
  rw [d4 i]
  exact hs

/-- the numeric column `x` of the replica `r` READS like the primary's: as `NumSync`, but an absent slot may hold different
    stale bytes on the two sides (`SlotRd`) -/
def RdSync (x : String) (p r : Store) : Prop :=
  ∃ cp cq k k2, p.findCol x = some cp ∧ r.findCol x = some cq ∧ cp.kind = .num k ∧ cq.kind = .num k2 ∧
    ColWF cp ∧ ColWF cq ∧ p.commits.size ≤ cp.nchunks ∧ r.commits.size ≤ cq.nchunks ∧
    ∀ i, SlotRd (slot cq i) (slot cp i)

theorem NumSync.rd {x : String} {p r : Store} (h : NumSync x p r) : RdSync x p r := by
  obtain ⟨cp, cq, k, k2, h1, h2, h3, h4, h5, h6, h7, h8, hs⟩ := h
  exact ⟨cp, cq, k, k2, h1, h2, h3, h4, h5, h6, h7, h8, fun i => SlotRd.of_eq (hs i)⟩

/-- columns that read in sync read the same at every offset -/
theorem RdSync.read {x : String} {p r : Store} (h : RdSync x p r) :
    ∃ cp cq, p.findCol x = some cp ∧ r.findCol x = some cq ∧ ∀ i, cq.read i = cp.read i := by
  obtain ⟨cp, cq, k, k2, hfp, hfr, hkp, hkr, hwp, hwr, _, _, hs⟩ := h
  refine ⟨cp, cq, hfp, hfr, fun i => ?_⟩
  rw [read_num_wf cq k2 hkr hwr, read_num_wf cp k hkp hwp]
  obtain ⟨h1, h2⟩ := hs i
  by_cases hb : (slot cq i).1 = true
  · rw [if_pos hb, if_pos (h1 ▸ hb), h2 hb]
  · rw [if_neg hb, if_neg (h1 ▸ hb)]

theorem commit_replay_rd (x : String) (hxr : x ≠ rowColumn) (kd : LoggerKind) (p r : Store) (t : Txn)
    (hckp : ComputedKinds p) (hckr : ComputedKinds r) (hok : TxnOK x t)
    (hdl : ∀ e ∈ emittedBy p t, Delivers e.updates e.chunk (e.received kd)) (h : RdSync x p r) :
    RdSync x (p.commit t) (replayAll kd r (emittedBy p t)) ∧ ComputedKinds (replayAll kd r (emittedBy p t)) := by
  obtain ⟨cp, cq, k, k2, hfp, hfr, hkp, hkr, hwp, hwr, hcovp, hcovr, hs⟩ := h
  obtain ⟨cp', cq', g1, g2, g3, g4, g5, g6, g7, g8, g9, _, _⟩ := commit_replay_num_raw x hxr kd p r t cp cq k k2 hfp hfr
    hkp hkr hwp hwr hcovp hcovr hckp hckr hok hdl
  exact ⟨⟨cp', cq', k, k2, g1, g2, g3, g4, g5, g6, g7, g8, fun i =>
    commit_replay_num_rd x hxr kd p r t cp cq k k2 hfp hfr hkp hkr hwp hwr hcovp hcovr hckp hckr hok hdl cp' cq' g1 g2 i
      (hs i)⟩, g9⟩

theorem commits_replay_rd (x : String) (hxr : x ≠ rowColumn) (kd : LoggerKind) (ts : List Txn) :
    ∀ (p r : Store), ComputedKinds p → ComputedKinds r → (∀ t ∈ ts, TxnOK x t) →
      (∀ e ∈ emittedByAll p ts, Delivers e.updates e.chunk (e.received kd)) → RdSync x p r →
      RdSync x (ts.foldl Store.commit p) (replayAll kd r (emittedByAll p ts)) := by
  induction ts with
  | nil => intro p r _ _ _ _ h; exact h
  | cons t ts ih =>
    intro p r hckp hckr hok hdl h
    obtain ⟨h1, h2⟩ := commit_replay_rd x hxr kd p r t hckp hckr (hok t (by simp))
      (fun e he => hdl e (List.mem_append_left _ he)) h
    simp only [List.foldl_cons, emittedByAll]
    rw [replayAll_append]
    exact ih (p.commit t) _ (commit_computedKinds p t hckp) h2 (fun t' ht' => hok t' (by simp [ht']))
      (fun e he => hdl e (List.mem_append_right _ he)) h1

/-! ## E — `readState` of a snapshot into a fresh target: `RdSync`, `NumSync`, `FillSync` -/

theorem readState_computedKinds (s s0 : Store) (h : ComputedKinds s0) : ComputedKinds (s0.readState (s.snapshot).1) := by
  rw [readState_snapshot]
  generalize s.nChunks = n
  induction n with
  | zero => exact h
  | succ n ih =>
    rw [List.range_succ, List.foldl_append]
    simp only [List.foldl_cons, List.foldl_nil]
    exact commit_computedKinds _ _ ih

theorem readState_idsOK (s0 : Store) (snap : Snap) (h : IdsOK s0) : IdsOK (s0.readState snap) := by
  unfold Store.readState
  generalize snap.chunks.zipIdx = l
  induction l generalizing s0 with
  | nil => exact h
  | cons a l ih => exact ih _ (commit_idsOK s0 _ h)

/-- a numeric column is nobody's computed column -/
theorem num_notComputed (s0 : Store) (hck : ComputedKinds s0) (x : String) (c0 : Col) (k : NumKind)
    (hf0 : s0.findCol x = some c0) (hk0 : c0.kind = .num k) : ∀ n c', s0.findCol n = some c' → x ∉ c'.computed := by
  intro n c' hc hx
  have := hck n c' hc x hx c0 hf0
  rw [hk0] at this
  cases this

/-- the fill list of the restored state: the set bits of the source (live rows of the source all in committed chunks,
    fill list of the target empty) -/
theorem fillSync_readState (s s0 : Store) (hn : NamesDistinct s) (hr : s.findCol rowColumn = none)
    (hcommitted : ∀ j, Bits.get s.fill j = true → j / 16384 < s.nChunks)
    (hfresh : ∀ j, Bits.get s0.fill j = false) : FillSync s (s0.readState (s.snapshot).1) := by
  intro j
  rw [readState_snapshot, readState_fill_upTo s s0 hn hr s.nChunks j, hfresh j]
  by_cases hb : Bits.get s.fill j = true
  · rw [if_pos ⟨hcommitted j hb, hb⟩, hb]
  · rw [if_neg (fun h => hb h.2)]
    simpa using hb

/-- the slots of the numeric column `x` after `readState`, the shape facts `NumSync` asks for -/
theorem readState_num (s s0 : Store) (x : String) (k : NumKind) (c c0 : Col)
    (hn : NamesDistinct s) (hr : s.findCol rowColumn = none)
    (hf : s.findCol x = some c) (hk : c.kind = .num k) (hcovc : s.commits.size ≤ c.nchunks)
    (hf0 : s0.findCol x = some c0) (hk0 : c0.kind = .num k) (hw0 : ColWF c0) (hcov0 : s0.commits.size ≤ c0.nchunks)
    (hck0 : ComputedKinds s0) :
    ∃ col', (s0.readState (s.snapshot).1).findCol x = some col' ∧ col'.kind = .num k ∧ ColWF col' ∧
      (s0.readState (s.snapshot).1).commits.size ≤ col'.nchunks ∧
      ∀ i, slot col' i =
        if i / 16384 < s.nChunks ∧ Bits.get c.bits i = true then (true, padTo k.width (c.data.getD i [])) else slot c0 i := by
  rw [readState_snapshot]
  obtain ⟨col', f, k', _, w', cv', _, _, _, sl⟩ := readState_upTo s s0 x k c c0 hn hr hf hk hcovc hf0 hk0 hw0 hcov0
    (num_notComputed s0 hck0 x c0 k hf0 hk0) s.nChunks (Nat.le_refl _)
  exact ⟨col', f, k', w', cv', sl⟩

/-- **the restored state is in sync with the source** (numeric column `x`, every slot: presence bit and raw bytes).
    Source `s`: distinct names, no column called `row`, `x` well-formed and covering the committed chunks, present slots
    hold a value (`hcanon`), no present slot beyond the committed chunks (`hlive`), absent slots hold no stale bytes
    (`hclean`). Target `s0`: the same column, no slot present, no bytes (`hfresh`, `hfreshd`). -/
theorem numSync_readState (s s0 : Store) (x : String) (k : NumKind) (c c0 : Col)
    (hn : NamesDistinct s) (hr : s.findCol rowColumn = none)
    (hf : s.findCol x = some c) (hk : c.kind = .num k) (hwc : ColWF c) (hcovc : s.commits.size ≤ c.nchunks)
    (hf0 : s0.findCol x = some c0) (hk0 : c0.kind = .num k) (hw0 : ColWF c0) (hcov0 : s0.commits.size ≤ c0.nchunks)
    (hck0 : ComputedKinds s0)
    (hcanon : ∀ i, Bits.get c.bits i = true → c.data.getD i [] ≠ [])
    (hlive : ∀ i, Bits.get c.bits i = true → i / 16384 < s.nChunks)
    (hclean : ∀ i, Bits.get c.bits i = false → c.data.getD i [] = [])
    (hfresh : ∀ i, Bits.get c0.bits i = false) (hfreshd : ∀ i, c0.data.getD i [] = []) :
    NumSync x s (s0.readState (s.snapshot).1) := by
  obtain ⟨col', f, k', w', cv', sl⟩ := readState_num s s0 x k c c0 hn hr hf hk hcovc hf0 hk0 hw0 hcov0 hck0
  refine ⟨c, col', k, k, hf, f, hk, k', hwc, w', hcovc, cv', fun i => ?_⟩
  rw [sl i]
  by_cases hb : Bits.get c.bits i = true
  · rw [if_pos ⟨hlive i hb, hb⟩, padTo_of_ne_nil _ _ (hcanon i hb)]
    unfold slot
    rw [hb, getD_eq]
  · rw [if_neg (fun h => hb h.2)]
    have hb' : Bits.get c.bits i = false := by simpa using hb
    unfold slot
    rw [hb', hfresh i, ← getD_eq, ← getD_eq, hclean i hb', hfreshd i]

/-- **the restored state reads like the source** — no condition on the bytes absent slots hold on either side -/
theorem rdSync_readState (s s0 : Store) (x : String) (k : NumKind) (c c0 : Col)
    (hn : NamesDistinct s) (hr : s.findCol rowColumn = none)
    (hf : s.findCol x = some c) (hk : c.kind = .num k) (hwc : ColWF c) (hcovc : s.commits.size ≤ c.nchunks)
    (hf0 : s0.findCol x = some c0) (hk0 : c0.kind = .num k) (hw0 : ColWF c0) (hcov0 : s0.commits.size ≤ c0.nchunks)
    (hck0 : ComputedKinds s0)
    (hcanon : ∀ i, Bits.get c.bits i = true → c.data.getD i [] ≠ [])
    (hlive : ∀ i, Bits.get c.bits i = true → i / 16384 < s.nChunks)
    (hfresh : ∀ i, Bits.get c0.bits i = false) :
    RdSync x s (s0.readState (s.snapshot).1) := by
  obtain ⟨col', f, k', w', cv', sl⟩ := readState_num s s0 x k c c0 hn hr hf hk hcovc hf0 hk0 hw0 hcov0 hck0
  refine ⟨c, col', k, k, hf, f, hk, k', hwc, w', hcovc, cv', fun i => ?_⟩
  rw [sl i]
  by_cases hb : Bits.get c.bits i = true
  · rw [if_pos ⟨hlive i hb, hb⟩, padTo_of_ne_nil _ _ (hcanon i hb)]
    apply SlotRd.of_eq
    unfold slot
    rw [hb, getD_eq]
  · rw [if_neg (fun h => hb h.2)]
    have hb' : Bits.get c.bits i = false := by simpa using hb
    have e1 : (slot c0 i).1 = false := hfresh i
    have e2 : (slot c i).1 = false := hb'
    exact ⟨e1.trans e2.symm, fun h => by rw [e1] at h; cases h⟩

/-! ### a fresh target: `NewCollection` + `CreateColumn` -/

/-- a new collection registers `expire` only -/
theorem new_findCol_none (cap : Nat) (lg : LoggerKind) (hash : Bytes → Nat) (x : String) (hx : "expire" ≠ x) :
    (Store.new cap lg hash).findCol x = none := by
  have e : Store.new cap lg hash =
      { ({ cap := if cap > 0 then cap else 1024, logger := lg, hash := hash } : Store) with
        cols := (#[] : Array Col).push (Col.grow { name := "expire", kind := .num .i64, merge := addMerge64 }
          (if cap > 0 then cap else 1024)) } := rfl
  rw [e, findCol_push_other _ _ x (by rw [grow_name]; exact hx)]
  rfl

/-- a numeric column just created: registered, of the kind asked for, well-formed, covering the committed chunks, every slot
    absent and without bytes; the fill list and the other columns' computed lists are untouched -/
theorem createColumn_fresh (s : Store) (x : String) (k : NumKind) (m : Bytes → Bytes → Bytes) (h : s.findCol x = none) :
    ∃ c0, (s.createColumn x (.num k) m).1.findCol x = some c0 ∧ c0.kind = .num k ∧ ColWF c0 ∧
      (s.createColumn x (.num k) m).1.commits.size ≤ c0.nchunks ∧ (∀ i, slot c0 i = (false, [])) ∧
      (s.createColumn x (.num k) m).1.fill = s.fill := by
  rcases createColumn_cases s x (.num k) m with ⟨h', _⟩ | ⟨_, pk, e1⟩
  · rw [h] at h'; cases h'
  obtain ⟨w1, s1, _⟩ := grow_blank x (.num k) m rfl (createCap s)
  have n1 := grow_name { name := x, kind := .num k, merge := m } (createCap s)
  refine ⟨_, ?_, ?_, w1, ?_, s1, ?_⟩
  · rw [e1]
    have := findCol_push_self { s with pk := pk } _ (by rw [n1]; exact h)
    rw [n1] at this; exact this
  · rw [grow_kind]
  · rw [e1]
    have := createCap_covers s
    show s.commits.size ≤ _
    omega
  · rw [e1]

/-! ## F — what a commit keeps of the conditions on the source -/

/-- present slots hold a value: kept by every op whose `Put` carries a value, when merge results are never empty -/
theorem foldl_slotEffect_canon (m : Bytes → Bytes → Bytes) (w : Nat) (hmerge : ∀ v d, m v d ≠ []) (L : List Op)
    (hput : ∀ o ∈ L, o.typ = opPut → valRaw o.val ≠ []) :
    ∀ (st : Bool × Bytes), (st.1 = true → st.2 ≠ []) →
      (L.foldl (slotEffect m w) st).1 = true → (L.foldl (slotEffect m w) st).2 ≠ [] := by
  induction L with
  | nil => intro st h; exact h
  | cons o L ih =>
    intro st h
    simp only [List.foldl_cons]
    apply ih (fun o' ho' => hput o' (by simp [ho']))
    unfold slotEffect
    by_cases h1 : o.typ = opPut
    · rw [if_pos h1]; exact fun _ => hput o (by simp) h1
    · rw [if_neg h1]
      by_cases h2 : o.typ = opMerge
      · rw [if_pos h2]; exact fun _ => hmerge _ _
      · rw [if_neg h2]
        by_cases h3 : o.typ = opDelete
        · rw [if_pos h3]; intro hb; cases hb
        · rw [if_neg h3]; exact h

theorem commit_size_mono (s : Store) (t : Txn) : s.commits.size ≤ (s.commit t).commits.size := by
  rcases commit_commits_size s t with h | ⟨last, _, h1, h2⟩
  · rw [h]; exact Nat.le_refl _
  · rw [h2]; omega

/-- every dirty chunk is a committed chunk after the commit -/
theorem commit_dirty_lt (s : Store) (t : Txn) : ∀ c ∈ t.dirtyChunks, c < (s.commit t).commits.size := by
  intro c hc
  rw [commit_eq', (commitLoop_gen _ _ _ _).2.1]
  exact capStore_dirty_lt s t c hc

/-- the chunk of every op of a buffer (ops in sections of their own chunk) is dirty -/
theorem op_chunk_dirty (t : Txn) (v : Buf) (hv : v ∈ t.updates) (hok : ChunkOK v) (o : Op) (ho : o ∈ v.allOps) :
    chunkOf o.idx ∈ t.dirtyChunks := by
  rw [mem_dirtyChunks]
  exact Or.inr ⟨v, hv, allOps_chunk_mem v hok o ho⟩

theorem markerAll_chunk_dirty (t : Txn) (hinv : ∀ v ∈ t.updates, ChunkOK v) (o : Op) (ho : o ∈ markerAll t.updates) :
    chunkOf o.idx ∈ t.dirtyChunks := by
  unfold markerAll at ho
  cases hm : t.updates.find? isMarkerBuf with
  | none => rw [hm] at ho; cases ho
  | some m =>
    rw [hm] at ho
    exact op_chunk_dirty t m (List.mem_of_find?_eq_some hm) (hinv m (List.mem_of_find?_eq_some hm)) o ho

theorem allFor_chunk_dirty (t : Txn) (x : String) (hinv : ∀ v ∈ t.updates, ChunkOK v) (o : Op)
    (ho : o ∈ allFor t.updates x) : chunkOf o.idx ∈ t.dirtyChunks := by
  obtain ⟨v, hv, _, hov⟩ := allFor_mem t.updates x o ho
  exact op_chunk_dirty t v hv (hinv v hv) o hov

theorem chunkOf_eq (i : Nat) : chunkOf i = i / 16384 := rfl

/-- **the numeric column after a commit**: still registered, numeric, well-formed, covering; present slots hold a value
    (every `Put` carries one, merge results are never empty); no present slot beyond the committed chunks -/
theorem commit_num_source (s : Store) (t : Txn) (x : String) (k : NumKind) (col : Col)
    (hxr : x ≠ rowColumn) (hf : s.findCol x = some col) (hk : col.kind = .num k) (hw : ColWF col)
    (hcov : s.commits.size ≤ col.nchunks) (hck : ComputedKinds s) (hinv : ∀ v ∈ t.updates, ChunkOK v)
    (hput : ∀ o ∈ markerAll t.updates ++ allFor t.updates x, o.typ = opPut → valRaw o.val ≠ [])
    (hmerge : ∀ v d, col.merge v d ≠ [])
    (hcanon : ∀ i, Bits.get col.bits i = true → col.data.getD i [] ≠ [])
    (hlive : ∀ i, Bits.get col.bits i = true → i / 16384 < s.nChunks) :
    ∃ col', (s.commit t).findCol x = some col' ∧ col'.kind = .num k ∧ col'.merge = col.merge ∧ ColWF col' ∧
      (s.commit t).commits.size ≤ col'.nchunks ∧
      (∀ i, Bits.get col'.bits i = true → col'.data.getD i [] ≠ []) ∧
      (∀ i, Bits.get col'.bits i = true → i / 16384 < (s.commit t).nChunks) := by
  have hd : col.kind.isData = true := by rw [hk]; rfl
  have hlaw : SlotLaw s.hash col.kind col.merge (slotEffect col.merge k.width) := by
    rw [hk]; exact slotLaw_num s.hash k col.merge
  obtain ⟨col', f, k', m', w', n1, n2, _, sl⟩ := commit_slot_ok s t x col (slotEffect col.merge k.width) hxr hf hd hw hcov
    (notComputed_of_computedKinds s hck x col hf hd t.updates)
    (ChunksOK_of_noAppend _ _ _ _ _ (NoAppend_of_kind _ _ _ _ _ (by
      rw [(capCol_meta s t col).2.1, hk]; exact ⟨by simp, by simp⟩)))
    hlaw (fun v hv _ => hinv v hv)
  refine ⟨col', f, k'.trans hk, m', w', commit_cov s t col col' hcov n1 n2, fun i hb => ?_, fun i hb => ?_⟩
  · have h := foldl_slotEffect_canon col.merge k.width hmerge
      ((markerAll t.updates ++ allFor t.updates x).filter (fun o => o.idx = i))
      (fun o ho => hput o (List.mem_filter.1 ho).1) (slot col i)
      (fun hb0 => by
        show (col.data[i]?).getD [] ≠ []
        rw [← getD_eq]; exact hcanon i hb0)
    rw [← sl i] at h
    rw [getD_eq]
    exact h hb
  · by_cases hne : (markerAll t.updates ++ allFor t.updates x).filter (fun o => o.idx = i) = []
    · have e := sl i
      rw [hne] at e
      have hb0 : Bits.get col.bits i = true := by
        have e1 : (slot col' i).1 = (slot col i).1 := congrArg Prod.fst e
        exact e1.symm.trans hb
      have := hlive i hb0
      have := commit_size_mono s t
      unfold Store.nChunks at *
      omega
    · obtain ⟨o, ho⟩ := List.exists_mem_of_ne_nil _ hne
      obtain ⟨ho1, ho2⟩ := List.mem_filter.1 ho
      have hi : o.idx = i := by simpa using ho2
      have hdirty : chunkOf o.idx ∈ t.dirtyChunks := by
        rcases List.mem_append.1 ho1 with h | h
        · exact markerAll_chunk_dirty t hinv o h
        · exact allFor_chunk_dirty t x hinv o h
      rw [hi, chunkOf_eq] at hdirty
      exact commit_dirty_lt s t _ hdirty

/-- no live row beyond the committed chunks: kept by every commit -/
theorem commit_fill_committed (s : Store) (t : Txn) (hinv : ∀ v ∈ t.updates, ChunkOK v)
    (h : ∀ j, Bits.get s.fill j = true → j / 16384 < s.nChunks) :
    ∀ j, Bits.get (s.commit t).fill j = true → j / 16384 < (s.commit t).nChunks := by
  intro j hb
  rw [commit_fill s t (fun m hm _ => hinv m hm) j] at hb
  by_cases hne : (markerAll t.updates).filter (fun o => o.idx = j) = []
  · rw [hne] at hb
    have := h j hb
    have := commit_size_mono s t
    unfold Store.nChunks at *
    omega
  · obtain ⟨o, ho⟩ := List.exists_mem_of_ne_nil _ hne
    obtain ⟨ho1, ho2⟩ := List.mem_filter.1 ho
    have hi : o.idx = j := by simpa using ho2
    have hdirty := markerAll_chunk_dirty t hinv o ho1
    rw [hi, chunkOf_eq] at hdirty
    exact commit_dirty_lt s t _ hdirty

end ColumnVerif.Store
