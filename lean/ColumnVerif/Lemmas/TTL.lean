import ColumnVerif.Model.Expire
import ColumnVerif.Lemmas.ApplyStr
/-!
# Lemmas: the 8 big-endian bytes of an `int64` deadline, and what the default merge (`addMerge64`) does to them

`bytesOfInt64` is the encoder a typed setter uses (`binary.BigEndian.PutUint64(uint64(v))`); `int64OfBytes` (Model/Expire)
the decoder. `wrap64` is two's-complement wrap-around of a mathematical integer into the `int64` range.
-/
namespace ColumnVerif.Store
open ColumnVerif.Codec ColumnVerif.Bits

/-- the 8 big-endian bytes of `uint64(x)` -/
def bytesOfInt64 (x : Int) : Bytes := natToBE 8 ((x % 2 ^ 64).toNat)

/-- two's-complement wrap-around into `[-2^63, 2^63)` -/
def wrap64 (x : Int) : Int := ((x + 2 ^ 63) % 2 ^ 64) - 2 ^ 63

/-- `x` fits an `int64` -/
def InI64 (x : Int) : Prop := -(2 ^ 63) ≤ x ∧ x < 2 ^ 63

instance (x : Int) : Decidable (InI64 x) := by unfold InI64; exact inferInstance

theorem pow63 : (2 : Int) ^ 63 = 9223372036854775808 := by decide
theorem pow64 : (2 : Int) ^ 64 = 18446744073709551616 := by decide
theorem pow256_8 : (256 : Nat) ^ 8 = 18446744073709551616 := by decide
theorem npow64 : (2 : Nat) ^ 64 = 18446744073709551616 := by decide

/-! ## big-endian bytes -/

theorem beNat_lt (bs : Bytes) : beNat bs < 256 ^ bs.length := by
  induction bs with
  | nil => simp [beNat]
  | cons b bs ih =>
    simp only [beNat, List.length_cons, Nat.pow_succ]
    have hb : b.toNat < 256 := by
      have := UInt8.toNat_lt b
      omega
    have : b.toNat * 256 ^ bs.length ≤ 255 * 256 ^ bs.length := Nat.mul_le_mul_right _ (by omega)
    omega

/-- the encoder only looks at the low `n` bytes -/
theorem natToBE_add_mul (n a v : Nat) : natToBE n (a * 256 ^ n + v) = natToBE n v := by
  induction n generalizing a with
  | zero => rfl
  | succ n ih =>
    simp only [natToBE]
    have e : a * 256 ^ (n + 1) + v = (a * 256) * 256 ^ n + v := by
      rw [Nat.pow_succ, Nat.mul_assoc, Nat.mul_comm 256 (256 ^ n)]
    rw [e, ih (a * 256)]
    have hpos : 0 < 256 ^ n := Nat.pow_pos (by decide)
    have : (a * 256 * 256 ^ n + v) / 256 ^ n % 256 = v / 256 ^ n % 256 := by
      rw [Nat.add_comm, Nat.add_mul_div_right _ _ hpos, Nat.add_mul_mod_self_right]
    rw [this]

/-- decoding then encoding gives the bytes back (any length) -/
theorem natToBE_beNat (bs : Bytes) : natToBE bs.length (beNat bs) = bs := by
  induction bs with
  | nil => rfl
  | cons b bs ih =>
    simp only [List.length_cons, natToBE, beNat]
    rw [natToBE_add_mul, ih]
    have hlt := beNat_lt bs
    have hpos : 0 < 256 ^ bs.length := Nat.pow_pos (by decide)
    have : (b.toNat * 256 ^ bs.length + beNat bs) / 256 ^ bs.length % 256 = b.toNat := by
      rw [Nat.add_comm, Nat.add_mul_div_right _ _ hpos, Nat.div_eq_of_lt hlt, Nat.zero_add]
      have := UInt8.toNat_lt b
      exact Nat.mod_eq_of_lt (by omega)
    rw [this]
    simp

theorem beNat_lt8 (bs : Bytes) (h : bs.length = 8) : beNat bs < 18446744073709551616 := by
  have := beNat_lt bs
  rw [h, pow256_8] at this
  exact this

/-! ## `int64OfBytes` / `bytesOfInt64` -/

theorem bytesOfInt64_length (x : Int) : (bytesOfInt64 x).length = 8 := natToBE_length 8 _

theorem int64OfBytes_def (bs : Bytes) :
    int64OfBytes bs =
      if beNat bs ≥ 9223372036854775808 then (beNat bs : Int) - 18446744073709551616 else (beNat bs : Int) := rfl

/-- the decoded value of 8 bytes fits an `int64` -/
theorem int64OfBytes_range (bs : Bytes) (h : bs.length = 8) : InI64 (int64OfBytes bs) := by
  have := beNat_lt8 bs h
  unfold InI64
  rw [int64OfBytes_def, pow63]
  split <;> omega

theorem beNat_bytesOfInt64 (x : Int) : beNat (bytesOfInt64 x) = (x % 18446744073709551616).toNat := by
  unfold bytesOfInt64
  rw [beNat_natToBE, pow256_8, pow64]
  apply Nat.mod_eq_of_lt
  omega

/-- decoding an encoded integer gives it back wrapped; nothing is assumed about `x` -/
theorem int64OfBytes_bytesOfInt64_wrap (x : Int) : int64OfBytes (bytesOfInt64 x) = wrap64 x := by
  rw [int64OfBytes_def, beNat_bytesOfInt64]
  unfold wrap64
  rw [pow63, pow64]
  split <;> omega

theorem wrap64_of_range (x : Int) (h : InI64 x) : wrap64 x = x := by
  unfold InI64 at h
  unfold wrap64
  rw [pow63] at h
  rw [pow63, pow64]
  omega

theorem wrap64_range (x : Int) : InI64 (wrap64 x) := by
  unfold InI64 wrap64
  rw [pow63, pow64]
  omega

theorem wrap64_add_wrap64 (a b : Int) : wrap64 (a + wrap64 b) = wrap64 (a + b) := by
  unfold wrap64
  rw [pow63, pow64]
  omega

/-- the default merge only looks at the numeric value of its arguments -/
theorem addMerge64_def (v d : Bytes) : addMerge64 v d = natToBE 8 ((beNat v + beNat d) % 18446744073709551616) := by
  unfold addMerge64
  rw [npow64]

theorem addMerge64_length (v d : Bytes) : (addMerge64 v d).length = 8 := by
  unfold addMerge64; exact natToBE_length 8 _

theorem beNat_addMerge64 (v d : Bytes) : beNat (addMerge64 v d) = (beNat v + beNat d) % 18446744073709551616 := by
  rw [addMerge64_def, beNat_natToBE, pow256_8]
  omega

theorem int64OfBytes_padTo (bs : Bytes) : int64OfBytes (padTo 8 bs) = int64OfBytes bs := by
  unfold padTo
  split
  · rename_i h
    have : bs = [] := List.eq_nil_of_length_eq_zero h
    subst this
    decide
  · rfl

theorem padTo_length8 (bs : Bytes) (h : bs.length = 8) : padTo 8 bs = bs := by
  unfold padTo
  rw [if_neg (by omega)]

/-- the encoder only looks at the value modulo 2^64 -/
theorem bytesOfInt64_congr (x y : Int) (h : x % 18446744073709551616 = y % 18446744073709551616) :
    bytesOfInt64 x = bytesOfInt64 y := by
  unfold bytesOfInt64
  rw [pow64, h]

theorem bytesOfInt64_wrap64 (x : Int) : bytesOfInt64 (wrap64 x) = bytesOfInt64 x := by
  apply bytesOfInt64_congr
  unfold wrap64
  rw [pow63, pow64]
  omega

/-- encoding a decoded 8-byte value gives the bytes back -/
theorem bytesOfInt64_int64OfBytes8 (bs : Bytes) (h : bs.length = 8) : bytesOfInt64 (int64OfBytes bs) = bs := by
  have hlt := beNat_lt8 bs h
  have e : ((int64OfBytes bs) % 18446744073709551616).toNat = beNat bs := by
    rw [int64OfBytes_def]; split <;> omega
  have hb := natToBE_beNat bs
  rw [h] at hb
  unfold bytesOfInt64
  rw [pow64, e, hb]

/-- `addMerge64` is wrapping addition of the decoded values (no assumption on the lengths of `v`, `d`) -/
theorem int64OfBytes_addMerge64 (v d : Bytes) :
    int64OfBytes (addMerge64 v d) = wrap64 (int64OfBytes v + int64OfBytes d) := by
  rw [int64OfBytes_def (addMerge64 v d), beNat_addMerge64, int64OfBytes_def v, int64OfBytes_def d]
  unfold wrap64
  rw [pow63, pow64]
  generalize beNat v = a
  generalize beNat d = b
  repeat' split
  all_goals omega

/-- … so its result is the encoding of the (unwrapped) sum -/
theorem addMerge64_eq (v d : Bytes) : addMerge64 v d = bytesOfInt64 (int64OfBytes v + int64OfBytes d) := by
  rw [← bytesOfInt64_int64OfBytes8 (addMerge64 v d) (addMerge64_length v d), int64OfBytes_addMerge64, bytesOfInt64_wrap64]

/-- merging the encoding of `delta` into a slot: the slot then encodes `old + delta` (padding of an empty slot included) -/
theorem addMerge64_delta (old : Bytes) (delta : Int) :
    addMerge64 (padTo 8 old) (bytesOfInt64 delta) = bytesOfInt64 (int64OfBytes old + delta) := by
  rw [addMerge64_eq, int64OfBytes_padTo, int64OfBytes_bytesOfInt64_wrap]
  apply bytesOfInt64_congr
  unfold wrap64
  rw [pow63, pow64]
  omega

/-- the effect of a `Merge` op carrying `bytesOfInt64 delta` on a slot of the deadline column -/
theorem slotEffect_extend (st : Bool × Bytes) (p : Op) (hp : p.typ = opMerge) (delta : Int)
    (hv : valRaw p.val = bytesOfInt64 delta) :
    slotEffect addMerge64 NumKind.i64.width st p = (true, bytesOfInt64 (int64OfBytes st.2 + delta)) := by
  unfold slotEffect
  rw [if_neg (by rw [hp]; decide), if_pos hp, hv]
  show (true, addMerge64 (padTo 8 st.2) (bytesOfInt64 delta)) = _
  rw [addMerge64_delta]

end ColumnVerif.Store
