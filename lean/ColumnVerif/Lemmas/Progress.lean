import ColumnVerif.Conc.Invariants
import ColumnVerif.Conc.SnapInvariants
/-!
# Progress lemmas for the two protocol machines (property C18)

Helpers for `Props/C18.lean`: enabledness of the steps of a thread (`Moves`), the extra invariants
the progress argument needs (`InvRM`: every registered reader is inside a read section; `Snap.InvTodo`:
a writer that is not idle has a non-empty `todo`), the termination measures and the step-counting runs.
-/

namespace ColumnVerif.Progress

/-! ### sums over a finite list of thread ids -/

theorem sum_map_congr {f g : Nat → Nat} {ts : List Nat} (h : ∀ u ∈ ts, g u = f u) :
    (ts.map g).sum = (ts.map f).sum := by
  induction ts with
  | nil => rfl
  | cons a l ih =>
    simp only [List.map_cons, List.sum_cons]
    rw [h a (by simp), ih (fun u hu => h u (by simp [hu]))]

/-- `f` and `g` differ at most at `t`, which occurs once in `ts` -/
theorem sum_map_update {f g : Nat → Nat} {t : Nat} (h : ∀ u, u ≠ t → g u = f u) :
    ∀ ts : List Nat, ts.Nodup → t ∈ ts → (ts.map g).sum + f t = (ts.map f).sum + g t := by
  intro ts
  induction ts with
  | nil => intro _ hm; simp at hm
  | cons a l ih =>
    intro hnd hm
    have hnd' := List.nodup_cons.mp hnd
    simp only [List.map_cons, List.sum_cons]
    by_cases hat : a = t
    · subst hat
      have : (l.map g).sum = (l.map f).sum :=
        sum_map_congr (fun u hu => h u (fun e => hnd'.1 (e ▸ hu)))
      omega
    · have hm' : t ∈ l := by
        rcases List.mem_cons.mp hm with e | e
        · exact absurd e.symm hat
        · exact e
      have := ih hnd'.2 hm'
      rw [h a hat]
      omega

end ColumnVerif.Progress

/-! ## A. the commit machine -/

namespace ColumnVerif.Conc
open ColumnVerif.Progress

/-! ### every registered reader is inside a read section -/

structure InvRM (w : W) : Prop where
  /-- a registered reader of `c` is at `rheld c` / `readA c _` / `readAB c _ _` -/
  rpc : ∀ t c, t ∈ w.readers c → rchunk (w.pc t) = some c
  /-- a thread is registered at most once -/
  nodup : ∀ c, (w.readers c).Nodup

theorem InvRM.frame {w w' : W} (h : InvRM w) (hr : w'.readers = w.readers)
    (hrc : ∀ u, rchunk (w'.pc u) = rchunk (w.pc u)) : InvRM w' := by
  constructor
  · intro t c; rw [hr, hrc]; exact h.rpc t c
  · intro c; rw [hr]; exact h.nodup c

theorem init_invRM {w : W} (hi : Init w) : InvRM w := by
  constructor
  · intro t c h; rw [hi.readers] at h; simp at h
  · intro c; rw [hi.readers]; simp

theorem step_invRM {cfg : ProtoCfg} {merge : Nat → Nat → Nat} {w w' : W} (h : InvRM w)
    (hs : Step cfg merge w w') : InvRM w' := by
  cases hs with
  | racquire t c hpc htodo hh =>
    have hnot : ∀ d, t ∉ w.readers d := by
      intro d hm
      have := h.rpc t d hm
      rw [hpc] at this; simp [rchunk] at this
    constructor
    · intro u d hu
      by_cases hut : u = t
      · subst hut
        by_cases hdc : d = c
        · subst hdc; simp [setPc, rchunk]
        · simp [hdc] at hu; exact absurd hu (hnot d)
      · simp only [setPc, hut, if_false]
        apply h.rpc u d
        by_cases hdc : d = c
        · subst hdc; simp [hut] at hu; exact hu
        · simpa [hdc] using hu
    · intro d
      by_cases hdc : d = c
      · subst hdc; simp; exact ⟨hnot d, h.nodup d⟩
      · simp [hdc]; exact h.nodup d
  | rrelease t c a b hpc =>
    constructor
    · intro u d hu
      by_cases hut : u = t
      · subst hut
        by_cases hdc : d = c
        · subst hdc
          simp at hu
          exact absurd hu (fun hm => ((h.nodup d).mem_erase_iff.mp hm).1 rfl)
        · simp [hdc] at hu
          have := h.rpc u d hu
          rw [hpc] at this; simp [rchunk] at this
          exact absurd this.symm hdc
      · simp only [setPc, hut, if_false]
        apply h.rpc u d
        by_cases hdc : d = c
        · subst hdc; simp at hu; exact List.mem_of_mem_erase hu
        · simpa [hdc] using hu
    · intro d
      by_cases hdc : d = c
      · subst hdc; simp; exact (h.nodup d).erase t
      · simp [hdc]; exact h.nodup d
  | begin t c rest hpc htodo hc => exact h.frame rfl (proj_setPc rchunk (by rw [hpc]; rfl))
  | beginEarlyId t c rest hpc htodo hc => exact h.frame rfl (proj_setPc rchunk (by rw [hpc]; rfl))
  | acquire t c id hpc hh hrd => exact h.frame rfl (proj_setPc rchunk (by rw [hpc]; rfl))
  | draw t c hpc => exact h.frame rfl (proj_setPc rchunk (by rw [hpc]; rfl))
  | load t c id hpc => exact h.frame rfl (proj_setPc rchunk (by rw [hpc]; rfl))
  | storeAcc t c id seen hpc => exact h.frame rfl (proj_setPc rchunk (by rw [hpc]; rfl))
  | writeA t c id hpc => exact h.frame rfl (proj_setPc rchunk (by rw [hpc]; rfl))
  | writeB t c id hpc => exact h.frame rfl (proj_setPc rchunk (by rw [hpc]; rfl))
  | emit t c id hpc => exact h.frame rfl (proj_setPc rchunk (by rw [hpc]; rfl))
  | release t c id hpc => exact h.frame rfl (proj_setPc rchunk (by rw [hpc]; rfl))
  | rreadA t c hpc => exact h.frame rfl (proj_setPc rchunk (by rw [hpc]; rfl))
  | rreadB t c a hpc => exact h.frame rfl (proj_setPc rchunk (by rw [hpc]; rfl))

theorem reach_invRM {cfg : ProtoCfg} {merge : Nat → Nat → Nat} {w0 w : W} (hi : Init w0)
    (hr : Reach cfg merge w0 w) : InvRM w := by
  induction hr with
  | refl => exact init_invRM hi
  | step _ hs ih => exact step_invRM ih hs

/-! ### enabledness -/

/-- thread `t` has an enabled step: some step of the machine changes its program counter
    (every `Step` constructor changes the pc of exactly the acting thread: `step_actor`) -/
def Moves (cfg : ProtoCfg) (merge : Nat → Nat → Nat) (w : W) (t : Nat) : Prop :=
  ∃ w', Step cfg merge w w' ∧ w'.pc t ≠ w.pc t

/-- a step changes the pc of exactly one thread, and the `todo` of no other thread -/
theorem step_actor {cfg : ProtoCfg} {merge : Nat → Nat → Nat} {w w' : W} (hs : Step cfg merge w w') :
    ∃ t, w'.pc t ≠ w.pc t ∧ ∀ u, u ≠ t → w'.pc u = w.pc u ∧ w'.todo u = w.todo u := by
  cases hs with
  | begin t c rest hpc htodo hc =>
    exact ⟨t, by simp [setPc, hpc], fun u hu => ⟨setPc_ne w _ hu, rfl⟩⟩
  | beginEarlyId t c rest hpc htodo hc =>
    exact ⟨t, by simp [setPc, hpc], fun u hu => ⟨setPc_ne w _ hu, rfl⟩⟩
  | acquire t c id hpc hh hrd =>
    exact ⟨t, by simp [setPc, hpc], fun u hu => ⟨setPc_ne w _ hu, rfl⟩⟩
  | draw t c hpc =>
    exact ⟨t, by simp [setPc, hpc], fun u hu => ⟨setPc_ne w _ hu, rfl⟩⟩
  | load t c id hpc =>
    exact ⟨t, by simp [setPc, hpc], fun u hu => ⟨setPc_ne w _ hu, rfl⟩⟩
  | storeAcc t c id seen hpc =>
    exact ⟨t, by simp [setPc, hpc], fun u hu => ⟨setPc_ne w _ hu, rfl⟩⟩
  | writeA t c id hpc =>
    exact ⟨t, by simp [setPc, hpc], fun u hu => ⟨setPc_ne w _ hu, rfl⟩⟩
  | writeB t c id hpc =>
    exact ⟨t, by simp [setPc, hpc], fun u hu => ⟨setPc_ne w _ hu, rfl⟩⟩
  | emit t c id hpc =>
    exact ⟨t, by simp [setPc, hpc], fun u hu => ⟨setPc_ne w _ hu, rfl⟩⟩
  | release t c id hpc =>
    exact ⟨t, by simp [setPc, hpc], fun u hu => ⟨setPc_ne w _ hu, by simp [hu]⟩⟩
  | racquire t c hpc htodo hh =>
    exact ⟨t, by simp [setPc, hpc], fun u hu => ⟨setPc_ne w _ hu, rfl⟩⟩
  | rreadA t c hpc =>
    exact ⟨t, by simp [setPc, hpc], fun u hu => ⟨setPc_ne w _ hu, rfl⟩⟩
  | rreadB t c a hpc =>
    exact ⟨t, by simp [setPc, hpc], fun u hu => ⟨setPc_ne w _ hu, rfl⟩⟩
  | rrelease t c a b hpc =>
    exact ⟨t, by simp [setPc, hpc], fun u hu => ⟨setPc_ne w _ hu, rfl⟩⟩

/-- inside a write-latch section every step is unconditionally enabled -/
theorem wsection_moves {cfg : ProtoCfg} {merge : Nat → Nat → Nat} {w : W} {t c : Nat}
    (h : wchunk (w.pc t) = some c) : Moves cfg merge w t := by
  cases hp : w.pc t with
  | idle => rw [hp] at h; simp [wchunk] at h
  | pre d id => rw [hp] at h; simp [wchunk] at h
  | rheld d => rw [hp] at h; simp [wchunk] at h
  | readA d a => rw [hp] at h; simp [wchunk] at h
  | readAB d a b => rw [hp] at h; simp [wchunk] at h
  | held d id =>
    cases id with
    | none => exact ⟨_, Step.draw w t d hp, by simp [setPc, hp]⟩
    | some id => exact ⟨_, Step.load w t d id hp, by simp [setPc, hp]⟩
  | loaded d id seen => exact ⟨_, Step.storeAcc w t d id seen hp, by simp [setPc, hp]⟩
  | wroteAcc d id => exact ⟨_, Step.writeA w t d id hp, by simp [setPc, hp]⟩
  | wroteA d id => exact ⟨_, Step.writeB w t d id hp, by simp [setPc, hp]⟩
  | wroteB d id => exact ⟨_, Step.emit w t d id hp, by simp [setPc, hp]⟩
  | emitted d id => exact ⟨_, Step.release w t d id hp, by simp [setPc, hp]⟩

/-- inside a read-latch section every step is unconditionally enabled -/
theorem rsection_moves {cfg : ProtoCfg} {merge : Nat → Nat → Nat} {w : W} {t c : Nat}
    (h : rchunk (w.pc t) = some c) : Moves cfg merge w t := by
  cases hp : w.pc t with
  | rheld d => exact ⟨_, Step.rreadA w t d hp, by simp [setPc, hp]⟩
  | readA d a => exact ⟨_, Step.rreadB w t d a hp, by simp [setPc, hp]⟩
  | readAB d a b => exact ⟨_, Step.rrelease w t d a b hp, by simp [setPc, hp]⟩
  | _ => rw [hp] at h; simp [rchunk] at h

/-- an idle thread with a dirty chunk left can begin -/
theorem idle_moves {cfg : ProtoCfg} {merge : Nat → Nat → Nat} {w : W} {t : Nat}
    (hp : w.pc t = .idle) (ht : w.todo t ≠ []) : Moves cfg merge w t := by
  cases hl : w.todo t with
  | nil => exact absurd hl ht
  | cons c rest =>
    cases hc : cfg.idInsideLatch with
    | true => exact ⟨_, Step.begin w t c rest hp hl hc, by simp [setPc, hp]⟩
    | false => exact ⟨_, Step.beginEarlyId w t c rest hp hl hc, by simp [setPc, hp]⟩

/-- an idle thread with nothing to commit can always start a read of a free chunk -/
theorem idle_reader_moves {cfg : ProtoCfg} {merge : Nat → Nat → Nat} {w : W} {t c : Nat}
    (hp : w.pc t = .idle) (ht : w.todo t = []) (hh : w.holder c = none) : Moves cfg merge w t :=
  ⟨_, Step.racquire w t c hp ht hh, by simp [setPc, hp]⟩

/-- a thread waiting for a latch moves iff the latch is free: `acquire` is its only step -/
theorem moves_pre_iff {cfg : ProtoCfg} {merge : Nat → Nat → Nat} {w : W} {t c : Nat} {id : Option Nat}
    (hp : w.pc t = .pre c id) :
    Moves cfg merge w t ↔ (w.holder c = none ∧ w.readers c = []) := by
  constructor
  · rintro ⟨w', hs, hne⟩
    cases hs <;> simp only [setPc] at hne <;> split at hne <;> simp_all
  · rintro ⟨hh, hr⟩
    exact ⟨_, Step.acquire w t c id hp hh hr, by simp [setPc, hp]⟩

/-! ### termination measure -/

/-- own steps of a thread until it is idle again -/
def rem : PC → Nat
  | .idle => 0
  | .pre _ none => 8
  | .pre _ (some _) => 7
  | .held _ none => 7
  | .held _ (some _) => 6
  | .loaded _ _ _ => 5
  | .wroteAcc _ _ => 4
  | .wroteA _ _ => 3
  | .wroteB _ _ => 2
  | .emitted _ _ => 1
  | .rheld _ => 3
  | .readA _ _ => 2
  | .readAB _ _ _ => 1

/-- 1 while the head of `todo` is being committed (from `begin` to `release`; the chunk is popped
    from `todo` only by `release`) -/
def busy : PC → Nat
  | .pre _ _ => 1
  | .held _ _ => 1
  | .loaded _ _ _ => 1
  | .wroteAcc _ _ => 1
  | .wroteA _ _ => 1
  | .wroteB _ _ => 1
  | .emitted _ _ => 1
  | _ => 0

/-- per-thread measure: 9 own steps for every chunk not yet begun (`begin` + 8 steps from `pre` to
    idle) + the steps left in the current section -/
def tmu (w : W) (t : Nat) : Nat := 9 * ((w.todo t).length - busy (w.pc t)) + rem (w.pc t)

/-- the measure of a finite set of threads -/
def mu (ts : List Nat) (w : W) : Nat := (ts.map (tmu w)).sum

theorem tmu_congr {w w' : W} {u : Nat} (hp : w'.pc u = w.pc u) (ht : w'.todo u = w.todo u) :
    tmu w' u = tmu w u := by
  unfold tmu; rw [hp, ht]

/-- what one step does to the per-thread measures: exactly one thread `t` moves; every other thread
    keeps its pc and its measure; the step is either a reader entering (`t` arrives at `rheld`, +3) or
    it decreases the measure of `t` — by exactly 1 when ids are drawn inside the latch -/
theorem step_tmu {cfg : ProtoCfg} {merge : Nat → Nat → Nat} {w0 w w' : W} (hT : InvT w0 w)
    (hs : Step cfg merge w w') :
    ∃ t, w'.pc t ≠ w.pc t ∧ (∀ u, u ≠ t → w'.pc u = w.pc u ∧ tmu w' u = tmu w u) ∧
      (((∃ c, w'.pc t = .rheld c) ∧ tmu w' t = tmu w t + 3) ∨
       ((∀ c, w'.pc t ≠ .rheld c) ∧ tmu w' t + 1 ≤ tmu w t ∧
          (cfg.idInsideLatch = true → tmu w' t + 1 = tmu w t))) := by
  obtain ⟨a, hch, hoth⟩ := step_actor hs
  have hoth' : ∀ u, u ≠ a → w'.pc u = w.pc u ∧ tmu w' u = tmu w u :=
    fun u hu => ⟨(hoth u hu).1, tmu_congr (hoth u hu).1 (hoth u hu).2⟩
  have key : ∀ t, w'.pc t ≠ w.pc t →
      (((∃ c, w'.pc t = .rheld c) ∧ tmu w' t = tmu w t + 3) ∨
       ((∀ c, w'.pc t ≠ .rheld c) ∧ tmu w' t + 1 ≤ tmu w t ∧
          (cfg.idInsideLatch = true → tmu w' t + 1 = tmu w t))) →
      ∃ t, w'.pc t ≠ w.pc t ∧ (∀ u, u ≠ t → w'.pc u = w.pc u ∧ tmu w' u = tmu w u) ∧
      (((∃ c, w'.pc t = .rheld c) ∧ tmu w' t = tmu w t + 3) ∨
       ((∀ c, w'.pc t ≠ .rheld c) ∧ tmu w' t + 1 ≤ tmu w t ∧
          (cfg.idInsideLatch = true → tmu w' t + 1 = tmu w t))) := by
    intro t ht hcase
    have : t = a := Classical.byContradiction fun hne => ht (hoth t hne).1
    subst this
    exact ⟨t, ht, hoth', hcase⟩
  clear hch hoth hoth'
  cases hs with
  | begin t c rest hpc htodo hc =>
    refine key t (by simp [setPc, hpc]) (Or.inr ⟨by simp [setPc], ?_⟩)
    simp [tmu, setPc, hpc, htodo, rem, busy]; omega
  | beginEarlyId t c rest hpc htodo hc =>
    refine key t (by simp [setPc, hpc]) (Or.inr ⟨by simp [setPc], ?_⟩)
    simp [tmu, setPc, hpc, htodo, rem, busy, hc]; omega
  | acquire t c id hpc hh hrd =>
    refine key t (by simp [setPc, hpc]) (Or.inr ⟨by simp [setPc], ?_⟩)
    cases id <;> simp [tmu, setPc, hpc, rem, busy] <;> omega
  | draw t c hpc =>
    refine key t (by simp [setPc, hpc]) (Or.inr ⟨by simp [setPc], ?_⟩)
    simp [tmu, setPc, hpc, rem, busy]
  | load t c id hpc =>
    refine key t (by simp [setPc, hpc]) (Or.inr ⟨by simp [setPc], ?_⟩)
    simp [tmu, setPc, hpc, rem, busy]
  | storeAcc t c id seen hpc =>
    refine key t (by simp [setPc, hpc]) (Or.inr ⟨by simp [setPc], ?_⟩)
    simp [tmu, setPc, hpc, rem, busy]
  | writeA t c id hpc =>
    refine key t (by simp [setPc, hpc]) (Or.inr ⟨by simp [setPc], ?_⟩)
    simp [tmu, setPc, hpc, rem, busy]
  | writeB t c id hpc =>
    refine key t (by simp [setPc, hpc]) (Or.inr ⟨by simp [setPc], ?_⟩)
    simp [tmu, setPc, hpc, rem, busy]
  | emit t c id hpc =>
    refine key t (by simp [setPc, hpc]) (Or.inr ⟨by simp [setPc], ?_⟩)
    simp [tmu, setPc, hpc, rem, busy]
  | release t c id hpc =>
    obtain ⟨rest, hrest⟩ := hT.head t c (by rw [hpc]; rfl)
    refine key t (by simp [setPc, hpc]) (Or.inr ⟨by simp [setPc], ?_⟩)
    simp [tmu, setPc, hpc, hrest, rem, busy]
  | racquire t c hpc htodo hh =>
    refine key t (by simp [setPc, hpc]) (Or.inl ⟨⟨c, by simp [setPc]⟩, ?_⟩)
    simp [tmu, setPc, hpc, htodo, rem, busy]
  | rreadA t c hpc =>
    refine key t (by simp [setPc, hpc]) (Or.inr ⟨by simp [setPc], ?_⟩)
    simp [tmu, setPc, hpc, rem, busy]
  | rreadB t c a hpc =>
    refine key t (by simp [setPc, hpc]) (Or.inr ⟨by simp [setPc], ?_⟩)
    simp [tmu, setPc, hpc, rem, busy]
  | rrelease t c a b hpc =>
    refine key t (by simp [setPc, hpc]) (Or.inr ⟨by simp [setPc], ?_⟩)
    simp [tmu, setPc, hpc, rem, busy]

/-! ### step-counting runs -/

/-- A run from `w0` in which the steps of the threads in `ts` are counted:
    `n` = steps taken by threads in `ts`, `r` = how many of them are `racquire` (a reader entering),
    `k` = steps taken by other threads. The acting thread of a step is the one whose pc changes
    (`step_actor`); a step that moves a thread to `rheld c` is `racquire`. -/
inductive RunC (cfg : ProtoCfg) (merge : Nat → Nat → Nat) (ts : List Nat) (w0 : W) :
    Nat → Nat → Nat → W → Prop
  | refl : RunC cfg merge ts w0 0 0 0 w0
  | other {n r k w w'} : RunC cfg merge ts w0 n r k w → Step cfg merge w w' →
      (∀ t ∈ ts, w'.pc t = w.pc t) → RunC cfg merge ts w0 n r (k + 1) w'
  | work {n r k w w' t} : RunC cfg merge ts w0 n r k w → Step cfg merge w w' → t ∈ ts →
      w'.pc t ≠ w.pc t → (∀ c, w'.pc t ≠ .rheld c) → RunC cfg merge ts w0 (n + 1) r k w'
  | read {n r k w w' t c} : RunC cfg merge ts w0 n r k w → Step cfg merge w w' → t ∈ ts →
      w'.pc t ≠ w.pc t → w'.pc t = .rheld c → RunC cfg merge ts w0 (n + 1) (r + 1) k w'

theorem RunC.reach {cfg : ProtoCfg} {merge : Nat → Nat → Nat} {ts : List Nat} {w0 w : W} {n r k : Nat}
    (h : RunC cfg merge ts w0 n r k w) : Reach cfg merge w0 w := by
  induction h with
  | refl => exact Reach.refl
  | other _ hs _ ih => exact Reach.step ih hs
  | work _ hs _ _ _ ih => exact Reach.step ih hs
  | read _ hs _ _ _ ih => exact Reach.step ih hs

/-- every run can be counted (for every choice of `ts`) -/
theorem reach_runC {cfg : ProtoCfg} {merge : Nat → Nat → Nat} (ts : List Nat) {w0 w : W}
    (h : Reach cfg merge w0 w) : ∃ n r k, RunC cfg merge ts w0 n r k w := by
  induction h with
  | refl => exact ⟨0, 0, 0, RunC.refl⟩
  | @step w w' _ hs ih =>
    obtain ⟨n, r, k, hrun⟩ := ih
    obtain ⟨t, hch, hoth⟩ := step_actor hs
    by_cases hm : t ∈ ts
    · by_cases hr : ∃ c, w'.pc t = .rheld c
      · obtain ⟨c, hc⟩ := hr
        exact ⟨n + 1, r + 1, k, RunC.read hrun hs hm hch hc⟩
      · exact ⟨n + 1, r, k, RunC.work hrun hs hm hch (fun c hc => hr ⟨c, hc⟩)⟩
    · refine ⟨n, r, k + 1, RunC.other hrun hs (fun u hu => (hoth u ?_).1)⟩
      rintro rfl; exact hm hu

/-- the reader entries are among the counted steps (the length of the run is `n + k`) -/
theorem RunC.reads_le {cfg : ProtoCfg} {merge : Nat → Nat → Nat} {ts : List Nat} {w0 w : W} {n r k : Nat}
    (h : RunC cfg merge ts w0 n r k w) : r ≤ n := by
  induction h with
  | refl => exact Nat.le_refl _
  | other _ _ _ ih => exact ih
  | work _ _ _ _ _ ih => omega
  | read _ _ _ _ _ ih => omega

theorem mu_init {w : W} (hi : Init w) (ts : List Nat) :
    mu ts w = 9 * (ts.map (fun t => (w.todo t).length)).sum := by
  unfold mu
  induction ts with
  | nil => rfl
  | cons a l ih =>
    simp only [List.map_cons, List.sum_cons, ih]
    simp [tmu, hi.pc, busy, rem]; omega

theorem runC_measure {cfg : ProtoCfg} {merge : Nat → Nat → Nat} {ts : List Nat} {w0 w : W}
    {n r k : Nat} (hi : Init w0) (hts : ts.Nodup) (h : RunC cfg merge ts w0 n r k w) :
    n + mu ts w ≤ mu ts w0 + 4 * r ∧
      (cfg.idInsideLatch = true → n + mu ts w = mu ts w0 + 4 * r) := by
  induction h with
  | refl => exact ⟨by omega, fun _ => by omega⟩
  | @other n r k w w' hrun hs hsame ih =>
    obtain ⟨a, hch, hoth, _⟩ := step_tmu (reach_inv hi hrun.reach).todo hs
    have ha : a ∉ ts := fun hm => hch (hsame a hm)
    have : mu ts w' = mu ts w :=
      sum_map_congr (fun u hu => (hoth u (by rintro rfl; exact ha hu)).2)
    rw [this]; exact ih
  | @work n r k w w' t hrun hs hm hne hnr ih =>
    obtain ⟨a, hch, hoth, hcase⟩ := step_tmu (reach_inv hi hrun.reach).todo hs
    have hat : t = a := Classical.byContradiction fun hne' => hne (hoth t hne').1
    subst hat
    have hsum := sum_map_update (f := tmu w) (g := tmu w') (fun u hu => (hoth u hu).2) ts hts hm
    rcases hcase with ⟨⟨c, hc⟩, _⟩ | ⟨_, hle, heq⟩
    · exact absurd hc (hnr c)
    · unfold mu at *
      refine ⟨by omega, fun hc => ?_⟩
      have := heq hc; have := ih.2 hc; omega
  | @read n r k w w' t c hrun hs hm hne hc ih =>
    obtain ⟨a, hch, hoth, hcase⟩ := step_tmu (reach_inv hi hrun.reach).todo hs
    have hat : t = a := Classical.byContradiction fun hne' => hne (hoth t hne').1
    subst hat
    have hsum := sum_map_update (f := tmu w) (g := tmu w') (fun u hu => (hoth u hu).2) ts hts hm
    rcases hcase with ⟨_, heq⟩ | ⟨hnr, _⟩
    · unfold mu at *
      refine ⟨by omega, fun hc => ?_⟩
      have := ih.2 hc; omega
    · exact absurd hc (hnr c)

end ColumnVerif.Conc

/-! ## B. the snapshot machine -/

namespace ColumnVerif.Conc.Snap
open ColumnVerif.Progress

/-! ### a writer that is not idle has a non-empty `todo` -/

structure InvTodo (w : W) : Prop where
  head : ∀ t, w.pc t ≠ .idle → w.todo t ≠ []

theorem init_invTodo {w : W} (hi : Init w) : InvTodo w :=
  ⟨fun t h => absurd (hi.pc t) h⟩

theorem step_invTodo {w w' : W} (h : InvTodo w) (hs : Step w w') : InvTodo w' := by
  obtain ⟨h1⟩ := h
  cases hs <;> constructor <;> intro u hu <;> simp only [setPc] at * <;> grind

theorem reach_invTodo {w0 w : W} (hi : Init w0) (hr : Reach w0 w) : InvTodo w := by
  induction hr with
  | refl => exact init_invTodo hi
  | step _ hs ih => exact step_invTodo ih hs

/-! ### enabledness -/

/-- writer `t` has an enabled step: some step of the machine changes its program counter -/
def Moves (w : W) (t : Nat) : Prop := ∃ w', Step w w' ∧ w'.pc t ≠ w.pc t

/-- the snapshot thread has an enabled step -/
def SMoves (w : W) : Prop := ∃ w', Step w w' ∧ w'.spc ≠ w.spc

/-- a step is either the step of exactly one writer (the snapshot thread does not move) or a step
    of the snapshot thread (no writer moves) -/
theorem step_actor {w w' : W} (hs : Step w w') :
    (∃ t, w'.pc t ≠ w.pc t ∧ w'.spc = w.spc ∧
        ∀ u, u ≠ t → w'.pc u = w.pc u ∧ w'.todo u = w.todo u) ∨
    (w'.spc ≠ w.spc ∧ w'.pc = w.pc ∧ w'.todo = w.todo) := by
  cases hs with
  | begin t c rest hpc htodo =>
    exact Or.inl ⟨t, by simp [setPc, hpc], rfl, fun u hu => ⟨setPc_ne w _ hu, rfl⟩⟩
  | acquire t c hpc hh =>
    exact Or.inl ⟨t, by simp [setPc, hpc], rfl, fun u hu => ⟨setPc_ne w _ hu, rfl⟩⟩
  | draw t c hpc =>
    exact Or.inl ⟨t, by simp [setPc, hpc], rfl, fun u hu => ⟨setPc_ne w _ hu, rfl⟩⟩
  | apply t c id hpc =>
    exact Or.inl ⟨t, by simp [setPc, hpc], rfl, fun u hu => ⟨setPc_ne w _ hu, rfl⟩⟩
  | loadRecorder t c id hpc =>
    exact Or.inl ⟨t, by simp [setPc, hpc], rfl, fun u hu => ⟨setPc_ne w _ hu, rfl⟩⟩
  | appendLog t c id hpc =>
    exact Or.inl ⟨t, by simp [setPc, hpc], rfl, fun u hu => ⟨setPc_ne w _ hu, rfl⟩⟩
  | skipLog t c id hpc =>
    exact Or.inl ⟨t, by simp [setPc, hpc], rfl, fun u hu => ⟨setPc_ne w _ hu, rfl⟩⟩
  | release t c id hpc =>
    exact Or.inl ⟨t, by simp [setPc, hpc], rfl, fun u hu => ⟨setPc_ne w _ hu, by simp [hu]⟩⟩
  | sOpen chunks hspc => exact Or.inr ⟨by simp [hspc], rfl, rfl⟩
  | sRead c rest hspc hh => exact Or.inr ⟨by simp [hspc], rfl, rfl⟩
  | sClose hspc => exact Or.inr ⟨by simp [hspc], rfl, rfl⟩
  | sCopy hspc => exact Or.inr ⟨by simp [hspc], rfl, rfl⟩

/-- inside the latch section every step is unconditionally enabled -/
theorem latch_moves {w : W} {t c : Nat} (h : InLatch (w.pc t) c) : Moves w t := by
  cases hp : w.pc t with
  | idle => rw [hp] at h; simp [InLatch, latchChunk] at h
  | pre d => rw [hp] at h; simp [InLatch, latchChunk] at h
  | held d => exact ⟨_, Step.draw w t d hp, by simp [setPc, hp]⟩
  | drawn d id => exact ⟨_, Step.apply w t d id hp, by simp [setPc, hp]⟩
  | applied d id => exact ⟨_, Step.loadRecorder w t d id hp, by simp [setPc, hp]⟩
  | sawRecorder d id on =>
    cases on with
    | true => exact ⟨_, Step.appendLog w t d id hp, by simp [setPc, hp]⟩
    | false => exact ⟨_, Step.skipLog w t d id hp, by simp [setPc, hp]⟩
  | recorded d id => exact ⟨_, Step.release w t d id hp, by simp [setPc, hp]⟩

theorem idle_moves {w : W} {t : Nat} (hp : w.pc t = .idle) (ht : w.todo t ≠ []) : Moves w t := by
  cases hl : w.todo t with
  | nil => exact absurd hl ht
  | cons c rest => exact ⟨_, Step.begin w t c rest hp hl, by simp [setPc, hp]⟩

/-- a writer waiting for a latch moves iff the latch is free: `acquire` is its only step -/
theorem moves_pre_iff {w : W} {t c : Nat} (hp : w.pc t = .pre c) :
    Moves w t ↔ w.holder c = none := by
  constructor
  · rintro ⟨w', hs, hne⟩
    cases hs <;> first | exact absurd rfl hne | (simp only [setPc] at hne; split at hne <;> simp_all)
  · intro hh
    exact ⟨_, Step.acquire w t c hp hh, by simp [setPc, hp]⟩

/-- the snapshot thread about to read chunk `c` moves iff no writer holds `c` -/
theorem smoves_opened_iff {w : W} {c : Nat} {rest : List Nat} (hp : w.spc = .opened (c :: rest)) :
    SMoves w ↔ w.holder c = none := by
  constructor
  · rintro ⟨w', hs, hne⟩
    cases hs <;> simp_all
  · intro hh
    exact ⟨_, Step.sRead w c rest hp hh, by simp [hp]⟩

/-- in every other state before `copied` the snapshot thread is unconditionally enabled -/
theorem smoves_of_not_reading {w : W} (hc : w.spc ≠ .copied) (hr : ∀ c rest, w.spc ≠ .opened (c :: rest)) :
    SMoves w := by
  cases hp : w.spc with
  | notStarted => exact ⟨_, Step.sOpen w [] hp, by simp [hp]⟩
  | opened todo =>
    cases todo with
    | nil => exact ⟨_, Step.sClose w hp, by simp [hp]⟩
    | cons c rest => exact absurd hp (hr c rest)
  | closed => exact ⟨_, Step.sCopy w hp, by simp [hp]⟩
  | copied => exact absurd hp hc

/-! ### termination measure -/

/-- own steps of a writer until it is idle again -/
def rem : WPC → Nat
  | .idle => 0
  | .pre _ => 6
  | .held _ => 5
  | .drawn _ _ => 4
  | .applied _ _ => 3
  | .sawRecorder _ _ _ => 2
  | .recorded _ _ => 1

/-- 1 while the head of `todo` is being committed (from `begin` to `release`) -/
def busy : WPC → Nat
  | .idle => 0
  | _ => 1

/-- per-writer measure: 7 own steps for every chunk not yet begun + the steps left in the current one -/
def tmu (w : W) (t : Nat) : Nat := 7 * ((w.todo t).length - busy (w.pc t)) + rem (w.pc t)

/-- own steps of the snapshot thread until `copied` (0 before `sOpen`: the chunk list is chosen there) -/
def srem : SPC → Nat
  | .notStarted => 0
  | .opened todo => todo.length + 2
  | .closed => 1
  | .copied => 0

def mu (ts : List Nat) (w : W) : Nat := (ts.map (tmu w)).sum + srem w.spc

theorem tmu_congr {w w' : W} {u : Nat} (hp : w'.pc u = w.pc u) (ht : w'.todo u = w.todo u) :
    tmu w' u = tmu w u := by
  unfold tmu; rw [hp, ht]

/-- what one step does to the measures: either exactly one writer moves and its measure drops by
    exactly 1, or the snapshot thread moves: `sOpen chunks` (from `notStarted`) sets its measure to
    `chunks.length + 2`, every other snapshot step drops it by exactly 1 -/
theorem step_tmu {w w' : W} (hT : InvTodo w) (hs : Step w w') :
    (∃ t, w'.pc t ≠ w.pc t ∧ w'.spc = w.spc ∧
        (∀ u, u ≠ t → w'.pc u = w.pc u ∧ tmu w' u = tmu w u) ∧ tmu w' t + 1 = tmu w t) ∨
    ((∀ u, w'.pc u = w.pc u ∧ tmu w' u = tmu w u) ∧ w'.spc ≠ w.spc ∧
        ((w.spc = .notStarted ∧ ∃ chunks, w'.spc = .opened chunks) ∨
         (w.spc ≠ .notStarted ∧ srem w'.spc + 1 = srem w.spc))) := by
  rcases step_actor hs with ⟨a, hch, hspc, hoth⟩ | ⟨hspc, hpc, htodo⟩
  · left
    have hoth' : ∀ u, u ≠ a → w'.pc u = w.pc u ∧ tmu w' u = tmu w u :=
      fun u hu => ⟨(hoth u hu).1, tmu_congr (hoth u hu).1 (hoth u hu).2⟩
    have key : ∀ t, w'.pc t ≠ w.pc t → tmu w' t + 1 = tmu w t →
        ∃ t, w'.pc t ≠ w.pc t ∧ w'.spc = w.spc ∧
          (∀ u, u ≠ t → w'.pc u = w.pc u ∧ tmu w' u = tmu w u) ∧ tmu w' t + 1 = tmu w t := by
      intro t ht hcase
      have : t = a := Classical.byContradiction fun hne => ht (hoth t hne).1
      subst this
      exact ⟨t, ht, hspc, hoth', hcase⟩
    clear hoth hoth'
    cases hs with
    | begin t c rest hpc htodo =>
      refine key t (by simp [setPc, hpc]) ?_
      simp [tmu, setPc, hpc, htodo, rem, busy]; omega
    | acquire t c hpc hh =>
      refine key t (by simp [setPc, hpc]) ?_
      simp [tmu, setPc, hpc, rem, busy]
    | draw t c hpc =>
      refine key t (by simp [setPc, hpc]) ?_
      simp [tmu, setPc, hpc, rem, busy]
    | apply t c id hpc =>
      refine key t (by simp [setPc, hpc]) ?_
      simp [tmu, setPc, hpc, rem, busy]
    | loadRecorder t c id hpc =>
      refine key t (by simp [setPc, hpc]) ?_
      simp [tmu, setPc, hpc, rem, busy]
    | appendLog t c id hpc =>
      refine key t (by simp [setPc, hpc]) ?_
      simp [tmu, setPc, hpc, rem, busy]
    | skipLog t c id hpc =>
      refine key t (by simp [setPc, hpc]) ?_
      simp [tmu, setPc, hpc, rem, busy]
    | release t c id hpc =>
      have hne : w.todo t ≠ [] := hT.head t (by rw [hpc]; simp)
      refine key t (by simp [setPc, hpc]) ?_
      cases hl : w.todo t with
      | nil => exact absurd hl hne
      | cons d rest => simp [tmu, setPc, hpc, hl, rem, busy]
    | sOpen chunks hs' => exact absurd hspc (by simp [hs'])
    | sRead c rest hs' hh => exact absurd hspc (by simp [hs'])
    | sClose hs' => exact absurd hspc (by simp [hs'])
    | sCopy hs' => exact absurd hspc (by simp [hs'])
  · right
    refine ⟨fun u => ⟨by rw [hpc], tmu_congr (by rw [hpc]) (by rw [htodo])⟩, hspc, ?_⟩
    cases hs with
    | sOpen chunks hs' => exact Or.inl ⟨hs', chunks, rfl⟩
    | sRead c rest hs' hh => exact Or.inr ⟨by simp [hs'], by simp [hs', srem]⟩
    | sClose hs' => exact Or.inr ⟨by simp [hs'], by simp [hs', srem]⟩
    | sCopy hs' => exact Or.inr ⟨by simp [hs'], by simp [hs', srem]⟩
    | begin t c rest hp _ => exact absurd (congrFun hpc t) (by simp [setPc, hp])
    | acquire t c hp _ => exact absurd (congrFun hpc t) (by simp [setPc, hp])
    | draw t c hp => exact absurd (congrFun hpc t) (by simp [setPc, hp])
    | apply t c id hp => exact absurd (congrFun hpc t) (by simp [setPc, hp])
    | loadRecorder t c id hp => exact absurd (congrFun hpc t) (by simp [setPc, hp])
    | appendLog t c id hp => exact absurd (congrFun hpc t) (by simp [setPc, hp])
    | skipLog t c id hp => exact absurd (congrFun hpc t) (by simp [setPc, hp])
    | release t c id hp => exact absurd (congrFun hpc t) (by simp [setPc, hp])

/-! ### step-counting runs -/

/-- A run from `w0` in which the steps of the writers in `ts` and of the snapshot thread are counted:
    `n` = counted steps, `k` = steps of other writers, `b` = the budget the snapshot thread was given:
    `sOpen chunks` adds `chunks.length + 3` (the `sOpen` itself, one `sRead` per chunk, `sClose`,
    `sCopy`). -/
inductive RunC (ts : List Nat) (w0 : W) : Nat → Nat → Nat → W → Prop
  | refl : RunC ts w0 0 0 0 w0
  | other {n b k w w'} : RunC ts w0 n b k w → Step w w' → (∀ t ∈ ts, w'.pc t = w.pc t) →
      w'.spc = w.spc → RunC ts w0 n b (k + 1) w'
  | writer {n b k w w' t} : RunC ts w0 n b k w → Step w w' → t ∈ ts → w'.pc t ≠ w.pc t →
      RunC ts w0 (n + 1) b k w'
  | sopen {n b k w w' chunks} : RunC ts w0 n b k w → Step w w' → w.spc = .notStarted →
      w'.spc = .opened chunks → RunC ts w0 (n + 1) (b + (chunks.length + 3)) k w'
  | snap {n b k w w'} : RunC ts w0 n b k w → Step w w' → w.spc ≠ .notStarted → w'.spc ≠ w.spc →
      RunC ts w0 (n + 1) b k w'

theorem RunC.reach {ts : List Nat} {w0 w : W} {n b k : Nat} (h : RunC ts w0 n b k w) : Reach w0 w := by
  induction h with
  | refl => exact Reach.refl
  | other _ hs _ _ ih => exact Reach.step ih hs
  | writer _ hs _ _ ih => exact Reach.step ih hs
  | sopen _ hs _ _ ih => exact Reach.step ih hs
  | snap _ hs _ _ ih => exact Reach.step ih hs

theorem step_from_notStarted {w w' : W} (hs : Step w w') (hn : w.spc = .notStarted)
    (hne : w'.spc ≠ w.spc) : ∃ chunks, w'.spc = .opened chunks := by
  cases hs <;> simp_all

/-- every run can be counted (for every choice of `ts`) -/
theorem reach_runC (ts : List Nat) {w0 w : W} (h : Reach w0 w) : ∃ n b k, RunC ts w0 n b k w := by
  induction h with
  | refl => exact ⟨0, 0, 0, RunC.refl⟩
  | @step w w' hr hs ih =>
    obtain ⟨n, b, k, hrun⟩ := ih
    rcases step_actor hs with ⟨t, hch, hspc, hoth⟩ | ⟨hspc, hpc, htodo⟩
    · by_cases hm : t ∈ ts
      · exact ⟨n + 1, b, k, RunC.writer hrun hs hm hch⟩
      · refine ⟨n, b, k + 1, RunC.other hrun hs (fun u hu => (hoth u ?_).1) hspc⟩
        rintro rfl; exact hm hu
    · by_cases hns : w.spc = .notStarted
      · obtain ⟨chunks, hc⟩ := step_from_notStarted hs hns hspc
        exact ⟨n + 1, b + (chunks.length + 3), k, RunC.sopen hrun hs hns hc⟩
      · exact ⟨n + 1, b, k, RunC.snap hrun hs hns hspc⟩

theorem mu_init {w : W} (hi : Init w) (ts : List Nat) :
    mu ts w = 7 * (ts.map (fun t => (w.todo t).length)).sum := by
  unfold mu
  rw [hi.spc]
  simp only [srem, Nat.add_zero]
  induction ts with
  | nil => rfl
  | cons a l ih =>
    simp only [List.map_cons, List.sum_cons, ih]
    simp [tmu, hi.pc, busy, rem]; omega

/-- counted steps + what is left = what there was to do + the snapshot budget — exactly -/
theorem runC_measure {ts : List Nat} {w0 w : W} {n b k : Nat} (hi : Init w0) (hts : ts.Nodup)
    (h : RunC ts w0 n b k w) : n + mu ts w = mu ts w0 + b := by
  induction h with
  | refl => omega
  | @other n b k w w' hrun hs hsame hspc' ih =>
    have : mu ts w' = mu ts w := by
      unfold mu; rw [hspc']
      rcases step_tmu (reach_invTodo hi hrun.reach) hs with ⟨a, hch, _, hoth, _⟩ | ⟨hall, _, _⟩
      · have ha : a ∉ ts := fun hm => hch (hsame a hm)
        rw [sum_map_congr (fun u hu => (hoth u (by rintro rfl; exact ha hu)).2)]
      · rw [sum_map_congr (fun u _ => (hall u).2)]
    rw [this]; exact ih
  | @writer n b k w w' t hrun hs hm hne ih =>
    rcases step_tmu (reach_invTodo hi hrun.reach) hs with ⟨a, hch, hspc, hoth, hdec⟩ | ⟨hall, _, _⟩
    · have hat : t = a := Classical.byContradiction fun hne' => hne (hoth t hne').1
      subst hat
      have hsum := sum_map_update (f := tmu w) (g := tmu w') (fun u hu => (hoth u hu).2) ts hts hm
      unfold mu at *; rw [hspc]; omega
    · exact absurd (hall t).1 hne
  | @sopen n b k w w' chunks hrun hs hns hop ih =>
    rcases step_tmu (reach_invTodo hi hrun.reach) hs with ⟨a, _, hspc, _, _⟩ | ⟨hall, _, _⟩
    · rw [hns] at hspc; rw [hop] at hspc; simp at hspc
    · have : (ts.map (tmu w')).sum = (ts.map (tmu w)).sum := sum_map_congr (fun u _ => (hall u).2)
      unfold mu at *; rw [this, hop]; rw [hns] at ih; simp only [srem] at *; omega
  | @snap n b k w w' hrun hs hns hne ih =>
    rcases step_tmu (reach_invTodo hi hrun.reach) hs with ⟨a, _, hspc, _, _⟩ | ⟨hall, _, hcase⟩
    · exact absurd hspc hne
    · have : (ts.map (tmu w')).sum = (ts.map (tmu w)).sum := sum_map_congr (fun u _ => (hall u).2)
      rcases hcase with ⟨h0, _⟩ | ⟨_, hdec⟩
      · exact absurd h0 hns
      · unfold mu at *; rw [this]; omega

/-- `spc` never returns to `notStarted` -/
theorem step_spc_started {w w' : W} (hs : Step w w') (h : w.spc ≠ .notStarted) :
    w'.spc ≠ .notStarted := by
  cases hs <;> simp_all

/-- `sOpen` fires at most once: the budget is 0 before it and `chunks.length + 3` for the one chunk
    list chosen afterwards -/
theorem runC_budget {ts : List Nat} {w0 w : W} {n b k : Nat} (hi : Init w0)
    (h : RunC ts w0 n b k w) :
    (w.spc = .notStarted ∧ b = 0) ∨ (w.spc ≠ .notStarted ∧ ∃ chunks : List Nat, b = chunks.length + 3) := by
  induction h with
  | refl => exact Or.inl ⟨hi.spc, rfl⟩
  | other _ _ _ hspc ih => rw [hspc]; exact ih
  | @writer n b k w w' t hrun hs hm hne ih =>
    rcases step_actor hs with ⟨_, _, hspc, _⟩ | ⟨_, hpc, _⟩
    · rw [hspc]; exact ih
    · exact absurd (congrFun hpc t) hne
  | @sopen n b k w w' chunks hrun hs hns hop ih =>
    rcases ih with ⟨_, hb⟩ | ⟨h, _⟩
    · exact Or.inr ⟨by rw [hop]; simp, chunks, by omega⟩
    · exact absurd hns h
  | @snap n b k w w' hrun hs hns hne ih =>
    rcases ih with ⟨h, _⟩ | ⟨_, hb⟩
    · exact absurd h hns
    · exact Or.inr ⟨step_spc_started hs hns, hb⟩

end ColumnVerif.Conc.Snap
