import ColumnVerif.Lemmas.StoreCol
import ColumnVerif.Lemmas.Sorted
/-!
Store-level plumbing for the **computed columns** (bitmap index, sorted index, trigger) attached to a data column `x`:
what `Store.commit` leaves in the registry under the computed column's name, as an equality of `Col` records, in terms of
the column-level functions `applyOther` (computed column) and `applyData` (its target) alone.

* A — `applyOther` on a computed kind: section by section = over the concatenation (`applyOther_append`, `_flatten`).
* B — what the computed pass reads after the main pass: the rewritten ops followed by the appended puts (`seenOps`,
  `applyData_ops_append`, `mpSpecG_rangeOps`, `putAll_rangeOps`, `mainPass_one_buf`, `pass_seen`).
* C — the computed pass / the marker pass on a registered computed column (`applyNamed_self`, `namesFold_findCol`,
  `computedPass_findCol`, `markCol_computed`, `markStore_comp`).
* D — `commitUpdates`, `commitChunk`, the chunk loop, `commit` (`seenFor`, `seenChunk`, `compChunks`; `cuFold_comp`,
  `commitChunk_computed`, `commitLoop_computed`, `commit_computed`).
* E — numeric target: the ops seen are `rwList` of the ops issued (`seenFor_num`, `seenChunk_num`); the index invariant
  through the chunk loop, `commitCapacity` and `commit` (`indexInv_chunks`, `indexInv_capCol`).
-/
namespace ColumnVerif.Store
open ColumnVerif.Codec ColumnVerif.Bits

/-! ## A — `applyOther` on a computed kind -/

theorem applyOther_nil (c : Col) : (applyOther c []).1 = c := by
  unfold applyOther
  split <;> rfl

theorem isData_of_isComputed {k : Kind} (h : k.isComputed = true) : k.isData = false := by
  cases k <;> first | rfl | cases h

/-- a computed column keeps its kind under `Apply` -/
theorem applyOther_isComputed (c : Col) (ops : List Op) (h : c.kind.isComputed = true) :
    (applyOther c ops).1.kind.isComputed = true := by
  rw [(applyOther_sig c ops).kind]; exact h

/-- index / trigger / sorted index: applying `a ++ b` is applying `a`, then `b` -/
theorem applyOther_append (c : Col) (hc : c.kind.isComputed = true) (a b : List Op) :
    (applyOther c (a ++ b)).1 = (applyOther (applyOther c a).1 b).1 := by
  cases hk : c.kind with
  | index t r =>
    rw [applyOther_index c t r hk (a ++ b), applyOther_index c t r hk a,
      applyOther_index _ t r ((foldIdx_same r a c).kind.trans hk), List.foldl_append]
  | trigger t =>
    rw [applyOther_trigger c t hk (a ++ b), applyOther_trigger c t hk a,
      applyOther_trigger _ t ((foldTrig_same a c).1.trans hk), List.foldl_append]
  | sorted t =>
    have hk' : (applyOther c a).1.kind = .sorted t := (applyOther_sig c a).kind.trans hk
    rw [applyOther_sorted c t hk (a ++ b), applyOther_sorted _ t hk' b, applyOther_sorted c t hk a, List.foldl_append]
  | num k => rw [hk] at hc; cases hc
  | bool => rw [hk] at hc; cases hc
  | str => rw [hk] at hc; cases hc
  | enum => rw [hk] at hc; cases hc
  | key => rw [hk] at hc; cases hc
  | record => rw [hk] at hc; cases hc

/-- … and section by section is the same as over the concatenation -/
theorem applyOther_flatten (secs : List (List Op)) (c : Col) (hc : c.kind.isComputed = true) :
    secs.foldl (fun c ops => (applyOther c ops).1) c = (applyOther c secs.flatten).1 := by
  induction secs generalizing c with
  | nil => exact (applyOther_nil c).symm
  | cons ops rest ih =>
    simp only [List.foldl_cons, List.flatten_cons]
    rw [ih _ (applyOther_isComputed c ops hc), applyOther_append c hc]

theorem applyAny_computed (hash : Bytes → Nat) (c : Col) (chunk : Nat) (ops : List Op) (hc : c.kind.isComputed = true) :
    (c.applyAny hash chunk ops).1 = (applyOther c ops).1 := by
  unfold Col.applyAny
  rw [isData_of_isComputed hc]
  rfl

/-! ## B — what the computed pass reads after the main pass -/

/-- what the computed columns of a data column receive of one buffer pass: the section(s) as rewritten in place,
    followed by the puts the pass appended through the buffer (resizing string merges) -/
def seenOps (r : Applied) : List Op := r.ops ++ r.appended

/-- every step records exactly one op in front of the ones recorded so far -/
theorem stepOf_done (hash : Bytes → Nat) (k : Kind) (acc : ApplyAcc) (o : Op) :
    (stepOf hash k acc o).2.1 = (stepOf hash k (acc.1, [], []) o).2.1 ++ acc.2.1 := by
  obtain ⟨c, done, app⟩ := acc
  cases k with
  | num nk =>
    show (stepNum nk (c, done, app) o).2.1 = (stepNum nk (c, [], []) o).2.1 ++ done
    unfold stepNum
    simp only
    split
    · rfl
    · split
      · rfl
      · split <;> rfl
  | str =>
    show (stepStr (c, done, app) o).2.1 = (stepStr (c, [], []) o).2.1 ++ done
    unfold stepStr
    simp only
    split
    · rfl
    · split
      · split <;> rfl
      · split <;> rfl
  | record =>
    show (stepStr (c, done, app) o).2.1 = (stepStr (c, [], []) o).2.1 ++ done
    unfold stepStr
    simp only
    split
    · rfl
    · split
      · split <;> rfl
      · split <;> rfl
  | enum =>
    show (stepEnum hash (c, done, app) o).2.1 = (stepEnum hash (c, [], []) o).2.1 ++ done
    unfold stepEnum
    simp only
    split
    · rfl
    · split <;> rfl
  | key =>
    show (stepKey (c, done, app) o).2.1 = (stepKey (c, [], []) o).2.1 ++ done
    unfold stepKey
    simp only
    split
    · rfl
    · split <;> rfl
  | bool => rfl
  | index t r => rfl
  | trigger t => rfl
  | sorted t => rfl

theorem foldStepOf_done (hash : Bytes → Nat) (k : Kind) (ops : List Op) (acc : ApplyAcc) :
    (ops.foldl (stepOf hash k) acc).2.1 = (ops.foldl (stepOf hash k) (acc.1, [], [])).2.1 ++ acc.2.1 := by
  induction ops generalizing acc with
  | nil => simp
  | cons o os ih =>
    simp only [List.foldl_cons]
    rw [ih (stepOf hash k acc o), ih (stepOf hash k (acc.1, [], []) o), stepOf_done hash k acc o,
      stepOf_fst hash k acc o, List.append_assoc]

theorem applyData_ops_nil (hash : Bytes → Nat) (c : Col) (chunk : Nat) : (applyData hash c chunk []).ops = [] := by
  unfold applyData
  split <;> rfl

/-- the rewritten section of `a ++ b` is the rewritten `a` followed by `b` rewritten in the state `a` leaves -/
theorem applyData_ops_append (hash : Bytes → Nat) (c : Col) (chunk : Nat) (a b : List Op) :
    (applyData hash c chunk (a ++ b)).ops =
      (applyData hash c chunk a).ops ++ (applyData hash (applyData hash c chunk a).col chunk b).ops := by
  by_cases h : chunk < c.nchunks
  · have hs := applyData_sameShape hash c chunk a
    rw [(applyData_of_lt hash c chunk (a ++ b) h).2.1,
      (applyData_of_lt hash _ chunk b (by rw [hs.nchunks]; exact h)).2.1, hs.kind,
      (applyData_of_lt hash c chunk a h).2.1, (applyData_of_lt hash c chunk a h).1, List.foldl_append, foldStepOf_done,
      List.reverse_append]
  · have h' : chunk ≥ c.nchunks := by omega
    rw [applyData_of_ge hash c chunk (a ++ b) h', applyData_of_ge hash c chunk a h', applyData_of_ge hash c chunk b h']

theorem seenOps_nil (hash : Bytes → Nat) (c : Col) (chunk : Nat) : seenOps (applyData hash c chunk []) = [] := by
  unfold seenOps
  rw [applyData_ops_nil, StorePlumb.applyData_appended_nil]
  rfl

/-- the sections of `chunk` after a pass that appends nothing, concatenated: the rewritten ops of the whole chunk -/
theorem mpSpecG_rangeOps (hash : Bytes → Nat) (chunk : Nat) (S : List Sec) (c : Col) :
    (((mpSpecG hash chunk c S).2.filter (fun s => s.chunk = chunk)).map Sec.ops).flatten =
      (applyData hash c chunk ((S.filter (fun s => s.chunk = chunk)).map Sec.ops).flatten).ops := by
  induction S generalizing c with
  | nil => exact (applyData_ops_nil hash c chunk).symm
  | cons x xs ih =>
    simp only [mpSpecG]
    by_cases h : x.chunk = chunk
    · rw [if_pos h]
      have hf : (x :: xs).filter (fun s => decide (s.chunk = chunk)) = x :: xs.filter (fun s => decide (s.chunk = chunk)) := by
        simp [h]
      rw [hf, List.map_cons, List.flatten_cons, applyData_ops_append, ← ih]
      simp [h, Sec.ops]
    · rw [if_neg h]
      have hf : (x :: xs).filter (fun s => decide (s.chunk = chunk)) = xs.filter (fun s => decide (s.chunk = chunk)) := by
        simp [h]
      rw [hf, ← ih]
      simp [h]

/-- a put lands behind everything the buffer holds for the put's chunk -/
theorem put_rangeOps_same (b : Buf) (o : Op) (h : BufOK b) :
    (b.put o).rangeOps (chunkOf o.idx) = b.rangeOps (chunkOf o.idx) ++ [o] := by
  rcases put_forms b o with ⟨s, rest, hr, hc, he⟩ | he
  · rw [he]
    have hsc : s.chunk = chunkOf o.idx := h.cur_ok s rest hr _ hc
    unfold Buf.rangeOps Buf.range Buf.secs
    simp [hr, List.filter_append, hsc, Sec.ops]
  · rw [he]
    unfold Buf.rangeOps Buf.range Buf.secs
    simp [List.filter_append, Sec.ops]

theorem putAll_rangeOps (b : Buf) (ops : List Op) (h : BufOK b) (ch : Nat) (hops : ∀ o ∈ ops, chunkOf o.idx = ch) :
    (b.putAll ops).rangeOps ch = b.rangeOps ch ++ ops := by
  induction ops generalizing b with
  | nil => simp [Buf.putAll]
  | cons o os ih =>
    rw [Buf.putAll_cons, ih _ (put_bufOK b o h) (fun x hx => hops x (by simp [hx]))]
    have := put_rangeOps_same b o h
    rw [hops o (by simp)] at this
    rw [this]
    simp

/-- the loop of `mainPass` when at most one section belongs to the chunk: a single round, at that section -/
theorem mainPass_one_eq (hash : Bytes → Nat) (col : Col) (ch : Nat) (u : Buf) (hok : BufOK u) (hone : OneSec u ch)
    (j : Nat) (sec : Sec) (hs : u.secs[j]? = some sec) (hc : sec.chunk = ch) :
    mainPass hash col ch u = mpStep hash ch (col, u, false) j := by
  have hlen : u.rsecs.length = u.secs.length := by simp [Buf.secs]
  rw [mainPass_eq, hlen]
  have hjlt : j < u.secs.length := (List.getElem?_eq_some_iff.1 hs).1
  have huniq : ∀ i b, u.secs[i]? = some b → b.chunk = ch → i = j := by
    intro i b hi hb
    exact hone i j (by rw [secs_chunks u i b hi, hb]) (by rw [secs_chunks u j sec hs, hc])
  have hsecops : ∀ o ∈ sec.ops, chunkOf o.idx = ch := by
    intro o ho
    have hm : sec ∈ u.rsecs := by
      have := List.mem_of_getElem? hs
      simpa [Buf.secs] using this
    rw [← hc]
    exact hok.chunk_ok sec hm o (by simpa [Sec.ops] using ho)
  obtain ⟨hro, hra⟩ := applyData_idx hash col ch sec.ops (fun i => chunkOf i = ch) hsecops
  obtain ⟨b1, _, _⟩ := replaced_facts u j sec ch (applyData hash col ch sec.ops).ops hs hc hro
  have hfin := mpStep_hit hash ch col u false j sec hs hc
  generalize hB : ({ u with rsecs := (replaceSec u.secs j (applyData hash col ch sec.ops).ops).reverse } : Buf) = B
    at hfin b1
  obtain ⟨k, hk⟩ := putAll_chunks B (applyData hash col ch sec.ops).appended ch hra
  rw [b1] at hk
  have hloop : ∀ m, m ≤ u.secs.length →
      (List.range m).foldl (mpStep hash ch) (col, u, false) =
        if m ≤ j then (col, u, false) else mpStep hash ch (col, u, false) j := by
    intro m
    induction m with
    | zero => intro _; simp
    | succ m ih =>
      intro hm
      rw [List.range_succ, List.foldl_append, ih (by omega)]
      simp only [List.foldl_cons, List.foldl_nil]
      by_cases h1 : m < j
      · rw [if_pos (by omega), if_pos (by omega)]
        apply mpStep_skip
        intro s0 hs0 hch
        have := huniq m s0 hs0 hch
        omega
      · by_cases h2 : m = j
        · subst h2
          rw [if_pos (Nat.le_refl _), if_neg (by omega)]
        · rw [if_neg (by omega), if_neg (by omega), hfin]
          apply mpStep_skip
          intro s0 hs0 hch
          simp only at hs0
          have h3 := secs_chunks _ m s0 hs0
          rw [hk, hch] at h3
          have hlt : m < u.chunks.length := by unfold Buf.chunks; rw [List.length_map]; omega
          rw [List.getElem?_append_left hlt] at h3
          have := hone m j h3 (by rw [secs_chunks u j sec hs, hc])
          omega
  rw [hloop u.secs.length (Nat.le_refl _), if_neg (by omega)]

/-- … and no round at all when the buffer has no section of the chunk -/
theorem mainPass_none_eq (hash : Bytes → Nat) (col : Col) (ch : Nat) (u : Buf)
    (hex : ¬ ∃ (j : Nat) (sec : Sec), u.secs[j]? = some sec ∧ sec.chunk = ch) :
    mainPass hash col ch u = (col, u, false) ∧ u.rangeOps ch = [] := by
  have hskip : ∀ (l : List Nat), l.foldl (mpStep hash ch) (col, u, false) = (col, u, false) := by
    intro l
    induction l with
    | nil => rfl
    | cons i is ih =>
      simp only [List.foldl_cons]
      rw [mpStep_skip hash ch (col, u, false) i (fun s0 hs0 hch => hex ⟨i, s0, hs0, hch⟩)]
      exact ih
  refine ⟨by rw [mainPass_eq, hskip], ?_⟩
  unfold Buf.rangeOps Buf.range
  have : u.secs.filter (fun s => decide (s.chunk = ch)) = [] := by
    rw [List.filter_eq_nil_iff]
    intro s0 hs0 hch
    obtain ⟨i, hi⟩ := List.mem_iff_getElem?.1 hs0
    exact hex ⟨i, s0, hi, by simpa using hch⟩
  rw [this]; rfl

/-- **one section for the chunk** (resizing merges allowed): the computed pass reads the rewritten section followed by
    the appended puts (they land in the same section when the buffer is still "in" the chunk, in a new last section
    otherwise) -/
theorem mainPass_one_buf (hash : Bytes → Nat) (col : Col) (ch : Nat) (u : Buf) (hok : BufOK u) (hone : OneSec u ch) :
    (mainPass hash col ch u).2.1.rangeOps ch = seenOps (applyData hash col ch (u.rangeOps ch)) := by
  by_cases hex : ∃ (j : Nat) (sec : Sec), u.secs[j]? = some sec ∧ sec.chunk = ch
  · obtain ⟨j, sec, hs, hc⟩ := hex
    have huniq : ∀ i b, u.secs[i]? = some b → b.chunk = ch → i = j := by
      intro i b hi hb
      exact hone i j (by rw [secs_chunks u i b hi, hb]) (by rw [secs_chunks u j sec hs, hc])
    have hsecops : ∀ o ∈ sec.ops, chunkOf o.idx = ch := by
      intro o ho
      have hm : sec ∈ u.rsecs := by
        have := List.mem_of_getElem? hs
        simpa [Buf.secs] using this
      rw [← hc]
      exact hok.chunk_ok sec hm o (by simpa [Sec.ops] using ho)
    have hrange : u.rangeOps ch = sec.ops := by
      unfold Buf.rangeOps Buf.range
      rw [filter_unique (fun s => decide (s.chunk = ch)) u.secs j sec hs (by simpa using hc)
        (fun i b hi hb => huniq i b hi (by simpa using hb))]
      simp
    obtain ⟨hro, hra⟩ := applyData_idx hash col ch sec.ops (fun i => chunkOf i = ch) hsecops
    obtain ⟨b1, b2, _⟩ := replaced_facts u j sec ch (applyData hash col ch sec.ops).ops hs hc hro
    rw [mainPass_one_eq hash col ch u hok hone j sec hs hc, mpStep_hit hash ch col u false j sec hs hc, hrange]
    simp only
    have hBsecs : ({ u with rsecs := (replaceSec u.secs j (applyData hash col ch sec.ops).ops).reverse } : Buf).secs =
        replaceSec u.secs j (applyData hash col ch sec.ops).ops := secs_set u _
    generalize hB : ({ u with rsecs := (replaceSec u.secs j (applyData hash col ch sec.ops).ops).reverse } : Buf) = B
      at b1 b2 hBsecs
    rw [putAll_rangeOps B _ (b2 hok) ch hra]
    unfold seenOps
    congr 1
    have hj : B.secs[j]? = some { sec with rops := (applyData hash col ch sec.ops).ops.reverse } := by
      rw [hBsecs]
      unfold replaceSec
      rw [List.getElem?_mapIdx, hs]
      simp
    have hBuniq : ∀ i b, B.secs[i]? = some b → b.chunk = ch → i = j := by
      intro i b hi hb
      have h1 := secs_chunks B i b hi
      rw [b1, hb] at h1
      exact hone i j h1 (by rw [secs_chunks u j sec hs, hc])
    unfold Buf.rangeOps Buf.range
    rw [filter_unique (fun s => decide (s.chunk = ch)) B.secs j _ hj (by simpa using hc)
      (fun i b hi hb => hBuniq i b hi (by simpa using hb))]
    simp [Sec.ops]
  · obtain ⟨h1, h2⟩ := mainPass_none_eq hash col ch u hex
    rw [h1, h2, seenOps_nil]

/-- **what the computed pass reads**: after a clean main pass (`PassOK`) the sections of the chunk now in the buffer,
    concatenated, are the rewritten ops followed by the appended puts -/
theorem pass_seen (hash : Bytes → Nat) (c : Col) (ch : Nat) (u : Buf) (h : PassOK hash c ch u) :
    (mainPass hash c ch u).2.1.rangeOps ch = seenOps (applyData hash c ch (u.rangeOps ch)) := by
  rcases h with hna | ⟨hok, hone⟩
  · rw [(mainPassG hash c ch u hna).2]
    unfold seenOps
    rw [hna, List.append_nil]
    unfold Buf.rangeOps Buf.range
    rw [secs_set, mpSpecG_rangeOps]
  · exact mainPass_one_buf hash c ch u hok hone

/-! ## C — the computed pass and the marker pass on a registered computed column -/

/-- one `Apply` of the registered computed column `n` -/
theorem applyNamed_self (chunk : Nat) (ops : List Op) (s : Store) (n : String) (c : Col) (h : s.findCol n = some c)
    (hc : c.kind.isComputed = true) : (applyNamed chunk ops s n).findCol n = some (applyOther c ops).1 := by
  unfold applyNamed
  rw [h]
  simp only
  rw [findCol_with_panicked, setCol_found s c _ n h (applyAny_sig s.hash c chunk ops).name n, if_pos rfl,
    applyAny_computed _ _ _ _ hc]

/-- `Apply` of the same section `n` times (a name listed `n` times in `computed` is applied `n` times) -/
def applyTimes (ops : List Op) : Nat → Col → Col
  | 0, c => c
  | n + 1, c => applyTimes ops n (applyOther c ops).1

/-- the inner loop of `computedPass` (one section, every attached name): the column `ix` gets the section once per
    occurrence of its name -/
theorem namesFold_findCol (chunk : Nat) (ops : List Op) (ix : String) (names : List String) :
    ∀ (s : Store) (ic : Col), s.findCol ix = some ic → ic.kind.isComputed = true →
      (names.foldl (applyNamed chunk ops) s).findCol ix = some (applyTimes ops (names.count ix) ic) := by
  induction names with
  | nil => intro s ic h _; exact h
  | cons n ns ih =>
    intro s ic h hc
    simp only [List.foldl_cons]
    by_cases e : n = ix
    · subst e
      rw [ih _ _ (applyNamed_self chunk ops s n ic h hc) (applyOther_isComputed ic ops hc), List.count_cons_self]
      rfl
    · rw [ih _ ic (by rw [applyNamed_frame chunk ops s n ix (fun e' => e e'.symm)]; exact h) hc]
      simp [e]

/-- **the computed pass** on a computed column listed once: `applyOther` over the chunk's ops now in the buffer -/
theorem computedPass_findCol (s : Store) (names : List String) (chunk : Nat) (u : Buf) (ix : String) (ic : Col)
    (h : s.findCol ix = some ic) (hc : ic.kind.isComputed = true) (hcount : names.count ix = 1) :
    (computedPass s names chunk u).findCol ix = some (applyOther ic (u.rangeOps chunk)).1 := by
  rw [computedPass_eq]
  unfold Buf.rangeOps
  generalize u.range chunk = secs
  rw [← applyOther_flatten secs ic hc]
  induction secs generalizing s ic with
  | nil => exact h
  | cons ops rest ih =>
    simp only [List.foldl_cons]
    apply ih
    · rw [namesFold_findCol chunk ops ix names s ic h hc, hcount]
      rfl
    · exact applyOther_isComputed ic ops hc

/-- the computed pass leaves the column alone when its name is not listed -/
theorem computedPass_findCol_none (s : Store) (names : List String) (chunk : Nat) (u : Buf) (ix : String)
    (hx : ix ∉ names) : (computedPass s names chunk u).findCol ix = s.findCol ix :=
  computedPass_frame s names chunk u ix hx

/-- marker sections on a computed column: `applyOther` over the marker ops -/
theorem markCol_computed (hash : Bytes → Nat) (chunk : Nat) (secs : List (List Op)) (c : Col)
    (hc : c.kind.isComputed = true) : markCol hash chunk secs c = (applyOther c secs.flatten).1 := by
  unfold markCol
  induction secs generalizing c with
  | nil => exact (applyOther_nil c).symm
  | cons ops rest ih =>
    simp only [List.foldl_cons, List.flatten_cons]
    rw [applyAny_computed hash c chunk ops hc, ih _ (applyOther_isComputed c ops hc), applyOther_append c hc]

/-- the computed column `ix` after the marker step of `commitChunk` -/
theorem markStore_comp (s : Store) (chunk : Nat) (cr : Bool) (ups : List Buf) (ix : String) (ic : Col)
    (hf : s.findCol ix = some ic) (hc : ic.kind.isComputed = true) :
    (markStore s chunk cr ups).findCol ix = some (applyOther ic (markerOpsCr cr ups chunk)).1 := by
  have hp : (preStore s chunk).findCol ix = some ic := hf
  unfold markStore markerOpsCr markerOps
  cases cr with
  | false =>
    simp only [Bool.false_eq_true, if_false]
    rw [hp, applyOther_nil]
  | true =>
    simp only [if_true]
    cases hm : ups.find? isMarkerBuf with
    | none =>
      simp only
      rw [hp, applyOther_nil]
    | some m =>
      simp only
      rw [commitMarkers_findCol, hp, Option.map_some, markCol_computed _ _ _ ic hc]
      rfl

/-! ## D — `commitUpdates`, `commitChunk`, the chunk loop, `commit` -/

/-- the ops the computed columns of `x` receive from the buffers of `x` in the pass of chunk `ch`, in buffer order: per
    buffer the rewritten ops followed by the appended puts (`seenOps`), the column `x` threaded through -/
def seenFor (hash : Bytes → Nat) (x : String) (ch : Nat) : List Buf → Col → List Op
  | [], _ => []
  | u :: us, c =>
    if u.column = x then
      seenOps (applyData hash c ch (u.rangeOps ch)) ++ seenFor hash x ch us (applyData hash c ch (u.rangeOps ch)).col
    else seenFor hash x ch us c

theorem seenFor_cons (hash : Bytes → Nat) (x : String) (ch : Nat) (u : Buf) (us : List Buf) (c : Col) :
    seenFor hash x ch (u :: us) c =
      if u.column = x then
        seenOps (applyData hash c ch (u.rangeOps ch)) ++ seenFor hash x ch us (applyData hash c ch (u.rangeOps ch)).col
      else seenFor hash x ch us c := rfl

theorem ne_of_data_computed {s : Store} {x ix : String} {col ic : Col} (hf : s.findCol x = some col)
    (hd : col.kind.isData = true) (hfi : s.findCol ix = some ic) (hci : ic.kind.isComputed = true) : ix ≠ x := by
  intro e
  subst e
  rw [hf] at hfi
  cases hfi
  rw [isData_of_isComputed hci] at hd
  cases hd

/-- the buffer of the data column `x` itself: main pass on `x`, then the computed pass hands `ix` what the pass left in
    the buffer for the chunk -/
theorem cuStep_self_comp (chunk : Nat) (s : Store) (done : List Buf) (b : Bool) (u : Buf) (x ix : String) (col ic : Col)
    (hxr : x ≠ rowColumn) (hux : u.column = x) (hf : s.findCol x = some col) (hd : col.kind.isData = true)
    (hfi : s.findCol ix = some ic) (hci : ic.kind.isComputed = true) (hcount : col.computed.count ix = 1)
    (hok : PassOK s.hash col chunk u) :
    (cuStep chunk (s, done, b) u).1.findCol ix =
      some (applyOther ic (seenOps (applyData s.hash col chunk (u.rangeOps chunk)))).1 := by
  have hne : ix ≠ x := ne_of_data_computed hf hd hfi hci
  unfold cuStep
  simp only
  by_cases he : u.isEmpty = true
  · have hskip : (u.isEmpty || u.column == rowColumn) = true := by simp [he]
    rw [if_pos hskip, isEmpty_range u he chunk, seenOps_nil, applyOther_nil]
    exact hfi
  · have hskip : ¬ (u.isEmpty || u.column == rowColumn) = true := by
      rw [hux]; simpa [he] using hxr
    rw [if_neg hskip, hux, hf]
    simp only
    rw [if_pos hd]
    obtain ⟨g1, _⟩ := mainPass_general s.hash col chunk u
    rw [computedPass_findCol _ _ _ _ ix ic ?_ hci hcount, pass_seen _ _ _ _ hok]
    rw [findCol_with_panicked, setCol_found s col _ x hf g1.name ix, if_neg hne]
    exact hfi

/-- **`commitUpdates`, a computed column of `x`**: `applyOther` over what the buffers of `x` leave for the chunk -/
theorem cuFold_comp (x ix : String) (chunk : Nat) (hxr : x ≠ rowColumn) (ups : List Buf) :
    ∀ (s : Store) (done : List Buf) (b : Bool) (col ic : Col), s.findCol x = some col → col.kind.isData = true →
      s.findCol ix = some ic → ic.kind.isComputed = true → col.computed.count ix = 1 →
      (∀ v ∈ ups, ∀ c, s.findCol v.column = some c → x ∉ c.computed) →
      (∀ v ∈ ups, v.column ≠ x → v.column ≠ ix ∧ ∀ c, s.findCol v.column = some c → ix ∉ c.computed) →
      BufsOK s.hash x chunk ups col →
      (ups.foldl (cuStep chunk) (s, done, b)).1.findCol ix =
        some (applyOther ic (seenFor s.hash x chunk ups col)).1 := by
  induction ups with
  | nil =>
    intro s done b col ic _ _ hfi _ _ _ _ _
    show s.findCol ix = _
    rw [hfi]
    unfold seenFor
    rw [applyOther_nil]
  | cons u us ih =>
    intro s done b col ic hf hd hfi hci hcount hcomp hatt hok
    simp only [List.foldl_cons]
    have hsim := cuStep_sim chunk s done b u
    have hcomp' : ∀ v ∈ us, ∀ c, (cuStep chunk (s, done, b) u).1.findCol v.column = some c → x ∉ c.computed := by
      intro v hv c hc
      obtain ⟨c0, hc0, sg⟩ := hsim.sig_back hc
      rw [sg.computed]
      exact hcomp v (by simp [hv]) c0 hc0
    have hatt' : ∀ v ∈ us, v.column ≠ x →
        v.column ≠ ix ∧ ∀ c, (cuStep chunk (s, done, b) u).1.findCol v.column = some c → ix ∉ c.computed := by
      intro v hv hvx
      refine ⟨(hatt v (by simp [hv]) hvx).1, ?_⟩
      intro c hc
      obtain ⟨c0, hc0, sg⟩ := hsim.sig_back hc
      rw [sg.computed]
      exact (hatt v (by simp [hv]) hvx).2 c0 hc0
    have hhash := hsim.hash
    rw [BufsOK_cons] at hok
    rw [seenFor_cons]
    by_cases hux : u.column = x
    · rw [if_pos hux] at hok
      rw [if_pos hux]
      obtain ⟨f1, _⟩ := cuStep_self_ok chunk s done b u x col hxr hux hf hd
        (hcomp u (by simp) col (hux ▸ hf)) hok.1
      have g1 := cuStep_self_comp chunk s done b u x ix col ic hxr hux hf hd hfi hci hcount hok.1
      generalize cuStep chunk (s, done, b) u = r at f1 g1 hcomp' hatt' hhash
      obtain ⟨r1s, r2, r3⟩ := r
      simp only at f1 g1 hcomp' hatt' hhash
      have hsh := applyData_sameShape s.hash col chunk (u.rangeOps chunk)
      rw [ih r1s r2 r3 _ _ f1 (by rw [hsh.kind]; exact hd) g1 (applyOther_isComputed ic _ hci)
        (by rw [hsh.computed]; exact hcount) hcomp' hatt' (by rw [hhash]; exact hok.2), hhash,
        applyOther_append ic hci]
    · rw [if_neg hux] at hok
      rw [if_neg hux]
      obtain ⟨f1, _⟩ := cuStep_other_ok chunk s done b u x hux (hcomp u (by simp))
      rw [hf] at f1
      have g1 := cuStep_frame chunk s done b u ix (hatt u (by simp) hux).1 (hatt u (by simp) hux).2
      rw [hfi] at g1
      generalize cuStep chunk (s, done, b) u = r at f1 g1 hcomp' hatt' hhash
      obtain ⟨r1s, r2, r3⟩ := r
      simp only at f1 g1 hcomp' hatt' hhash
      rw [ih r1s r2 r3 col ic f1 hd g1 hci hcount hcomp' hatt' (by rw [hhash]; exact hok), hhash]

/-- **one dirty chunk, a computed column `ix` of the data column `x`** (`commitChunk`): the column `ix` resolves to
    afterwards is `applyOther` over the marker ops of the chunk (handed to every registry column as they are) followed by
    what the buffer passes of `x` leave for the chunk — the rewritten ops and the appended puts, `x` taken in the state
    the markers leave -/
theorem commitChunk_computed (s : Store) (chunk : Nat) (cr : Bool) (ups : List Buf) (x ix : String) (col ic : Col)
    (hxr : x ≠ rowColumn) (hf : s.findCol x = some col) (hd : col.kind.isData = true)
    (hfi : s.findCol ix = some ic) (hci : ic.kind.isComputed = true) (hcount : col.computed.count ix = 1)
    (hcomp : ∀ v ∈ ups, ∀ c, s.findCol v.column = some c → x ∉ c.computed)
    (hatt : ∀ v ∈ ups, v.column ≠ x → v.column ≠ ix ∧ ∀ c, s.findCol v.column = some c → ix ∉ c.computed)
    (hok : BufsOK s.hash x chunk ups (applyData s.hash col chunk (markerOpsCr cr ups chunk)).col) :
    (s.commitChunk chunk cr ups).1.findCol ix =
      some (applyOther ic (markerOpsCr cr ups chunk ++
        seenFor s.hash x chunk ups (applyData s.hash col chunk (markerOpsCr cr ups chunk)).col)).1 := by
  rw [commitChunk_def]
  obtain ⟨_, f2, _⟩ := finishChunk_fields (s.nextId + 1) chunk cr
    ((markStore s chunk cr ups).commitUpdates chunk ups)
  have hreg := markStore_regSim s chunk cr ups
  have fm := markStore_col s chunk cr ups x col hf hd
  have fmi := markStore_comp s chunk cr ups ix ic hfi hci
  have hh := markStore_hash s chunk cr ups
  generalize markStore s chunk cr ups = ms at f2 hreg fm fmi hh
  have hcomp' : ∀ v ∈ ups, ∀ c, ms.findCol v.column = some c → x ∉ c.computed := by
    intro v hv c hc
    obtain ⟨c0, hc0, sg⟩ := hreg.sig_back hc
    rw [sg.computed]
    exact hcomp v hv c0 hc0
  have hatt' : ∀ v ∈ ups, v.column ≠ x → v.column ≠ ix ∧ ∀ c, ms.findCol v.column = some c → ix ∉ c.computed := by
    intro v hv hvx
    refine ⟨(hatt v hv hvx).1, ?_⟩
    intro c hc
    obtain ⟨c0, hc0, sg⟩ := hreg.sig_back hc
    rw [sg.computed]
    exact (hatt v hv hvx).2 c0 hc0
  have hsh := applyData_sameShape s.hash col chunk (markerOpsCr cr ups chunk)
  have fu := cuFold_comp x ix chunk hxr ups ms [] false _ _ fm (by rw [hsh.kind]; exact hd) fmi
    (applyOther_isComputed ic _ hci) (by rw [hsh.computed]; exact hcount) hcomp' hatt' (by rw [hh]; exact hok)
  rw [← commitUpdates_eq] at fu
  rw [findCol_congr f2, fu, hh, applyOther_append ic hci]

/-- the ops a computed column of `x` receives in the pass of chunk `ch`: the markers of the chunk, then what the buffer
    passes of `x` leave (`col`: the column `x` when the pass of the chunk starts) -/
def seenChunk (hash : Bytes → Nat) (ups : List Buf) (x : String) (ch : Nat) (col : Col) : List Op :=
  markerOps ups ch ++ seenFor hash x ch ups (applyData hash col ch (markerOps ups ch)).col

/-- the computed column after the passes of the chunks `cs`, by the column-level functions alone (`col`: its target,
    threaded through as `colChunks` does) -/
def compChunks (hash : Bytes → Nat) (ups : List Buf) (x : String) : List Nat → Col → Col → Col
  | [], _, ic => ic
  | ch :: cs, col, ic =>
    compChunks hash ups x cs (applyData hash col ch (chunkOps ups x ch)).col
      (applyOther ic (seenChunk hash ups x ch col)).1

theorem compChunks_cons (hash : Bytes → Nat) (ups : List Buf) (x : String) (ch : Nat) (cs : List Nat) (col ic : Col) :
    compChunks hash ups x (ch :: cs) col ic =
      compChunks hash ups x cs (applyData hash col ch (chunkOps ups x ch)).col
        (applyOther ic (seenChunk hash ups x ch col)).1 := rfl

theorem compChunks_sig (hash : Bytes → Nat) (ups : List Buf) (x : String) (cs : List Nat) :
    ∀ col ic, SameSig ic (compChunks hash ups x cs col ic) := by
  induction cs with
  | nil => intro _ ic; exact SameSig.refl ic
  | cons c cs ih =>
    intro col ic
    rw [compChunks_cons]
    exact SameSig.trans (applyOther_sig ic _) (ih _ _)

/-- the sections of the chunks not yet passed are what they were: so is what the computed columns will see of them -/
theorem Rel2.seenFor {x : String} {D : List Nat} {ups ups' : List Buf} (h : Rel2 (BufRel x D) ups ups')
    (hash : Bytes → Nat) (c2 : Nat) (hc2 : c2 ∉ D) : ∀ col, seenFor hash x c2 ups' col = seenFor hash x c2 ups col := by
  induction h with
  | nil => intro _; rfl
  | @cons a b as bs hab _ ih =>
    intro col
    obtain ⟨h1, _, h3⟩ := hab
    rw [seenFor_cons, seenFor_cons]
    by_cases hx : a.column = x
    · have hr : b.rangeOps c2 = a.rangeOps c2 := by
        unfold Buf.rangeOps
        rw [h3 hx c2 hc2]
      rw [if_pos hx, if_pos (h1.trans hx), hr, ih]
    · rw [if_neg hx, if_neg (by rw [h1]; exact hx), ih]

theorem compChunks_congr (hash : Bytes → Nat) (ups ups' : List Buf) (x : String) (cs : List Nat)
    (hm : ∀ c ∈ cs, markerOps ups' c = markerOps ups c) (ho : ∀ c ∈ cs, opsFor ups' x c = opsFor ups x c)
    (hs : ∀ c ∈ cs, ∀ col, seenFor hash x c ups' col = seenFor hash x c ups col) :
    ∀ col ic, compChunks hash ups' x cs col ic = compChunks hash ups x cs col ic := by
  induction cs with
  | nil => intro _ _; rfl
  | cons c cs ih =>
    intro col ic
    have hco : chunkOps ups' x c = chunkOps ups x c := by
      unfold chunkOps; rw [hm c (by simp), ho c (by simp)]
    have hse : seenChunk hash ups' x c col = seenChunk hash ups x c col := by
      unfold seenChunk; rw [hm c (by simp), hs c (by simp)]
    rw [compChunks_cons, compChunks_cons, hco, hse]
    exact ih (fun c' hc' => hm c' (by simp [hc'])) (fun c' hc' => ho c' (by simp [hc']))
      (fun c' hc' => hs c' (by simp [hc'])) _ _

/-- **the chunk loop, a computed column of `x`** -/
theorem commitLoop_computed (x ix : String) (hxr : x ≠ rowColumn) (cs : List Nat) :
    ∀ (s : Store) (ups : List Buf) (col ic : Col) (cr : Bool), cs.Nodup → cr = (ups.find? isMarkerBuf).isSome →
      s.findCol x = some col → col.kind.isData = true →
      s.findCol ix = some ic → ic.kind.isComputed = true → col.computed.count ix = 1 →
      (∀ v ∈ ups, ∀ c, s.findCol v.column = some c → x ∉ c.computed) →
      (∀ v ∈ ups, v.column ≠ x → v.column ≠ ix ∧ ∀ c, s.findCol v.column = some c → ix ∉ c.computed) →
      ChunksOK s.hash ups x cs col →
      (commitLoop cr cs s ups).1.findCol ix = some (compChunks s.hash ups x cs col ic) := by
  induction cs with
  | nil =>
    intro s ups col ic cr _ _ _ _ hfi _ _ _ _ _
    exact hfi
  | cons c cs ih =>
    intro s ups col ic cr hnd hcr hf hd hfi hci hcount hcomp hatt hok
    have hc_notin : c ∉ cs := (List.nodup_cons.1 hnd).1
    have hnd' : cs.Nodup := (List.nodup_cons.1 hnd).2
    obtain ⟨hok1, hok2⟩ := hok
    subst hcr
    obtain ⟨f1, hreg, hrel1⟩ := commitChunk_ok_full s c (ups.find? isMarkerBuf).isSome ups x col hxr hf hd hcomp
      (by rw [markerOpsCr_isSome]; exact hok1)
    have g1 := commitChunk_computed s c (ups.find? isMarkerBuf).isSome ups x ix col ic hxr hf hd hfi hci hcount hcomp
      hatt (by rw [markerOpsCr_isSome]; exact hok1)
    have hrel := hrel1.toBufRel
    have hh := commitChunk_hash s c (ups.find? isMarkerBuf).isSome ups
    rw [markerOpsCr_isSome] at f1 g1
    unfold commitLoop
    simp only [List.foldl_cons]
    generalize s.commitChunk c (ups.find? isMarkerBuf).isSome ups = r at hreg f1 g1 hrel hrel1 hh
    obtain ⟨s1, ups1⟩ := r
    simp only at hreg f1 g1 hrel hrel1 hh
    have hfm := hrel.find_marker
    have hcomp1 : ∀ v ∈ ups1, ∀ c0, s1.findCol v.column = some c0 → x ∉ c0.computed := by
      intro v' hv' c0 hc0
      obtain ⟨v, hv, hb⟩ := hrel.columns v' hv'
      rw [hb.1] at hc0
      obtain ⟨c00, hc00, sg⟩ := hreg.sig_back hc0
      rw [sg.computed]
      exact hcomp v hv c00 hc00
    have hatt1 : ∀ v ∈ ups1, v.column ≠ x →
        v.column ≠ ix ∧ ∀ c0, s1.findCol v.column = some c0 → ix ∉ c0.computed := by
      intro v' hv' hvx
      obtain ⟨v, hv, hb⟩ := hrel.columns v' hv'
      rw [hb.1] at hvx ⊢
      refine ⟨(hatt v hv hvx).1, ?_⟩
      intro c0 hc0
      obtain ⟨c00, hc00, sg⟩ := hreg.sig_back hc0
      rw [sg.computed]
      exact (hatt v hv hvx).2 c00 hc00
    have hmo : ∀ c2 ∈ cs, markerOps ups1 c2 = markerOps ups c2 := by
      intro c2 _; unfold markerOps; rw [hfm]
    have hnotin : ∀ c2 ∈ cs, c2 ∉ [c] := by
      intro c2 hc2 e
      simp only [List.mem_singleton] at e
      exact hc_notin (e ▸ hc2)
    have hof : ∀ c2 ∈ cs, opsFor ups1 x c2 = opsFor ups x c2 := fun c2 hc2 => hrel.opsFor c2 (hnotin c2 hc2)
    have hsf : ∀ c2 ∈ cs, ∀ col, seenFor s.hash x c2 ups1 col = seenFor s.hash x c2 ups col :=
      fun c2 hc2 => hrel.seenFor s.hash c2 (hnotin c2 hc2)
    have hsh := applyData_sameShape s.hash col c (markerOps ups c ++ opsFor ups x c)
    have := ih s1 ups1 _ _ (ups.find? isMarkerBuf).isSome hnd' (by rw [hfm]) f1
      (by rw [hsh.kind]; exact hd) g1 (applyOther_isComputed ic _ hci) (by rw [hsh.computed]; exact hcount) hcomp1 hatt1
      (by rw [hh]; exact ChunksOK_transfer s.hash x c hrel1 cs hc_notin hmo hof _ hok2)
    unfold commitLoop at this
    rw [this, hh, compChunks_congr s.hash ups ups1 x cs hmo hof hsf, compChunks_cons]
    rfl

theorem capCol_computed_kind (s : Store) (t : Txn) (c : Col) (h : c.kind.isComputed = true) :
    (capCol s t c).kind.isComputed = true := by
  rw [(capCol_meta s t c).2.1]; exact h

/-- **`commit`, a computed column `ix` of the data column `x`** (any number of dirty chunks, any other buffers): the
    column `ix` resolves to after `s.commit t` is, chunk by chunk in ascending order, `applyOther` over the chunk's markers
    followed by what the buffer passes of `x` leave for the chunk (`seenChunk`), starting from the column as
    `commitCapacity` leaves it (`capCol`) -/
theorem commit_computed (s : Store) (t : Txn) (x ix : String) (col ic : Col)
    (hxr : x ≠ rowColumn) (hf : s.findCol x = some col) (hd : col.kind.isData = true)
    (hfi : s.findCol ix = some ic) (hci : ic.kind.isComputed = true) (hcount : col.computed.count ix = 1)
    (hcomp : ∀ v ∈ t.updates, ∀ c, s.findCol v.column = some c → x ∉ c.computed)
    (hatt : ∀ v ∈ t.updates, v.column ≠ x → v.column ≠ ix ∧ ∀ c, s.findCol v.column = some c → ix ∉ c.computed)
    (hok : ChunksOK s.hash t.updates x t.dirtyChunks (capCol s t col)) :
    (s.commit t).findCol ix =
      some (compChunks s.hash t.updates x t.dirtyChunks (capCol s t col) (capCol s t ic)) := by
  rw [commit_eq']
  have f1 : (capStore s t).findCol x = some (capCol s t col) := by rw [capStore_findCol_eq, hf]; rfl
  have g1 : (capStore s t).findCol ix = some (capCol s t ic) := by rw [capStore_findCol_eq, hfi]; rfl
  have hcomp1 : ∀ v ∈ t.updates, ∀ c, (capStore s t).findCol v.column = some c → x ∉ c.computed := by
    intro v hv c hc
    obtain ⟨c0, hc0, e⟩ := capStore_computed s t v.column c hc
    rw [e]; exact hcomp v hv c0 hc0
  have hatt1 : ∀ v ∈ t.updates, v.column ≠ x →
      v.column ≠ ix ∧ ∀ c, (capStore s t).findCol v.column = some c → ix ∉ c.computed := by
    intro v hv hvx
    refine ⟨(hatt v hv hvx).1, ?_⟩
    intro c hc
    obtain ⟨c0, hc0, e⟩ := capStore_computed s t v.column c hc
    rw [e]; exact (hatt v hv hvx).2 c0 hc0
  have := commitLoop_computed x ix hxr t.dirtyChunks (capStore s t) t.updates (capCol s t col) (capCol s t ic)
    t.markers.isSome (sorted_nodup _ (dirtyChunks_sorted t)) rfl f1 (by rw [(capCol_meta s t col).2.1]; exact hd) g1
    (capCol_computed_kind s t ic hci) (by rw [(capCol_meta s t col).2.2.1]; exact hcount) hcomp1 hatt1
    (by rw [capStore_hash]; exact hok)
  rw [this, capStore_hash]

/-! ## E — numeric target: the ops seen are the rewritten ops; the index invariant through a commit -/

/-- numeric `x`: what the computed columns see of the buffers of `x` is `rwList` (every `Merge` turned into a `Put` of
    the stored value) of the ops issued for the chunk -/
theorem seenFor_num (hash : Bytes → Nat) (x : String) (ch : Nat) (k : NumKind) (ups : List Buf) :
    ∀ col : Col, col.kind = .num k → ch < col.nchunks →
      seenFor hash x ch ups col = rwList k col (opsFor ups x ch) := by
  induction ups with
  | nil => intro col _ _; rfl
  | cons u us ih =>
    intro col hk hch
    rw [seenFor_cons]
    by_cases hux : u.column = x
    · have hs := foldCol_shape k (u.rangeOps ch) col
      rw [if_pos hux, opsFor_cons_self u us x ch hux, rwList_append, applyData_num hash col k hk ch hch]
      simp only [seenOps, List.append_nil]
      rw [ih _ (hs.kind.trans hk) (by rw [hs.nchunks]; exact hch)]
    · rw [if_neg hux, opsFor_cons_other u us x ch hux, ih col hk hch]

/-- … and the markers (no `Merge` among them) are seen as they are: the whole chunk pass is `rwList` of `chunkOps` -/
theorem seenChunk_num (hash : Bytes → Nat) (ups : List Buf) (x : String) (ch : Nat) (k : NumKind) (col : Col)
    (hk : col.kind = .num k) (hch : ch < col.nchunks) (hmk : ∀ o ∈ markerOps ups ch, o.typ ≠ opMerge) :
    seenChunk hash ups x ch col = rwList k col (chunkOps ups x ch) := by
  unfold seenChunk chunkOps
  have hs := foldCol_shape k (markerOps ups ch) col
  rw [rwList_append, rwList_of_no_merge k _ col hmk, applyData_num hash col k hk ch hch]
  simp only
  rw [seenFor_num hash x ch k ups _ (hs.kind.trans hk) (by rw [hs.nchunks]; exact hch)]

/-- one chunk pass keeps the index invariant -/
theorem indexInv_chunk (hash : Bytes → Nat) (ups : List Buf) (x : String) (ch : Nat) (k : NumKind) (t : String)
    (rule : RuleFn) (col ic : Col) (hk : col.kind = .num k) (hik : ic.kind = .index t rule) (hch : ch < col.nchunks)
    (hin : InBounds col (chunkOps ups x ch)) (hcan : CanonPuts k (chunkOps ups x ch))
    (hmk : ∀ o ∈ markerOps ups ch, o.typ ≠ opMerge) (hm : ∀ a d, col.merge a d ≠ [])
    (hinv : IndexInv col ic k rule) :
    IndexInv (applyData hash col ch (chunkOps ups x ch)).col (applyOther ic (seenChunk hash ups x ch col)).1 k rule := by
  rw [seenChunk_num hash ups x ch k col hk hch hmk, applyData_num hash col k hk ch hch, applyOther_index ic t rule hik]
  exact indexInv_fold k rule _ col ic hin hcan (fun _ _ _ => hm) hinv

/-- the chunk loop keeps the index invariant -/
theorem indexInv_chunks (hash : Bytes → Nat) (ups : List Buf) (x : String) (k : NumKind) (t : String) (rule : RuleFn)
    (cs : List Nat) :
    ∀ col ic : Col, col.kind = .num k → ic.kind = .index t rule → ColWF col → (∀ c ∈ cs, c < col.nchunks) →
      (∀ c ∈ cs, ∀ o ∈ chunkOps ups x c, chunkOf o.idx = c) → (∀ c ∈ cs, CanonPuts k (chunkOps ups x c)) →
      (∀ c ∈ cs, ∀ o ∈ markerOps ups c, o.typ ≠ opMerge) → (∀ a d, col.merge a d ≠ []) → IndexInv col ic k rule →
      IndexInv (colChunks hash ups x cs col) (compChunks hash ups x cs col ic) k rule := by
  induction cs with
  | nil => intro col ic _ _ _ _ _ _ _ _ hinv; exact hinv
  | cons c cs ih =>
    intro col ic hk hik hw hch hco hcan hmk hm hinv
    rw [colChunks_cons, compChunks_cons]
    have hsh := applyData_sameShape hash col c (chunkOps ups x c)
    have hin : InBounds col (chunkOps ups x c) := inBounds_of_chunk col c _ hw (hch c (by simp)) (hco c (by simp))
    apply ih
    · exact hsh.kind.trans hk
    · exact (applyOther_sig ic _).kind.trans hik
    · exact ColWF.of_shape hsh hw
    · intro c' hc'; rw [hsh.nchunks]; exact hch c' (by simp [hc'])
    · intro c' hc'; exact hco c' (by simp [hc'])
    · intro c' hc'; exact hcan c' (by simp [hc'])
    · intro c' hc'; exact hmk c' (by simp [hc'])
    · rw [hsh.merge]; exact hm
    · exact indexInv_chunk hash ups x c k t rule col ic hk hik (hch c (by simp)) hin (hcan c (by simp))
        (hmk c (by simp)) hm hinv

/-- `commitCapacity` on an index: the bits it holds are kept (the bitmap only gets longer) -/
theorem capCol_index_get (s : Store) (t : Txn) (ic : Col) (tg : String) (rule : RuleFn) (hik : ic.kind = .index tg rule)
    (o : Nat) : Bits.get (capCol s t ic).bits o = Bits.get ic.bits o := by
  unfold capCol
  cases t.dirtyChunks.getLast? with
  | none => rfl
  | some last =>
    simp only
    split
    · rfl
    · unfold Col.grow
      rw [hik]
      simp only
      rw [get_grow]

/-- growing both columns for the last dirty chunk keeps the index invariant -/
theorem indexInv_capCol (s : Store) (t : Txn) (col ic : Col) (k : NumKind) (tg : String) (rule : RuleFn)
    (hk : col.kind = .num k) (hik : ic.kind = .index tg rule) (hinv : IndexInv col ic k rule) :
    IndexInv (capCol s t col) (capCol s t ic) k rule := by
  intro o
  obtain ⟨_, _, _, g4, _, _⟩ := capCol_data s t col (by rw [hk]; rfl)
  have hs := g4 o
  unfold slot at hs
  simp only [Prod.mk.injEq] at hs
  rw [capCol_index_get s t ic tg rule hik o, hs.1, hs.2]
  exact hinv o

/-- the ops of the chunk passes are ops of their chunk, given well-formed buffers -/
theorem chunkOps_chunk (t : Txn) (x : String)
    (hinv : ∀ v ∈ t.updates, (v.column = x ∨ isMarkerBuf v = true) → ChunkOK v) :
    ∀ c ∈ t.dirtyChunks, ∀ o ∈ chunkOps t.updates x c, chunkOf o.idx = c := by
  have hco : ChunkOps x t.updates t.dirtyChunks := by
    intro v hv hor c _ o ho
    exact rangeOps_chunk v (hinv v hv hor) c o ho
  intro c hc o ho
  unfold chunkOps at ho
  rcases List.mem_append.1 ho with ho | ho
  · exact markerOps_chunk x t.updates _ hco c hc o ho
  · exact opsFor_chunk x t.updates _ hco c hc o ho

theorem markerOps_sub_markerAll (ups : List Buf) (ch : Nat) : ∀ o ∈ markerOps ups ch, o ∈ markerAll ups := by
  intro o ho
  unfold markerOps at ho
  unfold markerAll
  cases hm : ups.find? isMarkerBuf with
  | none => rw [hm] at ho; cases ho
  | some m => rw [hm] at ho; exact rangeOps_sub_allOps m ch o ho

/-! ## F — hypothesis bundles for the property files, and what `commit` keeps of them -/

/-- registry hypotheses on the pair (data column `x`, computed column `ix`): `x` is not itself attached to anything,
    `ix` is attached to `x` only, and listed there once -/
structure Attached (s : Store) (x ix : String) : Prop where
  target : ∀ n c, s.findCol n = some c → x ∉ c.computed
  only : ∀ n c, s.findCol n = some c → n ≠ x → ix ∉ c.computed
  once : ∀ c, s.findCol x = some c → c.computed.count ix = 1

theorem Attached.commit {s : Store} {x ix : String} (h : Attached s x ix) (t : Txn) : Attached (s.commit t) x ix := by
  refine ⟨?_, ?_, ?_⟩
  · intro n c hc
    obtain ⟨c0, h0, e, _⟩ := commit_back s t n c hc
    rw [e]; exact h.target n c0 h0
  · intro n c hc hn
    obtain ⟨c0, h0, e, _⟩ := commit_back s t n c hc
    rw [e]; exact h.only n c0 h0 hn
  · intro c hc
    obtain ⟨c0, h0, e, _⟩ := commit_back s t x c hc
    rw [e]; exact h.once c0 h0

/-- the two per-buffer hypotheses of `commit_computed`, from the registry hypotheses and "no buffer is named `ix`" -/
theorem Attached.hyps {s : Store} {x ix : String} (h : Attached s x ix) (ups : List Buf)
    (hnb : ∀ v ∈ ups, v.column ≠ ix) :
    (∀ v ∈ ups, ∀ c, s.findCol v.column = some c → x ∉ c.computed) ∧
    (∀ v ∈ ups, v.column ≠ x → v.column ≠ ix ∧ ∀ c, s.findCol v.column = some c → ix ∉ c.computed) :=
  ⟨fun v _ c hc => h.target v.column c hc, fun v hv hvx => ⟨hnb v hv, fun c hc => h.only v.column c hc hvx⟩⟩

/-- the state of a numeric target column the index theorems need -/
structure NumCol (s : Store) (x : String) (k : NumKind) (col : Col) : Prop where
  find : s.findCol x = some col
  kind : col.kind = .num k
  wf : ColWF col
  cov : s.commits.size ≤ col.nchunks
  merge : ∀ a d, col.merge a d ≠ []

/-- what the index theorems need of a transaction: the buffers of `x` and the marker buffer hold their ops under the
    right chunk headers (`Buf.Inv.chunk_ok`), the `Put`s issued for `x` carry a value of the column's size (what the typed
    writers produce), the marker buffer holds `Insert` / `Delete` markers only -/
structure NumTxn (k : NumKind) (x : String) (t : Txn) : Prop where
  chunkOK : ∀ v ∈ t.updates, (v.column = x ∨ isMarkerBuf v = true) → ChunkOK v
  canon : CanonPuts k (allFor t.updates x)
  markers : ∀ o ∈ markerAll t.updates, isMarkerOp o

theorem isMarkerOp_ne_merge {o : Op} (h : isMarkerOp o) : o.typ ≠ opMerge := by
  intro e
  rcases h with h | h <;> rw [e] at h <;> exact absurd h (by decide)

theorem isMarkerOp_ne_put {o : Op} (h : isMarkerOp o) : o.typ ≠ opPut := by
  intro e
  rcases h with h | h <;> rw [e] at h <;> exact absurd h (by decide)

theorem NumTxn.canonChunk {k : NumKind} {x : String} {t : Txn} (h : NumTxn k x t) (c : Nat) :
    CanonPuts k (chunkOps t.updates x c) := by
  intro o ho hp
  rcases List.mem_append.1 (chunkOps_sub_issued t.updates x c o ho) with hm | ha
  · exact absurd hp (isMarkerOp_ne_put (h.markers o hm))
  · exact h.canon o ha hp

theorem NumTxn.markerChunk {k : NumKind} {x : String} {t : Txn} (h : NumTxn k x t) (c : Nat) :
    ∀ o ∈ markerOps t.updates c, o.typ ≠ opMerge :=
  fun o ho => isMarkerOp_ne_merge (h.markers o (markerOps_sub_markerAll t.updates c o ho))

/-- numeric columns never append: the guard of `commit_col_ok` / `commit_computed` holds -/
theorem chunksOK_num (hash : Bytes → Nat) (ups : List Buf) (x : String) (cs : List Nat) (col : Col) (k : NumKind)
    (hk : col.kind = .num k) : ChunksOK hash ups x cs col :=
  ChunksOK_of_noAppend hash ups x cs col (NoAppend_of_kind hash ups x cs col (by rw [hk]; simp))

theorem bufsOK_num (hash : Bytes → Nat) (x : String) (ch : Nat) (ups : List Buf) (col : Col) (k : NumKind)
    (hk : col.kind = .num k) : BufsOK hash x ch ups col :=
  BufsOK_of_noAppend hash x ch ups col (applyData_appended_nil_of_kind hash col ch _ (by rw [hk]; simp))

/-! ## G — `CreateIndex` after the data; the column before the index exists -/

theorem findCol_push (s : Store) (c : Col) (n : String) :
    ({ s with cols := s.cols.push c } : Store).findCol n =
      (s.findCol n).or (if c.name == n then some c else none) := by
  unfold Store.findCol
  simp only [Array.find?_push]

/-- `CreateIndex` under a fresh name: back-filled index pushed, its name appended to the target's `computed` -/
theorem createIndex_eq (s : Store) (x ix : String) (rule : RuleFn) (col : Col) (hf : s.findCol x = some col)
    (hfresh : s.findCol ix = none) :
    ∃ p, (s.createComputed ix x (.index x rule)).1 =
      { (({ s with cols := s.cols.push (s.backfill col (Col.grow { name := ix, kind := .index x rule } s.cap)).1 } : Store).setCol
          { col with computed := col.computed ++ [ix] }) with panicked := p } := by
  unfold Store.createComputed
  rw [hf]
  simp only [hfresh, Option.isSome_none, Bool.false_eq_true, if_false]
  exact ⟨_, rfl⟩

/-- no row is present beyond the committed chunks -/
def Live (s : Store) (col : Col) : Prop := ∀ o, s.commits.size ≤ o / 16384 → Bits.get col.bits o = false

/-- every dirty chunk is a committed chunk afterwards -/
theorem commit_dirty_lt (s : Store) (t : Txn) : ∀ c ∈ t.dirtyChunks, c < (s.commit t).commits.size := by
  intro c hc
  rw [commit_eq', (commitLoop_gen _ _ _ _).2.1]
  have hsorted := dirtyChunks_sorted t
  unfold capStore
  cases hl : t.dirtyChunks.getLast? with
  | none => rw [List.getLast?_eq_none_iff] at hl; rw [hl] at hc; cases hc
  | some last =>
    simp only
    have hle := sorted_le_getLast _ hsorted last hl c hc
    rcases commitCapacity_cases s last with ⟨h1, h2⟩ | ⟨_, _, h3, _⟩
    · rw [h2]; omega
    · rw [h3]; omega

theorem commit_commits_ge (s : Store) (t : Txn) : s.commits.size ≤ (s.commit t).commits.size := by
  rcases commit_commits_size s t with h | ⟨last, _, h1, h2⟩
  · rw [h]; exact Nat.le_refl _
  · rw [h2]; omega

/-- a commit keeps the numeric column in the state the theorems need, and sets no bit beyond the committed chunks -/
theorem commit_numCol (s : Store) (t : Txn) (x : String) (k : NumKind) (col : Col) (hxr : x ≠ rowColumn)
    (hc : NumCol s x k col) (hcomp : ∀ v ∈ t.updates, ∀ c, s.findCol v.column = some c → x ∉ c.computed)
    (hinv : ∀ v ∈ t.updates, (v.column = x ∨ isMarkerBuf v = true) → ChunkOK v) (hl : Live s col) :
    ∃ col', NumCol (s.commit t) x k col' ∧ Live (s.commit t) col' ∧ col'.computed = col.computed := by
  have hd : col.kind.isData = true := by rw [hc.kind]; rfl
  obtain ⟨_, m2, m3, _⟩ := capCol_meta s t col
  have hok := chunksOK_num s.hash t.updates x t.dirtyChunks (capCol s t col) k (m2.trans hc.kind)
  obtain ⟨col', f1, f2, f3, f4, f5, f6, f7, f8⟩ := commit_slot_ok s t x col (slotEffect col.merge k.width) hxr hc.find hd
    hc.wf hc.cov hcomp hok (by rw [hc.kind]; exact slotLaw_num s.hash k col.merge) hinv
  refine ⟨col', ⟨f1, f2.trans hc.kind, f4, commit_cov s t col col' hc.cov f5 f6, by rw [f3]; exact hc.merge⟩, ?_, ?_⟩
  · intro o ho
    have hs := f8 o
    rw [foldl_filter_none] at hs
    · have : Bits.get col'.bits o = (slot col' o).1 := rfl
      rw [this, hs]
      exact hl o (Nat.le_trans (commit_commits_ge s t) ho)
    · intro o' ho' e
      have h1 := issued_chunk_dirty t x hinv o' ho'
      have h2 := commit_dirty_lt s t _ h1
      rw [e] at h2
      unfold chunkOf chunkSize at h2
      omega
  · rw [f7, (colChunks_shape _ _ _ _ _).computed, m3]

/-! ## H — triggers: the calls made during a commit -/

/-- the calls a trigger makes for a list of ops handed to it, in call order: one per `Put` / `Delete` -/
def eventsOf (ops : List Op) : List TrigEvent := (ops.filter isStoreOrDelete).map trigEvent

theorem eventsOf_append (a b : List Op) : eventsOf (a ++ b) = eventsOf a ++ eventsOf b := by
  unfold eventsOf
  rw [List.filter_append, List.map_append]

theorem applyOther_trigger_events (c : Col) (tg : String) (hk : c.kind = .trigger tg) (ops : List Op) :
    (applyOther c ops).1.trig.reverse = c.trig.reverse ++ eventsOf ops := by
  rw [applyOther_trigger c tg hk]
  simp only
  rw [foldTrig_trig, List.reverse_append, List.reverse_reverse]
  rfl

/-- `commitCapacity` does nothing to a trigger or a sorted index -/
theorem capCol_trigger (s : Store) (t : Txn) (c : Col) (tg : String) (hk : c.kind = .trigger tg) : capCol s t c = c := by
  unfold capCol
  cases t.dirtyChunks.getLast? with
  | none => rfl
  | some last =>
    simp only
    split
    · rfl
    · unfold Col.grow
      rw [hk]

theorem capCol_sorted (s : Store) (t : Txn) (c : Col) (tg : String) (hk : c.kind = .sorted tg) : capCol s t c = c := by
  unfold capCol
  cases t.dirtyChunks.getLast? with
  | none => rfl
  | some last =>
    simp only
    split
    · rfl
    · unfold Col.grow
      rw [hk]

/-- the calls of a whole chunk loop (any data kind of the target), in call order -/
def seenEvents (hash : Bytes → Nat) (ups : List Buf) (x : String) : List Nat → Col → List TrigEvent
  | [], _ => []
  | ch :: cs, col =>
    eventsOf (seenChunk hash ups x ch col) ++ seenEvents hash ups x cs (applyData hash col ch (chunkOps ups x ch)).col

theorem compChunks_trigger (hash : Bytes → Nat) (ups : List Buf) (x tg : String) (cs : List Nat) :
    ∀ col ic : Col, ic.kind = .trigger tg →
      (compChunks hash ups x cs col ic).trig.reverse = ic.trig.reverse ++ seenEvents hash ups x cs col := by
  induction cs with
  | nil => intro col ic _; simp [compChunks, seenEvents]
  | cons c cs ih =>
    intro col ic hk
    rw [compChunks_cons, ih _ _ ((applyOther_sig ic _).kind.trans hk), applyOther_trigger_events ic tg hk]
    simp [seenEvents]

/-- the calls for the ops `ops` applied to the numeric column `c`: in op order, `Put` / `Merge` ↦ a `Put` call with the
    value the column holds at that offset right after the op, `Delete` ↦ a `Delete` call, nothing for other types -/
def finalEvents (k : NumKind) (c : Col) (ops : List Op) : List TrigEvent :=
  (ops.mapIdx (fun j o => eventAfter (colAfter k c ops j) o)).filterMap id

/-- numeric target: the calls of one chunk pass — the `Delete` markers first, then the final values of the ops issued -/
theorem eventsOf_seenChunk_num (hash : Bytes → Nat) (ups : List Buf) (x : String) (ch : Nat) (k : NumKind) (col : Col)
    (hk : col.kind = .num k) (hch : ch < col.nchunks)
    (hin : InBounds (applyData hash col ch (markerOps ups ch)).col (opsFor ups x ch)) :
    eventsOf (seenChunk hash ups x ch col) =
      eventsOf (markerOps ups ch) ++ finalEvents k (applyData hash col ch (markerOps ups ch)).col (opsFor ups x ch) := by
  have hs := applyData_sameShape hash col ch (markerOps ups ch)
  unfold seenChunk
  rw [eventsOf_append, seenFor_num hash x ch k ups _ (hs.kind.trans hk) (by rw [hs.nchunks]; exact hch)]
  unfold eventsOf finalEvents
  rw [trig_rwList k _ _ hin]

/-- the calls of the chunk loop, numeric target -/
def numEvents (hash : Bytes → Nat) (ups : List Buf) (x : String) (k : NumKind) : List Nat → Col → List TrigEvent
  | [], _ => []
  | ch :: cs, col =>
    (eventsOf (markerOps ups ch) ++ finalEvents k (applyData hash col ch (markerOps ups ch)).col (opsFor ups x ch)) ++
      numEvents hash ups x k cs (applyData hash col ch (chunkOps ups x ch)).col

theorem seenEvents_num (hash : Bytes → Nat) (ups : List Buf) (x : String) (k : NumKind) (cs : List Nat) :
    ∀ col : Col, col.kind = .num k → ColWF col → (∀ c ∈ cs, c < col.nchunks) →
      (∀ c ∈ cs, ∀ o ∈ chunkOps ups x c, chunkOf o.idx = c) →
      seenEvents hash ups x cs col = numEvents hash ups x k cs col := by
  induction cs with
  | nil => intro _ _ _ _ _; rfl
  | cons c cs ih =>
    intro col hk hw hch hco
    have hsh := applyData_sameShape hash col c (chunkOps ups x c)
    have hsm := applyData_sameShape hash col c (markerOps ups c)
    have hin : InBounds (applyData hash col c (markerOps ups c)).col (opsFor ups x c) :=
      inBounds_of_chunk _ c _ (ColWF.of_shape hsm hw) (by rw [hsm.nchunks]; exact hch c (by simp))
        (fun o ho => hco c (by simp) o (by unfold chunkOps; simp [ho]))
    simp only [seenEvents, numEvents]
    rw [eventsOf_seenChunk_num hash ups x c k col hk (hch c (by simp)) hin,
      ih _ (hsh.kind.trans hk) (ColWF.of_shape hsh hw) (fun c' hc' => by rw [hsh.nchunks]; exact hch c' (by simp [hc']))
        (fun c' hc' => hco c' (by simp [hc']))]

/-- the number of calls of one chunk pass: the `Put`, `Merge` and `Delete` ops of the chunk -/
theorem eventsOf_seenChunk_length (hash : Bytes → Nat) (ups : List Buf) (x : String) (ch : Nat) (k : NumKind) (col : Col)
    (hk : col.kind = .num k) (hch : ch < col.nchunks) (hmk : ∀ o ∈ markerOps ups ch, o.typ ≠ opMerge) :
    (eventsOf (seenChunk hash ups x ch col)).length =
      ((chunkOps ups x ch).filter (fun o => o.typ = opPut ∨ o.typ = opMerge ∨ o.typ = opDelete)).length := by
  rw [seenChunk_num hash ups x ch k col hk hch hmk]
  unfold eventsOf
  rw [List.length_map, count_rwList]

/-! ### row by row -/

/-- the op the numeric main pass leaves for `o`, from the slot of `o.idx` before the op -/
def outOpS (merge : Bytes → Bytes → Bytes) (k : NumKind) (st : Bool × Bytes) (o : Op) : Op :=
  if o.typ = opMerge then swapInPlace o (.fixed k.code (merge (padTo k.width st.2) (valRaw o.val))) else o

theorem outOp_eq_outOpS (k : NumKind) (c : Col) (o : Op) : outOp k c o = outOpS c.merge k (slot c o.idx) o := by
  unfold outOp outOpS slot
  rw [getD_eq]

/-- the ops addressed to one row, rewritten from the row's slot alone -/
def rwSlot (merge : Bytes → Bytes → Bytes) (k : NumKind) : Bool × Bytes → List Op → List Op
  | _, [] => []
  | st, o :: os => outOpS merge k st o :: rwSlot merge k (slotEffect merge k.width st o) os

/-- the rewritten ops addressed to row `i` only depend on the slot of `i` and the ops addressed to `i` -/
theorem rwList_filter_idx (k : NumKind) (ops : List Op) (c : Col) (i : Nat) (hin : InBounds c ops) :
    (rwList k c ops).filter (fun o => o.idx = i) =
      rwSlot c.merge k (slot c i) (ops.filter (fun o => o.idx = i)) := by
  induction ops generalizing c with
  | nil => rfl
  | cons o os ih =>
    have ho := hin o (by simp)
    have hs := stepCol_slot k c o i ho.1 ho.2
    have hm := (stepCol_shape k c o).merge
    rw [rwList, List.filter_cons, List.filter_cons, outOp_idx, ih _ (hin.tailK k), hm]
    by_cases e : o.idx = i
    · have hd : decide (o.idx = i) = true := by simpa using e
      rw [if_pos hd, if_pos hd, rwSlot, hs, if_pos e.symm, outOp_eq_outOpS, e]
    · have hd : ¬ decide (o.idx = i) = true := by simpa using e
      rw [if_neg hd, if_neg hd, hs, if_neg (fun h => e h.symm)]

theorem eventsOf_filter_idx (ops : List Op) (i : Nat) :
    (eventsOf ops).filter (fun e => e.idx = i) = eventsOf (ops.filter (fun o => o.idx = i)) := by
  induction ops with
  | nil => rfl
  | cons o os ih =>
    unfold eventsOf at ih ⊢
    by_cases hs : isStoreOrDelete o = true <;> by_cases e : o.idx = i <;>
      simp [hs, e, trigEvent, ih]

/-- the calls for one row: in issue order, a `Put` call with the value the slot holds right after the op for every
    `Put` / `Merge`, a `Delete` call for every `Delete`, nothing for other types -/
def rowEvents (merge : Bytes → Bytes → Bytes) (k : NumKind) : Bool × Bytes → List Op → List TrigEvent
  | _, [] => []
  | st, o :: os =>
    (if o.typ = opPut ∨ o.typ = opMerge then [⟨o.idx, opPut, (slotEffect merge k.width st o).2⟩]
     else if o.typ = opDelete then [⟨o.idx, opDelete, valRaw o.val⟩] else []) ++
      rowEvents merge k (slotEffect merge k.width st o) os

theorem eventsOf_rwSlot (merge : Bytes → Bytes → Bytes) (k : NumKind) (ops : List Op) (st : Bool × Bytes) :
    eventsOf (rwSlot merge k st ops) = rowEvents merge k st ops := by
  induction ops generalizing st with
  | nil => rfl
  | cons o os ih =>
    rw [rwSlot, rowEvents, ← ih]
    have : eventsOf (outOpS merge k st o :: rwSlot merge k (slotEffect merge k.width st o) os) =
        eventsOf [outOpS merge k st o] ++ eventsOf (rwSlot merge k (slotEffect merge k.width st o) os) := by
      rw [← eventsOf_append]; rfl
    rw [this]
    congr 1
    unfold outOpS slotEffect eventsOf
    by_cases h1 : o.typ = opPut
    · have h2 : ¬ o.typ = opMerge := by rw [h1]; decide
      rw [if_neg h2, if_pos (Or.inl h1), if_pos h1]
      simp [isStoreOrDelete, trigEvent, h1]
    · by_cases h2 : o.typ = opMerge
      · rw [if_pos h2, if_pos (Or.inr h2), if_neg h1, if_pos h2]
        simp [isStoreOrDelete, trigEvent, swapInPlace, valRaw]
      · have h12 : ¬ (o.typ = opPut ∨ o.typ = opMerge) := by
          intro h; cases h <;> contradiction
        rw [if_neg h2, if_neg h12]
        by_cases h3 : o.typ = opDelete
        · rw [if_pos h3]
          simp [isStoreOrDelete, trigEvent, h3]
        · rw [if_neg h3]
          simp [isStoreOrDelete, h1, h3]

/-- the calls of the chunk loop for row `i`: those of the pass of the row's own chunk, from the slot the row had before -/
theorem seenEvents_row (hash : Bytes → Nat) (ups : List Buf) (x : String) (k : NumKind) (cs : List Nat) :
    ∀ col : Col, col.kind = .num k → cs.Nodup → ColWF col → (∀ c ∈ cs, c < col.nchunks) →
      (∀ c ∈ cs, ∀ o ∈ chunkOps ups x c, chunkOf o.idx = c) →
      (∀ c ∈ cs, ∀ o ∈ markerOps ups c, o.typ ≠ opMerge) →
      ∀ i, (seenEvents hash ups x cs col).filter (fun e => e.idx = i) =
        if chunkOf i ∈ cs then
          rowEvents col.merge k (slot col i) ((chunkOps ups x (chunkOf i)).filter (fun o => o.idx = i))
        else [] := by
  induction cs with
  | nil => intro col _ _ _ _ _ _ i; simp [seenEvents]
  | cons c cs ih =>
    intro col hk hnd hw hch hco hmk i
    have hc_notin : c ∉ cs := (List.nodup_cons.1 hnd).1
    have hnd' : cs.Nodup := (List.nodup_cons.1 hnd).2
    have hsh := applyData_sameShape hash col c (chunkOps ups x c)
    have hin : InBounds col (chunkOps ups x c) := inBounds_of_chunk col c _ hw (hch c (by simp)) (hco c (by simp))
    simp only [seenEvents]
    rw [List.filter_append, ih _ (hsh.kind.trans hk) hnd' (ColWF.of_shape hsh hw)
      (fun c' hc' => by rw [hsh.nchunks]; exact hch c' (by simp [hc'])) (fun c' hc' => hco c' (by simp [hc']))
      (fun c' hc' => hmk c' (by simp [hc'])) i,
      seenChunk_num hash ups x c k col hk (hch c (by simp)) (hmk c (by simp)), eventsOf_filter_idx,
      rwList_filter_idx k _ col i hin, eventsOf_rwSlot, hsh.merge]
    by_cases hic : chunkOf i = c
    · have h1 : chunkOf i ∉ cs := by rw [hic]; exact hc_notin
      have h2 : chunkOf i ∈ c :: cs := by rw [hic]; simp
      rw [if_neg h1, if_pos h2, hic, List.append_nil]
    · have hnone : (chunkOps ups x c).filter (fun o => o.idx = i) = [] := by
        rw [List.filter_eq_nil_iff]
        intro o ho e
        have e' : o.idx = i := by simpa using e
        exact hic (e' ▸ hco c (by simp) o ho)
      have hsame := applyData_chunk_frame hash col c (chunkOps ups x c) i (hco c (by simp)) hic
      rw [hnone, hsame]
      simp only [rowEvents, List.nil_append]
      by_cases hics : chunkOf i ∈ cs
      · rw [if_pos hics, if_pos (by simp [hics])]
      · have h2 : chunkOf i ∉ c :: cs := by
          intro h; rcases List.mem_cons.1 h with h | h
          · exact hic h
          · exact hics h
        rw [if_neg hics, if_neg h2]

theorem chunkOps_filter_idx (ups : List Buf) (x : String) (i : Nat)
    (h : ∀ v ∈ ups, (v.column = x ∨ isMarkerBuf v = true) → ChunkOK v) :
    (chunkOps ups x (chunkOf i)).filter (fun o => o.idx = i) =
      (markerAll ups ++ allFor ups x).filter (fun o => o.idx = i) := by
  unfold chunkOps
  rw [List.filter_append, List.filter_append, markerOps_filter_idx ups i (fun v hv hm => h v hv (Or.inr hm)),
    opsFor_filter_idx ups x i (fun v hv hx => h v hv (Or.inl hx))]

theorem rowEvents_length (merge : Bytes → Bytes → Bytes) (k : NumKind) (ops : List Op) (st : Bool × Bytes) :
    (rowEvents merge k st ops).length =
      (ops.filter (fun o => o.typ = opPut ∨ o.typ = opMerge ∨ o.typ = opDelete)).length := by
  induction ops generalizing st with
  | nil => rfl
  | cons o os ih =>
    rw [rowEvents, List.length_append, ih, List.filter_cons]
    by_cases h1 : o.typ = opPut
    · rw [if_pos (Or.inl h1), if_pos (decide_eq_true (Or.inl h1))]
      simp only [List.length_cons, List.length_nil]; omega
    · by_cases h2 : o.typ = opMerge
      · rw [if_pos (Or.inr h2), if_pos (decide_eq_true (Or.inr (Or.inl h2)))]
        simp only [List.length_cons, List.length_nil]; omega
      · have h12 : ¬ (o.typ = opPut ∨ o.typ = opMerge) := by intro h; cases h <;> contradiction
        by_cases h3 : o.typ = opDelete
        · rw [if_neg h12, if_pos h3, if_pos (decide_eq_true (Or.inr (Or.inr h3)))]
          simp only [List.length_cons, List.length_nil]; omega
        · have hn : ¬ (o.typ = opPut ∨ o.typ = opMerge ∨ o.typ = opDelete) := by
            intro h; rcases h with h | h | h <;> contradiction
          rw [if_neg h12, if_neg h3, if_neg (by simpa using hn)]
          simp

/-- the number of calls of the chunk loop: per chunk, the `Put`, `Merge` and `Delete` ops of the chunk -/
theorem seenEvents_length (hash : Bytes → Nat) (ups : List Buf) (x : String) (k : NumKind) (cs : List Nat) :
    ∀ col : Col, col.kind = .num k → (∀ c ∈ cs, c < col.nchunks) →
      (∀ c ∈ cs, ∀ o ∈ markerOps ups c, o.typ ≠ opMerge) →
      (seenEvents hash ups x cs col).length =
        (cs.map (fun ch => ((chunkOps ups x ch).filter
          (fun o => o.typ = opPut ∨ o.typ = opMerge ∨ o.typ = opDelete)).length)).sum := by
  induction cs with
  | nil => intro _ _ _ _; rfl
  | cons c cs ih =>
    intro col hk hch hmk
    have hsh := applyData_sameShape hash col c (chunkOps ups x c)
    simp only [seenEvents, List.length_append, List.map_cons, List.sum_cons]
    rw [eventsOf_seenChunk_length hash ups x c k col hk (hch c (by simp)) (hmk c (by simp)),
      ih _ (hsh.kind.trans hk) (fun c' hc' => by rw [hsh.nchunks]; exact hch c' (by simp [hc']))
        (fun c' hc' => hmk c' (by simp [hc']))]

/-! ## I — sorted indexes: the invariant, and agreement with a string column -/

/-- the chunk loop keeps `SortInv` (any data kind of the target, any ops) -/
theorem compChunks_sortInv (hash : Bytes → Nat) (ups : List Buf) (x : String) (cs : List Nat) :
    ∀ col ic : Col, SortInv ic → SortInv (compChunks hash ups x cs col ic) := by
  induction cs with
  | nil => intro _ ic h; exact h
  | cons c cs ih =>
    intro col ic h
    rw [compChunks_cons]
    exact ih _ _ (applyOther_inv ic _ h)

/-- anything but a `Merge` is recorded as it is by the string pass -/
theorem stepStr_done_of_ne_merge (acc : ApplyAcc) (o : Op) (h : o.typ ≠ opMerge) :
    (stepStr acc o).2.1 = o :: acc.2.1 := by
  obtain ⟨c, done, app⟩ := acc
  unfold stepStr
  simp only
  rw [if_neg h]
  split
  · rfl
  · split <;> rfl

theorem foldStr_done_of_no_merge (ops : List Op) (acc : ApplyAcc) (h : ∀ o ∈ ops, o.typ ≠ opMerge) :
    (ops.foldl stepStr acc).2.1 = ops.reverse ++ acc.2.1 := by
  induction ops generalizing acc with
  | nil => rfl
  | cons o os ih =>
    rw [List.foldl_cons, ih _ (fun x hx => h x (by simp [hx])), stepStr_done_of_ne_merge acc o (h o (by simp))]
    simp

/-- a string / record section without a `Merge` is not rewritten -/
theorem applyData_str_ops_of_no_merge (hash : Bytes → Nat) (c : Col) (chunk : Nat) (ops : List Op)
    (hk : c.kind = .str ∨ c.kind = .record) (hm : ∀ o ∈ ops, o.typ ≠ opMerge) :
    (applyData hash c chunk ops).ops = ops := by
  by_cases h : chunk < c.nchunks
  · rw [(applyData_of_lt hash c chunk ops h).2.1, stepOf_str hash c.kind hk, foldStr_done_of_no_merge ops _ hm]
    simp
  · rw [applyData_of_ge hash c chunk ops (by omega)]

theorem isComputed_sorted {c : Col} {t : String} (h : c.kind = .sorted t) : c.kind.isComputed = true := by
  rw [h]; rfl

/-- the buffers of a string column `x` over one chunk, no pass appending: the sorted index, fed what the passes leave,
    agrees with the column again -/
theorem inSync_seenFor (hash : Bytes → Nat) (x : String) (ch : Nat) (t : String) (ups : List Buf) :
    ∀ c ix : Col, (c.kind = .str ∨ c.kind = .record) → ix.kind = .sorted t → ch < c.nchunks →
      InBounds c (opsFor ups x ch) → SortInv ix → InSync c ix →
      (applyData hash c ch (opsFor ups x ch)).appended = [] →
      InSync (applyData hash c ch (opsFor ups x ch)).col (applyOther ix (seenFor hash x ch ups c)).1 := by
  induction ups with
  | nil =>
    intro c ix _ _ _ _ _ hs _
    have h1 : opsFor ([] : List Buf) x ch = [] := rfl
    have h2 : seenFor hash x ch [] c = [] := rfl
    rw [h1, h2, applyData_nil, applyOther_nil]
    exact hs
  | cons u us ih =>
    intro c ix hk hik hch hin hinv hs happ
    rw [seenFor_cons]
    by_cases hux : u.column = x
    · rw [opsFor_cons_self u us x ch hux] at hin happ ⊢
      rw [applyData_appended_append, List.append_eq_nil_iff] at happ
      have hsh := applyData_sameShape hash c ch (u.rangeOps ch)
      have hin1 : InBounds c (u.rangeOps ch) := fun o ho => hin o (List.mem_append_left _ ho)
      have hin2 : InBounds (applyData hash c ch (u.rangeOps ch)).col (opsFor us x ch) :=
        InBounds.of_sameShape hsh (fun o ho => hin o (List.mem_append_right _ ho))
      rw [if_pos hux, applyData_col_append]
      unfold seenOps
      rw [happ.1, List.append_nil, applyOther_append ix (isComputed_sorted hik)]
      apply ih
      · rw [hsh.kind]; exact hk
      · exact (applyOther_sig ix _).kind.trans hik
      · rw [hsh.nchunks]; exact hch
      · exact hin2
      · exact applyOther_inv ix _ hinv
      · exact applyData_sync hash c ix t ch (u.rangeOps ch) hk hik hch hin1 hinv hs happ.1
      · exact happ.2
    · rw [opsFor_cons_other u us x ch hux] at hin happ ⊢
      rw [if_neg hux]
      exact ih c ix hk hik hch hin hinv hs happ

/-- one chunk pass: markers (handed to both columns as they are), then the buffers -/
theorem inSync_chunk (hash : Bytes → Nat) (ups : List Buf) (x : String) (ch : Nat) (t : String) (col ix : Col)
    (hk : col.kind = .str ∨ col.kind = .record) (hik : ix.kind = .sorted t) (hch : ch < col.nchunks)
    (hin : InBounds col (chunkOps ups x ch)) (hmk : ∀ o ∈ markerOps ups ch, o.typ ≠ opMerge)
    (hinv : SortInv ix) (hs : InSync col ix)
    (hna : (applyData hash (applyData hash col ch (markerOps ups ch)).col ch (opsFor ups x ch)).appended = []) :
    InSync (applyData hash col ch (chunkOps ups x ch)).col (applyOther ix (seenChunk hash ups x ch col)).1 := by
  unfold chunkOps at hin ⊢
  unfold seenChunk
  have hsh := applyData_sameShape hash col ch (markerOps ups ch)
  have hin1 : InBounds col (markerOps ups ch) := fun o ho => hin o (List.mem_append_left _ ho)
  have hm := applyData_sync hash col ix t ch (markerOps ups ch) hk hik hch hin1 hinv hs
    (applyData_appended_nil_of_no_merge hash col ch _ hmk)
  rw [applyData_str_ops_of_no_merge hash col ch _ hk hmk] at hm
  rw [applyData_col_append, applyOther_append ix (isComputed_sorted hik)]
  exact inSync_seenFor hash x ch t ups _ _ (by rw [hsh.kind]; exact hk) ((applyOther_sig ix _).kind.trans hik)
    (by rw [hsh.nchunks]; exact hch) (InBounds.of_sameShape hsh (fun o ho => hin o (List.mem_append_right _ ho)))
    (applyOther_inv ix _ hinv) hm hna

/-- the chunk loop keeps index and column in step, when no buffer pass appends (`NoAppend`: no resizing merge) -/
theorem inSync_chunks (hash : Bytes → Nat) (ups : List Buf) (x t : String) (cs : List Nat) :
    ∀ col ix : Col, (col.kind = .str ∨ col.kind = .record) → ix.kind = .sorted t → ColWF col →
      (∀ c ∈ cs, c < col.nchunks) → (∀ c ∈ cs, ∀ o ∈ chunkOps ups x c, chunkOf o.idx = c) →
      (∀ c ∈ cs, ∀ o ∈ markerOps ups c, o.typ ≠ opMerge) → SortInv ix → InSync col ix →
      NoAppend hash ups x cs col →
      InSync (colChunks hash ups x cs col) (compChunks hash ups x cs col ix) := by
  induction cs with
  | nil => intro col ix _ _ _ _ _ _ _ hs _; exact hs
  | cons c cs ih =>
    intro col ix hk hik hw hch hco hmk hinv hs hna
    rw [colChunks_cons, compChunks_cons]
    have hsh := applyData_sameShape hash col c (chunkOps ups x c)
    have hin : InBounds col (chunkOps ups x c) := inBounds_of_chunk col c _ hw (hch c (by simp)) (hco c (by simp))
    apply ih
    · rw [hsh.kind]; exact hk
    · exact (applyOther_sig ix _).kind.trans hik
    · exact ColWF.of_shape hsh hw
    · intro c' hc'; rw [hsh.nchunks]; exact hch c' (by simp [hc'])
    · intro c' hc'; exact hco c' (by simp [hc'])
    · intro c' hc'; exact hmk c' (by simp [hc'])
    · exact applyOther_inv ix _ hinv
    · exact inSync_chunk hash ups x c t col ix hk hik (hch c (by simp)) hin (hmk c (by simp)) hinv hs hna.1
    · exact hna.2

theorem strVal_of_slot {c c' : Col} {o : Nat} (h : slot c' o = slot c o) : strVal c' o = strVal c o := by
  unfold slot at h
  simp only [Prod.mk.injEq] at h
  unfold strVal
  rw [h.1, h.2]

theorem inSync_capCol (s : Store) (t : Txn) (col ix : Col) (tg : String) (hd : col.kind.isData = true)
    (hik : ix.kind = .sorted tg) (hs : InSync col ix) : InSync (capCol s t col) (capCol s t ix) := by
  rw [capCol_sorted s t ix tg hik]
  intro o
  rw [strVal_of_slot ((capCol_data s t col hd).2.2.2.1 o)]
  exact hs o

/-- the state of a string / record target column the sorted-index theorems need -/
structure StrCol (s : Store) (x : String) (col : Col) : Prop where
  find : s.findCol x = some col
  kind : col.kind = .str ∨ col.kind = .record
  wf : ColWF col
  cov : s.commits.size ≤ col.nchunks

end ColumnVerif.Store
