import ColumnVerif.Lemmas.StoreRead
import ColumnVerif.Lemmas.StorePlumb
import ColumnVerif.Lemmas.ApplyStr
/-!
Store-level plumbing for **every data column** (numeric, string, record, enum, key): what `Store.commit` leaves in the
registry under a data column's name, as an equality of `Col` records, in terms of the column-level function `applyData`
alone.

First part (guard `NoAppend`: no buffer pass appends a put — no resizing string merge):
* A — the column part / the appended part of `stepOf` do not depend on the op accumulators; `applyData` over `a ++ b`.
* B — `mainPass` of any column over a buffer whose pass appends nothing (`mpSpecG`, `mpNoApp`, `mainPassG`).
* C — `commitMarkers` on a data column = `applyData` of the marker ops (`markCol_data`, `markStore_col`).
* D — `commitUpdates`, `commitChunk`, the chunk loop, `commit` (`cuFold_col`, `commitChunk_col_full`, `commitLoop_col`,
  `commit_col`; `chunkOps`, `colChunks`, `capCol`).
* E — frame lemmas (slots not addressed), `Col.grow` on data columns (`grow_data`, `capCol_data`), `ColWF`.
* F — the store configuration through `commit` (`commit_pk`, `commit_hash`); `keyInv_transfer`.
* G — per-section slot laws (`SlotLaw`, `slotLaw_num / _str / _enum / _key`), `colChunks_slot`, `commit_slot`.
* H — sufficient conditions for `NoAppend`, small facts.
Second part (passes that do append, one section per chunk; general guard):
* X1 `BufOK`, `put` / `putAll`; X2 rewriting keeps offsets (`applyData_idx`); X3 `OneSec`, `mainPass_one`;
  X4 / X5 `PassOK`, `pass_clean`; X6 the plumbing redone for it (`BufsOK`, `ChunksOK`, `commitChunk_ok_full`,
  `commit_col_ok`, `commit_slot_ok`) and the sufficient conditions (`ChunksOK_of_noAppend`, `ChunksOK_of_nodup`, …).
-/
namespace ColumnVerif.Store
open ColumnVerif.Codec ColumnVerif.Bits

/-! ## A — `stepOf`: column part and appended part -/

/-- what a step does to the column does not depend on the two op accumulators -/
theorem stepOf_fst (hash : Bytes → Nat) (k : Kind) (acc : ApplyAcc) (o : Op) :
    (stepOf hash k acc o).1 = (stepOf hash k (acc.1, [], []) o).1 := by
  obtain ⟨c, done, app⟩ := acc
  cases k with
  | num nk =>
    show (stepNum nk (c, done, app) o).1 = (stepNum nk (c, [], []) o).1
    unfold stepNum
    simp only
    split
    · rfl
    · split
      · rfl
      · split <;> rfl
  | str =>
    show (stepStr (c, done, app) o).1 = (stepStr (c, [], []) o).1
    unfold stepStr
    simp only
    split
    · rfl
    · split
      · split <;> rfl
      · split <;> rfl
  | record =>
    show (stepStr (c, done, app) o).1 = (stepStr (c, [], []) o).1
    unfold stepStr
    simp only
    split
    · rfl
    · split
      · split <;> rfl
      · split <;> rfl
  | enum =>
    show (stepEnum hash (c, done, app) o).1 = (stepEnum hash (c, [], []) o).1
    unfold stepEnum
    simp only
    split
    · rfl
    · split <;> rfl
  | key => exact stepKey_fst (c, done, app) o
  | bool => rfl
  | index t r => rfl
  | trigger t => rfl
  | sorted t => rfl

/-- the appended puts only grow, by what the step appends on its own -/
theorem stepOf_app (hash : Bytes → Nat) (k : Kind) (acc : ApplyAcc) (o : Op) :
    (stepOf hash k acc o).2.2 = acc.2.2 ++ (stepOf hash k (acc.1, [], []) o).2.2 := by
  obtain ⟨c, done, app⟩ := acc
  cases k with
  | num nk =>
    show (stepNum nk (c, done, app) o).2.2 = app ++ (stepNum nk (c, [], []) o).2.2
    unfold stepNum
    simp only
    split
    · simp
    · split
      · simp
      · split <;> simp
  | str =>
    show (stepStr (c, done, app) o).2.2 = app ++ (stepStr (c, [], []) o).2.2
    unfold stepStr
    simp only
    split
    · simp
    · split
      · split <;> simp
      · split <;> simp
  | record =>
    show (stepStr (c, done, app) o).2.2 = app ++ (stepStr (c, [], []) o).2.2
    unfold stepStr
    simp only
    split
    · simp
    · split
      · split <;> simp
      · split <;> simp
  | enum =>
    show (stepEnum hash (c, done, app) o).2.2 = app ++ (stepEnum hash (c, [], []) o).2.2
    unfold stepEnum
    simp only
    split
    · simp
    · split <;> simp
  | key =>
    show (stepKey (c, done, app) o).2.2 = app ++ (stepKey (c, [], []) o).2.2
    unfold stepKey
    simp only
    split
    · simp
    · split <;> simp
  | bool => show app = app ++ []; simp
  | index t r => show app = app ++ []; simp
  | trigger t => show app = app ++ []; simp
  | sorted t => show app = app ++ []; simp

theorem foldStepOf_fst (hash : Bytes → Nat) (k : Kind) (ops : List Op) (acc : ApplyAcc) :
    (ops.foldl (stepOf hash k) acc).1 = (ops.foldl (stepOf hash k) (acc.1, [], [])).1 := by
  induction ops generalizing acc with
  | nil => rfl
  | cons o os ih =>
    simp only [List.foldl_cons]
    rw [ih (stepOf hash k acc o), ih (stepOf hash k (acc.1, [], []) o), stepOf_fst hash k acc o]

theorem foldStepOf_app (hash : Bytes → Nat) (k : Kind) (ops : List Op) (acc : ApplyAcc) :
    (ops.foldl (stepOf hash k) acc).2.2 = acc.2.2 ++ (ops.foldl (stepOf hash k) (acc.1, [], [])).2.2 := by
  induction ops generalizing acc with
  | nil => simp
  | cons o os ih =>
    simp only [List.foldl_cons]
    rw [ih (stepOf hash k acc o), ih (stepOf hash k (acc.1, [], []) o), stepOf_app hash k acc o, stepOf_fst hash k acc o,
      List.append_assoc]

theorem foldStepOf_sameShape (hash : Bytes → Nat) (k : Kind) (ops : List Op) (acc : ApplyAcc) :
    SameShape acc.1 (ops.foldl (stepOf hash k) acc).1 :=
  foldl_invariant (fun (a : ApplyAcc) => SameShape acc.1 a.1) _ ops acc (SameShape.refl _)
    (fun b a _ hb => SameShape.trans hb (stepOf_sameShape hash k b a))

theorem applyData_of_ge (hash : Bytes → Nat) (c : Col) (chunk : Nat) (ops : List Op) (h : chunk ≥ c.nchunks) :
    applyData hash c chunk ops = { col := c, ops := ops, appended := [], panic := true } := by
  unfold applyData
  rw [if_pos h]

theorem applyData_of_lt (hash : Bytes → Nat) (c : Col) (chunk : Nat) (ops : List Op) (h : chunk < c.nchunks) :
    (applyData hash c chunk ops).col = (ops.foldl (stepOf hash c.kind) (c, [], [])).1 ∧
    (applyData hash c chunk ops).ops = (ops.foldl (stepOf hash c.kind) (c, [], [])).2.1.reverse ∧
    (applyData hash c chunk ops).appended = (ops.foldl (stepOf hash c.kind) (c, [], [])).2.2 := by
  unfold applyData
  rw [if_neg (by omega)]
  exact ⟨rfl, rfl, rfl⟩

theorem applyData_nil (hash : Bytes → Nat) (c : Col) (chunk : Nat) : (applyData hash c chunk []).col = c := by
  unfold applyData
  split <;> rfl

/-- the column after a section `a ++ b` is the column after `b` applied to the column after `a` -/
theorem applyData_col_append (hash : Bytes → Nat) (c : Col) (chunk : Nat) (a b : List Op) :
    (applyData hash c chunk (a ++ b)).col = (applyData hash (applyData hash c chunk a).col chunk b).col := by
  by_cases h : chunk < c.nchunks
  · have hs := applyData_sameShape hash c chunk a
    rw [(applyData_of_lt hash c chunk (a ++ b) h).1,
      (applyData_of_lt hash _ chunk b (by rw [hs.nchunks]; exact h)).1, hs.kind,
      (applyData_of_lt hash c chunk a h).1, List.foldl_append, foldStepOf_fst]
  · have h' : chunk ≥ c.nchunks := by omega
    rw [applyData_of_ge hash c chunk (a ++ b) h', applyData_of_ge hash c chunk a h', applyData_of_ge hash c chunk b h']

/-- … and the puts appended are those of `a` followed by those of `b` in the state `a` leaves -/
theorem applyData_appended_append (hash : Bytes → Nat) (c : Col) (chunk : Nat) (a b : List Op) :
    (applyData hash c chunk (a ++ b)).appended =
      (applyData hash c chunk a).appended ++ (applyData hash (applyData hash c chunk a).col chunk b).appended := by
  by_cases h : chunk < c.nchunks
  · have hs := applyData_sameShape hash c chunk a
    rw [(applyData_of_lt hash c chunk (a ++ b) h).2.2,
      (applyData_of_lt hash _ chunk b (by rw [hs.nchunks]; exact h)).2.2, hs.kind,
      (applyData_of_lt hash c chunk a h).2.2, (applyData_of_lt hash c chunk a h).1, List.foldl_append, foldStepOf_app]
  · have h' : chunk ≥ c.nchunks := by omega
    rw [applyData_of_ge hash c chunk (a ++ b) h', applyData_of_ge hash c chunk a h', applyData_of_ge hash c chunk b h']
    rfl

/-- numeric, enum and key columns never append anything (only a resizing string merge does) -/
theorem stepOf_app_nil (hash : Bytes → Nat) (k : Kind) (hk : k ≠ .str ∧ k ≠ .record) (acc : ApplyAcc) (o : Op) :
    (stepOf hash k acc o).2.2 = acc.2.2 := by
  obtain ⟨c, done, app⟩ := acc
  cases k with
  | num nk =>
    show (stepNum nk (c, done, app) o).2.2 = app
    unfold stepNum
    simp only
    split
    · rfl
    · split
      · rfl
      · split <;> rfl
  | str => exact absurd rfl hk.1
  | record => exact absurd rfl hk.2
  | enum =>
    show (stepEnum hash (c, done, app) o).2.2 = app
    unfold stepEnum
    simp only
    split
    · rfl
    · split <;> rfl
  | key =>
    show (stepKey (c, done, app) o).2.2 = app
    unfold stepKey
    simp only
    split
    · rfl
    · split <;> rfl
  | bool => rfl
  | index t r => rfl
  | trigger t => rfl
  | sorted t => rfl

theorem applyData_appended_nil_of_kind (hash : Bytes → Nat) (c : Col) (chunk : Nat) (ops : List Op)
    (hk : c.kind ≠ .str ∧ c.kind ≠ .record) : (applyData hash c chunk ops).appended = [] := by
  by_cases h : chunk < c.nchunks
  · rw [(applyData_of_lt hash c chunk ops h).2.2]
    exact foldl_invariant (fun (a : ApplyAcc) => a.2.2 = []) _ ops (c, [], []) rfl
      (fun b a _ hb => (stepOf_app_nil hash c.kind hk b a).trans hb)
  · rw [applyData_of_ge hash c chunk ops (by omega)]

/-- a string / record section without a `Merge` appends nothing -/
theorem stepStr_app_nil (acc : ApplyAcc) (o : Op) (h : o.typ ≠ opMerge) : (stepStr acc o).2.2 = acc.2.2 := by
  obtain ⟨c, done, app⟩ := acc
  unfold stepStr
  simp only
  rw [if_neg h]
  split
  · rfl
  · split <;> rfl

theorem applyData_appended_nil_of_no_merge (hash : Bytes → Nat) (c : Col) (chunk : Nat) (ops : List Op)
    (hm : ∀ o ∈ ops, o.typ ≠ opMerge) : (applyData hash c chunk ops).appended = [] := by
  by_cases hk : c.kind ≠ .str ∧ c.kind ≠ .record
  · exact applyData_appended_nil_of_kind hash c chunk ops hk
  · by_cases h : chunk < c.nchunks
    · rw [(applyData_of_lt hash c chunk ops h).2.2]
      have hstep : stepOf hash c.kind = stepStr := by
        cases hkk : c.kind <;> rw [hkk] at hk <;> simp at hk <;> rfl
      rw [hstep]
      exact foldl_invariant (fun (a : ApplyAcc) => a.2.2 = []) _ ops (c, [], []) rfl
        (fun b a ha hb => (stepStr_app_nil b a (hm a ha)).trans hb)
    · rw [applyData_of_ge hash c chunk ops (by omega)]

/-! ## B — `mainPass` of any column over a buffer, when the pass appends nothing -/

/-- what the main pass makes of a list of sections when nothing is appended: the sections of `chunk` are rewritten in
    turn (the column threaded through `applyData`), the others are skipped -/
def mpSpecG (hash : Bytes → Nat) (chunk : Nat) : Col → List Sec → Col × List Sec
  | c, [] => (c, [])
  | c, sec :: rest =>
    if sec.chunk = chunk then
      ((mpSpecG hash chunk (applyData hash c chunk sec.ops).col rest).1,
       { sec with rops := (applyData hash c chunk sec.ops).ops.reverse } ::
         (mpSpecG hash chunk (applyData hash c chunk sec.ops).col rest).2)
    else ((mpSpecG hash chunk c rest).1, sec :: (mpSpecG hash chunk c rest).2)

/-- no section of `chunk` appends a put, each in the state in which it is applied -/
def mpNoApp (hash : Bytes → Nat) (chunk : Nat) : Col → List Sec → Prop
  | _, [] => True
  | c, sec :: rest =>
    if sec.chunk = chunk then
      (applyData hash c chunk sec.ops).appended = [] ∧ mpNoApp hash chunk (applyData hash c chunk sec.ops).col rest
    else mpNoApp hash chunk c rest

theorem mpSpecG_append (hash : Bytes → Nat) (chunk : Nat) (a b : List Sec) (c : Col) :
    mpSpecG hash chunk c (a ++ b) =
      ((mpSpecG hash chunk (mpSpecG hash chunk c a).1 b).1,
       (mpSpecG hash chunk c a).2 ++ (mpSpecG hash chunk (mpSpecG hash chunk c a).1 b).2) := by
  induction a generalizing c with
  | nil => simp [mpSpecG]
  | cons x xs ih =>
    simp only [List.cons_append, mpSpecG]
    split
    · simp [ih]
    · simp [ih]

theorem mpNoApp_append (hash : Bytes → Nat) (chunk : Nat) (a b : List Sec) (c : Col) :
    mpNoApp hash chunk c (a ++ b) ↔ mpNoApp hash chunk c a ∧ mpNoApp hash chunk (mpSpecG hash chunk c a).1 b := by
  induction a generalizing c with
  | nil => simp [mpNoApp, mpSpecG]
  | cons x xs ih =>
    simp only [List.cons_append, mpNoApp, mpSpecG]
    split
    · rw [ih]; simp only [and_assoc]
    · rw [ih]

theorem mpSpecG_length (hash : Bytes → Nat) (chunk : Nat) (S : List Sec) (c : Col) :
    (mpSpecG hash chunk c S).2.length = S.length := by
  induction S generalizing c with
  | nil => rfl
  | cons x xs ih =>
    simp only [mpSpecG]
    split <;> simp [ih]

theorem mpSpecG_shape (hash : Bytes → Nat) (chunk : Nat) (S : List Sec) (c : Col) :
    SameShape c (mpSpecG hash chunk c S).1 := by
  induction S generalizing c with
  | nil => exact SameShape.refl c
  | cons x xs ih =>
    simp only [mpSpecG]
    split
    · exact SameShape.trans (applyData_sameShape hash c chunk x.ops) (ih _)
    · exact ih _

/-- the column is the one `applyData` leaves after all ops of the chunk's sections, in order -/
theorem mpSpecG_col (hash : Bytes → Nat) (chunk : Nat) (S : List Sec) (c : Col) :
    (mpSpecG hash chunk c S).1 =
      (applyData hash c chunk ((S.filter (fun s => s.chunk = chunk)).map Sec.ops).flatten).col := by
  induction S generalizing c with
  | nil => exact (applyData_nil hash c chunk).symm
  | cons x xs ih =>
    simp only [mpSpecG]
    by_cases h : x.chunk = chunk
    · rw [if_pos h]
      have hf : (x :: xs).filter (fun s => decide (s.chunk = chunk)) = x :: xs.filter (fun s => decide (s.chunk = chunk)) := by
        simp [h]
      rw [hf, List.map_cons, List.flatten_cons, applyData_col_append, ← ih]
    · rw [if_neg h]
      have hf : (x :: xs).filter (fun s => decide (s.chunk = chunk)) = xs.filter (fun s => decide (s.chunk = chunk)) := by
        simp [h]
      rw [hf, ← ih]

/-- nothing appended over the whole chunk ⇒ nothing appended by any of its sections -/
theorem mpNoApp_of_flat (hash : Bytes → Nat) (chunk : Nat) (S : List Sec) (c : Col)
    (h : (applyData hash c chunk ((S.filter (fun s => s.chunk = chunk)).map Sec.ops).flatten).appended = []) :
    mpNoApp hash chunk c S := by
  induction S generalizing c with
  | nil => trivial
  | cons x xs ih =>
    simp only [mpNoApp]
    by_cases hx : x.chunk = chunk
    · rw [if_pos hx]
      have hf : (x :: xs).filter (fun s => decide (s.chunk = chunk)) = x :: xs.filter (fun s => decide (s.chunk = chunk)) := by
        simp [hx]
      rw [hf, List.map_cons, List.flatten_cons, applyData_appended_append, List.append_eq_nil_iff] at h
      exact ⟨h.1, ih _ h.2⟩
    · rw [if_neg hx]
      have hf : (x :: xs).filter (fun s => decide (s.chunk = chunk)) = xs.filter (fun s => decide (s.chunk = chunk)) := by
        simp [hx]
      rw [hf] at h
      exact ih _ h

theorem mpSpecG_other (hash : Bytes → Nat) (chunk c2 : Nat) (h : c2 ≠ chunk) (S : List Sec) (c : Col) :
    (mpSpecG hash chunk c S).2.filter (fun s => s.chunk = c2) = S.filter (fun s => s.chunk = c2) := by
  induction S generalizing c with
  | nil => rfl
  | cons x xs ih =>
    simp only [mpSpecG]
    by_cases hx : x.chunk = chunk
    · rw [if_pos hx]
      have : ¬ x.chunk = c2 := by rw [hx]; exact fun e => h e.symm
      simp [this, ih]
    · rw [if_neg hx]
      simp [List.filter_cons, ih]

/-- the loop of `mainPass` after `n` rounds (column and buffer; the panic flag is not tracked here) -/
theorem mainPassG_upTo (hash : Bytes → Nat) (col : Col) (chunk : Nat) (u : Buf) (hna : mpNoApp hash chunk col u.secs)
    (n : Nat) (hn : n ≤ u.secs.length) :
    ((List.range n).foldl (mpStep hash chunk) (col, u, false)).1 = (mpSpecG hash chunk col (u.secs.take n)).1 ∧
    ((List.range n).foldl (mpStep hash chunk) (col, u, false)).2.1 =
      { u with rsecs := ((mpSpecG hash chunk col (u.secs.take n)).2 ++ u.secs.drop n).reverse } := by
  generalize hS : u.secs = S at hn hna
  induction n with
  | zero =>
    simp only [List.take_zero, mpSpecG, List.nil_append, List.drop_zero, List.range_zero, List.foldl_nil]
    rw [← hS]
    simp [Buf.secs]
  | succ n ih =>
    have hlt : n < S.length := by omega
    obtain ⟨ih1, ih2⟩ := ih (by omega)
    rw [List.range_succ, List.foldl_append]
    simp only [List.foldl_cons, List.foldl_nil]
    generalize (List.range n).foldl (mpStep hash chunk) (col, u, false) = acc at ih1 ih2
    obtain ⟨a, b, p⟩ := acc
    simp only at ih1 ih2
    subst ih1 ih2
    have hPl : (mpSpecG hash chunk col (S.take n)).2.length = n := by
      rw [mpSpecG_length, List.length_take]; omega
    have hdrop := List.drop_eq_getElem_cons hlt
    have htake := List.take_succ_eq_append_getElem hlt
    have hsplit : S = S.take n ++ S[n] :: S.drop (n + 1) := by
      rw [← hdrop]; exact (List.take_append_drop n S).symm
    have hna2 : mpNoApp hash chunk (mpSpecG hash chunk col (S.take n)).1 (S[n] :: S.drop (n + 1)) := by
      rw [hsplit] at hna
      exact ((mpNoApp_append hash chunk _ _ col).1 hna).2
    generalize hP : mpSpecG hash chunk col (S.take n) = R at hPl hna2
    have hget : (R.2 ++ S.drop n)[n]? = some S[n] := by
      rw [List.getElem?_append_right (by omega), hPl, hdrop]
      simp
    unfold mpStep
    simp only [secs_set]
    rw [hget]
    simp only
    rw [htake, mpSpecG_append, hP]
    by_cases hc : S[n].chunk = chunk
    · have hc' : ¬ S[n].chunk ≠ chunk := fun h => h hc
      rw [if_neg hc']
      simp only [mpNoApp, if_pos hc] at hna2
      rw [hna2.1]
      simp only [Buf.putAll, List.foldl_nil, mpSpecG, if_pos hc]
      rw [hdrop]
      have := replaceSec_append R.2 S[n] (S.drop (n + 1)) (applyData hash R.1 chunk S[n].ops).ops
      rw [hPl] at this
      rw [this]
      simp
    · have hc' : S[n].chunk ≠ chunk := hc
      rw [if_pos hc']
      simp only [mpSpecG, if_neg hc]
      rw [hdrop]
      simp

/-- **main pass, any kind**: when the chunk's ops append nothing (no resizing string merge; always so for numeric, enum and
    key columns), the column `mainPass` leaves is `applyData` over the chunk's ops in section order, and the buffer keeps
    its sections — those of `chunk` rewritten in place, the others untouched -/
theorem mainPassG (hash : Bytes → Nat) (col : Col) (chunk : Nat) (u : Buf)
    (hna : (applyData hash col chunk (u.rangeOps chunk)).appended = []) :
    (mainPass hash col chunk u).1 = (applyData hash col chunk (u.rangeOps chunk)).col ∧
    (mainPass hash col chunk u).2.1 = { u with rsecs := (mpSpecG hash chunk col u.secs).2.reverse } := by
  have hlen : u.rsecs.length = u.secs.length := by simp [Buf.secs]
  have hna' : mpNoApp hash chunk col u.secs := mpNoApp_of_flat hash chunk u.secs col hna
  obtain ⟨h1, h2⟩ := mainPassG_upTo hash col chunk u hna' u.secs.length (Nat.le_refl _)
  rw [mainPass_eq, hlen, h1, h2]
  simp only [List.take_length, List.drop_length, List.append_nil]
  exact ⟨mpSpecG_col hash chunk u.secs col, trivial⟩

/-- the sections of every other chunk are left alone by the pass of `chunk` -/
theorem mainPassG_range_other (hash : Bytes → Nat) (col : Col) (chunk : Nat) (u : Buf)
    (hna : (applyData hash col chunk (u.rangeOps chunk)).appended = []) (c2 : Nat) (h : c2 ≠ chunk) :
    (mainPass hash col chunk u).2.1.range c2 = u.range c2 := by
  rw [(mainPassG hash col chunk u hna).2]
  unfold Buf.range
  rw [secs_set, mpSpecG_other hash chunk c2 h]

/-! ## C — the marker pass on a data column -/

/-- marker sections on a data column of any kind: `applyData` over the marker ops (what they append is dropped) -/
theorem markCol_data (hash : Bytes → Nat) (chunk : Nat) (secs : List (List Op)) (c : Col) (hd : c.kind.isData = true) :
    markCol hash chunk secs c = (applyData hash c chunk secs.flatten).col := by
  unfold markCol
  induction secs generalizing c with
  | nil => exact (applyData_nil hash c chunk).symm
  | cons ops rest ih =>
    simp only [List.foldl_cons, List.flatten_cons]
    have h1 : (c.applyAny hash chunk ops).1 = (applyData hash c chunk ops).col := by
      unfold Col.applyAny
      rw [if_pos hd]
    rw [h1, ih _ (by rw [(applyData_sameShape hash c chunk ops).kind]; exact hd), applyData_col_append]

/-- the marker ops `commitChunk` applies: those of the marker buffer for the chunk, when rows changed -/
def markerOpsCr (cr : Bool) (ups : List Buf) (chunk : Nat) : List Op := if cr then markerOps ups chunk else []

theorem markerOpsCr_isSome (ups : List Buf) (chunk : Nat) :
    markerOpsCr (ups.find? isMarkerBuf).isSome ups chunk = markerOps ups chunk := by
  unfold markerOpsCr markerOps
  cases ups.find? isMarkerBuf <;> rfl

theorem markStore_hash (s : Store) (chunk : Nat) (cr : Bool) (ups : List Buf) : (markStore s chunk cr ups).hash = s.hash := by
  unfold markStore
  split
  · split <;> rfl
  · rfl

/-- the data column `x` after the marker step of `commitChunk` -/
theorem markStore_col (s : Store) (chunk : Nat) (cr : Bool) (ups : List Buf) (x : String) (col : Col)
    (hf : s.findCol x = some col) (hd : col.kind.isData = true) :
    (markStore s chunk cr ups).findCol x = some (applyData s.hash col chunk (markerOpsCr cr ups chunk)).col := by
  have hp : (preStore s chunk).findCol x = some col := hf
  unfold markStore markerOpsCr markerOps
  cases cr with
  | false =>
    simp only [Bool.false_eq_true, if_false]
    rw [hp, applyData_nil]
  | true =>
    simp only [if_true]
    cases hm : ups.find? isMarkerBuf with
    | none =>
      simp only
      rw [hp, applyData_nil]
    | some m =>
      simp only
      rw [commitMarkers_findCol, hp, Option.map_some, markCol_data _ _ _ col hd]
      rfl

/-! ## D — `commitUpdates`, `commitChunk`, the chunk loop, `commit` -/

/-- the buffer of the data column `x` itself -/
theorem cuStep_self_col (chunk : Nat) (s : Store) (done : List Buf) (b : Bool) (u : Buf) (x : String) (col : Col)
    (hxr : x ≠ rowColumn) (hux : u.column = x) (hf : s.findCol x = some col) (hd : col.kind.isData = true)
    (hcomp : x ∉ col.computed) (hna : (applyData s.hash col chunk (u.rangeOps chunk)).appended = []) :
    (cuStep chunk (s, done, b) u).1.findCol x = some (applyData s.hash col chunk (u.rangeOps chunk)).col ∧
    ∃ u', (cuStep chunk (s, done, b) u).2.1 = done ++ [u'] ∧ BufRel x [chunk] u u' := by
  unfold cuStep
  simp only
  by_cases he : u.isEmpty = true
  · have hskip : (u.isEmpty || u.column == rowColumn) = true := by simp [he]
    rw [if_pos hskip]
    refine ⟨?_, u, rfl, BufRel.refl x _ u⟩
    rw [isEmpty_range u he chunk, applyData_nil]
    exact hf
  · have hskip : ¬ (u.isEmpty || u.column == rowColumn) = true := by
      rw [hux]; simpa [he] using hxr
    rw [if_neg hskip, hux, hf]
    simp only
    rw [if_pos hd]
    obtain ⟨m1, _⟩ := mainPassG s.hash col chunk u hna
    obtain ⟨g1, g2⟩ := mainPass_general s.hash col chunk u
    refine ⟨?_, _, rfl, g2, fun e => absurd (hux.symm.trans e) hxr, ?_⟩
    · rw [computedPass_frame _ _ _ _ x hcomp, findCol_with_panicked,
        setCol_found s col _ x hf g1.name x, if_pos rfl, m1]
    · intro _ c2 hc2
      exact mainPassG_range_other s.hash col chunk u hna c2 (by simpa using hc2)

/-- a buffer of another column: `x` is left alone, the buffer keeps its name, a `row` buffer is not rewritten -/
theorem cuStep_other_col (chunk : Nat) (s : Store) (done : List Buf) (b : Bool) (u : Buf) (x : String)
    (hux : u.column ≠ x) (hcomp : ∀ c, s.findCol u.column = some c → x ∉ c.computed) :
    (cuStep chunk (s, done, b) u).1.findCol x = s.findCol x ∧
    ∃ u', (cuStep chunk (s, done, b) u).2.1 = done ++ [u'] ∧ BufRel x [chunk] u u' := by
  refine ⟨cuStep_frame chunk s done b u x hux hcomp, ?_⟩
  obtain ⟨u', h1, h2, h3, _⟩ := cuStep_relP chunk s s done b u (RegSim.refl s)
  exact ⟨u', h1, h2, h3, fun e => absurd e hux⟩

/-- **`commitUpdates`, any data column**: the column `x` resolves to afterwards is `applyData` over the ops its buffer(s)
    hold for the chunk (`opsFor`), provided that pass appends nothing; the buffers keep their names, the `row` buffer is
    not rewritten, the buffers of `x` keep the sections of the other chunks -/
theorem cuFold_col (x : String) (chunk : Nat) (hxr : x ≠ rowColumn) (ups : List Buf) :
    ∀ (s : Store) (done : List Buf) (b : Bool) (col : Col), s.findCol x = some col → col.kind.isData = true →
      (∀ v ∈ ups, ∀ c, s.findCol v.column = some c → x ∉ c.computed) →
      (applyData s.hash col chunk (opsFor ups x chunk)).appended = [] →
      (ups.foldl (cuStep chunk) (s, done, b)).1.findCol x =
        some (applyData s.hash col chunk (opsFor ups x chunk)).col ∧
      ∃ ups', (ups.foldl (cuStep chunk) (s, done, b)).2.1 = done ++ ups' ∧ Rel2 (BufRel x [chunk]) ups ups' := by
  induction ups with
  | nil =>
    intro s done b col hf _ _ _
    refine ⟨?_, [], by simp, Rel2.nil⟩
    show s.findCol x = _
    rw [hf]
    unfold opsFor
    simp only [List.filter_nil, List.map_nil, List.flatten_nil]
    rw [applyData_nil]
  | cons u us ih =>
    intro s done b col hf hd hcomp hna
    simp only [List.foldl_cons]
    have hsim := cuStep_sim chunk s done b u
    have hcomp' : ∀ v ∈ us, ∀ c, (cuStep chunk (s, done, b) u).1.findCol v.column = some c → x ∉ c.computed := by
      intro v hv c hc
      obtain ⟨c0, hc0, sg⟩ := hsim.sig_back hc
      rw [sg.computed]
      exact hcomp v (by simp [hv]) c0 hc0
    have hhash := hsim.hash
    by_cases hux : u.column = x
    · rw [opsFor_cons_self u us x chunk hux, applyData_appended_append, List.append_eq_nil_iff] at hna
      obtain ⟨f1, u', e1, r1⟩ := cuStep_self_col chunk s done b u x col hxr hux hf hd
        (hcomp u (by simp) col (hux ▸ hf)) hna.1
      generalize cuStep chunk (s, done, b) u = r at f1 hcomp' hhash e1
      obtain ⟨r1s, r2, r3⟩ := r
      simp only at f1 hcomp' hhash e1
      obtain ⟨f2, us', e2, r2'⟩ := ih r1s r2 r3 _ f1
        (by rw [(applyData_sameShape s.hash col chunk (u.rangeOps chunk)).kind]; exact hd) hcomp'
        (by rw [hhash]; exact hna.2)
      refine ⟨?_, u' :: us', ?_, Rel2.cons r1 r2'⟩
      · rw [f2, hhash, opsFor_cons_self u us x chunk hux, applyData_col_append]
      · rw [e2, e1]; simp
    · rw [opsFor_cons_other u us x chunk hux] at hna
      obtain ⟨f1, u', e1, r1⟩ := cuStep_other_col chunk s done b u x hux (hcomp u (by simp))
      rw [hf] at f1
      generalize cuStep chunk (s, done, b) u = r at f1 hcomp' hhash e1
      obtain ⟨r1s, r2, r3⟩ := r
      simp only at f1 hcomp' hhash e1
      obtain ⟨f2, us', e2, r2'⟩ := ih r1s r2 r3 col f1 hd hcomp' (by rw [hhash]; exact hna)
      refine ⟨?_, u' :: us', ?_, Rel2.cons r1 r2'⟩
      · rw [f2, hhash, opsFor_cons_other u us x chunk hux]
      · rw [e2, e1]; simp

/-- as stated for `Store.commitUpdates` -/
theorem commitUpdates_col (s : Store) (chunk : Nat) (ups : List Buf) (x : String) (col : Col)
    (hxr : x ≠ rowColumn) (hf : s.findCol x = some col) (hd : col.kind.isData = true)
    (hcomp : ∀ v ∈ ups, ∀ c, s.findCol v.column = some c → x ∉ c.computed)
    (hna : (applyData s.hash col chunk (opsFor ups x chunk)).appended = []) :
    (s.commitUpdates chunk ups).1.findCol x = some (applyData s.hash col chunk (opsFor ups x chunk)).col ∧
    Rel2 (BufRel x [chunk]) ups (s.commitUpdates chunk ups).2.1 := by
  rw [commitUpdates_eq]
  obtain ⟨h1, ups', h2, h3⟩ := cuFold_col x chunk hxr ups s [] false col hf hd hcomp hna
  refine ⟨h1, ?_⟩
  rw [h2]; simpa using h3

theorem commitChunk_hash (s : Store) (chunk : Nat) (cr : Bool) (ups : List Buf) :
    (s.commitChunk chunk cr ups).1.hash = s.hash := by
  rw [commitChunk_def]
  obtain ⟨_, _, _, _, _, f6, _⟩ := finishChunk_fields (s.nextId + 1) chunk cr
    ((markStore s chunk cr ups).commitUpdates chunk ups)
  rw [f6, (commitUpdates_eq _ _ _), (cuFold_sim chunk ups (markStore s chunk cr ups) [] false).hash, markStore_hash]

/-- **one dirty chunk, any data column** (`commitChunk`): markers first, then the column's buffer(s). The column `x`
    resolves to afterwards is `applyData` over the marker ops of the chunk followed by the ops issued for `x` in the
    chunk — an equality of `Col` records. `hna`: the buffer pass appends nothing (automatic for numeric / enum / key
    columns, `applyData_appended_nil_of_kind`; for strings: no resizing merge). Also: the registry keeps its shape and
    the buffers of `x` keep the sections of the other chunks. -/
theorem commitChunk_col_full (s : Store) (chunk : Nat) (cr : Bool) (ups : List Buf) (x : String) (col : Col)
    (hxr : x ≠ rowColumn) (hf : s.findCol x = some col) (hd : col.kind.isData = true)
    (hcomp : ∀ v ∈ ups, ∀ c, s.findCol v.column = some c → x ∉ c.computed)
    (hna : (applyData s.hash (applyData s.hash col chunk (markerOpsCr cr ups chunk)).col chunk
      (opsFor ups x chunk)).appended = []) :
    (s.commitChunk chunk cr ups).1.findCol x =
      some (applyData s.hash col chunk (markerOpsCr cr ups chunk ++ opsFor ups x chunk)).col ∧
    RegSim s (s.commitChunk chunk cr ups).1 ∧
    Rel2 (BufRel x [chunk]) ups (s.commitChunk chunk cr ups).2 := by
  rw [commitChunk_def]
  obtain ⟨f1, f2, _⟩ := finishChunk_fields (s.nextId + 1) chunk cr
    ((markStore s chunk cr ups).commitUpdates chunk ups)
  have hreg := markStore_regSim s chunk cr ups
  have fm := markStore_col s chunk cr ups x col hf hd
  have hh := markStore_hash s chunk cr ups
  generalize markStore s chunk cr ups = ms at f1 f2 hreg fm hh
  have hcomp' : ∀ v ∈ ups, ∀ c, ms.findCol v.column = some c → x ∉ c.computed := by
    intro v hv c hc
    obtain ⟨c0, hc0, sg⟩ := hreg.sig_back hc
    rw [sg.computed]
    exact hcomp v hv c0 hc0
  obtain ⟨fu, hrel⟩ := commitUpdates_col ms chunk ups x _ hxr fm
    (by rw [(applyData_sameShape s.hash col chunk _).kind]; exact hd) hcomp' (by rw [hh]; exact hna)
  have hsim := commitUpdates_eq ms chunk ups ▸ cuFold_sim chunk ups ms [] false
  refine ⟨?_, RegSim.trans hreg (RegSim.trans hsim.reg (RegSim.of_cols f2)), ?_⟩
  · rw [findCol_congr f2, fu, hh, applyData_col_append]
  · rw [f1]; exact hrel

theorem commitChunk_col (s : Store) (chunk : Nat) (cr : Bool) (ups : List Buf) (x : String) (col : Col)
    (hxr : x ≠ rowColumn) (hf : s.findCol x = some col) (hd : col.kind.isData = true)
    (hcomp : ∀ v ∈ ups, ∀ c, s.findCol v.column = some c → x ∉ c.computed)
    (hna : (applyData s.hash (applyData s.hash col chunk (markerOpsCr cr ups chunk)).col chunk
      (opsFor ups x chunk)).appended = []) :
    (s.commitChunk chunk cr ups).1.findCol x =
      some (applyData s.hash col chunk (markerOpsCr cr ups chunk ++ opsFor ups x chunk)).col :=
  (commitChunk_col_full s chunk cr ups x col hxr hf hd hcomp hna).1

/-- the ops `commit` applies to the column `x` in the pass of chunk `ch`: the markers of the chunk, then the ops the
    buffer(s) of `x` hold for the chunk -/
def chunkOps (ups : List Buf) (x : String) (ch : Nat) : List Op := markerOps ups ch ++ opsFor ups x ch

/-- the column after the passes of the chunks `cs`, by the column-level function `applyData` alone -/
def colChunks (hash : Bytes → Nat) (ups : List Buf) (x : String) (cs : List Nat) (col : Col) : Col :=
  cs.foldl (fun c ch => (applyData hash c ch (chunkOps ups x ch)).col) col

/-- no buffer pass of the chunks `cs` appends a put (resizing string merge), each in the state in which it runs -/
def NoAppend (hash : Bytes → Nat) (ups : List Buf) (x : String) : List Nat → Col → Prop
  | [], _ => True
  | ch :: cs, c =>
    (applyData hash (applyData hash c ch (markerOps ups ch)).col ch (opsFor ups x ch)).appended = [] ∧
    NoAppend hash ups x cs (applyData hash c ch (chunkOps ups x ch)).col

instance decNoAppend (hash : Bytes → Nat) (ups : List Buf) (x : String) :
    (cs : List Nat) → (c : Col) → Decidable (NoAppend hash ups x cs c)
  | [], _ => isTrue trivial
  | ch :: cs, c =>
    have := decNoAppend hash ups x cs (applyData hash c ch (chunkOps ups x ch)).col
    inferInstanceAs (Decidable (_ ∧ _))

theorem colChunks_cons (hash : Bytes → Nat) (ups : List Buf) (x : String) (ch : Nat) (cs : List Nat) (col : Col) :
    colChunks hash ups x (ch :: cs) col = colChunks hash ups x cs (applyData hash col ch (chunkOps ups x ch)).col := rfl

theorem colChunks_shape (hash : Bytes → Nat) (ups : List Buf) (x : String) (cs : List Nat) (col : Col) :
    SameShape col (colChunks hash ups x cs col) := by
  unfold colChunks
  exact foldl_invariant (fun c => SameShape col c) _ cs col (SameShape.refl col)
    (fun b a _ hb => SameShape.trans hb (applyData_sameShape hash b a _))

theorem colChunks_congr (hash : Bytes → Nat) (ups ups' : List Buf) (x : String) (cs : List Nat)
    (h : ∀ c ∈ cs, chunkOps ups' x c = chunkOps ups x c) (col : Col) :
    colChunks hash ups' x cs col = colChunks hash ups x cs col := by
  induction cs generalizing col with
  | nil => rfl
  | cons c cs ih =>
    rw [colChunks_cons, colChunks_cons, h c (by simp)]
    exact ih (fun c' hc' => h c' (by simp [hc'])) _

theorem NoAppend_congr (hash : Bytes → Nat) (ups ups' : List Buf) (x : String) (cs : List Nat)
    (hm : ∀ c ∈ cs, markerOps ups' c = markerOps ups c) (ho : ∀ c ∈ cs, opsFor ups' x c = opsFor ups x c) (col : Col)
    (h : NoAppend hash ups x cs col) : NoAppend hash ups' x cs col := by
  induction cs generalizing col with
  | nil => trivial
  | cons c cs ih =>
    obtain ⟨h1, h2⟩ := h
    refine ⟨?_, ?_⟩
    · rw [hm c (by simp), ho c (by simp)]; exact h1
    · have : chunkOps ups' x c = chunkOps ups x c := by unfold chunkOps; rw [hm c (by simp), ho c (by simp)]
      rw [this]
      exact ih (fun c' hc' => hm c' (by simp [hc'])) (fun c' hc' => ho c' (by simp [hc'])) _ h2

/-- numeric, enum and key columns: nothing is ever appended -/
theorem NoAppend_of_kind (hash : Bytes → Nat) (ups : List Buf) (x : String) (cs : List Nat) (col : Col)
    (hk : col.kind ≠ .str ∧ col.kind ≠ .record) : NoAppend hash ups x cs col := by
  induction cs generalizing col with
  | nil => trivial
  | cons c cs ih =>
    refine ⟨applyData_appended_nil_of_kind hash _ c _ ?_, ih _ ?_⟩
    · rw [(applyData_sameShape hash col c _).kind]; exact hk
    · rw [(applyData_sameShape hash col c _).kind]; exact hk

/-- any data column: a transaction without `Merge` ops for `x` appends nothing -/
theorem NoAppend_of_no_merge (hash : Bytes → Nat) (ups : List Buf) (x : String) (cs : List Nat) (col : Col)
    (hm : ∀ c ∈ cs, ∀ o ∈ opsFor ups x c, o.typ ≠ opMerge) : NoAppend hash ups x cs col := by
  induction cs generalizing col with
  | nil => trivial
  | cons c cs ih =>
    exact ⟨applyData_appended_nil_of_no_merge hash _ c _ (hm c (by simp)), ih _ (fun c' hc' => hm c' (by simp [hc']))⟩

/-- **the chunk loop, any data column** -/
theorem commitLoop_col (x : String) (hxr : x ≠ rowColumn) (cs : List Nat) :
    ∀ (s : Store) (ups : List Buf) (col : Col) (cr : Bool), cs.Nodup → cr = (ups.find? isMarkerBuf).isSome →
      s.findCol x = some col → col.kind.isData = true →
      (∀ v ∈ ups, ∀ c, s.findCol v.column = some c → x ∉ c.computed) → NoAppend s.hash ups x cs col →
      (commitLoop cr cs s ups).1.findCol x = some (colChunks s.hash ups x cs col) := by
  induction cs with
  | nil =>
    intro s ups col cr _ _ hf _ _ _
    exact hf
  | cons c cs ih =>
    intro s ups col cr hnd hcr hf hd hcomp hna
    have hc_notin : c ∉ cs := (List.nodup_cons.1 hnd).1
    have hnd' : cs.Nodup := (List.nodup_cons.1 hnd).2
    obtain ⟨hna1, hna2⟩ := hna
    subst hcr
    obtain ⟨f1, hreg, hrel⟩ := commitChunk_col_full s c (ups.find? isMarkerBuf).isSome ups x col hxr hf hd hcomp
      (by rw [markerOpsCr_isSome]; exact hna1)
    have hh := commitChunk_hash s c (ups.find? isMarkerBuf).isSome ups
    rw [markerOpsCr_isSome] at f1
    unfold commitLoop
    simp only [List.foldl_cons]
    generalize s.commitChunk c (ups.find? isMarkerBuf).isSome ups = r at hreg f1 hrel hh
    obtain ⟨s1, ups1⟩ := r
    simp only at hreg f1 hrel hh
    have hfm := hrel.find_marker
    have hcomp1 : ∀ v ∈ ups1, ∀ c0, s1.findCol v.column = some c0 → x ∉ c0.computed := by
      intro v' hv' c0 hc0
      obtain ⟨v, hv, hb⟩ := hrel.columns v' hv'
      rw [hb.1] at hc0
      obtain ⟨c00, hc00, sg⟩ := hreg.sig_back hc0
      rw [sg.computed]
      exact hcomp v hv c00 hc00
    have hmo : ∀ c2 ∈ cs, markerOps ups1 c2 = markerOps ups c2 := by
      intro c2 _; unfold markerOps; rw [hfm]
    have hof : ∀ c2 ∈ cs, opsFor ups1 x c2 = opsFor ups x c2 := by
      intro c2 hc2
      apply hrel.opsFor c2
      intro e
      simp only [List.mem_singleton] at e
      exact hc_notin (e ▸ hc2)
    have hco : ∀ c2 ∈ cs, chunkOps ups1 x c2 = chunkOps ups x c2 := by
      intro c2 hc2; unfold chunkOps; rw [hmo c2 hc2, hof c2 hc2]
    have := ih s1 ups1 _ (ups.find? isMarkerBuf).isSome hnd' (by rw [hfm]) f1
      (by rw [(applyData_sameShape s.hash col c _).kind]; exact hd) hcomp1
      (by rw [hh]; exact NoAppend_congr s.hash ups ups1 x cs hmo hof _ hna2)
    unfold commitLoop at this
    rw [this, hh, colChunks_congr s.hash ups ups1 x cs hco, colChunks_cons]
    rfl

/-! ### `commitCapacity` in front of the loop -/

/-- what `commitCapacity` (called with the last dirty chunk) makes of a column -/
def capCol (s : Store) (t : Txn) (c : Col) : Col :=
  match t.dirtyChunks.getLast? with
  | some last => if s.commits.size ≥ last + 1 then c else c.grow (16384 * last + 16383)
  | none => c

theorem capStore_findCol_eq (s : Store) (t : Txn) (x : String) :
    (capStore s t).findCol x = (s.findCol x).map (capCol s t) := by
  unfold capStore capCol
  cases hl : t.dirtyChunks.getLast? with
  | none => simp
  | some last =>
    simp only
    rw [commitCapacity_findCol]
    split
    · simp
    · rfl

theorem capStore_hash (s : Store) (t : Txn) : (capStore s t).hash = s.hash := by
  unfold capStore
  cases t.dirtyChunks.getLast? with
  | none => rfl
  | some last =>
    simp only
    unfold Store.commitCapacity
    split <;> rfl

theorem capCol_meta (s : Store) (t : Txn) (c : Col) :
    (capCol s t c).name = c.name ∧ (capCol s t c).kind = c.kind ∧ (capCol s t c).computed = c.computed ∧
    (capCol s t c).merge = c.merge := by
  unfold capCol
  cases t.dirtyChunks.getLast? with
  | none => exact ⟨rfl, rfl, rfl, rfl⟩
  | some last =>
    simp only
    split
    · exact ⟨rfl, rfl, rfl, rfl⟩
    · exact grow_meta c _

/-- **`commit`, any data column** (any number of dirty chunks, any other buffers): the column `x` resolves to after
    `s.commit t` is the fold over the dirty chunks, ascending, of `applyData` over the chunk's markers followed by the ops
    issued for `x` in that chunk, starting from the column as `commitCapacity` leaves it (`capCol`: grown when the last
    dirty chunk is new, else unchanged) -/
theorem commit_col (s : Store) (t : Txn) (x : String) (col : Col)
    (hxr : x ≠ rowColumn) (hf : s.findCol x = some col) (hd : col.kind.isData = true)
    (hcomp : ∀ v ∈ t.updates, ∀ c, s.findCol v.column = some c → x ∉ c.computed)
    (hna : NoAppend s.hash t.updates x t.dirtyChunks (capCol s t col)) :
    (s.commit t).findCol x = some (colChunks s.hash t.updates x t.dirtyChunks (capCol s t col)) := by
  rw [commit_eq']
  have f1 : (capStore s t).findCol x = some (capCol s t col) := by rw [capStore_findCol_eq, hf]; rfl
  have hcomp1 : ∀ v ∈ t.updates, ∀ c, (capStore s t).findCol v.column = some c → x ∉ c.computed := by
    intro v hv c hc
    obtain ⟨c0, hc0, e⟩ := capStore_computed s t v.column c hc
    rw [e]; exact hcomp v hv c0 hc0
  have := commitLoop_col x hxr t.dirtyChunks (capStore s t) t.updates (capCol s t col) t.markers.isSome
    (sorted_nodup _ (dirtyChunks_sorted t)) rfl f1 (by rw [(capCol_meta s t col).2.1]; exact hd) hcomp1
    (by rw [capStore_hash]; exact hna)
  rw [this, capStore_hash]

/-! ## E — frame lemmas, `Col.grow` on data columns, `ColWF` -/

/-- a step touches the slot of its own offset only (every data kind) -/
theorem stepOf_slot_ne (hash : Bytes → Nat) (k : Kind) (acc : ApplyAcc) (o : Op) (i : Nat) (hne : o.idx ≠ i) :
    slot (stepOf hash k acc o).1 i = slot acc.1 i := by
  obtain ⟨c, done, app⟩ := acc
  cases k with
  | num nk =>
    show slot (stepNum nk (c, done, app) o).1 i = slot c i
    unfold stepNum slot
    simp only
    split
    · simp [Bits.get, hne]
    · split
      · simp [Bits.get, hne]
      · split
        · simp [Bits.get, hne]
        · rfl
  | str =>
    show slot (stepStr (c, done, app) o).1 i = slot c i
    unfold stepStr slot
    simp only
    split
    · simp [Bits.get, hne]
    · split
      · split <;> simp [Bits.get, hne]
      · split
        · simp [Bits.get, hne]
        · rfl
  | record =>
    show slot (stepStr (c, done, app) o).1 i = slot c i
    unfold stepStr slot
    simp only
    split
    · simp [Bits.get, hne]
    · split
      · split <;> simp [Bits.get, hne]
      · split
        · simp [Bits.get, hne]
        · rfl
  | enum =>
    show slot (stepEnum hash (c, done, app) o).1 i = slot c i
    unfold stepEnum slot
    simp only
    split
    · simp [Bits.get, hne]
    · split
      · simp [Bits.get, hne]
      · rfl
  | key =>
    show slot (stepKey (c, done, app) o).1 i = slot c i
    unfold stepKey slot
    simp only
    split
    · simp [Bits.get, hne]
    · split
      · simp [Bits.get, hne]
      · rfl
  | bool => rfl
  | index t r => rfl
  | trigger t => rfl
  | sorted t => rfl

/-- frame, one section: a slot no op addresses is left alone -/
theorem applyData_slot_frame (hash : Bytes → Nat) (c : Col) (chunk : Nat) (ops : List Op) (i : Nat)
    (h : ∀ o ∈ ops, o.idx ≠ i) : slot (applyData hash c chunk ops).col i = slot c i := by
  by_cases hc : chunk < c.nchunks
  · rw [(applyData_of_lt hash c chunk ops hc).1]
    exact foldl_invariant (fun (a : ApplyAcc) => slot a.1 i = slot c i) _ ops (c, [], []) rfl
      (fun b a ha hb => (stepOf_slot_ne hash c.kind b a i (h a ha)).trans hb)
  · rw [applyData_of_ge hash c chunk ops (by omega)]

/-- frame, chunk loop -/
theorem colChunks_slot_frame (hash : Bytes → Nat) (ups : List Buf) (x : String) (cs : List Nat) (col : Col) (i : Nat)
    (h : ∀ ch ∈ cs, ∀ o ∈ chunkOps ups x ch, o.idx ≠ i) : slot (colChunks hash ups x cs col) i = slot col i := by
  unfold colChunks
  exact foldl_invariant (fun c => slot c i = slot col i) _ cs col rfl
    (fun b a ha hb => (applyData_slot_frame hash b a _ i (h a ha)).trans hb)

/-- the pass of chunk `ch` leaves the slots of every other chunk alone (ops of a chunk's sections address that chunk) -/
theorem applyData_chunk_frame (hash : Bytes → Nat) (c : Col) (chunk : Nat) (ops : List Op) (i : Nat)
    (hops : ∀ o ∈ ops, chunkOf o.idx = chunk) (hi : chunkOf i ≠ chunk) :
    slot (applyData hash c chunk ops).col i = slot c i :=
  applyData_slot_frame hash c chunk ops i (fun o ho e => hi (e ▸ hops o ho))

theorem rangeOps_sub_allOps (u : Buf) (c : Nat) : ∀ o ∈ u.rangeOps c, o ∈ u.allOps := by
  intro o ho
  unfold Buf.rangeOps Buf.range at ho
  unfold Buf.allOps
  obtain ⟨l, hl, hol⟩ := List.mem_flatten.1 ho
  obtain ⟨sec, hsec, rfl⟩ := List.mem_map.1 hl
  exact List.mem_flatten.2 ⟨sec.ops, List.mem_map.2 ⟨sec, (List.mem_filter.1 hsec).1, rfl⟩, hol⟩

/-- the ops applied in any chunk pass are ops the transaction issued (as marker or for `x`) -/
theorem chunkOps_sub_issued (ups : List Buf) (x : String) (ch : Nat) :
    ∀ o ∈ chunkOps ups x ch, o ∈ markerAll ups ++ allFor ups x := by
  intro o ho
  unfold chunkOps at ho
  rw [List.mem_append] at ho ⊢
  rcases ho with ho | ho
  · left
    unfold markerOps at ho
    unfold markerAll
    cases hm : ups.find? isMarkerBuf with
    | none => rw [hm] at ho; cases ho
    | some m => rw [hm] at ho; exact rangeOps_sub_allOps m ch o ho
  · right
    unfold opsFor at ho
    unfold allFor
    obtain ⟨l, hl, hol⟩ := List.mem_flatten.1 ho
    obtain ⟨v, hv, rfl⟩ := List.mem_map.1 hl
    exact List.mem_flatten.2 ⟨v.allOps, List.mem_map.2 ⟨v, hv, rfl⟩, rangeOps_sub_allOps v ch o hol⟩

/-- `Grow` on a data column, as an equation -/
theorem grow_data_eq (c : Col) (hd : c.kind.isData = true) (idx : Nat) :
    c.grow idx =
      if c.nchunks < idx / 16384 + 1 then
        { c with nchunks := idx / 16384 + 1,
                 bits := c.bits ++ Array.replicate (16384 * (idx / 16384 + 1) - c.bits.size) false,
                 data := c.data ++ Array.replicate (16384 * (idx / 16384 + 1) - c.data.size) [] }
      else c := by
  unfold Col.grow
  split <;> first
    | rfl
    | (rename_i h; rw [h] at hd; cases hd)

/-- `Grow` of a data column of any kind: same slots, same key table and interning table, the chunk of `idx` allocated,
    well-formed arrays stay well-formed -/
theorem grow_data (c : Col) (hd : c.kind.isData = true) (idx : Nat) :
    (c.grow idx).seek = c.seek ∧ (c.grow idx).intern = c.intern ∧ c.nchunks ≤ (c.grow idx).nchunks ∧
    idx / 16384 < (c.grow idx).nchunks ∧ (∀ i, slot (c.grow idx) i = slot c i) ∧ (ColWF c → ColWF (c.grow idx)) ∧
    c.bits.size ≤ (c.grow idx).bits.size ∧ c.data.size ≤ (c.grow idx).data.size := by
  rw [grow_data_eq c hd idx]
  split
  · rename_i h
    refine ⟨rfl, rfl, by simp only; omega, by simp only; omega, ?_, ?_, by simp, by simp⟩
    · intro i
      unfold slot
      simp only [get_append_replicate_false, data_append_replicate_nil]
    · intro hw
      have h2 : 16384 * c.nchunks ≤ 16384 * (idx / 16384 + 1) := Nat.mul_le_mul_left _ (Nat.le_of_lt h)
      refine ⟨?_, ?_⟩
      · simp only [Array.size_append, Array.size_replicate]
        have := hw.bsize
        omega
      · simp only [Array.size_append, Array.size_replicate]
        have := hw.dsize
        omega
  · rename_i h
    exact ⟨rfl, rfl, Nat.le_refl _, by omega, fun i => rfl, fun hw => hw, Nat.le_refl _, Nat.le_refl _⟩

/-- the data column `x` when the chunk loop starts (any kind): same slots and tables; with well-formed arrays and the
    committed chunks covered, every dirty chunk is allocated -/
theorem capCol_data (s : Store) (t : Txn) (c : Col) (hd : c.kind.isData = true) :
    (capCol s t c).seek = c.seek ∧ (capCol s t c).intern = c.intern ∧ c.nchunks ≤ (capCol s t c).nchunks ∧
    (∀ i, slot (capCol s t c) i = slot c i) ∧ (ColWF c → ColWF (capCol s t c)) ∧
    (s.commits.size ≤ c.nchunks → ∀ ch ∈ t.dirtyChunks, ch < (capCol s t c).nchunks) := by
  have hsorted := dirtyChunks_sorted t
  unfold capCol
  cases hl : t.dirtyChunks.getLast? with
  | none =>
    rw [List.getLast?_eq_none_iff] at hl
    refine ⟨rfl, rfl, Nat.le_refl _, fun i => rfl, fun hw => hw, fun _ ch hch => ?_⟩
    rw [hl] at hch; cases hch
  | some last =>
    simp only
    have hle := sorted_le_getLast _ hsorted last hl
    split
    · rename_i hge
      refine ⟨rfl, rfl, Nat.le_refl _, fun i => rfl, fun hw => hw, fun hcov ch hch => ?_⟩
      have := hle ch hch
      omega
    · obtain ⟨g1, g2, g3, g4, g5, g6, _⟩ := grow_data c hd (16384 * last + 16383)
      refine ⟨g1, g2, g3, g5, g6, fun _ ch hch => ?_⟩
      have := hle ch hch
      omega

/-! ## F — the store configuration through `commit`; transfer of the key invariant -/

theorem commitLoop_plumb (cr : Bool) (cs : List Nat) (s : Store) (ups : List Buf) :
    StorePlumb.Plumb s (commitLoop cr cs s ups).1 := by
  induction cs generalizing s ups with
  | nil => exact StorePlumb.Plumb.refl s
  | cons c cs ih =>
    unfold commitLoop
    simp only [List.foldl_cons]
    have h1 := StorePlumb.commitChunk_plumb s c cr ups
    generalize s.commitChunk c cr ups = r at h1
    obtain ⟨s1, ups1⟩ := r
    have := ih s1 ups1
    unfold commitLoop at this
    exact StorePlumb.Plumb.trans h1 this

/-- `commit` never changes the configuration: names, logger, recording flag, primary key, hash function, capacity -/
theorem commit_plumb (s : Store) (t : Txn) : StorePlumb.Plumb s (s.commit t) := by
  rw [commit_eq']
  refine StorePlumb.Plumb.trans ?_ (commitLoop_plumb _ _ _ _)
  unfold capStore
  cases t.dirtyChunks.getLast? with
  | none => exact StorePlumb.Plumb.refl s
  | some last => exact StorePlumb.commitCapacity_plumb s last

theorem commit_pk (s : Store) (t : Txn) : (s.commit t).pk = s.pk := (commit_plumb s t).pk

theorem commit_hash (s : Store) (t : Txn) : (s.commit t).hash = s.hash := (commit_plumb s t).hash

/-- the key invariant only looks at the table, the slots and the array sizes -/
theorem keyInv_transfer (c c' : Col) (hseek : c'.seek = c.seek) (hslot : ∀ i, slot c' i = slot c i)
    (hb : c.bits.size ≤ c'.bits.size) (hd : c.data.size ≤ c'.data.size) (hw : c.bits.size ≤ c.data.size)
    (h : KeyInv c) : KeyInv c' := by
  intro k o
  have hs := hslot o
  unfold slot at hs
  simp only [Prod.mk.injEq] at hs
  rw [hseek, hs.1, hs.2, h k o]
  constructor
  · intro hh
    exact ⟨hh.1, hh.2.1, by omega, by omega⟩
  · intro hh
    have hlt : o < c.bits.size := by
      false_or_by_contra
      have := hh.1
      rw [get_of_ge _ _ (by omega)] at this
      cases this
    exact ⟨hh.1, hh.2.1, hlt, by omega⟩

/-! ## G — slot-level reading of a commit, for every kind with a per-section slot law -/

/-- a per-section slot law for columns of kind `kind` with merge function `merge`: after one `applyData` pass over an
    in-bounds section of an allocated chunk, the slot of every offset is the fold of `E` over the ops addressed to it -/
def SlotLaw (hash : Bytes → Nat) (kind : Kind) (merge : Bytes → Bytes → Bytes)
    (E : Bool × Bytes → Op → Bool × Bytes) : Prop :=
  ∀ (c : Col) (chunk : Nat) (ops : List Op) (i : Nat), c.kind = kind → c.merge = merge → chunk < c.nchunks →
    InBounds c ops → slot (applyData hash c chunk ops).col i = (ops.filter (fun o => o.idx = i)).foldl E (slot c i)

/-- numeric columns: `slotEffect` with the kind's width -/
theorem slotLaw_num (hash : Bytes → Nat) (k : NumKind) (merge : Bytes → Bytes → Bytes) :
    SlotLaw hash (.num k) merge (slotEffect merge k.width) := by
  intro c chunk ops i hk hm hch hin
  rw [applyData_num hash c k hk chunk hch, ← hm]
  exact foldCol_slot k ops c i hin

/-- string and record columns: `slotEffect` without padding -/
theorem slotLaw_str (hash : Bytes → Nat) (kind : Kind) (hkind : kind = .str ∨ kind = .record)
    (merge : Bytes → Bytes → Bytes) : SlotLaw hash kind merge (slotEffect merge 0) := by
  intro c chunk ops i hk hm hch hin
  rw [applyData_str hash c chunk ops (by rw [hk]; exact hkind) hch, ← hm]
  exact foldStr_slot ops (c, [], []) i hin

/-- enum columns: the 4-byte hash of the last `Put` -/
theorem slotLaw_enum (hash : Bytes → Nat) (merge : Bytes → Bytes → Bytes) :
    SlotLaw hash .enum merge (enumEffect hash) := by
  intro c chunk ops i hk _ hch hin
  rw [applyData_enum hash c chunk ops hk hch]
  exact foldEnum_slot hash ops (c, [], []) i hin

/-- effect of one op on the slot of its own offset in a key column: `Put` stores, `Delete` clears the presence bit,
    everything else (also `Merge`) leaves the slot alone -/
def keyEffect (st : Bool × Bytes) (o : Op) : Bool × Bytes :=
  if o.typ = opPut then (true, valRaw o.val) else if o.typ = opDelete then (false, st.2) else st

theorem stepKey_slot (acc : ApplyAcc) (o : Op) (i : Nat) (hb : o.idx < acc.1.bits.size) (hd : o.idx < acc.1.data.size) :
    slot (stepKey acc o).1 i = if i = o.idx then keyEffect (slot acc.1 i) o else slot acc.1 i := by
  unfold keyEffect
  by_cases h1 : o.typ = opPut
  · rw [if_pos h1]
    have e1 := stepKey_put_bits acc o h1 hb i
    have e2 := stepKey_put_data acc o h1 hd i
    unfold keyAt at e2
    unfold slot
    rw [e1, e2]
    split <;> rfl
  · rw [if_neg h1]
    by_cases h2 : o.typ = opDelete
    · rw [if_pos h2]
      unfold slot
      rw [stepKey_delete_bits acc o h2 hb i, stepKey_delete_data acc o h2]
      split <;> rfl
    · rw [if_neg h2, stepKey_other acc o h1 h2]
      split <;> rfl

theorem foldKey_slot (ops : List Op) (acc : ApplyAcc) (i : Nat) (hin : InBounds acc.1 ops) :
    slot (ops.foldl stepKey acc).1 i = (ops.filter (fun o => o.idx = i)).foldl keyEffect (slot acc.1 i) := by
  induction ops generalizing acc with
  | nil => rfl
  | cons o os ih =>
    simp only [List.foldl_cons]
    have ho := hin o (by simp)
    have hs := stepKey_shape acc o
    have hin' : InBounds (stepKey acc o).1 os := by
      intro x hx
      have := hin x (by simp [hx])
      rw [hs.bsize, hs.dsize]; exact this
    rw [ih _ hin', stepKey_slot acc o i ho.1 ho.2]
    by_cases e : o.idx = i
    · have e' : i = o.idx := e.symm
      have hd : decide (o.idx = i) = true := by simpa using e
      rw [if_pos e', List.filter_cons, if_pos hd]; rfl
    · have e' : ¬ i = o.idx := fun h => e h.symm
      have hd : ¬ decide (o.idx = i) = true := by simpa using e
      rw [if_neg e', List.filter_cons, if_neg hd]

/-- key columns -/
theorem slotLaw_key (hash : Bytes → Nat) (merge : Bytes → Bytes → Bytes) : SlotLaw hash .key merge keyEffect := by
  intro c chunk ops i hk _ hch hin
  rw [applyData_key hash c chunk ops hk hch]
  exact foldKey_slot ops (c, [], []) i hin

/-- the chunk loop at slot level: the slot of `i` is touched by the pass of its own chunk only -/
theorem colChunks_slot (hash : Bytes → Nat) (ups : List Buf) (x : String) (E : Bool × Bytes → Op → Bool × Bytes)
    (cs : List Nat) :
    ∀ col : Col, SlotLaw hash col.kind col.merge E → cs.Nodup → ColWF col → (∀ c ∈ cs, c < col.nchunks) →
      (∀ c ∈ cs, ∀ o ∈ chunkOps ups x c, chunkOf o.idx = c) →
      ∀ i, slot (colChunks hash ups x cs col) i =
        if chunkOf i ∈ cs then ((chunkOps ups x (chunkOf i)).filter (fun o => o.idx = i)).foldl E (slot col i)
        else slot col i := by
  induction cs with
  | nil => intro col _ _ _ _ _ i; simp [colChunks]
  | cons c cs ih =>
    intro col hlaw hnd hw hch hco i
    have hc_notin : c ∉ cs := (List.nodup_cons.1 hnd).1
    have hnd' : cs.Nodup := (List.nodup_cons.1 hnd).2
    have hsh := applyData_sameShape hash col c (chunkOps ups x c)
    rw [colChunks_cons, ih _ (by rw [hsh.kind, hsh.merge]; exact hlaw) hnd' (ColWF.of_shape hsh hw)
      (fun c' hc' => by rw [hsh.nchunks]; exact hch c' (by simp [hc']))
      (fun c' hc' => hco c' (by simp [hc'])) i]
    have hin : InBounds col (chunkOps ups x c) := inBounds_of_chunk col c _ hw (hch c (by simp)) (hco c (by simp))
    by_cases hic : chunkOf i = c
    · have h1 : chunkOf i ∉ cs := by rw [hic]; exact hc_notin
      have h2 : chunkOf i ∈ c :: cs := by rw [hic]; simp
      rw [if_neg h1, if_pos h2, hic]
      exact hlaw col c _ i rfl rfl (hch c (by simp)) hin
    · have hsame := applyData_chunk_frame hash col c (chunkOps ups x c) i (hco c (by simp)) hic
      by_cases hics : chunkOf i ∈ cs
      · rw [if_pos hics, if_pos (by simp [hics]), hsame]
      · have h2 : chunkOf i ∉ c :: cs := by
          intro h; rcases List.mem_cons.1 h with h | h
          · exact hic h
          · exact hics h
        rw [if_neg hics, if_neg h2, hsame]

/-- **`commit` at slot level, any data kind with a slot law** (generalises `commit_readback`): after `s.commit t`, every
    slot of `x` is the fold of `E`, over what the slot held before, of the transaction's markers addressed to that offset
    followed by the ops issued for `x` at that offset, in issue order -/
theorem commit_slot_of_eq (s : Store) (t : Txn) (x : String) (col : Col) (E : Bool × Bytes → Op → Bool × Bytes)
    (hd : col.kind.isData = true) (hw : ColWF col) (hcov : s.commits.size ≤ col.nchunks)
    (hfind : (s.commit t).findCol x = some (colChunks s.hash t.updates x t.dirtyChunks (capCol s t col)))
    (hlaw : SlotLaw s.hash col.kind col.merge E)
    (hinv : ∀ v ∈ t.updates, (v.column = x ∨ isMarkerBuf v = true) → ChunkOK v) :
    ∃ col', (s.commit t).findCol x = some col' ∧ col'.kind = col.kind ∧ col'.merge = col.merge ∧ ColWF col' ∧
      col.nchunks ≤ col'.nchunks ∧ (∀ c ∈ t.dirtyChunks, c < col'.nchunks) ∧
      col' = colChunks s.hash t.updates x t.dirtyChunks (capCol s t col) ∧
      ∀ i, slot col' i =
        ((markerAll t.updates ++ allFor t.updates x).filter (fun o => o.idx = i)).foldl E (slot col i) := by
  obtain ⟨_, _, g3, g4, g5, g6⟩ := capCol_data s t col hd
  obtain ⟨_, m2, _, m4⟩ := capCol_meta s t col
  have hsh := colChunks_shape s.hash t.updates x t.dirtyChunks (capCol s t col)
  have hco : ChunkOps x t.updates t.dirtyChunks := by
    intro v hv hor c _ o ho
    exact rangeOps_chunk v (hinv v hv hor) c o ho
  have hco' : ∀ c ∈ t.dirtyChunks, ∀ o ∈ chunkOps t.updates x c, chunkOf o.idx = c := by
    intro c hc o ho
    unfold chunkOps at ho
    rcases List.mem_append.1 ho with ho | ho
    · exact markerOps_chunk x t.updates _ hco c hc o ho
    · exact opsFor_chunk x t.updates _ hco c hc o ho
  refine ⟨_, hfind, hsh.kind.trans m2, hsh.merge.trans m4,
    ColWF.of_shape hsh (g5 hw), by rw [hsh.nchunks]; exact g3, fun c hc => by rw [hsh.nchunks]; exact g6 hcov c hc,
    rfl, ?_⟩
  intro i
  rw [colChunks_slot s.hash t.updates x E t.dirtyChunks (capCol s t col) (by rw [m2, m4]; exact hlaw)
    (sorted_nodup _ (dirtyChunks_sorted t)) (g5 hw) (g6 hcov) hco' i, g4 i]
  by_cases hdc : chunkOf i ∈ t.dirtyChunks
  · rw [if_pos hdc]
    unfold chunkOps
    rw [List.filter_append, List.filter_append,
      markerOps_filter_idx t.updates i (fun v hv hm => hinv v hv (Or.inr hm)),
      opsFor_filter_idx t.updates x i (fun v hv hx => hinv v hv (Or.inl hx))]
  · rw [if_neg hdc]
    symm
    apply foldl_filter_none
    intro o ho e
    apply hdc
    rw [← e]
    exact issued_chunk_dirty t x hinv o ho

theorem commit_slot (s : Store) (t : Txn) (x : String) (col : Col) (E : Bool × Bytes → Op → Bool × Bytes)
    (hxr : x ≠ rowColumn) (hf : s.findCol x = some col) (hd : col.kind.isData = true) (hw : ColWF col)
    (hcov : s.commits.size ≤ col.nchunks)
    (hcomp : ∀ v ∈ t.updates, ∀ c, s.findCol v.column = some c → x ∉ c.computed)
    (hna : NoAppend s.hash t.updates x t.dirtyChunks (capCol s t col))
    (hlaw : SlotLaw s.hash col.kind col.merge E)
    (hinv : ∀ v ∈ t.updates, (v.column = x ∨ isMarkerBuf v = true) → ChunkOK v) :
    ∃ col', (s.commit t).findCol x = some col' ∧ col'.kind = col.kind ∧ col'.merge = col.merge ∧ ColWF col' ∧
      col.nchunks ≤ col'.nchunks ∧ (∀ c ∈ t.dirtyChunks, c < col'.nchunks) ∧
      col' = colChunks s.hash t.updates x t.dirtyChunks (capCol s t col) ∧
      ∀ i, slot col' i =
        ((markerAll t.updates ++ allFor t.updates x).filter (fun o => o.idx = i)).foldl E (slot col i) :=
  commit_slot_of_eq s t x col E hd hw hcov (commit_col s t x col hxr hf hd hcomp hna) hlaw hinv

/-! ## H — more sufficient conditions for `NoAppend`; small facts for the property file -/

/-- a merge function whose result is as long as the delta ("last wins", fixed-width counters in a string column, …)
    never resizes: nothing is appended -/
theorem stepStr_app_nil_len (acc : ApplyAcc) (o : Op) (hm : ∀ v d, (acc.1.merge v d).length = d.length) :
    (stepStr acc o).2.2 = acc.2.2 := by
  obtain ⟨c, done, app⟩ := acc
  unfold stepStr
  simp only
  split
  · rfl
  · split
    · rw [if_pos (hm _ _)]
    · split <;> rfl

theorem applyData_appended_nil_of_len (hash : Bytes → Nat) (c : Col) (chunk : Nat) (ops : List Op)
    (hm : ∀ v d, (c.merge v d).length = d.length) : (applyData hash c chunk ops).appended = [] := by
  by_cases hk : c.kind ≠ .str ∧ c.kind ≠ .record
  · exact applyData_appended_nil_of_kind hash c chunk ops hk
  · by_cases h : chunk < c.nchunks
    · rw [(applyData_of_lt hash c chunk ops h).2.2]
      have hstep : stepOf hash c.kind = stepStr := by
        cases hkk : c.kind <;> rw [hkk] at hk <;> simp at hk <;> rfl
      rw [hstep]
      have := foldl_invariant (fun (a : ApplyAcc) => a.2.2 = [] ∧ SameShape c a.1) stepStr ops (c, [], [])
        ⟨rfl, SameShape.refl c⟩ (fun b a _ hb =>
          ⟨(stepStr_app_nil_len b a (by rw [hb.2.merge]; exact hm)).trans hb.1,
           SameShape.trans hb.2 (by have := stepOf_sameShape hash c.kind b a; rw [hstep] at this; exact this)⟩)
      exact this.1
    · rw [applyData_of_ge hash c chunk ops (by omega)]

theorem NoAppend_of_len (hash : Bytes → Nat) (ups : List Buf) (x : String) (cs : List Nat) (col : Col)
    (hm : ∀ v d, (col.merge v d).length = d.length) : NoAppend hash ups x cs col := by
  induction cs generalizing col with
  | nil => trivial
  | cons c cs ih =>
    refine ⟨applyData_appended_nil_of_len hash _ c _ ?_, ih _ ?_⟩
    · rw [(applyData_sameShape hash col c _).merge]; exact hm
    · rw [(applyData_sameShape hash col c _).merge]; exact hm

theorem opsFor_sub_allFor (ups : List Buf) (x : String) (ch : Nat) : ∀ o ∈ opsFor ups x ch, o ∈ allFor ups x := by
  intro o ho
  unfold opsFor at ho
  unfold allFor
  obtain ⟨l, hl, hol⟩ := List.mem_flatten.1 ho
  obtain ⟨v, hv, rfl⟩ := List.mem_map.1 hl
  exact List.mem_flatten.2 ⟨v.allOps, List.mem_map.2 ⟨v, hv, rfl⟩, rangeOps_sub_allOps v ch o hol⟩

theorem opsFor_none (ups : List Buf) (x : String) (ch : Nat) (h : ∀ v ∈ ups, v.column ≠ x) : opsFor ups x ch = [] := by
  induction ups with
  | nil => rfl
  | cons u us ih =>
    rw [opsFor_cons_other u us x ch (h u (by simp))]
    exact ih (fun v hv => h v (by simp [hv]))

theorem isData_of_storesRaw {k : Kind} (h : k.storesRaw = true) : k.isData = true := by
  cases k <;> first | rfl | cases h

/-- a data column is never a computed column attached to another one, once computed columns are known to be indexes,
    triggers or sorted indexes (`ComputedKinds`, what `createComputed` registers) -/
theorem notComputed_of_computedKinds (s : Store) (hck : ComputedKinds s) (x : String) (col : Col)
    (hf : s.findCol x = some col) (hd : col.kind.isData = true) (ups : List Buf) :
    ∀ v ∈ ups, ∀ c, s.findCol v.column = some c → x ∉ c.computed := by
  intro v _ c hc hx
  have := hck v.column c hc x hx col hf
  cases hk : col.kind <;> rw [hk] at hd this <;> simp [Kind.isData, Kind.isComputed] at hd this


/-!
# Second part — passes that DO append (resizing string merges), one section per chunk

The main pass of a data column over a buffer whose pass appends puts, when the chunk has a single section in the buffer:
the appended puts then land behind everything the loop still has to visit for that chunk and are not re-applied. Gives
`PassOK` (per pass: nothing appended, or one section in a well-formed buffer), the plumbing redone for it (`BufsOK`,
`ChunksOK`), `commit_col_ok` / `commit_slot_ok` — of which `commit_col` / `commit_slot` above are the `NoAppend` instances.
-/

/-! ## X1 — the part of `Buf.Inv` the passes need; `put` / `putAll` -/

structure BufOK (b : Buf) : Prop where
  chunk_ok : ChunkOK b
  cur_ok : ∀ s rest, b.rsecs = s :: rest → ∀ c, b.cur = some c → s.chunk = c

theorem BufOK.of_inv {b : Buf} (h : b.Inv) : BufOK b := ⟨h.chunk_ok, h.cur_ok⟩

/-- the two things `put` can do: extend the head section (the buffer is "in" the op's chunk), or open a new section -/
theorem put_forms (b : Buf) (o : Op) :
    (∃ s rest, b.rsecs = s :: rest ∧ b.cur = some (chunkOf o.idx) ∧
      b.put o = { b with last := o.idx, rsecs := { s with rops := o :: s.rops } :: rest }) ∨
    (b.put o = { b with last := o.idx, cur := some (chunkOf o.idx),
                        rsecs := ⟨chunkOf o.idx, b.last, [o]⟩ :: b.rsecs }) := by
  by_cases hc : b.cur = some (chunkOf o.idx)
  · cases hr : b.rsecs with
    | nil =>
      right
      unfold Buf.put
      simp only [hc, if_true, hr]
    | cons s rest =>
      left
      exact ⟨s, rest, rfl, hc, Buf.put_eq_same b o s rest hr hc⟩
  · right
    exact Buf.put_eq_new b o hc

theorem put_bufOK (b : Buf) (o : Op) (h : BufOK b) : BufOK (b.put o) := by
  rcases put_forms b o with ⟨s, rest, hr, hc, he⟩ | he
  · rw [he]
    have hsc : s.chunk = chunkOf o.idx := h.cur_ok s rest hr _ hc
    refine ⟨?_, ?_⟩
    · intro s' hs' x hx
      simp only [List.mem_cons] at hs'
      rcases hs' with rfl | hs'
      · simp only [List.mem_cons] at hx
        rcases hx with rfl | hx
        · exact hsc.symm
        · exact h.chunk_ok s (by rw [hr]; simp) x hx
      · exact h.chunk_ok s' (by rw [hr]; simp [hs']) x hx
    · intro s' rest' hsr c hcc
      simp only [List.cons.injEq] at hsr
      rw [← hsr.1]
      exact h.cur_ok s rest hr c hcc
  · rw [he]
    refine ⟨?_, ?_⟩
    · intro s' hs' x hx
      simp only [List.mem_cons] at hs'
      rcases hs' with rfl | hs'
      · simp only [List.mem_singleton] at hx; subst hx; rfl
      · exact h.chunk_ok s' hs' x hx
    · intro s' rest' hsr c hcc
      simp only [List.cons.injEq] at hsr
      simp only [Option.some.injEq] at hcc
      rw [← hsr.1]; exact hcc

theorem put_range_other (b : Buf) (o : Op) (h : BufOK b) (c2 : Nat) (hne : c2 ≠ chunkOf o.idx) :
    (b.put o).range c2 = b.range c2 := by
  rcases put_forms b o with ⟨s, rest, hr, hc, he⟩ | he
  · rw [he]
    have hsc : s.chunk = chunkOf o.idx := h.cur_ok s rest hr _ hc
    have hf : ¬ s.chunk = c2 := by rw [hsc]; exact fun e => hne e.symm
    unfold Buf.range Buf.secs
    simp only [hr, List.reverse_cons, List.filter_append, List.filter_cons, List.filter_nil, hf, decide_false,
      Bool.false_eq_true, if_false]
  · rw [he]
    have hf : ¬ chunkOf o.idx = c2 := fun e => hne e.symm
    unfold Buf.range Buf.secs
    simp only [List.reverse_cons, List.filter_append, List.filter_cons, List.filter_nil, hf, decide_false,
      Bool.false_eq_true, if_false, List.append_nil]

theorem put_chunks (b : Buf) (o : Op) :
    (b.put o).chunks = b.chunks ∨ (b.put o).chunks = b.chunks ++ [chunkOf o.idx] := by
  rcases put_forms b o with ⟨s, rest, hr, _, he⟩ | he
  · left
    rw [he]
    unfold Buf.chunks Buf.secs
    simp [hr]
  · right
    rw [he]
    unfold Buf.chunks Buf.secs
    simp

theorem putAll_bufOK (b : Buf) (ops : List Op) (h : BufOK b) : BufOK (b.putAll ops) := by
  induction ops generalizing b with
  | nil => exact h
  | cons o os ih => rw [Buf.putAll_cons]; exact ih _ (put_bufOK b o h)

theorem putAll_range_other (b : Buf) (ops : List Op) (h : BufOK b) (ch c2 : Nat) (hne : c2 ≠ ch)
    (hops : ∀ o ∈ ops, chunkOf o.idx = ch) : (b.putAll ops).range c2 = b.range c2 := by
  induction ops generalizing b with
  | nil => rfl
  | cons o os ih =>
    rw [Buf.putAll_cons, ih _ (put_bufOK b o h) (fun x hx => hops x (by simp [hx])),
      put_range_other b o h c2 (by rw [hops o (by simp)]; exact hne)]

theorem putAll_chunks (b : Buf) (ops : List Op) (ch : Nat) (hops : ∀ o ∈ ops, chunkOf o.idx = ch) :
    ∃ k, (b.putAll ops).chunks = b.chunks ++ List.replicate k ch := by
  induction ops generalizing b with
  | nil => exact ⟨0, by simp [Buf.putAll]⟩
  | cons o os ih =>
    rw [Buf.putAll_cons]
    obtain ⟨k, hk⟩ := ih (b.put o) (fun x hx => hops x (by simp [hx]))
    rcases put_chunks b o with e | e
    · exact ⟨k, by rw [hk, e]⟩
    · refine ⟨k + 1, ?_⟩
      rw [hk, e, hops o (by simp), List.append_assoc]
      congr 1

/-! ## X2 — rewriting and appending keep the offsets -/

private theorem idx_close (P : Nat → Prop) (o o' : Op) (done app extra : List Op) (e : o'.idx = o.idx)
    (he : ∀ x ∈ extra, x.idx = o.idx) (ho : P o.idx) (h1 : ∀ x ∈ done, P x.idx) (h2 : ∀ x ∈ app, P x.idx) :
    (∀ x ∈ o' :: done, P x.idx) ∧ (∀ x ∈ app ++ extra, P x.idx) := by
  refine ⟨?_, ?_⟩
  · intro x hx
    rcases List.mem_cons.1 hx with rfl | hx
    · rw [e]; exact ho
    · exact h1 x hx
  · intro x hx
    rcases List.mem_append.1 hx with hx | hx
    · exact h2 x hx
    · rw [he x hx]; exact ho

/-- every op a step records (rewritten in place) or appends carries the offset of the op applied -/
theorem stepOf_idx (hash : Bytes → Nat) (k : Kind) (acc : ApplyAcc) (o : Op) (P : Nat → Prop) (ho : P o.idx)
    (h1 : ∀ x ∈ acc.2.1, P x.idx) (h2 : ∀ x ∈ acc.2.2, P x.idx) :
    (∀ x ∈ (stepOf hash k acc o).2.1, P x.idx) ∧ (∀ x ∈ (stepOf hash k acc o).2.2, P x.idx) := by
  obtain ⟨c, done, app⟩ := acc
  simp only at h1 h2
  cases k with
  | num nk =>
    show (∀ x ∈ (stepNum nk (c, done, app) o).2.1, P x.idx) ∧ (∀ x ∈ (stepNum nk (c, done, app) o).2.2, P x.idx)
    unfold stepNum
    simp only
    split
    · simpa using idx_close P o o done app [] rfl (by simp) ho h1 h2
    · split
      · simpa using idx_close P o (swapInPlace o _) done app [] rfl (by simp) ho h1 h2
      · split
        · simpa using idx_close P o o done app [] rfl (by simp) ho h1 h2
        · simpa using idx_close P o o done app [] rfl (by simp) ho h1 h2
  | str =>
    show (∀ x ∈ (stepStr (c, done, app) o).2.1, P x.idx) ∧ (∀ x ∈ (stepStr (c, done, app) o).2.2, P x.idx)
    unfold stepStr
    simp only
    split
    · simpa using idx_close P o o done app [] rfl (by simp) ho h1 h2
    · split
      · split
        · simpa using idx_close P o (swapInPlace o _) done app [] rfl (by simp) ho h1 h2
        · exact idx_close P o (markSkip o) done app [_] rfl (by simp) ho h1 h2
      · split
        · simpa using idx_close P o o done app [] rfl (by simp) ho h1 h2
        · simpa using idx_close P o o done app [] rfl (by simp) ho h1 h2
  | record =>
    show (∀ x ∈ (stepStr (c, done, app) o).2.1, P x.idx) ∧ (∀ x ∈ (stepStr (c, done, app) o).2.2, P x.idx)
    unfold stepStr
    simp only
    split
    · simpa using idx_close P o o done app [] rfl (by simp) ho h1 h2
    · split
      · split
        · simpa using idx_close P o (swapInPlace o _) done app [] rfl (by simp) ho h1 h2
        · exact idx_close P o (markSkip o) done app [_] rfl (by simp) ho h1 h2
      · split
        · simpa using idx_close P o o done app [] rfl (by simp) ho h1 h2
        · simpa using idx_close P o o done app [] rfl (by simp) ho h1 h2
  | enum =>
    show (∀ x ∈ (stepEnum hash (c, done, app) o).2.1, P x.idx) ∧ (∀ x ∈ (stepEnum hash (c, done, app) o).2.2, P x.idx)
    unfold stepEnum
    simp only
    split
    · simpa using idx_close P o o done app [] rfl (by simp) ho h1 h2
    · split
      · simpa using idx_close P o o done app [] rfl (by simp) ho h1 h2
      · simpa using idx_close P o o done app [] rfl (by simp) ho h1 h2
  | key =>
    show (∀ x ∈ (stepKey (c, done, app) o).2.1, P x.idx) ∧ (∀ x ∈ (stepKey (c, done, app) o).2.2, P x.idx)
    unfold stepKey
    simp only
    split
    · simpa using idx_close P o o done app [] rfl (by simp) ho h1 h2
    · split
      · simpa using idx_close P o o done app [] rfl (by simp) ho h1 h2
      · simpa using idx_close P o o done app [] rfl (by simp) ho h1 h2
  | bool => simpa [stepOf] using idx_close P o o done app [] rfl (by simp) ho h1 h2
  | index t r => simpa [stepOf] using idx_close P o o done app [] rfl (by simp) ho h1 h2
  | trigger t => simpa [stepOf] using idx_close P o o done app [] rfl (by simp) ho h1 h2
  | sorted t => simpa [stepOf] using idx_close P o o done app [] rfl (by simp) ho h1 h2

theorem applyData_idx (hash : Bytes → Nat) (c : Col) (chunk : Nat) (ops : List Op) (P : Nat → Prop)
    (h : ∀ o ∈ ops, P o.idx) :
    (∀ x ∈ (applyData hash c chunk ops).ops, P x.idx) ∧ (∀ x ∈ (applyData hash c chunk ops).appended, P x.idx) := by
  by_cases hc : chunk < c.nchunks
  · rw [(applyData_of_lt hash c chunk ops hc).2.1, (applyData_of_lt hash c chunk ops hc).2.2]
    have := foldl_invariant (fun (a : ApplyAcc) => (∀ x ∈ a.2.1, P x.idx) ∧ (∀ x ∈ a.2.2, P x.idx))
      (stepOf hash c.kind) ops (c, [], []) ⟨by simp, by simp⟩
      (fun b a ha hb => stepOf_idx hash c.kind b a P (h a ha) hb.1 hb.2)
    exact ⟨fun x hx => this.1 x (by simpa using hx), this.2⟩
  · rw [applyData_of_ge hash c chunk ops (by omega)]
    exact ⟨h, by simp⟩

/-! ## X3 — the main pass over a chunk that has a single section in the buffer -/

/-- at most one section of the buffer belongs to chunk `ch` -/
def OneSec (u : Buf) (ch : Nat) : Prop := ∀ i j : Nat, u.chunks[i]? = some ch → u.chunks[j]? = some ch → i = j

theorem OneSec_of_nodup (u : Buf) (h : u.chunks.Nodup) (ch : Nat) : OneSec u ch := by
  unfold OneSec
  intro i j hi hj
  have hlt : i < u.chunks.length := by
    have := List.getElem?_eq_some_iff.1 hi
    exact this.1
  exact (List.getElem?_inj hlt h).1 (hi.trans hj.symm)

theorem secs_chunks (u : Buf) (i : Nat) (s : Sec) (h : u.secs[i]? = some s) : u.chunks[i]? = some s.chunk := by
  unfold Buf.chunks
  rw [List.getElem?_map, h]; rfl

theorem mpStep_skip (hash : Bytes → Nat) (ch : Nat) (acc : Col × Buf × Bool) (i : Nat)
    (h : ∀ sec, acc.2.1.secs[i]? = some sec → sec.chunk ≠ ch) : mpStep hash ch acc i = acc := by
  unfold mpStep
  cases hs : acc.2.1.secs[i]? with
  | none => rfl
  | some sec =>
    simp only
    rw [if_pos (h sec hs)]

theorem mpStep_hit (hash : Bytes → Nat) (ch : Nat) (col : Col) (u : Buf) (p : Bool) (j : Nat) (sec : Sec)
    (hs : u.secs[j]? = some sec) (hc : sec.chunk = ch) :
    mpStep hash ch (col, u, p) j =
      ((applyData hash col ch sec.ops).col,
       ({ u with rsecs := (replaceSec u.secs j (applyData hash col ch sec.ops).ops).reverse } : Buf).putAll
         (applyData hash col ch sec.ops).appended,
       p || (applyData hash col ch sec.ops).panic) := by
  unfold mpStep
  simp only [hs]
  rw [if_neg (fun h => h hc)]

theorem filter_unique {α : Type} (p : α → Bool) (l : List α) (j : Nat) (a : α) (hj : l[j]? = some a) (hp : p a = true)
    (hu : ∀ i b, l[i]? = some b → p b = true → i = j) : l.filter p = [a] := by
  induction l generalizing j with
  | nil => simp at hj
  | cons x xs ih =>
    cases j with
    | zero =>
      simp only [List.getElem?_cons_zero, Option.some.injEq] at hj
      subst hj
      have : xs.filter p = [] := by
        rw [List.filter_eq_nil_iff]
        intro b hb hpb
        obtain ⟨i, hi⟩ := List.mem_iff_getElem?.1 hb
        have := hu (i + 1) b (by simpa using hi) hpb
        omega
      rw [List.filter_cons, if_pos hp, this]
    | succ j' =>
      simp only [List.getElem?_cons_succ] at hj
      have hx : ¬ p x = true := by
        intro hpx
        have := hu 0 x (by simp) hpx
        omega
      rw [List.filter_cons, if_neg hx]
      exact ih j' hj (fun i b hi hpb => by have := hu (i + 1) b (by simpa using hi) hpb; omega)

theorem mapIdx_filter_same {α : Type} (p : α → Bool) (l : List α) (f : Nat → α → α)
    (h : ∀ i a, l[i]? = some a → f i a = a ∨ (p (f i a) = false ∧ p a = false)) :
    (l.mapIdx f).filter p = l.filter p := by
  induction l generalizing f with
  | nil => rfl
  | cons x xs ih =>
    rw [List.mapIdx_cons]
    have hx := h 0 x (by simp)
    have ih' := ih (fun i => f (i + 1)) (fun i a hi => h (i + 1) a (by simpa using hi))
    rcases hx with e | ⟨e1, e2⟩
    · rw [e, List.filter_cons, List.filter_cons, ih']
    · rw [List.filter_cons, List.filter_cons, e1, e2, ih']
      rfl

theorem getElem?_append_replicate_ne {α : Type} (l : List α) (k : Nat) (a b : α) (i : Nat)
    (h : (l ++ List.replicate k a)[i]? = some b) (hne : b ≠ a) : l[i]? = some b := by
  by_cases hi : i < l.length
  · rwa [List.getElem?_append_left hi] at h
  · rw [List.getElem?_append_right (by omega)] at h
    have := List.mem_of_getElem? h
    rw [List.mem_replicate] at this
    exact absurd this.2 hne

/-- a buffer whose sections are replaced by sections of the same chunks, each holding ops of its own chunk, stays `BufOK` -/
theorem bufOK_of_secs (u : Buf) (X : List Sec) (hmap : X.map Sec.chunk = u.secs.map Sec.chunk)
    (hok : ∀ s ∈ X, ∀ o ∈ s.rops, chunkOf o.idx = s.chunk) (h : BufOK u) :
    BufOK ({ u with rsecs := X.reverse } : Buf) := by
  refine ⟨?_, ?_⟩
  · intro s hs o ho
    exact hok s (by simpa using hs) o ho
  · intro s rest hsr c hcc
    simp only at hsr hcc
    have hm : (X.reverse).map Sec.chunk = u.rsecs.map Sec.chunk := by
      rw [List.map_reverse, hmap]
      unfold Buf.secs
      rw [List.map_reverse, List.reverse_reverse]
    rw [hsr] at hm
    cases hr : u.rsecs with
    | nil => rw [hr] at hm; simp at hm
    | cons s0 rest0 =>
      rw [hr] at hm
      simp only [List.map_cons, List.cons.injEq] at hm
      rw [hm.1]
      exact h.cur_ok s0 rest0 hr c hcc

/-- the buffer after one section of chunk `ch` was rewritten in place (ops of chunk `ch`) -/
theorem replaced_facts (u : Buf) (j : Nat) (sec : Sec) (ch : Nat) (ops' : List Op) (hs : u.secs[j]? = some sec)
    (hc : sec.chunk = ch) (hops : ∀ o ∈ ops', chunkOf o.idx = ch) :
    ({ u with rsecs := (replaceSec u.secs j ops').reverse } : Buf).chunks = u.chunks ∧
    (BufOK u → BufOK ({ u with rsecs := (replaceSec u.secs j ops').reverse } : Buf)) ∧
    ∀ c2, c2 ≠ ch → ({ u with rsecs := (replaceSec u.secs j ops').reverse } : Buf).range c2 = u.range c2 := by
  refine ⟨?_, ?_, ?_⟩
  · unfold Buf.chunks
    rw [secs_set]
    exact StorePlumb.replaceSec_map_chunk u.secs j ops'
  · intro h
    apply bufOK_of_secs u _ (StorePlumb.replaceSec_map_chunk u.secs j ops') _ h
    intro s hsm o ho
    obtain ⟨i, hi⟩ := List.mem_iff_getElem?.1 hsm
    unfold replaceSec at hi
    rw [List.getElem?_mapIdx] at hi
    cases hx : u.secs[i]? with
    | none => rw [hx] at hi; simp at hi
    | some x =>
      rw [hx] at hi
      simp only [Option.map_some, Option.some.injEq] at hi
      have hxm : x ∈ u.rsecs := by
        have := List.mem_of_getElem? hx
        simpa [Buf.secs] using this
      by_cases e : i = j
      · subst e
        rw [if_pos rfl] at hi
        rw [hs] at hx
        cases hx
        rw [← hi] at ho ⊢
        simp only at ho ⊢
        rw [hc]
        exact hops o (by simpa using ho)
      · rw [if_neg e] at hi
        rw [← hi] at ho ⊢
        exact h.chunk_ok x hxm o ho
  · intro c2 hne
    unfold Buf.range
    rw [secs_set]
    congr 1
    unfold replaceSec
    apply mapIdx_filter_same
    intro i a hi
    by_cases e : i = j
    · right
      have ha : a = sec := by rw [e, hs] at hi; exact (Option.some.inj hi).symm
      rw [if_pos e, ha]
      have : ¬ sec.chunk = c2 := by rw [hc]; exact fun e => hne e.symm
      simp [this]
    · left
      rw [if_neg e]

/-- **main pass, one section for the chunk** (resizing merges allowed): the appended puts land behind everything the
    loop still visits for this chunk, so the column is `applyData` over the chunk's ops; the sections of the other chunks are
    untouched, the buffer stays well-formed, the other chunks keep their number of sections -/
theorem mainPass_one (hash : Bytes → Nat) (col : Col) (ch : Nat) (u : Buf) (hok : BufOK u) (hone : OneSec u ch) :
    (mainPass hash col ch u).1 = (applyData hash col ch (u.rangeOps ch)).col ∧
    (∀ c2, c2 ≠ ch → (mainPass hash col ch u).2.1.range c2 = u.range c2) ∧
    BufOK (mainPass hash col ch u).2.1 ∧
    (∀ c2, c2 ≠ ch → OneSec u c2 → OneSec (mainPass hash col ch u).2.1 c2) := by
  have hlen : u.rsecs.length = u.secs.length := by simp [Buf.secs]
  rw [mainPass_eq, hlen]
  by_cases hex : ∃ (j : Nat) (sec : Sec), u.secs[j]? = some sec ∧ sec.chunk = ch
  · obtain ⟨j, sec, hs, hc⟩ := hex
    have hjlt : j < u.secs.length := (List.getElem?_eq_some_iff.1 hs).1
    have huniq : ∀ i b, u.secs[i]? = some b → b.chunk = ch → i = j := by
      intro i b hi hb
      exact hone i j (by rw [secs_chunks u i b hi, hb]) (by rw [secs_chunks u j sec hs, hc])
    -- the ops of the section, the result of the pass over it
    have hsecops : ∀ o ∈ sec.ops, chunkOf o.idx = ch := by
      intro o ho
      have hm : sec ∈ u.rsecs := by
        have := List.mem_of_getElem? hs
        simpa [Buf.secs] using this
      rw [← hc]
      exact hok.chunk_ok sec hm o (by simpa [Sec.ops] using ho)
    obtain ⟨hro, hra⟩ := applyData_idx hash col ch sec.ops (fun i => chunkOf i = ch) hsecops
    obtain ⟨b1, b2, b3⟩ := replaced_facts u j sec ch (applyData hash col ch sec.ops).ops hs hc hro
    have hfin := mpStep_hit hash ch col u false j sec hs hc
    generalize hB : ({ u with rsecs := (replaceSec u.secs j (applyData hash col ch sec.ops).ops).reverse } : Buf) = B
      at hfin b1 b2 b3
    obtain ⟨k, hk⟩ := putAll_chunks B (applyData hash col ch sec.ops).appended ch hra
    rw [b1] at hk
    -- the loop: nothing before `j`, the pass at `j`, nothing after
    have hloop : ∀ m, m ≤ u.secs.length →
        (List.range m).foldl (mpStep hash ch) (col, u, false) =
          if m ≤ j then (col, u, false) else mpStep hash ch (col, u, false) j := by
      intro m
      induction m with
      | zero => intro _; simp
      | succ m ih =>
        intro hm
        rw [List.range_succ, List.foldl_append, ih (by omega)]
        simp only [List.foldl_cons, List.foldl_nil]
        by_cases h1 : m < j
        · rw [if_pos (by omega), if_pos (by omega)]
          apply mpStep_skip
          intro s0 hs0 hch
          have := huniq m s0 hs0 hch
          omega
        · by_cases h2 : m = j
          · subst h2
            rw [if_pos (Nat.le_refl _), if_neg (by omega)]
          · rw [if_neg (by omega), if_neg (by omega), hfin]
            apply mpStep_skip
            intro s0 hs0 hch
            simp only at hs0
            have h3 := secs_chunks _ m s0 hs0
            rw [hk, hch] at h3
            have hlt : m < u.chunks.length := by unfold Buf.chunks; rw [List.length_map]; omega
            rw [List.getElem?_append_left hlt] at h3
            have := hone m j h3 (by rw [secs_chunks u j sec hs, hc])
            omega
    rw [hloop u.secs.length (Nat.le_refl _), if_neg (by omega), hfin]
    simp only
    have hrange : u.rangeOps ch = sec.ops := by
      unfold Buf.rangeOps Buf.range
      rw [filter_unique (fun s => decide (s.chunk = ch)) u.secs j sec hs (by simpa using hc)
        (fun i b hi hb => huniq i b hi (by simpa using hb))]
      simp
    refine ⟨by rw [hrange], ?_, putAll_bufOK B _ (b2 hok), ?_⟩
    · intro c2 hne
      rw [putAll_range_other B _ (b2 hok) ch c2 hne hra, b3 c2 hne]
    · intro c2 hne h2
      unfold OneSec
      intro i i' hi hi'
      rw [hk] at hi hi'
      exact h2 i i' (getElem?_append_replicate_ne _ k ch c2 i hi hne)
        (getElem?_append_replicate_ne _ k ch c2 i' hi' hne)
  · have hskip : ∀ (l : List Nat), l.foldl (mpStep hash ch) (col, u, false) = (col, u, false) := by
      intro l
      induction l with
      | nil => rfl
      | cons i is ih =>
        simp only [List.foldl_cons]
        rw [mpStep_skip hash ch (col, u, false) i (fun s0 hs0 hch => hex ⟨i, s0, hs0, hch⟩)]
        exact ih
    rw [hskip]
    have hrange : u.rangeOps ch = [] := by
      unfold Buf.rangeOps Buf.range
      have : u.secs.filter (fun s => decide (s.chunk = ch)) = [] := by
        rw [List.filter_eq_nil_iff]
        intro s0 hs0 hch
        obtain ⟨i, hi⟩ := List.mem_iff_getElem?.1 hs0
        exact hex ⟨i, s0, hi, by simpa using hch⟩
      rw [this]; rfl
    exact ⟨by rw [hrange, applyData_nil], fun _ _ => rfl, hok, fun _ _ h2 => h2⟩

/-! ## X4 — the pass that appends nothing keeps the buffer well-formed too -/

theorem mpSpecG_map_chunk (hash : Bytes → Nat) (ch : Nat) (S : List Sec) (c : Col) :
    (mpSpecG hash ch c S).2.map Sec.chunk = S.map Sec.chunk := by
  induction S generalizing c with
  | nil => rfl
  | cons x xs ih =>
    simp only [mpSpecG]
    split <;> simp [ih]

theorem mpSpecG_chunk_ok (hash : Bytes → Nat) (ch : Nat) (S : List Sec) (c : Col)
    (hS : ∀ s ∈ S, ∀ o ∈ s.rops, chunkOf o.idx = s.chunk) :
    ∀ s ∈ (mpSpecG hash ch c S).2, ∀ o ∈ s.rops, chunkOf o.idx = s.chunk := by
  induction S generalizing c with
  | nil => intro s hs; cases hs
  | cons x xs ih =>
    simp only [mpSpecG]
    have ihx := fun c => ih c (fun s hs => hS s (by simp [hs]))
    by_cases hx : x.chunk = ch
    · rw [if_pos hx]
      intro s hs o ho
      simp only [List.mem_cons] at hs
      rcases hs with rfl | hs
      · simp only at ho ⊢
        have hxo : ∀ o ∈ x.ops, chunkOf o.idx = x.chunk := fun o ho => hS x (by simp) o (by simpa [Sec.ops] using ho)
        exact (applyData_idx hash c ch x.ops (fun i => chunkOf i = x.chunk) hxo).1 o (by simpa using ho)
      · exact ihx _ s hs o ho
    · rw [if_neg hx]
      intro s hs o ho
      simp only [List.mem_cons] at hs
      rcases hs with rfl | hs
      · exact hS s (by simp) o ho
      · exact ihx _ s hs o ho

/-! ## X5 — a pass is clean when it appends nothing, or when its chunk has one section in a well-formed buffer -/

/-- the guard of one buffer pass -/
def PassOK (hash : Bytes → Nat) (c : Col) (ch : Nat) (u : Buf) : Prop :=
  (applyData hash c ch (u.rangeOps ch)).appended = [] ∨ (BufOK u ∧ OneSec u ch)

theorem pass_clean (hash : Bytes → Nat) (c : Col) (ch : Nat) (u : Buf) (h : PassOK hash c ch u) :
    (mainPass hash c ch u).1 = (applyData hash c ch (u.rangeOps ch)).col ∧
    (∀ c2, c2 ≠ ch → (mainPass hash c ch u).2.1.range c2 = u.range c2) ∧
    (BufOK u → BufOK (mainPass hash c ch u).2.1) ∧
    (∀ c2, c2 ≠ ch → OneSec u c2 → OneSec (mainPass hash c ch u).2.1 c2) := by
  rcases h with hna | ⟨hok, hone⟩
  · obtain ⟨m1, m2⟩ := mainPassG hash c ch u hna
    refine ⟨m1, fun c2 hne => mainPassG_range_other hash c ch u hna c2 hne, ?_, ?_⟩
    · intro hok
      rw [m2]
      exact bufOK_of_secs u _ (mpSpecG_map_chunk hash ch u.secs c)
        (mpSpecG_chunk_ok hash ch u.secs c (fun s hs => hok.chunk_ok s (by simpa [Buf.secs] using hs))) hok
    · intro c2 _ h2
      have : (mainPass hash c ch u).2.1.chunks = u.chunks := by
        rw [m2]
        unfold Buf.chunks
        rw [secs_set, mpSpecG_map_chunk]
      unfold OneSec
      intro i j hi hj
      rw [this] at hi hj
      exact h2 i j hi hj
  · obtain ⟨p1, p2, p3, p4⟩ := mainPass_one hash c ch u hok hone
    exact ⟨p1, p2, fun _ => p3, p4⟩

/-! ## X6 — the plumbing of a commit with `PassOK` -/

/-- `BufRel` plus what the passes keep of the buffers of `x` -/
def BufRel1 (x : String) (ch : Nat) (u u' : Buf) : Prop :=
  BufRel x [ch] u u' ∧ (u.column = x → (BufOK u → BufOK u') ∧ ∀ c2, c2 ≠ ch → OneSec u c2 → OneSec u' c2)

theorem BufRel1.refl (x : String) (ch : Nat) (u : Buf) : BufRel1 x ch u u :=
  ⟨BufRel.refl x _ u, fun _ => ⟨fun h => h, fun _ _ h => h⟩⟩

theorem Rel2.mono {α β : Type} {R S : α → β → Prop} (h : ∀ a b, R a b → S a b) {l1 : List α} {l2 : List β}
    (hr : Rel2 R l1 l2) : Rel2 S l1 l2 := by
  induction hr with
  | nil => exact Rel2.nil
  | cons hab _ ih => exact Rel2.cons (h _ _ hab) ih

theorem Rel2.toBufRel {x : String} {ch : Nat} {ups ups' : List Buf} (h : Rel2 (BufRel1 x ch) ups ups') :
    Rel2 (BufRel x [ch]) ups ups' := Rel2.mono (fun _ _ hab => hab.1) h

/-- the buffer of the data column `x` itself -/
theorem cuStep_self_ok (chunk : Nat) (s : Store) (done : List Buf) (b : Bool) (u : Buf) (x : String) (col : Col)
    (hxr : x ≠ rowColumn) (hux : u.column = x) (hf : s.findCol x = some col) (hd : col.kind.isData = true)
    (hcomp : x ∉ col.computed) (hok : PassOK s.hash col chunk u) :
    (cuStep chunk (s, done, b) u).1.findCol x = some (applyData s.hash col chunk (u.rangeOps chunk)).col ∧
    ∃ u', (cuStep chunk (s, done, b) u).2.1 = done ++ [u'] ∧ BufRel1 x chunk u u' := by
  unfold cuStep
  simp only
  by_cases he : u.isEmpty = true
  · have hskip : (u.isEmpty || u.column == rowColumn) = true := by simp [he]
    rw [if_pos hskip]
    refine ⟨?_, u, rfl, BufRel1.refl x _ u⟩
    rw [isEmpty_range u he chunk, applyData_nil]
    exact hf
  · have hskip : ¬ (u.isEmpty || u.column == rowColumn) = true := by
      rw [hux]; simpa [he] using hxr
    rw [if_neg hskip, hux, hf]
    simp only
    rw [if_pos hd]
    obtain ⟨p1, p2, p3, p4⟩ := pass_clean s.hash col chunk u hok
    obtain ⟨g1, g2⟩ := mainPass_general s.hash col chunk u
    refine ⟨?_, _, rfl, ⟨g2, fun e => absurd (hux.symm.trans e) hxr, ?_⟩, fun _ => ⟨p3, p4⟩⟩
    · rw [computedPass_frame _ _ _ _ x hcomp, findCol_with_panicked,
        setCol_found s col _ x hf g1.name x, if_pos rfl, p1]
    · intro _ c2 hc2
      exact p2 c2 (by simpa using hc2)

theorem cuStep_other_ok (chunk : Nat) (s : Store) (done : List Buf) (b : Bool) (u : Buf) (x : String)
    (hux : u.column ≠ x) (hcomp : ∀ c, s.findCol u.column = some c → x ∉ c.computed) :
    (cuStep chunk (s, done, b) u).1.findCol x = s.findCol x ∧
    ∃ u', (cuStep chunk (s, done, b) u).2.1 = done ++ [u'] ∧ BufRel1 x chunk u u' := by
  obtain ⟨h1, u', h2, h3⟩ := cuStep_other_col chunk s done b u x hux hcomp
  exact ⟨h1, u', h2, h3, fun e => absurd e hux⟩

/-- the guard of `commitUpdates` for one chunk: every buffer of `x` passes cleanly, each in the state in which it runs -/
def BufsOK (hash : Bytes → Nat) (x : String) (ch : Nat) : List Buf → Col → Prop
  | [], _ => True
  | u :: us, c =>
    if u.column = x then PassOK hash c ch u ∧ BufsOK hash x ch us (applyData hash c ch (u.rangeOps ch)).col
    else BufsOK hash x ch us c

theorem BufsOK_cons (hash : Bytes → Nat) (x : String) (ch : Nat) (u : Buf) (us : List Buf) (c : Col) :
    BufsOK hash x ch (u :: us) c =
      (if u.column = x then PassOK hash c ch u ∧ BufsOK hash x ch us (applyData hash c ch (u.rangeOps ch)).col
       else BufsOK hash x ch us c) := rfl

/-- **`commitUpdates`, any data column, guard `PassOK`** -/
theorem cuFold_ok (x : String) (chunk : Nat) (hxr : x ≠ rowColumn) (ups : List Buf) :
    ∀ (s : Store) (done : List Buf) (b : Bool) (col : Col), s.findCol x = some col → col.kind.isData = true →
      (∀ v ∈ ups, ∀ c, s.findCol v.column = some c → x ∉ c.computed) → BufsOK s.hash x chunk ups col →
      (ups.foldl (cuStep chunk) (s, done, b)).1.findCol x =
        some (applyData s.hash col chunk (opsFor ups x chunk)).col ∧
      ∃ ups', (ups.foldl (cuStep chunk) (s, done, b)).2.1 = done ++ ups' ∧ Rel2 (BufRel1 x chunk) ups ups' := by
  induction ups with
  | nil =>
    intro s done b col hf _ _ _
    refine ⟨?_, [], by simp, Rel2.nil⟩
    show s.findCol x = _
    rw [hf]
    unfold opsFor
    simp only [List.filter_nil, List.map_nil, List.flatten_nil]
    rw [applyData_nil]
  | cons u us ih =>
    intro s done b col hf hd hcomp hok
    simp only [List.foldl_cons]
    have hsim := cuStep_sim chunk s done b u
    have hcomp' : ∀ v ∈ us, ∀ c, (cuStep chunk (s, done, b) u).1.findCol v.column = some c → x ∉ c.computed := by
      intro v hv c hc
      obtain ⟨c0, hc0, sg⟩ := hsim.sig_back hc
      rw [sg.computed]
      exact hcomp v (by simp [hv]) c0 hc0
    have hhash := hsim.hash
    rw [BufsOK_cons] at hok
    by_cases hux : u.column = x
    · rw [if_pos hux] at hok
      obtain ⟨f1, u', e1, r1⟩ := cuStep_self_ok chunk s done b u x col hxr hux hf hd
        (hcomp u (by simp) col (hux ▸ hf)) hok.1
      generalize cuStep chunk (s, done, b) u = r at f1 hcomp' hhash e1
      obtain ⟨r1s, r2, r3⟩ := r
      simp only at f1 hcomp' hhash e1
      obtain ⟨f2, us', e2, r2'⟩ := ih r1s r2 r3 _ f1
        (by rw [(applyData_sameShape s.hash col chunk (u.rangeOps chunk)).kind]; exact hd) hcomp'
        (by rw [hhash]; exact hok.2)
      refine ⟨?_, u' :: us', ?_, Rel2.cons r1 r2'⟩
      · rw [f2, hhash, opsFor_cons_self u us x chunk hux, applyData_col_append]
      · rw [e2, e1]; simp
    · rw [if_neg hux] at hok
      obtain ⟨f1, u', e1, r1⟩ := cuStep_other_ok chunk s done b u x hux (hcomp u (by simp))
      rw [hf] at f1
      generalize cuStep chunk (s, done, b) u = r at f1 hcomp' hhash e1
      obtain ⟨r1s, r2, r3⟩ := r
      simp only at f1 hcomp' hhash e1
      obtain ⟨f2, us', e2, r2'⟩ := ih r1s r2 r3 col f1 hd hcomp' (by rw [hhash]; exact hok)
      refine ⟨?_, u' :: us', ?_, Rel2.cons r1 r2'⟩
      · rw [f2, hhash, opsFor_cons_other u us x chunk hux]
      · rw [e2, e1]; simp

/-- **one dirty chunk, any data column, guard `BufsOK`** -/
theorem commitChunk_ok_full (s : Store) (chunk : Nat) (cr : Bool) (ups : List Buf) (x : String) (col : Col)
    (hxr : x ≠ rowColumn) (hf : s.findCol x = some col) (hd : col.kind.isData = true)
    (hcomp : ∀ v ∈ ups, ∀ c, s.findCol v.column = some c → x ∉ c.computed)
    (hok : BufsOK s.hash x chunk ups (applyData s.hash col chunk (markerOpsCr cr ups chunk)).col) :
    (s.commitChunk chunk cr ups).1.findCol x =
      some (applyData s.hash col chunk (markerOpsCr cr ups chunk ++ opsFor ups x chunk)).col ∧
    RegSim s (s.commitChunk chunk cr ups).1 ∧
    Rel2 (BufRel1 x chunk) ups (s.commitChunk chunk cr ups).2 := by
  rw [commitChunk_def]
  obtain ⟨f1, f2, _⟩ := finishChunk_fields (s.nextId + 1) chunk cr
    ((markStore s chunk cr ups).commitUpdates chunk ups)
  have hreg := markStore_regSim s chunk cr ups
  have fm := markStore_col s chunk cr ups x col hf hd
  have hh := markStore_hash s chunk cr ups
  generalize markStore s chunk cr ups = ms at f1 f2 hreg fm hh
  have hcomp' : ∀ v ∈ ups, ∀ c, ms.findCol v.column = some c → x ∉ c.computed := by
    intro v hv c hc
    obtain ⟨c0, hc0, sg⟩ := hreg.sig_back hc
    rw [sg.computed]
    exact hcomp v hv c0 hc0
  obtain ⟨fu, ups', hu1, hrel⟩ := cuFold_ok x chunk hxr ups ms [] false _ fm
    (by rw [(applyData_sameShape s.hash col chunk _).kind]; exact hd) hcomp' (by rw [hh]; exact hok)
  rw [← commitUpdates_eq] at fu hu1
  have hsim := commitUpdates_eq ms chunk ups ▸ cuFold_sim chunk ups ms [] false
  refine ⟨?_, RegSim.trans hreg (RegSim.trans hsim.reg (RegSim.of_cols f2)), ?_⟩
  · rw [findCol_congr f2, fu, hh, applyData_col_append]
  · rw [f1, hu1]; simpa using hrel

/-- the guard of a whole commit: for every dirty chunk, in order, `BufsOK` in the state the markers of the chunk leave -/
def ChunksOK (hash : Bytes → Nat) (ups : List Buf) (x : String) : List Nat → Col → Prop
  | [], _ => True
  | ch :: cs, c =>
    BufsOK hash x ch ups (applyData hash c ch (markerOps ups ch)).col ∧
    ChunksOK hash ups x cs (applyData hash c ch (chunkOps ups x ch)).col

/-- the guard survives the pass of another chunk -/
theorem BufsOK_transfer (hash : Bytes → Nat) (x : String) (c c2 : Nat) (hne : c2 ≠ c) {ups ups1 : List Buf}
    (hrel : Rel2 (BufRel1 x c) ups ups1) : ∀ col, BufsOK hash x c2 ups col → BufsOK hash x c2 ups1 col := by
  induction hrel with
  | nil => intro col h; exact h
  | @cons u u1 us us1 hab _ ih =>
    intro col h
    obtain ⟨⟨h1, _, h3⟩, h4⟩ := hab
    rw [BufsOK_cons] at h ⊢
    by_cases hx : u.column = x
    · rw [if_pos hx] at h
      rw [if_pos (h1.trans hx)]
      have hr : u1.rangeOps c2 = u.rangeOps c2 := by
        unfold Buf.rangeOps
        rw [h3 hx c2 (by simpa using hne)]
      rw [hr]
      refine ⟨?_, ih _ h.2⟩
      rcases h.1 with a | ⟨a1, a2⟩
      · left; rw [hr]; exact a
      · right; exact ⟨(h4 hx).1 a1, (h4 hx).2 c2 hne a2⟩
    · rw [if_neg hx] at h
      rw [if_neg (by rw [h1]; exact hx)]
      exact ih _ h

theorem ChunksOK_transfer (hash : Bytes → Nat) (x : String) (c : Nat) {ups ups1 : List Buf}
    (hrel : Rel2 (BufRel1 x c) ups ups1) (cs : List Nat) (hc : c ∉ cs)
    (hm : ∀ c2 ∈ cs, markerOps ups1 c2 = markerOps ups c2) (ho : ∀ c2 ∈ cs, opsFor ups1 x c2 = opsFor ups x c2) :
    ∀ col, ChunksOK hash ups x cs col → ChunksOK hash ups1 x cs col := by
  induction cs with
  | nil => intro col _; trivial
  | cons c2 cs ih =>
    intro col h
    obtain ⟨h1, h2⟩ := h
    have hne : c2 ≠ c := fun e => hc (by rw [e]; simp)
    have hco : chunkOps ups1 x c2 = chunkOps ups x c2 := by
      unfold chunkOps; rw [hm c2 (by simp), ho c2 (by simp)]
    refine ⟨?_, ?_⟩
    · rw [hm c2 (by simp)]
      exact BufsOK_transfer hash x c c2 hne hrel _ h1
    · rw [hco]
      exact ih (fun e => hc (by simp [e])) (fun c' hc' => hm c' (by simp [hc'])) (fun c' hc' => ho c' (by simp [hc'])) _ h2

/-- **the chunk loop, any data column, guard `ChunksOK`** -/
theorem commitLoop_ok (x : String) (hxr : x ≠ rowColumn) (cs : List Nat) :
    ∀ (s : Store) (ups : List Buf) (col : Col) (cr : Bool), cs.Nodup → cr = (ups.find? isMarkerBuf).isSome →
      s.findCol x = some col → col.kind.isData = true →
      (∀ v ∈ ups, ∀ c, s.findCol v.column = some c → x ∉ c.computed) → ChunksOK s.hash ups x cs col →
      (commitLoop cr cs s ups).1.findCol x = some (colChunks s.hash ups x cs col) := by
  induction cs with
  | nil =>
    intro s ups col cr _ _ hf _ _ _
    exact hf
  | cons c cs ih =>
    intro s ups col cr hnd hcr hf hd hcomp hok
    have hc_notin : c ∉ cs := (List.nodup_cons.1 hnd).1
    have hnd' : cs.Nodup := (List.nodup_cons.1 hnd).2
    obtain ⟨hok1, hok2⟩ := hok
    subst hcr
    obtain ⟨f1, hreg, hrel1⟩ := commitChunk_ok_full s c (ups.find? isMarkerBuf).isSome ups x col hxr hf hd hcomp
      (by rw [markerOpsCr_isSome]; exact hok1)
    have hrel := hrel1.toBufRel
    have hh := commitChunk_hash s c (ups.find? isMarkerBuf).isSome ups
    rw [markerOpsCr_isSome] at f1
    unfold commitLoop
    simp only [List.foldl_cons]
    generalize s.commitChunk c (ups.find? isMarkerBuf).isSome ups = r at hreg f1 hrel hrel1 hh
    obtain ⟨s1, ups1⟩ := r
    simp only at hreg f1 hrel hrel1 hh
    have hfm := hrel.find_marker
    have hcomp1 : ∀ v ∈ ups1, ∀ c0, s1.findCol v.column = some c0 → x ∉ c0.computed := by
      intro v' hv' c0 hc0
      obtain ⟨v, hv, hb⟩ := hrel.columns v' hv'
      rw [hb.1] at hc0
      obtain ⟨c00, hc00, sg⟩ := hreg.sig_back hc0
      rw [sg.computed]
      exact hcomp v hv c00 hc00
    have hmo : ∀ c2 ∈ cs, markerOps ups1 c2 = markerOps ups c2 := by
      intro c2 _; unfold markerOps; rw [hfm]
    have hof : ∀ c2 ∈ cs, opsFor ups1 x c2 = opsFor ups x c2 := by
      intro c2 hc2
      apply hrel.opsFor c2
      intro e
      simp only [List.mem_singleton] at e
      exact hc_notin (e ▸ hc2)
    have hco : ∀ c2 ∈ cs, chunkOps ups1 x c2 = chunkOps ups x c2 := by
      intro c2 hc2; unfold chunkOps; rw [hmo c2 hc2, hof c2 hc2]
    have := ih s1 ups1 _ (ups.find? isMarkerBuf).isSome hnd' (by rw [hfm]) f1
      (by rw [(applyData_sameShape s.hash col c _).kind]; exact hd) hcomp1
      (by rw [hh]; exact ChunksOK_transfer s.hash x c hrel1 cs hc_notin hmo hof _ hok2)
    unfold commitLoop at this
    rw [this, hh, colChunks_congr s.hash ups ups1 x cs hco, colChunks_cons]
    rfl

/-- **`commit`, any data column, guard `ChunksOK`** (the general form of `commit_col`) -/
theorem commit_col_ok (s : Store) (t : Txn) (x : String) (col : Col)
    (hxr : x ≠ rowColumn) (hf : s.findCol x = some col) (hd : col.kind.isData = true)
    (hcomp : ∀ v ∈ t.updates, ∀ c, s.findCol v.column = some c → x ∉ c.computed)
    (hok : ChunksOK s.hash t.updates x t.dirtyChunks (capCol s t col)) :
    (s.commit t).findCol x = some (colChunks s.hash t.updates x t.dirtyChunks (capCol s t col)) := by
  rw [commit_eq']
  have f1 : (capStore s t).findCol x = some (capCol s t col) := by rw [capStore_findCol_eq, hf]; rfl
  have hcomp1 : ∀ v ∈ t.updates, ∀ c, (capStore s t).findCol v.column = some c → x ∉ c.computed := by
    intro v hv c hc
    obtain ⟨c0, hc0, e⟩ := capStore_computed s t v.column c hc
    rw [e]; exact hcomp v hv c0 hc0
  have := commitLoop_ok x hxr t.dirtyChunks (capStore s t) t.updates (capCol s t col) t.markers.isSome
    (sorted_nodup _ (dirtyChunks_sorted t)) rfl f1 (by rw [(capCol_meta s t col).2.1]; exact hd) hcomp1
    (by rw [capStore_hash]; exact hok)
  rw [this, capStore_hash]

/-! ### sufficient conditions for the guard -/

theorem BufsOK_of_noAppend (hash : Bytes → Nat) (x : String) (ch : Nat) (ups : List Buf) :
    ∀ col, (applyData hash col ch (opsFor ups x ch)).appended = [] → BufsOK hash x ch ups col := by
  induction ups with
  | nil => intro col _; trivial
  | cons u us ih =>
    intro col h
    rw [BufsOK_cons]
    by_cases hux : u.column = x
    · rw [if_pos hux]
      rw [opsFor_cons_self u us x ch hux, applyData_appended_append, List.append_eq_nil_iff] at h
      exact ⟨Or.inl h.1, ih _ h.2⟩
    · rw [if_neg hux]
      rw [opsFor_cons_other u us x ch hux] at h
      exact ih _ h

/-- `NoAppend` (no resizing merge) is one way to meet the guard … -/
theorem ChunksOK_of_noAppend (hash : Bytes → Nat) (ups : List Buf) (x : String) (cs : List Nat) :
    ∀ col, NoAppend hash ups x cs col → ChunksOK hash ups x cs col := by
  induction cs with
  | nil => intro col _; trivial
  | cons c cs ih =>
    intro col h
    exact ⟨BufsOK_of_noAppend hash x c ups _ h.1, ih _ h.2⟩

theorem BufsOK_of_one (hash : Bytes → Nat) (x : String) (ch : Nat) (ups : List Buf)
    (h : ∀ v ∈ ups, v.column = x → BufOK v ∧ OneSec v ch) : ∀ col, BufsOK hash x ch ups col := by
  induction ups with
  | nil => intro col; trivial
  | cons u us ih =>
    intro col
    rw [BufsOK_cons]
    have ih' := ih (fun v hv => h v (by simp [hv]))
    by_cases hux : u.column = x
    · rw [if_pos hux]
      exact ⟨Or.inr (h u (by simp) hux), ih' _⟩
    · rw [if_neg hux]
      exact ih' _

/-- … well-formed buffers with one section per dirty chunk are another (resizing merges allowed, no condition on the ops) -/
theorem ChunksOK_of_one (hash : Bytes → Nat) (ups : List Buf) (x : String) (cs : List Nat)
    (h : ∀ v ∈ ups, v.column = x → BufOK v ∧ ∀ ch ∈ cs, OneSec v ch) : ∀ col, ChunksOK hash ups x cs col := by
  induction cs with
  | nil => intro col; trivial
  | cons c cs ih =>
    intro col
    exact ⟨BufsOK_of_one hash x c ups (fun v hv hx => ⟨(h v hv hx).1, (h v hv hx).2 c (by simp)⟩) _,
      ih (fun v hv hx => ⟨(h v hv hx).1, fun ch hch => (h v hv hx).2 ch (by simp [hch])⟩) _⟩

theorem ChunksOK_of_nodup (hash : Bytes → Nat) (ups : List Buf) (x : String) (cs : List Nat)
    (h : ∀ v ∈ ups, v.column = x → BufOK v ∧ v.chunks.Nodup) (col : Col) : ChunksOK hash ups x cs col :=
  ChunksOK_of_one hash ups x cs (fun v hv hx => ⟨(h v hv hx).1, fun ch _ => OneSec_of_nodup v (h v hv hx).2 ch⟩) col

/-- `commit` at slot level with the general guard -/
theorem commit_slot_ok (s : Store) (t : Txn) (x : String) (col : Col) (E : Bool × Bytes → Op → Bool × Bytes)
    (hxr : x ≠ rowColumn) (hf : s.findCol x = some col) (hd : col.kind.isData = true) (hw : ColWF col)
    (hcov : s.commits.size ≤ col.nchunks)
    (hcomp : ∀ v ∈ t.updates, ∀ c, s.findCol v.column = some c → x ∉ c.computed)
    (hok : ChunksOK s.hash t.updates x t.dirtyChunks (capCol s t col))
    (hlaw : SlotLaw s.hash col.kind col.merge E)
    (hinv : ∀ v ∈ t.updates, (v.column = x ∨ isMarkerBuf v = true) → ChunkOK v) :
    ∃ col', (s.commit t).findCol x = some col' ∧ col'.kind = col.kind ∧ col'.merge = col.merge ∧ ColWF col' ∧
      col.nchunks ≤ col'.nchunks ∧ (∀ c ∈ t.dirtyChunks, c < col'.nchunks) ∧
      col' = colChunks s.hash t.updates x t.dirtyChunks (capCol s t col) ∧
      ∀ i, slot col' i =
        ((markerAll t.updates ++ allFor t.updates x).filter (fun o => o.idx = i)).foldl E (slot col i) :=
  commit_slot_of_eq s t x col E hd hw hcov (commit_col_ok s t x col hxr hf hd hcomp hok) hlaw hinv

/-! ### a checker for `BufOK`; distinct buffer names -/

/-- executable check of `BufOK` (for concrete buffers: `bufOK_of_check b (by decide)`) -/
def bufOKb (b : Buf) : Bool :=
  b.rsecs.all (fun s => s.rops.all (fun o => chunkOf o.idx == s.chunk)) &&
    (match b.rsecs, b.cur with
     | s :: _, some c => s.chunk == c
     | _, _ => true)

theorem bufOK_of_check (b : Buf) (h : bufOKb b = true) : BufOK b := by
  unfold bufOKb at h
  rw [Bool.and_eq_true] at h
  refine ⟨?_, ?_⟩
  · intro s hs o ho
    have h1 := List.all_eq_true.1 h.1 s hs
    have h2 := List.all_eq_true.1 h1 o ho
    simpa using h2
  · intro s rest hsr c hc
    have h2 := h.2
    rw [hsr, hc] at h2
    simpa using h2

theorem BufsOK_of_none (hash : Bytes → Nat) (x : String) (ch : Nat) (ups : List Buf) (h : ∀ v ∈ ups, v.column ≠ x) :
    ∀ col, BufsOK hash x ch ups col :=
  BufsOK_of_one hash x ch ups (fun v hv hx => absurd hx (h v hv))

/-- with distinct buffer names the guard of a chunk is the guard of the one buffer of the column -/
theorem BufsOK_of_distinct (hash : Bytes → Nat) (ch : Nat) (ups : List Buf) (hd : BufsDistinct ups) (u : Buf)
    (hu : u ∈ ups) (col : Col) (hok : PassOK hash col ch u) : BufsOK hash u.column ch ups col := by
  induction ups with
  | nil => cases hu
  | cons v vs ih =>
    unfold BufsDistinct at hd
    simp only [List.map_cons, List.nodup_cons] at hd
    rw [BufsOK_cons]
    rcases List.mem_cons.1 hu with rfl | hu
    · rw [if_pos rfl]
      refine ⟨hok, BufsOK_of_none hash _ ch vs ?_ _⟩
      intro w hw e
      exact hd.1 (List.mem_map.2 ⟨w, hw, e⟩)
    · have hne : v.column ≠ u.column := fun e => hd.1 (List.mem_map.2 ⟨u, hu, e.symm⟩)
      rw [if_neg hne]
      exact ih hd.2 hu

end ColumnVerif.Store
