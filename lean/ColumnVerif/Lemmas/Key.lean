import ColumnVerif.Model.Store
import ColumnVerif.Model.Txn
import ColumnVerif.Lemmas.Bits
import ColumnVerif.Lemmas.Apply
import ColumnVerif.Lemmas.Buffer
/-!
Lemmas: the key column's table (`seek`) against its presence bits and stored keys — what one
`stepKey` does to the table, the bits and the slots.
-/
namespace ColumnVerif.Store
open ColumnVerif.Codec ColumnVerif.Bits

/-- the key stored (possibly stale) in slot `o` -/
def keyAt (c : Col) (o : Nat) : Bytes := (c.data[o]?).getD []

/-- K1: the table maps exactly the keys of present rows to their rows -/
def KeyInv (c : Col) : Prop :=
  ∀ k o, c.seek.get? k = some o ↔
    (Bits.get c.bits o = true ∧ (c.data[o]?).getD [] = k ∧ o < c.bits.size ∧ o < c.data.size)

/-- what `stepKey` does to the column does not depend on the two op accumulators -/
theorem stepKey_fst (acc : ApplyAcc) (o : Op) : (stepKey acc o).1 = (stepKey (acc.1, [], []) o).1 := by
  obtain ⟨c, done, app⟩ := acc
  unfold stepKey
  simp only
  split
  · rfl
  · split <;> rfl

theorem stepKey_shape (acc : ApplyAcc) (o : Op) : SameShape acc.1 (stepKey acc o).1 := by
  obtain ⟨c, done, app⟩ := acc
  unfold stepKey
  simp only
  split
  · exact ⟨rfl, rfl, rfl, by simp, by simp, rfl, rfl⟩
  · split
    · exact ⟨rfl, rfl, rfl, by simp, rfl, rfl, rfl⟩
    · exact SameShape.refl c

/-! ### `Put` -/

/-- the table after a `Put` of key `v` at `i`: `v ↦ i`; the row's previous key is released when the
    row was present under another key that resolved to it; every other key is untouched -/
theorem stepKey_put_seek (acc : ApplyAcc) (o : Op) (h : o.typ = opPut) (k : Bytes) :
    (stepKey acc o).1.seek.get? k =
      if valRaw o.val = k then some o.idx
      else if Bits.get acc.1.bits o.idx = true ∧ keyAt acc.1 o.idx ≠ valRaw o.val ∧
              acc.1.seek.get? (keyAt acc.1 o.idx) = some o.idx ∧ keyAt acc.1 o.idx = k then none
      else acc.1.seek.get? k := by
  obtain ⟨c, done, app⟩ := acc
  unfold stepKey keyAt
  simp only
  rw [if_pos h]
  simp only [getD_eq]
  by_cases hc : Bits.get c.bits o.idx = true ∧ (c.data[o.idx]?).getD [] ≠ valRaw o.val ∧
      c.seek.get? ((c.data[o.idx]?).getD []) = some o.idx
  · rw [if_pos hc]
    simp only [Std.HashMap.get?_eq_getElem?, Std.HashMap.getElem?_insert, Std.HashMap.getElem?_erase]
    simp only [Std.HashMap.get?_eq_getElem?] at hc
    simp only [beq_iff_eq]
    split
    · rfl
    · simp [hc]
  · rw [if_neg hc]
    simp only [Std.HashMap.get?_eq_getElem?, Std.HashMap.getElem?_insert]
    simp only [Std.HashMap.get?_eq_getElem?] at hc
    simp only [beq_iff_eq]
    split
    · rfl
    · rw [if_neg]
      intro hh
      exact hc ⟨hh.1, hh.2.1, hh.2.2.1⟩

theorem stepKey_put_bits (acc : ApplyAcc) (o : Op) (h : o.typ = opPut) (hb : o.idx < acc.1.bits.size) (j : Nat) :
    Bits.get (stepKey acc o).1.bits j = if j = o.idx then true else Bits.get acc.1.bits j := by
  obtain ⟨c, done, app⟩ := acc
  unfold stepKey
  simp only
  rw [if_pos h]
  exact get_setIfInBounds _ _ _ _ hb

theorem stepKey_put_data (acc : ApplyAcc) (o : Op) (h : o.typ = opPut) (hd : o.idx < acc.1.data.size) (j : Nat) :
    keyAt (stepKey acc o).1 j = if j = o.idx then valRaw o.val else keyAt acc.1 j := by
  obtain ⟨c, done, app⟩ := acc
  unfold stepKey keyAt
  simp only
  rw [if_pos h]
  exact data_setIfInBounds _ _ _ _ hd

/-! ### `Delete` -/

/-- the table after a `Delete` at `i`: whatever key slot `i` holds is released (unconditionally) -/
theorem stepKey_delete_seek (acc : ApplyAcc) (o : Op) (h : o.typ = opDelete) (k : Bytes) :
    (stepKey acc o).1.seek.get? k = if keyAt acc.1 o.idx = k then none else acc.1.seek.get? k := by
  obtain ⟨c, done, app⟩ := acc
  unfold stepKey keyAt
  simp only
  rw [if_neg (by rw [h]; decide), if_pos h]
  simp only [getD_eq, Std.HashMap.get?_eq_getElem?, Std.HashMap.getElem?_erase, beq_iff_eq]

theorem stepKey_delete_bits (acc : ApplyAcc) (o : Op) (h : o.typ = opDelete) (hb : o.idx < acc.1.bits.size) (j : Nat) :
    Bits.get (stepKey acc o).1.bits j = if j = o.idx then false else Bits.get acc.1.bits j := by
  obtain ⟨c, done, app⟩ := acc
  unfold stepKey
  simp only
  rw [if_neg (by rw [h]; decide), if_pos h]
  exact get_setIfInBounds _ _ _ _ hb

theorem get_setIfInBounds_ne (b : Bitmap) (i j : Nat) (v : Bool) (h : i ≠ j) :
    Bits.get (b.setIfInBounds i v) j = Bits.get b j := by
  unfold Bits.get
  rw [Array.getElem?_setIfInBounds, if_neg h]

/-- no bound needed for the other rows -/
theorem stepKey_delete_bits_ne (acc : ApplyAcc) (o : Op) (h : o.typ = opDelete) (j : Nat) (hj : o.idx ≠ j) :
    Bits.get (stepKey acc o).1.bits j = Bits.get acc.1.bits j := by
  obtain ⟨c, done, app⟩ := acc
  unfold stepKey
  simp only
  rw [if_neg (by rw [h]; decide), if_pos h]
  exact get_setIfInBounds_ne _ _ _ _ hj

theorem stepKey_delete_data (acc : ApplyAcc) (o : Op) (h : o.typ = opDelete) : (stepKey acc o).1.data = acc.1.data := by
  obtain ⟨c, done, app⟩ := acc
  unfold stepKey
  simp only
  rw [if_neg (by rw [h]; decide), if_pos h]

/-! ### other op types -/

theorem stepKey_other (acc : ApplyAcc) (o : Op) (h1 : o.typ ≠ opPut) (h2 : o.typ ≠ opDelete) :
    (stepKey acc o).1 = acc.1 := by
  obtain ⟨c, done, app⟩ := acc
  unfold stepKey
  simp only
  rw [if_neg h1, if_neg h2]

/-! ### empty table -/

theorem get_replicate_false (n o : Nat) : Bits.get (Array.replicate n false) o = false := by
  unfold Bits.get
  rw [Array.getElem?_replicate]
  split <;> rfl

/-- an empty table over an all-clear bitmap -/
theorem keyInv_of_empty (c : Col) (hs : c.seek = {}) (hb : ∀ o, Bits.get c.bits o = false) : KeyInv c := by
  intro k o
  rw [hs, hb o]
  simp

/-! ### the guard for op lists -/

/-- guard for one op in the state it is applied to: a `Put` is in bounds and its key is new or
    already this row's; a `Delete` hits a present row -/
def WFKeyOp (c : Col) (o : Op) : Prop :=
  if o.typ = opPut then
    o.idx < c.bits.size ∧ o.idx < c.data.size ∧
      (c.seek.get? (valRaw o.val) = none ∨ c.seek.get? (valRaw o.val) = some o.idx)
  else if o.typ = opDelete then Bits.get c.bits o.idx = true ∧ o.idx < c.data.size
  else True

instance (c : Col) (o : Op) : Decidable (WFKeyOp c o) := by
  unfold WFKeyOp; exact inferInstance

/-- every op of the list meets its guard in the state reached when it is processed -/
def WFKeyOps (c : Col) : List Op → Prop
  | [] => True
  | o :: os => WFKeyOp c o ∧ WFKeyOps (stepKey (c, [], []) o).1 os

instance decWFKeyOps : (c : Col) → (ops : List Op) → Decidable (WFKeyOps c ops)
  | _, [] => isTrue trivial
  | c, o :: os =>
    have := decWFKeyOps (stepKey (c, [], []) o).1 os
    inferInstanceAs (Decidable (WFKeyOp c o ∧ WFKeyOps (stepKey (c, [], []) o).1 os))

theorem WFKeyOps_cons (acc : ApplyAcc) (o : Op) (os : List Op) :
    WFKeyOps acc.1 (o :: os) ↔ WFKeyOp acc.1 o ∧ WFKeyOps (stepKey acc o).1 os := by
  rw [stepKey_fst]; rfl

theorem foldl_stepKey_fst (ops : List Op) (acc : ApplyAcc) :
    (ops.foldl stepKey acc).1 = (ops.foldl stepKey (acc.1, [], [])).1 := by
  induction ops generalizing acc with
  | nil => rfl
  | cons o os ih =>
    simp only [List.foldl_cons]
    rw [ih (stepKey acc o), ih (stepKey (acc.1, [], []) o), stepKey_fst acc o]

theorem foldl_stepKey_shape (ops : List Op) (acc : ApplyAcc) : SameShape acc.1 (ops.foldl stepKey acc).1 := by
  induction ops generalizing acc with
  | nil => exact SameShape.refl _
  | cons o os ih =>
    simp only [List.foldl_cons]
    exact SameShape.trans (stepKey_shape acc o) (ih _)

/-- the main pass over a section of a key column is the fold of `stepKey` -/
theorem applyData_key (hash : Bytes → Nat) (c : Col) (chunk : Nat) (ops : List Op)
    (hk : c.kind = .key) (hc : chunk < c.nchunks) :
    (applyData hash c chunk ops).col = (ops.foldl stepKey (c, [], [])).1 := by
  unfold applyData
  rw [if_neg (by omega)]
  simp only [hk, stepOf]

/-! ### transaction buffers -/

theorem _root_.ColumnVerif.Codec.Buf.column_put (b : Buf) (o : Op) : (b.put o).column = b.column := by
  unfold Buf.put
  simp only
  split
  · split <;> rfl
  · rfl

/-- after `putOp name o` the buffer of `name` exists and `o` is the last op in it -/
theorem putOp_last (t : Txn) (name : String) (o : Op) :
    (∃ b ∈ (t.putOp name o).updates, b.column = name) ∧
    (∀ b ∈ (t.putOp name o).updates, b.column = name → b.allOps.getLast? = some o) := by
  unfold Txn.putOp
  simp only
  constructor
  · have : ∃ b0 ∈ (t.bufferFor name).updates, b0.column = name := by
      unfold Txn.bufferFor
      split
      · rename_i h
        obtain ⟨b, hb, hn⟩ := List.any_eq_true.1 h
        exact ⟨b, hb, by simpa using hn⟩
      · exact ⟨Buf.empty name, by simp, rfl⟩
    obtain ⟨b0, hb0, hn⟩ := this
    refine ⟨b0.put o, List.mem_map.2 ⟨b0, hb0, by simp [hn]⟩, ?_⟩
    rw [Buf.column_put]; exact hn
  · intro b hb hn
    obtain ⟨b0, _, rfl⟩ := List.mem_map.1 hb
    by_cases e : b0.column = name
    · simp only [e, beq_self_eq_true, if_true]
      rw [Buf.allOps_put]; simp
    · have : (b0.column == name) = false := by simpa using e
      simp only [this] at hn
      exact absurd hn e

end ColumnVerif.Store
