import ColumnVerif.Lemmas.Index
import ColumnVerif.Lemmas.Key
import ColumnVerif.Lemmas.Buffer
import ColumnVerif.Model.Snapshot
/-!
Lemmas for the store-level read-back (C01) and the snapshot round trip (C07):
registry (`findCol` / `setCol`), `mainPass` on a numeric column, `commitUpdates`, `commitMarkers`,
`commit`, and `snapshotOps` applied to a fresh column.
-/
namespace ColumnVerif.Store
open ColumnVerif.Codec ColumnVerif.Bits

/-! ## R1 — the registry: `findCol` / `colIdx` / `setCol` (first-match semantics) -/

theorem list_find?_set_same {α : Type} (p : α → Bool) (l : List α) (i : Nat) (c : α)
    (hi : l.findIdx? p = some i) (hc : p c = true) : (l.set i c).find? p = some c := by
  induction l generalizing i with
  | nil => simp at hi
  | cons x xs ih =>
    rw [List.findIdx?_cons] at hi
    by_cases hx : p x = true
    · simp only [hx, if_true, Option.some.injEq] at hi
      subst hi
      simp [hc]
    · simp only [hx, Bool.false_eq_true, if_false, Option.map_eq_some_iff] at hi
      obtain ⟨j, hj, rfl⟩ := hi
      simp [hx, ih j hj]

theorem list_findIdx?_getElem {α : Type} (p : α → Bool) (l : List α) (i : Nat)
    (hi : l.findIdx? p = some i) : ∃ h : i < l.length, p l[i] = true := by
  induction l generalizing i with
  | nil => simp at hi
  | cons x xs ih =>
    rw [List.findIdx?_cons] at hi
    by_cases hx : p x = true
    · simp only [hx, if_true, Option.some.injEq] at hi
      subst hi
      exact ⟨by simp, by simpa using hx⟩
    · simp only [hx, Bool.false_eq_true, if_false, Option.map_eq_some_iff] at hi
      obtain ⟨j, hj, rfl⟩ := hi
      obtain ⟨h1, h2⟩ := ih j hj
      exact ⟨by simp; omega, by simpa using h2⟩

theorem list_find?_set_other {α : Type} (q : α → Bool) (l : List α) (i : Nat) (c : α)
    (hi : ∀ h : i < l.length, q l[i] = false) (hc : q c = false) : (l.set i c).find? q = l.find? q := by
  induction l generalizing i with
  | nil => simp
  | cons x xs ih =>
    cases i with
    | zero =>
      have := hi (by simp)
      simp only [List.getElem_cons_zero] at this
      simp [this, hc]
    | succ j =>
      simp only [List.set_cons_succ, List.find?_cons]
      rw [ih j (fun h => by have := hi (by simp; omega); simpa using this)]

theorem list_findIdx?_isSome {α : Type} (p : α → Bool) (l : List α) :
    (l.findIdx? p).isSome = (l.find? p).isSome := by
  induction l with
  | nil => rfl
  | cons x xs ih =>
    rw [List.findIdx?_cons, List.find?_cons]
    by_cases hx : p x = true
    · simp [hx]
    · simp [hx, ih]

theorem array_findIdx?_toList {α : Type} (p : α → Bool) (xs : Array α) :
    xs.toList.findIdx? p = xs.findIdx? p := by
  have := List.findIdx?_toArray p xs.toList
  rw [Array.toArray_toList] at this
  exact this.symm

theorem findCol_name {s : Store} {n : String} {c : Col} (h : s.findCol n = some c) : c.name = n := by
  unfold Store.findCol at h
  have := Array.find?_some h
  simpa using this

theorem findCol_mem {s : Store} {n : String} {c : Col} (h : s.findCol n = some c) : c ∈ s.cols := by
  unfold Store.findCol at h
  exact Array.mem_of_find?_eq_some h

theorem colIdx_isSome (s : Store) (n : String) : (s.colIdx n).isSome = (s.findCol n).isSome := by
  unfold Store.colIdx Store.findCol
  rw [← array_findIdx?_toList, ← Array.find?_toList]
  exact list_findIdx?_isSome _ _

/-- R1: after `setCol c` the registry resolves `c.name` to `c`, provided the name is registered -/
theorem findCol_setCol_same (s : Store) (c : Col) (h : (s.findCol c.name).isSome) :
    (s.setCol c).findCol c.name = some c := by
  rw [← colIdx_isSome] at h
  unfold Store.setCol
  cases hi : s.colIdx c.name with
  | none => rw [hi] at h; cases h
  | some i =>
    simp only
    unfold Store.findCol
    unfold Store.colIdx at hi
    rw [← array_findIdx?_toList] at hi
    rw [← Array.find?_toList, Array.toList_setIfInBounds]
    exact list_find?_set_same _ _ i c hi (by simp)

/-- R1: `setCol c` does not change what any other name resolves to -/
theorem findCol_setCol_other (s : Store) (c : Col) (n : String) (hn : n ≠ c.name) :
    (s.setCol c).findCol n = s.findCol n := by
  unfold Store.setCol
  cases hi : s.colIdx c.name with
  | none => rfl
  | some i =>
    simp only
    unfold Store.findCol
    unfold Store.colIdx at hi
    rw [← array_findIdx?_toList] at hi
    rw [← Array.find?_toList, ← Array.find?_toList, Array.toList_setIfInBounds]
    obtain ⟨h1, h2⟩ := list_findIdx?_getElem _ _ i hi
    apply list_find?_set_other
    · intro _
      have : s.cols.toList[i].name = c.name := by simpa using h2
      simp only [this]
      simpa using fun e => hn e.symm
    · simpa using fun e => hn e.symm

/-- `setCol` of a column found under its own name: the general read-after-write fact -/
theorem findCol_setCol (s : Store) (c : Col) (n : String) (h : (s.findCol c.name).isSome) :
    (s.setCol c).findCol n = if n = c.name then some c else s.findCol n := by
  by_cases e : n = c.name
  · rw [if_pos e, e]; exact findCol_setCol_same s c h
  · rw [if_neg e]; exact findCol_setCol_other s c n e

/-- column names are pairwise distinct -/
def NamesDistinct (s : Store) : Prop := (s.cols.toList.map (·.name)).Nodup

instance (s : Store) : Decidable (NamesDistinct s) := by unfold NamesDistinct; exact inferInstance

theorem list_map_set_same {α β : Type} (f : α → β) (l : List α) (i : Nat) (c : α)
    (h : ∀ hi : i < l.length, f l[i] = f c) : (l.set i c).map f = l.map f := by
  induction l generalizing i with
  | nil => rfl
  | cons x xs ih =>
    cases i with
    | zero =>
      have := h (by simp)
      simp only [List.getElem_cons_zero] at this
      simp [this]
    | succ j =>
      simp only [List.set_cons_succ, List.map_cons]
      rw [ih j (fun hi => by have := h (by simp; omega); simpa using this)]

/-- `setCol` never changes the list of registered names -/
theorem setCol_names (s : Store) (c : Col) :
    (s.setCol c).cols.toList.map (·.name) = s.cols.toList.map (·.name) := by
  unfold Store.setCol
  cases hi : s.colIdx c.name with
  | none => rfl
  | some i =>
    simp only
    unfold Store.colIdx at hi
    rw [← array_findIdx?_toList] at hi
    rw [Array.toList_setIfInBounds]
    obtain ⟨h1, h2⟩ := list_findIdx?_getElem _ _ i hi
    apply list_map_set_same
    intro _
    simpa using h2

theorem setCol_namesDistinct (s : Store) (c : Col) (h : NamesDistinct s) : NamesDistinct (s.setCol c) := by
  unfold NamesDistinct; rw [setCol_names]; exact h

theorem setCol_size (s : Store) (c : Col) : (s.setCol c).cols.size = s.cols.size := by
  unfold Store.setCol
  split <;> simp

/-! ## R2 — `mainPass` on a numeric column: every slot is the fold of the chunk's ops, in order -/

/-- the arrays of a data column have exactly one slot per offset of every allocated chunk -/
structure ColWF (c : Col) : Prop where
  bsize : c.bits.size = 16384 * c.nchunks
  dsize : c.data.size = 16384 * c.nchunks

instance (c : Col) : Decidable (ColWF c) :=
  if h : c.bits.size = 16384 * c.nchunks ∧ c.data.size = 16384 * c.nchunks then isTrue ⟨h.1, h.2⟩
  else isFalse (fun w => h ⟨w.bsize, w.dsize⟩)

theorem ColWF.of_shape {c c' : Col} (hs : SameShape c c') (h : ColWF c) : ColWF c' :=
  ⟨by rw [hs.bsize, hs.nchunks]; exact h.bsize, by rw [hs.dsize, hs.nchunks]; exact h.dsize⟩

/-- ops of an allocated chunk address slots inside the arrays -/
theorem inBounds_of_chunk (c : Col) (chunk : Nat) (ops : List Op) (hw : ColWF c) (hch : chunk < c.nchunks)
    (h : ∀ o ∈ ops, chunkOf o.idx = chunk) : InBounds c ops := by
  intro o ho
  have := h o ho
  unfold chunkOf chunkSize at this
  rw [hw.bsize, hw.dsize]
  have h2 : 16384 * (chunk + 1) ≤ 16384 * c.nchunks := Nat.mul_le_mul_left _ hch
  omega

/-- the part of `Buf.Inv` the read-back needs: every op sits in a section of its own chunk -/
def ChunkOK (b : Buf) : Prop := ∀ s ∈ b.rsecs, ∀ o ∈ s.rops, chunkOf o.idx = s.chunk

theorem _root_.ColumnVerif.Codec.Buf.Inv.chunkOK {b : Buf} (h : b.Inv) : ChunkOK b := h.chunk_ok

/-- reading one chunk = filtering the op list by chunk (`Buf.rangeOps_eq_filter` under the weaker invariant) -/
theorem rangeOps_eq_filter_ok (b : Buf) (c : Nat) (h : ChunkOK b) :
    b.rangeOps c = b.allOps.filter (fun o => chunkOf o.idx = c) := by
  have hc : ∀ s ∈ b.secs, ∀ o ∈ s.ops, chunkOf o.idx = s.chunk := by
    intro s hs o ho
    exact h s (by simpa [Buf.secs] using hs) o (by simpa [Sec.ops] using ho)
  unfold Buf.rangeOps Buf.range Buf.allOps
  generalize b.secs = secs at hc
  induction secs with
  | nil => simp
  | cons s rest ih =>
    have ih' := ih (fun s' hs' => hc s' (by simp [hs']))
    simp only [List.filter_cons, List.map_cons, List.flatten_cons, List.filter_append]
    by_cases hsc : s.chunk = c
    · simp only [hsc, decide_true, if_true, List.map_cons, List.flatten_cons, ih']
      congr 1
      symm
      rw [List.filter_eq_self]
      intro o ho
      have := hc s (by simp) o ho
      simp [this, hsc]
    · simp only [hsc, decide_false, Bool.false_eq_true, if_false, ih']
      have : s.ops.filter (fun o => decide (chunkOf o.idx = c)) = [] := by
        rw [List.filter_eq_nil_iff]
        intro o ho
        have := hc s (by simp) o ho
        simp [this, hsc]
      simp [this]

theorem rangeOps_chunk (u : Buf) (h : ChunkOK u) (c : Nat) : ∀ o ∈ u.rangeOps c, chunkOf o.idx = c := by
  intro o ho
  rw [rangeOps_eq_filter_ok u c h] at ho
  simpa using (List.mem_filter.1 ho).2

theorem inBounds_rangeOps (c : Col) (chunk : Nat) (u : Buf) (hw : ColWF c) (hch : chunk < c.nchunks) (hu : ChunkOK u) :
    InBounds c (u.rangeOps chunk) :=
  inBounds_of_chunk c chunk _ hw hch (rangeOps_chunk u hu chunk)

theorem InBounds.of_sameShape {c c' : Col} {ops : List Op} (hs : SameShape c c') (h : InBounds c ops) :
    InBounds c' ops := by
  intro x hx
  have := h x hx
  rw [hs.bsize, hs.dsize]; exact this

theorem foldCol_slot (k : NumKind) (ops : List Op) (c : Col) (i : Nat) (hin : InBounds c ops) :
    slot (ops.foldl (stepCol k) c) i =
      (ops.filter (fun o => o.idx = i)).foldl (slotEffect c.merge k.width) (slot c i) := by
  have := foldNum_slot k ops (c, [], []) i hin
  rw [foldNum_eq] at this
  exact this

/-- the column a numeric main pass leaves behind -/
theorem mainPass_num_col (hash : Bytes → Nat) (col : Col) (k : NumKind) (hk : col.kind = .num k) (chunk : Nat)
    (hch : chunk < col.nchunks) (u : Buf) :
    (mainPass hash col chunk u).1 = (u.rangeOps chunk).foldl (stepCol k) col := by
  rw [(mainPass_num hash col k hk chunk hch u).1, mainSecs_num hash chunk k _ col hk hch]
  rfl

/-- R2: after the main pass of a numeric column over buffer `u`, slot `i` is the fold of the ops of the chunk
    addressed to `i`, in section (= issue) order, over its previous content -/
theorem mainPass_num_slot (hash : Bytes → Nat) (col : Col) (k : NumKind) (hk : col.kind = .num k) (chunk : Nat)
    (hch : chunk < col.nchunks) (u : Buf) (hin : InBounds col (u.rangeOps chunk)) (i : Nat) :
    slot (mainPass hash col chunk u).1 i =
      ((u.rangeOps chunk).filter (fun o => o.idx = i)).foldl (slotEffect col.merge k.width) (slot col i) := by
  rw [mainPass_num_col hash col k hk chunk hch u]
  exact foldCol_slot k _ col i hin

theorem mainPass_num_shape (hash : Bytes → Nat) (col : Col) (k : NumKind) (hk : col.kind = .num k) (chunk : Nat)
    (hch : chunk < col.nchunks) (u : Buf) : SameShape col (mainPass hash col chunk u).1 := by
  rw [mainPass_num_col hash col k hk chunk hch u]
  exact foldCol_shape k _ col

theorem mainPass_num_panic (hash : Bytes → Nat) (col : Col) (k : NumKind) (hk : col.kind = .num k) (chunk : Nat)
    (hch : chunk < col.nchunks) (u : Buf) : (mainPass hash col chunk u).2.2 = false :=
  (mainPass_num hash col k hk chunk hch u).2.2

/-- with `Buf.Inv`: the ops are those the transaction issued for that chunk and offset, in issue order -/
theorem mainPass_num_slot_issued (hash : Bytes → Nat) (col : Col) (k : NumKind) (hk : col.kind = .num k) (chunk : Nat)
    (hch : chunk < col.nchunks) (hw : ColWF col) (u : Buf) (hu : ChunkOK u) (i : Nat) :
    slot (mainPass hash col chunk u).1 i =
      ((u.allOps.filter (fun o => chunkOf o.idx = chunk)).filter (fun o => o.idx = i)).foldl
        (slotEffect col.merge k.width) (slot col i) := by
  rw [mainPass_num_slot hash col k hk chunk hch u (inBounds_rangeOps col chunk u hw hch hu) i,
    rangeOps_eq_filter_ok u chunk hu]

/-- the buffer a numeric main pass leaves behind: same sections, those of `chunk` rewritten in place -/
theorem mainPass_num_buf (hash : Bytes → Nat) (col : Col) (k : NumKind) (hk : col.kind = .num k) (chunk : Nat)
    (hch : chunk < col.nchunks) (u : Buf) :
    (mainPass hash col chunk u).2.1 = { u with rsecs := (mpSpec k chunk col u.secs).2.reverse } := by
  have hlen : u.rsecs.length = u.secs.length := by simp [Buf.secs]
  rw [mainPass_eq, hlen, mainPass_upTo hash col k hk chunk hch u u.secs.length (Nat.le_refl _)]
  simp only [List.take_length, List.drop_length, List.append_nil]

theorem mpSpec_other (k : NumKind) (chunk c2 : Nat) (h : c2 ≠ chunk) (S : List Sec) (c : Col) :
    (mpSpec k chunk c S).2.filter (fun s => s.chunk = c2) = S.filter (fun s => s.chunk = c2) := by
  induction S generalizing c with
  | nil => rfl
  | cons x xs ih =>
    simp only [mpSpec]
    by_cases hx : x.chunk = chunk
    · rw [if_pos hx]
      have : ¬ x.chunk = c2 := by rw [hx]; exact fun e => h e.symm
      simp [this, ih]
    · rw [if_neg hx]
      simp [List.filter_cons, ih]

/-- the sections of every other chunk are left alone by the pass of `chunk` -/
theorem mainPass_num_range_other (hash : Bytes → Nat) (col : Col) (k : NumKind) (hk : col.kind = .num k) (chunk : Nat)
    (hch : chunk < col.nchunks) (u : Buf) (c2 : Nat) (h : c2 ≠ chunk) :
    (mainPass hash col chunk u).2.1.range c2 = u.range c2 := by
  rw [mainPass_num_buf hash col k hk chunk hch u]
  unfold Buf.range
  rw [secs_set, mpSpec_other k chunk c2 h]

theorem mainPass_num_column (hash : Bytes → Nat) (col : Col) (k : NumKind) (hk : col.kind = .num k) (chunk : Nat)
    (hch : chunk < col.nchunks) (u : Buf) : (mainPass hash col chunk u).2.1.column = u.column := by
  rw [mainPass_num_buf hash col k hk chunk hch u]

/-! ## R6 — a chunk's snapshot applied to a fresh column -/

/-- the shape of every op list `Column.Snapshot` / `chunkState` writes: one op per `x < n` with `p x`, ascending -/
def snapList (typ lo n : Nat) (p : Nat → Bool) (g : Nat → Val) : List Op :=
  ((List.range n).filter p).map (fun x => (⟨typ, lo + x, g x⟩ : Op))

theorem snapList_succ (typ lo n : Nat) (p : Nat → Bool) (g : Nat → Val) :
    snapList typ lo (n + 1) p g = snapList typ lo n p g ++ (if p n = true then [⟨typ, lo + n, g n⟩] else []) := by
  unfold snapList
  rw [List.range_succ, List.filter_append, List.map_append]
  by_cases hp : p n = true
  · simp [hp]
  · simp [hp]

/-- at most one op of a snapshot addresses a given offset -/
theorem snapList_filter (typ lo n : Nat) (p : Nat → Bool) (g : Nat → Val) (i : Nat) :
    (snapList typ lo n p g).filter (fun o => o.idx = i) =
      if lo ≤ i ∧ i < lo + n ∧ p (i - lo) = true then [⟨typ, i, g (i - lo)⟩] else [] := by
  induction n with
  | zero =>
    have : ¬ (lo ≤ i ∧ i < lo + 0 ∧ p (i - lo) = true) := by omega
    rw [if_neg this]; rfl
  | succ n ih =>
    rw [snapList_succ, List.filter_append, ih]
    by_cases e : i = lo + n
    · subst e
      have h1 : lo + n - lo = n := by omega
      have hA : ¬ (lo ≤ lo + n ∧ lo + n < lo + n ∧ p (lo + n - lo) = true) := by omega
      rw [if_neg hA, h1]
      by_cases hp : p n = true
      · have hB : lo ≤ lo + n ∧ lo + n < lo + (n + 1) ∧ p n = true := ⟨by omega, by omega, hp⟩
        rw [if_pos hp, if_pos hB]
        simp
      · have hB : ¬ (lo ≤ lo + n ∧ lo + n < lo + (n + 1) ∧ p n = true) := fun h => hp h.2.2
        rw [if_neg hp, if_neg hB]
        simp
    · have hlast : (if p n = true then [(⟨typ, lo + n, g n⟩ : Op)] else []).filter (fun o => o.idx = i) = [] := by
        split
        · have : ¬ lo + n = i := fun h => e h.symm
          simp [this]
        · rfl
      rw [hlast, List.append_nil]
      by_cases hc : lo ≤ i ∧ i < lo + n ∧ p (i - lo) = true
      · have hc' : lo ≤ i ∧ i < lo + (n + 1) ∧ p (i - lo) = true := ⟨hc.1, by omega, hc.2.2⟩
        rw [if_pos hc, if_pos hc']
      · have hc' : ¬ (lo ≤ i ∧ i < lo + (n + 1) ∧ p (i - lo) = true) := by
          intro h; apply hc; exact ⟨h.1, by omega, h.2.2⟩
        rw [if_neg hc, if_neg hc']

theorem snapList_typ (typ lo n : Nat) (p : Nat → Bool) (g : Nat → Val) : ∀ o ∈ snapList typ lo n p g, o.typ = typ := by
  intro o ho
  unfold snapList at ho
  obtain ⟨x, _, rfl⟩ := List.mem_map.1 ho
  rfl

theorem snapList_idx (typ lo n : Nat) (p : Nat → Bool) (g : Nat → Val) :
    ∀ o ∈ snapList typ lo n p g, lo ≤ o.idx ∧ o.idx < lo + n := by
  intro o ho
  unfold snapList at ho
  obtain ⟨x, hx, rfl⟩ := List.mem_map.1 ho
  have := (List.mem_filter.1 hx).1
  simp only [List.mem_range] at this
  simp only
  omega

/-- offsets of chunk `ch` relative to its first offset -/
theorem chunk_cond (ch i : Nat) : (16384 * ch ≤ i ∧ i < 16384 * ch + 16384) ↔ i / 16384 = ch := by omega

/-- one snapshot filter in terms of "offset of the chunk and present" -/
theorem snapList_filter_chunk (typ ch : Nat) (p : Nat → Bool) (g : Nat → Val) (i : Nat) :
    (snapList typ (16384 * ch) 16384 (fun x => p (16384 * ch + x)) (fun x => g (16384 * ch + x))).filter (fun o => o.idx = i) =
      if i / 16384 = ch ∧ p i = true then [⟨typ, i, g i⟩] else [] := by
  rw [snapList_filter]
  by_cases hc : i / 16384 = ch
  · have h3 : 16384 * ch + (i - 16384 * ch) = i := by omega
    have h1 : 16384 * ch ≤ i := by omega
    have h2 : i < 16384 * ch + 16384 := by omega
    simp only [h3, h1, h2, hc, true_and]
  · have : ¬ (16384 * ch ≤ i ∧ i < 16384 * ch + 16384 ∧ p (16384 * ch + (i - 16384 * ch)) = true) := by
      intro h; apply hc; omega
    rw [if_neg this, if_neg (fun h => hc h.1)]

/-! ### data columns whose `Put` stores the raw value: numeric, string, record, key -/

/-- kinds whose `Apply` stores the raw bytes of a `Put` (everything but enum) -/
def Kind.storesRaw : Kind → Bool
  | .num _ | .str | .record | .key => true
  | _ => false

theorem stepOf_put_col (hash : Bytes → Nat) (kd : Kind) (hkd : kd.storesRaw = true) (acc : ApplyAcc) (o : Op)
    (h : o.typ = opPut) :
    (stepOf hash kd acc o).1.bits = acc.1.bits.setIfInBounds o.idx true ∧
    (stepOf hash kd acc o).1.data = acc.1.data.setIfInBounds o.idx (valRaw o.val) ∧
    (stepOf hash kd acc o).1.kind = acc.1.kind ∧ (stepOf hash kd acc o).1.nchunks = acc.1.nchunks ∧
    (stepOf hash kd acc o).1.name = acc.1.name := by
  obtain ⟨c, done, app⟩ := acc
  cases kd <;> simp only [Kind.storesRaw, Bool.false_eq_true] at hkd
  · unfold stepOf stepNum; simp only; rw [if_pos h]; simp
  · unfold stepOf stepStr; simp only; rw [if_pos h]; simp
  · unfold stepOf stepKey; simp only; rw [if_pos h]; simp
  · unfold stepOf stepStr; simp only; rw [if_pos h]; simp

theorem stepOf_put_slot (hash : Bytes → Nat) (kd : Kind) (hkd : kd.storesRaw = true) (acc : ApplyAcc) (o : Op)
    (h : o.typ = opPut) (hb : o.idx < acc.1.bits.size) (hd : o.idx < acc.1.data.size) (i : Nat) :
    slot (stepOf hash kd acc o).1 i = if i = o.idx then (true, valRaw o.val) else slot acc.1 i := by
  obtain ⟨h1, h2, _⟩ := stepOf_put_col hash kd hkd acc o h
  unfold slot
  rw [h1, h2, get_setIfInBounds _ _ _ _ hb, data_setIfInBounds _ _ _ _ hd]
  split <;> rfl

/-- a list of `Put`s applied to a raw-storing data column: the last `Put` of an offset decides its slot -/
theorem foldPuts_slot (hash : Bytes → Nat) (kd : Kind) (hkd : kd.storesRaw = true) (ops : List Op) (acc : ApplyAcc)
    (hput : ∀ o ∈ ops, o.typ = opPut) (hin : InBounds acc.1 ops) (i : Nat) :
    slot (ops.foldl (stepOf hash kd) acc).1 i =
      match (ops.filter (fun o => o.idx = i)).getLast? with
      | some o => (true, valRaw o.val)
      | none => slot acc.1 i := by
  induction ops generalizing acc with
  | nil => rfl
  | cons o os ih =>
    simp only [List.foldl_cons]
    have ho := hin o (by simp)
    have hp := hput o (by simp)
    obtain ⟨h1, h2, _⟩ := stepOf_put_col hash kd hkd acc o hp
    have hin' : InBounds (stepOf hash kd acc o).1 os := by
      intro x hx
      have := hin x (by simp [hx])
      rw [h1, h2]; simpa using this
    rw [ih _ (fun x hx => hput x (by simp [hx])) hin', stepOf_put_slot hash kd hkd acc o hp ho.1 ho.2]
    by_cases e : o.idx = i
    · have e' : i = o.idx := e.symm
      have hd : decide (o.idx = i) = true := by simpa using e
      rw [if_pos e', List.filter_cons, if_pos hd]
      cases hl : os.filter (fun o => o.idx = i) with
      | nil => simp
      | cons y ys =>
        rw [List.getLast?_cons_cons]
        cases hz : (y :: ys).getLast? with
        | none => simp at hz
        | some z => rfl
    · have e' : ¬ i = o.idx := fun h => e h.symm
      have hd : ¬ decide (o.idx = i) = true := by simpa using e
      rw [if_neg e', List.filter_cons, if_neg hd]

theorem foldPuts_meta (hash : Bytes → Nat) (kd : Kind) (hkd : kd.storesRaw = true) (ops : List Op) (acc : ApplyAcc)
    (hput : ∀ o ∈ ops, o.typ = opPut) :
    (ops.foldl (stepOf hash kd) acc).1.kind = acc.1.kind ∧ (ops.foldl (stepOf hash kd) acc).1.nchunks = acc.1.nchunks ∧
    (ops.foldl (stepOf hash kd) acc).1.name = acc.1.name := by
  induction ops generalizing acc with
  | nil => exact ⟨rfl, rfl, rfl⟩
  | cons o os ih =>
    simp only [List.foldl_cons]
    obtain ⟨_, _, h3, h4, h5⟩ := stepOf_put_col hash kd hkd acc o (hput o (by simp))
    obtain ⟨i3, i4, i5⟩ := ih (stepOf hash kd acc o) (fun x hx => hput x (by simp [hx]))
    exact ⟨i3.trans h3, i4.trans h4, i5.trans h5⟩

/-- what a typed reader returns for a raw-storing data column, in terms of the slot -/
theorem read_raw (c : Col) (hkd : c.kind.storesRaw = true) (i : Nat) :
    c.read i = if i / 16384 < c.nchunks ∧ (slot c i).1 = true then some (slot c i).2 else none := by
  unfold Col.read slot
  cases hk : c.kind <;> rw [hk] at hkd <;> simp only [Kind.storesRaw, Bool.false_eq_true] at hkd <;>
    simp only [getD_eq]

/-- the value a snapshot writes for a present offset -/
def snapVal (c : Col) (i : Nat) : Val :=
  match c.kind with
  | .num k => .fixed k.code (padTo k.width (c.data.getD i []))
  | _ => .str (c.data.getD i [])

theorem snapshotOps_raw (c : Col) (hkd : c.kind.storesRaw = true) (ch : Nat) (hch : ch < c.nchunks) :
    c.snapshotOps ch =
      (snapList opPut (16384 * ch) 16384 (fun x => Bits.get c.bits (16384 * ch + x)) (fun x => snapVal c (16384 * ch + x)),
       false) := by
  unfold Col.snapshotOps snapList snapVal
  cases hk : c.kind <;> rw [hk] at hkd <;> simp only [Kind.storesRaw, Bool.false_eq_true] at hkd <;>
    simp only [if_neg (show ¬ ch ≥ c.nchunks by omega)]

theorem snapList_inBounds (c0 : Col) (typ ch : Nat) (p : Nat → Bool) (g : Nat → Val) (hw0 : ColWF c0) (hch0 : ch < c0.nchunks) :
    InBounds c0 (snapList typ (16384 * ch) 16384 p g) := by
  intro o ho
  have := snapList_idx typ (16384 * ch) 16384 p g o ho
  rw [hw0.bsize, hw0.dsize]
  have h2 : 16384 * (ch + 1) ≤ 16384 * c0.nchunks := Nat.mul_le_mul_left _ hch0
  omega

theorem applyData_fold (hash : Bytes → Nat) (c : Col) (chunk : Nat) (hch : chunk < c.nchunks) (ops : List Op) :
    (applyData hash c chunk ops).col = (ops.foldl (stepOf hash c.kind) (c, [], [])).1 ∧
    (applyData hash c chunk ops).panic = false := by
  unfold applyData
  rw [if_neg (by omega)]
  exact ⟨rfl, rfl⟩

/-- R6 (slots): the snapshot of chunk `ch` of `c`, applied to any column `c0` of the same (raw-storing) kind that has
    the chunk allocated: the present offsets of the chunk get the snapshotted value, every other slot is left alone -/
theorem snapshot_apply_slot (hash : Bytes → Nat) (c c0 : Col) (hkd : c.kind.storesRaw = true) (hk0 : c0.kind = c.kind)
    (ch : Nat) (hch : ch < c.nchunks) (hch0 : ch < c0.nchunks) (hw0 : ColWF c0) (i : Nat) :
    slot (applyData hash c0 ch (c.snapshotOps ch).1).col i =
      if i / 16384 = ch ∧ Bits.get c.bits i = true then (true, valRaw (snapVal c i)) else slot c0 i := by
  rw [(applyData_fold hash c0 ch hch0 _).1, hk0, snapshotOps_raw c hkd ch hch]
  simp only
  rw [foldPuts_slot hash c.kind hkd _ _ (snapList_typ _ _ _ _ _) (snapList_inBounds c0 _ ch _ _ hw0 hch0) i,
    snapList_filter_chunk opPut ch (fun j => Bits.get c.bits j) (fun j => snapVal c j) i]
  by_cases hc : i / 16384 = ch ∧ Bits.get c.bits i = true
  · simp only [if_pos hc]; rfl
  · simp only [if_neg hc]; rfl

theorem snapshot_apply_meta (hash : Bytes → Nat) (c c0 : Col) (hkd : c.kind.storesRaw = true) (hk0 : c0.kind = c.kind)
    (ch : Nat) (hch : ch < c.nchunks) (hch0 : ch < c0.nchunks) :
    (applyData hash c0 ch (c.snapshotOps ch).1).col.kind = c0.kind ∧
    (applyData hash c0 ch (c.snapshotOps ch).1).col.nchunks = c0.nchunks ∧
    (applyData hash c0 ch (c.snapshotOps ch).1).col.name = c0.name ∧
    (applyData hash c0 ch (c.snapshotOps ch).1).panic = false ∧
    (c.snapshotOps ch).2 = false := by
  rw [(applyData_fold hash c0 ch hch0 _).1, (applyData_fold hash c0 ch hch0 _).2, hk0, snapshotOps_raw c hkd ch hch]
  generalize hL : snapList opPut (16384 * ch) 16384
    (fun x => Bits.get c.bits (16384 * ch + x)) (fun x => snapVal c (16384 * ch + x)) = L
  have hput : ∀ o ∈ L, o.typ = opPut := by rw [← hL]; exact snapList_typ _ _ _ _ _
  obtain ⟨h1, h2, h3⟩ := foldPuts_meta hash c.kind hkd L (c0, [], []) hput
  exact ⟨h1.trans hk0, h2, h3, rfl, rfl⟩

/-- R6 (reads), any raw-storing kind: a reader of the restored column finds, for every offset of the chunk, the value the
    snapshot wrote for it when the row is present in `c`, and nothing otherwise — provided the chunk of `c0` was empty -/
theorem snapshot_apply_read_raw (hash : Bytes → Nat) (c c0 : Col) (hkd : c.kind.storesRaw = true) (hk0 : c0.kind = c.kind)
    (ch : Nat) (hch : ch < c.nchunks) (hch0 : ch < c0.nchunks) (hw0 : ColWF c0)
    (hfresh : ∀ i, i / 16384 = ch → Bits.get c0.bits i = false) (i : Nat) (hi : i / 16384 = ch) :
    (applyData hash c0 ch (c.snapshotOps ch).1).col.read i =
      if Bits.get c.bits i = true then some (valRaw (snapVal c i)) else none := by
  obtain ⟨m1, m2, _⟩ := snapshot_apply_meta hash c c0 hkd hk0 ch hch hch0
  rw [read_raw _ (by rw [m1, hk0]; exact hkd) i, m2, snapshot_apply_slot hash c c0 hkd hk0 ch hch hch0 hw0 i]
  by_cases hb : Bits.get c.bits i = true
  · have hc : i / 16384 = ch ∧ Bits.get c.bits i = true := ⟨hi, hb⟩
    simp only [if_pos hc]
    rw [if_pos hb, if_pos ⟨by omega, trivial⟩]
  · have hc : ¬ (i / 16384 = ch ∧ Bits.get c.bits i = true) := fun h => hb h.2
    simp only [if_neg hc]
    have hf : ¬ (i / 16384 < c0.nchunks ∧ (slot c0 i).1 = true) := by
      intro h
      have := hfresh i hi
      unfold slot at h
      simp only at h
      rw [this] at h
      exact absurd h.2 (by decide)
    rw [if_neg hb, if_neg hf]

theorem snapVal_num (c : Col) (k : NumKind) (hk : c.kind = .num k) (i : Nat) :
    valRaw (snapVal c i) = padTo k.width (c.data.getD i []) := by
  unfold snapVal; rw [hk]; rfl

theorem snapVal_str (c : Col) (hk : c.kind = .str ∨ c.kind = .record ∨ c.kind = .key) (i : Nat) :
    valRaw (snapVal c i) = c.data.getD i [] := by
  unfold snapVal
  rcases hk with hk | hk | hk <;> rw [hk] <;> rfl

theorem read_data (c : Col) (hkd : c.kind.storesRaw = true) (i : Nat) :
    c.read i = if i / 16384 < c.nchunks ∧ Bits.get c.bits i = true then some (c.data.getD i []) else none := by
  unfold Col.read
  cases hk : c.kind <;> rw [hk] at hkd <;> simp only [Kind.storesRaw, Bool.false_eq_true] at hkd <;> rfl

/-! ### bool columns (`applyOther`) -/

/-- `columnBool.Apply`, one op (the body of the fold in `applyOther`) -/
def boolStep (acc : Col × Bool) (o : Op) : Col × Bool :=
  if o.typ = opPut then
    if o.idx < acc.1.bits.size then ({ acc.1 with bits := acc.1.bits.setIfInBounds o.idx true }, acc.2) else (acc.1, true)
  else if o.typ = opDelete then
    if o.idx < acc.1.bits.size then ({ acc.1 with bits := acc.1.bits.setIfInBounds o.idx false }, acc.2) else (acc.1, true)
  else acc

theorem applyOther_bool (c : Col) (hk : c.kind = .bool) (ops : List Op) :
    applyOther c ops = ops.foldl boolStep (c, false) := by
  unfold applyOther
  rw [hk]
  rfl

/-- effect of one op on the bit of its own offset in a bool column / in the fill list -/
def flagEffect (setTyp : Nat) (b : Bool) (o : Op) : Bool :=
  if o.typ = setTyp then true else if o.typ = opDelete then false else b

theorem boolStep_get (acc : Col × Bool) (o : Op) (hb : o.idx < acc.1.bits.size) (j : Nat) :
    Bits.get (boolStep acc o).1.bits j = (if j = o.idx then flagEffect opPut (Bits.get acc.1.bits j) o else Bits.get acc.1.bits j) ∧
    (boolStep acc o).2 = acc.2 ∧ (boolStep acc o).1.bits.size = acc.1.bits.size ∧
    (boolStep acc o).1.kind = acc.1.kind ∧ (boolStep acc o).1.name = acc.1.name ∧
    (boolStep acc o).1.computed = acc.1.computed := by
  unfold boolStep flagEffect
  by_cases h1 : o.typ = opPut
  · rw [if_pos h1, if_pos hb, if_pos h1]
    refine ⟨?_, rfl, by simp, rfl, rfl, rfl⟩
    simp only [get_setIfInBounds _ _ _ _ hb]
  · rw [if_neg h1, if_neg h1]
    by_cases h3 : o.typ = opDelete
    · rw [if_pos h3, if_pos hb, if_pos h3]
      refine ⟨?_, rfl, by simp, rfl, rfl, rfl⟩
      simp only [get_setIfInBounds _ _ _ _ hb]
    · rw [if_neg h3, if_neg h3]
      refine ⟨?_, rfl, rfl, rfl, rfl, rfl⟩
      split <;> rfl

theorem foldBool_get (ops : List Op) (acc : Col × Bool) (hin : ∀ o ∈ ops, o.idx < acc.1.bits.size) (j : Nat) :
    Bits.get (ops.foldl boolStep acc).1.bits j =
      (ops.filter (fun o => o.idx = j)).foldl (flagEffect opPut) (Bits.get acc.1.bits j) ∧
    (ops.foldl boolStep acc).2 = acc.2 ∧ (ops.foldl boolStep acc).1.bits.size = acc.1.bits.size ∧
    (ops.foldl boolStep acc).1.kind = acc.1.kind ∧ (ops.foldl boolStep acc).1.name = acc.1.name ∧
    (ops.foldl boolStep acc).1.computed = acc.1.computed := by
  induction ops generalizing acc with
  | nil => exact ⟨rfl, rfl, rfl, rfl, rfl, rfl⟩
  | cons o os ih =>
    simp only [List.foldl_cons]
    obtain ⟨s1, s2, s3, s4, s5, s6⟩ := boolStep_get acc o (hin o (by simp)) j
    obtain ⟨i1, i2, i3, i4, i5, i6⟩ := ih (boolStep acc o) (fun x hx => by rw [s3]; exact hin x (by simp [hx]))
    refine ⟨?_, i2.trans s2, i3.trans s3, i4.trans s4, i5.trans s5, i6.trans s6⟩
    rw [i1, s1]
    by_cases e : o.idx = j
    · have e' : j = o.idx := e.symm
      have hd : decide (o.idx = j) = true := by simpa using e
      rw [if_pos e', List.filter_cons, if_pos hd]; rfl
    · have e' : ¬ j = o.idx := fun h => e h.symm
      have hd : ¬ decide (o.idx = j) = true := by simpa using e
      rw [if_neg e', List.filter_cons, if_neg hd]

theorem snapshotOps_bool (c : Col) (hk : c.kind = .bool) (ch : Nat) :
    c.snapshotOps ch =
      (snapList opPut (16384 * ch) 16384 (fun x => Bits.get c.bits (16384 * ch + x)) (fun _ => .fixed 0 []), false) := by
  unfold Col.snapshotOps snapList
  rw [hk]

/-- R6 (bool): the snapshot of chunk `ch` of a bool column applied to a bool column that covers the chunk -/
theorem snapshot_apply_bool (c c0 : Col) (hk : c.kind = .bool) (hk0 : c0.kind = .bool) (ch : Nat)
    (hsz : 16384 * (ch + 1) ≤ c0.bits.size) (j : Nat) :
    Bits.get (applyOther c0 (c.snapshotOps ch).1).1.bits j =
      (if j / 16384 = ch ∧ Bits.get c.bits j = true then true else Bits.get c0.bits j) ∧
    (applyOther c0 (c.snapshotOps ch).1).2 = false ∧ (c.snapshotOps ch).2 = false ∧
    (applyOther c0 (c.snapshotOps ch).1).1.kind = .bool := by
  rw [snapshotOps_bool c hk ch, applyOther_bool c0 hk0]
  simp only
  have hin : ∀ o ∈ snapList opPut (16384 * ch) 16384 (fun x => Bits.get c.bits (16384 * ch + x)) (fun _ => .fixed 0 []),
      o.idx < (c0, false).1.bits.size := by
    intro o ho
    have := snapList_idx _ _ _ _ _ o ho
    simp only
    omega
  obtain ⟨h1, h2, _, h4, _⟩ := foldBool_get _ (c0, false) hin j
  refine ⟨?_, h2, trivial, h4.trans hk0⟩
  rw [h1, snapList_filter_chunk opPut ch (fun j => Bits.get c.bits j) (fun _ => .fixed 0 []) j]
  split
  · simp [flagEffect]
  · rfl

theorem read_bool (c : Col) (hk : c.kind = .bool) (i : Nat) :
    c.read i = if Bits.get c.bits i = true then some [1] else none := by
  unfold Col.read; rw [hk]

/-! ### the `row` buffer of a chunk and the fill list -/

/-- the fill-list part of `commitMarkers`, one marker -/
def fillStep (f : Bitmap) (o : Op) : Bitmap :=
  if o.typ = opInsert then Bits.set f o.idx else if o.typ = opDelete then Bits.remove f o.idx else f

theorem commitMarkers_fill (s : Store) (chunk : Nat) (m : Buf) :
    (s.commitMarkers chunk m).fill = (m.rangeOps chunk).foldl fillStep s.fill := rfl

theorem fillStep_get (f : Bitmap) (o : Op) (j : Nat) :
    Bits.get (fillStep f o) j = if j = o.idx then flagEffect opInsert (Bits.get f j) o else Bits.get f j := by
  unfold fillStep flagEffect
  by_cases h1 : o.typ = opInsert
  · rw [if_pos h1, if_pos h1, get_set]
    by_cases e : j = o.idx <;> simp [e]
  · rw [if_neg h1, if_neg h1]
    by_cases h3 : o.typ = opDelete
    · rw [if_pos h3, if_pos h3, get_remove]
      by_cases e : j = o.idx <;> simp [e]
    · rw [if_neg h3, if_neg h3]
      split <;> rfl

/-- R4 (fill): after the markers, fill bit `j` is the fold of the markers addressed to `j` (`Insert` sets, `Delete` clears) -/
theorem foldFill_get (ops : List Op) (f : Bitmap) (j : Nat) :
    Bits.get (ops.foldl fillStep f) j = (ops.filter (fun o => o.idx = j)).foldl (flagEffect opInsert) (Bits.get f j) := by
  induction ops generalizing f with
  | nil => rfl
  | cons o os ih =>
    simp only [List.foldl_cons]
    rw [ih, fillStep_get]
    by_cases e : o.idx = j
    · have e' : j = o.idx := e.symm
      have hd : decide (o.idx = j) = true := by simpa using e
      rw [if_pos e', List.filter_cons, if_pos hd]; rfl
    · have e' : ¬ j = o.idx := fun h => e h.symm
      have hd : ¬ decide (o.idx = j) = true := by simpa using e
      rw [if_neg e', List.filter_cons, if_neg hd]

/-! ## signatures: what every `Apply` leaves alone -/

theorem foldl_invariant {α β : Type} (P : β → Prop) (f : β → α → β) (l : List α) (b : β) (h0 : P b)
    (hstep : ∀ b a, a ∈ l → P b → P (f b a)) : P (l.foldl f b) := by
  induction l generalizing b with
  | nil => exact h0
  | cons x xs ih =>
    simp only [List.foldl_cons]
    exact ih _ (hstep b x (by simp) h0) (fun b a ha hb => hstep b a (by simp [ha]) hb)

/-- the part of a column no `Apply` ever changes -/
structure SameSig (c c' : Col) : Prop where
  name : c'.name = c.name
  kind : c'.kind = c.kind
  computed : c'.computed = c.computed
  nchunks : c'.nchunks = c.nchunks
  merge : c'.merge = c.merge

theorem SameSig.refl (c : Col) : SameSig c c := ⟨rfl, rfl, rfl, rfl, rfl⟩

theorem SameSig.trans {a b c : Col} (h1 : SameSig a b) (h2 : SameSig b c) : SameSig a c :=
  ⟨h2.name.trans h1.name, h2.kind.trans h1.kind, h2.computed.trans h1.computed, h2.nchunks.trans h1.nchunks,
   h2.merge.trans h1.merge⟩

theorem SameShape.sig {c c' : Col} (h : SameShape c c') : SameSig c c' :=
  ⟨h.name, h.kind, h.computed, h.nchunks, h.merge⟩

theorem stepOf_sameShape (hash : Bytes → Nat) (kd : Kind) (acc : ApplyAcc) (o : Op) :
    SameShape acc.1 (stepOf hash kd acc o).1 := by
  cases kd with
  | num k => exact stepNum_shape k acc o
  | key => exact stepKey_shape acc o
  | str | record =>
    obtain ⟨c, done, app⟩ := acc
    unfold stepOf stepStr
    simp only
    split
    · exact ⟨rfl, rfl, rfl, by simp, by simp, rfl, rfl⟩
    · split
      · split
        · exact ⟨rfl, rfl, rfl, by simp, by simp, rfl, rfl⟩
        · exact ⟨rfl, rfl, rfl, by simp, by simp, rfl, rfl⟩
      · split
        · exact ⟨rfl, rfl, rfl, by simp, rfl, rfl, rfl⟩
        · exact SameShape.refl c
  | enum =>
    obtain ⟨c, done, app⟩ := acc
    unfold stepOf stepEnum
    simp only
    split
    · exact ⟨rfl, rfl, rfl, by simp, by simp, rfl, rfl⟩
    · split
      · exact ⟨rfl, rfl, rfl, by simp, rfl, rfl, rfl⟩
      · exact SameShape.refl c
  | bool | index _ _ | trigger _ | sorted _ => exact SameShape.refl _

/-- `applyData` keeps the shape of the column, for every kind -/
theorem applyData_sameShape (hash : Bytes → Nat) (c : Col) (chunk : Nat) (ops : List Op) :
    SameShape c (applyData hash c chunk ops).col := by
  unfold applyData
  split
  · exact SameShape.refl c
  · simp only
    exact foldl_invariant (fun (acc : ApplyAcc) => SameShape c acc.1) _ ops (c, [], []) (SameShape.refl c)
      (fun b a _ hb => SameShape.trans hb (stepOf_sameShape hash c.kind b a))

theorem applyData_panic (hash : Bytes → Nat) (c : Col) (chunk : Nat) (ops : List Op) :
    (applyData hash c chunk ops).panic = decide (chunk ≥ c.nchunks) := by
  unfold applyData
  split
  · rename_i h; simp [h]
  · rename_i h; simp [h]

theorem applyOther_sig (c : Col) (ops : List Op) : SameSig c (applyOther c ops).1 := by
  unfold applyOther
  split
  · exact foldl_invariant (fun (acc : Col × Bool) => SameSig c acc.1) _ ops (c, false) (SameSig.refl c) (by
      intro b a _ hb
      obtain ⟨b1, b2⟩ := b
      simp only
      split
      · split
        · exact SameSig.trans hb ⟨rfl, rfl, rfl, rfl, rfl⟩
        · exact hb
      · split
        · split
          · exact SameSig.trans hb ⟨rfl, rfl, rfl, rfl, rfl⟩
          · exact hb
        · exact hb)
  · exact foldl_invariant (fun (acc : Col) => SameSig c acc) _ ops c (SameSig.refl c) (by
      intro b a _ hb
      split
      · split <;> exact SameSig.trans hb ⟨rfl, rfl, rfl, rfl, rfl⟩
      · split
        · exact SameSig.trans hb ⟨rfl, rfl, rfl, rfl, rfl⟩
        · exact hb)
  · exact foldl_invariant (fun (acc : Col) => SameSig c acc) _ ops c (SameSig.refl c) (by
      intro b a _ hb
      split
      · exact SameSig.trans hb ⟨rfl, rfl, rfl, rfl, rfl⟩
      · exact hb)
  · exact foldl_invariant (fun (acc : Col) => SameSig c acc) _ ops c (SameSig.refl c) (by
      intro b a _ hb
      split
      · exact SameSig.trans hb ⟨rfl, rfl, rfl, rfl, rfl⟩
      · split
        · exact SameSig.trans hb ⟨rfl, rfl, rfl, rfl, rfl⟩
        · exact hb)
  · exact SameSig.refl c

theorem applyAny_sig (hash : Bytes → Nat) (c : Col) (chunk : Nat) (ops : List Op) :
    SameSig c (c.applyAny hash chunk ops).1 := by
  unfold Col.applyAny
  split
  · exact (applyData_sameShape hash c chunk ops).sig
  · exact applyOther_sig c ops

/-! ## store-level simulation: registered names and signatures never change during a commit -/

/-- `s'` has the same registry shape as `s`: same names resolving to columns of the same signature; same hash function,
    fill list and commit table -/
structure Sim (s s' : Store) : Prop where
  sig : ∀ m c, s.findCol m = some c → ∃ c', s'.findCol m = some c' ∧ SameSig c c'
  none : ∀ m, s.findCol m = none → s'.findCol m = none
  hash : s'.hash = s.hash
  fill : s'.fill = s.fill
  commits : s'.commits = s.commits

theorem Sim.refl (s : Store) : Sim s s :=
  ⟨fun _ c h => ⟨c, h, SameSig.refl c⟩, fun _ h => h, rfl, rfl, rfl⟩

theorem Sim.trans {a b c : Store} (h1 : Sim a b) (h2 : Sim b c) : Sim a c := by
  refine ⟨?_, ?_, h2.hash.trans h1.hash, h2.fill.trans h1.fill, h2.commits.trans h1.commits⟩
  · intro m x hx
    obtain ⟨y, hy, s1⟩ := h1.sig m x hx
    obtain ⟨z, hz, s2⟩ := h2.sig m y hy
    exact ⟨z, hz, SameSig.trans s1 s2⟩
  · intro m hm
    exact h2.none m (h1.none m hm)

/-- the signature seen from the later store -/
theorem Sim.sig_back {s s' : Store} (h : Sim s s') {m : String} {c' : Col} (hc : s'.findCol m = some c') :
    ∃ c, s.findCol m = some c ∧ SameSig c c' := by
  cases hm : s.findCol m with
  | none => rw [h.none m hm] at hc; cases hc
  | some c =>
    obtain ⟨c2, h2, hs⟩ := h.sig m c hm
    rw [hc] at h2
    injection h2 with h2
    subst h2
    exact ⟨c, rfl, hs⟩

theorem findCol_with_panicked (s : Store) (p : Bool) (m : String) :
    ({ s with panicked := p } : Store).findCol m = s.findCol m := rfl

/-- replacing a registered column by one of the same signature -/
theorem setCol_found (s : Store) (c c' : Col) (n : String) (h : s.findCol n = some c) (hn : c'.name = c.name) (m : String) :
    (s.setCol c').findCol m = if m = n then some c' else s.findCol m := by
  have hcn : c'.name = n := hn.trans (findCol_name h)
  have := findCol_setCol s c' m (by rw [hcn, h]; rfl)
  rw [hcn] at this
  exact this

theorem setCol_rest (s : Store) (c : Col) :
    (s.setCol c).hash = s.hash ∧ (s.setCol c).fill = s.fill ∧ (s.setCol c).commits = s.commits ∧
    (s.setCol c).panicked = s.panicked := by
  unfold Store.setCol
  split <;> exact ⟨rfl, rfl, rfl, rfl⟩

theorem setCol_sim (s : Store) (c c' : Col) (n : String) (h : s.findCol n = some c) (hs : SameSig c c') (p : Bool) :
    Sim s { (s.setCol c') with panicked := p } := by
  obtain ⟨r1, r2, r3, _⟩ := setCol_rest s c'
  refine ⟨?_, ?_, r1, r2, r3⟩
  · intro m x hx
    rw [findCol_with_panicked, setCol_found s c c' n h hs.name m]
    by_cases e : m = n
    · subst e
      rw [h] at hx; injection hx with hx; subst hx
      exact ⟨c', by rw [if_pos rfl], hs⟩
    · exact ⟨x, by rw [if_neg e]; exact hx, SameSig.refl x⟩
  · intro m hm
    rw [findCol_with_panicked, setCol_found s c c' n h hs.name m]
    have e : m ≠ n := by
      intro e; subst e; rw [h] at hm; cases hm
    rw [if_neg e]; exact hm

/-- one `Apply` of a registered column (computed pass, non-data main pass) -/
def applyNamed (chunk : Nat) (ops : List Op) (s : Store) (n : String) : Store :=
  match s.findCol n with
  | some c => { (s.setCol (c.applyAny s.hash chunk ops).1) with panicked := s.panicked || (c.applyAny s.hash chunk ops).2 }
  | none => s

theorem applyNamed_sim (chunk : Nat) (ops : List Op) (s : Store) (n : String) : Sim s (applyNamed chunk ops s n) := by
  unfold applyNamed
  cases h : s.findCol n with
  | none => exact Sim.refl s
  | some c => exact setCol_sim s c _ n h (applyAny_sig s.hash c chunk ops) _

theorem applyNamed_frame (chunk : Nat) (ops : List Op) (s : Store) (n x : String) (hx : x ≠ n) :
    (applyNamed chunk ops s n).findCol x = s.findCol x := by
  unfold applyNamed
  cases h : s.findCol n with
  | none => rfl
  | some c =>
    simp only
    rw [findCol_with_panicked, setCol_found s c _ n h (applyAny_sig s.hash c chunk ops).name x, if_neg hx]

theorem computedPass_eq (s : Store) (names : List String) (chunk : Nat) (u : Buf) :
    computedPass s names chunk u = (u.range chunk).foldl (fun s ops => names.foldl (applyNamed chunk ops) s) s := by
  rfl

theorem computedPass_sim (s : Store) (names : List String) (chunk : Nat) (u : Buf) :
    Sim s (computedPass s names chunk u) := by
  rw [computedPass_eq]
  apply foldl_invariant (fun s' => Sim s s') _ _ s (Sim.refl s)
  intro s1 ops _ h1
  apply foldl_invariant (fun s' => Sim s s') _ _ s1 h1
  intro s2 n _ h2
  exact Sim.trans h2 (applyNamed_sim chunk ops s2 n)

/-- the computed pass only touches the computed columns it is given -/
theorem computedPass_frame (s : Store) (names : List String) (chunk : Nat) (u : Buf) (x : String) (hx : x ∉ names) :
    (computedPass s names chunk u).findCol x = s.findCol x := by
  rw [computedPass_eq]
  apply foldl_invariant (fun s' => s'.findCol x = s.findCol x) _ _ s rfl
  intro s1 ops _ h1
  apply foldl_invariant (fun s' => s'.findCol x = s.findCol x) _ _ s1 h1
  intro s2 n hn h2
  rw [applyNamed_frame chunk ops s2 n x (fun e => hx (e ▸ hn))]
  exact h2

/-! ## R3 — `commitUpdates` -/

theorem putAll_column (b : Buf) (ops : List Op) : (b.putAll ops).column = b.column := by
  induction ops generalizing b with
  | nil => rfl
  | cons o os ih => rw [Buf.putAll_cons, ih, Buf.column_put]

/-- any main pass keeps the shape of the column and the name of the buffer -/
theorem mainPass_general (hash : Bytes → Nat) (col : Col) (chunk : Nat) (u : Buf) :
    SameShape col (mainPass hash col chunk u).1 ∧ (mainPass hash col chunk u).2.1.column = u.column := by
  rw [mainPass_eq]
  apply foldl_invariant (fun (acc : Col × Buf × Bool) => SameShape col acc.1 ∧ acc.2.1.column = u.column) _ _ _
    ⟨SameShape.refl col, rfl⟩
  intro acc i _ h
  obtain ⟨h1, h2⟩ := h
  unfold mpStep
  split
  · exact ⟨h1, h2⟩
  · split
    · exact ⟨h1, h2⟩
    · refine ⟨SameShape.trans h1 (applyData_sameShape _ _ _ _), ?_⟩
      rw [putAll_column]; exact h2

theorem isEmpty_range (u : Buf) (h : u.isEmpty = true) (c : Nat) : u.rangeOps c = [] := by
  unfold Buf.rangeOps Buf.range
  rw [List.flatten_eq_nil_iff]
  intro l hl
  obtain ⟨sec, hsec, rfl⟩ := List.mem_map.1 hl
  have hmem : sec ∈ u.rsecs := by
    have := (List.mem_filter.1 hsec).1
    simpa [Buf.secs] using this
  unfold Buf.isEmpty at h
  have := List.all_eq_true.1 h sec hmem
  unfold Sec.ops
  have h2 : sec.rops = [] := by simpa using this
  rw [h2]; rfl

/-- the main pass of a non-data column (bool / index / trigger / sorted written directly) -/
def otherMain (s : Store) (chunk : Nat) (u : Buf) : Store :=
  (u.range chunk).foldl (fun s ops => applyNamed chunk ops s u.column) s

/-- one round of `commitUpdates` -/
def cuStep (chunk : Nat) (acc : Store × List Buf × Bool) (u : Buf) : Store × List Buf × Bool :=
  if u.isEmpty || u.column == rowColumn then (acc.1, acc.2.1 ++ [u], acc.2.2)
  else
    match acc.1.findCol u.column with
    | none => (acc.1, acc.2.1 ++ [u], acc.2.2)
    | some col =>
      if col.kind.isData then
        (computedPass { (acc.1.setCol (mainPass acc.1.hash col chunk u).1) with
            panicked := acc.1.panicked || (mainPass acc.1.hash col chunk u).2.2 } col.computed chunk
            (mainPass acc.1.hash col chunk u).2.1,
         acc.2.1 ++ [(mainPass acc.1.hash col chunk u).2.1], true)
      else
        (computedPass (otherMain acc.1 chunk u) col.computed chunk u, acc.2.1 ++ [u], true)

theorem commitUpdates_eq (s : Store) (chunk : Nat) (ups : List Buf) :
    s.commitUpdates chunk ups = ups.foldl (cuStep chunk) (s, [], false) := rfl

theorem otherMain_sim (s : Store) (chunk : Nat) (u : Buf) : Sim s (otherMain s chunk u) := by
  unfold otherMain
  apply foldl_invariant (fun s' => Sim s s') _ _ s (Sim.refl s)
  intro s1 ops _ h1
  exact Sim.trans h1 (applyNamed_sim chunk ops s1 u.column)

theorem otherMain_frame (s : Store) (chunk : Nat) (u : Buf) (x : String) (hx : x ≠ u.column) :
    (otherMain s chunk u).findCol x = s.findCol x := by
  unfold otherMain
  apply foldl_invariant (fun s' => s'.findCol x = s.findCol x) _ _ s rfl
  intro s1 ops _ h1
  rw [applyNamed_frame chunk ops s1 u.column x hx]
  exact h1

/-- pointwise relation of two lists -/
inductive Rel2 {α β : Type} (R : α → β → Prop) : List α → List β → Prop
  | nil : Rel2 R [] []
  | cons {a : α} {b : β} {as : List α} {bs : List β} : R a b → Rel2 R as bs → Rel2 R (a :: as) (b :: bs)

/-- how a buffer of the transaction relates to its rewritten version after the passes of the chunks `D` -/
def BufRel (x : String) (D : List Nat) (u u' : Buf) : Prop :=
  u'.column = u.column ∧ (u.column = rowColumn → u' = u) ∧
  (u.column = x → ∀ c2, c2 ∉ D → u'.range c2 = u.range c2)

theorem BufRel.refl (x : String) (D : List Nat) (u : Buf) : BufRel x D u u := ⟨rfl, fun _ => rfl, fun _ _ _ => rfl⟩

/-- one round of `commitUpdates`: registry shape kept, the buffer keeps its name, the `row` buffer is not rewritten,
    the buffer of the numeric column `x` keeps the sections of the other chunks -/
theorem cuStep_rel (x : String) (k : NumKind) (chunk : Nat) (s0 : Store) (col0 : Col) (h0 : s0.findCol x = some col0)
    (hk : col0.kind = .num k) (hch : chunk < col0.nchunks) (s : Store) (done : List Buf) (b : Bool) (u : Buf)
    (hs : Sim s0 s) :
    Sim s0 (cuStep chunk (s, done, b) u).1 ∧
    ∃ u', (cuStep chunk (s, done, b) u).2.1 = done ++ [u'] ∧ BufRel x [chunk] u u' := by
  unfold cuStep
  simp only
  by_cases hskip : (u.isEmpty || u.column == rowColumn) = true
  · rw [if_pos hskip]
    exact ⟨hs, u, rfl, BufRel.refl x _ u⟩
  · rw [if_neg hskip]
    cases hf : s.findCol u.column with
    | none => exact ⟨hs, u, rfl, BufRel.refl x _ u⟩
    | some col =>
      simp only
      have hnr : u.column ≠ rowColumn := by
        intro e; apply hskip; simp [e]
      by_cases hd : col.kind.isData = true
      · rw [if_pos hd]
        obtain ⟨g1, g2⟩ := mainPass_general s.hash col chunk u
        refine ⟨Sim.trans hs (Sim.trans (setCol_sim s col _ u.column hf g1.sig _) (computedPass_sim _ _ _ _)), _, rfl, g2,
          fun e => absurd e hnr, ?_⟩
        intro e c2 hc2
        obtain ⟨c0, hc0, sg⟩ := hs.sig_back (e ▸ hf)
        rw [h0] at hc0; injection hc0 with hc0; subst hc0
        exact mainPass_num_range_other s.hash col k (sg.kind.trans hk) chunk (by rw [sg.nchunks]; exact hch) u c2
          (by simpa using hc2)
      · rw [if_neg hd]
        exact ⟨Sim.trans hs (Sim.trans (otherMain_sim s chunk u) (computedPass_sim _ _ _ _)), u, rfl, BufRel.refl x _ u⟩

theorem cuFold_rel (x : String) (k : NumKind) (chunk : Nat) (s0 : Store) (col0 : Col) (h0 : s0.findCol x = some col0)
    (hk : col0.kind = .num k) (hch : chunk < col0.nchunks) (ups : List Buf) (s : Store) (done : List Buf) (b : Bool)
    (hs : Sim s0 s) :
    Sim s0 (ups.foldl (cuStep chunk) (s, done, b)).1 ∧
    ∃ ups', (ups.foldl (cuStep chunk) (s, done, b)).2.1 = done ++ ups' ∧ Rel2 (BufRel x [chunk]) ups ups' := by
  induction ups generalizing s done b with
  | nil => exact ⟨hs, [], by simp, Rel2.nil⟩
  | cons u us ih =>
    simp only [List.foldl_cons]
    obtain ⟨h1, u', h2, h3⟩ := cuStep_rel x k chunk s0 col0 h0 hk hch s done b u hs
    generalize hr : cuStep chunk (s, done, b) u = r at h1 h2
    obtain ⟨r1, r2, r3⟩ := r
    simp only at h1 h2
    obtain ⟨i1, us', i2, i3⟩ := ih r1 r2 r3 h1
    refine ⟨i1, u' :: us', ?_, Rel2.cons h3 i3⟩
    rw [i2, h2]; simp

theorem cuStep_sim (chunk : Nat) (s : Store) (done : List Buf) (b : Bool) (u : Buf) :
    Sim s (cuStep chunk (s, done, b) u).1 := by
  unfold cuStep
  simp only
  split
  · exact Sim.refl s
  · split
    · exact Sim.refl s
    · rename_i col hf
      split
      · exact Sim.trans (setCol_sim s col _ u.column hf (mainPass_general s.hash col chunk u).1.sig _)
          (computedPass_sim _ _ _ _)
      · exact Sim.trans (otherMain_sim s chunk u) (computedPass_sim _ _ _ _)

/-- a buffer of another column whose computed columns do not include `x` leaves `x` alone -/
theorem cuStep_frame (chunk : Nat) (s : Store) (done : List Buf) (b : Bool) (u : Buf) (x : String)
    (hne : u.column ≠ x) (hcomp : ∀ c, s.findCol u.column = some c → x ∉ c.computed) :
    (cuStep chunk (s, done, b) u).1.findCol x = s.findCol x := by
  unfold cuStep
  simp only
  split
  · rfl
  · split
    · rfl
    · rename_i col hf
      have hx := hcomp col hf
      split
      · rw [computedPass_frame _ _ _ _ x hx, findCol_with_panicked,
          setCol_found s col _ u.column hf (mainPass_general s.hash col chunk u).1.name x, if_neg (fun e => hne e.symm)]
      · rw [computedPass_frame _ _ _ _ x hx, otherMain_frame s chunk u x (fun e => hne e.symm)]

/-- the buffer of the numeric column `x` itself -/
theorem cuStep_self (chunk : Nat) (s : Store) (done : List Buf) (b : Bool) (u : Buf) (x : String) (k : NumKind) (col : Col)
    (hxr : x ≠ rowColumn) (hux : u.column = x) (hf : s.findCol x = some col) (hk : col.kind = .num k)
    (hch : chunk < col.nchunks) (hcomp : x ∉ col.computed) (hin : InBounds col (u.rangeOps chunk)) :
    ∃ col', (cuStep chunk (s, done, b) u).1.findCol x = some col' ∧ SameShape col col' ∧
      ∀ i, slot col' i =
        ((u.rangeOps chunk).filter (fun o => o.idx = i)).foldl (slotEffect col.merge k.width) (slot col i) := by
  unfold cuStep
  simp only
  by_cases he : u.isEmpty = true
  · have hskip : (u.isEmpty || u.column == rowColumn) = true := by simp [he]
    rw [if_pos hskip]
    refine ⟨col, hf, SameShape.refl col, ?_⟩
    intro i
    rw [isEmpty_range u he chunk]; rfl
  · have hskip : ¬ (u.isEmpty || u.column == rowColumn) = true := by
      rw [hux]; simpa [he] using hxr
    rw [if_neg hskip, hux, hf]
    simp only
    have hd : col.kind.isData = true := by rw [hk]; rfl
    rw [if_pos hd]
    refine ⟨(mainPass s.hash col chunk u).1, ?_, mainPass_num_shape s.hash col k hk chunk hch u, ?_⟩
    · rw [computedPass_frame _ _ _ _ x hcomp, findCol_with_panicked,
        setCol_found s col _ x hf (mainPass_general s.hash col chunk u).1.name x, if_pos rfl]
    · intro i
      exact mainPass_num_slot s.hash col k hk chunk hch u hin i

/-- the ops the buffers named `x` hold for `chunk`, in buffer order -/
def opsFor (ups : List Buf) (x : String) (chunk : Nat) : List Op :=
  ((ups.filter (fun b => b.column == x)).map (fun b => b.rangeOps chunk)).flatten

theorem opsFor_cons_self (u : Buf) (ups : List Buf) (x : String) (chunk : Nat) (h : u.column = x) :
    opsFor (u :: ups) x chunk = u.rangeOps chunk ++ opsFor ups x chunk := by
  unfold opsFor
  have : (u.column == x) = true := by simpa using h
  rw [List.filter_cons, if_pos this]; rfl

theorem opsFor_cons_other (u : Buf) (ups : List Buf) (x : String) (chunk : Nat) (h : u.column ≠ x) :
    opsFor (u :: ups) x chunk = opsFor ups x chunk := by
  unfold opsFor
  have : ¬ (u.column == x) = true := by simpa using h
  rw [List.filter_cons, if_neg this]

/-- R3: after `commitUpdates`, every slot of the numeric column `x` is the fold of the ops its buffer(s) hold for the
    chunk, in order, over the slot's previous content; the shape of the column is unchanged -/
theorem cuFold_slot (x : String) (k : NumKind) (chunk : Nat) (hxr : x ≠ rowColumn) (ups : List Buf) :
    ∀ (s : Store) (done : List Buf) (b : Bool) (col : Col), s.findCol x = some col → col.kind = .num k → chunk < col.nchunks →
      (∀ v ∈ ups, ∀ c, s.findCol v.column = some c → x ∉ c.computed) →
      (∀ v ∈ ups, v.column = x → InBounds col (v.rangeOps chunk)) →
      ∃ col', (ups.foldl (cuStep chunk) (s, done, b)).1.findCol x = some col' ∧ SameShape col col' ∧
        ∀ i, slot col' i =
          ((opsFor ups x chunk).filter (fun o => o.idx = i)).foldl (slotEffect col.merge k.width) (slot col i) := by
  induction ups with
  | nil =>
    intro s done b col hf _ _ _ _
    exact ⟨col, hf, SameShape.refl col, fun i => rfl⟩
  | cons u us ih =>
    intro s done b col hf hk hch hcomp hin
    simp only [List.foldl_cons]
    have hsim := cuStep_sim chunk s done b u
    have hcomp' : ∀ v ∈ us, ∀ c, (cuStep chunk (s, done, b) u).1.findCol v.column = some c → x ∉ c.computed := by
      intro v hv c hc
      obtain ⟨c0, hc0, sg⟩ := hsim.sig_back hc
      rw [sg.computed]
      exact hcomp v (by simp [hv]) c0 hc0
    by_cases hux : u.column = x
    · obtain ⟨col1, f1, sh1, sl1⟩ := cuStep_self chunk s done b u x k col hxr hux hf hk hch
        (hcomp u (by simp) col (hux ▸ hf)) (hin u (by simp) hux)
      generalize cuStep chunk (s, done, b) u = r at f1 hcomp'
      obtain ⟨r1, r2, r3⟩ := r
      obtain ⟨col2, f2, sh2, sl2⟩ := ih r1 r2 r3 col1 f1 (sh1.kind.trans hk) (by rw [sh1.nchunks]; exact hch) hcomp'
        (fun v hv hvx => InBounds.of_sameShape sh1 (hin v (by simp [hv]) hvx))
      refine ⟨col2, f2, SameShape.trans sh1 sh2, ?_⟩
      intro i
      rw [sl2 i, sl1 i, sh1.merge, opsFor_cons_self u us x chunk hux, List.filter_append, List.foldl_append]
    · have f1 := cuStep_frame chunk s done b u x hux (hcomp u (by simp))
      rw [hf] at f1
      generalize cuStep chunk (s, done, b) u = r at f1 hcomp'
      obtain ⟨r1, r2, r3⟩ := r
      obtain ⟨col2, f2, sh2, sl2⟩ := ih r1 r2 r3 col f1 hk hch hcomp' (fun v hv hvx => hin v (by simp [hv]) hvx)
      refine ⟨col2, f2, sh2, ?_⟩
      intro i
      rw [sl2 i, opsFor_cons_other u us x chunk hux]

/-- R3, as stated for `Store.commitUpdates` -/
theorem commitUpdates_read (s : Store) (chunk : Nat) (ups : List Buf) (x : String) (k : NumKind) (col : Col)
    (hxr : x ≠ rowColumn) (hf : s.findCol x = some col) (hk : col.kind = .num k) (hch : chunk < col.nchunks)
    (hcomp : ∀ v ∈ ups, ∀ c, s.findCol v.column = some c → x ∉ c.computed)
    (hin : ∀ v ∈ ups, v.column = x → InBounds col (v.rangeOps chunk)) :
    ∃ col', (s.commitUpdates chunk ups).1.findCol x = some col' ∧ SameShape col col' ∧
      ∀ i, slot col' i =
        ((opsFor ups x chunk).filter (fun o => o.idx = i)).foldl (slotEffect col.merge k.width) (slot col i) := by
  rw [commitUpdates_eq]
  exact cuFold_slot x k chunk hxr ups s [] false col hf hk hch hcomp hin

/-- R3, frame: a column that is neither a buffer's column nor a computed column of one is unchanged -/
theorem commitUpdates_frame (chunk : Nat) (ups : List Buf) (x : String) :
    ∀ (s : Store) (done : List Buf) (b : Bool),
      (∀ v ∈ ups, v.column ≠ x) → (∀ v ∈ ups, ∀ c, s.findCol v.column = some c → x ∉ c.computed) →
      (ups.foldl (cuStep chunk) (s, done, b)).1.findCol x = s.findCol x := by
  induction ups with
  | nil => intro s done b _ _; rfl
  | cons u us ih =>
    intro s done b hne hcomp
    simp only [List.foldl_cons]
    have hsim := cuStep_sim chunk s done b u
    have hcomp' : ∀ v ∈ us, ∀ c, (cuStep chunk (s, done, b) u).1.findCol v.column = some c → x ∉ c.computed := by
      intro v hv c hc
      obtain ⟨c0, hc0, sg⟩ := hsim.sig_back hc
      rw [sg.computed]
      exact hcomp v (by simp [hv]) c0 hc0
    have f1 := cuStep_frame chunk s done b u x (hne u (by simp)) (hcomp u (by simp))
    generalize cuStep chunk (s, done, b) u = r at f1 hcomp'
    obtain ⟨r1, r2, r3⟩ := r
    rw [ih r1 r2 r3 (fun v hv => hne v (by simp [hv])) hcomp']
    exact f1

/-! ## R4 — `commitMarkers` -/

theorem inner_push (f : Col → Col × Bool) (l : List Col) (acc : Array Col) (p : Bool) :
    l.foldl (fun (a : Array Col × Bool) c => (a.1.push (f c).1, a.2 || (f c).2)) (acc, p) =
      (acc ++ (l.map (fun c => (f c).1)).toArray, p || l.any (fun c => (f c).2)) := by
  induction l generalizing acc p with
  | nil => simp
  | cons c cs ih =>
    simp only [List.foldl_cons]
    rw [ih]
    simp [Bool.or_assoc]

/-- one marker section applied to every registry column -/
theorem markSection (hash : Bytes → Nat) (chunk : Nat) (ops : List Op) (cols : Array Col) (p : Bool) :
    cols.foldl (fun (a : Array Col × Bool) c =>
      (a.1.push (c.applyAny hash chunk ops).1, a.2 || (c.applyAny hash chunk ops).2)) (#[], p) =
    (cols.map (fun c => (c.applyAny hash chunk ops).1), p || cols.any (fun c => (c.applyAny hash chunk ops).2)) := by
  rw [← Array.foldl_toList, inner_push (fun c => c.applyAny hash chunk ops)]
  have : (List.map (fun c => (Col.applyAny hash c chunk ops).fst) cols.toList).toArray =
      Array.map (fun c => (Col.applyAny hash c chunk ops).fst) cols := by
    apply Array.ext'
    simp
  simp [this]

/-- what the marker sections do to one column -/
def markCol (hash : Bytes → Nat) (chunk : Nat) (secs : List (List Op)) (c : Col) : Col :=
  secs.foldl (fun c ops => (c.applyAny hash chunk ops).1) c

/-- the panic flag raised by the marker sections -/
def markPanic (hash : Bytes → Nat) (chunk : Nat) : List (List Op) → Array Col → Bool
  | [], _ => false
  | ops :: rest, cols =>
    cols.any (fun c => (c.applyAny hash chunk ops).2) ||
      markPanic hash chunk rest (cols.map (fun c => (c.applyAny hash chunk ops).1))

theorem markFold (hash : Bytes → Nat) (chunk : Nat) (secs : List (List Op)) (cols : Array Col) (p : Bool) :
    secs.foldl (fun (acc : Array Col × Bool) ops =>
      acc.1.foldl (fun (a : Array Col × Bool) c =>
        (a.1.push (c.applyAny hash chunk ops).1, a.2 || (c.applyAny hash chunk ops).2)) (#[], acc.2)) (cols, p) =
    (cols.map (markCol hash chunk secs), p || markPanic hash chunk secs cols) := by
  induction secs generalizing cols p with
  | nil =>
    have : Array.map (markCol hash chunk []) cols = cols := by
      unfold markCol; simp
    simp [markPanic, this]
  | cons ops rest ih =>
    simp only [List.foldl_cons]
    rw [markSection, ih]
    simp [markCol, markPanic, Bool.or_assoc, Function.comp_def]

theorem commitMarkers_cols (s : Store) (chunk : Nat) (m : Buf) :
    (s.commitMarkers chunk m).cols = s.cols.map (markCol s.hash chunk (m.range chunk)) ∧
    (s.commitMarkers chunk m).panicked = (s.panicked || markPanic s.hash chunk (m.range chunk) s.cols) := by
  have h := markFold s.hash chunk (m.range chunk) s.cols false
  have e : (s.commitMarkers chunk m).cols = ((m.range chunk).foldl (fun (acc : Array Col × Bool) ops =>
      acc.1.foldl (fun (a : Array Col × Bool) c =>
        (a.1.push (c.applyAny s.hash chunk ops).1, a.2 || (c.applyAny s.hash chunk ops).2)) (#[], acc.2)) (s.cols, false)).1 := rfl
  have e2 : (s.commitMarkers chunk m).panicked = (s.panicked || ((m.range chunk).foldl (fun (acc : Array Col × Bool) ops =>
      acc.1.foldl (fun (a : Array Col × Bool) c =>
        (a.1.push (c.applyAny s.hash chunk ops).1, a.2 || (c.applyAny s.hash chunk ops).2)) (#[], acc.2)) (s.cols, false)).2) := rfl
  rw [e, e2, h]
  simp

theorem commitMarkers_rest (s : Store) (chunk : Nat) (m : Buf) :
    (s.commitMarkers chunk m).hash = s.hash ∧ (s.commitMarkers chunk m).commits = s.commits ∧
    (s.commitMarkers chunk m).nextId = s.nextId := ⟨rfl, rfl, rfl⟩

theorem markCol_sig (hash : Bytes → Nat) (chunk : Nat) (secs : List (List Op)) (c : Col) :
    SameSig c (markCol hash chunk secs c) := by
  unfold markCol
  apply foldl_invariant (fun c' => SameSig c c') _ _ c (SameSig.refl c)
  intro b ops _ hb
  exact SameSig.trans hb (applyAny_sig hash b chunk ops)

/-- the registry after the markers: every column, under its own name, with the marker sections applied -/
theorem commitMarkers_findCol (s : Store) (chunk : Nat) (m : Buf) (x : String) :
    (s.commitMarkers chunk m).findCol x = (s.findCol x).map (markCol s.hash chunk (m.range chunk)) := by
  unfold Store.findCol
  rw [(commitMarkers_cols s chunk m).1, Array.find?_map]
  congr 1
  congr 1
  funext c
  simp only [Function.comp_apply]
  rw [(markCol_sig s.hash chunk (m.range chunk) c).name]

/-- marker sections on a numeric column that has the chunk -/
theorem markCol_num (hash : Bytes → Nat) (chunk : Nat) (k : NumKind) (secs : List (List Op)) (c : Col)
    (hk : c.kind = .num k) (hch : chunk < c.nchunks) : markCol hash chunk secs c = secs.flatten.foldl (stepCol k) c := by
  unfold markCol
  induction secs generalizing c with
  | nil => rfl
  | cons ops rest ih =>
    simp only [List.foldl_cons, List.flatten_cons, List.foldl_append]
    have hd : c.kind.isData = true := by rw [hk]; rfl
    have h1 : (c.applyAny hash chunk ops).1 = ops.foldl (stepCol k) c := by
      unfold Col.applyAny
      rw [if_pos hd, Store.applyData_num hash c k hk chunk hch]
    rw [h1]
    have hs := foldCol_shape k ops c
    exact ih _ (hs.kind.trans hk) (by rw [hs.nchunks]; exact hch)

/-- R4 for a numeric column: after the markers of the chunk, every slot is the fold of the markers addressed to it
    (`Delete` clears the presence bit, `Insert` leaves the slot alone; the raw data is never touched) -/
theorem commitMarkers_read (s : Store) (chunk : Nat) (m : Buf) (x : String) (k : NumKind) (col : Col)
    (hf : s.findCol x = some col) (hk : col.kind = .num k) (hch : chunk < col.nchunks)
    (hin : InBounds col (m.rangeOps chunk)) :
    ∃ col', (s.commitMarkers chunk m).findCol x = some col' ∧ SameShape col col' ∧
      ∀ i, slot col' i =
        ((m.rangeOps chunk).filter (fun o => o.idx = i)).foldl (slotEffect col.merge k.width) (slot col i) := by
  refine ⟨(m.rangeOps chunk).foldl (stepCol k) col, ?_, foldCol_shape k _ col, fun i => foldCol_slot k _ col i hin⟩
  rw [commitMarkers_findCol, hf, Option.map_some, markCol_num s.hash chunk k _ col hk hch]
  rfl

/-- marker ops never change the raw data: on an `Insert` / `Delete` the slot's value stays, only a `Delete` clears the bit -/
theorem slotEffect_marker (merge : Bytes → Bytes → Bytes) (w : Nat) (st : Bool × Bytes) (o : Op)
    (h : o.typ = opInsert ∨ o.typ = opDelete) :
    slotEffect merge w st o = (if o.typ = opDelete then false else st.1, st.2) := by
  unfold slotEffect
  rcases h with h | h
  · rw [if_neg (by rw [h]; decide), if_neg (by rw [h]; decide), if_neg (by rw [h]; decide), if_neg (by rw [h]; decide)]
  · rw [if_neg (by rw [h]; decide), if_neg (by rw [h]; decide), if_pos h, if_pos h]

theorem commitMarkers_sim (s : Store) (chunk : Nat) (m : Buf) :
    (∀ n c, s.findCol n = some c → ∃ c', (s.commitMarkers chunk m).findCol n = some c' ∧ SameSig c c') ∧
    (∀ n, s.findCol n = none → (s.commitMarkers chunk m).findCol n = none) := by
  constructor
  · intro n c h
    rw [commitMarkers_findCol, h]
    exact ⟨_, rfl, markCol_sig _ _ _ c⟩
  · intro n h
    rw [commitMarkers_findCol, h]; rfl

/-! ## R5 — `commitChunk` and `commit` -/

/-- registry shape only (names and signatures), across changes of the fill list and the commit table -/
structure RegSim (s s' : Store) : Prop where
  sig : ∀ m c, s.findCol m = some c → ∃ c', s'.findCol m = some c' ∧ SameSig c c'
  none : ∀ m, s.findCol m = none → s'.findCol m = none

theorem Sim.reg {s s' : Store} (h : Sim s s') : RegSim s s' := ⟨h.sig, h.none⟩

theorem RegSim.refl (s : Store) : RegSim s s := (Sim.refl s).reg

theorem RegSim.trans {a b c : Store} (h1 : RegSim a b) (h2 : RegSim b c) : RegSim a c := by
  refine ⟨?_, ?_⟩
  · intro m x hx
    obtain ⟨y, hy, s1⟩ := h1.sig m x hx
    obtain ⟨z, hz, s2⟩ := h2.sig m y hy
    exact ⟨z, hz, SameSig.trans s1 s2⟩
  · intro m hm
    exact h2.none m (h1.none m hm)

theorem RegSim.sig_back {s s' : Store} (h : RegSim s s') {m : String} {c' : Col} (hc : s'.findCol m = some c') :
    ∃ c, s.findCol m = some c ∧ SameSig c c' := by
  cases hm : s.findCol m with
  | none => rw [h.none m hm] at hc; cases hc
  | some c =>
    obtain ⟨c2, h2, hs⟩ := h.sig m c hm
    rw [hc] at h2
    injection h2 with h2
    subst h2
    exact ⟨c, rfl, hs⟩

theorem findCol_congr {s s' : Store} (h : s'.cols = s.cols) (m : String) : s'.findCol m = s.findCol m := by
  unfold Store.findCol; rw [h]

theorem RegSim.of_cols {s s' : Store} (h : s'.cols = s.cols) : RegSim s s' :=
  ⟨fun m c hc => ⟨c, by rw [findCol_congr h]; exact hc, SameSig.refl c⟩, fun m hm => by rw [findCol_congr h]; exact hm⟩

/-- `findMarkers`' predicate -/
def isMarkerBuf (b : Buf) : Bool := !b.isEmpty && b.column == rowColumn

/-- the marker ops of a chunk, as `commitChunk` finds them -/
def markerOps (ups : List Buf) (chunk : Nat) : List Op :=
  match ups.find? isMarkerBuf with
  | some m => m.rangeOps chunk
  | none => []

/-- the first statements of `commitChunk`: commit id, commit table, panic on a missing chunk -/
def preStore (s : Store) (chunk : Nat) : Store :=
  { s with nextId := s.nextId + 1, commits := s.commits.setIfInBounds chunk (s.nextId + 1),
           panicked := s.panicked || decide (chunk ≥ s.commits.size) }

/-- … then the markers -/
def markStore (s : Store) (chunk : Nat) (cr : Bool) (ups : List Buf) : Store :=
  if cr then
    match ups.find? isMarkerBuf with
    | some m => (preStore s chunk).commitMarkers chunk m
    | none => preStore s chunk
  else preStore s chunk

/-- the emission part of `commitChunk` -/
def finishChunk (id chunk : Nat) (cr : Bool) (r : Store × List Buf × Bool) : Store × List Buf :=
  if !cr && !r.2.2 then (r.1, r.2.1)
  else
    let e : Emitted := ⟨id, chunk, r.2.1⟩
    let s := if r.1.recording then { r.1 with recorded := e :: r.1.recorded } else r.1
    let s := if s.logger ≠ .none then { s with emitted := e :: s.emitted } else s
    (s, r.2.1)

theorem commitChunk_def (s : Store) (chunk : Nat) (cr : Bool) (ups : List Buf) :
    s.commitChunk chunk cr ups =
      finishChunk (s.nextId + 1) chunk cr ((markStore s chunk cr ups).commitUpdates chunk ups) := rfl

theorem finishChunk_fields (id chunk : Nat) (cr : Bool) (r : Store × List Buf × Bool) :
    (finishChunk id chunk cr r).2 = r.2.1 ∧ (finishChunk id chunk cr r).1.cols = r.1.cols ∧
    (finishChunk id chunk cr r).1.fill = r.1.fill ∧ (finishChunk id chunk cr r).1.panicked = r.1.panicked ∧
    (finishChunk id chunk cr r).1.commits = r.1.commits ∧ (finishChunk id chunk cr r).1.hash = r.1.hash ∧
    (finishChunk id chunk cr r).1.count = r.1.count := by
  unfold finishChunk
  split
  · exact ⟨rfl, rfl, rfl, rfl, rfl, rfl, rfl⟩
  · simp only
    split <;> split <;> simp

theorem markStore_regSim (s : Store) (chunk : Nat) (cr : Bool) (ups : List Buf) : RegSim s (markStore s chunk cr ups) := by
  have hp : RegSim s (preStore s chunk) := RegSim.of_cols rfl
  unfold markStore
  split
  · split
    · rename_i m _
      obtain ⟨h1, h2⟩ := commitMarkers_sim (preStore s chunk) chunk m
      exact RegSim.trans hp ⟨h1, h2⟩
    · exact hp
  · exact hp

/-- the numeric column `x` after the marker step of `commitChunk` -/
theorem markStore_read (s : Store) (chunk : Nat) (ups : List Buf) (x : String) (k : NumKind) (col : Col)
    (hf : s.findCol x = some col) (hk : col.kind = .num k) (hch : chunk < col.nchunks)
    (hin : InBounds col (markerOps ups chunk)) :
    ∃ col', (markStore s chunk (ups.find? isMarkerBuf).isSome ups).findCol x = some col' ∧ SameShape col col' ∧
      ∀ i, slot col' i =
        ((markerOps ups chunk).filter (fun o => o.idx = i)).foldl (slotEffect col.merge k.width) (slot col i) := by
  have hp : (preStore s chunk).findCol x = some col := hf
  unfold markStore markerOps at *
  cases hm : ups.find? isMarkerBuf with
  | none =>
    simp only [Option.isSome_none, Bool.false_eq_true, if_false]
    exact ⟨col, hp, SameShape.refl col, fun i => rfl⟩
  | some m =>
    rw [hm] at hin
    simp only [Option.isSome_some, if_true]
    exact commitMarkers_read (preStore s chunk) chunk m x k col hp hk hch hin

/-! pointwise-related buffer lists -/

theorem Rel2.columns {x : String} {D : List Nat} {ups ups' : List Buf} (h : Rel2 (BufRel x D) ups ups') :
    ∀ v' ∈ ups', ∃ v ∈ ups, BufRel x D v v' := by
  induction h with
  | nil => intro v' hv'; cases hv'
  | cons hab _ ih =>
    intro v' hv'
    rcases List.mem_cons.1 hv' with rfl | hv'
    · exact ⟨_, by simp, hab⟩
    · obtain ⟨v, hv, hr⟩ := ih v' hv'
      exact ⟨v, by simp [hv], hr⟩

theorem Rel2.find_marker {x : String} {D : List Nat} {ups ups' : List Buf} (h : Rel2 (BufRel x D) ups ups') :
    ups'.find? isMarkerBuf = ups.find? isMarkerBuf := by
  induction h with
  | nil => rfl
  | @cons a b as bs hab _ ih =>
    obtain ⟨h1, h2, _⟩ := hab
    by_cases hr : a.column = rowColumn
    · have := h2 hr
      subst this
      rw [List.find?_cons, List.find?_cons, ih]
    · have ha : isMarkerBuf a = false := by
        unfold isMarkerBuf
        have : (a.column == rowColumn) = false := by simpa using hr
        rw [this]; simp
      have hb : isMarkerBuf b = false := by
        unfold isMarkerBuf
        have : (b.column == rowColumn) = false := by rw [h1]; simpa using hr
        rw [this]; simp
      rw [List.find?_cons, List.find?_cons, ha, hb, ih]

theorem Rel2.opsFor {x : String} {D : List Nat} {ups ups' : List Buf} (h : Rel2 (BufRel x D) ups ups') (c2 : Nat)
    (hc2 : c2 ∉ D) : opsFor ups' x c2 = opsFor ups x c2 := by
  induction h with
  | nil => rfl
  | @cons a b as bs hab _ ih =>
    obtain ⟨h1, _, h3⟩ := hab
    by_cases hx : a.column = x
    · rw [opsFor_cons_self a as x c2 hx, opsFor_cons_self b bs x c2 (h1.trans hx), ih]
      unfold Buf.rangeOps
      rw [h3 hx c2 hc2]
    · rw [opsFor_cons_other a as x c2 hx, opsFor_cons_other b bs x c2 (by rw [h1]; exact hx), ih]

/-- one dirty chunk: markers first, then the column buffers — the numeric column `x`, the registry and the buffers -/
theorem commitChunk_read (s : Store) (chunk : Nat) (ups : List Buf) (x : String) (k : NumKind) (col : Col)
    (hxr : x ≠ rowColumn) (hf : s.findCol x = some col) (hk : col.kind = .num k) (hch : chunk < col.nchunks)
    (hcomp : ∀ v ∈ ups, ∀ c, s.findCol v.column = some c → x ∉ c.computed)
    (hinm : InBounds col (markerOps ups chunk))
    (hin : ∀ v ∈ ups, v.column = x → InBounds col (v.rangeOps chunk)) :
    RegSim s (s.commitChunk chunk (ups.find? isMarkerBuf).isSome ups).1 ∧
    (∃ col', (s.commitChunk chunk (ups.find? isMarkerBuf).isSome ups).1.findCol x = some col' ∧ SameShape col col' ∧
      ∀ i, slot col' i =
        ((markerOps ups chunk ++ opsFor ups x chunk).filter (fun o => o.idx = i)).foldl
          (slotEffect col.merge k.width) (slot col i)) ∧
    Rel2 (BufRel x [chunk]) ups (s.commitChunk chunk (ups.find? isMarkerBuf).isSome ups).2 := by
  rw [commitChunk_def]
  obtain ⟨f1, f2, _⟩ := finishChunk_fields (s.nextId + 1) chunk (ups.find? isMarkerBuf).isSome
    ((markStore s chunk (ups.find? isMarkerBuf).isSome ups).commitUpdates chunk ups)
  have hreg := markStore_regSim s chunk (ups.find? isMarkerBuf).isSome ups
  obtain ⟨colm, fm, shm, slm⟩ := markStore_read s chunk ups x k col hf hk hch hinm
  generalize markStore s chunk (ups.find? isMarkerBuf).isSome ups = ms at f1 f2 hreg fm
  have hcomp' : ∀ v ∈ ups, ∀ c, ms.findCol v.column = some c → x ∉ c.computed := by
    intro v hv c hc
    obtain ⟨c0, hc0, sg⟩ := hreg.sig_back hc
    rw [sg.computed]
    exact hcomp v hv c0 hc0
  obtain ⟨col', fu, shu, slu⟩ := commitUpdates_read ms chunk ups x k colm hxr fm (shm.kind.trans hk)
    (by rw [shm.nchunks]; exact hch) hcomp' (fun v hv hvx => InBounds.of_sameShape shm (hin v hv hvx))
  obtain ⟨hsim, ups', hu1, hu2⟩ := cuFold_rel x k chunk ms colm fm (shm.kind.trans hk) (by rw [shm.nchunks]; exact hch)
    ups ms [] false (Sim.refl ms)
  rw [← commitUpdates_eq] at hsim hu1
  refine ⟨RegSim.trans hreg (RegSim.trans hsim.reg (RegSim.of_cols f2)), ⟨col', ?_, SameShape.trans shm shu, ?_⟩, ?_⟩
  · rw [findCol_congr f2]; exact fu
  · intro i
    rw [slu i, slm i, shm.merge, List.filter_append, List.foldl_append]
  · rw [f1, hu1]; simpa using hu2

/-- the chunk loop of `commit` -/
def commitLoop (cr : Bool) (cs : List Nat) (s : Store) (ups : List Buf) : Store × List Buf :=
  cs.foldl (fun (acc : Store × List Buf) chunk => acc.1.commitChunk chunk cr acc.2) (s, ups)

theorem commit_eq (s : Store) (t : Txn) :
    s.commit t = (commitLoop t.markers.isSome t.dirtyChunks
      (match t.dirtyChunks.getLast? with
        | some last => s.commitCapacity last
        | none => s) t.updates).1 := rfl

/-- the sections of the chunks `cs` of the buffers of `x` and of the marker buffer hold ops of their own chunk
    (`Buf.Inv.chunk_ok`) -/
def ChunkOps (x : String) (ups : List Buf) (cs : List Nat) : Prop :=
  ∀ v ∈ ups, (v.column = x ∨ isMarkerBuf v = true) → ∀ c ∈ cs, ∀ o ∈ v.rangeOps c, chunkOf o.idx = c

theorem markerOps_chunk (x : String) (ups : List Buf) (cs : List Nat) (h : ChunkOps x ups cs) (c : Nat) (hc : c ∈ cs) :
    ∀ o ∈ markerOps ups c, chunkOf o.idx = c := by
  unfold markerOps
  cases hm : ups.find? isMarkerBuf with
  | none => intro o ho; cases ho
  | some m =>
    intro o ho
    exact h m (List.mem_of_find?_eq_some hm) (Or.inr (List.find?_some hm)) c hc o ho

theorem opsFor_chunk (x : String) (ups : List Buf) (cs : List Nat) (h : ChunkOps x ups cs) (c : Nat) (hc : c ∈ cs) :
    ∀ o ∈ opsFor ups x c, chunkOf o.idx = c := by
  intro o ho
  unfold opsFor at ho
  obtain ⟨l, hl, hol⟩ := List.mem_flatten.1 ho
  obtain ⟨v, hv, rfl⟩ := List.mem_map.1 hl
  have hv' := List.mem_filter.1 hv
  exact h v hv'.1 (Or.inl (by simpa using hv'.2)) c hc o hol

theorem foldl_filter_none {β : Type} (f : β → Op → β) (ops : List Op) (i : Nat) (st : β) (h : ∀ o ∈ ops, o.idx ≠ i) :
    (ops.filter (fun o => o.idx = i)).foldl f st = st := by
  have : ops.filter (fun o => o.idx = i) = [] := by
    rw [List.filter_eq_nil_iff]; intro o ho; simpa using h o ho
  rw [this]; rfl

/-- R5, chunk loop: after the passes of the (pairwise distinct) chunks `cs`, slot `i` of the numeric column `x` is, when
    the chunk of `i` is one of `cs`, the fold over its previous content of the markers of that chunk addressed to `i`
    followed by the ops the buffer(s) of `x` hold for `i`, in order; every other slot is untouched (frame) -/
theorem commitLoop_read (x : String) (k : NumKind) (hxr : x ≠ rowColumn) (cs : List Nat) :
    ∀ (s : Store) (ups : List Buf) (col : Col) (cr : Bool), cs.Nodup → cr = (ups.find? isMarkerBuf).isSome →
      s.findCol x = some col → col.kind = .num k → ColWF col → (∀ c ∈ cs, c < col.nchunks) →
      (∀ v ∈ ups, ∀ c, s.findCol v.column = some c → x ∉ c.computed) → ChunkOps x ups cs →
      ∃ col', (commitLoop cr cs s ups).1.findCol x = some col' ∧ SameShape col col' ∧
        ∀ i, slot col' i =
          if chunkOf i ∈ cs then
            ((markerOps ups (chunkOf i) ++ opsFor ups x (chunkOf i)).filter (fun o => o.idx = i)).foldl
              (slotEffect col.merge k.width) (slot col i)
          else slot col i := by
  induction cs with
  | nil =>
    intro s ups col cr _ _ hf _ _ _ _ _
    exact ⟨col, hf, SameShape.refl col, fun i => by simp⟩
  | cons c cs ih =>
    intro s ups col cr hnd hcr hf hk hw hch hcomp hco
    have hc_notin : c ∉ cs := (List.nodup_cons.1 hnd).1
    have hnd' : cs.Nodup := (List.nodup_cons.1 hnd).2
    have hcc : c < col.nchunks := hch c (by simp)
    have hinm : InBounds col (markerOps ups c) :=
      inBounds_of_chunk col c _ hw hcc (markerOps_chunk x ups (c :: cs) hco c (by simp))
    have hin : ∀ v ∈ ups, v.column = x → InBounds col (v.rangeOps c) := by
      intro v hv hvx
      exact inBounds_of_chunk col c _ hw hcc (hco v hv (Or.inl hvx) c (by simp))
    obtain ⟨hreg, ⟨col1, f1, sh1, sl1⟩, hrel⟩ := commitChunk_read s c ups x k col hxr hf hk hcc hcomp hinm hin
    unfold commitLoop
    simp only [List.foldl_cons]
    rw [hcr]
    generalize s.commitChunk c (ups.find? isMarkerBuf).isSome ups = r at hreg f1 hrel
    obtain ⟨s1, ups1⟩ := r
    simp only at hreg f1 hrel
    have hfm := hrel.find_marker
    have hcomp1 : ∀ v ∈ ups1, ∀ c0, s1.findCol v.column = some c0 → x ∉ c0.computed := by
      intro v' hv' c0 hc0
      obtain ⟨v, hv, hb⟩ := hrel.columns v' hv'
      rw [hb.1] at hc0
      obtain ⟨c00, hc00, sg⟩ := hreg.sig_back hc0
      rw [sg.computed]
      exact hcomp v hv c00 hc00
    have hco1 : ChunkOps x ups1 cs := by
      intro v' hv' hor c2 hc2 o ho
      obtain ⟨v, hv, hb⟩ := hrel.columns v' hv'
      have hc2' : c2 ∉ [c] := by
        intro e
        simp only [List.mem_singleton] at e
        exact hc_notin (e ▸ hc2)
      rcases hor with hx | hm
      · have hvx : v.column = x := hb.1.symm.trans hx
        have : v'.rangeOps c2 = v.rangeOps c2 := by unfold Buf.rangeOps; rw [hb.2.2 hvx c2 hc2']
        rw [this] at ho
        exact hco v hv (Or.inl hvx) c2 (by simp [hc2]) o ho
      · have hvr : v'.column = rowColumn := by
          unfold isMarkerBuf at hm
          simp only [Bool.and_eq_true, beq_iff_eq] at hm
          exact hm.2
        have hvv : v' = v := hb.2.1 (hb.1.symm.trans hvr)
        subst hvv
        exact hco v' hv (Or.inr hm) c2 (by simp [hc2]) o ho
    obtain ⟨col2, f2, sh2, sl2⟩ := ih s1 ups1 col1 (ups.find? isMarkerBuf).isSome hnd' (by rw [hfm]) f1 (sh1.kind.trans hk)
      (ColWF.of_shape sh1 hw) (fun c' hc' => by rw [sh1.nchunks]; exact hch c' (by simp [hc'])) hcomp1 hco1
    refine ⟨col2, f2, SameShape.trans sh1 sh2, ?_⟩
    intro i
    rw [sl2 i]
    by_cases hic : chunkOf i = c
    · have h1 : chunkOf i ∉ cs := by rw [hic]; exact hc_notin
      have h2 : chunkOf i ∈ c :: cs := by rw [hic]; simp
      rw [if_neg h1, if_pos h2, sl1 i, hic]
    · have hsame : slot col1 i = slot col i := by
        rw [sl1 i]
        apply foldl_filter_none
        intro o ho e
        apply hic
        rw [← e]
        rcases List.mem_append.1 ho with ho | ho
        · exact markerOps_chunk x ups (c :: cs) hco c (by simp) o ho
        · exact opsFor_chunk x ups (c :: cs) hco c (by simp) o ho
      by_cases hics : chunkOf i ∈ cs
      · have h2 : chunkOf i ∈ c :: cs := by simp [hics]
        have hn : chunkOf i ∉ [c] := by simpa using hic
        rw [if_pos hics, if_pos h2, hsame, sh1.merge, hrel.opsFor (chunkOf i) hn]
        unfold markerOps
        rw [hfm]
      · have h2 : chunkOf i ∉ c :: cs := by
          intro h; rcases List.mem_cons.1 h with h | h
          · exact hic h
          · exact hics h
        rw [if_neg hics, if_neg h2, hsame]

/-! ### `commitCapacity` and `Col.grow` -/

theorem grow_meta (c : Col) (idx : Nat) :
    (c.grow idx).name = c.name ∧ (c.grow idx).kind = c.kind ∧ (c.grow idx).computed = c.computed ∧
    (c.grow idx).merge = c.merge := by
  unfold Col.grow
  split <;> first
    | exact ⟨rfl, rfl, rfl, rfl⟩
    | (simp only; split <;> exact ⟨rfl, rfl, rfl, rfl⟩)

theorem grow_name (c : Col) (idx : Nat) : (c.grow idx).name = c.name := (grow_meta c idx).1
theorem grow_kind (c : Col) (idx : Nat) : (c.grow idx).kind = c.kind := (grow_meta c idx).2.1
theorem grow_computed (c : Col) (idx : Nat) : (c.grow idx).computed = c.computed := (grow_meta c idx).2.2.1
theorem grow_merge (c : Col) (idx : Nat) : (c.grow idx).merge = c.merge := (grow_meta c idx).2.2.2

theorem get_append_replicate_false (b : Bitmap) (n i : Nat) : Bits.get (b ++ Array.replicate n false) i = Bits.get b i := by
  unfold Bits.get
  rw [Array.getElem?_append]
  split
  · rfl
  · rename_i h
    simp only [Array.getElem?_replicate]
    have : b[i]? = none := Array.getElem?_eq_none (by omega)
    rw [this]
    split <;> rfl

theorem data_append_replicate_nil (a : Array Bytes) (n i : Nat) :
    ((a ++ Array.replicate n [])[i]?).getD [] = (a[i]?).getD [] := by
  rw [Array.getElem?_append]
  split
  · rfl
  · rename_i h
    simp only [Array.getElem?_replicate]
    have : a[i]? = none := Array.getElem?_eq_none (by omega)
    rw [this]
    split <;> rfl

/-- `Grow` of a numeric column: same slots, well-formed arrays, the chunk of `idx` allocated -/
theorem grow_num (c : Col) (k : NumKind) (hk : c.kind = .num k) (hw : ColWF c) (idx : Nat) :
    ColWF (c.grow idx) ∧ c.nchunks ≤ (c.grow idx).nchunks ∧ idx / 16384 < (c.grow idx).nchunks ∧
    ∀ i, slot (c.grow idx) i = slot c i := by
  unfold Col.grow
  rw [hk]
  simp only
  split
  · rename_i h
    refine ⟨⟨?_, ?_⟩, by simp only; omega, by simp only; omega, ?_⟩
    · simp only [Array.size_append, Array.size_replicate]
      have := hw.bsize
      have h2 : 16384 * c.nchunks ≤ 16384 * (idx / 16384 + 1) := Nat.mul_le_mul_left _ (Nat.le_of_lt h)
      omega
    · simp only [Array.size_append, Array.size_replicate]
      have := hw.dsize
      have h2 : 16384 * c.nchunks ≤ 16384 * (idx / 16384 + 1) := Nat.mul_le_mul_left _ (Nat.le_of_lt h)
      omega
    · intro i
      unfold slot
      simp only [get_append_replicate_false, data_append_replicate_nil]
  · rename_i h
    exact ⟨hw, Nat.le_refl _, by omega, fun i => rfl⟩

theorem commitCapacity_findCol (s : Store) (last : Nat) (x : String) :
    (s.commitCapacity last).findCol x =
      if s.commits.size ≥ last + 1 then s.findCol x else (s.findCol x).map (fun c => c.grow (16384 * last + 16383)) := by
  unfold Store.commitCapacity
  split
  · rfl
  · unfold Store.findCol
    simp only
    rw [Array.find?_map]
    congr 1
    congr 1
    funext c
    simp only [Function.comp_apply]
    rw [grow_name]

/-! ### the dirty chunks -/

theorem mem_insertDedup (x y : Nat) (l : List Nat) : y ∈ insertDedup x l ↔ y = x ∨ y ∈ l := by
  induction l with
  | nil => simp [insertDedup]
  | cons z zs ih =>
    unfold insertDedup
    split
    · simp
    · split
      · rename_i _ e
        subst e
        simp
      · simp only [List.mem_cons, ih]
        constructor
        · rintro (h | h | h)
          · exact Or.inr (Or.inl h)
          · exact Or.inl h
          · exact Or.inr (Or.inr h)
        · rintro (h | h | h)
          · exact Or.inr (Or.inl h)
          · exact Or.inl h
          · exact Or.inr (Or.inr h)

theorem sorted_insertDedup (x : Nat) (l : List Nat) (h : l.Pairwise (· < ·)) : (insertDedup x l).Pairwise (· < ·) := by
  induction l with
  | nil => simp [insertDedup]
  | cons z zs ih =>
    unfold insertDedup
    rw [List.pairwise_cons] at h
    split
    · rename_i hlt
      rw [List.pairwise_cons]
      refine ⟨?_, List.pairwise_cons.2 h⟩
      intro a ha
      rcases List.mem_cons.1 ha with rfl | ha
      · exact hlt
      · exact Nat.lt_trans hlt (h.1 a ha)
    · split
      · exact List.pairwise_cons.2 h
      · rename_i h1 h2
        rw [List.pairwise_cons]
        refine ⟨?_, ih h.2⟩
        intro a ha
        rcases (mem_insertDedup x a zs).1 ha with rfl | ha
        · omega
        · exact h.1 a ha

theorem foldl_insertDedup (l init : List Nat) (h : init.Pairwise (· < ·)) :
    (l.foldl (fun acc x => insertDedup x acc) init).Pairwise (· < ·) ∧
    ∀ y, y ∈ l.foldl (fun acc x => insertDedup x acc) init ↔ y ∈ l ∨ y ∈ init := by
  induction l generalizing init with
  | nil => exact ⟨h, fun y => by simp⟩
  | cons x xs ih =>
    simp only [List.foldl_cons]
    obtain ⟨i1, i2⟩ := ih (insertDedup x init) (sorted_insertDedup x init h)
    refine ⟨i1, fun y => ?_⟩
    rw [i2 y, mem_insertDedup]
    simp only [List.mem_cons]
    constructor
    · rintro (h | h | h)
      · exact Or.inl (Or.inr h)
      · exact Or.inl (Or.inl h)
      · exact Or.inr h
    · rintro ((h | h) | h)
      · exact Or.inr (Or.inl h)
      · exact Or.inl h
      · exact Or.inr (Or.inr h)

theorem dirtyChunks_sorted (t : Txn) : t.dirtyChunks.Pairwise (· < ·) :=
  (foldl_insertDedup _ [] List.Pairwise.nil).1

theorem mem_dirtyChunks (t : Txn) (c : Nat) :
    c ∈ t.dirtyChunks ↔ c ∈ t.dirty ∨ ∃ b ∈ t.updates, c ∈ b.chunks := by
  unfold Txn.dirtyChunks
  rw [(foldl_insertDedup _ [] List.Pairwise.nil).2 c]
  simp only [List.mem_append, List.mem_flatten, List.mem_map, List.not_mem_nil, or_false]
  constructor
  · rintro (h | ⟨l, ⟨b, hb, rfl⟩, hc⟩)
    · exact Or.inl h
    · exact Or.inr ⟨b, hb, hc⟩
  · rintro (h | ⟨b, hb, hc⟩)
    · exact Or.inl h
    · exact Or.inr ⟨_, ⟨b, hb, rfl⟩, hc⟩

theorem sorted_nodup (l : List Nat) (h : l.Pairwise (· < ·)) : l.Nodup := by
  unfold List.Nodup
  exact List.Pairwise.imp (fun h => Nat.ne_of_lt h) h

theorem sorted_le_getLast (l : List Nat) (h : l.Pairwise (· < ·)) (last : Nat) (hl : l.getLast? = some last) :
    ∀ c ∈ l, c ≤ last := by
  induction l with
  | nil => intro c hc; cases hc
  | cons x xs ih =>
    rw [List.pairwise_cons] at h
    cases xs with
    | nil =>
      simp only [List.getLast?_singleton, Option.some.injEq] at hl
      intro c hc
      simp only [List.mem_singleton] at hc
      omega
    | cons y ys =>
      rw [List.getLast?_cons_cons] at hl
      have hmem : last ∈ y :: ys := List.mem_of_getLast? hl
      intro c hc
      rcases List.mem_cons.1 hc with rfl | hc
      · exact Nat.le_of_lt (h.1 last hmem)
      · exact ih h.2 hl c hc

/-! ### `commit`: the statement in terms of the ops the transaction issued -/

/-- every op the buffers named `x` hold, in issue order -/
def allFor (ups : List Buf) (x : String) : List Op := ((ups.filter (fun b => b.column == x)).map Buf.allOps).flatten

/-- every marker the transaction holds, in issue order -/
def markerAll (ups : List Buf) : List Op :=
  match ups.find? isMarkerBuf with
  | some m => m.allOps
  | none => []

theorem allFor_cons_self (u : Buf) (ups : List Buf) (x : String) (h : u.column = x) :
    allFor (u :: ups) x = u.allOps ++ allFor ups x := by
  unfold allFor
  have : (u.column == x) = true := by simpa using h
  rw [List.filter_cons, if_pos this]; rfl

theorem allFor_cons_other (u : Buf) (ups : List Buf) (x : String) (h : u.column ≠ x) :
    allFor (u :: ups) x = allFor ups x := by
  unfold allFor
  have : ¬ (u.column == x) = true := by simpa using h
  rw [List.filter_cons, if_neg this]

theorem rangeOps_filter_idx (u : Buf) (h : ChunkOK u) (i : Nat) :
    (u.rangeOps (chunkOf i)).filter (fun o => o.idx = i) = u.allOps.filter (fun o => o.idx = i) := by
  rw [rangeOps_eq_filter_ok u _ h, List.filter_filter]
  apply List.filter_congr
  intro o _
  by_cases e : o.idx = i
  · simp [e]
  · simp [e]

theorem opsFor_filter_idx (ups : List Buf) (x : String) (i : Nat) (h : ∀ v ∈ ups, v.column = x → ChunkOK v) :
    (opsFor ups x (chunkOf i)).filter (fun o => o.idx = i) = (allFor ups x).filter (fun o => o.idx = i) := by
  induction ups with
  | nil => rfl
  | cons u us ih =>
    have ih' := ih (fun v hv => h v (by simp [hv]))
    by_cases hx : u.column = x
    · rw [opsFor_cons_self u us x _ hx, allFor_cons_self u us x hx, List.filter_append, List.filter_append, ih',
        rangeOps_filter_idx u (h u (by simp) hx) i]
    · rw [opsFor_cons_other u us x _ hx, allFor_cons_other u us x hx, ih']

theorem markerOps_filter_idx (ups : List Buf) (i : Nat) (h : ∀ v ∈ ups, isMarkerBuf v = true → ChunkOK v) :
    (markerOps ups (chunkOf i)).filter (fun o => o.idx = i) = (markerAll ups).filter (fun o => o.idx = i) := by
  unfold markerOps markerAll
  cases hm : ups.find? isMarkerBuf with
  | none => rfl
  | some m => exact rangeOps_filter_idx m (h m (List.mem_of_find?_eq_some hm) (List.find?_some hm)) i

theorem allOps_chunk_mem (b : Buf) (h : ChunkOK b) : ∀ o ∈ b.allOps, chunkOf o.idx ∈ b.chunks := by
  intro o ho
  unfold Buf.allOps at ho
  obtain ⟨l, hl, hol⟩ := List.mem_flatten.1 ho
  obtain ⟨sec, hsec, rfl⟩ := List.mem_map.1 hl
  have h1 : sec ∈ b.rsecs := by simpa [Buf.secs] using hsec
  have h2 : o ∈ sec.rops := by simpa [Sec.ops] using hol
  rw [h sec h1 o h2]
  unfold Buf.chunks
  exact List.mem_map.2 ⟨sec, hsec, rfl⟩

theorem allFor_mem (ups : List Buf) (x : String) (o : Op) (ho : o ∈ allFor ups x) : ∃ v ∈ ups, v.column = x ∧ o ∈ v.allOps := by
  unfold allFor at ho
  obtain ⟨l, hl, hol⟩ := List.mem_flatten.1 ho
  obtain ⟨v, hv, rfl⟩ := List.mem_map.1 hl
  have hv' := List.mem_filter.1 hv
  exact ⟨v, hv'.1, by simpa using hv'.2, hol⟩

/-- the store `commit` starts its chunk loop with (after `commitCapacity`) -/
def capStore (s : Store) (t : Txn) : Store :=
  match t.dirtyChunks.getLast? with
  | some last => s.commitCapacity last
  | none => s

theorem capStore_findCol (s : Store) (t : Txn) (x : String) :
    (capStore s t).findCol x = s.findCol x ∨
    ∃ last, t.dirtyChunks.getLast? = some last ∧ ¬ s.commits.size ≥ last + 1 ∧
      (capStore s t).findCol x = (s.findCol x).map (fun c => c.grow (16384 * last + 16383)) := by
  unfold capStore
  cases hl : t.dirtyChunks.getLast? with
  | none => exact Or.inl rfl
  | some last =>
    simp only
    rw [commitCapacity_findCol]
    by_cases h : s.commits.size ≥ last + 1
    · rw [if_pos h]; exact Or.inl rfl
    · rw [if_neg h]; exact Or.inr ⟨last, rfl, h, rfl⟩

/-- the numeric column `x` when the chunk loop starts: same slots, every dirty chunk allocated -/
theorem capStore_num (s : Store) (t : Txn) (x : String) (k : NumKind) (col : Col)
    (hf : s.findCol x = some col) (hk : col.kind = .num k) (hw : ColWF col) (hcov : s.commits.size ≤ col.nchunks) :
    ∃ col1, (capStore s t).findCol x = some col1 ∧ col1.kind = .num k ∧ col1.merge = col.merge ∧ ColWF col1 ∧
      (∀ c ∈ t.dirtyChunks, c < col1.nchunks) ∧ ∀ i, slot col1 i = slot col i := by
  have hsorted := dirtyChunks_sorted t
  rcases capStore_findCol s t x with h | ⟨last, hl, hlt, h⟩
  · refine ⟨col, h.trans hf, hk, rfl, hw, ?_, fun i => rfl⟩
    intro c hc
    unfold capStore at h
    cases hl : t.dirtyChunks.getLast? with
    | none =>
      rw [List.getLast?_eq_none_iff] at hl
      rw [hl] at hc; cases hc
    | some last =>
      have hle := sorted_le_getLast _ hsorted last hl c hc
      by_cases hge : s.commits.size ≥ last + 1
      · omega
      · -- the column was grown, yet resolves to the same column: it already covered the chunk
        rw [hl] at h
        simp only at h
        rw [commitCapacity_findCol, if_neg hge, hf] at h
        simp only [Option.map_some, Option.some.injEq] at h
        have := (grow_num col k hk hw (16384 * last + 16383)).2.2.1
        rw [h] at this
        omega
  · obtain ⟨g1, g2, g3, g4⟩ := grow_num col k hk hw (16384 * last + 16383)
    refine ⟨col.grow (16384 * last + 16383), by rw [h, hf]; rfl, (grow_kind _ _).trans hk, grow_merge _ _, g1, ?_, g4⟩
    intro c hc
    have hle := sorted_le_getLast _ hsorted last hl c hc
    omega

theorem capStore_computed (s : Store) (t : Txn) (n : String) (c : Col) (h : (capStore s t).findCol n = some c) :
    ∃ c0, s.findCol n = some c0 ∧ c.computed = c0.computed := by
  rcases capStore_findCol s t n with e | ⟨last, _, _, e⟩
  · exact ⟨c, e ▸ h, rfl⟩
  · rw [e] at h
    cases hc0 : s.findCol n with
    | none => rw [hc0] at h; cases h
    | some c0 =>
      rw [hc0] at h
      simp only [Option.map_some, Option.some.injEq] at h
      exact ⟨c0, rfl, by rw [← h, grow_computed]⟩

/-- every op the transaction holds for `x` (or as a marker) lies in a dirty chunk -/
theorem issued_chunk_dirty (t : Txn) (x : String)
    (hinv : ∀ v ∈ t.updates, (v.column = x ∨ isMarkerBuf v = true) → ChunkOK v) :
    ∀ o ∈ markerAll t.updates ++ allFor t.updates x, chunkOf o.idx ∈ t.dirtyChunks := by
  intro o ho
  rw [mem_dirtyChunks]
  right
  rcases List.mem_append.1 ho with ho | ho
  · unfold markerAll at ho
    cases hm : t.updates.find? isMarkerBuf with
    | none => rw [hm] at ho; cases ho
    | some m =>
      rw [hm] at ho
      have hmem := List.mem_of_find?_eq_some hm
      exact ⟨m, hmem, allOps_chunk_mem m (hinv m hmem (Or.inr (List.find?_some hm))) o ho⟩
  · obtain ⟨v, hv, hvx, hov⟩ := allFor_mem t.updates x o ho
    exact ⟨v, hv, allOps_chunk_mem v (hinv v hv (Or.inl hvx)) o hov⟩

/-- **R5 (`commit_readback`)**: after `s.commit t`, every slot of the numeric column `x` is the fold, over the slot's
    previous content, of the transaction's markers addressed to that offset (a `Delete` clears the presence bit, an
    `Insert` leaves the slot alone) followed by the ops issued for `x` at that offset, in issue order — for any number of
    dirty chunks, any merge function, any other buffers in the transaction -/
theorem commit_readback (s : Store) (t : Txn) (x : String) (k : NumKind) (col : Col)
    (hxr : x ≠ rowColumn) (hf : s.findCol x = some col) (hk : col.kind = .num k) (hw : ColWF col)
    (hcov : s.commits.size ≤ col.nchunks)
    (hcomp : ∀ v ∈ t.updates, ∀ c, s.findCol v.column = some c → x ∉ c.computed)
    (hinv : ∀ v ∈ t.updates, (v.column = x ∨ isMarkerBuf v = true) → ChunkOK v) :
    ∃ col', (s.commit t).findCol x = some col' ∧ col'.kind = .num k ∧ col'.merge = col.merge ∧ ColWF col' ∧
      col.nchunks ≤ col'.nchunks ∧ (∀ c ∈ t.dirtyChunks, c < col'.nchunks) ∧
      ∀ i, slot col' i =
        ((markerAll t.updates ++ allFor t.updates x).filter (fun o => o.idx = i)).foldl
          (slotEffect col.merge k.width) (slot col i) := by
  rw [commit_eq]
  obtain ⟨col1, f1, k1, m1, w1, c1, sl1⟩ := capStore_num s t x k col hf hk hw hcov
  have hn1 : col.nchunks ≤ col1.nchunks := by
    rcases capStore_findCol s t x with e | ⟨last, _, _, e⟩
    · rw [e, hf] at f1; injection f1 with f1; subst f1; exact Nat.le_refl _
    · rw [e, hf] at f1
      simp only [Option.map_some, Option.some.injEq] at f1
      subst f1
      exact (grow_num col k hk hw _).2.1
  have hcomp1 : ∀ v ∈ t.updates, ∀ c, (capStore s t).findCol v.column = some c → x ∉ c.computed := by
    intro v hv c hc
    obtain ⟨c0, hc0, e⟩ := capStore_computed s t v.column c hc
    rw [e]; exact hcomp v hv c0 hc0
  have hco : ChunkOps x t.updates t.dirtyChunks := by
    intro v hv hor c _ o ho
    exact rangeOps_chunk v (hinv v hv hor) c o ho
  obtain ⟨col', f', sh', sl'⟩ := commitLoop_read x k hxr t.dirtyChunks (capStore s t) t.updates col1 t.markers.isSome
    (sorted_nodup _ (dirtyChunks_sorted t)) rfl f1 k1 w1 c1 hcomp1 hco
  refine ⟨col', f', sh'.kind.trans k1, sh'.merge.trans m1, ColWF.of_shape sh' w1, by rw [sh'.nchunks]; exact hn1,
    fun c hc => by rw [sh'.nchunks]; exact c1 c hc, ?_⟩
  intro i
  rw [sl' i, m1, sl1 i]
  by_cases hd : chunkOf i ∈ t.dirtyChunks
  · rw [if_pos hd, List.filter_append, List.filter_append,
      markerOps_filter_idx t.updates i (fun v hv hm => hinv v hv (Or.inr hm)),
      opsFor_filter_idx t.updates x i (fun v hv hx => hinv v hv (Or.inl hx))]
  · rw [if_neg hd]
    symm
    apply foldl_filter_none
    intro o ho e
    apply hd
    rw [← e]
    exact issued_chunk_dirty t x hinv o ho

/-! ### buffers written by `putAll` from ops of a single chunk (snapshot buffers) -/

theorem putAll_one_chunk (ops : List Op) (c v : Nat) :
    ∀ (b : Buf) (r : List Op), b.cur = some c → b.rsecs = [⟨c, v, r⟩] → (∀ o ∈ ops, chunkOf o.idx = c) →
      (b.putAll ops).rsecs = [⟨c, v, ops.reverse ++ r⟩] ∧ (b.putAll ops).cur = some c := by
  induction ops with
  | nil => intro b r hb hr _; exact ⟨by simpa [Buf.putAll] using hr, hb⟩
  | cons o os ih =>
    intro b r hb hr ho
    have hoc : chunkOf o.idx = c := ho o (by simp)
    rw [Buf.putAll_cons]
    have hput := Buf.put_eq_same b o ⟨c, v, r⟩ [] hr (by rw [hb, hoc])
    obtain ⟨i1, i2⟩ := ih (b.put o) (o :: r) (by rw [hput]; exact hb) (by rw [hput]) (fun x hx => ho x (by simp [hx]))
    exact ⟨by rw [i1]; simp, i2⟩

/-- a fresh buffer filled with ops of one chunk: a single section holding them in order -/
theorem putAll_empty_one_chunk (name : String) (ops : List Op) (c : Nat) (ho : ∀ o ∈ ops, chunkOf o.idx = c) :
    ((Buf.empty name).putAll ops).rsecs = (if ops = [] then [] else [⟨c, 0, ops.reverse⟩]) ∧
    ((Buf.empty name).putAll ops).column = name := by
  refine ⟨?_, putAll_column _ _⟩
  cases ops with
  | nil => rfl
  | cons o os =>
    rw [if_neg (by simp), Buf.putAll_cons]
    have hoc : chunkOf o.idx = c := ho o (by simp)
    have hput := Buf.put_eq_new (Buf.empty name) o (by simp [Buf.empty])
    rw [hoc] at hput
    have := (putAll_one_chunk os c 0 ((Buf.empty name).put o) [o] (by rw [hput]) (by rw [hput]; rfl)
      (fun x hx => ho x (by simp [hx]))).1
    rw [this]; simp

theorem putAll_empty_rangeOps (name : String) (ops : List Op) (c : Nat) (ho : ∀ o ∈ ops, chunkOf o.idx = c) :
    ((Buf.empty name).putAll ops).rangeOps c = ops ∧ ((Buf.empty name).putAll ops).allOps = ops ∧
    ((Buf.empty name).putAll ops).chunks = (if ops = [] then [] else [c]) ∧
    ((Buf.empty name).putAll ops).isEmpty = ops.isEmpty ∧
    (∀ c2, c2 ≠ c → ((Buf.empty name).putAll ops).rangeOps c2 = []) := by
  obtain ⟨h1, _⟩ := putAll_empty_one_chunk name ops c ho
  unfold Buf.rangeOps Buf.range Buf.allOps Buf.chunks Buf.isEmpty Buf.secs
  rw [h1]
  by_cases he : ops = []
  · subst he; simp
  · simp only [if_neg he]
    refine ⟨by simp [Sec.ops], by simp [Sec.ops], by simp, ?_, ?_⟩
    · cases ops with
      | nil => exact absurd rfl he
      | cons o os => simp
    · intro c2 hc2
      have : ¬ c = c2 := fun e => hc2 e.symm
      simp [this]

/-- ops of a snapshot of chunk `ch` address offsets of chunk `ch` -/
theorem snapList_chunk (typ ch : Nat) (p : Nat → Bool) (g : Nat → Val) :
    ∀ o ∈ snapList typ (16384 * ch) 16384 p g, chunkOf o.idx = ch := by
  intro o ho
  have := snapList_idx typ (16384 * ch) 16384 p g o ho
  unfold chunkOf chunkSize
  omega

/-- the `row` buffer `writeState` emits for a chunk: one `Insert` per occupied offset, ascending -/
def rowMarkers (s : Store) (ch : Nat) : List Op :=
  snapList opInsert (16384 * ch) 16384 (fun x => Bits.get s.fill (16384 * ch + x)) (fun _ => .fixed 0 [])

def rowBufOf (s : Store) (ch : Nat) : Buf := (Buf.empty rowColumn).putAll (rowMarkers s ch)

/-- the per-column buffers `writeState` emits for a chunk, in registry order (bitmap indexes skipped) -/
def colBufsOf (s : Store) (ch : Nat) : List Buf :=
  (s.cols.toList.filter (fun c => !c.kind.isIndex)).map (fun c => (Buf.empty c.name).putAll (c.snapshotOps ch).1)

theorem chunkState_fold (ch : Nat) (l : List Col) (acc : List Buf) (p : Bool) :
    (l.foldl (fun (acc : List Buf × Bool) c =>
      if c.kind.isIndex then acc
      else (acc.1 ++ [(Buf.empty c.name).putAll (c.snapshotOps ch).1], acc.2 || (c.snapshotOps ch).2)) (acc, p)).1 =
    acc ++ (l.filter (fun c => !c.kind.isIndex)).map (fun c => (Buf.empty c.name).putAll (c.snapshotOps ch).1) := by
  induction l generalizing acc p with
  | nil => simp
  | cons c cs ih =>
    simp only [List.foldl_cons]
    by_cases hi : c.kind.isIndex = true
    · rw [if_pos hi, ih]
      simp [hi]
    · rw [if_neg hi, ih]
      simp [hi]

theorem chunkState_buffers (s : Store) (ch : Nat) :
    (s.chunkState ch).1.buffers = rowBufOf s ch :: colBufsOf s ch := by
  have e : (s.chunkState ch).1.buffers = rowBufOf s ch ::
      (s.cols.foldl (fun (acc : List Buf × Bool) c =>
        if c.kind.isIndex then acc
        else (acc.1 ++ [(Buf.empty c.name).putAll (c.snapshotOps ch).1], acc.2 || (c.snapshotOps ch).2)) ([], false)).1 := rfl
  rw [e, ← Array.foldl_toList, chunkState_fold]
  rfl

/-- R6 (`snapshot_markers_roundtrip`, first half): the `row` buffer of a chunk's snapshot holds exactly one `Insert` per
    set fill bit of the chunk, all in one section of that chunk -/
theorem rowBuf_ops (s : Store) (ch : Nat) :
    (rowBufOf s ch).rangeOps ch = rowMarkers s ch ∧ (rowBufOf s ch).allOps = rowMarkers s ch ∧
    (rowBufOf s ch).column = rowColumn ∧ (∀ c2, c2 ≠ ch → (rowBufOf s ch).rangeOps c2 = []) := by
  obtain ⟨h1, h2, _, _, h5⟩ := putAll_empty_rangeOps rowColumn (rowMarkers s ch) ch (snapList_chunk _ _ _ _)
  exact ⟨h1, h2, putAll_column _ _, h5⟩

theorem rowMarkers_filter (s : Store) (ch i : Nat) :
    (rowMarkers s ch).filter (fun o => o.idx = i) =
      if i / 16384 = ch ∧ Bits.get s.fill i = true then [⟨opInsert, i, .fixed 0 []⟩] else [] :=
  snapList_filter_chunk opInsert ch (fun j => Bits.get s.fill j) (fun _ => .fixed 0 []) i

/-- R6 (`snapshot_markers_roundtrip`, second half): applying the markers of the chunk's `row` buffer to a fill list sets
    exactly the bits of the chunk that are set in the source; with no bit of the chunk set before, the chunk's bits are
    reproduced; the bits of the other chunks are left alone -/
theorem rowMarkers_fill (s : Store) (ch : Nat) (f0 : Bitmap) (j : Nat) :
    Bits.get ((rowMarkers s ch).foldl fillStep f0) j =
      if j / 16384 = ch ∧ Bits.get s.fill j = true then true else Bits.get f0 j := by
  rw [foldFill_get, rowMarkers_filter]
  split
  · simp [flagEffect]
  · rfl

/-! ### buffer names are pairwise distinct (`bufferFor`) -/

/-- the buffers of a transaction carry pairwise distinct column names -/
def BufsDistinct (ups : List Buf) : Prop := (ups.map (·.column)).Nodup

instance (ups : List Buf) : Decidable (BufsDistinct ups) := by unfold BufsDistinct; exact inferInstance

theorem bufferFor_distinct (t : Txn) (name : String) (h : BufsDistinct t.updates) :
    BufsDistinct (t.bufferFor name).updates := by
  unfold Txn.bufferFor
  split
  · exact h
  · rename_i hany
    unfold BufsDistinct at *
    simp only [List.map_append, List.map_cons, List.map_nil]
    rw [List.nodup_append]
    refine ⟨h, by simp, ?_⟩
    intro a ha b hb
    simp only [List.mem_singleton] at hb
    subst hb
    intro e
    subst e
    apply hany
    obtain ⟨u, hu, hun⟩ := List.mem_map.1 ha
    exact List.any_eq_true.2 ⟨u, hu, by simpa [Buf.empty] using hun⟩

theorem putOp_columns (t : Txn) (name : String) (o : Op) :
    (t.putOp name o).updates.map (·.column) = (t.bufferFor name).updates.map (·.column) := by
  unfold Txn.putOp
  simp only [List.map_map]
  apply List.map_congr_left
  intro b _
  simp only [Function.comp_apply]
  split
  · exact Buf.column_put b o
  · rfl

theorem putOp_distinct (t : Txn) (name : String) (o : Op) (h : BufsDistinct t.updates) :
    BufsDistinct (t.putOp name o).updates := by
  unfold BufsDistinct
  rw [putOp_columns]
  exact bufferFor_distinct t name h

theorem allFor_none (ups : List Buf) (x : String) (h : ∀ v ∈ ups, v.column ≠ x) : allFor ups x = [] := by
  induction ups with
  | nil => rfl
  | cons u us ih =>
    rw [allFor_cons_other u us x (h u (by simp))]
    exact ih (fun v hv => h v (by simp [hv]))

/-- with distinct names, the ops issued for `x` are those of its one buffer -/
theorem allFor_of_distinct (ups : List Buf) (h : BufsDistinct ups) (u : Buf) (hu : u ∈ ups) :
    allFor ups u.column = u.allOps := by
  induction ups with
  | nil => cases hu
  | cons v vs ih =>
    unfold BufsDistinct at h
    simp only [List.map_cons, List.nodup_cons] at h
    rcases List.mem_cons.1 hu with rfl | hu
    · rw [allFor_cons_self u vs u.column rfl, allFor_none vs u.column, List.append_nil]
      intro w hw e
      exact h.1 (List.mem_map.2 ⟨w, hw, e⟩)
    · have hne : v.column ≠ u.column := by
        intro e
        exact h.1 (List.mem_map.2 ⟨u, hu, e.symm⟩)
      rw [allFor_cons_other v vs u.column hne]
      exact ih h.2 hu

theorem isEmpty_allOps (u : Buf) (h : u.isEmpty = true) : u.allOps = [] := by
  unfold Buf.allOps
  rw [List.flatten_eq_nil_iff]
  intro l hl
  obtain ⟨sec, hsec, rfl⟩ := List.mem_map.1 hl
  have hmem : sec ∈ u.rsecs := by simpa [Buf.secs] using hsec
  unfold Buf.isEmpty at h
  have := List.all_eq_true.1 h sec hmem
  unfold Sec.ops
  have h2 : sec.rops = [] := by simpa using this
  rw [h2]; rfl

/-- with distinct names, the markers are the ops of the `row` buffer -/
theorem markerAll_of_distinct (ups : List Buf) (h : BufsDistinct ups) : markerAll ups = allFor ups rowColumn := by
  induction ups with
  | nil => rfl
  | cons v vs ih =>
    unfold BufsDistinct at h
    simp only [List.map_cons, List.nodup_cons] at h
    by_cases hr : v.column = rowColumn
    · have hnone : ∀ w ∈ vs, w.column ≠ rowColumn := by
        intro w hw e
        exact h.1 (List.mem_map.2 ⟨w, hw, e.trans hr.symm⟩)
      rw [allFor_cons_self v vs rowColumn hr, allFor_none vs rowColumn hnone, List.append_nil]
      unfold markerAll
      by_cases he : v.isEmpty = true
      · have hm : isMarkerBuf v = false := by unfold isMarkerBuf; simp [he]
        rw [List.find?_cons, hm, isEmpty_allOps v he]
        have : vs.find? isMarkerBuf = none := by
          rw [List.find?_eq_none]
          intro w hw
          unfold isMarkerBuf
          have : (w.column == rowColumn) = false := by simpa using hnone w hw
          simp [this]
        rw [this]
      · have hm : isMarkerBuf v = true := by unfold isMarkerBuf; simp [he, hr]
        rw [List.find?_cons, hm]
    · have hm : isMarkerBuf v = false := by
        unfold isMarkerBuf
        have : (v.column == rowColumn) = false := by simpa using hr
        simp [this]
      rw [allFor_cons_other v vs rowColumn hr, ← ih h.2]
      unfold markerAll
      rw [List.find?_cons, hm]

/-! ## the panic flag: `Covered` stores never panic during a commit -/

/-- a column has what the passes of `chunk` index into: data columns the chunk, bool columns the chunk's bits -/
def ColCovers (chunk : Nat) (c : Col) : Prop :=
  (c.kind.isData = true → chunk < c.nchunks) ∧ (c.kind = .bool → 16384 * (chunk + 1) ≤ c.bits.size)

/-- `commitCapacity` + the `CreateColumn` repair: every registry column covers `chunk` -/
def Covered (s : Store) (chunk : Nat) : Prop := ∀ c ∈ s.cols, ColCovers chunk c

/-- what every `Apply` keeps of a column: its signature and, for a bool column, the length of its bitmap -/
structure ColKeeps (c c' : Col) : Prop where
  sig : SameSig c c'
  bsize : c.kind = .bool → c'.bits.size = c.bits.size

theorem ColKeeps.refl (c : Col) : ColKeeps c c := ⟨SameSig.refl c, fun _ => rfl⟩

theorem ColKeeps.trans {a b c : Col} (h1 : ColKeeps a b) (h2 : ColKeeps b c) : ColKeeps a c :=
  ⟨SameSig.trans h1.sig h2.sig, fun hk => (h2.bsize (h1.sig.kind.trans hk)).trans (h1.bsize hk)⟩

theorem ColKeeps.covers {c c' : Col} (h : ColKeeps c c') (chunk : Nat) (hc : ColCovers chunk c) : ColCovers chunk c' := by
  refine ⟨?_, ?_⟩
  · intro hd
    rw [h.sig.nchunks]
    exact hc.1 (by rw [← h.sig.kind]; exact hd)
  · intro hk
    have hk' : c.kind = .bool := h.sig.kind.symm.trans hk
    rw [h.bsize hk']
    exact hc.2 hk'

theorem SameShape.keeps {c c' : Col} (h : SameShape c c') : ColKeeps c c' := ⟨h.sig, fun _ => h.bsize⟩

theorem boolStep_size (acc : Col × Bool) (o : Op) : (boolStep acc o).1.bits.size = acc.1.bits.size := by
  unfold boolStep
  split
  · split
    · simp
    · rfl
  · split
    · split
      · simp
      · rfl
    · rfl

theorem applyAny_keeps (hash : Bytes → Nat) (c : Col) (chunk : Nat) (ops : List Op) :
    ColKeeps c (c.applyAny hash chunk ops).1 := by
  refine ⟨applyAny_sig hash c chunk ops, ?_⟩
  intro hk
  have hd : ¬ c.kind.isData = true := by rw [hk]; decide
  unfold Col.applyAny
  rw [if_neg hd, applyOther_bool c hk]
  exact foldl_invariant (fun (acc : Col × Bool) => acc.1.bits.size = c.bits.size) _ ops (c, false) rfl
    (fun b a _ hb => (boolStep_size b a).trans hb)

/-- a column that covers the chunk does not panic on ops of that chunk -/
theorem applyAny_no_panic (hash : Bytes → Nat) (c : Col) (chunk : Nat) (ops : List Op) (hc : ColCovers chunk c)
    (hops : ∀ o ∈ ops, chunkOf o.idx = chunk) : (c.applyAny hash chunk ops).2 = false := by
  unfold Col.applyAny
  by_cases hd : c.kind.isData = true
  · rw [if_pos hd]
    simp only
    rw [applyData_panic]
    have := hc.1 hd
    simp only [decide_eq_false_iff_not]
    omega
  · rw [if_neg hd]
    cases hk : c.kind with
    | bool =>
      rw [applyOther_bool c hk]
      have hsz := hc.2 hk
      have hin : ∀ o ∈ ops, o.idx < (c, false).1.bits.size := by
        intro o ho
        have := hops o ho
        unfold chunkOf chunkSize at this
        simp only
        omega
      exact (foldBool_get ops (c, false) hin 0).2.1
    | index t r => unfold applyOther; rw [hk]
    | trigger t => unfold applyOther; rw [hk]
    | sorted t => unfold applyOther; rw [hk]
    | num k => rw [hk] at hd; exact absurd rfl hd
    | str => rw [hk] at hd; exact absurd rfl hd
    | enum => rw [hk] at hd; exact absurd rfl hd
    | key => rw [hk] at hd; exact absurd rfl hd
    | record => rw [hk] at hd; exact absurd rfl hd

/-- index, trigger and sorted-index columns never panic -/
theorem applyAny_computed_no_panic (hash : Bytes → Nat) (c : Col) (chunk : Nat) (ops : List Op)
    (hk : c.kind.isComputed = true) : (c.applyAny hash chunk ops).2 = false := by
  have hd : ¬ c.kind.isData = true := by
    cases hkk : c.kind <;> rw [hkk] at hk <;> first | (simp [Kind.isData]; done) | cases hk
  unfold Col.applyAny
  rw [if_neg hd]
  cases hkk : c.kind with
  | index t r => unfold applyOther; rw [hkk]
  | trigger t => unfold applyOther; rw [hkk]
  | sorted t => unfold applyOther; rw [hkk]
  | bool => rw [hkk] at hk; cases hk
  | num k => rw [hkk] at hk; cases hk
  | str => rw [hkk] at hk; cases hk
  | enum => rw [hkk] at hk; cases hk
  | key => rw [hkk] at hk; cases hk
  | record => rw [hkk] at hk; cases hk

theorem markCol_keeps (hash : Bytes → Nat) (chunk : Nat) (secs : List (List Op)) (c : Col) :
    ColKeeps c (markCol hash chunk secs c) := by
  unfold markCol
  apply foldl_invariant (fun c' => ColKeeps c c') _ _ c (ColKeeps.refl c)
  intro b ops _ hb
  exact ColKeeps.trans hb (applyAny_keeps hash b chunk ops)

theorem markPanic_false (hash : Bytes → Nat) (chunk : Nat) (secs : List (List Op)) (cols : Array Col)
    (hc : ∀ c ∈ cols, ColCovers chunk c) (hops : ∀ ops ∈ secs, ∀ o ∈ ops, chunkOf o.idx = chunk) :
    markPanic hash chunk secs cols = false := by
  induction secs generalizing cols with
  | nil => rfl
  | cons ops rest ih =>
    unfold markPanic
    have h1 : cols.any (fun c => (c.applyAny hash chunk ops).2) = false := by
      rw [Array.any_eq_false]
      intro i hi
      rw [applyAny_no_panic hash cols[i] chunk ops (hc _ (by simp)) (hops ops (by simp))]
      decide
    rw [h1, Bool.false_or]
    apply ih
    · intro c' hc'
      obtain ⟨c, hcm, rfl⟩ := Array.mem_map.1 hc'
      exact (applyAny_keeps hash c chunk ops).covers chunk (hc c hcm)
    · intro ops' ho'
      exact hops ops' (by simp [ho'])

/-- R4 (panic flag): under `Covered`, the markers of a well-formed `row` buffer raise no panic -/
theorem commitMarkers_no_panic (s : Store) (chunk : Nat) (m : Buf) (hcov : Covered s chunk)
    (hm : ∀ o ∈ m.rangeOps chunk, chunkOf o.idx = chunk) : (s.commitMarkers chunk m).panicked = s.panicked := by
  rw [(commitMarkers_cols s chunk m).2, markPanic_false s.hash chunk (m.range chunk) s.cols hcov, Bool.or_false]
  intro ops hops o ho
  exact hm o (List.mem_flatten.2 ⟨ops, hops, ho⟩)

/-! ### predicates on every registry column that all passes keep -/

def AllCols (P : Col → Prop) (s : Store) : Prop := ∀ c ∈ s.cols, P c

/-- `P` survives every `Apply` -/
def Stable (P : Col → Prop) : Prop := ∀ c c', ColKeeps c c' → P c → P c'

theorem setCol_allCols (P : Col → Prop) (s : Store) (c' : Col) (h : AllCols P s) (hc : P c') : AllCols P (s.setCol c') := by
  unfold Store.setCol
  split
  · intro c hcm
    simp only at hcm
    rcases Array.mem_or_eq_of_mem_setIfInBounds hcm with h1 | h1
    · exact h c h1
    · rw [h1]; exact hc
  · exact h

theorem applyNamed_allCols (P : Col → Prop) (hP : Stable P) (chunk : Nat) (ops : List Op) (s : Store) (n : String)
    (h : AllCols P s) : AllCols P (applyNamed chunk ops s n) := by
  unfold applyNamed
  cases hf : s.findCol n with
  | none => exact h
  | some c =>
    simp only
    have : AllCols P (s.setCol (c.applyAny s.hash chunk ops).1) :=
      setCol_allCols P s _ h (hP c _ (applyAny_keeps s.hash c chunk ops) (h c (findCol_mem hf)))
    exact this

theorem computedPass_allCols (P : Col → Prop) (hP : Stable P) (s : Store) (names : List String) (chunk : Nat) (u : Buf)
    (h : AllCols P s) : AllCols P (computedPass s names chunk u) := by
  rw [computedPass_eq]
  apply foldl_invariant (fun s' => AllCols P s') _ _ s h
  intro s1 ops _ h1
  apply foldl_invariant (fun s' => AllCols P s') _ _ s1 h1
  intro s2 n _ h2
  exact applyNamed_allCols P hP chunk ops s2 n h2

theorem otherMain_allCols (P : Col → Prop) (hP : Stable P) (s : Store) (chunk : Nat) (u : Buf)
    (h : AllCols P s) : AllCols P (otherMain s chunk u) := by
  unfold otherMain
  apply foldl_invariant (fun s' => AllCols P s') _ _ s h
  intro s1 ops _ h1
  exact applyNamed_allCols P hP chunk ops s1 u.column h1

theorem cuStep_allCols (P : Col → Prop) (hP : Stable P) (chunk : Nat) (s : Store) (done : List Buf) (b : Bool) (u : Buf)
    (h : AllCols P s) : AllCols P (cuStep chunk (s, done, b) u).1 := by
  unfold cuStep
  simp only
  split
  · exact h
  · split
    · exact h
    · rename_i col hf
      split
      · apply computedPass_allCols P hP
        have : AllCols P (s.setCol (mainPass s.hash col chunk u).1) :=
          setCol_allCols P s _ h (hP col _ (mainPass_general s.hash col chunk u).1.keeps (h col (findCol_mem hf)))
        exact this
      · exact computedPass_allCols P hP _ _ _ _ (otherMain_allCols P hP s chunk u h)

theorem cuFold_allCols (P : Col → Prop) (hP : Stable P) (chunk : Nat) (ups : List Buf) (s : Store) (done : List Buf) (b : Bool)
    (h : AllCols P s) : AllCols P (ups.foldl (cuStep chunk) (s, done, b)).1 := by
  induction ups generalizing s done b with
  | nil => exact h
  | cons u us ih =>
    simp only [List.foldl_cons]
    have h1 := cuStep_allCols P hP chunk s done b u h
    generalize cuStep chunk (s, done, b) u = r at h1
    obtain ⟨r1, r2, r3⟩ := r
    exact ih r1 r2 r3 h1

theorem commitMarkers_allCols (P : Col → Prop) (hP : Stable P) (s : Store) (chunk : Nat) (m : Buf) (h : AllCols P s) :
    AllCols P (s.commitMarkers chunk m) := by
  intro c' hc'
  rw [(commitMarkers_cols s chunk m).1] at hc'
  obtain ⟨c, hcm, rfl⟩ := Array.mem_map.1 hc'
  exact hP c _ (markCol_keeps s.hash chunk _ c) (h c hcm)

theorem covers_stable (cs : List Nat) : Stable (fun col => ∀ c ∈ cs, ColCovers c col) :=
  fun _ _ hk h c hc => hk.covers c (h c hc)

/-- the computed columns attached to any column are bitmap indexes, triggers or sorted indexes (what `createComputed`
    registers) -/
def ComputedKinds (s : Store) : Prop :=
  ∀ n c, s.findCol n = some c → ∀ m ∈ c.computed, ∀ c', s.findCol m = some c' → c'.kind.isComputed = true

theorem ComputedKinds.of_regSim {s s' : Store} (h : RegSim s s') (hk : ComputedKinds s) : ComputedKinds s' := by
  intro n c hc m hm c' hc'
  obtain ⟨c0, h0, sg⟩ := h.sig_back hc
  obtain ⟨c0', h0', sg'⟩ := h.sig_back hc'
  rw [sg'.kind]
  exact hk n c0 h0 m (by rw [← sg.computed]; exact hm) c0' h0'

theorem applyNamed_panicked (chunk : Nat) (ops : List Op) (s : Store) (n : String)
    (h : ∀ c, s.findCol n = some c → (c.applyAny s.hash chunk ops).2 = false) :
    (applyNamed chunk ops s n).panicked = s.panicked := by
  unfold applyNamed
  cases hf : s.findCol n with
  | none => rfl
  | some c =>
    simp only
    rw [h c hf, Bool.or_false]

theorem computedPass_panicked (s : Store) (names : List String) (chunk : Nat) (u : Buf)
    (h : ∀ n ∈ names, ∀ c, s.findCol n = some c → c.kind.isComputed = true) :
    (computedPass s names chunk u).panicked = s.panicked := by
  rw [computedPass_eq]
  have := foldl_invariant (fun s' => Sim s s' ∧ s'.panicked = s.panicked)
    (fun s ops => names.foldl (applyNamed chunk ops) s) (u.range chunk) s ⟨Sim.refl s, rfl⟩ (by
      intro s1 ops _ h1
      apply foldl_invariant (fun s' => Sim s s' ∧ s'.panicked = s.panicked) _ _ s1 h1
      intro s2 n hn h2
      refine ⟨Sim.trans h2.1 (applyNamed_sim chunk ops s2 n), ?_⟩
      rw [applyNamed_panicked chunk ops s2 n, h2.2]
      intro c hc
      obtain ⟨c0, hc0, sg⟩ := h2.1.sig_back hc
      exact applyAny_computed_no_panic _ c chunk ops (by rw [sg.kind]; exact h n hn c0 hc0))
  exact this.2

theorem mainPass_no_panic (hash : Bytes → Nat) (col : Col) (chunk : Nat) (u : Buf) (hch : chunk < col.nchunks) :
    (mainPass hash col chunk u).2.2 = false := by
  rw [mainPass_eq]
  have := foldl_invariant (fun (acc : Col × Buf × Bool) => SameShape col acc.1 ∧ acc.2.2 = false) (mpStep hash chunk)
    (List.range u.rsecs.length) (col, u, false) ⟨SameShape.refl col, rfl⟩ (by
      intro acc i _ h
      obtain ⟨h1, h2⟩ := h
      unfold mpStep
      split
      · exact ⟨h1, h2⟩
      · split
        · exact ⟨h1, h2⟩
        · refine ⟨SameShape.trans h1 (applyData_sameShape _ _ _ _), ?_⟩
          simp only
          rw [h2, applyData_panic, h1.nchunks]
          simp only [Bool.false_or, decide_eq_false_iff_not]
          omega)
  exact this.2

theorem otherMain_panicked (s : Store) (chunk : Nat) (u : Buf) (hcov : AllCols (ColCovers chunk) s)
    (hops : ∀ o ∈ u.rangeOps chunk, chunkOf o.idx = chunk) : (otherMain s chunk u).panicked = s.panicked := by
  unfold otherMain
  have := foldl_invariant (fun s' => AllCols (ColCovers chunk) s' ∧ s'.panicked = s.panicked)
    (fun s ops => applyNamed chunk ops s u.column) (u.range chunk) s ⟨hcov, rfl⟩ (by
      intro s1 ops hops1 h1
      refine ⟨applyNamed_allCols _ (fun c c' hk hc => hk.covers chunk hc) chunk ops s1 u.column h1.1, ?_⟩
      rw [applyNamed_panicked chunk ops s1 u.column, h1.2]
      intro c hc
      exact applyAny_no_panic _ c chunk ops (h1.1 c (findCol_mem hc))
        (fun o ho => hops o (List.mem_flatten.2 ⟨ops, hops1, ho⟩)))
  exact this.2

/-- one round of `commitUpdates` raises no panic -/
theorem cuStep_panicked (chunk : Nat) (s : Store) (done : List Buf) (b : Bool) (u : Buf)
    (hcov : AllCols (ColCovers chunk) s) (hck : ComputedKinds s)
    (hnd : ∀ c, s.findCol u.column = some c → c.kind.isData = false → ∀ o ∈ u.rangeOps chunk, chunkOf o.idx = chunk) :
    (cuStep chunk (s, done, b) u).1.panicked = s.panicked := by
  unfold cuStep
  simp only
  split
  · rfl
  · split
    · rfl
    · rename_i col hf
      split
      · rename_i hd
        have hch : chunk < col.nchunks := (hcov col (findCol_mem hf)).1 hd
        have hsim := setCol_sim s col (mainPass s.hash col chunk u).1 u.column hf
          (mainPass_general s.hash col chunk u).1.sig (s.panicked || (mainPass s.hash col chunk u).2.2)
        rw [computedPass_panicked]
        · simp only
          rw [mainPass_no_panic s.hash col chunk u hch, Bool.or_false]
        · intro n hn c hc
          obtain ⟨c0, hc0, sg⟩ := hsim.sig_back hc
          rw [sg.kind]
          exact hck u.column col hf n hn c0 hc0
      · rename_i hd
        have hd' : col.kind.isData = false := by simpa using hd
        have hsim := otherMain_sim s chunk u
        rw [computedPass_panicked, otherMain_panicked s chunk u hcov (hnd col hf hd')]
        intro n hn c hc
        obtain ⟨c0, hc0, sg⟩ := hsim.sig_back hc
        rw [sg.kind]
        exact hck u.column col hf n hn c0 hc0

theorem cuFold_panicked (chunk : Nat) (ups : List Buf) :
    ∀ (s : Store) (done : List Buf) (b : Bool), AllCols (ColCovers chunk) s → ComputedKinds s →
      (∀ v ∈ ups, ∀ c, s.findCol v.column = some c → c.kind.isData = false →
        ∀ o ∈ v.rangeOps chunk, chunkOf o.idx = chunk) →
      (ups.foldl (cuStep chunk) (s, done, b)).1.panicked = s.panicked := by
  induction ups with
  | nil => intro s done b _ _ _; rfl
  | cons u us ih =>
    intro s done b hcov hck hnd
    simp only [List.foldl_cons]
    have h1 := cuStep_panicked chunk s done b u hcov hck (hnd u (by simp))
    have h2 := cuStep_allCols _ (fun c c' hk hc => hk.covers chunk hc) chunk s done b u hcov
    have h3 := cuStep_sim chunk s done b u
    generalize cuStep chunk (s, done, b) u = r at h1 h2 h3
    obtain ⟨r1, r2, r3⟩ := r
    rw [ih r1 r2 r3 h2 (ComputedKinds.of_regSim h3.reg hck), h1]
    intro v hv c hc hd o ho
    obtain ⟨c0, hc0, sg⟩ := h3.sig_back hc
    exact hnd v (by simp [hv]) c0 hc0 (by rw [← sg.kind]; exact hd) o ho

/-- how a buffer relates to its rewritten version after one chunk pass (for any store): same name; `row` buffers and
    buffers of non-data columns are not rewritten -/
def BufRelP (s : Store) (u u' : Buf) : Prop :=
  u'.column = u.column ∧ (u.column = rowColumn → u' = u) ∧
  (∀ c, s.findCol u.column = some c → c.kind.isData = false → u' = u)

theorem BufRelP.refl (s : Store) (u : Buf) : BufRelP s u u := ⟨rfl, fun _ => rfl, fun _ _ _ => rfl⟩

theorem cuStep_relP (chunk : Nat) (s0 s : Store) (done : List Buf) (b : Bool) (u : Buf) (hs : RegSim s0 s) :
    ∃ u', (cuStep chunk (s, done, b) u).2.1 = done ++ [u'] ∧ BufRelP s0 u u' := by
  unfold cuStep
  simp only
  by_cases hskip : (u.isEmpty || u.column == rowColumn) = true
  · rw [if_pos hskip]
    exact ⟨u, rfl, BufRelP.refl s0 u⟩
  · rw [if_neg hskip]
    have hnr : u.column ≠ rowColumn := by
      intro e; apply hskip; simp [e]
    cases hf : s.findCol u.column with
    | none => exact ⟨u, rfl, BufRelP.refl s0 u⟩
    | some col =>
      simp only
      by_cases hd : col.kind.isData = true
      · rw [if_pos hd]
        refine ⟨_, rfl, (mainPass_general s.hash col chunk u).2, fun e => absurd e hnr, ?_⟩
        intro c hc hcd
        obtain ⟨c', hc', sg⟩ := hs.sig u.column c hc
        rw [hf] at hc'
        injection hc' with hc'
        subst hc'
        rw [sg.kind, hcd] at hd
        cases hd
      · rw [if_neg hd]
        exact ⟨u, rfl, BufRelP.refl s0 u⟩

theorem cuFold_relP (chunk : Nat) (s0 : Store) (ups : List Buf) (s : Store) (done : List Buf) (b : Bool)
    (hs : RegSim s0 s) :
    ∃ ups', (ups.foldl (cuStep chunk) (s, done, b)).2.1 = done ++ ups' ∧ Rel2 (BufRelP s0) ups ups' := by
  induction ups generalizing s done b with
  | nil => exact ⟨[], by simp, Rel2.nil⟩
  | cons u us ih =>
    simp only [List.foldl_cons]
    obtain ⟨u', h2, h3⟩ := cuStep_relP chunk s0 s done b u hs
    have h1 := RegSim.trans hs (cuStep_sim chunk s done b u).reg
    generalize hr : cuStep chunk (s, done, b) u = r at h1 h2
    obtain ⟨r1, r2, r3⟩ := r
    simp only at h1 h2
    obtain ⟨us', i2, i3⟩ := ih r1 r2 r3 h1
    refine ⟨u' :: us', ?_, Rel2.cons h3 i3⟩
    rw [i2, h2]; simp

theorem cuFold_sim (chunk : Nat) (ups : List Buf) (s : Store) (done : List Buf) (b : Bool) :
    Sim s (ups.foldl (cuStep chunk) (s, done, b)).1 := by
  induction ups generalizing s done b with
  | nil => exact Sim.refl s
  | cons u us ih =>
    simp only [List.foldl_cons]
    have h1 := cuStep_sim chunk s done b u
    generalize cuStep chunk (s, done, b) u = r at h1
    obtain ⟨r1, r2, r3⟩ := r
    exact Sim.trans h1 (ih r1 r2 r3)

theorem Rel2.columnsP {s : Store} {ups ups' : List Buf} (h : Rel2 (BufRelP s) ups ups') :
    ∀ v' ∈ ups', ∃ v ∈ ups, BufRelP s v v' := by
  induction h with
  | nil => intro v' hv'; cases hv'
  | cons hab _ ih =>
    intro v' hv'
    rcases List.mem_cons.1 hv' with rfl | hv'
    · exact ⟨_, by simp, hab⟩
    · obtain ⟨v, hv, hr⟩ := ih v' hv'
      exact ⟨v, by simp [hv], hr⟩

theorem Rel2.find_markerP {s : Store} {ups ups' : List Buf} (h : Rel2 (BufRelP s) ups ups') :
    ups'.find? isMarkerBuf = ups.find? isMarkerBuf := by
  induction h with
  | nil => rfl
  | @cons a b as bs hab _ ih =>
    obtain ⟨h1, h2, _⟩ := hab
    by_cases hr : a.column = rowColumn
    · have := h2 hr
      subst this
      rw [List.find?_cons, List.find?_cons, ih]
    · have ha : isMarkerBuf a = false := by
        unfold isMarkerBuf
        have : (a.column == rowColumn) = false := by simpa using hr
        rw [this]; simp
      have hb : isMarkerBuf b = false := by
        unfold isMarkerBuf
        have : (b.column == rowColumn) = false := by rw [h1]; simpa using hr
        rw [this]; simp
      rw [List.find?_cons, List.find?_cons, ha, hb, ih]

theorem markStore_allCols (P : Col → Prop) (hP : Stable P) (s : Store) (chunk : Nat) (cr : Bool) (ups : List Buf)
    (h : AllCols P s) : AllCols P (markStore s chunk cr ups) := by
  have hp : AllCols P (preStore s chunk) := h
  unfold markStore
  split
  · split
    · exact commitMarkers_allCols P hP _ chunk _ hp
    · exact hp
  · exact hp

theorem markStore_panicked (s : Store) (chunk : Nat) (cr : Bool) (ups : List Buf) (hlt : chunk < s.commits.size)
    (hcov : AllCols (ColCovers chunk) s)
    (hm : ∀ m, ups.find? isMarkerBuf = some m → ∀ o ∈ m.rangeOps chunk, chunkOf o.idx = chunk) :
    (markStore s chunk cr ups).panicked = s.panicked := by
  have hp : (preStore s chunk).panicked = s.panicked := by
    unfold preStore
    simp only
    have : decide (chunk ≥ s.commits.size) = false := by simp only [decide_eq_false_iff_not]; omega
    rw [this, Bool.or_false]
  unfold markStore
  split
  · split
    · rename_i m hfm
      rw [commitMarkers_no_panic (preStore s chunk) chunk m hcov (hm m hfm), hp]
    · exact hp
  · exact hp

theorem markStore_commits_size (s : Store) (chunk : Nat) (cr : Bool) (ups : List Buf) :
    (markStore s chunk cr ups).commits.size = s.commits.size := by
  have hp : (preStore s chunk).commits.size = s.commits.size := by unfold preStore; simp
  unfold markStore
  split
  · split
    · rw [(commitMarkers_rest _ _ _).2.1, hp]
    · exact hp
  · exact hp

theorem markStore_fill (s : Store) (chunk : Nat) (ups : List Buf) :
    (markStore s chunk (ups.find? isMarkerBuf).isSome ups).fill = (markerOps ups chunk).foldl fillStep s.fill := by
  unfold markStore markerOps
  cases hm : ups.find? isMarkerBuf with
  | none => rfl
  | some m =>
    simp only [Option.isSome_some, if_true]
    rw [commitMarkers_fill]
    rfl

/-- what one chunk pass keeps, for any store and any buffers -/
theorem commitChunk_gen (s : Store) (chunk : Nat) (cr : Bool) (ups : List Buf) :
    RegSim s (s.commitChunk chunk cr ups).1 ∧ Rel2 (BufRelP s) ups (s.commitChunk chunk cr ups).2 ∧
    (s.commitChunk chunk cr ups).1.commits.size = s.commits.size ∧
    (∀ P, Stable P → AllCols P s → AllCols P (s.commitChunk chunk cr ups).1) ∧
    (s.commitChunk chunk cr ups).1.fill = (markStore s chunk cr ups).fill := by
  rw [commitChunk_def]
  obtain ⟨f1, f2, f3, _, f5, _⟩ := finishChunk_fields (s.nextId + 1) chunk cr
    ((markStore s chunk cr ups).commitUpdates chunk ups)
  have hreg := markStore_regSim s chunk cr ups
  have hsim := cuFold_sim chunk ups (markStore s chunk cr ups) [] false
  obtain ⟨ups', hu1, hu2⟩ := cuFold_relP chunk s ups (markStore s chunk cr ups) [] false hreg
  rw [← commitUpdates_eq] at hsim hu1
  refine ⟨RegSim.trans hreg (RegSim.trans hsim.reg (RegSim.of_cols f2)), ?_, ?_, ?_, ?_⟩
  · rw [f1, hu1]; simpa using hu2
  · rw [f5, hsim.commits, markStore_commits_size]
  · intro P hP h c hc
    rw [f2] at hc
    have := cuFold_allCols P hP chunk ups (markStore s chunk cr ups) [] false (markStore_allCols P hP s chunk cr ups h)
    rw [← commitUpdates_eq] at this
    exact this c hc
  · rw [f3, hsim.fill]

/-- one chunk pass raises no panic when the chunk is committed-to, every column covers it, computed columns are computed
    kinds, and the `row` buffer and the buffers of non-data columns hold ops of the chunk in the chunk's sections -/
theorem commitChunk_panicked (s : Store) (chunk : Nat) (cr : Bool) (ups : List Buf) (hlt : chunk < s.commits.size)
    (hcov : AllCols (ColCovers chunk) s) (hck : ComputedKinds s)
    (hm : ∀ m, ups.find? isMarkerBuf = some m → ∀ o ∈ m.rangeOps chunk, chunkOf o.idx = chunk)
    (hnd : ∀ v ∈ ups, ∀ c, s.findCol v.column = some c → c.kind.isData = false →
      ∀ o ∈ v.rangeOps chunk, chunkOf o.idx = chunk) :
    (s.commitChunk chunk cr ups).1.panicked = s.panicked := by
  rw [commitChunk_def]
  obtain ⟨_, _, _, f4, _⟩ := finishChunk_fields (s.nextId + 1) chunk cr
    ((markStore s chunk cr ups).commitUpdates chunk ups)
  have hreg := markStore_regSim s chunk cr ups
  rw [f4, commitUpdates_eq, cuFold_panicked chunk ups (markStore s chunk cr ups) [] false
    (markStore_allCols _ (fun c c' hk hc => hk.covers chunk hc) s chunk cr ups hcov)
    (ComputedKinds.of_regSim hreg hck), markStore_panicked s chunk cr ups hlt hcov hm]
  intro v hv c hc hd o ho
  obtain ⟨c0, hc0, sg⟩ := hreg.sig_back hc
  exact hnd v hv c0 hc0 (by rw [← sg.kind]; exact hd) o ho

/-- R5 (panic flag), chunk loop -/
theorem commitLoop_panicked (cr : Bool) (cs : List Nat) :
    ∀ (s : Store) (ups : List Buf), (∀ c ∈ cs, c < s.commits.size) → AllCols (fun col => ∀ c ∈ cs, ColCovers c col) s →
      ComputedKinds s →
      (∀ m, ups.find? isMarkerBuf = some m → ∀ c ∈ cs, ∀ o ∈ m.rangeOps c, chunkOf o.idx = c) →
      (∀ v ∈ ups, ∀ c0, s.findCol v.column = some c0 → c0.kind.isData = false →
        ∀ c ∈ cs, ∀ o ∈ v.rangeOps c, chunkOf o.idx = c) →
      (commitLoop cr cs s ups).1.panicked = s.panicked := by
  induction cs with
  | nil => intro s ups _ _ _ _ _; rfl
  | cons c cs ih =>
    intro s ups hlt hcov hck hm hnd
    unfold commitLoop
    simp only [List.foldl_cons]
    have hp := commitChunk_panicked s c cr ups (hlt c (by simp)) (fun col hcol => hcov col hcol c (by simp)) hck
      (fun m hfm => hm m hfm c (by simp)) (fun v hv c0 hc0 hd => hnd v hv c0 hc0 hd c (by simp))
    obtain ⟨hreg, hrel, hsz, hall, _⟩ := commitChunk_gen s c cr ups
    generalize s.commitChunk c cr ups = r at hp hreg hrel hsz hall
    obtain ⟨s1, ups1⟩ := r
    simp only at hp hreg hrel hsz hall
    have := ih s1 ups1 (fun c' hc' => by rw [hsz]; exact hlt c' (by simp [hc']))
      (fun col hcol c' hc' => hall (fun col => ∀ c2 ∈ c :: cs, ColCovers c2 col) (covers_stable (c :: cs)) hcov col hcol c'
        (by simp [hc']))
      (ComputedKinds.of_regSim hreg hck)
      (fun m hfm c' hc' => hm m (hrel.find_markerP ▸ hfm) c' (by simp [hc']))
      (by
        intro v' hv' c0 hc0 hd c' hc' o ho
        obtain ⟨v, hv, hb⟩ := hrel.columnsP v' hv'
        rw [hb.1] at hc0
        obtain ⟨c00, hc00, sg⟩ := hreg.sig_back hc0
        have hd0 : c00.kind.isData = false := by rw [← sg.kind]; exact hd
        have : v' = v := hb.2.2 c00 hc00 hd0
        subst this
        exact hnd v' hv c00 hc00 hd0 c' (by simp [hc']) o ho)
    unfold commitLoop at this
    rw [this, hp]

/-! ### `commit`: panic flag and fill list -/

theorem commit_eq' (s : Store) (t : Txn) :
    s.commit t = (commitLoop t.markers.isSome t.dirtyChunks (capStore s t) t.updates).1 := rfl

/-- every committed chunk is covered by every registry column (kept by `commitCapacity` and the `CreateColumn` repair) -/
def CoveredAll (s : Store) : Prop := ∀ chunk, chunk < s.commits.size → Covered s chunk

theorem grow_covers (c : Col) (last chunk : Nat) (h : chunk ≤ last) : ColCovers chunk (c.grow (16384 * last + 16383)) := by
  have hdiv : (16384 * last + 16383) / 16384 = last := by omega
  unfold Col.grow
  split <;> first
    | (simp only [hdiv]
       split
       · refine ⟨fun _ => by simp only; omega, fun hk => ?_⟩
         simp only at hk
         rename_i heq _
         rw [heq] at hk; cases hk
       · refine ⟨fun _ => by omega, fun hk => ?_⟩
         rename_i heq _
         rw [heq] at hk; cases hk)
    | (refine ⟨fun hd => ?_, fun _ => ?_⟩
       · simp only at hd
         rename_i heq
         rw [heq] at hd; cases hd
       · simp only
         have := size_grow_gt c.bits (16384 * last + 16383)
         omega)
    | (refine ⟨fun hd => ?_, fun hk => ?_⟩
       · rename_i heq
         rw [heq] at hd; cases hd
       · rename_i heq
         rw [heq] at hk; cases hk)

theorem commitCapacity_cases (s : Store) (last : Nat) :
    (s.commits.size ≥ last + 1 ∧ s.commitCapacity last = s) ∨
    (¬ s.commits.size ≥ last + 1 ∧
      (s.commitCapacity last).cols = s.cols.map (fun c => c.grow (16384 * last + 16383)) ∧
      (s.commitCapacity last).commits.size = last + 1 ∧
      (s.commitCapacity last).fill = Bits.grow s.fill (16384 * last + 16383) ∧
      (s.commitCapacity last).panicked = s.panicked) := by
  unfold Store.commitCapacity
  by_cases h : s.commits.size ≥ last + 1
  · left; rw [if_pos h]; exact ⟨h, rfl⟩
  · right; rw [if_neg h]
    refine ⟨h, rfl, ?_, rfl, rfl⟩
    simp only [Array.size_append, Array.size_replicate]
    omega

/-- the store the chunk loop starts with is ready for every dirty chunk -/
theorem capStore_ready (s : Store) (t : Txn) (hcov : CoveredAll s) :
    (capStore s t).panicked = s.panicked ∧ (∀ c ∈ t.dirtyChunks, c < (capStore s t).commits.size) ∧
    AllCols (fun col => ∀ c ∈ t.dirtyChunks, ColCovers c col) (capStore s t) ∧
    ∀ j, Bits.get (capStore s t).fill j = Bits.get s.fill j := by
  have hsorted := dirtyChunks_sorted t
  unfold capStore
  cases hl : t.dirtyChunks.getLast? with
  | none =>
    rw [List.getLast?_eq_none_iff] at hl
    rw [hl]
    exact ⟨rfl, (fun c hc => by cases hc), (fun col _ c hc => by cases hc), fun j => rfl⟩
  | some last =>
    simp only
    have hle := sorted_le_getLast _ hsorted last hl
    rcases commitCapacity_cases s last with ⟨h1, h2⟩ | ⟨h1, h2, h3, h4, h5⟩
    · rw [h2]
      refine ⟨rfl, fun c hc => ?_, fun col hcol c hc => ?_, fun j => rfl⟩
      · have := hle c hc; omega
      · exact hcov c (by have := hle c hc; omega) col hcol
    · refine ⟨h5, fun c hc => ?_, fun col hcol c hc => ?_, fun j => ?_⟩
      · rw [h3]; have := hle c hc; omega
      · rw [h2] at hcol
        obtain ⟨c0, _, rfl⟩ := Array.mem_map.1 hcol
        exact grow_covers c0 last c (hle c hc)
      · rw [h4, get_grow]

theorem capStore_back (s : Store) (t : Txn) (n : String) (c : Col) (h : (capStore s t).findCol n = some c) :
    ∃ c0, s.findCol n = some c0 ∧ c.computed = c0.computed ∧ c.kind = c0.kind := by
  rcases capStore_findCol s t n with e | ⟨last, _, _, e⟩
  · exact ⟨c, e ▸ h, rfl, rfl⟩
  · rw [e] at h
    cases hc0 : s.findCol n with
    | none => rw [hc0] at h; cases h
    | some c0 =>
      rw [hc0] at h
      simp only [Option.map_some, Option.some.injEq] at h
      exact ⟨c0, rfl, by rw [← h, grow_computed], by rw [← h, grow_kind]⟩

theorem capStore_computedKinds (s : Store) (t : Txn) (hck : ComputedKinds s) : ComputedKinds (capStore s t) := by
  intro n c hc m hm c' hc'
  obtain ⟨c0, h0, e1, _⟩ := capStore_back s t n c hc
  obtain ⟨c0', h0', _, e2⟩ := capStore_back s t m c' hc'
  rw [e2]
  exact hck n c0 h0 m (by rw [← e1]; exact hm) c0' h0'

/-- **R5 (panic flag)**: a transaction whose buffers keep every op in a section of its own chunk, committed to a store whose
    columns cover every committed chunk and whose computed columns are indexes / triggers / sorted indexes, raises no
    panic — for any number of buffers, chunks, column kinds -/
theorem commit_no_panic (s : Store) (t : Txn) (hcov : CoveredAll s) (hck : ComputedKinds s)
    (hinv : ∀ v ∈ t.updates, ChunkOK v) : (s.commit t).panicked = s.panicked := by
  rw [commit_eq']
  obtain ⟨r1, r2, r3, _⟩ := capStore_ready s t hcov
  rw [commitLoop_panicked t.markers.isSome t.dirtyChunks (capStore s t) t.updates r2 r3 (capStore_computedKinds s t hck), r1]
  · intro m hm c _ o ho
    exact rangeOps_chunk m (hinv m (List.mem_of_find?_eq_some hm)) c o ho
  · intro v hv _ _ _ c _ o ho
    exact rangeOps_chunk v (hinv v hv) c o ho

/-- the fill list after the chunk loop -/
theorem commitLoop_fill (cs : List Nat) :
    ∀ (s : Store) (ups : List Buf) (cr : Bool), cs.Nodup → cr = (ups.find? isMarkerBuf).isSome →
      (∀ m, ups.find? isMarkerBuf = some m → ∀ c ∈ cs, ∀ o ∈ m.rangeOps c, chunkOf o.idx = c) →
      ∀ j, Bits.get (commitLoop cr cs s ups).1.fill j =
        if chunkOf j ∈ cs then
          ((markerOps ups (chunkOf j)).filter (fun o => o.idx = j)).foldl (flagEffect opInsert) (Bits.get s.fill j)
        else Bits.get s.fill j := by
  induction cs with
  | nil => intro s ups cr _ _ _ j; simp [commitLoop]
  | cons c cs ih =>
    intro s ups cr hnd hcr hm j
    have hc_notin : c ∉ cs := (List.nodup_cons.1 hnd).1
    have hnd' : cs.Nodup := (List.nodup_cons.1 hnd).2
    subst hcr
    unfold commitLoop
    simp only [List.foldl_cons]
    obtain ⟨_, hrel, _, _, hfill⟩ := commitChunk_gen s c (ups.find? isMarkerBuf).isSome ups
    rw [markStore_fill] at hfill
    generalize s.commitChunk c (ups.find? isMarkerBuf).isSome ups = r at hrel hfill
    obtain ⟨s1, ups1⟩ := r
    simp only at hrel hfill
    have hfm := hrel.find_markerP
    have hmo : ∀ c2, markerOps ups1 c2 = markerOps ups c2 := by
      intro c2; unfold markerOps; rw [hfm]
    have := ih s1 ups1 (ups.find? isMarkerBuf).isSome hnd' (by rw [hfm])
      (fun m hfm1 c' hc' => hm m (hfm ▸ hfm1) c' (by simp [hc'])) j
    unfold commitLoop at this
    rw [this, hmo, hfill, foldFill_get]
    have hmc : ∀ o ∈ markerOps ups c, chunkOf o.idx = c := by
      unfold markerOps
      cases hf : ups.find? isMarkerBuf with
      | none => intro o ho; cases ho
      | some m => exact hm m hf c (by simp)
    by_cases hjc : chunkOf j = c
    · have h1 : chunkOf j ∉ cs := by rw [hjc]; exact hc_notin
      have h2 : chunkOf j ∈ c :: cs := by rw [hjc]; simp
      rw [if_neg h1, if_pos h2, hjc]
    · have hsame : ((markerOps ups c).filter (fun o => o.idx = j)).foldl (flagEffect opInsert) (Bits.get s.fill j) =
          Bits.get s.fill j := by
        apply foldl_filter_none
        intro o ho e
        apply hjc
        rw [← e]; exact hmc o ho
      rw [hsame]
      by_cases hjs : chunkOf j ∈ cs
      · rw [if_pos hjs, if_pos (by simp [hjs])]
      · have h2 : chunkOf j ∉ c :: cs := by
          intro h; rcases List.mem_cons.1 h with h | h
          · exact hjc h
          · exact hjs h
        rw [if_neg hjs, if_neg h2]

/-- **R4 at commit level (fill list)**: after `s.commit t`, fill bit `j` is the fold of the transaction's markers addressed
    to `j`, in issue order (`Insert` sets, `Delete` clears), over its previous value -/
theorem commit_fill (s : Store) (t : Txn) (hinv : ∀ m ∈ t.updates, isMarkerBuf m = true → ChunkOK m) (j : Nat) :
    Bits.get (s.commit t).fill j =
      ((markerAll t.updates).filter (fun o => o.idx = j)).foldl (flagEffect opInsert) (Bits.get s.fill j) := by
  rw [commit_eq']
  have hm : ∀ m, t.updates.find? isMarkerBuf = some m → ∀ c ∈ t.dirtyChunks, ∀ o ∈ m.rangeOps c, chunkOf o.idx = c := by
    intro m hfm c _ o ho
    exact rangeOps_chunk m (hinv m (List.mem_of_find?_eq_some hfm) (List.find?_some hfm)) c o ho
  rw [commitLoop_fill t.dirtyChunks (capStore s t) t.updates t.markers.isSome (sorted_nodup _ (dirtyChunks_sorted t)) rfl hm j]
  have hcap : Bits.get (capStore s t).fill j = Bits.get s.fill j := by
    unfold capStore
    cases hl : t.dirtyChunks.getLast? with
    | none => rfl
    | some last =>
      simp only
      rcases commitCapacity_cases s last with ⟨_, h2⟩ | ⟨_, _, _, h4, _⟩
      · rw [h2]
      · rw [h4, get_grow]
  rw [hcap]
  by_cases hd : chunkOf j ∈ t.dirtyChunks
  · rw [if_pos hd, markerOps_filter_idx t.updates j hinv]
  · rw [if_neg hd]
    symm
    apply foldl_filter_none
    intro o ho e
    apply hd
    rw [← e, mem_dirtyChunks]
    right
    unfold markerAll at ho
    cases hfm : t.updates.find? isMarkerBuf with
    | none => rw [hfm] at ho; cases ho
    | some m =>
      rw [hfm] at ho
      have hmem := List.mem_of_find?_eq_some hfm
      exact ⟨m, hmem, allOps_chunk_mem m (hinv m hmem (List.find?_some hfm)) o ho⟩

/-! ### R4 for every data column (markers are `Insert` / `Delete` ops) -/

def isMarkerOp (o : Op) : Prop := o.typ = opInsert ∨ o.typ = opDelete

instance (o : Op) : Decidable (isMarkerOp o) := by unfold isMarkerOp; exact inferInstance

/-- a marker applied to a data column of any kind: the raw data is untouched, a `Delete` clears the presence bit -/
theorem stepOf_marker (hash : Bytes → Nat) (kd : Kind) (hkd : kd.isData = true) (acc : ApplyAcc) (o : Op)
    (h : isMarkerOp o) :
    (stepOf hash kd acc o).1.data = acc.1.data ∧
    (stepOf hash kd acc o).1.bits = (if o.typ = opDelete then acc.1.bits.setIfInBounds o.idx false else acc.1.bits) := by
  obtain ⟨c, done, app⟩ := acc
  have h1 : ¬ o.typ = opPut := by rcases h with h | h <;> rw [h] <;> decide
  have h2 : ¬ o.typ = opMerge := by rcases h with h | h <;> rw [h] <;> decide
  cases kd <;> simp only [Kind.isData, Bool.false_eq_true] at hkd
  · unfold stepOf stepNum; simp only; rw [if_neg h1, if_neg h2]; split <;> exact ⟨rfl, rfl⟩
  · unfold stepOf stepStr; simp only; rw [if_neg h1, if_neg h2]; split <;> exact ⟨rfl, rfl⟩
  · unfold stepOf stepEnum; simp only; rw [if_neg h1]; split <;> exact ⟨rfl, rfl⟩
  · unfold stepOf stepKey; simp only; rw [if_neg h1]; split <;> exact ⟨rfl, rfl⟩
  · unfold stepOf stepStr; simp only; rw [if_neg h1, if_neg h2]; split <;> exact ⟨rfl, rfl⟩

theorem stepOf_marker_slot (hash : Bytes → Nat) (kd : Kind) (hkd : kd.isData = true) (acc : ApplyAcc) (o : Op)
    (h : isMarkerOp o) (hb : o.idx < acc.1.bits.size) (m : Bytes → Bytes → Bytes) (w : Nat) (i : Nat) :
    slot (stepOf hash kd acc o).1 i = if i = o.idx then slotEffect m w (slot acc.1 i) o else slot acc.1 i := by
  obtain ⟨h1, h2⟩ := stepOf_marker hash kd hkd acc o h
  rw [slotEffect_marker m w _ o h]
  unfold slot
  rw [h1, h2]
  by_cases hd : o.typ = opDelete
  · rw [if_pos hd, get_setIfInBounds _ _ _ _ hb]
    simp only [if_pos hd]
    split <;> rfl
  · rw [if_neg hd]
    simp only [if_neg hd]
    split <;> rfl

theorem foldMarkers_slot (hash : Bytes → Nat) (kd : Kind) (hkd : kd.isData = true) (ops : List Op) (acc : ApplyAcc)
    (hm : ∀ o ∈ ops, isMarkerOp o) (hin : ∀ o ∈ ops, o.idx < acc.1.bits.size) (m : Bytes → Bytes → Bytes) (w : Nat) (i : Nat) :
    slot (ops.foldl (stepOf hash kd) acc).1 i =
      (ops.filter (fun o => o.idx = i)).foldl (slotEffect m w) (slot acc.1 i) := by
  induction ops generalizing acc with
  | nil => rfl
  | cons o os ih =>
    simp only [List.foldl_cons]
    have hs := stepOf_sameShape hash kd acc o
    rw [ih _ (fun x hx => hm x (by simp [hx])) (fun x hx => by rw [hs.bsize]; exact hin x (by simp [hx])),
      stepOf_marker_slot hash kd hkd acc o (hm o (by simp)) (hin o (by simp)) m w i]
    by_cases e : o.idx = i
    · have e' : i = o.idx := e.symm
      have hd : decide (o.idx = i) = true := by simpa using e
      rw [if_pos e', List.filter_cons, if_pos hd]; rfl
    · have e' : ¬ i = o.idx := fun h => e h.symm
      have hd : ¬ decide (o.idx = i) = true := by simpa using e
      rw [if_neg e', List.filter_cons, if_neg hd]

/-- marker sections on a data column of any kind that has the chunk -/
theorem markCol_data_slot (hash : Bytes → Nat) (chunk : Nat) (secs : List (List Op)) (c : Col)
    (hd : c.kind.isData = true) (hch : chunk < c.nchunks) (hm : ∀ o ∈ secs.flatten, isMarkerOp o)
    (hin : ∀ o ∈ secs.flatten, o.idx < c.bits.size) (m : Bytes → Bytes → Bytes) (w : Nat) (i : Nat) :
    slot (markCol hash chunk secs c) i = (secs.flatten.filter (fun o => o.idx = i)).foldl (slotEffect m w) (slot c i) := by
  unfold markCol
  induction secs generalizing c with
  | nil => rfl
  | cons ops rest ih =>
    simp only [List.foldl_cons, List.flatten_cons, List.filter_append, List.foldl_append]
    have h1 : (c.applyAny hash chunk ops).1 = (ops.foldl (stepOf hash c.kind) (c, [], [])).1 := by
      unfold Col.applyAny
      rw [if_pos hd]
      exact (applyData_fold hash c chunk hch ops).1
    have hs := (applyAny_keeps hash c chunk ops)
    have hsh : (c.applyAny hash chunk ops).1.bits.size = c.bits.size := by
      rw [h1]
      exact (foldl_invariant (fun (acc : ApplyAcc) => SameShape c acc.1) _ ops (c, [], []) (SameShape.refl c)
        (fun b a _ hb => SameShape.trans hb (stepOf_sameShape hash c.kind b a))).bsize
    rw [ih _ (by rw [hs.sig.kind]; exact hd) (by rw [hs.sig.nchunks]; exact hch)
      (fun o ho => hm o (by simp [ho])) (fun o ho => by rw [hsh]; exact hin o (by simp [ho])), h1,
      foldMarkers_slot hash c.kind hd ops (c, [], []) (fun o ho => hm o (by simp [ho]))
        (fun o ho => hin o (by simp [ho])) m w i]

theorem foldl_slotEffect_markers (m : Bytes → Bytes → Bytes) (w : Nat) (l : List Op) (h : ∀ o ∈ l, isMarkerOp o)
    (st : Bool × Bytes) :
    l.foldl (slotEffect m w) st = l.foldl (fun st o => (if o.typ = opDelete then false else st.1, st.2)) st := by
  induction l generalizing st with
  | nil => rfl
  | cons o os ih =>
    simp only [List.foldl_cons]
    rw [slotEffect_marker _ _ _ o (h o (by simp))]
    exact ih (fun x hx => h x (by simp [hx])) _

/-- **R4 (`commitMarkers_read`), every data column**: after `commitMarkers chunk m`, with `m` holding only `Insert` / `Delete`
    markers: the slot `i` of a data column of any kind has its raw data untouched and its presence bit equal to the fold of
    the markers addressed to `i` (`Delete` clears, `Insert` leaves the bit alone — last marker wins) -/
theorem commitMarkers_read_data (s : Store) (chunk : Nat) (m : Buf) (x : String) (col : Col)
    (hf : s.findCol x = some col) (hd : col.kind.isData = true) (hch : chunk < col.nchunks)
    (hm : ∀ o ∈ m.rangeOps chunk, isMarkerOp o) (hin : ∀ o ∈ m.rangeOps chunk, o.idx < col.bits.size) :
    ∃ col', (s.commitMarkers chunk m).findCol x = some col' ∧ SameSig col col' ∧
      ∀ i, slot col' i =
        ((m.rangeOps chunk).filter (fun o => o.idx = i)).foldl
          (fun st o => (if o.typ = opDelete then false else st.1, st.2)) (slot col i) := by
  refine ⟨markCol s.hash chunk (m.range chunk) col, ?_, markCol_sig _ _ _ col, ?_⟩
  · rw [commitMarkers_findCol, hf]; rfl
  · intro i
    rw [markCol_data_slot s.hash chunk (m.range chunk) col hd hch hm hin (fun _ d => d) 0 i]
    exact foldl_slotEffect_markers _ _ _ (fun o ho => hm o (List.mem_filter.1 ho).1) _

/-! ## C07 at store level: one chunk of a snapshot committed into another store -/

/-- every op of a chunk's snapshot addresses an offset of that chunk, for every kind of column -/
theorem snapshotOps_chunk (c : Col) (ch : Nat) : ∀ o ∈ (c.snapshotOps ch).1, chunkOf o.idx = ch := by
  intro o ho
  unfold Col.snapshotOps at ho
  simp only at ho
  split at ho
  all_goals (try split at ho)
  all_goals first
    | (simp only at ho
       obtain ⟨x, hx, rfl⟩ := List.mem_map.1 ho
       have := (List.mem_filter.1 hx).1
       simp only [List.mem_range] at this
       simp only [chunkOf, chunkSize]
       omega)
    | (simp only [List.not_mem_nil] at ho)

theorem putAll_empty_chunkOK (name : String) (ops : List Op) (c : Nat) (ho : ∀ o ∈ ops, chunkOf o.idx = c) :
    ChunkOK ((Buf.empty name).putAll ops) := by
  intro sec hsec o hos
  rw [(putAll_empty_one_chunk name ops c ho).1] at hsec
  split at hsec
  · cases hsec
  · simp only [List.mem_singleton] at hsec
    subst hsec
    simp only at hos ⊢
    exact ho o (by simpa using hos)

theorem rowMarkers_chunk (s : Store) (ch : Nat) : ∀ o ∈ rowMarkers s ch, chunkOf o.idx = ch :=
  snapList_chunk opInsert ch (fun x => Bits.get s.fill (16384 * ch + x)) (fun _ => .fixed 0 [])

theorem rowBuf_chunkOK (s : Store) (ch : Nat) : ChunkOK (rowBufOf s ch) :=
  putAll_empty_chunkOK rowColumn (rowMarkers s ch) ch (rowMarkers_chunk s ch)

/-- every buffer `writeState` emits for a chunk keeps its ops in a section of that chunk -/
theorem chunkState_chunkOK (s : Store) (ch : Nat) : ∀ v ∈ (s.chunkState ch).1.buffers, ChunkOK v := by
  intro v hv
  rw [chunkState_buffers] at hv
  rcases List.mem_cons.1 hv with hv | hv
  · rw [hv]
    exact rowBuf_chunkOK s ch
  · unfold colBufsOf at hv
    obtain ⟨c, _, hc⟩ := List.mem_map.1 hv
    rw [← hc]
    exact putAll_empty_chunkOK c.name (c.snapshotOps ch).1 ch (snapshotOps_chunk c ch)

theorem findCol_none_names {s : Store} {n : String} (h : s.findCol n = none) : ∀ c ∈ s.cols.toList, c.name ≠ n := by
  unfold Store.findCol at h
  rw [← Array.find?_toList, List.find?_eq_none] at h
  intro c hc e
  exact h c hc (by simpa using e)

/-- the buffers of a chunk's snapshot have pairwise distinct names when the registry has, and no column is called `row` -/
theorem chunkState_distinct (s : Store) (ch : Nat) (hn : NamesDistinct s) (hr : s.findCol rowColumn = none) :
    BufsDistinct (s.chunkState ch).1.buffers := by
  rw [chunkState_buffers]
  unfold BufsDistinct colBufsOf
  simp only [List.map_cons, List.map_map]
  have hcols : (List.map ((fun b => b.column) ∘ fun c => (Buf.empty c.name).putAll (c.snapshotOps ch).1)
      (s.cols.toList.filter (fun c => !c.kind.isIndex))) = (s.cols.toList.filter (fun c => !c.kind.isIndex)).map (·.name) := by
    apply List.map_congr_left
    intro c _
    simp only [Function.comp_apply]
    exact putAll_column _ _
  rw [hcols, List.nodup_cons]
  constructor
  · rw [(rowBuf_ops s ch).2.2.1]
    intro hmem
    obtain ⟨c, hc, hcn⟩ := List.mem_map.1 hmem
    exact findCol_none_names hr c (List.mem_filter.1 hc).1 hcn
  · exact List.Nodup.sublist (List.Sublist.map _ List.filter_sublist) hn

theorem findCol_of_distinct {s : Store} (hn : NamesDistinct s) {c : Col} (hc : c ∈ s.cols) : s.findCol c.name = some c := by
  unfold Store.findCol
  rw [← Array.find?_toList]
  unfold NamesDistinct at hn
  have hc' : c ∈ s.cols.toList := by simpa using hc
  generalize s.cols.toList = l at hn hc'
  induction l with
  | nil => cases hc'
  | cons x xs ih =>
    simp only [List.map_cons, List.nodup_cons] at hn
    rcases List.mem_cons.1 hc' with rfl | hmem
    · simp
    · have hne : x.name ≠ c.name := by
        intro e
        exact hn.1 (List.mem_map.2 ⟨c, hmem, e.symm⟩)
      have : (x.name == c.name) = false := by simpa using hne
      rw [List.find?_cons, this]
      exact ih hn.2 hmem

/-- the ops the chunk's snapshot holds for column `x`, and its markers -/
theorem chunkState_ops (s : Store) (ch : Nat) (hn : NamesDistinct s) (hr : s.findCol rowColumn = none)
    (x : String) (c : Col) (hf : s.findCol x = some c) (hni : c.kind.isIndex = false) :
    allFor (s.chunkState ch).1.buffers x = (c.snapshotOps ch).1 ∧
    markerAll (s.chunkState ch).1.buffers = rowMarkers s ch := by
  have hd := chunkState_distinct s ch hn hr
  constructor
  · have hmem : (Buf.empty c.name).putAll (c.snapshotOps ch).1 ∈ (s.chunkState ch).1.buffers := by
      rw [chunkState_buffers]
      apply List.mem_cons_of_mem
      unfold colBufsOf
      exact List.mem_map.2 ⟨c, List.mem_filter.2 ⟨by simpa using findCol_mem hf, by simp [hni]⟩, rfl⟩
    have := allFor_of_distinct _ hd _ hmem
    have e : ((Buf.empty c.name).putAll (c.snapshotOps ch).1).column = x := by
      rw [putAll_column]; exact findCol_name hf
    rw [e] at this
    rw [this, Buf.allOps_putAll]
    rfl
  · rw [markerAll_of_distinct _ hd]
    have hmem : rowBufOf s ch ∈ (s.chunkState ch).1.buffers := by
      rw [chunkState_buffers]; simp
    have := allFor_of_distinct _ hd _ hmem
    rw [(rowBuf_ops s ch).2.2.1] at this
    rw [this, (rowBuf_ops s ch).2.1]

/-- the transaction `readState` commits for chunk `ch` of a snapshot of `s` -/
def chunkTxn (s : Store) (ch : Nat) : Txn := { dirty := [ch], updates := (s.chunkState ch).1.buffers }

/-- **C07, one chunk, store level**: commit the chunk's snapshot of `s` into a store `s0` that has a numeric column `x` of the
    same kind. Afterwards the slots of chunk `ch` that are present in `s` hold the snapshotted value (present), every other
    slot of `x` is what it was in `s0` -/
theorem restore_chunk_slot (s s0 : Store) (ch : Nat) (x : String) (k : NumKind) (c c0 : Col)
    (hn : NamesDistinct s) (hr : s.findCol rowColumn = none)
    (hf : s.findCol x = some c) (hk : c.kind = .num k) (hch : ch < c.nchunks)
    (hf0 : s0.findCol x = some c0) (hk0 : c0.kind = .num k) (hw0 : ColWF c0) (hcov0 : s0.commits.size ≤ c0.nchunks)
    (hcomp0 : ∀ n c', s0.findCol n = some c' → x ∉ c'.computed) :
    ∃ col', (s0.commit (chunkTxn s ch)).findCol x = some col' ∧ col'.kind = .num k ∧ col'.merge = c0.merge ∧ ColWF col' ∧
      c0.nchunks ≤ col'.nchunks ∧ ch < col'.nchunks ∧
      ∀ i, slot col' i =
        if i / 16384 = ch ∧ Bits.get c.bits i = true then (true, padTo k.width (c.data.getD i [])) else slot c0 i := by
  have hxr : x ≠ rowColumn := by
    intro e; rw [e, hr] at hf; cases hf
  have hni : c.kind.isIndex = false := by rw [hk]; rfl
  obtain ⟨col', f', k', m', w', n', d', sl'⟩ := commit_readback s0 (chunkTxn s ch) x k c0 hxr hf0 hk0 hw0 hcov0
    (fun v _ c' hc' => hcomp0 v.column c' hc') (fun v hv _ => chunkState_chunkOK s ch v hv)
  refine ⟨col', f', k', m', w', n', d' ch (by rw [mem_dirtyChunks]; left; simp [chunkTxn]), ?_⟩
  intro i
  obtain ⟨ha, hm⟩ := chunkState_ops s ch hn hr x c hf hni
  have hsl := sl' i
  unfold chunkTxn at hsl
  simp only at hsl
  rw [ha, hm, List.filter_append, List.foldl_append, rowMarkers_filter, snapshotOps_raw c (by rw [hk]; rfl) ch hch] at hsl
  simp only at hsl
  rw [snapList_filter_chunk opPut ch (fun j => Bits.get c.bits j) (fun j => snapVal c j) i] at hsl
  rw [hsl]
  have hins : ∀ st : Bool × Bytes, (if i / 16384 = ch ∧ Bits.get s.fill i = true then [(⟨opInsert, i, .fixed 0 []⟩ : Op)] else []).foldl
      (slotEffect c0.merge k.width) st = st := by
    intro st
    split
    · simp only [List.foldl_cons, List.foldl_nil]
      rw [slotEffect_marker _ _ _ _ (Or.inl rfl)]
      simp only
      rw [if_neg (by decide)]
    · rfl
  rw [hins]
  by_cases hc : i / 16384 = ch ∧ Bits.get c.bits i = true
  · rw [if_pos hc, if_pos hc]
    simp only [List.foldl_cons, List.foldl_nil]
    rw [slotEffect, if_pos rfl, snapVal_num c k hk]
  · rw [if_neg hc, if_neg hc]; rfl

/-! ### what `commit` keeps of the store invariants (so that the read-back theorems chain over any sequence of commits) -/

theorem commitLoop_gen (cr : Bool) (cs : List Nat) :
    ∀ (s : Store) (ups : List Buf), RegSim s (commitLoop cr cs s ups).1 ∧
      (commitLoop cr cs s ups).1.commits.size = s.commits.size ∧
      (∀ P, Stable P → AllCols P s → AllCols P (commitLoop cr cs s ups).1) := by
  induction cs with
  | nil => intro s ups; exact ⟨RegSim.refl s, rfl, fun _ _ h => h⟩
  | cons c cs ih =>
    intro s ups
    unfold commitLoop
    simp only [List.foldl_cons]
    obtain ⟨hreg, _, hsz, hall, _⟩ := commitChunk_gen s c cr ups
    generalize s.commitChunk c cr ups = r at hreg hsz hall
    obtain ⟨s1, ups1⟩ := r
    obtain ⟨i1, i2, i3⟩ := ih s1 ups1
    unfold commitLoop at i1 i2 i3
    exact ⟨RegSim.trans hreg i1, i2.trans hsz, fun P hP h => i3 P hP (hall P hP h)⟩

theorem capStore_commits_size (s : Store) (t : Txn) :
    (capStore s t).commits.size = s.commits.size ∨
    ∃ last, t.dirtyChunks.getLast? = some last ∧ s.commits.size < last + 1 ∧ (capStore s t).commits.size = last + 1 := by
  unfold capStore
  cases hl : t.dirtyChunks.getLast? with
  | none => exact Or.inl rfl
  | some last =>
    simp only
    rcases commitCapacity_cases s last with ⟨_, h2⟩ | ⟨h1, _, h3, _, _⟩
    · rw [h2]; exact Or.inl rfl
    · exact Or.inr ⟨last, rfl, by omega, h3⟩

theorem commit_commits_size (s : Store) (t : Txn) :
    (s.commit t).commits.size = s.commits.size ∨
    ∃ last ∈ t.dirtyChunks, s.commits.size < last + 1 ∧ (s.commit t).commits.size = last + 1 := by
  rw [commit_eq', (commitLoop_gen _ _ _ _).2.1]
  rcases capStore_commits_size s t with h | ⟨last, hl, h1, h2⟩
  · exact Or.inl h
  · exact Or.inr ⟨last, List.mem_of_getLast? hl, h1, h2⟩

/-- names, kinds and computed lists are the same before and after a commit -/
theorem commit_back (s : Store) (t : Txn) (n : String) (c : Col) (h : (s.commit t).findCol n = some c) :
    ∃ c0, s.findCol n = some c0 ∧ c.computed = c0.computed ∧ c.kind = c0.kind := by
  rw [commit_eq'] at h
  obtain ⟨c1, h1, sg⟩ := (commitLoop_gen _ _ _ _).1.sig_back h
  obtain ⟨c0, h0, e1, e2⟩ := capStore_back s t n c1 h1
  exact ⟨c0, h0, sg.computed.trans e1, sg.kind.trans e2⟩

theorem commit_computedKinds (s : Store) (t : Txn) (hck : ComputedKinds s) : ComputedKinds (s.commit t) := by
  rw [commit_eq']
  exact ComputedKinds.of_regSim (commitLoop_gen _ _ _ _).1 (capStore_computedKinds s t hck)

/-- every committed chunk stays covered by every column -/
theorem commit_coveredAll (s : Store) (t : Txn) (hcov : CoveredAll s) : CoveredAll (s.commit t) := by
  intro chunk hlt col hcol
  rw [commit_eq'] at hcol hlt
  obtain ⟨_, hsz, hall⟩ := commitLoop_gen t.markers.isSome t.dirtyChunks (capStore s t) t.updates
  rw [hsz] at hlt
  refine hall (ColCovers chunk) (fun c c' hk hc => hk.covers chunk hc) ?_ col hcol
  intro col1 hcol1
  unfold capStore at hcol1 hlt
  cases hl : t.dirtyChunks.getLast? with
  | none =>
    rw [hl] at hcol1 hlt
    exact hcov chunk hlt col1 hcol1
  | some last =>
    rw [hl] at hcol1 hlt
    simp only at hcol1 hlt
    rcases commitCapacity_cases s last with ⟨_, h2⟩ | ⟨_, h2, h3, _, _⟩
    · rw [h2] at hcol1 hlt
      exact hcov chunk hlt col1 hcol1
    · rw [h2] at hcol1
      rw [h3] at hlt
      obtain ⟨c0, _, rfl⟩ := Array.mem_map.1 hcol1
      exact grow_covers c0 last chunk (by omega)

theorem commit_cov (s : Store) (t : Txn) (col col' : Col) (hcov : s.commits.size ≤ col.nchunks)
    (h1 : col.nchunks ≤ col'.nchunks) (h2 : ∀ c ∈ t.dirtyChunks, c < col'.nchunks) :
    (s.commit t).commits.size ≤ col'.nchunks := by
  rcases commit_commits_size s t with h | ⟨last, hl, _, h⟩
  · rw [h]; omega
  · rw [h]; have := h2 last hl; omega

/-! ### the whole snapshot: `readState (snapshot s)` -/

theorem zipIdx_map_range {α : Type} (f : Nat → α) (n : Nat) :
    ((List.range n).map f).zipIdx = (List.range n).map (fun i => (f i, i)) := by
  induction n with
  | zero => rfl
  | succ n ih =>
    rw [List.range_succ, List.map_append, List.zipIdx_append, ih]
    simp

theorem snapshot_fold (s : Store) (l : List Nat) (acc : List ChunkState) (p : Bool) :
    (l.foldl (fun (acc : List ChunkState × Bool) c =>
      (acc.1 ++ [(s.chunkState c).1], acc.2 || (s.chunkState c).2)) (acc, p)).1 =
      acc ++ l.map (fun ch => (s.chunkState ch).1) := by
  induction l generalizing acc p with
  | nil => simp
  | cons c cs ih => simp only [List.foldl_cons]; rw [ih]; simp

theorem snapshot_chunks (s : Store) :
    (s.snapshot).1.chunks = (List.range s.nChunks).map (fun ch => (s.chunkState ch).1) := by
  have e : (s.snapshot).1.chunks = ((List.range s.nChunks).foldl (fun (acc : List ChunkState × Bool) c =>
      (acc.1 ++ [(s.chunkState c).1], acc.2 || (s.chunkState c).2)) ([], false)).1 := rfl
  rw [e, snapshot_fold]
  rfl

/-- `readState` of a snapshot of `s`: one `chunkTxn` committed per chunk of `s`, in ascending order -/
theorem readState_snapshot (s0 s : Store) :
    s0.readState (s.snapshot).1 = (List.range s.nChunks).foldl (fun s0 ch => s0.commit (chunkTxn s ch)) s0 := by
  unfold Store.readState
  rw [snapshot_chunks, zipIdx_map_range, List.foldl_map]
  rfl

theorem chunkState_markers (s : Store) (ch : Nat) (hn : NamesDistinct s) (hr : s.findCol rowColumn = none) :
    markerAll (s.chunkState ch).1.buffers = rowMarkers s ch := by
  have hd := chunkState_distinct s ch hn hr
  rw [markerAll_of_distinct _ hd]
  have hmem : rowBufOf s ch ∈ (s.chunkState ch).1.buffers := by
    rw [chunkState_buffers]; simp
  have := allFor_of_distinct _ hd _ hmem
  rw [(rowBuf_ops s ch).2.2.1] at this
  rw [this, (rowBuf_ops s ch).2.1]

theorem putAll_empty_chunks (name : String) (ops : List Op) (c : Nat) (ho : ∀ o ∈ ops, chunkOf o.idx = c) :
    ∀ c' ∈ ((Buf.empty name).putAll ops).chunks, c' = c := by
  intro c' hc'
  rw [(putAll_empty_rangeOps name ops c ho).2.2.1] at hc'
  split at hc'
  · cases hc'
  · simpa using hc'

/-- every buffer of a chunk's snapshot only has sections of that chunk -/
theorem chunkState_chunks (s : Store) (ch : Nat) : ∀ b ∈ (s.chunkState ch).1.buffers, ∀ c' ∈ b.chunks, c' = ch := by
  intro b hb
  rw [chunkState_buffers] at hb
  rcases List.mem_cons.1 hb with hb | hb
  · rw [hb]; exact putAll_empty_chunks rowColumn (rowMarkers s ch) ch (rowMarkers_chunk s ch)
  · unfold colBufsOf at hb
    obtain ⟨cc, _, hcc⟩ := List.mem_map.1 hb
    rw [← hcc]
    exact putAll_empty_chunks cc.name (cc.snapshotOps ch).1 ch (snapshotOps_chunk cc ch)

/-- the numeric column `x` after the first `n` chunks of the snapshot of `s` were read into `s0` -/
theorem readState_upTo (s s0 : Store) (x : String) (k : NumKind) (c c0 : Col)
    (hn : NamesDistinct s) (hr : s.findCol rowColumn = none)
    (hf : s.findCol x = some c) (hk : c.kind = .num k) (hcovc : s.commits.size ≤ c.nchunks)
    (hf0 : s0.findCol x = some c0) (hk0 : c0.kind = .num k) (hw0 : ColWF c0) (hcov0 : s0.commits.size ≤ c0.nchunks)
    (hcomp0 : ∀ n c', s0.findCol n = some c' → x ∉ c'.computed) (n : Nat) (hle : n ≤ s.nChunks) :
    ∃ col', ((List.range n).foldl (fun s0 ch => s0.commit (chunkTxn s ch)) s0).findCol x = some col' ∧
      col'.kind = .num k ∧ col'.merge = c0.merge ∧ ColWF col' ∧
      ((List.range n).foldl (fun s0 ch => s0.commit (chunkTxn s ch)) s0).commits.size ≤ col'.nchunks ∧
      n ≤ col'.nchunks ∧ c0.nchunks ≤ col'.nchunks ∧
      (∀ m c', ((List.range n).foldl (fun s0 ch => s0.commit (chunkTxn s ch)) s0).findCol m = some c' → x ∉ c'.computed) ∧
      ∀ i, slot col' i =
        if i / 16384 < n ∧ Bits.get c.bits i = true then (true, padTo k.width (c.data.getD i [])) else slot c0 i := by
  induction n with
  | zero =>
    refine ⟨c0, hf0, hk0, rfl, hw0, hcov0, Nat.zero_le _, Nat.le_refl _, hcomp0, fun i => ?_⟩
    rw [if_neg (by omega)]
  | succ n ih =>
    obtain ⟨col1, f1, k1, m1, w1, cv1, n1, g1, cp1, sl1⟩ := ih (by omega)
    rw [List.range_succ, List.foldl_append]
    simp only [List.foldl_cons, List.foldl_nil]
    generalize (List.range n).foldl (fun s0 ch => s0.commit (chunkTxn s ch)) s0 = s1 at f1 cv1 cp1
    have hnc : n < c.nchunks := by unfold Store.nChunks at hle; omega
    obtain ⟨col2, f2, k2, m2, w2, n2, d2, sl2⟩ := restore_chunk_slot s s1 n x k c col1 hn hr hf hk hnc f1 k1 w1 cv1 cp1
    refine ⟨col2, f2, k2, m2.trans m1, w2, ?_, by omega, by omega, ?_, ?_⟩
    · apply commit_cov s1 (chunkTxn s n) col1 col2 cv1 n2
      intro ch hch
      rw [mem_dirtyChunks] at hch
      rcases hch with hch | ⟨b, hb, hcb⟩
      · simp only [chunkTxn, List.mem_singleton] at hch
        omega
      · have hbc := chunkState_chunks s n b hb
        rw [hbc ch hcb]; exact d2
    · intro m c' hc'
      obtain ⟨c00, h00, e1, _⟩ := commit_back s1 (chunkTxn s n) m c' hc'
      rw [e1]; exact cp1 m c00 h00
    · intro i
      rw [sl2 i, sl1 i]
      by_cases hb : Bits.get c.bits i = true
      · by_cases h1 : i / 16384 = n
        · rw [if_pos ⟨h1, hb⟩, if_pos ⟨by omega, hb⟩]
        · rw [if_neg (fun h => h1 h.1)]
          by_cases h2 : i / 16384 < n
          · rw [if_pos ⟨h2, hb⟩, if_pos ⟨by omega, hb⟩]
          · rw [if_neg (fun h => h2 h.1), if_neg (fun h => by omega)]
      · rw [if_neg (fun h => hb h.2), if_neg (fun h => hb h.2), if_neg (fun h => hb h.2)]

/-- the fill list after the first `n` chunks of the snapshot of `s` were read into `s0` -/
theorem readState_fill_upTo (s s0 : Store) (hn : NamesDistinct s) (hr : s.findCol rowColumn = none) (n : Nat) (j : Nat) :
    Bits.get ((List.range n).foldl (fun s0 ch => s0.commit (chunkTxn s ch)) s0).fill j =
      if j / 16384 < n ∧ Bits.get s.fill j = true then true else Bits.get s0.fill j := by
  induction n with
  | zero => rw [if_neg (by omega)]; rfl
  | succ n ih =>
    rw [List.range_succ, List.foldl_append]
    simp only [List.foldl_cons, List.foldl_nil]
    rw [commit_fill _ (chunkTxn s n) (fun m hm _ => chunkState_chunkOK s n m hm) j, ih]
    have hm : markerAll (chunkTxn s n).updates = rowMarkers s n := chunkState_markers s n hn hr
    rw [hm, rowMarkers_filter]
    by_cases hb : Bits.get s.fill j = true
    · by_cases h1 : j / 16384 = n
      · have A : j / 16384 = n ∧ Bits.get s.fill j = true := ⟨h1, hb⟩
        have B : ¬ (j / 16384 < n ∧ Bits.get s.fill j = true) := fun h => by omega
        have C : j / 16384 < n + 1 ∧ Bits.get s.fill j = true := ⟨by omega, hb⟩
        simp only [if_pos A, if_neg B, if_pos C]
        simp [flagEffect]
      · have A : ¬ (j / 16384 = n ∧ Bits.get s.fill j = true) := fun h => h1 h.1
        simp only [if_neg A, List.foldl_nil]
        by_cases h2 : j / 16384 < n
        · have B : j / 16384 < n ∧ Bits.get s.fill j = true := ⟨h2, hb⟩
          have C : j / 16384 < n + 1 ∧ Bits.get s.fill j = true := ⟨by omega, hb⟩
          rw [if_pos B, if_pos C]
        · have B : ¬ (j / 16384 < n ∧ Bits.get s.fill j = true) := fun h => h2 h.1
          have C : ¬ (j / 16384 < n + 1 ∧ Bits.get s.fill j = true) := fun h => by omega
          rw [if_neg B, if_neg C]
    · have A : ¬ (j / 16384 = n ∧ Bits.get s.fill j = true) := fun h => hb h.2
      have B : ¬ (j / 16384 < n ∧ Bits.get s.fill j = true) := fun h => hb h.2
      have C : ¬ (j / 16384 < n + 1 ∧ Bits.get s.fill j = true) := fun h => hb h.2
      simp only [if_neg A, if_neg B, if_neg C, List.foldl_nil]

/-- reading a snapshot into a covered store raises no panic -/
theorem readState_no_panic_upTo (s s0 : Store) (hcov : CoveredAll s0) (hck : ComputedKinds s0) (n : Nat) :
    ((List.range n).foldl (fun s0 ch => s0.commit (chunkTxn s ch)) s0).panicked = s0.panicked ∧
    CoveredAll ((List.range n).foldl (fun s0 ch => s0.commit (chunkTxn s ch)) s0) ∧
    ComputedKinds ((List.range n).foldl (fun s0 ch => s0.commit (chunkTxn s ch)) s0) := by
  induction n with
  | zero => exact ⟨rfl, hcov, hck⟩
  | succ n ih =>
    obtain ⟨i1, i2, i3⟩ := ih
    rw [List.range_succ, List.foldl_append]
    simp only [List.foldl_cons, List.foldl_nil]
    refine ⟨?_, commit_coveredAll _ _ i2, commit_computedKinds _ _ i3⟩
    rw [commit_no_panic _ (chunkTxn s n) i2 i3 (fun v hv => chunkState_chunkOK s n v hv), i1]

/-! ### any sequence of commits -/

/-- everything a transaction issues that can touch column `x`: its markers, then the ops of the buffer(s) of `x` -/
def issued (t : Txn) (x : String) : List Op := markerAll t.updates ++ allFor t.updates x

/-- **C01 over any sequence of committed transactions** (fixed schema): after committing `ts` one after the other, every slot
    of the numeric column `x` is the fold, over what it held at the start, of everything the transactions issued for that
    offset — transaction after transaction, each in issue order (markers of a transaction before its column ops) -/
theorem commits_readback (x : String) (k : NumKind) (hxr : x ≠ rowColumn) (ts : List Txn) :
    ∀ (s : Store) (col : Col), s.findCol x = some col → col.kind = .num k → ColWF col → s.commits.size ≤ col.nchunks →
      (∀ t ∈ ts, ∀ v ∈ t.updates, ∀ c, s.findCol v.column = some c → x ∉ c.computed) →
      (∀ t ∈ ts, ∀ v ∈ t.updates, (v.column = x ∨ isMarkerBuf v = true) → ChunkOK v) →
      ∃ col', (ts.foldl Store.commit s).findCol x = some col' ∧ col'.kind = .num k ∧ col'.merge = col.merge ∧ ColWF col' ∧
        (ts.foldl Store.commit s).commits.size ≤ col'.nchunks ∧ col.nchunks ≤ col'.nchunks ∧
        ∀ i, slot col' i =
          ((ts.flatMap (fun t => issued t x)).filter (fun o => o.idx = i)).foldl
            (slotEffect col.merge k.width) (slot col i) := by
  induction ts with
  | nil =>
    intro s col hf hk hw hcov _ _
    exact ⟨col, hf, hk, rfl, hw, hcov, Nat.le_refl _, fun i => rfl⟩
  | cons t ts ih =>
    intro s col hf hk hw hcov hcomp hinv
    simp only [List.foldl_cons]
    obtain ⟨col1, f1, k1, m1, w1, n1, d1, sl1⟩ := commit_readback s t x k col hxr hf hk hw hcov
      (hcomp t (by simp)) (hinv t (by simp))
    have hcov1 := commit_cov s t col col1 hcov n1 d1
    obtain ⟨col2, f2, k2, m2, w2, c2, n2, sl2⟩ := ih (s.commit t) col1 f1 k1 w1 hcov1
      (by
        intro t' ht' v hv c hc
        obtain ⟨c0, h0, e, _⟩ := commit_back s t v.column c hc
        rw [e]; exact hcomp t' (by simp [ht']) v hv c0 h0)
      (fun t' ht' => hinv t' (by simp [ht']))
    refine ⟨col2, f2, k2, m2.trans m1, w2, c2, by omega, ?_⟩
    intro i
    rw [sl2 i, sl1 i, m1]
    simp only [List.flatMap_cons, issued, List.filter_append, List.foldl_append]

end ColumnVerif.Store
