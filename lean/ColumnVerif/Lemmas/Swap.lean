import ColumnVerif.Model.Swap
import ColumnVerif.Lemmas.Buffer
/-!
Helper lemmas for `Buf.swapAt` (`Model/Swap`): what `locate` finds, what rewriting one op of one
section does to the flattened ops of a chunk, that the buffer invariant survives, and the
per-offset views.
-/
namespace ColumnVerif.Codec

/-! ### `rewriteNth` -/

theorem rewriteNth_nil (k : Nat) (f : Op → Op) : rewriteNth [] k f = [] := by
  simp [rewriteNth]

theorem length_rewriteNth (ops : List Op) (k : Nat) (f : Op → Op) :
    (rewriteNth ops k f).length = ops.length := by
  simp [rewriteNth]

theorem getElem?_rewriteNth (ops : List Op) (k j : Nat) (f : Op → Op) :
    (rewriteNth ops k f)[j]? = if j = k then ops[j]?.map f else ops[j]? := by
  simp only [rewriteNth, List.getElem?_mapIdx]
  by_cases h : j = k
  · simp [h]
  · simp [h]

/-- a list rewritten outside its range is itself -/
theorem rewriteNth_of_le (ops : List Op) (k : Nat) (f : Op → Op) (h : ops.length ≤ k) :
    rewriteNth ops k f = ops := by
  apply List.ext_getElem?
  intro j
  rw [getElem?_rewriteNth]
  by_cases hj : j = k
  · subst hj
    simp [List.getElem?_eq_none_iff.2 h]
  · simp [hj]

/-- rewriting position `pre.length` of `pre ++ o :: post` -/
theorem rewriteNth_mid (pre post : List Op) (o : Op) (f : Op → Op) :
    rewriteNth (pre ++ o :: post) pre.length f = pre ++ f o :: post := by
  apply List.ext_getElem?
  intro j
  rw [getElem?_rewriteNth]
  by_cases hj : j = pre.length
  · subst hj; simp
  · simp only [hj, if_false]
    by_cases hlt : j < pre.length
    · simp [List.getElem?_append_left hlt]
    · have hle : pre.length ≤ j := by omega
      rw [List.getElem?_append_right hle, List.getElem?_append_right hle]
      have : j - pre.length = (j - pre.length - 1) + 1 := by omega
      rw [this]; simp

/-- rewriting inside the middle block of `a ++ m ++ c` -/
theorem rewriteNth_append3 (a m c : List Op) (pos : Nat) (f : Op → Op) (hp : pos < m.length) :
    rewriteNth (a ++ m ++ c) (a.length + pos) f = a ++ rewriteNth m pos f ++ c := by
  apply List.ext_getElem?
  intro j
  rw [getElem?_rewriteNth]
  by_cases hja : j < a.length
  · have hne : j ≠ a.length + pos := by omega
    simp only [hne, if_false, List.append_assoc]
    rw [List.getElem?_append_left hja, List.getElem?_append_left hja]
  · have hle : a.length ≤ j := by omega
    simp only [List.append_assoc]
    rw [List.getElem?_append_right hle, List.getElem?_append_right hle]
    by_cases hjm : j - a.length < m.length
    · rw [List.getElem?_append_left hjm,
        List.getElem?_append_left (by rw [length_rewriteNth]; exact hjm), getElem?_rewriteNth]
      by_cases hjk : j = a.length + pos
      · have : j - a.length = pos := by omega
        simp [hjk]
      · have : j - a.length ≠ pos := by omega
        simp [hjk, this]
    · have hle2 : m.length ≤ j - a.length := by omega
      have hne : j ≠ a.length + pos := by omega
      simp only [hne, if_false]
      rw [List.getElem?_append_right hle2,
        List.getElem?_append_right (by rw [length_rewriteNth]; exact hle2), length_rewriteNth]

/-- split a list at a valid position -/
theorem split_at_getElem? (ops : List Op) (k : Nat) (o : Op) (h : ops[k]? = some o) :
    ∃ pre post, ops = pre ++ o :: post ∧ pre.length = k := by
  induction ops generalizing k with
  | nil => simp at h
  | cons x xs ih =>
    cases k with
    | zero =>
      simp at h; subst h
      exact ⟨[], xs, rfl, rfl⟩
    | succ k =>
      simp at h
      obtain ⟨pre, post, he, hl⟩ := ih k h
      exact ⟨x :: pre, post, by simp [he], by simp [hl]⟩

/-- `lastIdx` only looks at the offsets -/
theorem lastIdx_congr (v : Nat) (xs ys : List Op) (h : xs.map Op.idx = ys.map Op.idx) :
    lastIdx v xs = lastIdx v ys := by
  induction xs generalizing v ys with
  | nil =>
    cases ys with
    | nil => rfl
    | cons y ys => simp at h
  | cons x xs ih =>
    cases ys with
    | nil => simp at h
    | cons y ys =>
      simp only [List.map_cons, List.cons.injEq] at h
      simp only [lastIdx, h.1]
      exact ih _ ys h.2

theorem map_idx_rewriteNth (ops : List Op) (k : Nat) (f : Op → Op) (hf : ∀ o, (f o).idx = o.idx) :
    (rewriteNth ops k f).map Op.idx = ops.map Op.idx := by
  apply List.ext_getElem?
  intro j
  simp only [List.getElem?_map, getElem?_rewriteNth]
  by_cases hj : j = k
  · simp only [hj, if_true]
    cases ops[k]? with
    | none => rfl
    | some o => simp [hf]
  · simp [hj]

theorem mem_rewriteNth (ops : List Op) (k : Nat) (f : Op → Op) (x : Op) (hx : x ∈ rewriteNth ops k f) :
    x ∈ ops ∨ ∃ o, ops[k]? = some o ∧ x = f o := by
  obtain ⟨j, hj⟩ := List.mem_iff_getElem?.1 hx
  rw [getElem?_rewriteNth] at hj
  by_cases hjk : j = k
  · subst hjk
    simp only [if_true] at hj
    cases ho : ops[j]? with
    | none => rw [ho] at hj; simp at hj
    | some o =>
      rw [ho] at hj; simp at hj
      exact Or.inr ⟨o, rfl, hj.symm⟩
  · simp only [hjk, if_false] at hj
    exact Or.inl (List.mem_iff_getElem?.2 ⟨j, hj⟩)

/-! ### the ops of one chunk, section-wise and flattened -/

/-- the flattened ops of the sections of chunk `c` (what `Buf.rangeOps` is on `b.secs`) -/
def secOps (secs : List Sec) (c : Nat) : List Op :=
  ((secs.filter (fun s => s.chunk = c)).map Sec.ops).flatten

theorem rangeOps_eq_secOps (b : Buf) (c : Nat) : b.rangeOps c = secOps b.secs c := rfl

theorem secOps_nil (c : Nat) : secOps [] c = [] := rfl

theorem secOps_cons_pos (s : Sec) (rest : List Sec) (c : Nat) (h : s.chunk = c) :
    secOps (s :: rest) c = s.ops ++ secOps rest c := by
  simp [secOps, h]

theorem secOps_cons_neg (s : Sec) (rest : List Sec) (c : Nat) (h : s.chunk ≠ c) :
    secOps (s :: rest) c = secOps rest c := by
  simp [secOps, h]

theorem secOps_append (xs ys : List Sec) (c : Nat) :
    secOps (xs ++ ys) c = secOps xs c ++ secOps ys c := by
  simp [secOps, List.filter_append]

/-! ### `locate` -/

theorem locate_none_iff (secs : List Sec) (chunk k i : Nat) :
    locate secs chunk k i = none ↔ (secOps secs chunk).length ≤ k := by
  induction secs generalizing k i with
  | nil => simp [locate, secOps_nil]
  | cons s rest ih =>
    rw [locate]
    by_cases hc : s.chunk = chunk
    · rw [if_pos hc, secOps_cons_pos s rest chunk hc]
      by_cases hk : k < s.ops.length
      · rw [if_pos hk]; simp; omega
      · rw [if_neg hk, ih]; simp; omega
    · rw [if_neg hc, secOps_cons_neg s rest chunk hc, ih]

theorem locate_some (secs : List Sec) (chunk k i si pos : Nat)
    (h : locate secs chunk k i = some (si, pos)) :
    ∃ pre sec post, secs = pre ++ sec :: post ∧ si = i + pre.length ∧ sec.chunk = chunk ∧
      pos < sec.ops.length ∧ k = (secOps pre chunk).length + pos := by
  induction secs generalizing k i with
  | nil => simp [locate] at h
  | cons s rest ih =>
    rw [locate] at h
    by_cases hc : s.chunk = chunk
    · rw [if_pos hc] at h
      by_cases hk : k < s.ops.length
      · rw [if_pos hk] at h
        simp only [Option.some.injEq, Prod.mk.injEq] at h
        exact ⟨[], s, rest, rfl, by simp [h.1], hc, by omega, by simp [secOps_nil, h.2]⟩
      · rw [if_neg hk] at h
        obtain ⟨pre, sec, post, he, hsi, hsc, hp, hkk⟩ := ih _ _ h
        refine ⟨s :: pre, sec, post, by simp [he], by simp [hsi]; omega, hsc, hp, ?_⟩
        rw [secOps_cons_pos s pre chunk hc]; simp; omega
    · rw [if_neg hc] at h
      obtain ⟨pre, sec, post, he, hsi, hsc, hp, hkk⟩ := ih _ _ h
      refine ⟨s :: pre, sec, post, by simp [he], by simp [hsi]; omega, hsc, hp, ?_⟩
      rw [secOps_cons_neg s pre chunk hc]; exact hkk

/-- replacing one section through `mapIdx` -/
theorem mapIdx_replace (pre post : List Sec) (sec : Sec) (g : Sec → Sec) :
    (pre ++ sec :: post).mapIdx (fun j s => if j = pre.length then g s else s)
      = pre ++ g sec :: post := by
  apply List.ext_getElem?
  intro j
  rw [List.getElem?_mapIdx]
  by_cases hj : j = pre.length
  · subst hj; simp
  · simp only [hj, if_false, Option.map_id']
    by_cases hlt : j < pre.length
    · rw [List.getElem?_append_left hlt, List.getElem?_append_left hlt]
    · have hle : pre.length ≤ j := by omega
      rw [List.getElem?_append_right hle, List.getElem?_append_right hle]
      have : j - pre.length = (j - pre.length - 1) + 1 := by omega
      rw [this]; simp

/-! ### unfolding `swapAt` -/

/-- `b` with its sections (write order) replaced -/
def Buf.withSecs (b : Buf) (secs : List Sec) : Buf := { b with rsecs := secs.reverse }

/-- a section with its ops (write order) replaced; header (`chunk`, `value`) kept -/
def Sec.withOps (s : Sec) (ops : List Op) : Sec := { s with rops := ops.reverse }

@[simp] theorem Buf.secs_withSecs (b : Buf) (secs : List Sec) : (b.withSecs secs).secs = secs := by
  simp [Buf.withSecs, Buf.secs]

@[simp] theorem Sec.ops_withOps (s : Sec) (ops : List Op) : (s.withOps ops).ops = ops := by
  simp [Sec.withOps, Sec.ops]

@[simp] theorem Sec.chunk_withOps (s : Sec) (ops : List Op) : (s.withOps ops).chunk = s.chunk := rfl
@[simp] theorem Sec.value_withOps (s : Sec) (ops : List Op) : (s.withOps ops).value = s.value := rfl

/-- the k-th op of the chunk is the `pos`-th op of the located section -/
theorem secOps_getElem?_mid (pre post : List Sec) (sec : Sec) (chunk pos : Nat)
    (hc : sec.chunk = chunk) (hp : pos < sec.ops.length) :
    (secOps (pre ++ sec :: post) chunk)[(secOps pre chunk).length + pos]? = sec.ops[pos]? := by
  rw [secOps_append, secOps_cons_pos sec post chunk hc,
    List.getElem?_append_right (by omega), List.getElem?_append_left (by omega)]
  congr 1; omega

/-- What `swapAt` computes, with `locate` and the index bookkeeping resolved: either `k` is past the
    chunk's ops and the result is `none`, or the k-th op `o` sits at position `pos` of a section
    `sec` of that chunk and the result rewrites exactly that op. -/
theorem swapAt_unfold (b : Buf) (chunk k : Nat) (v : Val) :
    ((b.rangeOps chunk)[k]? = none ∧ b.swapAt chunk k v = none) ∨
    ∃ pre sec post pos o, b.secs = pre ++ sec :: post ∧ sec.chunk = chunk ∧
      sec.ops[pos]? = some o ∧ k = (secOps pre chunk).length + pos ∧
      (b.rangeOps chunk)[k]? = some o ∧
      (sameShape o.val v = true → b.swapAt chunk k v =
          some (b.withSecs (pre ++ sec.withOps (rewriteNth sec.ops pos (fun o => swapInPlace o v)) :: post))) ∧
      (sameShape o.val v = false → ∀ bs, v = .str bs → b.swapAt chunk k v =
          some ((b.withSecs (pre ++ sec.withOps (rewriteNth sec.ops pos markSkip) :: post)).put
              ⟨opPut, o.idx, v⟩)) ∧
      (sameShape o.val v = false → (∀ bs, v ≠ .str bs) → b.swapAt chunk k v = none) := by
  cases hl : locate b.secs chunk k 0 with
  | none =>
    left
    refine ⟨?_, by simp [Buf.swapAt, hl]⟩
    rw [rangeOps_eq_secOps, List.getElem?_eq_none_iff]
    exact (locate_none_iff _ _ _ _).1 hl
  | some p =>
    obtain ⟨si, pos⟩ := p
    right
    obtain ⟨pre, sec, post, he, hsi, hsc, hp, hk⟩ := locate_some _ _ _ _ _ _ hl
    have hsi' : si = pre.length := by omega
    subst hsi'
    have hsec : b.secs[pre.length]? = some sec := by rw [he]; simp
    have hop : sec.ops[pos]? = some sec.ops[pos] := List.getElem?_eq_getElem hp
    refine ⟨pre, sec, post, pos, sec.ops[pos], he, hsc, hop, hk, ?_, ?_⟩
    · rw [rangeOps_eq_secOps, he, hk, secOps_getElem?_mid pre post sec chunk pos hsc hp, hop]
    · have hset : ∀ ops : List Op,
          (b.secs.mapIdx (fun j s => if j = pre.length then { s with rops := ops.reverse } else s))
            = pre ++ sec.withOps ops :: post := by
        intro ops
        rw [he]
        exact mapIdx_replace pre post sec (fun s => { s with rops := ops.reverse })
      refine ⟨?_, ?_, ?_⟩
      · intro hs
        simp only [Buf.swapAt, hl, hsec, hop, hset, hs, if_true]
        rfl
      · intro hs bs hv
        subst hv
        simp only [Buf.swapAt, hl, hsec, hop, hset, hs]
        rfl
      · intro hs hv
        cases v with
        | str bs => exact absurd rfl (hv bs)
        | fixed c bs => simp only [Buf.swapAt, hl, hsec, hop, hs]; rfl

/-! ### the invariant survives rewriting one section's ops (same offsets, well-formed ops) -/

theorem Buf.inv_replace (b : Buf) (h : b.Inv) (l1 l2 : List Sec) (sec : Sec) (rops' : List Op)
    (hr : b.rsecs = l1 ++ sec :: l2)
    (hidx : rops'.map Op.idx = sec.rops.map Op.idx) (hwf : ∀ o ∈ rops', o.WF) :
    ({ b with rsecs := l1 ++ { sec with rops := rops' } :: l2 } : Buf).Inv := by
  obtain ⟨h1, h2, h3, h4, h5⟩ := h
  have hmem : ∀ s, s ∈ l1 ++ ({ sec with rops := rops' } : Sec) :: l2 →
      s = { sec with rops := rops' } ∨ s ∈ b.rsecs := by
    intro s hs
    rw [hr]
    simp only [List.mem_append, List.mem_cons] at hs ⊢
    rcases hs with hs | hs | hs
    · exact Or.inr (Or.inl hs)
    · exact Or.inl hs
    · exact Or.inr (Or.inr (Or.inr hs))
  have hsec : sec ∈ b.rsecs := by rw [hr]; simp
  refine ⟨?_, ?_, ?_, ?_, ?_⟩
  · intro s hs o ho
    rcases hmem s hs with rfl | hs'
    · have : o.idx ∈ rops'.map Op.idx := List.mem_map.2 ⟨o, ho, rfl⟩
      rw [hidx] at this
      obtain ⟨o', ho', he⟩ := List.mem_map.1 this
      rw [← he]
      exact h1 sec hsec o' ho'
    · exact h1 s hs' o ho
  · intro s rest hsr c hc
    cases l1 with
    | nil =>
      simp only [List.nil_append, List.cons.injEq] at hsr
      rw [← hsr.1]
      exact h2 sec l2 (by simpa using hr) c hc
    | cons x l1' =>
      simp only [List.cons_append, List.cons.injEq] at hsr
      rw [← hsr.1]
      exact h2 x (l1' ++ sec :: l2) (by simpa using hr) c hc
  · intro hnil; simp at hnil
  · intro s rest hsr
    cases l1 with
    | nil =>
      simp only [List.nil_append, List.cons.injEq] at hsr
      rw [← hsr.1]
      have := h4 sec l2 (by simpa using hr)
      rw [← this]
      apply lastIdx_congr
      simp only [Sec.ops, List.map_reverse, hidx]
    | cons x l1' =>
      simp only [List.cons_append, List.cons.injEq] at hsr
      rw [← hsr.1]
      exact h4 x (l1' ++ sec :: l2) (by simpa using hr)
  · refine ⟨h5.1, ?_⟩
    intro s hs
    rcases hmem s hs with rfl | hs'
    · exact ⟨(h5.2 sec hsec).1, hwf⟩
    · exact h5.2 s hs'

/-- write-order version: section `sec` of `b.secs = pre ++ sec :: post` gets the ops `ops'` -/
theorem Buf.inv_withSecs (b : Buf) (h : b.Inv) (pre post : List Sec) (sec : Sec) (ops' : List Op)
    (he : b.secs = pre ++ sec :: post)
    (hidx : ops'.map Op.idx = sec.ops.map Op.idx) (hwf : ∀ o ∈ ops', o.WF) :
    (b.withSecs (pre ++ sec.withOps ops' :: post)).Inv := by
  have hr : b.rsecs = post.reverse ++ sec :: pre.reverse := by
    have : b.rsecs = b.secs.reverse := by simp [Buf.secs]
    rw [this, he]; simp
  have := Buf.inv_replace b h post.reverse pre.reverse sec ops'.reverse hr
    (by
      have : sec.rops = sec.ops.reverse := by simp [Sec.ops]
      rw [this, List.map_reverse, List.map_reverse, hidx])
    (by intro o ho; exact hwf o (by simpa using ho))
  have he2 : b.withSecs (pre ++ sec.withOps ops' :: post) =
      { b with rsecs := post.reverse ++ { sec with rops := ops'.reverse } :: pre.reverse } := by
    simp [Buf.withSecs, Sec.withOps]
  rw [he2]; exact this

/-- the chunk's flattened ops after rewriting position `pos` of the located section -/
theorem secOps_rewrite_same (pre post : List Sec) (sec : Sec) (chunk pos : Nat) (f : Op → Op)
    (hc : sec.chunk = chunk) (hp : pos < sec.ops.length) :
    secOps (pre ++ sec.withOps (rewriteNth sec.ops pos f) :: post) chunk =
      rewriteNth (secOps (pre ++ sec :: post) chunk) ((secOps pre chunk).length + pos) f := by
  rw [secOps_append, secOps_append, secOps_cons_pos _ post chunk (by simpa using hc),
    secOps_cons_pos sec post chunk hc, Sec.ops_withOps, ← List.append_assoc, ← List.append_assoc,
    rewriteNth_append3 _ _ _ _ _ hp]

/-- any other chunk's flattened ops do not see the rewritten section -/
theorem secOps_rewrite_other (pre post : List Sec) (sec : Sec) (c : Nat) (ops' : List Op)
    (hc : sec.chunk ≠ c) :
    secOps (pre ++ sec.withOps ops' :: post) c = secOps (pre ++ sec :: post) c := by
  rw [secOps_append, secOps_append, secOps_cons_neg _ post c (by simpa using hc),
    secOps_cons_neg sec post c hc]

/-- section-wise view (`Buf.range`): the list of per-section op lists of chunk `c` -/
def secRange (secs : List Sec) (c : Nat) : List (List Op) :=
  (secs.filter (fun s => s.chunk = c)).map Sec.ops

theorem range_eq_secRange (b : Buf) (c : Nat) : b.range c = secRange b.secs c := rfl

theorem secRange_append (xs ys : List Sec) (c : Nat) :
    secRange (xs ++ ys) c = secRange xs c ++ secRange ys c := by
  simp [secRange, List.filter_append]

theorem secRange_cons_pos (s : Sec) (rest : List Sec) (c : Nat) (h : s.chunk = c) :
    secRange (s :: rest) c = s.ops :: secRange rest c := by
  simp [secRange, h]

theorem secRange_cons_neg (s : Sec) (rest : List Sec) (c : Nat) (h : s.chunk ≠ c) :
    secRange (s :: rest) c = secRange rest c := by
  simp [secRange, h]

/-! ### `put` on the flattened ops of a chunk -/

theorem Buf.rangeOps_put (b : Buf) (o : Op) (c : Nat) (h : b.Inv) :
    (b.put o).rangeOps c = b.rangeOps c ++ (if chunkOf o.idx = c then [o] else []) := by
  rcases Buf.put_cases b o h with ⟨s, rest, hr, hc, hsc, he⟩ | ⟨hc, he⟩
  · rw [he]
    simp only [rangeOps_eq_secOps, Buf.secs, hr, List.reverse_cons, secOps_append]
    rw [List.append_assoc]
    congr 1
    by_cases hcc : chunkOf o.idx = c
    · rw [if_pos hcc, secOps_cons_pos _ _ _ (by simpa [hsc] using hcc),
        secOps_cons_pos _ _ _ (by simpa [hsc] using hcc)]
      simp [Sec.ops, secOps_nil]
    · rw [if_neg hcc, secOps_cons_neg _ _ _ (by simpa [hsc] using hcc),
        secOps_cons_neg _ _ _ (by simpa [hsc] using hcc)]
      simp
  · rw [he]
    simp only [rangeOps_eq_secOps, Buf.secs, List.reverse_cons, secOps_append]
    congr 1
    by_cases hcc : chunkOf o.idx = c
    · rw [if_pos hcc, secOps_cons_pos _ _ _ (by simpa using hcc)]
      simp [Sec.ops, secOps_nil]
    · rw [if_neg hcc, secOps_cons_neg _ _ _ (by simpa using hcc)]
      rfl

theorem Buf.range_put_other (b : Buf) (o : Op) (c : Nat) (h : b.Inv) (hc : chunkOf o.idx ≠ c) :
    (b.put o).range c = b.range c := by
  rcases Buf.put_cases b o h with ⟨s, rest, hr, hcur, hsc, he⟩ | ⟨hcur, he⟩
  · rw [he]
    simp only [range_eq_secRange, Buf.secs, hr, List.reverse_cons, secRange_append]
    rw [secRange_cons_neg _ _ _ (by simpa [hsc] using hc),
      secRange_cons_neg _ _ _ (by simpa [hsc] using hc)]
  · rw [he]
    simp only [range_eq_secRange, Buf.secs, List.reverse_cons, secRange_append]
    rw [secRange_cons_neg _ _ _ (by simpa using hc)]
    simp [secRange]

theorem secRange_rewrite_other (pre post : List Sec) (sec : Sec) (c : Nat) (ops' : List Op)
    (hc : sec.chunk ≠ c) :
    secRange (pre ++ sec.withOps ops' :: post) c = secRange (pre ++ sec :: post) c := by
  rw [secRange_append, secRange_append, secRange_cons_neg _ post c (by simpa using hc),
    secRange_cons_neg sec post c hc]

/-! ### per-offset views -/

/-- the ops on offset `i`, in order -/
def atIdx (ops : List Op) (i : Nat) : List Op := ops.filter (fun o => o.idx = i)

/-- the ops on offset `i` a later reader acts on: `Skip`-marked ones are passed over -/
def visible (ops : List Op) (i : Nat) : List Op :=
  ops.filter (fun o => o.idx = i ∧ o.typ ≠ opSkip)

/-- no op after position `k` is on offset `i` -/
def NoLater (ops : List Op) (k i : Nat) : Prop := ∀ o' ∈ ops.drop (k + 1), o'.idx ≠ i

instance (ops : List Op) (k i : Nat) : Decidable (NoLater ops k i) := by
  unfold NoLater; exact inferInstance

theorem atIdx_append (xs ys : List Op) (i : Nat) : atIdx (xs ++ ys) i = atIdx xs i ++ atIdx ys i := by
  simp [atIdx]

theorem visible_append (xs ys : List Op) (i : Nat) :
    visible (xs ++ ys) i = visible xs i ++ visible ys i := by
  simp [visible]

/-- rewriting an op that keeps its offset does not touch the other offsets -/
theorem atIdx_rewriteNth_ne (ops : List Op) (k : Nat) (f : Op → Op) (o : Op) (i : Nat)
    (ho : ops[k]? = some o) (hf : ∀ o, (f o).idx = o.idx) (hi : o.idx ≠ i) :
    atIdx (rewriteNth ops k f) i = atIdx ops i := by
  obtain ⟨pre, post, he, hl⟩ := split_at_getElem? ops k o ho
  subst hl; subst he
  rw [rewriteNth_mid]
  simp [atIdx, hf, hi]

/-- … and on its own offset rewrites exactly its occurrence -/
theorem atIdx_rewriteNth_eq (ops : List Op) (k : Nat) (f : Op → Op) (o : Op)
    (ho : ops[k]? = some o) (hf : ∀ o, (f o).idx = o.idx) :
    atIdx (rewriteNth ops k f) o.idx =
      rewriteNth (atIdx ops o.idx) (atIdx (ops.take k) o.idx).length f := by
  obtain ⟨pre, post, he, hl⟩ := split_at_getElem? ops k o ho
  subst hl; subst he
  rw [rewriteNth_mid]
  have ht : (pre ++ o :: post).take pre.length = pre := by simp
  rw [ht]
  have h1 : atIdx (pre ++ f o :: post) o.idx = atIdx pre o.idx ++ f o :: atIdx post o.idx := by
    simp [atIdx, hf]
  have h2 : atIdx (pre ++ o :: post) o.idx = atIdx pre o.idx ++ o :: atIdx post o.idx := by
    simp [atIdx]
  rw [h1, h2, rewriteNth_mid]

/-- `Skip` + appended `Put` is, per offset, the merge turned into a put — provided nothing later in
    the chunk is on that offset -/
theorem visible_resize (ops : List Op) (k : Nat) (o : Op) (v : Val) (i : Nat)
    (ho : ops[k]? = some o) (hno : NoLater ops k o.idx) :
    visible (rewriteNth ops k markSkip ++ [⟨opPut, o.idx, v⟩]) i =
      visible (rewriteNth ops k (fun o => ⟨opPut, o.idx, v⟩)) i := by
  obtain ⟨pre, post, he, hl⟩ := split_at_getElem? ops k o ho
  subst hl; subst he
  have hpost : ∀ o' ∈ post, o'.idx ≠ o.idx := by
    intro o' ho'
    apply hno o'
    simpa using ho'
  rw [rewriteNth_mid, rewriteNth_mid]
  have hskip : visible [markSkip o] i = [] := by simp [visible, markSkip]
  have hne : opPut ≠ opSkip := by decide
  by_cases hi : o.idx = i
  · have hp : visible post i = [] := by
      simp only [visible, List.filter_eq_nil_iff]
      intro o' ho'
      have := hpost o' ho'
      simp [← hi, this]
    have hput : visible [⟨opPut, o.idx, v⟩] i = [⟨opPut, o.idx, v⟩] := by
      simp [visible, hi, hne]
    rw [show pre ++ markSkip o :: post = pre ++ ([markSkip o] ++ post) from rfl,
      show pre ++ (⟨opPut, o.idx, v⟩ : Op) :: post = pre ++ ([(⟨opPut, o.idx, v⟩ : Op)] ++ post) from rfl]
    simp only [visible_append, hskip, hp, hput, List.append_nil]
  · have hput : visible [⟨opPut, o.idx, v⟩] i = [] := by
      simp [visible, hi]
    rw [show pre ++ markSkip o :: post = pre ++ ([markSkip o] ++ post) from rfl,
      show pre ++ (⟨opPut, o.idx, v⟩ : Op) :: post = pre ++ ([(⟨opPut, o.idx, v⟩ : Op)] ++ post) from rfl]
    simp only [visible_append, hskip, hput, List.nil_append, List.append_nil]

/-- the other offsets never notice the resizing swap -/
theorem visible_resize_other (ops : List Op) (k : Nat) (o : Op) (v : Val) (i : Nat)
    (ho : ops[k]? = some o) (hi : o.idx ≠ i) :
    visible (rewriteNth ops k markSkip ++ [⟨opPut, o.idx, v⟩]) i = visible ops i := by
  obtain ⟨pre, post, he, hl⟩ := split_at_getElem? ops k o ho
  subst hl; subst he
  rw [rewriteNth_mid]
  simp [visible, markSkip, hi]

/-! ### the two outcomes of `swapAt`, section-wise -/

/-- the located section, with everything `swapAt` needs to know about it -/
structure Located (b : Buf) (chunk k : Nat) (o : Op) (pre : List Sec) (sec : Sec) (post : List Sec)
    (pos : Nat) : Prop where
  secs_eq : b.secs = pre ++ sec :: post
  chunk_eq : sec.chunk = chunk
  op_eq : sec.ops[pos]? = some o
  k_eq : k = (secOps pre chunk).length + pos

theorem Located.pos_lt {b : Buf} {chunk k : Nat} {o : Op} {pre : List Sec} {sec : Sec}
    {post : List Sec} {pos : Nat} (h : Located b chunk k o pre sec post pos) :
    pos < sec.ops.length := by
  have := h.op_eq
  rcases Nat.lt_or_ge pos sec.ops.length with hlt | hge
  · exact hlt
  · rw [List.getElem?_eq_none_iff.2 hge] at this; simp at this

theorem Located.mem_ops {b : Buf} {chunk k : Nat} {o : Op} {pre : List Sec} {sec : Sec}
    {post : List Sec} {pos : Nat} (h : Located b chunk k o pre sec post pos) : o ∈ sec.ops :=
  List.mem_iff_getElem?.2 ⟨pos, h.op_eq⟩

theorem Located.mem_rsecs {b : Buf} {chunk k : Nat} {o : Op} {pre : List Sec} {sec : Sec}
    {post : List Sec} {pos : Nat} (h : Located b chunk k o pre sec post pos) : sec ∈ b.rsecs := by
  have : sec ∈ b.secs := by rw [h.secs_eq]; simp
  simpa [Buf.secs] using this

theorem swapAt_inplace_secs (b : Buf) (chunk k : Nat) (v : Val) (b' : Buf) (o : Op)
    (ho : (b.rangeOps chunk)[k]? = some o) (hs : sameShape o.val v = true)
    (h : b.swapAt chunk k v = some b') :
    ∃ pre sec post pos, Located b chunk k o pre sec post pos ∧
      b' = b.withSecs (pre ++ sec.withOps (rewriteNth sec.ops pos (fun o => swapInPlace o v)) :: post) := by
  rcases swapAt_unfold b chunk k v with ⟨hn, _⟩ | ⟨pre, sec, post, pos, o', he, hc, hop, hk, ho', h1, _, _⟩
  · rw [hn] at ho; simp at ho
  · rw [ho] at ho'
    simp only [Option.some.injEq] at ho'
    subst ho'
    rw [h1 hs] at h
    simp only [Option.some.injEq] at h
    exact ⟨pre, sec, post, pos, ⟨he, hc, hop, hk⟩, h.symm⟩

theorem swapAt_resize_secs (b : Buf) (chunk k : Nat) (v : Val) (b' : Buf) (o : Op) (bs : Bytes)
    (ho : (b.rangeOps chunk)[k]? = some o) (hs : sameShape o.val v = false) (hv : v = .str bs)
    (h : b.swapAt chunk k v = some b') :
    ∃ pre sec post pos, Located b chunk k o pre sec post pos ∧
      b' = (b.withSecs (pre ++ sec.withOps (rewriteNth sec.ops pos markSkip) :: post)).put
            ⟨opPut, o.idx, v⟩ := by
  rcases swapAt_unfold b chunk k v with ⟨hn, _⟩ | ⟨pre, sec, post, pos, o', he, hc, hop, hk, ho', _, h2, _⟩
  · rw [hn] at ho; simp at ho
  · rw [ho] at ho'
    simp only [Option.some.injEq] at ho'
    subst ho'
    rw [h2 hs bs hv] at h
    simp only [Option.some.injEq] at h
    exact ⟨pre, sec, post, pos, ⟨he, hc, hop, hk⟩, h.symm⟩

theorem swapInPlace_idx (v : Val) (o : Op) : (swapInPlace o v).idx = o.idx := rfl
theorem markSkip_idx (o : Op) : (markSkip o).idx = o.idx := rfl

theorem swapInPlace_WF (o : Op) (v : Val) (ho : o.WF) (hv : v.WF) : (swapInPlace o v).WF :=
  ⟨(by decide : opPut < 16), ho.2.1, hv⟩

theorem markSkip_WF (o : Op) (ho : o.WF) : (markSkip o).WF :=
  ⟨(by decide : opSkip < 16), ho.2.1, ho.2.2⟩

/-- rewriting the located op by an offset- and WF-preserving `f` keeps the invariant -/
theorem Located.inv_rewrite {b : Buf} {chunk k : Nat} {o : Op} {pre : List Sec} {sec : Sec}
    {post : List Sec} {pos : Nat} (h : Located b chunk k o pre sec post pos) (hinv : b.Inv)
    (f : Op → Op) (hf : ∀ o, (f o).idx = o.idx) (hw : ∀ o, o.WF → (f o).WF) :
    (b.withSecs (pre ++ sec.withOps (rewriteNth sec.ops pos f) :: post)).Inv := by
  apply Buf.inv_withSecs b hinv pre post sec _ h.secs_eq (map_idx_rewriteNth _ _ _ hf)
  intro x hx
  have hsw : ∀ y ∈ sec.ops, y.WF := by
    intro y hy
    exact (hinv.lt_ok.2 sec h.mem_rsecs).2 y (by simpa [Sec.ops] using hy)
  rcases mem_rewriteNth _ _ _ _ hx with hx | ⟨y, hy, rfl⟩
  · exact hsw x hx
  · exact hw y (hsw y (List.mem_iff_getElem?.2 ⟨pos, hy⟩))

theorem Located.rangeOps_rewrite {b : Buf} {chunk k : Nat} {o : Op} {pre : List Sec} {sec : Sec}
    {post : List Sec} {pos : Nat} (h : Located b chunk k o pre sec post pos) (f : Op → Op) :
    (b.withSecs (pre ++ sec.withOps (rewriteNth sec.ops pos f) :: post)).rangeOps chunk =
      rewriteNth (b.rangeOps chunk) k f := by
  rw [rangeOps_eq_secOps, rangeOps_eq_secOps, Buf.secs_withSecs, h.secs_eq, h.k_eq]
  exact secOps_rewrite_same pre post sec chunk pos f h.chunk_eq h.pos_lt

theorem Located.range_rewrite_other {b : Buf} {chunk k : Nat} {o : Op} {pre : List Sec} {sec : Sec}
    {post : List Sec} {pos : Nat} (h : Located b chunk k o pre sec post pos) (ops' : List Op)
    (c : Nat) (hc : c ≠ chunk) :
    (b.withSecs (pre ++ sec.withOps ops' :: post)).range c = b.range c := by
  rw [range_eq_secRange, range_eq_secRange, Buf.secs_withSecs, h.secs_eq]
  exact secRange_rewrite_other pre post sec c ops' (by rw [h.chunk_eq]; exact fun e => hc e.symm)

/-- section-wise shape of the chunk after a rewrite: same number of sections, same lengths -/
theorem Located.range_rewrite_lengths {b : Buf} {chunk k : Nat} {o : Op} {pre : List Sec} {sec : Sec}
    {post : List Sec} {pos : Nat} (h : Located b chunk k o pre sec post pos) (f : Op → Op) (c : Nat) :
    ((b.withSecs (pre ++ sec.withOps (rewriteNth sec.ops pos f) :: post)).range c).map List.length =
      (b.range c).map List.length := by
  rw [range_eq_secRange, range_eq_secRange, Buf.secs_withSecs, h.secs_eq]
  simp only [secRange_append, List.map_append]
  congr 1
  by_cases hc : sec.chunk = c
  · rw [secRange_cons_pos _ _ _ (by simpa using hc), secRange_cons_pos _ _ _ hc]
    simp [length_rewriteNth]
  · rw [secRange_cons_neg _ _ _ (by simpa using hc), secRange_cons_neg _ _ _ hc]

end ColumnVerif.Codec
