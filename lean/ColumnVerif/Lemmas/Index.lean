import ColumnVerif.Lemmas.Apply
import ColumnVerif.Model.Txn
/-!
Lemmas for C03 / C19: what the computed pass (`applyOther`) does to a bitmap index and to a trigger,
and how the numeric main pass (`stepNum`) rewrites the ops that the computed pass then sees.
-/
namespace ColumnVerif.Store
open ColumnVerif.Codec ColumnVerif.Bits

/-! ## I1 — bitmap index: one op, then the fold -/

/-- `columnIndex.Apply`, one op (the body of the fold in `applyOther`) -/
def idxStep (rule : RuleFn) (c : Col) (o : Op) : Col :=
  if o.typ = opPut then
    if rule o then { c with bits := Bits.set c.bits o.idx } else { c with bits := Bits.remove c.bits o.idx }
  else if o.typ = opDelete then { c with bits := Bits.remove c.bits o.idx }
  else c

/-- effect of one op on the index bit of its own offset -/
def bitEffect (rule : RuleFn) (b : Bool) (op : Op) : Bool :=
  if op.typ = opPut then rule op else if op.typ = opDelete then false else b

theorem applyOther_index (c : Col) (target : String) (rule : RuleFn) (hk : c.kind = .index target rule)
    (ops : List Op) : applyOther c ops = (ops.foldl (idxStep rule) c, false) := by
  unfold applyOther
  rw [hk]
  rfl

theorem idxStep_get (rule : RuleFn) (c : Col) (o : Op) (j : Nat) :
    Bits.get (idxStep rule c o).bits j =
      if j = o.idx then bitEffect rule (Bits.get c.bits j) o else Bits.get c.bits j := by
  unfold idxStep bitEffect
  by_cases h1 : o.typ = opPut
  · rw [if_pos h1, if_pos h1]
    by_cases hr : rule o = true
    · rw [if_pos hr]
      simp only [get_set]
      by_cases e : j = o.idx <;> simp [e, hr]
    · rw [if_neg hr]
      simp only [get_remove]
      by_cases e : j = o.idx <;> simp [e, hr]
  · rw [if_neg h1, if_neg h1]
    by_cases h3 : o.typ = opDelete
    · rw [if_pos h3, if_pos h3]
      simp only [get_remove]
      by_cases e : j = o.idx <;> simp [e]
    · rw [if_neg h3, if_neg h3]
      split <;> rfl

/-- everything but the bitmap is left alone by the index step -/
structure SameButBits (c c' : Col) : Prop where
  kind : c'.kind = c.kind
  name : c'.name = c.name
  merge : c'.merge = c.merge
  computed : c'.computed = c.computed
  nchunks : c'.nchunks = c.nchunks
  data : c'.data = c.data
  trig : c'.trig = c.trig
  entries : c'.entries = c.entries

theorem SameButBits.refl (c : Col) : SameButBits c c := ⟨rfl, rfl, rfl, rfl, rfl, rfl, rfl, rfl⟩

theorem SameButBits.trans {a b c : Col} (h1 : SameButBits a b) (h2 : SameButBits b c) : SameButBits a c :=
  ⟨h2.kind.trans h1.kind, h2.name.trans h1.name, h2.merge.trans h1.merge, h2.computed.trans h1.computed,
   h2.nchunks.trans h1.nchunks, h2.data.trans h1.data, h2.trig.trans h1.trig, h2.entries.trans h1.entries⟩

theorem idxStep_same (rule : RuleFn) (c : Col) (o : Op) : SameButBits c (idxStep rule c o) := by
  unfold idxStep
  split
  · split <;> exact ⟨rfl, rfl, rfl, rfl, rfl, rfl, rfl, rfl⟩
  · split
    · exact ⟨rfl, rfl, rfl, rfl, rfl, rfl, rfl, rfl⟩
    · exact SameButBits.refl c

theorem foldIdx_same (rule : RuleFn) (ops : List Op) (c : Col) : SameButBits c (ops.foldl (idxStep rule) c) := by
  induction ops generalizing c with
  | nil => exact SameButBits.refl c
  | cons o os ih =>
    simp only [List.foldl_cons]
    exact SameButBits.trans (idxStep_same rule c o) (ih _)

/-- index: after the pass, the bit of every offset is the fold of the ops addressed to it, in order,
    over its previous value — for any rule -/
theorem foldIdx_get (rule : RuleFn) (ops : List Op) (c : Col) (j : Nat) :
    Bits.get (ops.foldl (idxStep rule) c).bits j =
      (ops.filter (fun o => o.idx = j)).foldl (bitEffect rule) (Bits.get c.bits j) := by
  induction ops generalizing c with
  | nil => simp
  | cons o os ih =>
    simp only [List.foldl_cons]
    rw [ih, idxStep_get]
    by_cases e : o.idx = j
    · simp [e]
    · have : ¬ j = o.idx := fun h => e h.symm
      simp [e, this]

/-- an offset no op of the section addresses keeps its bit -/
theorem foldIdx_get_frame (rule : RuleFn) (ops : List Op) (c : Col) (j : Nat) (h : ∀ o ∈ ops, o.idx ≠ j) :
    Bits.get (ops.foldl (idxStep rule) c).bits j = Bits.get c.bits j := by
  rw [foldIdx_get]
  have : ops.filter (fun o => o.idx = j) = [] := by
    rw [List.filter_eq_nil_iff]
    intro o ho
    simpa using h o ho
  rw [this]; rfl

/-! ## I2 — trigger -/

def isStoreOrDelete (o : Op) : Bool := decide (o.typ = opPut ∨ o.typ = opDelete)

def trigEvent (o : Op) : TrigEvent := ⟨o.idx, o.typ, valRaw o.val⟩

def trigStep (c : Col) (o : Op) : Col :=
  if o.typ = opPut ∨ o.typ = opDelete then { c with trig := ⟨o.idx, o.typ, valRaw o.val⟩ :: c.trig } else c

theorem applyOther_trigger (c : Col) (target : String) (hk : c.kind = .trigger target) (ops : List Op) :
    applyOther c ops = (ops.foldl trigStep c, false) := by
  unfold applyOther
  rw [hk]
  rfl

theorem foldTrig_trig (ops : List Op) (c : Col) :
    (ops.foldl trigStep c).trig = ((ops.filter isStoreOrDelete).map trigEvent).reverse ++ c.trig := by
  induction ops generalizing c with
  | nil => simp
  | cons o os ih =>
    simp only [List.foldl_cons]
    rw [ih]
    unfold trigStep
    by_cases h : o.typ = opPut ∨ o.typ = opDelete
    · rw [if_pos h]
      have : isStoreOrDelete o = true := by simp [isStoreOrDelete, h]
      simp [this, trigEvent]
    · rw [if_neg h]
      have : isStoreOrDelete o = false := by simp [isStoreOrDelete, h]
      simp [this]

/-- everything but the call log is left alone by the trigger step -/
theorem foldTrig_same (ops : List Op) (c : Col) :
    (ops.foldl trigStep c).kind = c.kind ∧ (ops.foldl trigStep c).name = c.name ∧
    (ops.foldl trigStep c).bits = c.bits ∧ (ops.foldl trigStep c).data = c.data := by
  induction ops generalizing c with
  | nil => simp
  | cons o os ih =>
    simp only [List.foldl_cons]
    obtain ⟨h1, h2, h3, h4⟩ := ih (trigStep c o)
    rw [h1, h2, h3, h4]
    unfold trigStep
    split <;> simp

/-! ## I3 — the numeric main pass as a column step plus an op rewriting -/

/-- the column part of `stepNum` -/
def stepCol (k : NumKind) (c : Col) (o : Op) : Col :=
  if o.typ = opPut then
    { c with bits := c.bits.setIfInBounds o.idx true, data := c.data.setIfInBounds o.idx (valRaw o.val) }
  else if o.typ = opMerge then
    { c with bits := c.bits.setIfInBounds o.idx true,
             data := c.data.setIfInBounds o.idx (c.merge (padTo k.width (c.data.getD o.idx [])) (valRaw o.val)) }
  else if o.typ = opDelete then { c with bits := c.bits.setIfInBounds o.idx false }
  else c

/-- the op `stepNum` leaves in the buffer for `o`, given the column *before* the op -/
def outOp (k : NumKind) (c : Col) (o : Op) : Op :=
  if o.typ = opMerge then
    swapInPlace o (.fixed k.code (c.merge (padTo k.width (c.data.getD o.idx [])) (valRaw o.val)))
  else o

theorem stepNum_eq (k : NumKind) (acc : ApplyAcc) (o : Op) :
    stepNum k acc o = (stepCol k acc.1 o, outOp k acc.1 o :: acc.2.1, acc.2.2) := by
  obtain ⟨c, done, app⟩ := acc
  unfold stepNum stepCol outOp
  simp only
  by_cases h1 : o.typ = opPut
  · have h2 : ¬ o.typ = opMerge := by rw [h1]; decide
    rw [if_pos h1, if_pos h1, if_neg h2]
  · rw [if_neg h1, if_neg h1]
    by_cases h2 : o.typ = opMerge
    · rw [if_pos h2, if_pos h2, if_pos h2]
    · rw [if_neg h2, if_neg h2, if_neg h2]
      by_cases h3 : o.typ = opDelete
      · rw [if_pos h3, if_pos h3]
      · rw [if_neg h3, if_neg h3]

/-- the rewritten section, in op order -/
def rwList (k : NumKind) : Col → List Op → List Op
  | _, [] => []
  | c, o :: os => outOp k c o :: rwList k (stepCol k c o) os

theorem foldNum_eq (k : NumKind) (ops : List Op) (acc : ApplyAcc) :
    ops.foldl (stepNum k) acc =
      (ops.foldl (stepCol k) acc.1, (rwList k acc.1 ops).reverse ++ acc.2.1, acc.2.2) := by
  induction ops generalizing acc with
  | nil => simp [rwList]
  | cons o os ih =>
    simp only [List.foldl_cons]
    rw [ih, stepNum_eq]
    simp [rwList]

theorem stepCol_eq (k : NumKind) (c : Col) (o : Op) : stepCol k c o = (stepNum k (c, [], []) o).1 := by
  rw [stepNum_eq]

theorem stepCol_shape (k : NumKind) (c : Col) (o : Op) : SameShape c (stepCol k c o) := by
  rw [stepCol_eq]; exact stepNum_shape k (c, [], []) o

theorem foldCol_shape (k : NumKind) (ops : List Op) (c : Col) : SameShape c (ops.foldl (stepCol k) c) := by
  have := foldNum_shape k ops (c, [], [])
  rw [foldNum_eq] at this
  exact this

theorem stepCol_slot (k : NumKind) (c : Col) (o : Op) (i : Nat) (hb : o.idx < c.bits.size) (hd : o.idx < c.data.size) :
    slot (stepCol k c o) i = if i = o.idx then slotEffect c.merge k.width (slot c i) o else slot c i := by
  rw [stepCol_eq]; exact stepNum_slot k (c, [], []) o i hb hd

theorem InBounds.tailK {c : Col} {o : Op} {os : List Op} (k : NumKind) (h : InBounds c (o :: os)) :
    InBounds (stepCol k c o) os := by
  intro x hx
  have hs := stepCol_shape k c o
  rw [hs.bsize, hs.dsize]
  exact h x (by simp [hx])

/-- the column right after op `j` of the section has been processed (the prefix state) -/
def colAfter (k : NumKind) (c : Col) (ops : List Op) (j : Nat) : Col :=
  ((ops.take (j + 1)).foldl (stepNum k) (c, [], [])).1

/-- what the buffer holds in place of `o` after the pass, given the column `c'` right after `o` was processed -/
def finalOp (k : NumKind) (c' : Col) (o : Op) : Op :=
  if o.typ = opMerge then ⟨opPut, o.idx, .fixed k.code ((c'.data[o.idx]?).getD [])⟩ else o

theorem colAfter_zero (k : NumKind) (c : Col) (o : Op) (os : List Op) : colAfter k c (o :: os) 0 = stepCol k c o := by
  unfold colAfter
  simp [stepNum_eq]

theorem colAfter_succ (k : NumKind) (c : Col) (o : Op) (os : List Op) (j : Nat) :
    colAfter k c (o :: os) (j + 1) = colAfter k (stepCol k c o) os j := by
  unfold colAfter
  simp only [List.take_succ_cons, List.foldl_cons]
  rw [foldNum_eq, foldNum_eq, stepNum_eq]

theorem colAfter_eq (k : NumKind) (c : Col) (ops : List Op) (j : Nat) :
    colAfter k c ops j = (ops.take (j + 1)).foldl (stepCol k) c := by
  unfold colAfter; rw [foldNum_eq]

theorem stepCol_data_self (k : NumKind) (c : Col) (o : Op) (hb : o.idx < c.bits.size) (hd : o.idx < c.data.size) :
    ((stepCol k c o).data[o.idx]?).getD [] = (slotEffect c.merge k.width (slot c o.idx) o).2 := by
  have := stepCol_slot k c o o.idx hb hd
  rw [if_pos rfl] at this
  rw [← this]; rfl

theorem stepCol_data_put (k : NumKind) (c : Col) (o : Op) (hb : o.idx < c.bits.size) (hd : o.idx < c.data.size)
    (h : o.typ = opPut) : ((stepCol k c o).data[o.idx]?).getD [] = valRaw o.val := by
  rw [stepCol_data_self k c o hb hd]; unfold slotEffect; rw [if_pos h]

theorem stepCol_data_merge (k : NumKind) (c : Col) (o : Op) (hb : o.idx < c.bits.size) (hd : o.idx < c.data.size)
    (h : o.typ = opMerge) :
    ((stepCol k c o).data[o.idx]?).getD [] = c.merge (padTo k.width (c.data.getD o.idx [])) (valRaw o.val) := by
  rw [stepCol_data_self k c o hb hd]; unfold slotEffect slot
  have h1 : ¬ o.typ = opPut := by rw [h]; decide
  rw [if_neg h1, if_pos h, getD_eq]

theorem outOp_eq_finalOp (k : NumKind) (c : Col) (o : Op) (hb : o.idx < c.bits.size) (hd : o.idx < c.data.size) :
    outOp k c o = finalOp k (stepCol k c o) o := by
  unfold outOp finalOp
  by_cases h : o.typ = opMerge
  · rw [if_pos h, if_pos h, stepCol_data_merge k c o hb hd h]; rfl
  · rw [if_neg h, if_neg h]

/-- I3: the rewritten section is the original one with every `Merge` replaced, in place, by a `Put` of the
    value the column holds at that offset right after that op -/
theorem rwList_eq_mapIdx (k : NumKind) (ops : List Op) (c : Col) (hin : InBounds c ops) :
    rwList k c ops = ops.mapIdx (fun j o => finalOp k (colAfter k c ops j) o) := by
  induction ops generalizing c with
  | nil => simp [rwList]
  | cons o os ih =>
    have ho := hin o (by simp)
    rw [rwList, List.mapIdx_cons, colAfter_zero, outOp_eq_finalOp k c o ho.1 ho.2, ih _ (hin.tailK k)]
    simp only [colAfter_succ]

theorem outOp_idx (k : NumKind) (c : Col) (o : Op) : (outOp k c o).idx = o.idx := by
  unfold outOp; split <;> rfl

theorem outOp_typ_ne_merge (k : NumKind) (c : Col) (o : Op) : (outOp k c o).typ ≠ opMerge := by
  unfold outOp
  split
  · simp only [swapInPlace]; decide
  · assumption

theorem outOp_of_ne_merge (k : NumKind) (c : Col) (o : Op) (h : o.typ ≠ opMerge) : outOp k c o = o := by
  unfold outOp; rw [if_neg h]

theorem length_rwList (k : NumKind) (ops : List Op) (c : Col) : (rwList k c ops).length = ops.length := by
  induction ops generalizing c with
  | nil => rfl
  | cons o os ih => simp [rwList, ih]

theorem map_idx_rwList (k : NumKind) (ops : List Op) (c : Col) :
    (rwList k c ops).map (·.idx) = ops.map (·.idx) := by
  induction ops generalizing c with
  | nil => rfl
  | cons o os ih => simp [rwList, ih, outOp_idx]

theorem rwList_no_merge (k : NumKind) (ops : List Op) (c : Col) : ∀ o ∈ rwList k c ops, o.typ ≠ opMerge := by
  induction ops generalizing c with
  | nil => intro o h; simp [rwList] at h
  | cons o os ih =>
    intro x hx
    simp only [rwList, List.mem_cons] at hx
    rcases hx with rfl | hx
    · exact outOp_typ_ne_merge k c o
    · exact ih _ x hx

/-! ## I6 — what a trigger sees of a rewritten numeric section -/

/-- the call a trigger receives for op `o`, given the column `c'` right after `o` was processed -/
def eventAfter (c' : Col) (o : Op) : Option TrigEvent :=
  if o.typ = opPut ∨ o.typ = opMerge then some ⟨o.idx, opPut, (c'.data[o.idx]?).getD []⟩
  else if o.typ = opDelete then some ⟨o.idx, opDelete, valRaw o.val⟩
  else none

theorem trig_of_outOp (k : NumKind) (c : Col) (o : Op) (hb : o.idx < c.bits.size) (hd : o.idx < c.data.size) :
    (if isStoreOrDelete (outOp k c o) = true then some (trigEvent (outOp k c o)) else none) =
      eventAfter (stepCol k c o) o := by
  unfold eventAfter
  by_cases h1 : o.typ = opPut
  · have h2 : o.typ ≠ opMerge := by rw [h1]; decide
    rw [outOp_of_ne_merge k c o h2, if_pos (Or.inl h1), stepCol_data_put k c o hb hd h1]
    simp [isStoreOrDelete, trigEvent, h1]
  · by_cases h2 : o.typ = opMerge
    · rw [if_pos (Or.inr h2), stepCol_data_merge k c o hb hd h2]
      unfold outOp
      rw [if_pos h2]
      simp [isStoreOrDelete, trigEvent, swapInPlace, valRaw]
    · rw [outOp_of_ne_merge k c o h2]
      have h12 : ¬ (o.typ = opPut ∨ o.typ = opMerge) := by
        intro h; cases h <;> contradiction
      rw [if_neg h12]
      by_cases h3 : o.typ = opDelete
      · rw [if_pos h3]
        simp [isStoreOrDelete, trigEvent, h3]
      · rw [if_neg h3]
        simp [isStoreOrDelete, h1, h3]

theorem trig_rwList (k : NumKind) (ops : List Op) (c : Col) (hin : InBounds c ops) :
    ((rwList k c ops).filter isStoreOrDelete).map trigEvent =
      (ops.mapIdx (fun j o => eventAfter (colAfter k c ops j) o)).filterMap id := by
  induction ops generalizing c with
  | nil => simp [rwList]
  | cons o os ih =>
    have ho := hin o (by simp)
    have h := trig_of_outOp k c o ho.1 ho.2
    rw [rwList, List.mapIdx_cons, colAfter_zero, List.filterMap_cons, ← h]
    simp only [colAfter_succ]
    rw [← ih _ (hin.tailK k), List.filter_cons]
    by_cases hs : isStoreOrDelete (outOp k c o) = true
    · rw [if_pos hs, if_pos hs]; simp
    · rw [if_neg hs, if_neg hs]; simp

/-! ## I4 — the index invariant is kept by main pass + computed pass -/

/-- "the index holds exactly the present rows whose current value satisfies the rule" — the value is shown to the
    rule the way a snapshot / a `Put` shows it (`Put` op, fixed-size value of the column's width) -/
def IndexInv (col idx : Col) (k : NumKind) (rule : RuleFn) : Prop :=
  ∀ o, Bits.get idx.bits o =
    (Bits.get col.bits o && rule ⟨opPut, o, .fixed k.code (padTo k.width ((col.data[o]?).getD []))⟩)

/-- every `Put` of the section carries a value of the column's size code and width -/
def CanonPuts (k : NumKind) (ops : List Op) : Prop :=
  ∀ o ∈ ops, o.typ = opPut → ∃ bs, o.val = .fixed k.code bs ∧ bs.length = k.width

theorem NumKind.width_pos (k : NumKind) : 0 < k.width := by cases k <;> decide

theorem padTo_of_ne_nil (w : Nat) (bs : Bytes) (h : bs ≠ []) : padTo w bs = bs := by
  unfold padTo
  have : ¬ bs.length = 0 := by
    intro h0; exact h (List.eq_nil_of_length_eq_zero h0)
  rw [if_neg this]

theorem indexInv_step (k : NumKind) (rule : RuleFn) (col idx : Col) (o : Op)
    (hb : o.idx < col.bits.size) (hd : o.idx < col.data.size)
    (hcan : o.typ = opPut → ∃ bs, o.val = .fixed k.code bs ∧ bs.length = k.width)
    (hm : o.typ = opMerge → ∀ a d, col.merge a d ≠ [])
    (hinv : IndexInv col idx k rule) :
    IndexInv (stepCol k col o) (idxStep rule idx (outOp k col o)) k rule := by
  intro j
  rw [idxStep_get, outOp_idx]
  have hs := stepCol_slot k col o j hb hd
  have hbit : Bits.get (stepCol k col o).bits j = (slot (stepCol k col o) j).1 := rfl
  have hdat : ((stepCol k col o).data[j]?).getD [] = (slot (stepCol k col o) j).2 := rfl
  rw [hbit, hdat, hs]
  by_cases e : j = o.idx
  · subst e
    rw [if_pos rfl, if_pos rfl]
    unfold slotEffect bitEffect
    by_cases h1 : o.typ = opPut
    · have h2 : o.typ ≠ opMerge := by rw [h1]; decide
      obtain ⟨bs, hv, hl⟩ := hcan h1
      rw [outOp_of_ne_merge k col o h2, if_pos h1, if_pos h1]
      have hne : bs ≠ [] := by
        intro h0; rw [h0] at hl; have := k.width_pos; simp at hl; omega
      simp only [hv, valRaw, padTo_of_ne_nil _ _ hne, Bool.true_and]
      rw [← hv, ← h1]
    · rw [if_neg h1]
      by_cases h2 : o.typ = opMerge
      · rw [if_pos h2]
        have hout : outOp k col o = ⟨opPut, o.idx,
            .fixed k.code (col.merge (padTo k.width (col.data.getD o.idx [])) (valRaw o.val))⟩ := by
          unfold outOp; rw [if_pos h2]; rfl
        rw [hout]
        simp only [if_pos, slot, getD_eq, padTo_of_ne_nil _ _ (hm h2 _ _), Bool.true_and]
      · rw [if_neg h2, outOp_of_ne_merge k col o h2, if_neg h1]
        by_cases h3 : o.typ = opDelete
        · rw [if_pos h3, if_pos h3]; simp
        · rw [if_neg h3, if_neg h3]
          exact hinv o.idx
  · rw [if_neg e, if_neg e]
    exact hinv j

theorem indexInv_fold (k : NumKind) (rule : RuleFn) (ops : List Op) (col idx : Col)
    (hin : InBounds col ops) (hcan : CanonPuts k ops)
    (hm : ∀ o ∈ ops, o.typ = opMerge → ∀ a d, col.merge a d ≠ [])
    (hinv : IndexInv col idx k rule) :
    IndexInv (ops.foldl (stepCol k) col) ((rwList k col ops).foldl (idxStep rule) idx) k rule := by
  induction ops generalizing col idx with
  | nil => exact hinv
  | cons o os ih =>
    have ho := hin o (by simp)
    simp only [List.foldl_cons, rwList]
    apply ih
    · exact hin.tailK k
    · intro x hx; exact hcan x (by simp [hx])
    · rw [(stepCol_shape k col o).merge]; intro x hx; exact hm x (by simp [hx])
    · exact indexInv_step k rule col idx o ho.1 ho.2 (hcan o (by simp)) (hm o (by simp)) hinv

/-! ## I5 — back-fill of one chunk from a snapshot -/

theorem snapshotOps_num (c : Col) (k : NumKind) (hk : c.kind = .num k) (ch : Nat) (hch : ch < c.nchunks) :
    c.snapshotOps ch =
      (((List.range 16384).filter (fun x => Bits.get c.bits (16384 * ch + x))).map
        (fun x => (⟨opPut, 16384 * ch + x, .fixed k.code (padTo k.width (c.data.getD (16384 * ch + x) []))⟩ : Op)), false) := by
  unfold Col.snapshotOps
  rw [hk]
  simp only
  rw [if_neg (by omega)]

/-- an index fed with the `Put`s `⟨lo + x, g x⟩` for the `x < n` with `p x`, in ascending order -/
theorem foldIdx_snapshot (rule : RuleFn) (lo : Nat) (p : Nat → Bool) (g : Nat → Val) (n : Nat) (idx : Col) (j : Nat) :
    Bits.get ((((List.range n).filter p).map (fun x => (⟨opPut, lo + x, g x⟩ : Op))).foldl (idxStep rule) idx).bits j =
      if lo ≤ j ∧ j < lo + n ∧ p (j - lo) = true then rule ⟨opPut, j, g (j - lo)⟩ else Bits.get idx.bits j := by
  induction n with
  | zero =>
    have : ¬ (lo ≤ j ∧ j < lo + 0 ∧ p (j - lo) = true) := by omega
    rw [if_neg this]; rfl
  | succ n ih =>
    rw [List.range_succ, List.filter_append, List.map_append, List.foldl_append]
    by_cases hp : p n = true
    · have : [n].filter p = [n] := by simp [hp]
      rw [this]
      simp only [List.map_cons, List.map_nil, List.foldl_cons, List.foldl_nil]
      rw [idxStep_get, ih]
      simp only [bitEffect, if_pos]
      by_cases e : j = lo + n
      · subst e
        have h1 : lo + n - lo = n := by omega
        have h2 : lo ≤ lo + n ∧ lo + n < lo + (n + 1) ∧ p (lo + n - lo) = true := by
          rw [h1]; exact ⟨by omega, by omega, hp⟩
        rw [if_pos rfl, if_pos h2, h1]
      · rw [if_neg e]
        by_cases hc : lo ≤ j ∧ j < lo + n ∧ p (j - lo) = true
        · have hc' : lo ≤ j ∧ j < lo + (n + 1) ∧ p (j - lo) = true := ⟨hc.1, by omega, hc.2.2⟩
          rw [if_pos hc, if_pos hc']
        · have hc' : ¬ (lo ≤ j ∧ j < lo + (n + 1) ∧ p (j - lo) = true) := by
            intro h; apply hc; exact ⟨h.1, by omega, h.2.2⟩
          rw [if_neg hc, if_neg hc']
    · have : [n].filter p = [] := by simp [hp]
      rw [this]
      simp only [List.map_nil, List.foldl_nil]
      rw [ih]
      by_cases hc : lo ≤ j ∧ j < lo + n ∧ p (j - lo) = true
      · have hc' : lo ≤ j ∧ j < lo + (n + 1) ∧ p (j - lo) = true := ⟨hc.1, by omega, hc.2.2⟩
        rw [if_pos hc, if_pos hc']
      · have hc' : ¬ (lo ≤ j ∧ j < lo + (n + 1) ∧ p (j - lo) = true) := by
          intro h; apply hc
          refine ⟨h.1, ?_, h.2.2⟩
          by_cases e : j = lo + n
          · exfalso; apply hp; rw [← h.2.2, e]; congr 1; omega
          · omega
        rw [if_neg hc, if_neg hc']

/-- applying the snapshot of chunk `ch` of a numeric column to an index: the offsets of the chunk that are present
    get the rule's verdict on the current value, every other bit is left alone -/
theorem backfill_chunk_get (col idx : Col) (k : NumKind) (target : String) (rule : RuleFn)
    (hk : col.kind = .num k) (hik : idx.kind = .index target rule) (ch : Nat) (hch : ch < col.nchunks) (j : Nat) :
    Bits.get (applyOther idx (col.snapshotOps ch).1).1.bits j =
      if j / 16384 = ch ∧ Bits.get col.bits j = true then
        rule ⟨opPut, j, .fixed k.code (padTo k.width ((col.data[j]?).getD []))⟩
      else Bits.get idx.bits j := by
  rw [snapshotOps_num col k hk ch hch, applyOther_index idx target rule hik]
  simp only
  rw [foldIdx_snapshot rule (16384 * ch) (fun x => Bits.get col.bits (16384 * ch + x))
    (fun x => .fixed k.code (padTo k.width (col.data.getD (16384 * ch + x) []))) 16384 idx j]
  by_cases hc : j / 16384 = ch
  · have h1 : 16384 * ch ≤ j := by omega
    have h2 : j < 16384 * ch + 16384 := by omega
    have h3 : 16384 * ch + (j - 16384 * ch) = j := by omega
    simp only [h3, getD_eq, h1, h2, hc, true_and]
  · have : ¬ (16384 * ch ≤ j ∧ j < 16384 * ch + 16384 ∧ Bits.get col.bits (16384 * ch + (j - 16384 * ch)) = true) := by
      intro h; apply hc; omega
    rw [if_neg this, if_neg (fun h => hc h.1)]

/-! ## the passes as `applyData` / `Col.applyAny` / `Store.backfill` perform them -/

theorem applyData_num (hash : Bytes → Nat) (c : Col) (k : NumKind) (hk : c.kind = .num k) (chunk : Nat)
    (hch : chunk < c.nchunks) (ops : List Op) :
    applyData hash c chunk ops =
      { col := ops.foldl (stepCol k) c, ops := rwList k c ops, appended := [], panic := false } := by
  unfold applyData
  rw [if_neg (by omega), hk]
  simp only [stepOf]
  rw [foldNum_eq]
  simp

theorem applyAny_index (hash : Bytes → Nat) (c : Col) (target : String) (rule : RuleFn)
    (hk : c.kind = .index target rule) (chunk : Nat) (ops : List Op) :
    c.applyAny hash chunk ops = (ops.foldl (idxStep rule) c, false) := by
  have hd : c.kind.isData = false := by rw [hk]; rfl
  unfold Col.applyAny
  rw [if_neg (by rw [hd]; decide)]
  exact applyOther_index c target rule hk ops

theorem applyAny_trigger (hash : Bytes → Nat) (c : Col) (target : String)
    (hk : c.kind = .trigger target) (chunk : Nat) (ops : List Op) :
    c.applyAny hash chunk ops = (ops.foldl trigStep c, false) := by
  have hd : c.kind.isData = false := by rw [hk]; rfl
  unfold Col.applyAny
  rw [if_neg (by rw [hd]; decide)]
  exact applyOther_trigger c target hk ops

/-- one round of the back-fill loop -/
def bfStep (target : Col) (acc : Col × Bool) (chunk : Nat) : Col × Bool :=
  ((applyOther acc.1 (target.snapshotOps chunk).1).1,
   acc.2 || (target.snapshotOps chunk).2 || (applyOther acc.1 (target.snapshotOps chunk).1).2)

theorem backfill_eq (s : Store) (target idx : Col) (h : target.kind.isIndex = false) :
    s.backfill target idx = (List.range s.commits.size).foldl (bfStep target) (idx, false) := by
  unfold Store.backfill
  congr 1
  funext acc chunk
  obtain ⟨ic, p⟩ := acc
  simp [h, bfStep]

theorem backfill_upTo (target idx : Col) (k : NumKind) (t : String) (rule : RuleFn)
    (hk : target.kind = .num k) (hik : idx.kind = .index t rule) (n : Nat) (hn : n ≤ target.nchunks) :
    ((List.range n).foldl (bfStep target) (idx, false)).2 = false ∧
    SameButBits idx ((List.range n).foldl (bfStep target) (idx, false)).1 ∧
    ∀ j, Bits.get ((List.range n).foldl (bfStep target) (idx, false)).1.bits j =
      if j / 16384 < n ∧ Bits.get target.bits j = true then
        rule ⟨opPut, j, .fixed k.code (padTo k.width ((target.data[j]?).getD []))⟩
      else Bits.get idx.bits j := by
  induction n with
  | zero => simp [SameButBits.refl]
  | succ n ih =>
    obtain ⟨h1, h2, h3⟩ := ih (by omega)
    rw [List.range_succ, List.foldl_append]
    simp only [List.foldl_cons, List.foldl_nil]
    generalize (List.range n).foldl (bfStep target) (idx, false) = acc at h1 h2 h3
    have hak : acc.1.kind = .index t rule := by rw [h2.kind]; exact hik
    have hsn := snapshotOps_num target k hk n (by omega)
    refine ⟨?_, ?_, ?_⟩
    · unfold bfStep
      rw [applyOther_index acc.1 t rule hak, h1, hsn]
      rfl
    · unfold bfStep
      rw [applyOther_index acc.1 t rule hak]
      exact SameButBits.trans h2 (foldIdx_same rule _ _)
    · intro j
      unfold bfStep
      simp only
      rw [backfill_chunk_get target acc.1 k t rule hk hak n (by omega) j, h3]
      by_cases hb : Bits.get target.bits j = true
      · by_cases e : j / 16384 = n
        · have : j / 16384 < n + 1 := by omega
          simp [hb, e]
        · by_cases l : j / 16384 < n
          · have : j / 16384 < n + 1 := by omega
            simp [hb, e, l, this]
          · have : ¬ j / 16384 < n + 1 := by omega
            simp [e, l, this]
      · simp [hb]

theorem get_fresh_index (name : String) (kind : Kind) (t : String) (rule : RuleFn) (hk : kind = .index t rule)
    (cap j : Nat) : Bits.get (Col.grow { name := name, kind := kind } cap).bits j = false := by
  subst hk
  unfold Col.grow
  simp only
  rw [get_grow]
  rfl

/-- the prefix state after op `j` is one column step on the prefix state before it -/
theorem numeric_take_succ (k : NumKind) (c : Col) (ops : List Op) (j : Nat) (hj : j < ops.length) :
    ((ops.take (j + 1)).foldl (stepNum k) (c, [], [])).1 = stepCol k ((ops.take j).foldl (stepCol k) c) ops[j] := by
  rw [foldNum_eq, List.take_succ_eq_append_getElem hj, List.foldl_append]
  rfl

theorem isStoreOrDelete_outOp (k : NumKind) (c : Col) (o : Op) :
    isStoreOrDelete (outOp k c o) = decide (o.typ = opPut ∨ o.typ = opMerge ∨ o.typ = opDelete) := by
  by_cases h2 : o.typ = opMerge
  · unfold outOp
    rw [if_pos h2]
    simp [isStoreOrDelete, swapInPlace, h2]
  · rw [outOp_of_ne_merge k c o h2]
    simp [isStoreOrDelete, h2]

theorem count_rwList (k : NumKind) (ops : List Op) (c : Col) :
    ((rwList k c ops).filter isStoreOrDelete).length =
      (ops.filter (fun o => o.typ = opPut ∨ o.typ = opMerge ∨ o.typ = opDelete)).length := by
  induction ops generalizing c with
  | nil => rfl
  | cons o os ih =>
    rw [rwList, List.filter_cons, List.filter_cons, isStoreOrDelete_outOp]
    split <;> simp [ih]

/-! ## several sections: all main passes first, then all computed passes (the order `commitUpdates` uses) -/

theorem rwList_append (k : NumKind) (a b : List Op) (c : Col) :
    rwList k c (a ++ b) = rwList k c a ++ rwList k (a.foldl (stepCol k) c) b := by
  induction a generalizing c with
  | nil => rfl
  | cons o os ih => simp [rwList, ih]

theorem rwList_of_no_merge (k : NumKind) (ops : List Op) (c : Col) (h : ∀ o ∈ ops, o.typ ≠ opMerge) :
    rwList k c ops = ops := by
  induction ops generalizing c with
  | nil => rfl
  | cons o os ih =>
    rw [rwList, outOp_of_ne_merge k c o (h o (by simp)), ih _ (fun x hx => h x (by simp [hx]))]

/-- the rewritten sections, threading the column through -/
def rwSecs (k : NumKind) : Col → List (List Op) → List (List Op)
  | _, [] => []
  | c, ops :: rest => rwList k c ops :: rwSecs k (ops.foldl (stepCol k) c) rest

theorem rwSecs_flatten (k : NumKind) (secs : List (List Op)) (c : Col) :
    (rwSecs k c secs).flatten = rwList k c secs.flatten := by
  induction secs generalizing c with
  | nil => rfl
  | cons ops rest ih => simp [rwSecs, rwList_append, ih]

theorem length_rwSecs (k : NumKind) (secs : List (List Op)) (c : Col) : (rwSecs k c secs).length = secs.length := by
  induction secs generalizing c with
  | nil => rfl
  | cons ops rest ih => simp [rwSecs, ih]

/-- the main pass over the sections of a buffer, one `applyData` per section: column, rewritten sections, panic
    (for numeric columns `appended` is always empty, `applyData_num`, so the section list does not change) -/
def mainSecs (hash : Bytes → Nat) (chunk : Nat) (col : Col) (secs : List (List Op)) : Col × List (List Op) × Bool :=
  secs.foldl (fun (acc : Col × List (List Op) × Bool) ops =>
    let r := applyData hash acc.1 chunk ops
    (r.col, acc.2.1 ++ [r.ops], acc.2.2 || r.panic)) (col, [], false)

theorem mainSecs_num_aux (hash : Bytes → Nat) (chunk : Nat) (k : NumKind) (secs : List (List Op)) (c : Col)
    (hk : c.kind = .num k) (hch : chunk < c.nchunks) (acc : List (List Op)) :
    secs.foldl (fun (acc : Col × List (List Op) × Bool) ops =>
      ((applyData hash acc.1 chunk ops).col,
       acc.2.1 ++ [(applyData hash acc.1 chunk ops).ops],
       acc.2.2 || (applyData hash acc.1 chunk ops).panic)) (c, acc, false) =
      (secs.flatten.foldl (stepCol k) c, acc ++ rwSecs k c secs, false) := by
  induction secs generalizing c acc with
  | nil => simp [rwSecs]
  | cons ops rest ih =>
    simp only [List.foldl_cons]
    rw [applyData_num hash c k hk chunk hch]
    simp only [Bool.or_false]
    have hs := foldCol_shape k ops c
    rw [ih _ (by rw [hs.kind]; exact hk) (by rw [hs.nchunks]; exact hch)]
    simp [rwSecs]

theorem mainSecs_num (hash : Bytes → Nat) (chunk : Nat) (k : NumKind) (secs : List (List Op)) (c : Col)
    (hk : c.kind = .num k) (hch : chunk < c.nchunks) :
    mainSecs hash chunk c secs = (secs.flatten.foldl (stepCol k) c, rwSecs k c secs, false) := by
  unfold mainSecs
  have := mainSecs_num_aux hash chunk k secs c hk hch []
  simpa using this

/-- the computed pass over sections, one `applyOther` per section -/
def otherSecs (c : Col) (secs : List (List Op)) : Col × Bool :=
  secs.foldl (fun (acc : Col × Bool) ops => ((applyOther acc.1 ops).1, acc.2 || (applyOther acc.1 ops).2)) (c, false)

theorem otherSecs_index (c : Col) (target : String) (rule : RuleFn) (hk : c.kind = .index target rule)
    (secs : List (List Op)) : otherSecs c secs = (secs.flatten.foldl (idxStep rule) c, false) := by
  unfold otherSecs
  induction secs generalizing c with
  | nil => rfl
  | cons ops rest ih =>
    simp only [List.foldl_cons, List.flatten_cons, List.foldl_append]
    rw [applyOther_index c target rule hk]
    simp only [Bool.or_false]
    exact ih _ (by rw [(foldIdx_same rule ops c).kind]; exact hk)

theorem otherSecs_trigger (c : Col) (target : String) (hk : c.kind = .trigger target)
    (secs : List (List Op)) : otherSecs c secs = (secs.flatten.foldl trigStep c, false) := by
  unfold otherSecs
  induction secs generalizing c with
  | nil => rfl
  | cons ops rest ih =>
    simp only [List.foldl_cons, List.flatten_cons, List.foldl_append]
    rw [applyOther_trigger c target hk]
    simp only [Bool.or_false]
    exact ih _ (by rw [(foldTrig_same ops c).1]; exact hk)

/-! ## `mainPass` on a numeric column, section list level -/

theorem mapIdx_eq_self {α : Type} (l : List α) (f : Nat → α → α) (h : ∀ j a, j < l.length → f j a = a) :
    l.mapIdx f = l := by
  induction l generalizing f with
  | nil => rfl
  | cons x xs ih =>
    rw [List.mapIdx_cons, h 0 x (by simp), ih]
    intro j a hj
    exact h (j + 1) a (by simp; omega)

theorem replaceSec_append (P : List Sec) (x : Sec) (T : List Sec) (ops : List Op) :
    replaceSec (P ++ x :: T) P.length ops = P ++ { x with rops := ops.reverse } :: T := by
  unfold replaceSec
  rw [List.mapIdx_append, List.mapIdx_cons]
  congr 1
  · apply mapIdx_eq_self
    intro j a hj
    rw [if_neg (by omega)]
  · congr 1
    · simp
    · apply mapIdx_eq_self
      intro j a _
      rw [if_neg (by omega)]

/-- what the main pass of a numeric column makes of a list of sections: the sections of `chunk` are rewritten
    in turn (the column threaded through), the others are skipped -/
def mpSpec (k : NumKind) (chunk : Nat) : Col → List Sec → Col × List Sec
  | c, [] => (c, [])
  | c, sec :: rest =>
    if sec.chunk = chunk then
      ((mpSpec k chunk (sec.ops.foldl (stepCol k) c) rest).1,
       { sec with rops := (rwList k c sec.ops).reverse } :: (mpSpec k chunk (sec.ops.foldl (stepCol k) c) rest).2)
    else ((mpSpec k chunk c rest).1, sec :: (mpSpec k chunk c rest).2)

theorem mpSpec_append (k : NumKind) (chunk : Nat) (a b : List Sec) (c : Col) :
    mpSpec k chunk c (a ++ b) =
      ((mpSpec k chunk (mpSpec k chunk c a).1 b).1, (mpSpec k chunk c a).2 ++ (mpSpec k chunk (mpSpec k chunk c a).1 b).2) := by
  induction a generalizing c with
  | nil => simp [mpSpec]
  | cons x xs ih =>
    simp only [List.cons_append, mpSpec]
    split
    · simp [ih]
    · simp [ih]

theorem mpSpec_length (k : NumKind) (chunk : Nat) (S : List Sec) (c : Col) :
    (mpSpec k chunk c S).2.length = S.length := by
  induction S generalizing c with
  | nil => rfl
  | cons x xs ih =>
    simp only [mpSpec]
    split <;> simp [ih]

theorem mpSpec_shape (k : NumKind) (chunk : Nat) (S : List Sec) (c : Col) : SameShape c (mpSpec k chunk c S).1 := by
  induction S generalizing c with
  | nil => exact SameShape.refl c
  | cons x xs ih =>
    simp only [mpSpec]
    split
    · exact SameShape.trans (foldCol_shape k x.ops c) (ih _)
    · exact ih _

/-- column and rewritten sections of `chunk`, as `mainSecs` / `rwSecs` describe them -/
theorem mpSpec_range (k : NumKind) (chunk : Nat) (S : List Sec) (c : Col) :
    (mpSpec k chunk c S).1 = ((S.filter (fun s => s.chunk = chunk)).map Sec.ops).flatten.foldl (stepCol k) c ∧
    ((mpSpec k chunk c S).2.filter (fun s => s.chunk = chunk)).map Sec.ops =
      rwSecs k c ((S.filter (fun s => s.chunk = chunk)).map Sec.ops) := by
  induction S generalizing c with
  | nil => exact ⟨rfl, rfl⟩
  | cons x xs ih =>
    simp only [mpSpec]
    by_cases h : x.chunk = chunk
    · rw [if_pos h]
      obtain ⟨h1, h2⟩ := ih (x.ops.foldl (stepCol k) c)
      have hf : (x :: xs).filter (fun s => decide (s.chunk = chunk)) = x :: xs.filter (fun s => decide (s.chunk = chunk)) := by
        simp [h]
      rw [hf]
      constructor
      · simp only [h1, List.map_cons, List.flatten_cons, List.foldl_append]
      · simp only [List.filter_cons, h, decide_true, if_true, List.map_cons, rwSecs, h2]
        simp [Sec.ops]
    · rw [if_neg h]
      obtain ⟨h1, h2⟩ := ih c
      have hf : (x :: xs).filter (fun s => decide (s.chunk = chunk)) = xs.filter (fun s => decide (s.chunk = chunk)) := by
        simp [h]
      rw [hf]
      constructor
      · exact h1
      · simp only [List.filter_cons, h, decide_false, Bool.false_eq_true, if_false, h2]

/-- one round of the loop of `mainPass` -/
def mpStep (hash : Bytes → Nat) (chunk : Nat) (acc : Col × Buf × Bool) (i : Nat) : Col × Buf × Bool :=
  match acc.2.1.secs[i]? with
  | none => acc
  | some sec =>
    if sec.chunk ≠ chunk then acc
    else
      ((applyData hash acc.1 chunk sec.ops).col,
       ({ acc.2.1 with rsecs := (replaceSec acc.2.1.secs i (applyData hash acc.1 chunk sec.ops).ops).reverse } : Buf).putAll
          (applyData hash acc.1 chunk sec.ops).appended,
       acc.2.2 || (applyData hash acc.1 chunk sec.ops).panic)

theorem mainPass_eq (hash : Bytes → Nat) (col : Col) (chunk : Nat) (u : Buf) :
    mainPass hash col chunk u = (List.range u.rsecs.length).foldl (mpStep hash chunk) (col, u, false) := by
  unfold mainPass
  rfl

theorem secs_set (u : Buf) (X : List Sec) : ({ u with rsecs := X.reverse } : Buf).secs = X := by
  simp [Buf.secs]

theorem mainPass_upTo (hash : Bytes → Nat) (col : Col) (k : NumKind) (hk : col.kind = .num k) (chunk : Nat)
    (hch : chunk < col.nchunks) (u : Buf) (n : Nat) (hn : n ≤ u.secs.length) :
    (List.range n).foldl (mpStep hash chunk) (col, u, false) =
      ((mpSpec k chunk col (u.secs.take n)).1,
       { u with rsecs := ((mpSpec k chunk col (u.secs.take n)).2 ++ u.secs.drop n).reverse }, false) := by
  generalize hS : u.secs = S at hn
  induction n with
  | zero =>
    simp only [List.take_zero, mpSpec, List.nil_append, List.drop_zero, List.range_zero, List.foldl_nil]
    rw [← hS]
    simp [Buf.secs]
  | succ n ih =>
    have hlt : n < S.length := by omega
    rw [List.range_succ, List.foldl_append, ih (by omega)]
    simp only [List.foldl_cons, List.foldl_nil]
    have hPl : (mpSpec k chunk col (S.take n)).2.length = n := by
      rw [mpSpec_length, List.length_take]; omega
    have hdrop := List.drop_eq_getElem_cons hlt
    have htake := List.take_succ_eq_append_getElem hlt
    have hsh := mpSpec_shape k chunk (S.take n) col
    generalize hP : mpSpec k chunk col (S.take n) = R at hPl hsh
    have hget : (R.2 ++ S.drop n)[n]? = some S[n] := by
      rw [List.getElem?_append_right (by omega), hPl, hdrop]
      simp
    unfold mpStep
    simp only [secs_set]
    rw [hget]
    simp only
    rw [htake, mpSpec_append, hP]
    by_cases hc : S[n].chunk = chunk
    · have hc' : ¬ S[n].chunk ≠ chunk := fun h => h hc
      rw [if_neg hc']
      rw [applyData_num hash R.1 k (by rw [hsh.kind]; exact hk) chunk (by rw [hsh.nchunks]; exact hch)]
      simp only [Buf.putAll, List.foldl_nil, Bool.or_false, mpSpec, if_pos hc]
      rw [hdrop]
      have := replaceSec_append R.2 S[n] (S.drop (n + 1)) (rwList k R.1 S[n].ops)
      rw [hPl] at this
      rw [this]
      simp
    · have hc' : S[n].chunk ≠ chunk := hc
      rw [if_pos hc']
      simp only [mpSpec, if_neg hc]
      rw [hdrop]
      simp

/-- `mainPass` on a numeric column: no panic, the buffer keeps its sections (nothing appended), the column and the
    sections of `chunk` the computed pass will read are those of `mainSecs` -/
theorem mainPass_num (hash : Bytes → Nat) (col : Col) (k : NumKind) (hk : col.kind = .num k) (chunk : Nat)
    (hch : chunk < col.nchunks) (u : Buf) :
    (mainPass hash col chunk u).1 = (mainSecs hash chunk col (u.range chunk)).1 ∧
    (mainPass hash col chunk u).2.1.range chunk = (mainSecs hash chunk col (u.range chunk)).2.1 ∧
    (mainPass hash col chunk u).2.2 = false := by
  have hlen : u.rsecs.length = u.secs.length := by simp [Buf.secs]
  rw [mainPass_eq, hlen, mainPass_upTo hash col k hk chunk hch u u.secs.length (Nat.le_refl _),
    mainSecs_num hash chunk k _ col hk hch]
  simp only [List.take_length, List.drop_length, List.append_nil]
  obtain ⟨h1, h2⟩ := mpSpec_range k chunk u.secs col
  refine ⟨?_, ?_, trivial⟩
  · rw [h1]; rfl
  · unfold Buf.range
    rw [secs_set, h2]

end ColumnVerif.Store
