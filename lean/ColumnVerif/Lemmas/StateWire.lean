import ColumnVerif.Model.StateWire
import ColumnVerif.Lemmas.Wire
/-!
Helper lemmas for `Model/StateWire`: the snapshot state section (`writeState` / `readState`) round
trips (`Reads`) and is rejected on every strict prefix (`Cuts`), built from the toolkit of
`Lemmas/Wire`; the structural facts about `Store.snapshot` the reader relies on (buffer count per
chunk = column count of the header, chunk count = `nChunks`).
-/

/-! ### well-formedness: every field fits its wire width, every chunk carries `columns` buffers -/
namespace ColumnVerif.Store
open ColumnVerif.Codec ColumnVerif.Wire

/-- one chunk of the state section: the commit id is a `uint64`, the chunk carries exactly the
    number of buffers the header announces, every buffer fits `Buffer.WriteTo`'s format -/
structure ChunkState.WireWF (c : ChunkState) (columns : Nat) : Prop where
  last_lt : c.lastCommit < 2 ^ 64
  count_eq : c.buffers.length = columns
  bufs_wf : ∀ b ∈ c.buffers, (Buf.toRaw b).WF

instance (c : ChunkState) (columns : Nat) : Decidable (c.WireWF columns) :=
  decidable_of_iff (c.lastCommit < 2 ^ 64 ∧ c.buffers.length = columns ∧
      ∀ b ∈ c.buffers, (Buf.toRaw b).WF)
    ⟨fun ⟨a, b, c⟩ => ⟨a, b, c⟩, fun ⟨a, b, c⟩ => ⟨a, b, c⟩⟩

/-- the whole state section -/
structure Snap.WireWF (snap : Snap) : Prop where
  columns_lt : snap.columns < 2 ^ 64
  chunks_lt : snap.chunks.length < 2 ^ 64
  chunks_wf : ∀ c ∈ snap.chunks, c.WireWF snap.columns

instance (snap : Snap) : Decidable snap.WireWF :=
  decidable_of_iff (snap.columns < 2 ^ 64 ∧ snap.chunks.length < 2 ^ 64 ∧
      ∀ c ∈ snap.chunks, c.WireWF snap.columns)
    ⟨fun ⟨a, b, c⟩ => ⟨a, b, c⟩, fun ⟨a, b, c⟩ => ⟨a, b, c⟩⟩

/-- `WireWF` spelled out field by field -/
theorem Snap.wireWF_iff (snap : Snap) : snap.WireWF ↔
    snap.columns < 2 ^ 64 ∧ snap.chunks.length < 2 ^ 64 ∧
    ∀ c ∈ snap.chunks, c.lastCommit < 2 ^ 64 ∧ c.buffers.length = snap.columns ∧
      ∀ b ∈ c.buffers, (Buf.toRaw b).WF :=
  ⟨fun ⟨a, b, c⟩ => ⟨a, b, fun x hx => ⟨(c x hx).1, (c x hx).2, (c x hx).3⟩⟩,
   fun ⟨a, b, c⟩ => ⟨a, b, fun x hx => ⟨(c x hx).1, (c x hx).2.1, (c x hx).2.2⟩⟩⟩

end ColumnVerif.Store

namespace ColumnVerif.Wire
open ColumnVerif.Codec ColumnVerif.Store

/-! ### one chunk -/

/-- what `readState` rebuilds for one chunk -/
def chunkRaw (c : ChunkState) : RawChunkState := ⟨c.lastCommit, c.buffers.map Buf.toRaw⟩

/-- what `readState` parses out of the whole section -/
def stateRaw (snap : Snap) : Nat × List RawChunkState := (snap.columns, snap.chunks.map chunkRaw)

theorem buf_reads (b : Buf) (h : (Buf.toRaw b).WF) : Reads readRawBuf (encBuf b) (Buf.toRaw b) :=
  rawbuf_reads (Buf.toRaw b) h

theorem buf_cuts (b : Buf) (h : (Buf.toRaw b).WF) : Cuts readRawBuf (encBuf b) :=
  rawbuf_cuts (Buf.toRaw b) h

theorem chunk_reads (columns : Nat) (c : ChunkState) (h : c.WireWF columns) :
    Reads (readChunkState columns) (encChunkState c) (chunkRaw c) := by
  intro rest e
  unfold readChunkState encChunkState
  rw [List.append_assoc, uvarint_reads c.lastCommit h.last_lt]
  simp only
  rw [← h.count_eq, many_reads_map readRawBuf encBuf Buf.toRaw c.buffers
    (fun b hb => buf_reads b (h.bufs_wf b hb)) rest e]
  rfl

/-- a cut inside a chunk: in the commit id the error of `ReadUvarint` is passed on, in the buffers
    it is turned into a non-EOF error -/
theorem chunk_cuts (columns : Nat) (c : ChunkState) (h : c.WireWF columns) :
    Cuts (readChunkState columns) (encChunkState c) := by
  intro n e hn
  unfold encChunkState at hn ⊢
  simp only [List.length_append] at hn
  unfold readChunkState
  rcases seq_cut (uvarint_reads c.lastCommit h.last_lt) (uvarint_cuts c.lastCommit) _ n e with
    ⟨err, h1, hbad⟩ | ⟨hle1, h1⟩
  · exact ⟨err, by rw [h1], hbad⟩
  rw [h1]; simp only
  obtain ⟨err, h2, _⟩ := many_cuts_map readRawBuf encBuf Buf.toRaw c.buffers
    (fun b hb => buf_reads b (h.bufs_wf b hb)) (fun b hb => buf_cuts b (h.bufs_wf b hb))
    (n - (encUvarint c.lastCommit).length) e (by omega)
  rw [← h.count_eq, h2]
  exact ⟨.bad, rfl, fun _ => rfl⟩

/-- a cut that lies behind the chunk's commit id is never taken for a clean end -/
theorem chunk_cut_in_buffers (columns : Nat) (c : ChunkState) (h : c.WireWF columns) (n : Nat)
    (e : Bool) (hlo : (encUvarint c.lastCommit).length ≤ n) (hn : n < (encChunkState c).length) :
    readChunkState columns ⟨(encChunkState c).take n, e⟩ = .error .bad := by
  unfold encChunkState at hn ⊢
  simp only [List.length_append] at hn
  unfold readChunkState
  rcases seq_cut (uvarint_reads c.lastCommit h.last_lt) (uvarint_cuts c.lastCommit)
    (c.buffers.map encBuf).flatten n e with ⟨err, h1, _⟩ | ⟨_, h1⟩
  · exfalso
    rw [List.take_append, List.take_of_length_le hlo,
      uvarint_reads c.lastCommit h.last_lt] at h1
    cases h1
  rw [h1]; simp only
  obtain ⟨err, h2, _⟩ := many_cuts_map readRawBuf encBuf Buf.toRaw c.buffers
    (fun b hb => buf_reads b (h.bufs_wf b hb)) (fun b hb => buf_cuts b (h.bufs_wf b hb))
    (n - (encUvarint c.lastCommit).length) e (by omega)
  rw [← h.count_eq, h2]

theorem readChunkState_nil (columns : Nat) : readChunkState columns ⟨[], false⟩ = .error .eof := rfl

/-! ### the section -/

theorem encState_eq (snap : Snap) : encState snap =
    encUvarint 1 ++ (encUvarint snap.columns ++ encRange encChunkState snap.chunks) := by
  simp [encState, encRange, List.append_assoc]

theorem state_reads (snap : Snap) (h : snap.WireWF) :
    Reads readStateRaw (encState snap) (stateRaw snap) := by
  intro rest e
  rw [encState_eq]
  unfold readStateRaw
  simp only [List.append_assoc]
  rw [uvarint_reads 1 (by omega)]
  simp only
  rw [if_neg (by decide)]
  rw [uvarint_reads snap.columns h.columns_lt]
  simp only
  rw [range_reads_map (readChunkState snap.columns) encChunkState chunkRaw snap.chunks h.chunks_lt
    (fun c hc => chunk_reads snap.columns c (h.chunks_wf c hc)) rest e]
  rfl

theorem state_cuts (snap : Snap) (h : snap.WireWF) : Cuts readStateRaw (encState snap) := by
  intro n e hn
  rw [encState_eq] at hn ⊢
  simp only [List.length_append] at hn
  unfold readStateRaw
  rcases seq_cut (uvarint_reads 1 (by omega)) (uvarint_cuts 1) _ n e with
    ⟨err, h1, _⟩ | ⟨hle1, h1⟩
  · rw [h1]; exact ⟨.bad, rfl, fun _ => rfl⟩
  rw [h1]; simp only
  rw [if_neg (by decide)]
  rcases seq_cut (uvarint_reads snap.columns h.columns_lt) (uvarint_cuts snap.columns) _
    (n - (encUvarint 1).length) e with ⟨err, h2, hbad⟩ | ⟨hle2, h2⟩
  · exact ⟨err, by rw [h2], hbad⟩
  rw [h2]; simp only
  obtain ⟨err, h3, hbad⟩ := range_cuts_map (readChunkState snap.columns) encChunkState chunkRaw
    snap.chunks h.chunks_lt
    (fun c hc => chunk_reads snap.columns c (h.chunks_wf c hc))
    (fun c hc => chunk_cuts snap.columns c (h.chunks_wf c hc))
    (n - (encUvarint 1).length - (encUvarint snap.columns).length) e (by omega)
  exact ⟨err, by rw [h3], hbad⟩

/-- an empty state section is an error whatever the end flag: `readState` turns a failed version
    read into a non-EOF error -/
theorem readStateRaw_nil (e : Bool) : readStateRaw ⟨[], e⟩ = .error .bad := by
  cases e <;> rfl

/-- a version other than 1 is rejected -/
theorem readStateRaw_version (v : Nat) (hv : v < 2 ^ 64) (hne : v ≠ 1) (rest : Bytes) (e : Bool) :
    readStateRaw ⟨encUvarint v ++ rest, e⟩ = .error .bad := by
  unfold readStateRaw
  rw [uvarint_reads v hv]
  simp only
  rw [if_pos hne]

theorem encState_length_pos (snap : Snap) : 0 < (encState snap).length := by
  rw [encState_eq, List.length_append]
  have := encUvarint_length_pos 1
  omega

/-! ### rebuilding the buffers -/

/-- the buffer rebuilt from the raw record: same column, same `last`, same sections, hence the
    same operations for every chunk -/
theorem toRaw_toBuf_ops (b : Buf) (h : b.Inv) :
    ∃ b', (Buf.toRaw b).toBuf = some b' ∧ b'.column = b.column ∧ b'.last = b.last ∧
      b'.secs = b.secs ∧ b'.allOps = b.allOps ∧ ∀ ch, b'.rangeOps ch = b.rangeOps ch :=
  ⟨_, toRaw_toBuf b h, rfl, rfl, rfl, rfl, fun _ => rfl⟩

/-! ### `Store.snapshot`: counts -/

theorem chunkState_fold_length (ch : Nat) (l : List Col) (acc : List Buf × Bool) :
    (l.foldl (fun (acc : List Buf × Bool) c =>
      if c.kind.isIndex then acc
      else (acc.1 ++ [(Buf.empty c.name).putAll (c.snapshotOps ch).1],
        acc.2 || (c.snapshotOps ch).2)) acc).1.length =
    acc.1.length + (l.filter (fun c => !c.kind.isIndex)).length := by
  induction l generalizing acc with
  | nil => simp
  | cons c cs ih =>
    simp only [List.foldl_cons]
    by_cases hi : c.kind.isIndex = true
    · rw [if_pos hi, ih]; simp [hi]
    · rw [if_neg hi, ih]; simp [hi]; omega

/-- `row` buffer + one buffer per registry column that is not a bitmap index -/
theorem chunkState_buffers_length (s : Store) (ch : Nat) :
    (s.chunkState ch).1.buffers.length = (s.cols.filter (fun c => !c.kind.isIndex)).size + 1 := by
  have e : (s.chunkState ch).1.buffers.length =
      (s.cols.foldl (fun (acc : List Buf × Bool) c =>
        if c.kind.isIndex then acc
        else (acc.1 ++ [(Buf.empty c.name).putAll (c.snapshotOps ch).1],
          acc.2 || (c.snapshotOps ch).2)) ([], false)).1.length + 1 := rfl
  rw [e, ← Array.foldl_toList, chunkState_fold_length]
  simp [← Array.length_toList]

theorem snapshot_fold (s : Store) (l : List Nat) (acc : List ChunkState × Bool) :
    (l.foldl (fun (acc : List ChunkState × Bool) c =>
      (acc.1 ++ [(s.chunkState c).1], acc.2 || (s.chunkState c).2)) acc).1 =
    acc.1 ++ l.map (fun c => (s.chunkState c).1) := by
  induction l generalizing acc with
  | nil => simp
  | cons c cs ih => simp only [List.foldl_cons, ih]; simp

/-- the chunks of a snapshot are the chunk states of `0 … nChunks-1` -/
theorem snapshot_chunks (s : Store) :
    (s.snapshot).1.chunks = (List.range s.nChunks).map (fun c => (s.chunkState c).1) := by
  have e : (s.snapshot).1.chunks =
      ((List.range s.nChunks).foldl (fun (acc : List ChunkState × Bool) c =>
        (acc.1 ++ [(s.chunkState c).1], acc.2 || (s.chunkState c).2)) ([], false)).1 := rfl
  rw [e, snapshot_fold]; simp

theorem snapshot_columns (s : Store) :
    (s.snapshot).1.columns = (s.cols.filter (fun c => !c.kind.isIndex)).size + 1 := rfl

end ColumnVerif.Wire
