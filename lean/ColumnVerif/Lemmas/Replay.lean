import ColumnVerif.Lemmas.Index
import ColumnVerif.Lemmas.ApplyStr
import ColumnVerif.Conc.Invariants
/-!
Lemmas for C06 (a replica fed the change stream converges).

* Part 1 (sequential core, numeric columns): the section rewritten by the numeric main pass
  (`rwList` = what `stepNum` leaves in the buffer) replayed on *any* other column — other previous
  content, other merge function, even another numeric width — reproduces, offset by offset, the
  slot of the primary. The proof is a lock-step induction over the section: one op on the primary
  (`stepCol k c o`), its rewritten form on the replica (`stepCol k2 c2 (outOp k c o)`).
* Part 2 (schedule part, abstract machine): the value a commit leaves in a chunk (`valueAt`), the
  value a replica holds after replaying a stream of absolute writes (`replayStream`, `replicaAcc`).
-/
namespace ColumnVerif.Store
open ColumnVerif.Codec ColumnVerif.Bits

/-! ## Part 1 — numeric replay, one op -/

/-- a rewritten `Merge` is a `Put` of the merged value (the value the primary stored) -/
theorem outOp_merge (k : NumKind) (c : Col) (o : Op) (h : o.typ = opMerge) :
    outOp k c o = ⟨opPut, o.idx, .fixed k.code (c.merge (padTo k.width (c.data.getD o.idx [])) (valRaw o.val))⟩ := by
  unfold outOp; rw [if_pos h]; rfl

/-- The effect of the REWRITTEN op on a replica slot `t` — under any merge function `m2` and any
    width `w2` — is the effect of the original op on the primary slot, as soon as the op is a
    Put / Merge (absolute write) or the two slots were equal before. -/
theorem slotEffect_outOp (k : NumKind) (c : Col) (m2 : Bytes → Bytes → Bytes) (w2 : Nat) (o : Op)
    (t : Bool × Bytes) (h : (o.typ = opPut ∨ o.typ = opMerge) ∨ t = slot c o.idx) :
    slotEffect m2 w2 t (outOp k c o) = slotEffect c.merge k.width (slot c o.idx) o := by
  by_cases h1 : o.typ = opPut
  · have h2 : o.typ ≠ opMerge := by rw [h1]; decide
    rw [outOp_of_ne_merge k c o h2, slotEffect_put h1, slotEffect_put h1]
  · by_cases h2 : o.typ = opMerge
    · rw [outOp_merge k c o h2, slotEffect_put (o := ⟨opPut, o.idx, _⟩) rfl, slotEffect_merge h2]
      simp only [valRaw, slot, getD_eq]
    · rw [outOp_of_ne_merge k c o h2]
      rcases h with h | h
      · rcases h with h | h
        · exact absurd h h1
        · exact absurd h h2
      · subst h
        exact slotEffect_no_merge m2 c.merge w2 k.width _ o h2

/-- the same, keeping only what a reader can see (presence bit; value when present): a Delete
    also resynchronises -/
theorem slotEffect_outOp_vis (k : NumKind) (c : Col) (m2 : Bytes → Bytes → Bytes) (w2 : Nat) (o : Op)
    (t : Bool × Bytes)
    (h : (o.typ = opPut ∨ o.typ = opMerge ∨ o.typ = opDelete) ∨ VisEq t (slot c o.idx)) :
    VisEq (slotEffect m2 w2 t (outOp k c o)) (slotEffect c.merge k.width (slot c o.idx) o) := by
  by_cases h1 : o.typ = opPut
  · exact VisEq.of_eq (slotEffect_outOp k c m2 w2 o t (Or.inl (Or.inl h1)))
  · by_cases h2 : o.typ = opMerge
    · exact VisEq.of_eq (slotEffect_outOp k c m2 w2 o t (Or.inl (Or.inr h2)))
    · rw [outOp_of_ne_merge k c o h2]
      by_cases h3 : o.typ = opDelete
      · rw [slotEffect_delete h3, slotEffect_delete h3]
        exact ⟨rfl, fun h => by cases h⟩
      · rw [slotEffect_other h1 h2 h3, slotEffect_other h1 h2 h3]
        rcases h with h | h
        · rcases h with h | h | h
          · exact absurd h h1
          · exact absurd h h2
          · exact absurd h h3
        · exact h

/-- lock-step, one op: the primary applies `o`, the replica applies the rewritten `o`. Offset `i`
    is in sync afterwards if `o` is a Put / Merge on `i`, or if `i` was in sync before. -/
theorem stepCol_replay (k k2 : NumKind) (c c2 : Col) (o : Op) (i : Nat)
    (hb : o.idx < c.bits.size) (hd : o.idx < c.data.size)
    (hb2 : o.idx < c2.bits.size) (hd2 : o.idx < c2.data.size)
    (h : (o.idx = i ∧ (o.typ = opPut ∨ o.typ = opMerge)) ∨ slot c2 i = slot c i) :
    slot (stepCol k2 c2 (outOp k c o)) i = slot (stepCol k c o) i := by
  have hb2' : (outOp k c o).idx < c2.bits.size := by rw [outOp_idx]; exact hb2
  have hd2' : (outOp k c o).idx < c2.data.size := by rw [outOp_idx]; exact hd2
  rw [stepCol_slot k2 c2 _ i hb2' hd2', stepCol_slot k c o i hb hd, outOp_idx]
  by_cases e : i = o.idx
  · subst e
    rw [if_pos rfl, if_pos rfl]
    apply slotEffect_outOp
    rcases h with h | h
    · exact Or.inl h.2
    · exact Or.inr h
  · rw [if_neg e, if_neg e]
    rcases h with h | h
    · exact absurd h.1.symm e
    · exact h

theorem stepCol_replay_vis (k k2 : NumKind) (c c2 : Col) (o : Op) (i : Nat)
    (hb : o.idx < c.bits.size) (hd : o.idx < c.data.size)
    (hb2 : o.idx < c2.bits.size) (hd2 : o.idx < c2.data.size)
    (h : (o.idx = i ∧ (o.typ = opPut ∨ o.typ = opMerge ∨ o.typ = opDelete)) ∨
         VisEq (slot c2 i) (slot c i)) :
    VisEq (slot (stepCol k2 c2 (outOp k c o)) i) (slot (stepCol k c o) i) := by
  have hb2' : (outOp k c o).idx < c2.bits.size := by rw [outOp_idx]; exact hb2
  have hd2' : (outOp k c o).idx < c2.data.size := by rw [outOp_idx]; exact hd2
  rw [stepCol_slot k2 c2 _ i hb2' hd2', stepCol_slot k c o i hb hd, outOp_idx]
  by_cases e : i = o.idx
  · subst e
    rw [if_pos rfl, if_pos rfl]
    apply slotEffect_outOp_vis
    rcases h with h | h
    · exact Or.inl h.2
    · exact Or.inr h
  · rw [if_neg e, if_neg e]
    rcases h with h | h
    · exact absurd h.1.symm e
    · exact h

/-! ## Part 1 — numeric replay, the whole section -/

/-- the rewritten section addresses the same offsets: in bounds on the replica as well -/
theorem InBounds.rewritten {c2 : Col} {ops : List Op} (k : NumKind) (c : Col) (h : InBounds c2 ops) :
    InBounds c2 (rwList k c ops) := by
  intro x hx
  have hm : x.idx ∈ (rwList k c ops).map (·.idx) := List.mem_map.2 ⟨x, hx, rfl⟩
  rw [map_idx_rwList] at hm
  obtain ⟨o, ho, e⟩ := List.mem_map.1 hm
  rw [← e]; exact h o ho

/-- the rewritten section replayed on any other column: offset `i` ends with the primary's slot if a
    Put / Merge of the section addresses `i`, or if `i` was in sync before the section -/
theorem foldCol_replay (k k2 : NumKind) (ops : List Op) (c c2 : Col) (i : Nat)
    (hin : InBounds c ops) (hin2 : InBounds c2 ops)
    (hs : (∃ o ∈ ops, o.idx = i ∧ (o.typ = opPut ∨ o.typ = opMerge)) ∨ slot c2 i = slot c i) :
    slot ((rwList k c ops).foldl (stepCol k2) c2) i = slot (ops.foldl (stepCol k) c) i := by
  induction ops generalizing c c2 with
  | nil =>
    rcases hs with ⟨o, ho, _⟩ | hs
    · cases ho
    · exact hs
  | cons o os ih =>
    have ho := hin o (by simp)
    have ho2 := hin2 o (by simp)
    simp only [rwList, List.foldl_cons]
    have hin2' : InBounds (stepCol k2 c2 (outOp k c o)) os :=
      InBounds.of_shape (stepCol_shape k2 c2 _) (InBounds.tail hin2)
    apply ih _ _ (hin.tailK k) hin2'
    by_cases hh : (o.idx = i ∧ (o.typ = opPut ∨ o.typ = opMerge)) ∨ slot c2 i = slot c i
    · exact Or.inr (stepCol_replay k k2 c c2 o i ho.1 ho.2 ho2.1 ho2.2 hh)
    · rcases hs with ⟨x, hx, hx'⟩ | hs
      · rcases List.mem_cons.1 hx with rfl | hx
        · exact absurd (Or.inl hx') hh
        · exact Or.inl ⟨x, hx, hx'⟩
      · exact absurd (Or.inr hs) hh

/-- weaker start, weaker conclusion: a Put / Merge / Delete of the section on `i`, or slots that look
    the same to a reader before: the final slots look the same to a reader -/
theorem foldCol_replay_vis (k k2 : NumKind) (ops : List Op) (c c2 : Col) (i : Nat)
    (hin : InBounds c ops) (hin2 : InBounds c2 ops)
    (hs : (∃ o ∈ ops, o.idx = i ∧ (o.typ = opPut ∨ o.typ = opMerge ∨ o.typ = opDelete)) ∨
          VisEq (slot c2 i) (slot c i)) :
    VisEq (slot ((rwList k c ops).foldl (stepCol k2) c2) i) (slot (ops.foldl (stepCol k) c) i) := by
  induction ops generalizing c c2 with
  | nil =>
    rcases hs with ⟨o, ho, _⟩ | hs
    · cases ho
    · exact hs
  | cons o os ih =>
    have ho := hin o (by simp)
    have ho2 := hin2 o (by simp)
    simp only [rwList, List.foldl_cons]
    have hin2' : InBounds (stepCol k2 c2 (outOp k c o)) os :=
      InBounds.of_shape (stepCol_shape k2 c2 _) (InBounds.tail hin2)
    apply ih _ _ (hin.tailK k) hin2'
    by_cases hh : (o.idx = i ∧ (o.typ = opPut ∨ o.typ = opMerge ∨ o.typ = opDelete)) ∨
        VisEq (slot c2 i) (slot c i)
    · exact Or.inr (stepCol_replay_vis k k2 c c2 o i ho.1 ho.2 ho2.1 ho2.2 hh)
    · rcases hs with ⟨x, hx, hx'⟩ | hs
      · rcases List.mem_cons.1 hx with rfl | hx
        · exact absurd (Or.inl hx') hh
        · exact Or.inl ⟨x, hx, hx'⟩
      · exact absurd (Or.inr hs) hh

/-- an offset nothing addresses keeps its slot (any section, any numeric column) -/
theorem foldCol_frame (k : NumKind) (ops : List Op) (c : Col) (i : Nat) (hin : InBounds c ops)
    (hno : ∀ o ∈ ops, o.idx ≠ i) : slot (ops.foldl (stepCol k) c) i = slot c i := by
  have h := foldNum_slot k ops (c, [], []) i hin
  rw [foldNum_eq] at h
  rw [h]
  have : ops.filter (fun o => o.idx = i) = [] := by
    rw [List.filter_eq_nil_iff]
    intro o ho
    simpa using hno o ho
  rw [this]; rfl

theorem rwList_frame (k k2 : NumKind) (ops : List Op) (c c2 : Col) (i : Nat) (hin2 : InBounds c2 ops)
    (hno : ∀ o ∈ ops, o.idx ≠ i) : slot ((rwList k c ops).foldl (stepCol k2) c2) i = slot c2 i := by
  apply foldCol_frame k2 _ c2 i (hin2.rewritten k c)
  intro x hx
  have hm : x.idx ∈ (rwList k c ops).map (·.idx) := List.mem_map.2 ⟨x, hx, rfl⟩
  rw [map_idx_rwList] at hm
  obtain ⟨o, ho, e⟩ := List.mem_map.1 hm
  rw [← e]; exact hno o ho

theorem foldl_slotEffect_no_merge (m m' : Bytes → Bytes → Bytes) (w w' : Nat) (l : List Op)
    (st : Bool × Bytes) (h : ∀ o ∈ l, o.typ ≠ opMerge) :
    l.foldl (slotEffect m w) st = l.foldl (slotEffect m' w') st := by
  induction l generalizing st with
  | nil => rfl
  | cons o os ih =>
    simp only [List.foldl_cons]
    rw [slotEffect_no_merge m m' w w' st o (h o (by simp))]
    exact ih _ (fun x hx => h x (by simp [hx]))

/-- a merge-free section (such as a rewritten one) does the same to offset `i` of two columns that
    agree on `i`, whatever their merge functions and widths -/
theorem foldCol_no_merge_indep (k k' : NumKind) (ops : List Op) (c c' : Col) (i : Nat)
    (hin : InBounds c ops) (hin' : InBounds c' ops) (hnm : ∀ o ∈ ops, o.typ ≠ opMerge)
    (h : slot c' i = slot c i) :
    slot (ops.foldl (stepCol k') c') i = slot (ops.foldl (stepCol k) c) i := by
  have h1 := foldNum_slot k ops (c, [], []) i hin
  have h2 := foldNum_slot k' ops (c', [], []) i hin'
  rw [foldNum_eq] at h1 h2
  rw [h1, h2, h]
  apply foldl_slotEffect_no_merge
  intro o ho
  exact hnm o (List.mem_filter.1 ho).1

/-- what `stepNum` leaves in the buffer, in op order -/
theorem foldNum_rewritten (k : NumKind) (ops : List Op) (c : Col) :
    (ops.foldl (stepNum k) (c, [], [])).2.1.reverse = rwList k c ops := by
  rw [foldNum_eq]; simp

theorem foldNum_col (k : NumKind) (ops : List Op) (c : Col) :
    (ops.foldl (stepNum k) (c, [], [])).1 = ops.foldl (stepCol k) c := by
  rw [foldNum_eq]

/-! ## Part 1 — from equal slots to equal arrays / equal reads -/

/-- two numeric columns with the same slots and the same chunk count read the same everywhere -/
theorem read_num_of_slot_eq {c c2 : Col} {k k2 : NumKind} (hk : c.kind = .num k) (hk2 : c2.kind = .num k2)
    (hn : c2.nchunks = c.nchunks) (i : Nat) (h : slot c2 i = slot c i) : c2.read i = c.read i := by
  unfold Col.read
  rw [hk, hk2]
  simp only [getD_eq, hn]
  have h1 : Bits.get c2.bits i = Bits.get c.bits i := congrArg Prod.fst h
  have h2 : (c2.data[i]?).getD [] = (c.data[i]?).getD [] := congrArg Prod.snd h
  rw [h1, h2]

/-- a reader of a numeric column sees exactly the `VisEq` part of the slot -/
theorem read_num_of_visEq {c c2 : Col} {k k2 : NumKind} (hk : c.kind = .num k) (hk2 : c2.kind = .num k2)
    (hn : c2.nchunks = c.nchunks) (i : Nat) (h : VisEq (slot c2 i) (slot c i)) : c2.read i = c.read i := by
  unfold Col.read
  rw [hk, hk2]
  simp only [getD_eq, hn]
  obtain ⟨h1, h2⟩ := h
  have h1' : Bits.get c2.bits i = Bits.get c.bits i := h1
  rw [h1']
  by_cases hb : Bits.get c.bits i = true
  · have : (c2.data[i]?).getD [] = (c.data[i]?).getD [] := h2 (by rw [h1]; exact hb)
    rw [this]
  · simp [hb]

/-- equal slots everywhere + equal array sizes = equal arrays -/
theorem arrays_eq_of_slots {c c2 : Col} (hbs : c2.bits.size = c.bits.size) (hds : c2.data.size = c.data.size)
    (h : ∀ i, slot c2 i = slot c i) : c2.bits = c.bits ∧ c2.data = c.data := by
  constructor
  · apply Array.ext hbs
    intro i h1 h2
    have := congrArg Prod.fst (h i)
    simpa [slot, Bits.get, h1, h2] using this
  · apply Array.ext hds
    intro i h1 h2
    have := congrArg Prod.snd (h i)
    simpa [slot, h1, h2] using this

/-! ## Part 1 — through `applyData`, one commit and a history of commits -/

/-- one section through `applyData` on a numeric primary, its output through `applyData` on a numeric
    replica: offset `i` is in sync afterwards if a Put / Merge addresses it or it was in sync before -/
theorem applyData_num_replay (hash hash2 : Bytes → Nat) (k k2 : NumKind) (c c2 : Col) (chunk : Nat)
    (ops : List Op) (i : Nat) (hk : c.kind = .num k) (hk2 : c2.kind = .num k2)
    (hc : chunk < c.nchunks) (hc2 : chunk < c2.nchunks)
    (hin : InBounds c ops) (hin2 : InBounds c2 ops)
    (hs : (∃ o ∈ ops, o.idx = i ∧ (o.typ = opPut ∨ o.typ = opMerge)) ∨ slot c2 i = slot c i) :
    slot (applyData hash2 c2 chunk
        ((applyData hash c chunk ops).ops ++ (applyData hash c chunk ops).appended)).col i =
      slot (applyData hash c chunk ops).col i := by
  rw [applyData_num hash c k hk chunk hc ops]
  simp only [List.append_nil]
  rw [applyData_num hash2 c2 k2 hk2 chunk hc2]
  simp only
  exact foldCol_replay k k2 ops c c2 i hin hin2 hs

/-- kind, chunk count and array sizes survive `applyData` on a numeric column -/
theorem applyData_num_shape (hash : Bytes → Nat) (k : NumKind) (c : Col) (chunk : Nat) (ops : List Op)
    (hk : c.kind = .num k) (hc : chunk < c.nchunks) : SameShape c (applyData hash c chunk ops).col := by
  rw [applyData_num hash c k hk chunk hc ops]
  exact foldCol_shape k ops c

/-- A history of commits on one column. Each commit is one section `(chunk, ops)`. The primary
    applies them in turn; for each it emits what `applyData` leaves in the buffer at that moment:
    the rewritten section followed by the appended puts. Result: final column, emitted commits in
    emission order. -/
def primaryRun (hash : Bytes → Nat) : Col → List (Nat × List Op) → Col × List (Nat × List Op)
  | c, [] => (c, [])
  | c, p :: rest =>
    ((primaryRun hash (applyData hash c p.1 p.2).col rest).1,
     (p.1, (applyData hash c p.1 p.2).ops ++ (applyData hash c p.1 p.2).appended) ::
       (primaryRun hash (applyData hash c p.1 p.2).col rest).2)

/-- the replica applies the emitted commits in emission order with its own `applyData` -/
def replicaRun (hash : Bytes → Nat) (c2 : Col) (emitted : List (Nat × List Op)) : Col :=
  emitted.foldl (fun c p => (applyData hash c p.1 p.2).col) c2

theorem primaryRun_length (hash : Bytes → Nat) (commits : List (Nat × List Op)) (c : Col) :
    (primaryRun hash c commits).2.length = commits.length := by
  induction commits generalizing c with
  | nil => rfl
  | cons p rest ih => simp [primaryRun, ih]

/-- numeric columns, any history: offset `i` of the replica ends with the primary's slot if some
    Put / Merge of some commit addresses `i`, or if `i` was in sync before the history -/
theorem replicaRun_num (hash hash2 : Bytes → Nat) (k k2 : NumKind) (commits : List (Nat × List Op))
    (c c2 : Col) (i : Nat) (hk : c.kind = .num k) (hk2 : c2.kind = .num k2)
    (hok : ∀ p ∈ commits, p.1 < c.nchunks ∧ p.1 < c2.nchunks ∧ InBounds c p.2 ∧ InBounds c2 p.2)
    (hs : (∃ p ∈ commits, ∃ o ∈ p.2, o.idx = i ∧ (o.typ = opPut ∨ o.typ = opMerge)) ∨
          slot c2 i = slot c i) :
    slot (replicaRun hash2 c2 (primaryRun hash c commits).2) i = slot (primaryRun hash c commits).1 i := by
  induction commits generalizing c c2 with
  | nil =>
    rcases hs with ⟨p, hp, _⟩ | hs
    · cases hp
    · exact hs
  | cons p rest ih =>
    obtain ⟨hc, hc2, hin, hin2⟩ := hok p (by simp)
    have hsh := applyData_num_shape hash k c p.1 p.2 hk hc
    have hin2' : InBounds c2 ((applyData hash c p.1 p.2).ops ++ (applyData hash c p.1 p.2).appended) := by
      rw [applyData_num hash c k hk p.1 hc p.2]
      simp only [List.append_nil]
      exact hin2.rewritten k c
    have hsh2 := applyData_num_shape hash2 k2 c2 p.1
      ((applyData hash c p.1 p.2).ops ++ (applyData hash c p.1 p.2).appended) hk2 hc2
    simp only [primaryRun, replicaRun, List.foldl_cons]
    apply ih _ _ (hsh.kind.trans hk) (hsh2.kind.trans hk2)
    · intro q hq
      obtain ⟨q1, q2, q3, q4⟩ := hok q (by simp [hq])
      exact ⟨by rw [hsh.nchunks]; exact q1, by rw [hsh2.nchunks]; exact q2,
        InBounds.of_shape hsh q3, InBounds.of_shape hsh2 q4⟩
    · by_cases hh : (∃ o ∈ p.2, o.idx = i ∧ (o.typ = opPut ∨ o.typ = opMerge)) ∨ slot c2 i = slot c i
      · exact Or.inr (applyData_num_replay hash hash2 k k2 c c2 p.1 p.2 i hk hk2 hc hc2 hin hin2 hh)
      · rcases hs with ⟨q, hq, hq'⟩ | hs
        · rcases List.mem_cons.1 hq with rfl | hq
          · exact absurd (Or.inl hq') hh
          · exact Or.inl ⟨q, hq, hq'⟩
        · exact absurd (Or.inr hs) hh

/-- shape of the two final columns of a numeric history -/
theorem primaryRun_num_shape (hash : Bytes → Nat) (k : NumKind) (commits : List (Nat × List Op)) (c : Col)
    (hk : c.kind = .num k) (hok : ∀ p ∈ commits, p.1 < c.nchunks) :
    SameShape c (primaryRun hash c commits).1 := by
  induction commits generalizing c with
  | nil => exact SameShape.refl c
  | cons p rest ih =>
    have hsh := applyData_num_shape hash k c p.1 p.2 hk (hok p (by simp))
    simp only [primaryRun]
    refine SameShape.trans hsh (ih _ (hsh.kind.trans hk) ?_)
    intro q hq
    rw [hsh.nchunks]; exact hok q (by simp [hq])

theorem replicaRun_num_shape (hash : Bytes → Nat) (k : NumKind) (emitted : List (Nat × List Op)) (c : Col)
    (hk : c.kind = .num k) (hok : ∀ p ∈ emitted, p.1 < c.nchunks) :
    SameShape c (replicaRun hash c emitted) := by
  induction emitted generalizing c with
  | nil => exact SameShape.refl c
  | cons p rest ih =>
    have hsh := applyData_num_shape hash k c p.1 p.2 hk (hok p (by simp))
    simp only [replicaRun, List.foldl_cons]
    refine SameShape.trans hsh (ih _ (hsh.kind.trans hk) ?_)
    intro q hq
    rw [hsh.nchunks]; exact hok q (by simp [hq])

theorem primaryRun_chunks (hash : Bytes → Nat) (commits : List (Nat × List Op)) (c : Col) :
    (primaryRun hash c commits).2.map (·.1) = commits.map (·.1) := by
  induction commits generalizing c with
  | nil => rfl
  | cons p rest ih => simp [primaryRun, ih]

/-! ## Part 1 — strings: when nothing was appended the D12 guard holds -/

/-- no resizing merge in the section (nothing appended through the parent buffer): the guard of
    finding D12 holds for every offset -/
theorem noOpAfterResize_of_appended_nil (c : Col) (ops : List Op) (hin : InBounds c ops)
    (h : (ops.foldl stepStr (c, [], [])).2.2 = []) (i : Nat) :
    NoOpAfterResize i (traceStr (c, [], []) ops) := by
  rw [(foldStr_rewrite ops (c, [], []) hin).2, List.nil_append, List.filterMap_eq_nil_iff] at h
  apply List.pairwise_of_forall_mem_list
  intro a ha b _ _ hr
  have := h a ha
  unfold appOp at this
  rw [if_pos hr] at this
  cases this

/-! ## Part 1 — strings / records: one commit and a history of commits, under the D12 guard -/

theorem applyData_str_replay (hash hash2 : Bytes → Nat) (c c2 : Col) (chunk : Nat) (ops : List Op) (i : Nat)
    (hk : c.kind = .str ∨ c.kind = .record) (hk2 : c2.kind = .str ∨ c2.kind = .record)
    (hc : chunk < c.nchunks) (hc2 : chunk < c2.nchunks)
    (hin : InBounds c ops) (hin2 : InBounds c2 ops)
    (hg : NoOpAfterResize i (traceStr (c, [], []) ops))
    (hs : (∃ o ∈ ops, o.idx = i ∧ (o.typ = opPut ∨ o.typ = opMerge)) ∨ slot c2 i = slot c i) :
    slot (applyData hash2 c2 chunk
        ((applyData hash c chunk ops).ops ++ (applyData hash c chunk ops).appended)).col i =
      slot (applyData hash c chunk ops).col i := by
  rw [applyData_str hash c chunk ops hk hc, applyData_str hash2 c2 chunk _ hk2 hc2]
  exact foldStr_replay c c2 ops i hin hin2 hg hs

theorem applyData_str_shape (hash : Bytes → Nat) (c : Col) (chunk : Nat) (ops : List Op)
    (hk : c.kind = .str ∨ c.kind = .record) (hc : chunk < c.nchunks) :
    SameShape c (applyData hash c chunk ops).col := by
  rw [applyData_str hash c chunk ops hk hc]
  exact foldStr_shape ops (c, [], [])

/-- what a string primary emits for a section addresses only offsets of the section -/
theorem applyData_str_emitted_inBounds (hash : Bytes → Nat) (c c2 : Col) (chunk : Nat) (ops : List Op)
    (hk : c.kind = .str ∨ c.kind = .record) (hc : chunk < c.nchunks)
    (hin : InBounds c ops) (hin2 : InBounds c2 ops) :
    InBounds c2 ((applyData hash c chunk ops).ops ++ (applyData hash c chunk ops).appended) := by
  rw [applyData_str hash c chunk ops hk hc]
  obtain ⟨h1, h2⟩ := foldStr_rewrite ops (c, [], []) hin
  simp only [h1, h2, List.append_nil, List.reverse_reverse, List.nil_append]
  intro o ho
  obtain ⟨o', ho', e⟩ := rewritten_idx_mem (c, [], []) ops o ho
  rw [← e]; exact hin2 o' ho'

/-- the D12 guard along a history: every commit satisfies it on the column it is applied to -/
def GuardedRun (hash : Bytes → Nat) : Col → List (Nat × List Op) → Prop
  | _, [] => True
  | c, p :: rest =>
    (∀ i, NoOpAfterResize i (traceStr (c, [], []) p.2)) ∧ GuardedRun hash (applyData hash c p.1 p.2).col rest

theorem kind_str_of_shape {c c' : Col} (hs : SameShape c c') (hk : c.kind = .str ∨ c.kind = .record) :
    c'.kind = .str ∨ c'.kind = .record := by
  rw [hs.kind]; exact hk

/-- string / record columns, any guarded history: offset `i` of the replica ends with the primary's
    slot if some Put / Merge of some commit addresses `i`, or if `i` was in sync before -/
theorem replicaRun_str (hash hash2 : Bytes → Nat) (commits : List (Nat × List Op))
    (c c2 : Col) (i : Nat) (hk : c.kind = .str ∨ c.kind = .record) (hk2 : c2.kind = .str ∨ c2.kind = .record)
    (hok : ∀ p ∈ commits, p.1 < c.nchunks ∧ p.1 < c2.nchunks ∧ InBounds c p.2 ∧ InBounds c2 p.2)
    (hg : GuardedRun hash c commits)
    (hs : (∃ p ∈ commits, ∃ o ∈ p.2, o.idx = i ∧ (o.typ = opPut ∨ o.typ = opMerge)) ∨
          slot c2 i = slot c i) :
    slot (replicaRun hash2 c2 (primaryRun hash c commits).2) i = slot (primaryRun hash c commits).1 i := by
  induction commits generalizing c c2 with
  | nil =>
    rcases hs with ⟨p, hp, _⟩ | hs
    · cases hp
    · exact hs
  | cons p rest ih =>
    obtain ⟨hc, hc2, hin, hin2⟩ := hok p (by simp)
    obtain ⟨hg1, hg2⟩ := hg
    have hsh := applyData_str_shape hash c p.1 p.2 hk hc
    have hsh2 := applyData_str_shape hash2 c2 p.1
      ((applyData hash c p.1 p.2).ops ++ (applyData hash c p.1 p.2).appended) hk2 hc2
    simp only [primaryRun, replicaRun, List.foldl_cons]
    apply ih _ _ (kind_str_of_shape hsh hk) (kind_str_of_shape hsh2 hk2)
    · intro q hq
      obtain ⟨q1, q2, q3, q4⟩ := hok q (by simp [hq])
      exact ⟨by rw [hsh.nchunks]; exact q1, by rw [hsh2.nchunks]; exact q2,
        InBounds.of_shape hsh q3, InBounds.of_shape hsh2 q4⟩
    · exact hg2
    · by_cases hh : (∃ o ∈ p.2, o.idx = i ∧ (o.typ = opPut ∨ o.typ = opMerge)) ∨ slot c2 i = slot c i
      · exact Or.inr (applyData_str_replay hash hash2 c c2 p.1 p.2 i hk hk2 hc hc2 hin hin2 (hg1 i) hh)
      · rcases hs with ⟨q, hq, hq'⟩ | hs
        · rcases List.mem_cons.1 hq with rfl | hq
          · exact absurd (Or.inl hq') hh
          · exact Or.inl ⟨q, hq, hq'⟩
        · exact absurd (Or.inr hs) hh

end ColumnVerif.Store

/-! ## Part 2 — the replica of the abstract machine -/
namespace ColumnVerif.Conc

/-- the merged value chunk held right after the commit with id `id` was applied: the fold of the
    records from that one back to the oldest (`recs` is most recent first); `init` if there is no
    such record -/
def valueAt (merge : Nat → Nat → Nat) (init : Nat) : List Rec → Nat → Nat
  | [], _ => init
  | r :: older, id => if r.id = id then foldAcc merge init (r :: older) else valueAt merge init older id

/-- The replica of one chunk: it starts from `init` and replays the stream entries of the chunk in
    arrival order (`streamIds` is most recent first, hence `foldr`); each entry carries the absolute
    value its commit left (`valueAt`), which overwrites whatever the replica held — no merge
    function is consulted on the replica. -/
def replicaAcc (merge : Nat → Nat → Nat) (init : Nat) (applied : List Rec) (streamIds : List Nat) : Nat :=
  streamIds.foldr (fun id _ => valueAt merge init applied id) init

@[simp] theorem replicaAcc_nil (merge : Nat → Nat → Nat) (init : Nat) (applied : List Rec) :
    replicaAcc merge init applied [] = init := rfl

/-- absolute writes: the replica holds the value of the entry that arrived last -/
@[simp] theorem replicaAcc_cons (merge : Nat → Nat → Nat) (init : Nat) (applied : List Rec) (id : Nat)
    (older : List Nat) : replicaAcc merge init applied (id :: older) = valueAt merge init applied id := rfl

theorem replicaAcc_eq_head (merge : Nat → Nat → Nat) (init : Nat) (applied : List Rec) (s : List Nat) :
    replicaAcc merge init applied s =
      match s with
      | [] => init
      | id :: _ => valueAt merge init applied id := by
  cases s <;> rfl

theorem valueAt_head (merge : Nat → Nat → Nat) (init : Nat) (r : Rec) (older : List Rec) :
    valueAt merge init (r :: older) r.id = foldAcc merge init (r :: older) := by
  simp [valueAt]

theorem valueAt_of_ne (merge : Nat → Nat → Nat) (init : Nat) (r : Rec) (older : List Rec) (id : Nat)
    (h : r.id ≠ id) : valueAt merge init (r :: older) id = valueAt merge init older id := by
  simp [valueAt, h]

/-- meaning of `valueAt` when ids are distinct: whatever was applied after the commit is ignored -/
theorem valueAt_append (merge : Nat → Nat → Nat) (init : Nat) (newer : List Rec) (r : Rec) (older : List Rec)
    (h : ∀ x ∈ newer, x.id ≠ r.id) :
    valueAt merge init (newer ++ r :: older) r.id = foldAcc merge init (r :: older) := by
  induction newer with
  | nil => exact valueAt_head merge init r older
  | cons x xs ih =>
    rw [List.cons_append, valueAt_of_ne merge init x _ r.id (h x (by simp))]
    exact ih (fun y hy => h y (by simp [hy]))

/-- an id that is in no record: the replica would be handed the initial value (never happens on a
    reachable stream, `stream_subset_applied`) -/
theorem valueAt_of_not_mem (merge : Nat → Nat → Nat) (init : Nat) (recs : List Rec) (id : Nat)
    (h : ∀ r ∈ recs, r.id ≠ id) : valueAt merge init recs id = init := by
  induction recs with
  | nil => rfl
  | cons x xs ih =>
    rw [valueAt_of_ne merge init x xs id (h x (by simp))]
    exact ih (fun y hy => h y (by simp [hy]))

/-- the replica fed exactly the ids of the applied commits holds the fold of all of them -/
theorem replicaAcc_all (merge : Nat → Nat → Nat) (init : Nat) (applied : List Rec) :
    replicaAcc merge init applied (applied.map (·.id)) = foldAcc merge init applied := by
  cases applied with
  | nil => rfl
  | cons r older => simp [valueAt]

/-- the replica fed all ids but the most recent one holds the fold of all records but the most
    recent one (ids distinct) -/
theorem replicaAcc_tail (merge : Nat → Nat → Nat) (init : Nat) (applied : List Rec)
    (hnd : (applied.map (·.id)).Nodup) :
    replicaAcc merge init applied (applied.map (·.id)).tail = foldAcc merge init applied.tail := by
  cases applied with
  | nil => rfl
  | cons r older =>
    cases older with
    | nil => rfl
    | cons r2 older2 =>
      simp only [List.map_cons, List.tail_cons, replicaAcc_cons]
      have hne : r.id ≠ r2.id := by
        intro e
        simp only [List.map_cons, List.nodup_cons, List.mem_cons] at hnd
        exact hnd.1 (Or.inl e)
      rw [valueAt_of_ne merge init r _ r2.id hne, valueAt_head]

/-! ### the whole stream, all chunks -/

/-- a replica of all chunks replaying a whole stream (most recent first) of absolute writes:
    entry `(c, id)` sets chunk `c` to `val c id` -/
def replayStream (val : Nat → Nat → Nat) (init : Nat → Nat) : List (Nat × Nat) → Nat → Nat
  | [] => init
  | p :: older => fun d => if d = p.1 then val p.1 p.2 else replayStream val init older d

/-- the value of chunk `c` depends only on the sub-stream of `c` (its most recent entry) -/
theorem replayStream_chunk (val : Nat → Nat → Nat) (init : Nat → Nat) (s : List (Nat × Nat)) (c : Nat) :
    replayStream val init s c =
      ((s.filter (·.1 = c)).map (·.2)).foldr (fun id _ => val c id) (init c) := by
  induction s with
  | nil => rfl
  | cons p older ih =>
    by_cases e : p.1 = c
    · subst e
      simp [replayStream]
    · have e' : ¬ c = p.1 := fun h => e h.symm
      simp only [replayStream, if_neg e', List.filter_cons, e, decide_false]
      exact ih

end ColumnVerif.Conc
