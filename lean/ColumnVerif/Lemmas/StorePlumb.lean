import ColumnVerif.Model.Txn
import ColumnVerif.Lemmas.Apply
import ColumnVerif.Lemmas.Key
/-!
Store-level plumbing of a commit: what `setCol`, `commitMarkers`, `mainPass`, `computedPass`, `commitUpdates`,
`commitChunk`, `commitCapacity` leave alone (registry names, logger, change stream, ids, …), the `updated` flag of
`commitUpdates`, the emission of `commitChunk`.

Everything lives in the namespace `ColumnVerif.StorePlumb` (only `Store.names` is declared on `Store` itself) so that the
file can be imported next to any other lemma file.
-/
namespace ColumnVerif.StorePlumb
open ColumnVerif.Codec ColumnVerif.Bits ColumnVerif.Store

/-! ## column level: no `Apply` renames a column

(`Lemmas/ApplyStr` and `Lemmas/Index` cannot be imported together — both declare `InBounds.tail` — so this file imports
neither and re-proves the two shape facts it needs under private names.) -/

private theorem stepStr_shape' (acc : ApplyAcc) (o : Op) : SameShape acc.1 (stepStr acc o).1 := by
  obtain ⟨c, done, app⟩ := acc
  unfold stepStr
  simp only
  split
  · exact ⟨rfl, rfl, rfl, by simp, by simp, rfl, rfl⟩
  · split
    · split
      · exact ⟨rfl, rfl, rfl, by simp, by simp, rfl, rfl⟩
      · exact ⟨rfl, rfl, rfl, by simp, by simp, rfl, rfl⟩
    · split
      · exact ⟨rfl, rfl, rfl, by simp, rfl, rfl, rfl⟩
      · exact SameShape.refl c

private theorem stepEnum_shape' (hash : Bytes → Nat) (acc : ApplyAcc) (o : Op) :
    SameShape acc.1 (stepEnum hash acc o).1 := by
  obtain ⟨c, done, app⟩ := acc
  unfold stepEnum
  simp only
  split
  · exact ⟨rfl, rfl, rfl, by simp, by simp, rfl, rfl⟩
  · split
    · exact ⟨rfl, rfl, rfl, by simp, rfl, rfl, rfl⟩
    · exact SameShape.refl c

theorem stepOf_shape (hash : Bytes → Nat) (k : Kind) (acc : ApplyAcc) (o : Op) :
    SameShape acc.1 (stepOf hash k acc o).1 := by
  cases k with
  | num nk => exact stepNum_shape nk acc o
  | str => exact stepStr_shape' acc o
  | record => exact stepStr_shape' acc o
  | enum => exact stepEnum_shape' hash acc o
  | key => exact stepKey_shape acc o
  | bool => exact SameShape.refl _
  | index t r => exact SameShape.refl _
  | trigger t => exact SameShape.refl _
  | sorted t => exact SameShape.refl _

theorem foldStepOf_shape (hash : Bytes → Nat) (k : Kind) (ops : List Op) (acc : ApplyAcc) :
    SameShape acc.1 (ops.foldl (stepOf hash k) acc).1 := by
  induction ops generalizing acc with
  | nil => exact SameShape.refl _
  | cons o os ih =>
    simp only [List.foldl_cons]
    exact SameShape.trans (stepOf_shape hash k acc o) (ih _)

/-- `applyData` keeps name, kind, merge function, chunk count, array sizes and the attached computed columns -/
theorem applyData_shape (hash : Bytes → Nat) (c : Col) (chunk : Nat) (ops : List Op) :
    SameShape c (applyData hash c chunk ops).col := by
  unfold applyData
  split
  · exact SameShape.refl c
  · exact foldStepOf_shape hash c.kind ops (c, [], [])

theorem applyData_name (hash : Bytes → Nat) (c : Col) (chunk : Nat) (ops : List Op) :
    (applyData hash c chunk ops).col.name = c.name := (applyData_shape hash c chunk ops).name

/-- every step of a main pass records exactly one (possibly rewritten) op -/
theorem stepOf_done_length (hash : Bytes → Nat) (k : Kind) (acc : ApplyAcc) (o : Op) :
    (stepOf hash k acc o).2.1.length = acc.2.1.length + 1 := by
  obtain ⟨c, done, app⟩ := acc
  cases k with
  | num nk =>
    show (stepNum nk (c, done, app) o).2.1.length = _
    unfold stepNum
    simp only
    split
    · rfl
    · split
      · rfl
      · split <;> rfl
  | str =>
    show (stepStr (c, done, app) o).2.1.length = _
    unfold stepStr
    simp only
    split
    · rfl
    · split
      · split <;> rfl
      · split <;> rfl
  | record =>
    show (stepStr (c, done, app) o).2.1.length = _
    unfold stepStr
    simp only
    split
    · rfl
    · split
      · split <;> rfl
      · split <;> rfl
  | enum =>
    show (stepEnum hash (c, done, app) o).2.1.length = _
    unfold stepEnum
    simp only
    split
    · rfl
    · split <;> rfl
  | key =>
    show (stepKey (c, done, app) o).2.1.length = _
    unfold stepKey
    simp only
    split
    · rfl
    · split <;> rfl
  | bool => rfl
  | index t r => rfl
  | trigger t => rfl
  | sorted t => rfl

theorem foldStepOf_done_length (hash : Bytes → Nat) (k : Kind) (ops : List Op) (acc : ApplyAcc) :
    (ops.foldl (stepOf hash k) acc).2.1.length = acc.2.1.length + ops.length := by
  induction ops generalizing acc with
  | nil => rfl
  | cons o os ih =>
    simp only [List.foldl_cons, List.length_cons]
    rw [ih, stepOf_done_length]
    omega

/-- the rewritten section has as many ops as the section read (in-place rewriting) -/
theorem applyData_ops_length (hash : Bytes → Nat) (c : Col) (chunk : Nat) (ops : List Op) :
    (applyData hash c chunk ops).ops.length = ops.length := by
  unfold applyData
  split
  · rfl
  · simp only [List.length_reverse]
    rw [foldStepOf_done_length]
    simp

/-- an empty section appends nothing -/
theorem applyData_appended_nil (hash : Bytes → Nat) (c : Col) (chunk : Nat) :
    (applyData hash c chunk []).appended = [] := by
  unfold applyData
  split <;> rfl

theorem foldl_name {β : Type} (f : Col → β → Col) (hf : ∀ c b, (f c b).name = c.name) (l : List β) (c : Col) :
    (l.foldl f c).name = c.name := by
  induction l generalizing c with
  | nil => rfl
  | cons x xs ih => simp only [List.foldl_cons]; rw [ih, hf]

theorem foldl_name_fst {β γ : Type} (f : Col × γ → β → Col × γ) (hf : ∀ a b, (f a b).1.name = a.1.name)
    (l : List β) (a : Col × γ) : (l.foldl f a).1.name = a.1.name := by
  induction l generalizing a with
  | nil => rfl
  | cons x xs ih => simp only [List.foldl_cons]; rw [ih, hf]

/-- bool / index / trigger / sorted `Apply` (and the no-op on data kinds) keep the column's name -/
theorem applyOther_name (c : Col) (ops : List Op) : (applyOther c ops).1.name = c.name := by
  unfold applyOther
  split
  · apply foldl_name_fst
    intro a o
    obtain ⟨c, p⟩ := a
    simp only
    split
    · split <;> rfl
    · split
      · split <;> rfl
      · rfl
  · apply foldl_name
    intro c o
    split
    · split <;> rfl
    · split <;> rfl
  · apply foldl_name
    intro c o
    split <;> rfl
  · apply foldl_name
    intro c o
    split
    · rfl
    · split <;> rfl
  · rfl

/-- bool / index / trigger / sorted `Apply` keep kind and the attached computed columns as well -/
theorem applyOther_kind (c : Col) (ops : List Op) :
    (applyOther c ops).1.kind = c.kind ∧ (applyOther c ops).1.computed = c.computed := by
  have gen : ∀ {β : Type} (f : Col → β → Col) (_ : ∀ c b, (f c b).kind = c.kind ∧ (f c b).computed = c.computed)
      (l : List β) (c : Col), (l.foldl f c).kind = c.kind ∧ (l.foldl f c).computed = c.computed := by
    intro β f hf l
    induction l with
    | nil => intro c; exact ⟨rfl, rfl⟩
    | cons x xs ih =>
      intro c
      simp only [List.foldl_cons]
      exact ⟨(ih _).1.trans (hf c x).1, (ih _).2.trans (hf c x).2⟩
  have gen2 : ∀ {β γ : Type} (f : Col × γ → β → Col × γ)
      (_ : ∀ a b, (f a b).1.kind = a.1.kind ∧ (f a b).1.computed = a.1.computed)
      (l : List β) (a : Col × γ), (l.foldl f a).1.kind = a.1.kind ∧ (l.foldl f a).1.computed = a.1.computed := by
    intro β γ f hf l
    induction l with
    | nil => intro a; exact ⟨rfl, rfl⟩
    | cons x xs ih =>
      intro a
      simp only [List.foldl_cons]
      exact ⟨(ih _).1.trans (hf a x).1, (ih _).2.trans (hf a x).2⟩
  unfold applyOther
  split
  · apply gen2
    intro a o
    obtain ⟨c, p⟩ := a
    simp only
    split
    · split <;> exact ⟨rfl, rfl⟩
    · split
      · split <;> exact ⟨rfl, rfl⟩
      · exact ⟨rfl, rfl⟩
  · apply gen
    intro c o
    split
    · split <;> exact ⟨rfl, rfl⟩
    · split <;> exact ⟨rfl, rfl⟩
  · apply gen
    intro c o
    split <;> exact ⟨rfl, rfl⟩
  · apply gen
    intro c o
    split
    · exact ⟨rfl, rfl⟩
    · split <;> exact ⟨rfl, rfl⟩
  · exact ⟨rfl, rfl⟩

/-- `column.Apply` of any kind keeps the name the column is registered under -/
theorem applyAny_name (hash : Bytes → Nat) (c : Col) (chunk : Nat) (ops : List Op) :
    (c.applyAny hash chunk ops).1.name = c.name := by
  unfold Col.applyAny
  split
  · exact applyData_name hash c chunk ops
  · exact applyOther_name c ops

theorem applyAny_kind (hash : Bytes → Nat) (c : Col) (chunk : Nat) (ops : List Op) :
    (c.applyAny hash chunk ops).1.kind = c.kind ∧ (c.applyAny hash chunk ops).1.computed = c.computed := by
  unfold Col.applyAny
  split
  · exact ⟨(applyData_shape hash c chunk ops).kind, (applyData_shape hash c chunk ops).computed⟩
  · exact applyOther_kind c ops

theorem grow_name (c : Col) (idx : Nat) : (c.grow idx).name = c.name := by
  unfold Col.grow
  split
  all_goals first | rfl | (simp only; split <;> rfl)

/-! ## registry level: names, `findCol`, `setCol` -/

/-- the names the registry columns are stored under, in registry order -/
def _root_.ColumnVerif.Store.Store.names (s : Store) : List String := s.cols.toList.map (·.name)

theorem findCol_isSome (s : Store) (n : String) : (s.findCol n).isSome = s.names.any (· == n) := by
  unfold Store.findCol Store.names
  rw [← Array.find?_toList, List.any_map]
  generalize s.cols.toList = l
  induction l with
  | nil => rfl
  | cons x xs ih =>
    simp only [List.find?_cons, List.any_cons, Function.comp]
    cases h : x.name == n <;> simp [ih]

/-- whether a name resolves depends on the list of names only -/
theorem findCol_isSome_congr {s s' : Store} (h : s'.names = s.names) (n : String) :
    (s'.findCol n).isSome = (s.findCol n).isSome := by
  rw [findCol_isSome, findCol_isSome, h]

theorem findCol_name {s : Store} {n : String} {c : Col} (h : s.findCol n = some c) : c.name = n := by
  unfold Store.findCol at h
  have := Array.find?_some h
  simpa using this

/-- `setCol` writes at the slot found under the written column's own name: the list of names (and the array size)
    never changes -/
theorem setCol_names (s : Store) (c : Col) : (s.setCol c).names = s.names := by
  unfold Store.setCol
  split
  · rename_i i hi
    unfold Store.colIdx at hi
    obtain ⟨hlt, hp, _⟩ := Array.findIdx?_eq_some_iff_getElem.mp hi
    unfold Store.names
    simp only [Array.toList_setIfInBounds, List.map_set]
    have hn : c.name = s.cols[i].name := by
      have : s.cols[i].name = c.name := by simpa using hp
      exact this.symm
    rw [hn]
    have : s.cols[i].name = (s.cols.toList.map (·.name))[i]'(by simpa using hlt) := by simp
    rw [this, List.set_getElem_self]
  · rfl

theorem setCol_size (s : Store) (c : Col) : (s.setCol c).cols.size = s.cols.size := by
  unfold Store.setCol
  split
  · simp
  · rfl

/-- the configuration of a store: preserved by every step of a commit -/
structure Plumb (s s' : Store) : Prop where
  names : s'.names = s.names
  logger : s'.logger = s.logger
  recording : s'.recording = s.recording
  pk : s'.pk = s.pk
  hash : s'.hash = s.hash
  cap : s'.cap = s.cap

theorem Plumb.refl (s : Store) : Plumb s s := ⟨rfl, rfl, rfl, rfl, rfl, rfl⟩

theorem Plumb.trans {a b c : Store} (h1 : Plumb a b) (h2 : Plumb b c) : Plumb a c :=
  ⟨h2.names.trans h1.names, h2.logger.trans h1.logger, h2.recording.trans h1.recording, h2.pk.trans h1.pk,
   h2.hash.trans h1.hash, h2.cap.trans h1.cap⟩

theorem Plumb.findCol {s s' : Store} (h : Plumb s s') (n : String) : (s'.findCol n).isSome = (s.findCol n).isSome :=
  findCol_isSome_congr h.names n

/-- nothing reaches the change stream, no commit id is consumed, the commit-id table is not touched -/
structure Silent (s s' : Store) : Prop where
  emitted : s'.emitted = s.emitted
  recorded : s'.recorded = s.recorded
  nextId : s'.nextId = s.nextId
  commits : s'.commits = s.commits

theorem Silent.refl (s : Store) : Silent s s := ⟨rfl, rfl, rfl, rfl⟩

theorem Silent.trans {a b c : Store} (h1 : Silent a b) (h2 : Silent b c) : Silent a c :=
  ⟨h2.emitted.trans h1.emitted, h2.recorded.trans h1.recorded, h2.nextId.trans h1.nextId, h2.commits.trans h1.commits⟩

/-- the fill list and the row counter are not touched -/
structure SameFill (s s' : Store) : Prop where
  fill : s'.fill = s.fill
  count : s'.count = s.count

theorem SameFill.refl (s : Store) : SameFill s s := ⟨rfl, rfl⟩

theorem SameFill.trans {a b c : Store} (h1 : SameFill a b) (h2 : SameFill b c) : SameFill a c :=
  ⟨h2.fill.trans h1.fill, h2.count.trans h1.count⟩

theorem setCol_plumb (s : Store) (c : Col) : Plumb s (s.setCol c) := by
  refine ⟨setCol_names s c, ?_, ?_, ?_, ?_, ?_⟩ <;> (unfold Store.setCol; split <;> rfl)

theorem setCol_silent (s : Store) (c : Col) : Silent s (s.setCol c) := by
  refine ⟨?_, ?_, ?_, ?_⟩ <;> (unfold Store.setCol; split <;> rfl)

theorem setCol_fill (s : Store) (c : Col) : SameFill s (s.setCol c) := by
  refine ⟨?_, ?_⟩ <;> (unfold Store.setCol; split <;> rfl)

theorem setCol_panicked (s : Store) (c : Col) : (s.setCol c).panicked = s.panicked := by
  unfold Store.setCol; split <;> rfl

theorem withPanicked_plumb (s : Store) (p : Bool) : Plumb s { s with panicked := p } := ⟨rfl, rfl, rfl, rfl, rfl, rfl⟩
theorem withPanicked_silent (s : Store) (p : Bool) : Silent s { s with panicked := p } := ⟨rfl, rfl, rfl, rfl⟩
theorem withPanicked_fill (s : Store) (p : Bool) : SameFill s { s with panicked := p } := ⟨rfl, rfl⟩

/-- folds of plumbing-preserving steps -/
theorem foldl_rel {β : Type} (R : Store → Store → Prop) (hr : ∀ s, R s s) (ht : ∀ {a b c}, R a b → R b c → R a c)
    (f : Store → β → Store) (hf : ∀ s b, R s (f s b)) (l : List β) (s : Store) : R s (l.foldl f s) := by
  induction l generalizing s with
  | nil => exact hr s
  | cons x xs ih => simp only [List.foldl_cons]; exact ht (hf s x) (ih _)

/-! ## `commitMarkers` -/

/-- the fill loop of `commitMarkers` -/
def markersFill (f : Bitmap) (ops : List Op) : Bitmap :=
  ops.foldl (fun (f : Bitmap) o =>
    if o.typ = opInsert then Bits.set f o.idx
    else if o.typ = opDelete then Bits.remove f o.idx else f) f

/-- the column loop of `commitMarkers`: every section to every registry column, in registry order -/
def markersCols (hash : Bytes → Nat) (chunk : Nat) (secs : List (List Op)) (cols : Array Col) : Array Col × Bool :=
  secs.foldl (fun (acc : Array Col × Bool) ops =>
    acc.1.foldl (fun (a : Array Col × Bool) c =>
      (a.1.push (c.applyAny hash chunk ops).1, a.2 || (c.applyAny hash chunk ops).2)) (#[], acc.2)) (cols, false)

theorem commitMarkers_eq (s : Store) (chunk : Nat) (markers : Buf) :
    s.commitMarkers chunk markers =
      { s with fill := markersFill s.fill (markers.range chunk).flatten,
               cols := (markersCols s.hash chunk (markers.range chunk) s.cols).1,
               count := Bits.count (markersFill s.fill (markers.range chunk).flatten),
               panicked := s.panicked || (markersCols s.hash chunk (markers.range chunk) s.cols).2 } := rfl

theorem colsFold_names (g : Array Col × Bool → Col → Array Col × Bool)
    (hg : ∀ a c, (g a c).1.toList.map (·.name) = a.1.toList.map (·.name) ++ [c.name]) (l : List Col)
    (a : Array Col × Bool) :
    (l.foldl g a).1.toList.map (·.name) = a.1.toList.map (·.name) ++ l.map (·.name) := by
  induction l generalizing a with
  | nil => simp
  | cons x xs ih =>
    simp only [List.foldl_cons]
    rw [ih, hg]
    simp

theorem markersCols_names (hash : Bytes → Nat) (chunk : Nat) (secs : List (List Op)) (cols : Array Col) :
    (markersCols hash chunk secs cols).1.toList.map (·.name) = cols.toList.map (·.name) := by
  unfold markersCols
  generalize false = p
  induction secs generalizing cols p with
  | nil => rfl
  | cons ops rest ih =>
    simp only [List.foldl_cons]
    rw [ih, ← Array.foldl_toList, colsFold_names]
    · simp
    · intro a c
      simp [applyAny_name]

theorem commitMarkers_plumb (s : Store) (chunk : Nat) (markers : Buf) : Plumb s (s.commitMarkers chunk markers) := by
  rw [commitMarkers_eq]
  exact ⟨markersCols_names _ _ _ _, rfl, rfl, rfl, rfl, rfl⟩

theorem commitMarkers_silent (s : Store) (chunk : Nat) (markers : Buf) : Silent s (s.commitMarkers chunk markers) := by
  rw [commitMarkers_eq]
  exact ⟨rfl, rfl, rfl, rfl⟩

/-! ## buffers: column name and emptiness under `put`, `putAll`, `replaceSec` -/

theorem put_column (b : Buf) (o : Op) : (b.put o).column = b.column := by
  unfold Buf.put
  simp only
  split
  · split <;> rfl
  · rfl

theorem put_isEmpty (b : Buf) (o : Op) : (b.put o).isEmpty = false := by
  unfold Buf.put
  simp only
  split
  · split <;> simp [Buf.isEmpty]
  · simp [Buf.isEmpty]

theorem putAll_column (b : Buf) (ops : List Op) : (b.putAll ops).column = b.column := by
  unfold Buf.putAll
  induction ops generalizing b with
  | nil => rfl
  | cons o os ih => simp only [List.foldl_cons]; rw [ih, put_column]

theorem putAll_isEmpty (b : Buf) (ops : List Op) : (b.putAll ops).isEmpty = (b.isEmpty && ops.isEmpty) := by
  unfold Buf.putAll
  induction ops generalizing b with
  | nil => simp
  | cons o os ih =>
    simp only [List.foldl_cons]
    rw [ih, put_isEmpty]
    simp

theorem isEmpty_eq_secs (b : Buf) : b.isEmpty = (b.secs.map (fun s => s.rops.isEmpty)).all id := by
  unfold Buf.isEmpty Buf.secs
  rw [List.all_map, List.all_reverse]
  rfl

/-- rewriting a section in place (same number of ops) keeps which sections are empty -/
theorem replaceSec_map_isEmpty (S : List Sec) (i : Nat) (ops : List Op) (sec : Sec) (h : S[i]? = some sec)
    (hl : ops.length = sec.rops.length) :
    (replaceSec S i ops).map (fun s => s.rops.isEmpty) = S.map (fun s => s.rops.isEmpty) := by
  apply List.ext_getElem?
  intro j
  unfold replaceSec
  simp only [List.getElem?_map, List.getElem?_mapIdx]
  cases hj : S[j]? with
  | none => rfl
  | some x =>
    simp only [Option.map_some]
    by_cases e : j = i
    · subst e
      rw [if_pos rfl]
      rw [h] at hj
      cases hj
      congr 1
      cases ops <;> cases hr : sec.rops <;> simp_all
    · rw [if_neg e]

theorem replaceSec_map_chunk (S : List Sec) (i : Nat) (ops : List Op) :
    (replaceSec S i ops).map Sec.chunk = S.map Sec.chunk := by
  apply List.ext_getElem?
  intro j
  unfold replaceSec
  simp only [List.getElem?_map, List.getElem?_mapIdx]
  cases hj : S[j]? with
  | none => rfl
  | some x =>
    simp only [Option.map_some]
    split <;> rfl

/-! ## `mainPass` -/

/-- one round of the loop of `mainPass` (the same function as `mpStep` of `Lemmas/Index`, which cannot be imported
    together with `Lemmas/ApplyStr`; kept under another name so that this file is compatible with both) -/
def mainStep (hash : Bytes → Nat) (chunk : Nat) (acc : Col × Buf × Bool) (i : Nat) : Col × Buf × Bool :=
  match acc.2.1.secs[i]? with
  | none => acc
  | some sec =>
    if sec.chunk ≠ chunk then acc
    else
      ((applyData hash acc.1 chunk sec.ops).col,
       ({ acc.2.1 with rsecs := (replaceSec acc.2.1.secs i (applyData hash acc.1 chunk sec.ops).ops).reverse } : Buf).putAll
          (applyData hash acc.1 chunk sec.ops).appended,
       acc.2.2 || (applyData hash acc.1 chunk sec.ops).panic)

theorem mainPass_eq_mainStep (hash : Bytes → Nat) (col : Col) (chunk : Nat) (u : Buf) :
    mainPass hash col chunk u = (List.range u.rsecs.length).foldl (mainStep hash chunk) (col, u, false) := rfl

/-- one round keeps the column's shape (name, kind, computed list, …), the buffer's column name and its emptiness -/
theorem mainStep_inv (hash : Bytes → Nat) (chunk : Nat) (acc : Col × Buf × Bool) (i : Nat) :
    SameShape acc.1 (mainStep hash chunk acc i).1 ∧
    (mainStep hash chunk acc i).2.1.column = acc.2.1.column ∧
    (mainStep hash chunk acc i).2.1.isEmpty = acc.2.1.isEmpty := by
  obtain ⟨col, u, p⟩ := acc
  unfold mainStep
  simp only
  split
  · exact ⟨SameShape.refl _, rfl, rfl⟩
  · rename_i sec hsec
    split
    · exact ⟨SameShape.refl _, rfl, rfl⟩
    · refine ⟨applyData_shape hash col chunk sec.ops, ?_, ?_⟩
      · rw [putAll_column]
      · rw [putAll_isEmpty]
        have hlen : (applyData hash col chunk sec.ops).ops.length = sec.rops.length := by
          rw [applyData_ops_length]; simp [Sec.ops]
        have h1 : ({ u with rsecs := (replaceSec u.secs i (applyData hash col chunk sec.ops).ops).reverse } : Buf).isEmpty
            = u.isEmpty := by
          rw [isEmpty_eq_secs, isEmpty_eq_secs]
          have : ({ u with rsecs := (replaceSec u.secs i (applyData hash col chunk sec.ops).ops).reverse } : Buf).secs
              = replaceSec u.secs i (applyData hash col chunk sec.ops).ops := by simp [Buf.secs]
          rw [this, replaceSec_map_isEmpty _ _ _ sec hsec hlen]
        rw [h1]
        cases he : u.isEmpty with
        | false => rfl
        | true =>
          have hmem : sec ∈ u.secs := List.mem_of_getElem? hsec
          have hall : ∀ x ∈ u.rsecs, x.rops.isEmpty = true := by
            simpa [Buf.isEmpty] using he
          have hnil : sec.rops = [] := by
            have := hall sec (by simpa [Buf.secs] using hmem)
            simpa using this
          have : sec.ops = [] := by simp [Sec.ops, hnil]
          rw [this, applyData_appended_nil]
          rfl

theorem mainPass_inv (hash : Bytes → Nat) (col : Col) (chunk : Nat) (u : Buf) :
    SameShape col (mainPass hash col chunk u).1 ∧
    (mainPass hash col chunk u).2.1.column = u.column ∧
    (mainPass hash col chunk u).2.1.isEmpty = u.isEmpty := by
  rw [mainPass_eq_mainStep]
  generalize List.range u.rsecs.length = l
  have gen : ∀ (l : List Nat) (acc : Col × Buf × Bool),
      SameShape acc.1 (l.foldl (mainStep hash chunk) acc).1 ∧
      (l.foldl (mainStep hash chunk) acc).2.1.column = acc.2.1.column ∧
      (l.foldl (mainStep hash chunk) acc).2.1.isEmpty = acc.2.1.isEmpty := by
    intro l
    induction l with
    | nil => intro acc; exact ⟨SameShape.refl _, rfl, rfl⟩
    | cons i is ih =>
      intro acc
      simp only [List.foldl_cons]
      obtain ⟨a1, a2, a3⟩ := mainStep_inv hash chunk acc i
      obtain ⟨b1, b2, b3⟩ := ih (mainStep hash chunk acc i)
      exact ⟨SameShape.trans a1 b1, b2.trans a2, b3.trans a3⟩
  exact gen l (col, u, false)

/-- the main pass never renames the column it is applied to -/
theorem mainPass_name (hash : Bytes → Nat) (col : Col) (chunk : Nat) (u : Buf) :
    (mainPass hash col chunk u).1.name = col.name := (mainPass_inv hash col chunk u).1.name

theorem mainPass_column (hash : Bytes → Nat) (col : Col) (chunk : Nat) (u : Buf) :
    (mainPass hash col chunk u).2.1.column = u.column := (mainPass_inv hash col chunk u).2.1

theorem mainPass_isEmpty (hash : Bytes → Nat) (col : Col) (chunk : Nat) (u : Buf) :
    (mainPass hash col chunk u).2.1.isEmpty = u.isEmpty := (mainPass_inv hash col chunk u).2.2

/-! ## `computedPass` -/

/-- one computed column, one section (the body of the inner loop of `computedPass`) -/
def compStep (chunk : Nat) (ops : List Op) (s : Store) (n : String) : Store :=
  match s.findCol n with
  | some c =>
    { (s.setCol (c.applyAny s.hash chunk ops).1) with panicked := s.panicked || (c.applyAny s.hash chunk ops).2 }
  | none => s

theorem computedPass_eq (s : Store) (names : List String) (chunk : Nat) (u : Buf) :
    computedPass s names chunk u =
      (u.range chunk).foldl (fun (s : Store) ops => names.foldl (compStep chunk ops) s) s := rfl

theorem compStep_plumb (chunk : Nat) (ops : List Op) (s : Store) (n : String) : Plumb s (compStep chunk ops s n) := by
  unfold compStep
  split
  · have h := setCol_plumb s (Col.applyAny s.hash ‹Col› chunk ops).1
    exact ⟨h.names, h.logger, h.recording, h.pk, h.hash, h.cap⟩
  · exact Plumb.refl s

theorem compStep_silent (chunk : Nat) (ops : List Op) (s : Store) (n : String) : Silent s (compStep chunk ops s n) := by
  unfold compStep
  split
  · have h := setCol_silent s (Col.applyAny s.hash ‹Col› chunk ops).1
    exact ⟨h.emitted, h.recorded, h.nextId, h.commits⟩
  · exact Silent.refl s

theorem compStep_fill (chunk : Nat) (ops : List Op) (s : Store) (n : String) : SameFill s (compStep chunk ops s n) := by
  unfold compStep
  split
  · have h := setCol_fill s (Col.applyAny s.hash ‹Col› chunk ops).1
    exact ⟨h.fill, h.count⟩
  · exact SameFill.refl s

theorem computedPass_plumb (s : Store) (names : List String) (chunk : Nat) (u : Buf) :
    Plumb s (computedPass s names chunk u) := by
  rw [computedPass_eq]
  apply foldl_rel Plumb Plumb.refl Plumb.trans
  intro s ops
  apply foldl_rel Plumb Plumb.refl Plumb.trans
  intro s n
  exact compStep_plumb chunk ops s n

theorem computedPass_silent (s : Store) (names : List String) (chunk : Nat) (u : Buf) :
    Silent s (computedPass s names chunk u) := by
  rw [computedPass_eq]
  apply foldl_rel Silent Silent.refl Silent.trans
  intro s ops
  apply foldl_rel Silent Silent.refl Silent.trans
  intro s n
  exact compStep_silent chunk ops s n

theorem computedPass_fill (s : Store) (names : List String) (chunk : Nat) (u : Buf) :
    SameFill s (computedPass s names chunk u) := by
  rw [computedPass_eq]
  apply foldl_rel SameFill SameFill.refl SameFill.trans
  intro s ops
  apply foldl_rel SameFill SameFill.refl SameFill.trans
  intro s n
  exact compStep_fill chunk ops s n

/-! ## `commitUpdates` -/

/-- what the emission decision reads of a buffer: its column name and whether it is empty -/
def bufSig (u : Buf) : String × Bool := (u.column, u.isEmpty)

/-- the `updated` flag of `commitUpdates`, read off the transaction's buffers and the registry: some non-empty
    buffer, not the marker buffer, names a column that exists -/
def updatedFlag (s : Store) (ups : List Buf) : Bool :=
  ups.any (fun u => !u.isEmpty && u.column != rowColumn && (s.findCol u.column).isSome)

theorem updatedFlag_congr {s s' : Store} {ups ups' : List Buf} (hn : s'.names = s.names)
    (hu : ups'.map bufSig = ups.map bufSig) : updatedFlag s' ups' = updatedFlag s ups := by
  have key : ∀ (s : Store) (ups : List Buf), updatedFlag s ups =
      (ups.map bufSig).any (fun p => !p.2 && p.1 != rowColumn && s.names.any (· == p.1)) := by
    intro s ups
    unfold updatedFlag
    rw [List.any_map]
    congr 1
    funext u
    simp only [Function.comp, bufSig, findCol_isSome]
  rw [key, key, hn, hu]

/-- one buffer of `commitUpdates` -/
def updStep (chunk : Nat) (acc : Store × List Buf × Bool) (u : Buf) : Store × List Buf × Bool :=
  if u.isEmpty || u.column == rowColumn then (acc.1, acc.2.1 ++ [u], acc.2.2)
  else
    match acc.1.findCol u.column with
    | none => (acc.1, acc.2.1 ++ [u], acc.2.2)
    | some col =>
      if col.kind.isData then
        (computedPass
          { (acc.1.setCol (mainPass acc.1.hash col chunk u).1) with
              panicked := acc.1.panicked || (mainPass acc.1.hash col chunk u).2.2 }
          col.computed chunk (mainPass acc.1.hash col chunk u).2.1,
         acc.2.1 ++ [(mainPass acc.1.hash col chunk u).2.1], true)
      else
        (computedPass ((u.range chunk).foldl (fun (s : Store) ops => compStep chunk ops s u.column) acc.1)
          col.computed chunk u,
         acc.2.1 ++ [u], true)

theorem commitUpdates_eq (s : Store) (chunk : Nat) (ups : List Buf) :
    s.commitUpdates chunk ups = ups.foldl (updStep chunk) (s, [], false) := rfl

/-- one buffer: the store keeps its plumbing, exactly one buffer with the same name and emptiness is recorded,
    and `updated` is raised iff the buffer is a non-empty non-marker buffer of an existing column -/
theorem updStep_spec (chunk : Nat) (acc : Store × List Buf × Bool) (u : Buf) :
    Plumb acc.1 (updStep chunk acc u).1 ∧ Silent acc.1 (updStep chunk acc u).1 ∧
    SameFill acc.1 (updStep chunk acc u).1 ∧
    (∃ u', (updStep chunk acc u).2.1 = acc.2.1 ++ [u'] ∧ bufSig u' = bufSig u ∧
        ((u.isEmpty || u.column == rowColumn) = true → u' = u)) ∧
    (updStep chunk acc u).2.2 =
      (acc.2.2 || (!u.isEmpty && u.column != rowColumn && (acc.1.findCol u.column).isSome)) := by
  obtain ⟨s, done, upd⟩ := acc
  unfold updStep
  simp only
  split
  · rename_i h
    refine ⟨Plumb.refl _, Silent.refl _, SameFill.refl _, ⟨u, rfl, rfl, fun _ => rfl⟩, ?_⟩
    have : (!u.isEmpty && u.column != rowColumn) = false := by
      cases h1 : u.isEmpty <;> cases h2 : (u.column == rowColumn) <;> simp_all [bne]
    rw [this]; simp
  · rename_i h
    have hne : (!u.isEmpty && u.column != rowColumn) = true := by
      cases h1 : u.isEmpty <;> cases h2 : (u.column == rowColumn) <;> simp_all [bne]
    split
    · rename_i hf
      refine ⟨Plumb.refl _, Silent.refl _, SameFill.refl _, ⟨u, rfl, rfl, fun _ => rfl⟩, ?_⟩
      rw [hf]; simp
    · rename_i col hf
      have hflag : (upd || (!u.isEmpty && u.column != rowColumn && (s.findCol u.column).isSome)) = true := by
        rw [hne, hf]; simp
      split
      · have h1 := setCol_plumb s (mainPass s.hash col chunk u).1
        have h2 := setCol_silent s (mainPass s.hash col chunk u).1
        have h3 := setCol_fill s (mainPass s.hash col chunk u).1
        refine ⟨Plumb.trans (Plumb.trans h1 (withPanicked_plumb _ _)) (computedPass_plumb _ _ _ _),
          Silent.trans (Silent.trans h2 (withPanicked_silent _ _)) (computedPass_silent _ _ _ _),
          SameFill.trans (SameFill.trans h3 (withPanicked_fill _ _)) (computedPass_fill _ _ _ _),
          ⟨_, rfl, ?_, fun hc => absurd hc h⟩, hflag.symm⟩
        unfold bufSig
        rw [mainPass_column, mainPass_isEmpty]
      · refine ⟨Plumb.trans ?_ (computedPass_plumb _ _ _ _), Silent.trans ?_ (computedPass_silent _ _ _ _),
          SameFill.trans ?_ (computedPass_fill _ _ _ _), ⟨u, rfl, rfl, fun _ => rfl⟩, hflag.symm⟩
        · apply foldl_rel Plumb Plumb.refl Plumb.trans
          intro s ops
          exact compStep_plumb chunk ops s u.column
        · apply foldl_rel Silent Silent.refl Silent.trans
          intro s ops
          exact compStep_silent chunk ops s u.column
        · apply foldl_rel SameFill SameFill.refl SameFill.trans
          intro s ops
          exact compStep_fill chunk ops s u.column

theorem foldl_updStep_spec (chunk : Nat) (ups : List Buf) (acc : Store × List Buf × Bool) :
    Plumb acc.1 (ups.foldl (updStep chunk) acc).1 ∧ Silent acc.1 (ups.foldl (updStep chunk) acc).1 ∧
    SameFill acc.1 (ups.foldl (updStep chunk) acc).1 ∧
    (ups.foldl (updStep chunk) acc).2.1.map bufSig = acc.2.1.map bufSig ++ ups.map bufSig ∧
    (ups.foldl (updStep chunk) acc).2.2 = (acc.2.2 || updatedFlag acc.1 ups) := by
  induction ups generalizing acc with
  | nil => exact ⟨Plumb.refl _, Silent.refl _, SameFill.refl _, by simp, by simp [updatedFlag]⟩
  | cons u us ih =>
    simp only [List.foldl_cons]
    obtain ⟨a1, a2, a3, ⟨u', a4, a5, _⟩, a6⟩ := updStep_spec chunk acc u
    obtain ⟨b1, b2, b3, b4, b5⟩ := ih (updStep chunk acc u)
    refine ⟨Plumb.trans a1 b1, Silent.trans a2 b2, SameFill.trans a3 b3, ?_, ?_⟩
    · rw [b4, a4]; simp [a5]
    · rw [b5, a6, updatedFlag_congr a1.names rfl]
      simp [updatedFlag, Bool.or_assoc]

/-- **P2** `commitUpdates` reports `updated` exactly when `updatedFlag` says so -/
theorem commitUpdates_updated (s : Store) (chunk : Nat) (ups : List Buf) :
    (s.commitUpdates chunk ups).2.2 = updatedFlag s ups := by
  rw [commitUpdates_eq]
  have := (foldl_updStep_spec chunk ups (s, [], false)).2.2.2.2
  simpa using this

/-- the rewritten buffers: as many, under the same column names, empty iff they were -/
theorem commitUpdates_sigs (s : Store) (chunk : Nat) (ups : List Buf) :
    (s.commitUpdates chunk ups).2.1.map bufSig = ups.map bufSig := by
  rw [commitUpdates_eq]
  have := (foldl_updStep_spec chunk ups (s, [], false)).2.2.2.1
  simpa using this

theorem commitUpdates_length (s : Store) (chunk : Nat) (ups : List Buf) :
    (s.commitUpdates chunk ups).2.1.length = ups.length := by
  have := congrArg List.length (commitUpdates_sigs s chunk ups)
  simpa using this

theorem commitUpdates_columns (s : Store) (chunk : Nat) (ups : List Buf) :
    (s.commitUpdates chunk ups).2.1.map Buf.column = ups.map Buf.column := by
  have := congrArg (List.map Prod.fst) (commitUpdates_sigs s chunk ups)
  simpa [bufSig, Function.comp_def] using this

theorem commitUpdates_isEmpty (s : Store) (chunk : Nat) (ups : List Buf) :
    (s.commitUpdates chunk ups).2.1.map Buf.isEmpty = ups.map Buf.isEmpty := by
  have := congrArg (List.map Prod.snd) (commitUpdates_sigs s chunk ups)
  simpa [bufSig, Function.comp_def] using this

theorem commitUpdates_plumb (s : Store) (chunk : Nat) (ups : List Buf) : Plumb s (s.commitUpdates chunk ups).1 := by
  rw [commitUpdates_eq]; exact (foldl_updStep_spec chunk ups (s, [], false)).1

theorem commitUpdates_silent (s : Store) (chunk : Nat) (ups : List Buf) : Silent s (s.commitUpdates chunk ups).1 := by
  rw [commitUpdates_eq]; exact (foldl_updStep_spec chunk ups (s, [], false)).2.1

/-- column buffers never touch the fill list or the row counter -/
theorem commitUpdates_fill (s : Store) (chunk : Nat) (ups : List Buf) : SameFill s (s.commitUpdates chunk ups).1 := by
  rw [commitUpdates_eq]; exact (foldl_updStep_spec chunk ups (s, [], false)).2.2.1

/-! ## `commitCapacity` -/

theorem commitCapacity_plumb (s : Store) (last : Nat) : Plumb s (s.commitCapacity last) := by
  unfold Store.commitCapacity
  split
  · exact Plumb.refl s
  · refine ⟨?_, rfl, rfl, rfl, rfl, rfl⟩
    simp only [Store.names, Array.toList_map, List.map_map]
    congr 1
    funext c
    exact grow_name c _

/-- growing the store for the last dirty chunk emits nothing and consumes no commit id -/
theorem commitCapacity_quiet (s : Store) (last : Nat) :
    (s.commitCapacity last).emitted = s.emitted ∧ (s.commitCapacity last).recorded = s.recorded ∧
    (s.commitCapacity last).nextId = s.nextId ∧ (s.commitCapacity last).count = s.count ∧
    (s.commitCapacity last).panicked = s.panicked := by
  unfold Store.commitCapacity
  split <;> exact ⟨rfl, rfl, rfl, rfl, rfl⟩

/-! ## `commitChunk` -/

/-- the store `commitChunk` hands to `commitUpdates`: commit id taken and recorded, markers applied -/
def chunkPre (s : Store) (chunk : Nat) (cr : Bool) (ups : List Buf) : Store :=
  let s1 := { s with nextId := s.nextId + 1, commits := s.commits.setIfInBounds chunk (s.nextId + 1),
                     panicked := s.panicked || decide (chunk ≥ s.commits.size) }
  if cr then
    match ups.find? (fun b => !b.isEmpty && b.column == rowColumn) with
    | some m => s1.commitMarkers chunk m
    | none => s1
  else s1

/-- the emission step of `commitChunk`, on the result of `commitUpdates` -/
def chunkEmit (id chunk : Nat) (cr : Bool) (r : Store × List Buf × Bool) : Store × List Buf :=
  if !cr && !r.2.2 then (r.1, r.2.1)
  else
    let e : Emitted := ⟨id, chunk, r.2.1⟩
    let s := if r.1.recording then { r.1 with recorded := e :: r.1.recorded } else r.1
    let s := if s.logger ≠ .none then { s with emitted := e :: s.emitted } else s
    (s, r.2.1)

theorem commitChunk_eq (s : Store) (chunk : Nat) (cr : Bool) (ups : List Buf) :
    s.commitChunk chunk cr ups =
      chunkEmit (s.nextId + 1) chunk cr ((chunkPre s chunk cr ups).commitUpdates chunk ups) := rfl

theorem chunkPre_plumb (s : Store) (chunk : Nat) (cr : Bool) (ups : List Buf) : Plumb s (chunkPre s chunk cr ups) := by
  unfold chunkPre
  simp only
  split
  · split
    · rename_i m _
      have h := commitMarkers_plumb
        { s with nextId := s.nextId + 1, commits := s.commits.setIfInBounds chunk (s.nextId + 1),
                 panicked := s.panicked || decide (chunk ≥ s.commits.size) } chunk m
      exact ⟨h.names, h.logger, h.recording, h.pk, h.hash, h.cap⟩
    · exact ⟨rfl, rfl, rfl, rfl, rfl, rfl⟩
  · exact ⟨rfl, rfl, rfl, rfl, rfl, rfl⟩

/-- taking the commit id and applying the markers: nothing emitted yet, the id is `nextId + 1`, stored under `chunk` -/
theorem chunkPre_fields (s : Store) (chunk : Nat) (cr : Bool) (ups : List Buf) :
    (chunkPre s chunk cr ups).emitted = s.emitted ∧ (chunkPre s chunk cr ups).recorded = s.recorded ∧
    (chunkPre s chunk cr ups).nextId = s.nextId + 1 ∧
    (chunkPre s chunk cr ups).commits = s.commits.setIfInBounds chunk (s.nextId + 1) := by
  unfold chunkPre
  simp only
  split
  · split
    · rename_i m _
      have h := commitMarkers_silent
        { s with nextId := s.nextId + 1, commits := s.commits.setIfInBounds chunk (s.nextId + 1),
                 panicked := s.panicked || decide (chunk ≥ s.commits.size) } chunk m
      exact ⟨h.emitted, h.recorded, h.nextId, h.commits⟩
    · exact ⟨rfl, rfl, rfl, rfl⟩
  · exact ⟨rfl, rfl, rfl, rfl⟩

/-- a transaction without markers does not touch the fill list in `commitChunk`'s first half -/
theorem chunkPre_fill_of_not_changed (s : Store) (chunk : Nat) (ups : List Buf) :
    SameFill s (chunkPre s chunk false ups) := ⟨rfl, rfl⟩

theorem chunkEmit_spec (id chunk : Nat) (cr : Bool) (r : Store × List Buf × Bool) :
    Plumb r.1 (chunkEmit id chunk cr r).1 ∧ SameFill r.1 (chunkEmit id chunk cr r).1 ∧
    (chunkEmit id chunk cr r).1.nextId = r.1.nextId ∧ (chunkEmit id chunk cr r).1.commits = r.1.commits ∧
    (chunkEmit id chunk cr r).1.cols = r.1.cols ∧ (chunkEmit id chunk cr r).1.panicked = r.1.panicked ∧
    (chunkEmit id chunk cr r).2 = r.2.1 ∧
    (chunkEmit id chunk cr r).1.emitted =
      (if r.1.logger ≠ .none ∧ (cr || r.2.2) = true then ⟨id, chunk, r.2.1⟩ :: r.1.emitted else r.1.emitted) ∧
    (chunkEmit id chunk cr r).1.recorded =
      (if r.1.recording = true ∧ (cr || r.2.2) = true then ⟨id, chunk, r.2.1⟩ :: r.1.recorded else r.1.recorded) := by
  obtain ⟨s, ups, upd⟩ := r
  unfold chunkEmit
  simp only
  by_cases hq : (!cr && !upd) = true
  · rw [if_pos hq]
    have : (cr || upd) = false := by cases cr <;> cases upd <;> simp_all
    simp [this, Plumb.refl, SameFill.refl]
  · rw [if_neg hq]
    have hq' : (cr || upd) = true := by cases cr <;> cases upd <;> simp_all
    by_cases hrec : s.recording = true
    · by_cases hl : s.logger = .none
      · simp [hq', hrec, hl]
        refine ⟨⟨rfl, ?_, ?_, rfl, rfl, rfl⟩, ⟨rfl, rfl⟩⟩ <;> simp_all
      · simp [hq', hrec, hl]
        refine ⟨⟨rfl, ?_, ?_, rfl, rfl, rfl⟩, ⟨rfl, rfl⟩⟩ <;> simp_all
    · by_cases hl : s.logger = .none
      · simp [hq', hrec, hl]
        refine ⟨⟨rfl, ?_, ?_, rfl, rfl, rfl⟩, ⟨rfl, rfl⟩⟩ <;> simp_all
      · simp [hq', hrec, hl]
        refine ⟨⟨rfl, ?_, ?_, rfl, rfl, rfl⟩, ⟨rfl, rfl⟩⟩ <;> simp_all

/-- the `updated` flag of a chunk does not depend on the id / marker steps that precede `commitUpdates` -/
theorem updatedFlag_chunkPre (s : Store) (chunk : Nat) (cr : Bool) (ups : List Buf) :
    updatedFlag (chunkPre s chunk cr ups) ups = updatedFlag s ups :=
  updatedFlag_congr (chunkPre_plumb s chunk cr ups).names rfl

/-- everything `commitChunk` does to the plumbing, in one statement -/
theorem commitChunk_spec (s : Store) (chunk : Nat) (cr : Bool) (ups : List Buf) :
    Plumb s (s.commitChunk chunk cr ups).1 ∧
    (s.commitChunk chunk cr ups).1.nextId = s.nextId + 1 ∧
    (s.commitChunk chunk cr ups).1.commits = s.commits.setIfInBounds chunk (s.nextId + 1) ∧
    (s.commitChunk chunk cr ups).2.map bufSig = ups.map bufSig ∧
    (s.commitChunk chunk cr ups).1.emitted =
      (if s.logger ≠ .none ∧ (cr || updatedFlag s ups) = true
        then ⟨s.nextId + 1, chunk, (s.commitChunk chunk cr ups).2⟩ :: s.emitted else s.emitted) ∧
    (s.commitChunk chunk cr ups).1.recorded =
      (if s.recording = true ∧ (cr || updatedFlag s ups) = true
        then ⟨s.nextId + 1, chunk, (s.commitChunk chunk cr ups).2⟩ :: s.recorded else s.recorded) := by
  rw [commitChunk_eq]
  have hp := chunkPre_plumb s chunk cr ups
  obtain ⟨f1, f2, f3, f4⟩ := chunkPre_fields s chunk cr ups
  have up := commitUpdates_plumb (chunkPre s chunk cr ups) chunk ups
  have us := commitUpdates_silent (chunkPre s chunk cr ups) chunk ups
  have usig := commitUpdates_sigs (chunkPre s chunk cr ups) chunk ups
  have uflag := commitUpdates_updated (chunkPre s chunk cr ups) chunk ups
  rw [updatedFlag_chunkPre] at uflag
  obtain ⟨e1, _, e3, e4, _, _, e7, e8, e9⟩ :=
    chunkEmit_spec (s.nextId + 1) chunk cr ((chunkPre s chunk cr ups).commitUpdates chunk ups)
  refine ⟨Plumb.trans hp (Plumb.trans up e1), ?_, ?_, ?_, ?_, ?_⟩
  · rw [e3, us.nextId, f3]
  · rw [e4, us.commits, f4]
  · rw [e7, usig]
  · rw [e8, e7, uflag, us.emitted, f1, up.logger, hp.logger]
  · rw [e9, e7, uflag, us.recorded, f2, up.recording, hp.recording]

/-- **P3** with a logger attached, a chunk is emitted — once, under the id `nextId + 1`, with the buffers as rewritten
    by this chunk's main pass — iff the transaction has markers or `updatedFlag` holds -/
theorem commitChunk_emitted (s : Store) (hl : s.logger ≠ .none) (chunk : Nat) (cr : Bool) (ups : List Buf) :
    (s.commitChunk chunk cr ups).1.emitted =
      if (cr || updatedFlag s ups) = true then ⟨s.nextId + 1, chunk, (s.commitChunk chunk cr ups).2⟩ :: s.emitted
      else s.emitted := by
  rw [(commitChunk_spec s chunk cr ups).2.2.2.2.1]
  simp [hl]

/-- without a logger nothing is ever emitted -/
theorem commitChunk_emitted_none (s : Store) (hl : s.logger = .none) (chunk : Nat) (cr : Bool) (ups : List Buf) :
    (s.commitChunk chunk cr ups).1.emitted = s.emitted := by
  rw [(commitChunk_spec s chunk cr ups).2.2.2.2.1]
  simp [hl]

/-- every dirty chunk consumes exactly one commit id, emitted or not -/
theorem commitChunk_nextId (s : Store) (chunk : Nat) (cr : Bool) (ups : List Buf) :
    (s.commitChunk chunk cr ups).1.nextId = s.nextId + 1 := (commitChunk_spec s chunk cr ups).2.1

theorem commitChunk_plumb (s : Store) (chunk : Nat) (cr : Bool) (ups : List Buf) :
    Plumb s (s.commitChunk chunk cr ups).1 := (commitChunk_spec s chunk cr ups).1

theorem commitChunk_sigs (s : Store) (chunk : Nat) (cr : Bool) (ups : List Buf) :
    (s.commitChunk chunk cr ups).2.map bufSig = ups.map bufSig := (commitChunk_spec s chunk cr ups).2.2.2.1

/-- the next chunk of the same transaction takes the same emission decision -/
theorem updatedFlag_commitChunk (s : Store) (chunk : Nat) (cr : Bool) (ups : List Buf) :
    updatedFlag (s.commitChunk chunk cr ups).1 (s.commitChunk chunk cr ups).2 = updatedFlag s ups :=
  updatedFlag_congr (commitChunk_plumb s chunk cr ups).names (commitChunk_sigs s chunk cr ups)

/-! ## `setCol` writes where the column was found -/

theorem toList_findIdx? {α : Type} (a : Array α) (p : α → Bool) : a.toList.findIdx? p = a.findIdx? p := by
  rcases a with ⟨l⟩
  simp

theorem list_find?_set_hit (l : List Col) (p : Col → Bool) (c' : Col) (hc : p c' = true) (i : Nat)
    (hi : l.findIdx? p = some i) : (l.set i c').find? p = some c' := by
  induction l generalizing i with
  | nil => simp at hi
  | cons x xs ih =>
    rw [List.findIdx?_cons] at hi
    by_cases hx : p x = true
    · rw [if_pos hx] at hi
      cases hi
      simp [hc]
    · rw [if_neg hx] at hi
      cases hj : xs.findIdx? p with
      | none => rw [hj] at hi; cases hi
      | some j =>
        rw [hj] at hi
        cases hi
        simp only [List.set_cons_succ, List.find?_cons]
        have : p x = false := by simpa using hx
        rw [this]
        exact ih j hj

theorem list_find?_set_miss (l : List Col) (p : Col → Bool) (c' : Col) (hc : p c' = false) (i : Nat)
    (hi : ∀ h : i < l.length, p l[i] = false) : (l.set i c').find? p = l.find? p := by
  induction l generalizing i with
  | nil => rfl
  | cons x xs ih =>
    cases i with
    | zero =>
      have := hi (by simp)
      simp only [List.getElem_cons_zero] at this
      simp [hc, this]
    | succ k =>
      simp only [List.set_cons_succ, List.find?_cons]
      rw [ih k]
      intro h
      have := hi (by simpa using h)
      simpa using this

/-- writing a column back under the name it was found under: it is what a later lookup of that name returns -/
theorem findCol_setCol_self (s : Store) (n : String) (c c' : Col) (h : s.findCol n = some c) (hn : c'.name = n) :
    (s.setCol c').findCol n = some c' := by
  unfold Store.setCol Store.colIdx
  rw [hn]
  cases hi : s.cols.findIdx? (fun c => c.name == n) with
  | none =>
    exfalso
    rw [Array.findIdx?_eq_none_iff] at hi
    unfold Store.findCol at h
    have hm := Array.mem_of_find?_eq_some h
    have hp := Array.find?_some h
    exact absurd hp (by simpa using hi c hm)
  | some i =>
    simp only
    unfold Store.findCol
    rw [← Array.find?_toList, Array.toList_setIfInBounds]
    apply list_find?_set_hit
    · simp [hn]
    · rw [toList_findIdx?]; exact hi

/-- … and no other name resolves differently -/
theorem findCol_setCol_other (s : Store) (m : String) (c' : Col) (hm : c'.name ≠ m) :
    (s.setCol c').findCol m = s.findCol m := by
  unfold Store.setCol
  split
  · rename_i i hi
    unfold Store.colIdx at hi
    obtain ⟨hlt, hp, _⟩ := Array.findIdx?_eq_some_iff_getElem.mp hi
    have hname : s.cols[i].name = c'.name := by simpa using hp
    unfold Store.findCol
    simp only
    rw [← Array.find?_toList, ← Array.find?_toList, Array.toList_setIfInBounds]
    apply list_find?_set_miss
    · simpa using hm
    · intro h
      simp only [Array.getElem_toList, hname]
      simpa using hm
  · rfl

/-! ## the marker buffer is never rewritten -/

/-- `findMarkers`' predicate -/
def isMarkerBuf (b : Buf) : Bool := !b.isEmpty && b.column == rowColumn

theorem markers_eq (t : Txn) : t.markers = t.updates.find? isMarkerBuf := rfl

theorem foldl_updStep_markers (chunk : Nat) (ups : List Buf) (acc : Store × List Buf × Bool) :
    (ups.foldl (updStep chunk) acc).2.1.find? isMarkerBuf = (acc.2.1 ++ ups).find? isMarkerBuf := by
  induction ups generalizing acc with
  | nil => simp
  | cons u us ih =>
    simp only [List.foldl_cons]
    obtain ⟨_, _, _, ⟨u', a4, a5, a6⟩, _⟩ := updStep_spec chunk acc u
    rw [ih, a4]
    have hsig : isMarkerBuf u' = isMarkerBuf u := by
      unfold bufSig at a5
      have h1 : u'.column = u.column := congrArg Prod.fst a5
      have h2 : u'.isEmpty = u.isEmpty := congrArg Prod.snd a5
      unfold isMarkerBuf
      rw [h1, h2]
    have hone : [u'].find? isMarkerBuf = [u].find? isMarkerBuf := by
      simp only [List.find?_cons, List.find?_nil, hsig]
      cases hm : isMarkerBuf u with
      | false => rfl
      | true =>
        have : u' = u := a6 (by
          unfold isMarkerBuf at hm
          cases h1 : u.isEmpty <;> cases h2 : (u.column == rowColumn) <;> simp_all)
        rw [this]
    have : acc.2.1 ++ u :: us = (acc.2.1 ++ [u]) ++ us := by simp
    rw [this]
    simp only [List.find?_append, hone]

/-- the marker buffer is handed from chunk to chunk untouched -/
theorem commitUpdates_markers (s : Store) (chunk : Nat) (ups : List Buf) :
    (s.commitUpdates chunk ups).2.1.find? isMarkerBuf = ups.find? isMarkerBuf := by
  rw [commitUpdates_eq, foldl_updStep_markers]
  rfl

theorem commitChunk_markers (s : Store) (chunk : Nat) (cr : Bool) (ups : List Buf) :
    (s.commitChunk chunk cr ups).2.find? isMarkerBuf = ups.find? isMarkerBuf := by
  rw [commitChunk_eq, (chunkEmit_spec _ _ _ _).2.2.2.2.2.2.1, commitUpdates_markers]

end ColumnVerif.StorePlumb
