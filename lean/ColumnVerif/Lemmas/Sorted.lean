import ColumnVerif.Model.Filter
import ColumnVerif.Lemmas.Apply
namespace ColumnVerif.Store
open ColumnVerif.Codec ColumnVerif.Bits

theorem u8_eq_of_not_lt {x y : UInt8} (h1 : ¬ x < y) (h2 : ¬ y < x) : x = y := by
  rw [UInt8.lt_iff_toNat_lt] at h1 h2
  apply UInt8.toNat_inj.mp
  omega

theorem u8_lt_asymm {x y : UInt8} (h1 : x < y) : ¬ y < x := by
  rw [UInt8.lt_iff_toNat_lt] at *
  omega

theorem u8_lt_trans {x y z : UInt8} (h1 : x < y) (h2 : y < z) : x < z := by
  rw [UInt8.lt_iff_toNat_lt] at *
  omega

theorem bytesLt_irrefl (a : Bytes) : bytesLt a a = false := by
  induction a with
  | nil => rfl
  | cons x xs ih => simp [bytesLt, ih]

theorem bytesLt_cons (x y : UInt8) (xs ys : Bytes) :
    bytesLt (x :: xs) (y :: ys) = true ↔ x < y ∨ (x = y ∧ bytesLt xs ys = true) := by
  rw [bytesLt]
  by_cases h1 : x < y
  · simp [h1]
  · by_cases h2 : y < x
    · have : x ≠ y := by intro e; subst e; exact h1 h2
      simp [h1, h2, this]
    · have := u8_eq_of_not_lt h1 h2
      subst this
      simp [h1]

theorem bytesLt_trans : ∀ {a b c : Bytes}, bytesLt a b = true → bytesLt b c = true → bytesLt a c = true
  | [], [], _, h, _ => by simp [bytesLt] at h
  | [], _ :: _, [], _, h => by simp [bytesLt] at h
  | [], _ :: _, _ :: _, _, _ => by simp [bytesLt]
  | _ :: _, [], _, h, _ => by simp [bytesLt] at h
  | _ :: _, _ :: _, [], _, h => by simp [bytesLt] at h
  | x :: xs, y :: ys, z :: zs, h1, h2 => by
    rw [bytesLt_cons] at h1 h2 ⊢
    rcases h1 with h1 | ⟨e1, h1⟩
    · rcases h2 with h2 | ⟨e2, h2⟩
      · exact Or.inl (u8_lt_trans h1 h2)
      · subst e2; exact Or.inl h1
    · subst e1
      rcases h2 with h2 | ⟨e2, h2⟩
      · exact Or.inl h2
      · exact Or.inr ⟨e2, bytesLt_trans h1 h2⟩

theorem bytesLt_trichotomy : ∀ (a b : Bytes), bytesLt a b = true ∨ a = b ∨ bytesLt b a = true
  | [], [] => Or.inr (Or.inl rfl)
  | [], _ :: _ => Or.inl (by simp [bytesLt])
  | _ :: _, [] => Or.inr (Or.inr (by simp [bytesLt]))
  | x :: xs, y :: ys => by
    rw [bytesLt_cons, bytesLt_cons]
    by_cases h1 : x < y
    · exact Or.inl (Or.inl h1)
    · by_cases h2 : y < x
      · exact Or.inr (Or.inr (Or.inl h2))
      · have e := u8_eq_of_not_lt h1 h2
        subst e
        rcases bytesLt_trichotomy xs ys with h | h | h
        · exact Or.inl (Or.inr ⟨rfl, h⟩)
        · exact Or.inr (Or.inl (by rw [h]))
        · exact Or.inr (Or.inr (Or.inr ⟨rfl, h⟩))

theorem bytesLt_asymm {a b : Bytes} (h : bytesLt a b = true) : bytesLt b a = false := by
  cases h' : bytesLt b a with
  | false => rfl
  | true =>
    have := bytesLt_trans h h'
    rw [bytesLt_irrefl] at this
    exact this.symm

theorem bytesLt_ne {a b : Bytes} (h : bytesLt a b = true) : a ≠ b := by
  intro e; subst e; rw [bytesLt_irrefl] at h; exact Bool.noConfusion h

/-! entryLt -/

theorem entryLt_irrefl (a : Bytes × Nat) : entryLt a a = false := by
  simp [entryLt]

theorem entryLt_iff (a b : Bytes × Nat) :
    entryLt a b = true ↔ bytesLt a.1 b.1 = true ∨ (a.1 = b.1 ∧ a.2 < b.2) := by
  unfold entryLt
  by_cases h : a.1 = b.1
  · simp [h, bytesLt_irrefl]
  · simp [h]

theorem entryLt_trans {a b c : Bytes × Nat} (h1 : entryLt a b = true) (h2 : entryLt b c = true) :
    entryLt a c = true := by
  rw [entryLt_iff] at *
  rcases h1 with h1 | ⟨e1, h1⟩
  · rcases h2 with h2 | ⟨e2, h2⟩
    · exact Or.inl (bytesLt_trans h1 h2)
    · rw [← e2]; exact Or.inl h1
  · rcases h2 with h2 | ⟨e2, h2⟩
    · rw [e1]; exact Or.inl h2
    · exact Or.inr ⟨e1.trans e2, Nat.lt_trans h1 h2⟩

theorem entryLt_trichotomy (a b : Bytes × Nat) : entryLt a b = true ∨ a = b ∨ entryLt b a = true := by
  rw [entryLt_iff, entryLt_iff]
  obtain ⟨ka, oa⟩ := a
  obtain ⟨kb, ob⟩ := b
  simp only
  rcases bytesLt_trichotomy ka kb with h | h | h
  · exact Or.inl (Or.inl h)
  · subst h
    rcases Nat.lt_trichotomy oa ob with h | h | h
    · exact Or.inl (Or.inr ⟨rfl, h⟩)
    · subst h; exact Or.inr (Or.inl rfl)
    · exact Or.inr (Or.inr (Or.inr ⟨rfl, h⟩))
  · exact Or.inr (Or.inr (Or.inl h))

theorem entryLt_asymm {a b : Bytes × Nat} (h : entryLt a b = true) : entryLt b a = false := by
  cases h' : entryLt b a with
  | false => rfl
  | true =>
    have := entryLt_trans h h'
    rw [entryLt_irrefl] at this
    exact this.symm

/-- strict entry order implies non-decreasing keys -/
theorem entryLt_key_le {a b : Bytes × Nat} (h : entryLt a b = true) : bytesLt b.1 a.1 = false := by
  rw [entryLt_iff] at h
  rcases h with h | ⟨e, _⟩
  · exact bytesLt_asymm h
  · rw [e]; exact bytesLt_irrefl _


/-! ## insertSorted -/

abbrev ELt (a b : Bytes × Nat) : Prop := entryLt a b = true

theorem mem_insertSorted (e x : Bytes × Nat) (l : List (Bytes × Nat)) :
    x ∈ insertSorted e l ↔ x = e ∨ x ∈ l := by
  induction l with
  | nil => simp [insertSorted]
  | cons y ys ih =>
    rw [insertSorted]
    by_cases h1 : entryLt e y = true
    · rw [if_pos h1]; simp
    · rw [if_neg h1]
      by_cases h2 : e = y
      · rw [if_pos h2]; subst h2; simp
      · rw [if_neg h2]
        simp only [List.mem_cons, ih]
        constructor
        · rintro (h | h | h)
          · exact Or.inr (Or.inl h)
          · exact Or.inl h
          · exact Or.inr (Or.inr h)
        · rintro (h | h | h)
          · exact Or.inr (Or.inl h)
          · exact Or.inl h
          · exact Or.inr (Or.inr h)

theorem pairwise_insertSorted (e : Bytes × Nat) (l : List (Bytes × Nat)) (h : l.Pairwise ELt) :
    (insertSorted e l).Pairwise ELt := by
  induction l with
  | nil => simp [insertSorted]
  | cons y ys ih =>
    rw [List.pairwise_cons] at h
    rw [insertSorted]
    by_cases h1 : entryLt e y = true
    · rw [if_pos h1]
      refine List.pairwise_cons.mpr ⟨?_, List.pairwise_cons.mpr h⟩
      intro z hz
      rcases List.mem_cons.mp hz with hz | hz
      · subst hz; exact h1
      · exact entryLt_trans h1 (h.1 z hz)
    · rw [if_neg h1]
      by_cases h2 : e = y
      · rw [if_pos h2]; exact List.pairwise_cons.mpr h
      · rw [if_neg h2]
        refine List.pairwise_cons.mpr ⟨?_, ih h.2⟩
        intro z hz
        rcases (mem_insertSorted e z ys).mp hz with hz | hz
        · subst hz
          rcases entryLt_trichotomy z y with t | t | t
          · exact absurd t h1
          · exact absurd t h2
          · exact t
        · exact h.1 z hz

/-! ## the sorted-index `Apply`, one op at a time -/

/-- one op of `applyOther` on a `.sorted` column (the body of its fold) -/
def sortedStep (c : Col) (o : Op) : Col :=
  if o.typ = opPut then
    let es := match c.back.get? o.idx with
      | some k => c.entries.filter (fun e => e ≠ (k, o.idx))
      | none => c.entries
    let k := valRaw o.val
    { c with back := c.back.insert o.idx k, entries := insertSorted (k, o.idx) es }
  else if o.typ = opDelete then
    let k := (c.back.get? o.idx).getD []
    { c with entries := c.entries.filter (fun e => e ≠ (k, o.idx)) }
  else c

theorem applyOther_sorted (c : Col) (t : String) (h : c.kind = .sorted t) (ops : List Op) :
    applyOther c ops = (ops.foldl sortedStep c, false) := by
  unfold applyOther
  rw [h]
  rfl

/-- the invariant of a sorted index: strictly sorted entries, each one recorded in `back` -/
def SortInv (c : Col) : Prop :=
  List.Pairwise (fun a b => entryLt a b = true) c.entries ∧
  ∀ k o, (k, o) ∈ c.entries → c.back.get? o = some k

/-- the key the index holds for offset `o` -/
def entryOf (c : Col) (o : Nat) : Option Bytes := (c.entries.find? (fun e => e.2 = o)).map (·.1)

/-- under the invariant, removing `(back[i], i)` removes every entry of offset `i` (Put) -/
theorem put_removed (c : Col) (h : SortInv c) (i : Nat) :
    (match c.back.get? i with
      | some k => c.entries.filter (fun e => e ≠ (k, i))
      | none => c.entries) = c.entries.filter (fun e => e.2 ≠ i) := by
  cases hb : c.back.get? i with
  | some kb =>
    simp only
    apply List.filter_congr
    intro ⟨k, o⟩ hx
    by_cases e : o = i
    · subst e
      have := h.2 k o hx
      rw [hb] at this
      cases this
      simp
    · simp [e]
  | none =>
    simp only
    symm
    rw [List.filter_eq_self]
    intro ⟨k, o⟩ hx
    by_cases e : o = i
    · subst e
      have := h.2 k o hx
      rw [hb] at this
      cases this
    · simp [e]

/-- under the invariant, removing `(back[i] or "", i)` removes every entry of offset `i` (Delete) -/
theorem delete_removed (c : Col) (h : SortInv c) (i : Nat) :
    c.entries.filter (fun e => e ≠ ((c.back.get? i).getD [], i)) = c.entries.filter (fun e => e.2 ≠ i) := by
  apply List.filter_congr
  intro ⟨k, o⟩ hx
  by_cases e : o = i
  · subst e
    have := h.2 k o hx
    rw [this]
    simp
  · simp [e]

/-- what one op does to a sorted index that satisfies the invariant -/
theorem sortedStep_put (c : Col) (h : SortInv c) (o : Op) (ht : o.typ = opPut) :
    sortedStep c o = { c with back := c.back.insert o.idx (valRaw o.val),
                              entries := insertSorted (valRaw o.val, o.idx) (c.entries.filter (fun e => e.2 ≠ o.idx)) } := by
  unfold sortedStep
  rw [if_pos ht]
  simp only
  rw [put_removed c h]

theorem sortedStep_delete (c : Col) (h : SortInv c) (o : Op) (ht : o.typ = opDelete) :
    sortedStep c o = { c with entries := c.entries.filter (fun e => e.2 ≠ o.idx) } := by
  unfold sortedStep
  have hne : ¬ o.typ = opPut := by rw [ht]; decide
  rw [if_neg hne, if_pos ht]
  simp only
  rw [delete_removed c h]

theorem sortedStep_other (c : Col) (o : Op) (h1 : ¬ o.typ = opPut) (h2 : ¬ o.typ = opDelete) :
    sortedStep c o = c := by
  unfold sortedStep
  rw [if_neg h1, if_neg h2]

/-- membership after one op -/
theorem mem_sortedStep (c : Col) (h : SortInv c) (op : Op) (k : Bytes) (o : Nat) :
    (k, o) ∈ (sortedStep c op).entries ↔
      if op.typ = opPut then ((k, o) = (valRaw op.val, op.idx) ∨ ((k, o) ∈ c.entries ∧ o ≠ op.idx))
      else if op.typ = opDelete then ((k, o) ∈ c.entries ∧ o ≠ op.idx)
      else (k, o) ∈ c.entries := by
  by_cases h1 : op.typ = opPut
  · rw [if_pos h1, sortedStep_put c h op h1]
    simp only [mem_insertSorted, List.mem_filter]
    simp
  · rw [if_neg h1]
    by_cases h2 : op.typ = opDelete
    · rw [if_pos h2, sortedStep_delete c h op h2]
      simp only [List.mem_filter]
      simp
    · rw [if_neg h2, sortedStep_other c op h1 h2]

theorem sortedStep_inv (c : Col) (h : SortInv c) (op : Op) : SortInv (sortedStep c op) := by
  by_cases h1 : op.typ = opPut
  · rw [sortedStep_put c h op h1]
    refine ⟨pairwise_insertSorted _ _ (h.1.filter _), ?_⟩
    intro k o hm
    simp only [mem_insertSorted, List.mem_filter] at hm
    rcases hm with hm | ⟨hm, hne⟩
    · cases hm
      simp [Std.HashMap.get?_eq_getElem?]
    · have hne' : ¬ o = op.idx := by simpa using hne
      have hne'' : ¬ op.idx = o := fun e => hne' e.symm
      have := h.2 k o hm
      simp only [Std.HashMap.get?_eq_getElem?] at this ⊢
      rw [Std.HashMap.getElem?_insert]
      simp [hne'', this]
  · by_cases h2 : op.typ = opDelete
    · rw [sortedStep_delete c h op h2]
      refine ⟨h.1.filter _, ?_⟩
      intro k o hm
      exact h.2 k o (List.mem_filter.mp hm).1
    · rw [sortedStep_other c op h1 h2]; exact h

theorem foldl_sortedStep_inv (ops : List Op) (c : Col) (h : SortInv c) : SortInv (ops.foldl sortedStep c) := by
  induction ops generalizing c with
  | nil => exact h
  | cons o os ih => exact ih _ (sortedStep_inv c h o)

/-! ## `entryOf` is membership -/

theorem entryOf_eq_some_iff (c : Col) (h : SortInv c) (o : Nat) (k : Bytes) :
    entryOf c o = some k ↔ (k, o) ∈ c.entries := by
  unfold entryOf
  constructor
  · intro hf
    cases hfe : c.entries.find? (fun e => decide (e.2 = o)) with
    | none => rw [hfe] at hf; cases hf
    | some e =>
      rw [hfe] at hf
      have hm := List.mem_of_find?_eq_some hfe
      have hp := List.find?_some hfe
      obtain ⟨k', o'⟩ := e
      simp at hp hf
      subst hp; subst hf
      exact hm
  · intro hm
    cases hfe : c.entries.find? (fun e => decide (e.2 = o)) with
    | none =>
      rw [List.find?_eq_none] at hfe
      have := hfe _ hm
      simp at this
    | some e =>
      have hm' := List.mem_of_find?_eq_some hfe
      have hp := List.find?_some hfe
      obtain ⟨k', o'⟩ := e
      simp at hp
      subst hp
      have e1 := h.2 _ _ hm
      have e2 := h.2 _ _ hm'
      rw [e1] at e2
      cases e2
      rfl

theorem entryOf_isSome_iff (c : Col) (o : Nat) :
    (entryOf c o).isSome = true ↔ ∃ k, (k, o) ∈ c.entries := by
  unfold entryOf
  rw [Option.isSome_map, List.find?_isSome]
  constructor
  · rintro ⟨⟨k, o'⟩, hm, hp⟩
    simp at hp; subst hp
    exact ⟨k, hm⟩
  · rintro ⟨k, hm⟩
    exact ⟨(k, o), hm, by simp⟩

/-- effect of one op on the entry of offset `o` -/
def entryEffect (cur : Option Bytes) (op : Op) : Option Bytes :=
  if op.typ = opPut then some (valRaw op.val) else if op.typ = opDelete then none else cur

theorem entryOf_sortedStep (c : Col) (h : SortInv c) (op : Op) (o : Nat) :
    entryOf (sortedStep c op) o = if op.idx = o then entryEffect (entryOf c o) op else entryOf c o := by
  have h' := sortedStep_inv c h op
  apply Option.ext
  intro k
  rw [entryOf_eq_some_iff _ h', mem_sortedStep c h]
  unfold entryEffect
  by_cases e : op.idx = o
  · have e' : o = op.idx := e.symm
    rw [if_pos e]
    by_cases h1 : op.typ = opPut
    · rw [if_pos h1, if_pos h1]
      simp [e']
      exact eq_comm
    · rw [if_neg h1, if_neg h1]
      by_cases h2 : op.typ = opDelete
      · rw [if_pos h2, if_pos h2]; simp [e']
      · rw [if_neg h2, if_neg h2, entryOf_eq_some_iff _ h]
  · have e' : ¬ o = op.idx := fun x => e x.symm
    rw [if_neg e, entryOf_eq_some_iff _ h]
    by_cases h1 : op.typ = opPut
    · rw [if_pos h1]; simp [e']
    · rw [if_neg h1]
      by_cases h2 : op.typ = opDelete
      · rw [if_pos h2]; simp [e']
      · rw [if_neg h2]

theorem foldl_sortedStep_sem (ops : List Op) (c : Col) (h : SortInv c) (o : Nat) :
    entryOf (ops.foldl sortedStep c) o =
      (ops.filter (fun op => op.idx = o)).foldl entryEffect (entryOf c o) := by
  induction ops generalizing c with
  | nil => rfl
  | cons op os ih =>
    simp only [List.foldl_cons]
    rw [ih _ (sortedStep_inv c h op), entryOf_sortedStep c h]
    by_cases e : op.idx = o
    · simp [e]
    · simp [e]

/-! ## columns of any other kind never touch `entries` / `back` -/

theorem SortInv.congr {c c' : Col} (he : c'.entries = c.entries) (hb : c'.back = c.back) (h : SortInv c) :
    SortInv c' := by
  unfold SortInv at *
  rw [he, hb]; exact h

theorem foldl_preserves {α β : Type} (P : α → Prop) (f : α → β → α) (hf : ∀ a b, P a → P (f a b))
    (l : List β) (a : α) (h : P a) : P (l.foldl f a) := by
  induction l generalizing a with
  | nil => exact h
  | cons x xs ih => exact ih _ (hf a x h)

/-- `applyOther` keeps the invariant on a column of any kind -/
theorem applyOther_inv (c : Col) (ops : List Op) (h : SortInv c) : SortInv (applyOther c ops).1 := by
  unfold applyOther
  split
  · apply foldl_preserves (fun (a : Col × Bool) => SortInv a.1) _ _ ops (c, false) h
    intro ⟨a, p⟩ o ha
    simp only at ha ⊢
    split
    · split
      · exact SortInv.congr rfl rfl ha
      · exact ha
    · split
      · split
        · exact SortInv.congr rfl rfl ha
        · exact ha
      · exact ha
  · apply foldl_preserves SortInv _ _ ops c h
    intro a o ha
    split
    · split <;> exact SortInv.congr rfl rfl ha
    · split
      · exact SortInv.congr rfl rfl ha
      · exact ha
  · apply foldl_preserves SortInv _ _ ops c h
    intro a o ha
    split
    · exact SortInv.congr rfl rfl ha
    · exact ha
  · exact foldl_sortedStep_inv ops c h
  · exact h

/-- the back-fill of `CreateSortIndex` (a fold of `applyOther` over the chunks) keeps the invariant -/
theorem backfill_inv (s : Store) (target idx : Col) (h : SortInv idx) : SortInv (s.backfill target idx).1 := by
  unfold Store.backfill
  apply foldl_preserves (fun (a : Col × Bool) => SortInv a.1) _ _ _ (idx, false) h
  intro ⟨a, p⟩ chunk ha
  simp only at ha ⊢
  split
  · exact ha
  · exact applyOther_inv a _ ha

/-! ## reading the index in order -/

/-- at most one entry per offset -/
theorem entry_unique (c : Col) (h : SortInv c) {a b : Bytes × Nat} (ha : a ∈ c.entries) (hb : b ∈ c.entries)
    (e : a.2 = b.2) : a = b := by
  obtain ⟨ka, oa⟩ := a
  obtain ⟨kb, ob⟩ := b
  simp only at e
  subst e
  have e1 := h.2 _ _ ha
  have e2 := h.2 _ _ hb
  rw [e1] at e2
  cases e2
  rfl

theorem offsets_nodup (c : Col) (h : SortInv c) : (c.entries.map (·.2)).Nodup := by
  unfold List.Nodup
  rw [List.pairwise_map]
  apply List.Pairwise.imp_of_mem _ h.1
  intro a b ha hb hlt e
  have := entry_unique c h ha hb e
  subst this
  rw [entryLt_irrefl] at hlt
  cases hlt

theorem entryOf_of_mem (c : Col) (h : SortInv c) {a : Bytes × Nat} (ha : a ∈ c.entries) :
    entryOf c a.2 = some a.1 := (entryOf_eq_some_iff c h a.2 a.1).mpr ha

/-- along the entries, the current keys of the offsets never decrease -/
theorem offsets_keys_sorted (c : Col) (h : SortInv c) :
    List.Pairwise (fun a b => ¬ bytesLt ((entryOf c b).getD []) ((entryOf c a).getD []) = true)
      (c.entries.map (·.2)) := by
  rw [List.pairwise_map]
  apply List.Pairwise.imp_of_mem _ h.1
  intro a b ha hb hlt
  rw [entryOf_of_mem c h ha, entryOf_of_mem c h hb]
  simp only [Option.getD_some]
  rw [entryLt_key_le hlt]
  exact Bool.false_ne_true

/-! ## the index follows its string column (guard D12: no resizing merge in the section) -/

/-- the value a string / record column holds at offset `o` (presence bit, then the raw slot) -/
def strVal (c : Col) (o : Nat) : Option Bytes :=
  if Bits.get c.bits o then some ((c.data[o]?).getD []) else none

/-- index and column agree on every offset -/
def InSync (c ix : Col) : Prop := ∀ o, entryOf ix o = strVal c o

theorem stepStr_sizes (acc : ApplyAcc) (o : Op) :
    (stepStr acc o).1.bits.size = acc.1.bits.size ∧ (stepStr acc o).1.data.size = acc.1.data.size := by
  obtain ⟨c, done, app⟩ := acc
  unfold stepStr
  simp only
  split
  · simp
  · split
    · split <;> simp
    · split <;> simp

/-- the appended puts only grow -/
theorem stepStr_app (acc : ApplyAcc) (o : Op) : ∃ l, (stepStr acc o).2.2 = acc.2.2 ++ l := by
  obtain ⟨c, done, app⟩ := acc
  unfold stepStr
  simp only
  split
  · exact ⟨[], by simp⟩
  · split
    · split
      · exact ⟨[], by simp⟩
      · exact ⟨_, rfl⟩
    · split <;> exact ⟨[], by simp⟩

theorem foldStr_app (ops : List Op) (acc : ApplyAcc) : ∃ l, (ops.foldl stepStr acc).2.2 = acc.2.2 ++ l := by
  induction ops generalizing acc with
  | nil => exact ⟨[], by simp⟩
  | cons o os ih =>
    obtain ⟨l1, h1⟩ := stepStr_app acc o
    obtain ⟨l2, h2⟩ := ih (stepStr acc o)
    exact ⟨l1 ++ l2, by rw [List.foldl_cons, h2, h1, List.append_assoc]⟩

/-- the index after the ops rewritten so far -/
def ixOf (ix : Col) (acc : ApplyAcc) : Col := acc.2.1.reverse.foldl sortedStep ix

theorem strVal_put (c : Col) (i : Nat) (v : Bytes) (hb : i < c.bits.size) (hd : i < c.data.size) (x : Nat) :
    strVal { c with bits := c.bits.setIfInBounds i true, data := c.data.setIfInBounds i v } x =
      if i = x then some v else strVal c x := by
  unfold strVal
  simp only [get_setIfInBounds _ _ _ _ hb, data_setIfInBounds _ _ _ _ hd]
  by_cases e : i = x
  · subst e; simp
  · have : ¬ x = i := fun h => e h.symm
    simp [e, this]

theorem strVal_delete (c : Col) (i : Nat) (hb : i < c.bits.size) (x : Nat) :
    strVal { c with bits := c.bits.setIfInBounds i false } x = if i = x then none else strVal c x := by
  unfold strVal
  simp only [get_setIfInBounds _ _ _ _ hb]
  by_cases e : i = x
  · subst e; simp
  · have : ¬ x = i := fun h => e h.symm
    simp [e, this]

/-- one op: the string column and the index (fed the rewritten op) stay in step, unless the op is a
    resizing merge -/
theorem stepStr_sync (ix : Col) (acc : ApplyAcc) (o : Op)
    (hb : o.idx < acc.1.bits.size) (hd : o.idx < acc.1.data.size)
    (hinv : SortInv (ixOf ix acc)) (hs : InSync acc.1 (ixOf ix acc))
    (happ : (stepStr acc o).2.2 = []) :
    InSync (stepStr acc o).1 (ixOf ix (stepStr acc o)) := by
  obtain ⟨c, done, app⟩ := acc
  simp only at hb hd
  have happ0 : app = [] := by
    obtain ⟨l, hl⟩ := stepStr_app (c, done, app) o
    rw [happ] at hl
    simp only at hl
    exact (List.append_eq_nil_iff.mp hl.symm).1
  subst happ0
  intro x
  have hs' := hs x
  unfold ixOf at hinv hs' ⊢
  simp only at hinv hs'
  unfold stepStr at happ ⊢
  simp only at happ ⊢
  by_cases h1 : o.typ = opPut
  · rw [if_pos h1]
    simp only [List.reverse_cons, List.foldl_append, List.foldl_cons, List.foldl_nil]
    rw [entryOf_sortedStep _ hinv, strVal_put c _ _ hb hd, hs']
    unfold entryEffect
    rw [if_pos h1]
  · rw [if_neg h1] at happ ⊢
    by_cases h2 : o.typ = opMerge
    · rw [if_pos h2] at happ ⊢
      by_cases h3 : (c.merge (c.data.getD o.idx []) (valRaw o.val)).length = (valRaw o.val).length
      · rw [if_pos h3]
        simp only [List.reverse_cons, List.foldl_append, List.foldl_cons, List.foldl_nil]
        rw [entryOf_sortedStep _ hinv, strVal_put c _ _ hb hd, hs']
        unfold entryEffect swapInPlace
        simp [valRaw]
      · rw [if_neg h3] at happ
        simp at happ
    · rw [if_neg h2]
      by_cases h3 : o.typ = opDelete
      · rw [if_pos h3]
        simp only [List.reverse_cons, List.foldl_append, List.foldl_cons, List.foldl_nil]
        rw [entryOf_sortedStep _ hinv, strVal_delete c _ hb, hs']
        unfold entryEffect
        rw [if_neg h1, if_pos h3]
      · rw [if_neg h3]
        simp only [List.reverse_cons, List.foldl_append, List.foldl_cons, List.foldl_nil]
        rw [entryOf_sortedStep _ hinv, hs']
        unfold entryEffect
        rw [if_neg h1, if_neg h3]
        simp

theorem ixOf_step_inv (ix : Col) (acc : ApplyAcc) (o : Op) (hinv : SortInv (ixOf ix acc)) :
    SortInv (ixOf ix (stepStr acc o)) := by
  obtain ⟨c, done, app⟩ := acc
  unfold ixOf at hinv ⊢
  simp only at hinv
  unfold stepStr
  simp only
  split
  · simp only [List.reverse_cons, List.foldl_append, List.foldl_cons, List.foldl_nil]
    exact sortedStep_inv _ hinv _
  · split
    · split <;>
      · simp only [List.reverse_cons, List.foldl_append, List.foldl_cons, List.foldl_nil]
        exact sortedStep_inv _ hinv _
    · split <;>
      · simp only [List.reverse_cons, List.foldl_append, List.foldl_cons, List.foldl_nil]
        exact sortedStep_inv _ hinv _

theorem foldStr_sync (ix : Col) (ops : List Op) (acc : ApplyAcc) (hin : InBounds acc.1 ops)
    (hinv : SortInv (ixOf ix acc)) (hs : InSync acc.1 (ixOf ix acc))
    (happ : (ops.foldl stepStr acc).2.2 = []) :
    InSync (ops.foldl stepStr acc).1 (ixOf ix (ops.foldl stepStr acc)) := by
  induction ops generalizing acc with
  | nil => exact hs
  | cons o os ih =>
    simp only [List.foldl_cons] at happ ⊢
    have ho := hin o (by simp)
    have hsz := stepStr_sizes acc o
    have hin' : InBounds (stepStr acc o).1 os := by
      intro x hx
      have := hin x (by simp [hx])
      rw [hsz.1, hsz.2]; exact this
    have happ1 : (stepStr acc o).2.2 = [] := by
      obtain ⟨l, hl⟩ := foldStr_app os (stepStr acc o)
      rw [happ] at hl
      exact (List.append_eq_nil_iff.mp hl.symm).1
    exact ih _ hin' (ixOf_step_inv ix acc o hinv) (stepStr_sync ix acc o ho.1 ho.2 hinv hs happ1) happ

theorem stepOf_str (hash : Bytes → Nat) (k : Kind) (hk : k = .str ∨ k = .record) : stepOf hash k = stepStr := by
  rcases hk with h | h <;> (subst h; rfl)

/-- a section without resizing merges: the index, fed the rewritten section, agrees with the string
    column again -/
theorem applyData_sync (hash : Bytes → Nat) (c ix : Col) (t : String) (chunk : Nat) (ops : List Op)
    (hk : c.kind = .str ∨ c.kind = .record) (hik : ix.kind = .sorted t)
    (hch : chunk < c.nchunks) (hin : InBounds c ops) (hinv : SortInv ix) (hs : InSync c ix)
    (happ : (applyData hash c chunk ops).appended = []) :
    InSync (applyData hash c chunk ops).col (applyOther ix (applyData hash c chunk ops).ops).1 := by
  rw [applyOther_sorted ix t hik]
  unfold applyData at happ ⊢
  have hge : ¬ chunk ≥ c.nchunks := by omega
  rw [if_neg hge] at happ ⊢
  rw [stepOf_str hash c.kind hk] at happ ⊢
  simp only at happ ⊢
  exact foldStr_sync ix ops (c, [], []) hin hinv hs happ

/-- without Merge ops nothing is appended -/
theorem foldStr_app_nomerge (ops : List Op) (acc : ApplyAcc) (hm : ∀ o ∈ ops, o.typ ≠ opMerge) :
    (ops.foldl stepStr acc).2.2 = acc.2.2 := by
  induction ops generalizing acc with
  | nil => rfl
  | cons o os ih =>
    rw [List.foldl_cons, ih _ (fun x hx => hm x (by simp [hx]))]
    have h2 : ¬ o.typ = opMerge := hm o (by simp)
    obtain ⟨c, done, app⟩ := acc
    unfold stepStr
    simp only
    split
    · rfl
    · split <;> rfl

theorem applyData_appended_nomerge (hash : Bytes → Nat) (c : Col) (chunk : Nat) (ops : List Op)
    (hk : c.kind = .str ∨ c.kind = .record) (hm : ∀ o ∈ ops, o.typ ≠ opMerge) :
    (applyData hash c chunk ops).appended = [] := by
  unfold applyData
  split
  · rfl
  · rw [stepOf_str hash c.kind hk]
    simp only
    rw [foldStr_app_nomerge ops _ hm]

/-- `strVal` is what the typed reader returns when the presence bitmap covers exactly the chunks -/
theorem read_eq_strVal (c : Col) (hk : c.kind = .str ∨ c.kind = .record) (hsz : c.bits.size ≤ 16384 * c.nchunks)
    (o : Nat) : c.read o = strVal c o := by
  unfold Col.read strVal
  have key : (if o / 16384 < c.nchunks ∧ Bits.get c.bits o = true then some (c.data.getD o []) else none) =
      if Bits.get c.bits o = true then some ((c.data[o]?).getD []) else none := by
    rw [getD_eq]
    by_cases hb : Bits.get c.bits o = true
    · have : o / 16384 < c.nchunks := by
        apply Classical.byContradiction
        intro hn
        rw [get_of_ge c.bits o (by omega)] at hb
        cases hb
      simp [hb, this]
    · simp [hb]
  rcases hk with h | h <;> (rw [h]; exact key)

end ColumnVerif.Store
