import ColumnVerif.Model.Buffer
import ColumnVerif.Lemmas.Codec
/-! Helper lemmas for `Buf`: what `put` does to the op list, the derived bytes and the sections. -/
namespace ColumnVerif.Codec
structure Buf.Inv (b : Buf) : Prop where
  chunk_ok : ∀ s ∈ b.rsecs, ∀ o ∈ s.rops, chunkOf o.idx = s.chunk
  cur_ok : ∀ s rest, b.rsecs = s :: rest → ∀ c, b.cur = some c → s.chunk = c
  nil_ok : b.rsecs = [] → b.cur = none
  last_ok : ∀ s rest, b.rsecs = s :: rest → lastIdx s.value s.ops = b.last
  lt_ok : b.last < M32 ∧ ∀ s ∈ b.rsecs, s.value < M32 ∧ ∀ o ∈ s.rops, o.WF

theorem Buf.empty_inv (c : String) : (Buf.empty c).Inv := by
  refine ⟨?_, ?_, ?_, ?_, ?_⟩ <;> simp [Buf.empty, M32]

theorem Buf.put_eq_same (b : Buf) (o : Op) (s : Sec) (rest : List Sec)
    (hr : b.rsecs = s :: rest) (hc : b.cur = some (chunkOf o.idx)) :
    b.put o = { b with last := o.idx, rsecs := { s with rops := o :: s.rops } :: rest } := by
  unfold Buf.put; simp only [hc, if_true, hr]

theorem Buf.put_eq_new (b : Buf) (o : Op) (hc : b.cur ≠ some (chunkOf o.idx)) :
    b.put o = { b with last := o.idx, cur := some (chunkOf o.idx),
                       rsecs := ⟨chunkOf o.idx, b.last, [o]⟩ :: b.rsecs } := by
  unfold Buf.put; simp only [hc, if_false]

theorem Buf.put_cases (b : Buf) (o : Op) (h : b.Inv) :
    (∃ s rest, b.rsecs = s :: rest ∧ b.cur = some (chunkOf o.idx) ∧ s.chunk = chunkOf o.idx ∧
      b.put o = { b with last := o.idx, rsecs := { s with rops := o :: s.rops } :: rest }) ∨
    (b.cur ≠ some (chunkOf o.idx) ∧
      b.put o = { b with last := o.idx, cur := some (chunkOf o.idx),
                         rsecs := ⟨chunkOf o.idx, b.last, [o]⟩ :: b.rsecs }) := by
  by_cases hc : b.cur = some (chunkOf o.idx)
  · left
    cases hr : b.rsecs with
    | nil => have := h.nil_ok hr; rw [this] at hc; simp at hc
    | cons s rest => exact ⟨s, rest, rfl, hc, h.cur_ok s rest hr _ hc, Buf.put_eq_same b o s rest hr hc⟩
  · right; exact ⟨hc, Buf.put_eq_new b o hc⟩

theorem Buf.put_inv (b : Buf) (o : Op) (h : b.Inv) (ho : o.WF) : (b.put o).Inv := by
  rcases Buf.put_cases b o h with ⟨s, rest, hr, hc, hsc, he⟩ | ⟨hc, he⟩
  · rw [he]
    obtain ⟨h1, h2, h3, h4, h5⟩ := h
    refine ⟨?_, ?_, ?_, ?_, ?_⟩
    · intro s' hs' x hx
      simp only [List.mem_cons] at hs'
      rcases hs' with rfl | hs'
      · simp only [List.mem_cons] at hx
        rcases hx with rfl | hx
        · exact hsc.symm
        · exact h1 s (by simp [hr]) x hx
      · exact h1 s' (by simp [hr, hs']) x hx
    · intro s' rest' hsr c hcc
      simp only [List.cons.injEq] at hsr
      rw [← hsr.1]
      exact h2 s rest hr c hcc
    · intro hnil; simp at hnil
    · intro s' rest' hsr
      simp only [List.cons.injEq] at hsr
      rw [← hsr.1]
      simp [Sec.ops, lastIdx_append, lastIdx]
    · refine ⟨ho.2.1, ?_⟩
      intro s' hs'
      simp only [List.mem_cons] at hs'
      rcases hs' with rfl | hs'
      · refine ⟨(h5.2 s (by simp [hr])).1, ?_⟩
        intro x hx
        simp only [List.mem_cons] at hx
        rcases hx with rfl | hx
        · exact ho
        · exact (h5.2 s (by simp [hr])).2 x hx
      · exact h5.2 s' (by simp [hr, hs'])
  · rw [he]
    obtain ⟨h1, h2, h3, h4, h5⟩ := h
    refine ⟨?_, ?_, ?_, ?_, ?_⟩
    · intro s' hs' x hx
      simp only [List.mem_cons] at hs'
      rcases hs' with rfl | hs'
      · simp only [List.mem_singleton] at hx; subst hx; rfl
      · exact h1 s' hs' x hx
    · intro s' rest' hsr c hcc
      simp only [List.cons.injEq] at hsr
      simp only [Option.some.injEq] at hcc
      rw [← hsr.1]; exact hcc
    · intro hnil; simp at hnil
    · intro s' rest' hsr
      simp only [List.cons.injEq] at hsr
      rw [← hsr.1]; simp [Sec.ops, lastIdx]
    · refine ⟨ho.2.1, ?_⟩
      intro s' hs'
      simp only [List.mem_cons] at hs'
      rcases hs' with rfl | hs'
      · exact ⟨h5.1, by intro x hx; simp only [List.mem_singleton] at hx; subst hx; exact ho⟩
      · exact h5.2 s' hs'


theorem Buf.putAll_inv (b : Buf) (ops : List Op) (h : b.Inv) (ho : ∀ o ∈ ops, o.WF) :
    (b.putAll ops).Inv := by
  induction ops generalizing b with
  | nil => simpa [Buf.putAll]
  | cons o os ih =>
    simp only [Buf.putAll, List.foldl_cons]
    exact ih _ (Buf.put_inv b o h (ho o (by simp))) (fun x hx => ho x (by simp [hx]))

theorem Buf.allOps_put (b : Buf) (o : Op) : (b.put o).allOps = b.allOps ++ [o] := by
  unfold Buf.put Buf.allOps Buf.secs
  simp only
  split
  · split <;> simp_all [Sec.ops]
  · simp [Sec.ops]

theorem Buf.putAll_cons (b : Buf) (o : Op) (os : List Op) :
    b.putAll (o :: os) = (b.put o).putAll os := by simp [Buf.putAll]

theorem Buf.allOps_putAll (b : Buf) (ops : List Op) : (b.putAll ops).allOps = b.allOps ++ ops := by
  induction ops generalizing b with
  | nil => simp [Buf.putAll]
  | cons o os ih => rw [Buf.putAll_cons, ih, Buf.allOps_put]; simp

theorem Buf.last_put (b : Buf) (o : Op) : (b.put o).last = o.idx := by
  unfold Buf.put
  simp only
  split
  · split <;> rfl
  · rfl

/-- the derived byte slice grows by exactly the encoding of the op against `b.last` -/
theorem Buf.bytes_put (b : Buf) (o : Op) (h : b.Inv) :
    (b.put o).bytes = b.bytes ++ encodeOp b.last o := by
  rcases Buf.put_cases b o h with ⟨s, rest, hr, hc, hsc, he⟩ | ⟨hc, he⟩
  · rw [he]
    have hl := h.last_ok s rest hr
    simp only [Buf.bytes, Buf.secs, hr, List.reverse_cons, List.map_append, List.map_cons,
      List.map_nil, List.flatten_append, List.flatten_cons, List.flatten_nil, List.append_nil,
      List.append_assoc]
    congr 1
    simp only [Sec.bytes, Sec.ops, List.reverse_cons, encodeAll_append, encodeAll, List.append_nil]
    simp only [Sec.ops] at hl
    rw [hl]
  · rw [he]
    simp [Buf.bytes, Buf.secs, Sec.bytes, Sec.ops, encodeAll]

theorem Buf.bytes_putAll (b : Buf) (ops : List Op) (h : b.Inv) (ho : ∀ o ∈ ops, o.WF) :
    (b.putAll ops).bytes = b.bytes ++ encodeAll b.last ops := by
  induction ops generalizing b with
  | nil => simp [Buf.putAll, encodeAll]
  | cons o os ih =>
    have hi := Buf.put_inv b o h (ho o (by simp))
    rw [Buf.putAll_cons, ih (b.put o) hi (fun x hx => ho x (by simp [hx])), Buf.bytes_put b o h,
      Buf.last_put]
    simp [encodeAll]

/-- reading one chunk = filtering the op list by chunk (write order kept) -/
theorem Buf.rangeOps_eq_filter (b : Buf) (c : Nat) (h : b.Inv) :
    b.rangeOps c = b.allOps.filter (fun o => chunkOf o.idx = c) := by
  have hc : ∀ s ∈ b.secs, ∀ o ∈ s.ops, chunkOf o.idx = s.chunk := by
    intro s hs o ho
    exact h.chunk_ok s (by simpa [Buf.secs] using hs) o (by simpa [Sec.ops] using ho)
  unfold Buf.rangeOps Buf.range Buf.allOps
  generalize b.secs = secs at hc
  induction secs with
  | nil => simp
  | cons s rest ih =>
    have ih' := ih (fun s' hs' => hc s' (by simp [hs']))
    simp only [List.filter_cons, List.map_cons, List.flatten_cons, List.filter_append]
    by_cases hsc : s.chunk = c
    · simp only [hsc, decide_true, if_true, List.map_cons, List.flatten_cons, ih']
      congr 1
      symm
      rw [List.filter_eq_self]
      intro o ho
      have := hc s (by simp) o ho
      simp [this, hsc]
    · simp only [hsc, decide_false, Bool.false_eq_true, if_false, ih']
      have : s.ops.filter (fun o => decide (chunkOf o.idx = c)) = [] := by
        rw [List.filter_eq_nil_iff]
        intro o ho
        have := hc s (by simp) o ho
        simp [this, hsc]
      simp [this]

/-- every section decodes to its own ops, starting from its header's `Value` -/
theorem Buf.section_decodes (b : Buf) (h : b.Inv) (s : Sec) (hs : s ∈ b.secs) :
    decodeBytes s.bytes s.value = some s.ops := by
  have hs' : s ∈ b.rsecs := by simpa [Buf.secs] using hs
  have := h.lt_ok.2 s hs'
  exact decodeBytes_encodeAll s.ops s.value this.1 (by intro o ho; exact this.2 o (by simpa [Sec.ops] using ho))

end ColumnVerif.Codec
