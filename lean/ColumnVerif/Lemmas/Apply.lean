import ColumnVerif.Model.Store
import ColumnVerif.Lemmas.Bits
/-! Lemmas: what the main pass (`applyData`) does to every slot of a numeric / string column. -/
namespace ColumnVerif.Store
open ColumnVerif.Codec ColumnVerif.Bits

/-- presence bit and raw slot of offset `i` -/
def slot (c : Col) (i : Nat) : Bool × Bytes := (Bits.get c.bits i, (c.data[i]?).getD [])

/-- effect of one op on the slot of its own offset (`w` = 0 for strings: no padding) -/
def slotEffect (merge : Bytes → Bytes → Bytes) (w : Nat) (st : Bool × Bytes) (o : Op) : Bool × Bytes :=
  if o.typ = opPut then (true, valRaw o.val)
  else if o.typ = opMerge then (true, merge (padTo w st.2) (valRaw o.val))
  else if o.typ = opDelete then (false, st.2)
  else st

theorem getD_eq (a : Array Bytes) (i : Nat) : a.getD i [] = (a[i]?).getD [] := by
  simp [Array.getD_eq_getD_getElem?]

theorem get_setIfInBounds (b : Bitmap) (i j : Nat) (v : Bool) (h : i < b.size) :
    Bits.get (b.setIfInBounds i v) j = if j = i then v else Bits.get b j := by
  unfold Bits.get
  rw [Array.getElem?_setIfInBounds]
  by_cases e : i = j
  · subst e; simp [h]
  · have : ¬ j = i := fun h => e h.symm
    simp [e, this]

theorem data_setIfInBounds (a : Array Bytes) (i j : Nat) (v : Bytes) (h : i < a.size) :
    ((a.setIfInBounds i v)[j]?).getD [] = if j = i then v else (a[j]?).getD [] := by
  rw [Array.getElem?_setIfInBounds]
  by_cases e : i = j
  · subst e; simp [h]
  · have : ¬ j = i := fun h => e h.symm
    simp [e, this]

/-- shape facts kept by every step -/
structure SameShape (c c' : Col) : Prop where
  kind : c'.kind = c.kind
  merge : c'.merge = c.merge
  nchunks : c'.nchunks = c.nchunks
  bsize : c'.bits.size = c.bits.size
  dsize : c'.data.size = c.data.size
  name : c'.name = c.name
  computed : c'.computed = c.computed

theorem SameShape.refl (c : Col) : SameShape c c := ⟨rfl, rfl, rfl, rfl, rfl, rfl, rfl⟩

theorem SameShape.trans {a b c : Col} (h1 : SameShape a b) (h2 : SameShape b c) : SameShape a c :=
  ⟨h2.kind.trans h1.kind, h2.merge.trans h1.merge, h2.nchunks.trans h1.nchunks, h2.bsize.trans h1.bsize,
   h2.dsize.trans h1.dsize, h2.name.trans h1.name, h2.computed.trans h1.computed⟩

theorem stepNum_shape (k : NumKind) (acc : ApplyAcc) (o : Op) : SameShape acc.1 (stepNum k acc o).1 := by
  obtain ⟨c, done, app⟩ := acc
  unfold stepNum
  simp only
  split
  · exact ⟨rfl, rfl, rfl, by simp, by simp, rfl, rfl⟩
  · split
    · exact ⟨rfl, rfl, rfl, by simp, by simp, rfl, rfl⟩
    · split
      · exact ⟨rfl, rfl, rfl, by simp, rfl, rfl, rfl⟩
      · exact SameShape.refl c

theorem stepNum_slot (k : NumKind) (acc : ApplyAcc) (o : Op) (i : Nat)
    (hb : o.idx < acc.1.bits.size) (hd : o.idx < acc.1.data.size) :
    slot (stepNum k acc o).1 i =
      if i = o.idx then slotEffect acc.1.merge k.width (slot acc.1 i) o else slot acc.1 i := by
  obtain ⟨c, done, app⟩ := acc
  simp only at hb hd
  unfold stepNum slotEffect slot
  simp only
  by_cases h1 : o.typ = opPut
  · rw [if_pos h1, if_pos h1]
    simp only [get_setIfInBounds _ _ _ _ hb, data_setIfInBounds _ _ _ _ hd]
    split <;> simp
  · rw [if_neg h1, if_neg h1]
    by_cases h2 : o.typ = opMerge
    · rw [if_pos h2, if_pos h2]
      simp only [get_setIfInBounds _ _ _ _ hb, data_setIfInBounds _ _ _ _ hd, getD_eq]
      split
      · rename_i e; subst e; simp
      · simp
    · rw [if_neg h2, if_neg h2]
      by_cases h3 : o.typ = opDelete
      · rw [if_pos h3, if_pos h3]
        simp only [get_setIfInBounds _ _ _ _ hb]
        split <;> simp
      · rw [if_neg h3, if_neg h3]
        split <;> simp

/-- every offset of a section lies inside the column's arrays -/
def InBounds (c : Col) (ops : List Op) : Prop := ∀ o ∈ ops, o.idx < c.bits.size ∧ o.idx < c.data.size

theorem foldNum_shape (k : NumKind) (ops : List Op) (acc : ApplyAcc) :
    SameShape acc.1 (ops.foldl (stepNum k) acc).1 := by
  induction ops generalizing acc with
  | nil => exact SameShape.refl _
  | cons o os ih =>
    simp only [List.foldl_cons]
    exact SameShape.trans (stepNum_shape k acc o) (ih _)

/-- numeric column: after the pass, the slot of every offset is the fold of the ops addressed to
    it, in order, over its previous content — for any merge function -/
theorem foldNum_slot (k : NumKind) (ops : List Op) (acc : ApplyAcc) (i : Nat) (hin : InBounds acc.1 ops) :
    slot (ops.foldl (stepNum k) acc).1 i =
      (ops.filter (fun o => o.idx = i)).foldl (slotEffect acc.1.merge k.width) (slot acc.1 i) := by
  induction ops generalizing acc with
  | nil => simp
  | cons o os ih =>
    simp only [List.foldl_cons]
    have ho := hin o (by simp)
    have hs := stepNum_shape k acc o
    have hin' : InBounds (stepNum k acc o).1 os := by
      intro x hx
      have := hin x (by simp [hx])
      rw [hs.bsize, hs.dsize]; exact this
    rw [ih _ hin', stepNum_slot k acc o i ho.1 ho.2, hs.merge]
    by_cases e : o.idx = i
    · simp [List.filter_cons, e]
    · have : ¬ i = o.idx := fun h => e h.symm
      simp [List.filter_cons, e, this]

end ColumnVerif.Store
