import ColumnVerif.Lemmas.Apply
/-! Lemmas: what the main pass does to a string / record column (`stepStr`) and to an enum column
    (`stepEnum`): slots, the in-place rewriting of the section, replay of the rewritten section. -/
namespace ColumnVerif.Store
open ColumnVerif.Codec ColumnVerif.Bits

/-! ## T1 — slots of a string column -/

theorem padTo_zero (bs : Bytes) : padTo 0 bs = bs := by
  unfold padTo
  split
  · rename_i h
    have : bs = [] := List.eq_nil_of_length_eq_zero h
    subst this; rfl
  · rfl

theorem stepStr_shape (acc : ApplyAcc) (o : Op) : SameShape acc.1 (stepStr acc o).1 := by
  obtain ⟨c, done, app⟩ := acc
  unfold stepStr
  simp only
  split
  · exact ⟨rfl, rfl, rfl, by simp, by simp, rfl, rfl⟩
  · split
    · split
      · exact ⟨rfl, rfl, rfl, by simp, by simp, rfl, rfl⟩
      · exact ⟨rfl, rfl, rfl, by simp, by simp, rfl, rfl⟩
    · split
      · exact ⟨rfl, rfl, rfl, by simp, rfl, rfl, rfl⟩
      · exact SameShape.refl c

/-- the column after one `stepStr`, without the rewriting bookkeeping -/
theorem stepStr_col (acc : ApplyAcc) (o : Op) :
    (stepStr acc o).1 =
      if o.typ = opPut then
        { acc.1 with bits := acc.1.bits.setIfInBounds o.idx true,
                     data := acc.1.data.setIfInBounds o.idx (valRaw o.val) }
      else if o.typ = opMerge then
        { acc.1 with bits := acc.1.bits.setIfInBounds o.idx true,
                     data := acc.1.data.setIfInBounds o.idx
                       (acc.1.merge (acc.1.data.getD o.idx []) (valRaw o.val)) }
      else if o.typ = opDelete then { acc.1 with bits := acc.1.bits.setIfInBounds o.idx false }
      else acc.1 := by
  obtain ⟨c, done, app⟩ := acc
  unfold stepStr
  simp only
  by_cases h1 : o.typ = opPut
  · rw [if_pos h1, if_pos h1]
  · rw [if_neg h1, if_neg h1]
    by_cases h2 : o.typ = opMerge
    · rw [if_pos h2, if_pos h2]
      split <;> rfl
    · rw [if_neg h2, if_neg h2]
      by_cases h3 : o.typ = opDelete
      · rw [if_pos h3, if_pos h3]
      · rw [if_neg h3, if_neg h3]

theorem stepStr_slot (acc : ApplyAcc) (o : Op) (i : Nat)
    (hb : o.idx < acc.1.bits.size) (hd : o.idx < acc.1.data.size) :
    slot (stepStr acc o).1 i =
      if i = o.idx then slotEffect acc.1.merge 0 (slot acc.1 i) o else slot acc.1 i := by
  rw [stepStr_col]
  obtain ⟨c, done, app⟩ := acc
  simp only at hb hd
  unfold slotEffect slot
  simp only
  by_cases h1 : o.typ = opPut
  · rw [if_pos h1, if_pos h1]
    simp only [get_setIfInBounds _ _ _ _ hb, data_setIfInBounds _ _ _ _ hd]
    split <;> simp
  · rw [if_neg h1, if_neg h1]
    by_cases h2 : o.typ = opMerge
    · rw [if_pos h2, if_pos h2]
      simp only [get_setIfInBounds _ _ _ _ hb, data_setIfInBounds _ _ _ _ hd, getD_eq, padTo_zero]
      split
      · rename_i e; subst e; simp
      · simp
    · rw [if_neg h2, if_neg h2]
      by_cases h3 : o.typ = opDelete
      · rw [if_pos h3, if_pos h3]
        simp only [get_setIfInBounds _ _ _ _ hb]
        split <;> simp
      · rw [if_neg h3, if_neg h3]
        split <;> simp

theorem foldStr_shape (ops : List Op) (acc : ApplyAcc) :
    SameShape acc.1 (ops.foldl stepStr acc).1 := by
  induction ops generalizing acc with
  | nil => exact SameShape.refl _
  | cons o os ih =>
    simp only [List.foldl_cons]
    exact SameShape.trans (stepStr_shape acc o) (ih _)

instance (c : Col) (ops : List Op) : Decidable (InBounds c ops) := by
  unfold InBounds; exact inferInstance

theorem InBounds.of_shape {c c' : Col} {ops : List Op} (hs : SameShape c c') (h : InBounds c ops) :
    InBounds c' ops := by
  intro x hx
  have := h x hx
  rw [hs.bsize, hs.dsize]; exact this

theorem InBounds.tail {c : Col} {o : Op} {ops : List Op} (h : InBounds c (o :: ops)) : InBounds c ops :=
  fun x hx => h x (by simp [hx])

/-- string / record column: after the pass, the slot of every offset is the fold of the ops
    addressed to it, in order, over its previous content — for any merge function -/
theorem foldStr_slot (ops : List Op) (acc : ApplyAcc) (i : Nat) (hin : InBounds acc.1 ops) :
    slot (ops.foldl stepStr acc).1 i =
      (ops.filter (fun o => o.idx = i)).foldl (slotEffect acc.1.merge 0) (slot acc.1 i) := by
  induction ops generalizing acc with
  | nil => simp
  | cons o os ih =>
    simp only [List.foldl_cons]
    have ho := hin o (by simp)
    have hs := stepStr_shape acc o
    have hin' : InBounds (stepStr acc o).1 os := InBounds.of_shape hs (InBounds.tail hin)
    rw [ih _ hin', stepStr_slot acc o i ho.1 ho.2, hs.merge]
    by_cases e : o.idx = i
    · simp [e]
    · have : ¬ i = o.idx := fun h => e h.symm
      simp [e, this]

/-! ## T2 — the in-place rewriting of the section -/

/-- the ops of a section, each paired with the value held by its offset right after it was applied -/
def traceStr (acc : ApplyAcc) : List Op → List (Op × Bytes)
  | [] => []
  | o :: os => (o, (slot (stepStr acc o).1 o.idx).2) :: traceStr (stepStr acc o) os

/-- a merge whose result has another length than its delta (`SwapBytes` cannot write in place) -/
def resizing (p : Op × Bytes) : Prop := p.1.typ = opMerge ∧ p.2.length ≠ (valRaw p.1.val).length

instance (p : Op × Bytes) : Decidable (resizing p) := by unfold resizing; exact inferInstance

/-- what the section holds in place of op `p.1` after the pass (`p.2` = value stored by it) -/
def rwOp (p : Op × Bytes) : Op :=
  if p.1.typ = opMerge then
    if p.2.length = (valRaw p.1.val).length then ⟨opPut, p.1.idx, .str p.2⟩ else ⟨opSkip, p.1.idx, p.1.val⟩
  else p.1

/-- the put appended through the parent buffer for op `p.1`, if any -/
def appOp (p : Op × Bytes) : Option Op :=
  if resizing p then some ⟨opPut, p.1.idx, .str p.2⟩ else none

theorem traceStr_map_fst (acc : ApplyAcc) (ops : List Op) : (traceStr acc ops).map Prod.fst = ops := by
  induction ops generalizing acc with
  | nil => rfl
  | cons o os ih => simp [traceStr, ih]

theorem traceStr_length (acc : ApplyAcc) (ops : List Op) : (traceStr acc ops).length = ops.length := by
  have := congrArg List.length (traceStr_map_fst acc ops)
  simpa using this

/-- meaning of the trace: entry `k` is op `k` with the content of its offset after ops `0..k` -/
theorem traceStr_getElem? (acc : ApplyAcc) (ops : List Op) (k : Nat) :
    (traceStr acc ops)[k]? =
      (ops[k]?).map (fun o => (o, (slot ((ops.take (k+1)).foldl stepStr acc).1 o.idx).2)) := by
  induction ops generalizing acc k with
  | nil => simp [traceStr]
  | cons o os ih =>
    cases k with
    | zero => simp [traceStr]
    | succ k => simp [traceStr, ih]

theorem stepStr_rewrite (acc : ApplyAcc) (o : Op)
    (hb : o.idx < acc.1.bits.size) (hd : o.idx < acc.1.data.size) :
    (stepStr acc o).2.1 = rwOp (o, (slot (stepStr acc o).1 o.idx).2) :: acc.2.1 ∧
    (stepStr acc o).2.2 = acc.2.2 ++ (appOp (o, (slot (stepStr acc o).1 o.idx).2)).toList := by
  rw [stepStr_slot acc o o.idx hb hd, if_pos rfl]
  obtain ⟨c, done, app⟩ := acc
  unfold stepStr rwOp appOp resizing slotEffect
  simp only
  by_cases h1 : o.typ = opPut
  · have h2 : o.typ ≠ opMerge := by rw [h1]; decide
    rw [if_pos h1, if_neg h2]
    simp [h2]
  · rw [if_neg h1, if_neg h1]
    by_cases h2 : o.typ = opMerge
    · rw [if_pos h2, if_pos h2, if_pos h2]
      simp only [padTo_zero, slot, getD_eq]
      by_cases h3 : (c.merge (c.data[o.idx]?.getD []) (valRaw o.val)).length = (valRaw o.val).length
      · rw [if_pos h3, if_pos h3]
        simp [h2, h3, swapInPlace]
      · rw [if_neg h3, if_neg h3]
        simp [h2, h3, markSkip]
    · rw [if_neg h2, if_neg h2, if_neg h2]
      by_cases h3 : o.typ = opDelete
      · rw [if_pos h3]; simp [h2]
      · rw [if_neg h3]; simp [h2]

/-- the whole pass: the section is rewritten op by op (`rwOp`), the resizing merges' results are
    appended in order (`appOp`) -/
theorem foldStr_rewrite (ops : List Op) (acc : ApplyAcc) (hin : InBounds acc.1 ops) :
    (ops.foldl stepStr acc).2.1 = ((traceStr acc ops).map rwOp).reverse ++ acc.2.1 ∧
    (ops.foldl stepStr acc).2.2 = acc.2.2 ++ (traceStr acc ops).filterMap appOp := by
  induction ops generalizing acc with
  | nil => simp [traceStr]
  | cons o os ih =>
    simp only [List.foldl_cons]
    have ho := hin o (by simp)
    have hin' : InBounds (stepStr acc o).1 os := InBounds.of_shape (stepStr_shape acc o) (InBounds.tail hin)
    obtain ⟨h1, h2⟩ := ih _ hin'
    obtain ⟨s1, s2⟩ := stepStr_rewrite acc o ho.1 ho.2
    rw [h1, h2, s1, s2]
    constructor
    · simp [traceStr]
    · simp only [traceStr, List.filterMap_cons]
      cases appOp (o, (slot (stepStr acc o).1 o.idx).2) <;> simp

theorem rwOp_idx (p : Op × Bytes) : (rwOp p).idx = p.1.idx := by
  unfold rwOp; split
  · split <;> rfl
  · rfl

theorem rwOp_typ_ne_merge (p : Op × Bytes) : (rwOp p).typ ≠ opMerge := by
  unfold rwOp; split
  · split
    · simp only; decide
    · simp only; decide
  · assumption

theorem rwOp_of_not_merge (p : Op × Bytes) (h : p.1.typ ≠ opMerge) : rwOp p = p.1 := by
  unfold rwOp; rw [if_neg h]

theorem appOp_eq_some {p : Op × Bytes} {o : Op} (h : appOp p = some o) :
    resizing p ∧ o = ⟨opPut, p.1.idx, .str p.2⟩ := by
  unfold appOp at h
  split at h
  · rename_i hr; exact ⟨hr, by injection h with h; exact h.symm⟩
  · cases h

theorem appOp_typ_ne_merge {p : Op × Bytes} {o : Op} (h : appOp p = some o) : o.typ ≠ opMerge := by
  rw [(appOp_eq_some h).2]; simp only; decide

/-- no `Merge` is left in the rewritten section nor in the appended puts -/
theorem rewritten_no_merge (tr : List (Op × Bytes)) :
    ∀ o ∈ tr.map rwOp ++ tr.filterMap appOp, o.typ ≠ opMerge := by
  intro o ho
  rw [List.mem_append] at ho
  rcases ho with ho | ho
  · obtain ⟨p, _, rfl⟩ := List.mem_map.1 ho
    exact rwOp_typ_ne_merge p
  · obtain ⟨p, _, hp⟩ := List.mem_filterMap.1 ho
    exact appOp_typ_ne_merge hp

/-- every offset addressed by the rewritten section / appended puts is addressed by the section -/
theorem rewritten_idx_mem (acc : ApplyAcc) (ops : List Op) :
    ∀ o ∈ (traceStr acc ops).map rwOp ++ (traceStr acc ops).filterMap appOp, ∃ o' ∈ ops, o'.idx = o.idx := by
  intro o ho
  have hfst : ∀ p ∈ traceStr acc ops, p.1 ∈ ops := by
    intro p hp
    have : p.1 ∈ (traceStr acc ops).map Prod.fst := List.mem_map.2 ⟨p, hp, rfl⟩
    rwa [traceStr_map_fst] at this
  rw [List.mem_append] at ho
  rcases ho with ho | ho
  · obtain ⟨p, hp, rfl⟩ := List.mem_map.1 ho
    exact ⟨p.1, hfst p hp, (rwOp_idx p).symm⟩
  · obtain ⟨p, hp, hq⟩ := List.mem_filterMap.1 ho
    refine ⟨p.1, hfst p hp, ?_⟩
    rw [(appOp_eq_some hq).2]

/-! ## T3 — replaying the rewritten section on another column -/

theorem slotEffect_put {m : Bytes → Bytes → Bytes} {w : Nat} {st : Bool × Bytes} {o : Op} (h : o.typ = opPut) :
    slotEffect m w st o = (true, valRaw o.val) := by
  unfold slotEffect; rw [if_pos h]

theorem slotEffect_merge {m : Bytes → Bytes → Bytes} {w : Nat} {st : Bool × Bytes} {o : Op} (h : o.typ = opMerge) :
    slotEffect m w st o = (true, m (padTo w st.2) (valRaw o.val)) := by
  have h1 : o.typ ≠ opPut := by rw [h]; decide
  unfold slotEffect; rw [if_neg h1, if_pos h]

theorem slotEffect_delete {m : Bytes → Bytes → Bytes} {w : Nat} {st : Bool × Bytes} {o : Op} (h : o.typ = opDelete) :
    slotEffect m w st o = (false, st.2) := by
  have h1 : o.typ ≠ opPut := by rw [h]; decide
  have h2 : o.typ ≠ opMerge := by rw [h]; decide
  unfold slotEffect; rw [if_neg h1, if_neg h2, if_pos h]

theorem slotEffect_other {m : Bytes → Bytes → Bytes} {w : Nat} {st : Bool × Bytes} {o : Op}
    (h1 : o.typ ≠ opPut) (h2 : o.typ ≠ opMerge) (h3 : o.typ ≠ opDelete) : slotEffect m w st o = st := by
  unfold slotEffect; rw [if_neg h1, if_neg h2, if_neg h3]

/-- without a `Merge`, the effect of an op does not depend on the merge function -/
theorem slotEffect_no_merge (m m' : Bytes → Bytes → Bytes) (w w' : Nat) (st : Bool × Bytes) (o : Op)
    (h : o.typ ≠ opMerge) : slotEffect m w st o = slotEffect m' w' st o := by
  unfold slotEffect; rw [if_neg h, if_neg h]

/-- per-offset trace: the ops addressed to one offset with the value they leave in it -/
def slotTrace (m : Bytes → Bytes → Bytes) (st : Bool × Bytes) : List Op → List (Op × Bytes)
  | [] => []
  | o :: os => (o, (slotEffect m 0 st o).2) :: slotTrace m (slotEffect m 0 st o) os

theorem traceStr_filter (ops : List Op) (acc : ApplyAcc) (i : Nat) (hin : InBounds acc.1 ops) :
    (traceStr acc ops).filter (fun p => p.1.idx = i) =
      slotTrace acc.1.merge (slot acc.1 i) (ops.filter (fun o => o.idx = i)) := by
  induction ops generalizing acc with
  | nil => simp [traceStr, slotTrace]
  | cons o os ih =>
    have ho := hin o (by simp)
    have hs := stepStr_shape acc o
    have hin' : InBounds (stepStr acc o).1 os := InBounds.of_shape hs (InBounds.tail hin)
    have ih' := ih _ hin'
    rw [hs.merge, stepStr_slot acc o i ho.1 ho.2] at ih'
    by_cases e : o.idx = i
    · rw [if_pos e.symm] at ih'
      simp only [traceStr, List.filter_cons, e, decide_true, if_true, slotTrace]
      rw [ih', stepStr_slot acc o i ho.1 ho.2, if_pos e.symm]
    · have e' : ¬ i = o.idx := fun h => e h.symm
      rw [if_neg e'] at ih'
      simp only [traceStr, List.filter_cons, e, decide_false]
      exact ih'

theorem slotTrace_fold_fst (m : Bytes → Bytes → Bytes) (st : Bool × Bytes) (os : List Op) :
    (slotTrace m st os).map Prod.fst = os := by
  induction os generalizing st with
  | nil => rfl
  | cons o os ih => simp [slotTrace, ih]

/-- replay of the rewritten ops of one offset (then the appended puts of that offset) over any
    start state `t0` and any merge function `m2`: same final slot as the primary, provided a
    resizing merge is the last op of the offset and some Put/Merge resynchronises the raw value -/
theorem replay_slot (m m2 : Bytes → Bytes → Bytes) (os : List Op) (s0 t0 : Bool × Bytes)
    (hg : (slotTrace m s0 os).Pairwise (fun p _ => ¬ resizing p))
    (hs : (∃ o ∈ os, o.typ = opPut ∨ o.typ = opMerge) ∨ t0 = s0) :
    (((slotTrace m s0 os).map rwOp) ++ (slotTrace m s0 os).filterMap appOp).foldl (slotEffect m2 0) t0 =
      os.foldl (slotEffect m 0) s0 := by
  induction os generalizing s0 t0 with
  | nil =>
    rcases hs with ⟨o, ho, _⟩ | hs
    · cases ho
    · simpa [slotTrace] using hs
  | cons o os ih =>
    simp only [slotTrace, List.pairwise_cons] at hg
    obtain ⟨hg1, hg2⟩ := hg
    simp only [slotTrace, List.map_cons, List.filterMap_cons, List.foldl_cons, List.cons_append]
    by_cases hr : resizing (o, (slotEffect m 0 s0 o).2)
    · -- a resizing merge: it is the last op of this offset
      have hnil : os = [] := by
        cases os with
        | nil => rfl
        | cons o' os' => exact absurd hr (hg1 _ (List.mem_cons_self (l := slotTrace m _ os')))
      subst hnil
      have hm : o.typ = opMerge := hr.1
      have hrw : rwOp (o, (slotEffect m 0 s0 o).2) = ⟨opSkip, o.idx, o.val⟩ := by
        unfold rwOp; rw [if_pos hm, if_neg hr.2]
      have hap : appOp (o, (slotEffect m 0 s0 o).2) = some ⟨opPut, o.idx, .str (slotEffect m 0 s0 o).2⟩ := by
        unfold appOp; rw [if_pos hr]
      rw [hrw, hap]
      simp only [slotTrace, List.map_nil, List.filterMap_nil, List.nil_append, List.foldl_cons, List.foldl_nil]
      rw [slotEffect_other (o := ⟨opSkip, o.idx, o.val⟩) (by simp only; decide) (by simp only; decide)
        (by simp only; decide), slotEffect_put (o := ⟨opPut, o.idx, _⟩) rfl, slotEffect_merge hm]
      rfl
    · have hap : appOp (o, (slotEffect m 0 s0 o).2) = none := by
        unfold appOp; rw [if_neg hr]
      rw [hap]
      simp only
      apply ih _ _ hg2
      by_cases h1 : o.typ = opPut
      · right
        rw [rwOp_of_not_merge _ (by simp only; rw [h1]; decide), slotEffect_put h1, slotEffect_put h1]
      · by_cases h2 : o.typ = opMerge
        · right
          have hl : (slotEffect m 0 s0 o).2.length = (valRaw o.val).length := by
            by_cases hl : (slotEffect m 0 s0 o).2.length = (valRaw o.val).length
            · exact hl
            · exact absurd ⟨h2, hl⟩ hr
          have hrw : rwOp (o, (slotEffect m 0 s0 o).2) = ⟨opPut, o.idx, .str (slotEffect m 0 s0 o).2⟩ := by
            unfold rwOp; rw [if_pos h2, if_pos hl]
          rw [hrw, slotEffect_put (o := ⟨opPut, o.idx, _⟩) rfl, slotEffect_merge h2]
          rfl
        · rw [rwOp_of_not_merge _ h2]
          have hs' : (∃ o ∈ os, o.typ = opPut ∨ o.typ = opMerge) ∨ t0 = s0 := by
            rcases hs with ⟨x, hx, hx'⟩ | hs
            · rcases List.mem_cons.1 hx with rfl | hx
              · rcases hx' with hx' | hx'
                · exact absurd hx' h1
                · exact absurd hx' h2
              · exact Or.inl ⟨x, hx, hx'⟩
            · exact Or.inr hs
          rcases hs' with hs' | hs'
          · exact Or.inl hs'
          · right
            subst hs'
            exact slotEffect_no_merge m2 m 0 0 t0 o h2

theorem filter_map_rwOp (tr : List (Op × Bytes)) (i : Nat) :
    (tr.map rwOp).filter (fun o => o.idx = i) = (tr.filter (fun p => p.1.idx = i)).map rwOp := by
  induction tr with
  | nil => rfl
  | cons p ps ih =>
    simp only [List.map_cons, List.filter_cons, rwOp_idx]
    by_cases e : p.1.idx = i
    · simp [e, ih]
    · simp [e, ih]

theorem filter_filterMap_appOp (tr : List (Op × Bytes)) (i : Nat) :
    (tr.filterMap appOp).filter (fun o => o.idx = i) = (tr.filter (fun p => p.1.idx = i)).filterMap appOp := by
  induction tr with
  | nil => rfl
  | cons p ps ih =>
    simp only [List.filterMap_cons, List.filter_cons]
    cases hq : appOp p with
    | none =>
      simp only
      by_cases e : p.1.idx = i
      · simp [e, ih, hq]
      · simp [e, ih]
    | some q =>
      have hidx : q.idx = p.1.idx := by rw [(appOp_eq_some hq).2]
      simp only [List.filter_cons, hidx]
      by_cases e : p.1.idx = i
      · simp [e, ih, hq]
      · simp [e, ih]

/-- guard (finding D12): in the trace of the section, no op on offset `i` follows a resizing merge on `i` -/
def NoOpAfterResize (i : Nat) (tr : List (Op × Bytes)) : Prop :=
  tr.Pairwise (fun p q => p.1.idx = i → resizing p → q.1.idx ≠ i)

instance (i : Nat) (tr : List (Op × Bytes)) : Decidable (NoOpAfterResize i tr) := by
  unfold NoOpAfterResize; exact inferInstance

theorem NoOpAfterResize.filter {i : Nat} {tr : List (Op × Bytes)} (h : NoOpAfterResize i tr) :
    (tr.filter (fun p => p.1.idx = i)).Pairwise (fun p _ => ¬ resizing p) := by
  have h1 := List.Pairwise.filter (fun p => decide (p.1.idx = i)) h
  refine List.Pairwise.imp_of_mem ?_ h1
  intro a b ha hb hab hr
  have ea : a.1.idx = i := by simpa using (List.mem_filter.1 ha).2
  have eb : b.1.idx = i := by simpa using (List.mem_filter.1 hb).2
  exact hab ea hr eb

/-- the rewritten section followed by the appended puts, replayed with `stepStr` on any other
    in-bounds column: same final slot at `i` as the primary, under the D12 guard -/
theorem foldStr_replay (c c2 : Col) (ops : List Op) (i : Nat)
    (hin : InBounds c ops) (hin2 : InBounds c2 ops)
    (hg : NoOpAfterResize i (traceStr (c, [], []) ops))
    (hs : (∃ o ∈ ops, o.idx = i ∧ (o.typ = opPut ∨ o.typ = opMerge)) ∨ slot c2 i = slot c i) :
    slot (((ops.foldl stepStr (c, [], [])).2.1.reverse ++ (ops.foldl stepStr (c, [], [])).2.2).foldl
      stepStr (c2, [], [])).1 i = slot (ops.foldl stepStr (c, [], [])).1 i := by
  obtain ⟨h1, h2⟩ := foldStr_rewrite ops (c, [], []) hin
  rw [h1, h2]
  simp only [List.append_nil, List.reverse_reverse, List.nil_append]
  have hinR : InBounds c2 ((traceStr (c, [], []) ops).map rwOp ++ (traceStr (c, [], []) ops).filterMap appOp) := by
    intro o ho
    obtain ⟨o', ho', e⟩ := rewritten_idx_mem (c, [], []) ops o ho
    rw [← e]; exact hin2 o' ho'
  rw [foldStr_slot _ (c2, [], []) i hinR, foldStr_slot ops (c, [], []) i hin]
  simp only [List.filter_append, filter_map_rwOp, filter_filterMap_appOp]
  rw [traceStr_filter ops (c, [], []) i hin]
  apply replay_slot
  · rw [← traceStr_filter ops (c, [], []) i hin]
    exact hg.filter
  · rcases hs with ⟨o, ho, e, ht⟩ | hs
    · exact Or.inl ⟨o, List.mem_filter.2 ⟨ho, by simpa using e⟩, ht⟩
    · exact Or.inr hs

/-- what a reader can see of a slot: presence, and the value when present -/
def VisEq (t s : Bool × Bytes) : Prop := t.1 = s.1 ∧ (t.1 = true → t.2 = s.2)

theorem VisEq.of_eq {t s : Bool × Bytes} (h : t = s) : VisEq t s := by subst h; exact ⟨rfl, fun _ => rfl⟩

/-- same replay, weaker start (any Put/Merge/Delete on the offset, or slots that look the same):
    the final slots look the same to a reader (the stale bytes of an absent row may differ) -/
theorem replay_slot_vis (m m2 : Bytes → Bytes → Bytes) (os : List Op) (s0 t0 : Bool × Bytes)
    (hg : (slotTrace m s0 os).Pairwise (fun p _ => ¬ resizing p))
    (hs : (∃ o ∈ os, o.typ = opPut ∨ o.typ = opMerge ∨ o.typ = opDelete) ∨ VisEq t0 s0) :
    VisEq ((((slotTrace m s0 os).map rwOp) ++ (slotTrace m s0 os).filterMap appOp).foldl (slotEffect m2 0) t0)
      (os.foldl (slotEffect m 0) s0) := by
  induction os generalizing s0 t0 with
  | nil =>
    rcases hs with ⟨o, ho, _⟩ | hs
    · cases ho
    · simpa [slotTrace] using hs
  | cons o os ih =>
    by_cases hr : resizing (o, (slotEffect m 0 s0 o).2)
    · exact VisEq.of_eq (replay_slot m m2 (o :: os) s0 t0 hg (Or.inl ⟨o, by simp, Or.inr hr.1⟩))
    · simp only [slotTrace, List.pairwise_cons] at hg
      obtain ⟨_, hg2⟩ := hg
      simp only [slotTrace, List.map_cons, List.filterMap_cons, List.foldl_cons, List.cons_append]
      have hap : appOp (o, (slotEffect m 0 s0 o).2) = none := by
        unfold appOp; rw [if_neg hr]
      rw [hap]
      simp only
      apply ih _ _ hg2
      by_cases h1 : o.typ = opPut
      · right
        rw [rwOp_of_not_merge _ (by simp only; rw [h1]; decide), slotEffect_put h1, slotEffect_put h1]
        exact VisEq.of_eq rfl
      · by_cases h2 : o.typ = opMerge
        · right
          have hl : (slotEffect m 0 s0 o).2.length = (valRaw o.val).length := by
            by_cases hl : (slotEffect m 0 s0 o).2.length = (valRaw o.val).length
            · exact hl
            · exact absurd ⟨h2, hl⟩ hr
          have hrw : rwOp (o, (slotEffect m 0 s0 o).2) = ⟨opPut, o.idx, .str (slotEffect m 0 s0 o).2⟩ := by
            unfold rwOp; rw [if_pos h2, if_pos hl]
          rw [hrw, slotEffect_put (o := ⟨opPut, o.idx, _⟩) rfl, slotEffect_merge h2]
          exact VisEq.of_eq rfl
        · rw [rwOp_of_not_merge _ h2]
          by_cases h3 : o.typ = opDelete
          · right
            rw [slotEffect_delete h3, slotEffect_delete h3]
            exact ⟨rfl, fun h => by cases h⟩
          · rw [slotEffect_other h1 h2 h3, slotEffect_other h1 h2 h3]
            rcases hs with ⟨x, hx, hx'⟩ | hs
            · rcases List.mem_cons.1 hx with rfl | hx
              · rcases hx' with hx' | hx' | hx'
                · exact absurd hx' h1
                · exact absurd hx' h2
                · exact absurd hx' h3
              · exact Or.inl ⟨x, hx, hx'⟩
            · exact Or.inr hs

theorem foldStr_replay_vis (c c2 : Col) (ops : List Op) (i : Nat)
    (hin : InBounds c ops) (hin2 : InBounds c2 ops)
    (hg : NoOpAfterResize i (traceStr (c, [], []) ops))
    (hs : (∃ o ∈ ops, o.idx = i ∧ (o.typ = opPut ∨ o.typ = opMerge ∨ o.typ = opDelete)) ∨
          VisEq (slot c2 i) (slot c i)) :
    VisEq (slot (((ops.foldl stepStr (c, [], [])).2.1.reverse ++ (ops.foldl stepStr (c, [], [])).2.2).foldl
      stepStr (c2, [], [])).1 i) (slot (ops.foldl stepStr (c, [], [])).1 i) := by
  obtain ⟨h1, h2⟩ := foldStr_rewrite ops (c, [], []) hin
  rw [h1, h2]
  simp only [List.append_nil, List.reverse_reverse, List.nil_append]
  have hinR : InBounds c2 ((traceStr (c, [], []) ops).map rwOp ++ (traceStr (c, [], []) ops).filterMap appOp) := by
    intro o ho
    obtain ⟨o', ho', e⟩ := rewritten_idx_mem (c, [], []) ops o ho
    rw [← e]; exact hin2 o' ho'
  rw [foldStr_slot _ (c2, [], []) i hinR, foldStr_slot ops (c, [], []) i hin]
  simp only [List.filter_append, filter_map_rwOp, filter_filterMap_appOp]
  rw [traceStr_filter ops (c, [], []) i hin]
  apply replay_slot_vis
  · rw [← traceStr_filter ops (c, [], []) i hin]
    exact hg.filter
  · rcases hs with ⟨o, ho, e, ht⟩ | hs
    · exact Or.inl ⟨o, List.mem_filter.2 ⟨ho, by simpa using e⟩, ht⟩
    · exact Or.inr hs

/-! ## T4 — enum column -/

theorem natToBE_length (n v : Nat) : (natToBE n v).length = n := by
  induction n with
  | zero => rfl
  | succ n ih => simp [natToBE, ih]

theorem beNat_natToBE (n v : Nat) : beNat (natToBE n v) = v % 256 ^ n := by
  induction n with
  | zero => simp [natToBE, beNat, Nat.mod_one]
  | succ n ih =>
    simp only [natToBE, beNat, natToBE_length, ih, UInt8.toNat_ofNat']
    rw [Nat.mod_pow_succ (b := 256)]
    have : v / 256 ^ n % 256 % 2 ^ 8 = v / 256 ^ n % 256 := Nat.mod_eq_of_lt (by omega)
    rw [this, Nat.mul_comm]; omega

theorem beNat_natToBE4 (h : Nat) (hh : h < 4294967296) : beNat (natToBE 4 h) = h := by
  rw [beNat_natToBE]; exact Nat.mod_eq_of_lt (by simpa using hh)

/-- the column after one `stepEnum` -/
theorem stepEnum_col (hash : Bytes → Nat) (acc : ApplyAcc) (o : Op) :
    (stepEnum hash acc o).1 =
      if o.typ = opPut then
        { acc.1 with bits := acc.1.bits.setIfInBounds o.idx true,
                     data := acc.1.data.setIfInBounds o.idx (natToBE 4 (hash (valRaw o.val))),
                     intern := if acc.1.intern.contains (hash (valRaw o.val)) then acc.1.intern
                               else acc.1.intern.insert (hash (valRaw o.val)) (valRaw o.val) }
      else if o.typ = opDelete then { acc.1 with bits := acc.1.bits.setIfInBounds o.idx false }
      else acc.1 := by
  obtain ⟨c, done, app⟩ := acc
  unfold stepEnum
  simp only
  by_cases h1 : o.typ = opPut
  · rw [if_pos h1, if_pos h1]
  · rw [if_neg h1, if_neg h1]
    by_cases h3 : o.typ = opDelete
    · rw [if_pos h3, if_pos h3]
    · rw [if_neg h3, if_neg h3]

theorem stepEnum_shape (hash : Bytes → Nat) (acc : ApplyAcc) (o : Op) :
    SameShape acc.1 (stepEnum hash acc o).1 := by
  rw [stepEnum_col]
  split
  · exact ⟨rfl, rfl, rfl, by simp, by simp, rfl, rfl⟩
  · split
    · exact ⟨rfl, rfl, rfl, by simp, rfl, rfl, rfl⟩
    · exact SameShape.refl _

/-- effect of one op on the raw slot of its own offset in an enum column (a `Merge` does nothing) -/
def enumEffect (hash : Bytes → Nat) (st : Bool × Bytes) (o : Op) : Bool × Bytes :=
  if o.typ = opPut then (true, natToBE 4 (hash (valRaw o.val)))
  else if o.typ = opDelete then (false, st.2)
  else st

theorem stepEnum_slot (hash : Bytes → Nat) (acc : ApplyAcc) (o : Op) (i : Nat)
    (hb : o.idx < acc.1.bits.size) (hd : o.idx < acc.1.data.size) :
    slot (stepEnum hash acc o).1 i =
      if i = o.idx then enumEffect hash (slot acc.1 i) o else slot acc.1 i := by
  rw [stepEnum_col]
  obtain ⟨c, done, app⟩ := acc
  simp only at hb hd
  unfold enumEffect slot
  simp only
  by_cases h1 : o.typ = opPut
  · rw [if_pos h1, if_pos h1]
    simp only [get_setIfInBounds _ _ _ _ hb, data_setIfInBounds _ _ _ _ hd]
    split <;> simp
  · rw [if_neg h1, if_neg h1]
    by_cases h3 : o.typ = opDelete
    · rw [if_pos h3, if_pos h3]
      simp only [get_setIfInBounds _ _ _ _ hb]
      split <;> simp
    · rw [if_neg h3, if_neg h3]
      split <;> simp

theorem foldEnum_shape (hash : Bytes → Nat) (ops : List Op) (acc : ApplyAcc) :
    SameShape acc.1 (ops.foldl (stepEnum hash) acc).1 := by
  induction ops generalizing acc with
  | nil => exact SameShape.refl _
  | cons o os ih =>
    simp only [List.foldl_cons]
    exact SameShape.trans (stepEnum_shape hash acc o) (ih _)

/-- enum column: raw slot (presence bit, 4-byte hash) of every offset after the pass -/
theorem foldEnum_slot (hash : Bytes → Nat) (ops : List Op) (acc : ApplyAcc) (i : Nat) (hin : InBounds acc.1 ops) :
    slot (ops.foldl (stepEnum hash) acc).1 i =
      (ops.filter (fun o => o.idx = i)).foldl (enumEffect hash) (slot acc.1 i) := by
  induction ops generalizing acc with
  | nil => simp
  | cons o os ih =>
    simp only [List.foldl_cons]
    have ho := hin o (by simp)
    have hs := stepEnum_shape hash acc o
    have hin' : InBounds (stepEnum hash acc o).1 os := InBounds.of_shape hs (InBounds.tail hin)
    rw [ih _ hin', stepEnum_slot hash acc o i ho.1 ho.2]
    by_cases e : o.idx = i
    · simp [e]
    · have : ¬ i = o.idx := fun h => e h.symm
      simp [e, this]

/-- invariant of the interning table: every string is filed under its own hash (and is one of the
    strings `P` that occur) -/
def InternInv (hash : Bytes → Nat) (P : Bytes → Prop) (m : Std.HashMap Nat Bytes) : Prop :=
  ∀ h w, m[h]? = some w → hash w = h ∧ P w

theorem stepEnum_intern_mono (hash : Bytes → Nat) (acc : ApplyAcc) (o : Op) (h : Nat) (w : Bytes)
    (hw : acc.1.intern[h]? = some w) : (stepEnum hash acc o).1.intern[h]? = some w := by
  rw [stepEnum_col]
  split
  · simp only
    split
    · exact hw
    · rename_i hc
      rw [Std.HashMap.getElem?_insert]
      split
      · rename_i e
        have e' : hash (valRaw o.val) = h := by simpa using e
        rw [e', Std.HashMap.contains_eq_isSome_getElem?, hw] at hc
        simp at hc
      · exact hw
  · split
    · exact hw
    · exact hw

theorem stepEnum_intern_inv (hash : Bytes → Nat) (P : Bytes → Prop) (acc : ApplyAcc) (o : Op)
    (hinv : InternInv hash P acc.1.intern) (hP : o.typ = opPut → P (valRaw o.val)) :
    InternInv hash P (stepEnum hash acc o).1.intern := by
  rw [stepEnum_col]
  split
  · rename_i h1
    simp only
    split
    · exact hinv
    · intro h w hw
      rw [Std.HashMap.getElem?_insert] at hw
      split at hw
      · rename_i e
        have e' : hash (valRaw o.val) = h := by simpa using e
        injection hw with hw
        subst hw
        exact ⟨e', hP h1⟩
      · exact hinv h w hw
  · split
    · exact hinv
    · exact hinv

/-- with `hash` injective on the strings that occur, a `Put` leaves its own string under its hash -/
theorem stepEnum_intern_put (hash : Bytes → Nat) (P : Bytes → Prop) (acc : ApplyAcc) (o : Op)
    (hinv : InternInv hash P acc.1.intern) (hP : P (valRaw o.val))
    (hinj : ∀ a b, P a → P b → hash a = hash b → a = b) (h1 : o.typ = opPut) :
    (stepEnum hash acc o).1.intern[hash (valRaw o.val)]? = some (valRaw o.val) := by
  rw [stepEnum_col, if_pos h1]
  simp only
  split
  · rename_i hc
    rw [Std.HashMap.contains_eq_isSome_getElem?] at hc
    cases hw : acc.1.intern[hash (valRaw o.val)]? with
    | none => rw [hw] at hc; simp at hc
    | some w =>
      obtain ⟨e, pw⟩ := hinv _ _ hw
      rw [hinj w (valRaw o.val) pw hP e]
  · rw [Std.HashMap.getElem?_insert]; simp

theorem foldEnum_intern (hash : Bytes → Nat) (P : Bytes → Prop) (ops : List Op) (acc : ApplyAcc)
    (hinv : InternInv hash P acc.1.intern) (hP : ∀ o ∈ ops, o.typ = opPut → P (valRaw o.val))
    (hinj : ∀ a b, P a → P b → hash a = hash b → a = b) :
    InternInv hash P (ops.foldl (stepEnum hash) acc).1.intern ∧
    (∀ (h : Nat) (w : Bytes), acc.1.intern[h]? = some w → (ops.foldl (stepEnum hash) acc).1.intern[h]? = some w) ∧
    (∀ o ∈ ops, o.typ = opPut →
      (ops.foldl (stepEnum hash) acc).1.intern[hash (valRaw o.val)]? = some (valRaw o.val)) := by
  induction ops generalizing acc with
  | nil => exact ⟨hinv, fun _ _ hw => hw, fun o ho => by cases ho⟩
  | cons o os ih =>
    simp only [List.foldl_cons]
    have hinv' := stepEnum_intern_inv hash P acc o hinv (hP o (by simp))
    obtain ⟨i1, i2, i3⟩ := ih (stepEnum hash acc o) hinv' (fun x hx => hP x (by simp [hx]))
    refine ⟨i1, fun h w hw => i2 h w (stepEnum_intern_mono hash acc o h w hw), ?_⟩
    intro x hx hxp
    rcases List.mem_cons.1 hx with rfl | hx
    · exact i2 _ _ (stepEnum_intern_put hash P acc x hinv (hP x (by simp) hxp) hinj hxp)
    · exact i3 x hx hxp

theorem foldl_enumEffect_id (hash : Bytes → Nat) (l : List Op) (st : Bool × Bytes)
    (h : ∀ o ∈ l, o.typ ≠ opPut ∧ o.typ ≠ opDelete) : l.foldl (enumEffect hash) st = st := by
  induction l generalizing st with
  | nil => rfl
  | cons o os ih =>
    have ho := h o (by simp)
    simp only [List.foldl_cons]
    have : enumEffect hash st o = st := by unfold enumEffect; rw [if_neg ho.1, if_neg ho.2]
    rw [this]
    exact ih st (fun x hx => h x (by simp [hx]))

/-- `Col.read` of an enum column in terms of its raw slot and interning table -/
theorem read_enum (c : Col) (i : Nat) (hk : c.kind = .enum) (hchunk : i / 16384 < c.nchunks) :
    c.read i = if (slot c i).1 then some ((c.intern[beNat (slot c i).2]?).getD []) else none := by
  unfold Col.read slot
  rw [hk]
  simp only [getD_eq, Std.HashMap.get?_eq_getElem?, hchunk, true_and]

/-- enum column, `hash` injective on the strings that occur: a reader gets back the last `Put` of the offset -/
theorem foldEnum_read_last_put (hash : Bytes → Nat) (P : Bytes → Prop) (c : Col) (pre post : List Op) (p : Op)
    (i : Nat) (hk : c.kind = .enum) (hchunk : i / 16384 < c.nchunks)
    (hin : InBounds c (pre ++ p :: post))
    (hinv : InternInv hash P c.intern)
    (hP : ∀ o ∈ pre ++ p :: post, o.typ = opPut → P (valRaw o.val))
    (hinj : ∀ a b, P a → P b → hash a = hash b → a = b)
    (h32 : hash (valRaw p.val) < 4294967296)
    (hp : p.typ = opPut) (hpi : p.idx = i)
    (hpost : ∀ o ∈ post, o.idx = i → o.typ ≠ opPut ∧ o.typ ≠ opDelete) :
    ((pre ++ p :: post).foldl (stepEnum hash) (c, [], [])).1.read i = some (valRaw p.val) := by
  have hs := foldEnum_shape hash (pre ++ p :: post) (c, [], [])
  have hslot := foldEnum_slot hash (pre ++ p :: post) (c, [], []) i hin
  obtain ⟨_, _, h3⟩ := foldEnum_intern hash P (pre ++ p :: post) (c, [], []) hinv hP hinj
  have hput := h3 p (by simp) hp
  have hfilter : (pre ++ p :: post).filter (fun o => o.idx = i) =
      pre.filter (fun o => o.idx = i) ++ p :: post.filter (fun o => o.idx = i) := by
    simp [List.filter_append, hpi]
  have he : ∀ st, enumEffect hash st p = (true, natToBE 4 (hash (valRaw p.val))) := by
    intro st; unfold enumEffect; rw [if_pos hp]
  have hrhs : ((pre ++ p :: post).filter (fun o => o.idx = i)).foldl (enumEffect hash) (slot c i) =
      (true, natToBE 4 (hash (valRaw p.val))) := by
    rw [hfilter, List.foldl_append, List.foldl_cons, he]
    apply foldl_enumEffect_id
    intro o ho
    have := List.mem_filter.1 ho
    exact hpost o this.1 (by simpa using this.2)
  rw [hrhs] at hslot
  rw [read_enum _ i (hs.kind.trans hk) (by rw [hs.nchunks]; exact hchunk), hslot]
  simp only [if_true, beNat_natToBE4 _ h32, hput, Option.getD_some]

theorem foldEnum_intern_mono (hash : Bytes → Nat) (ops : List Op) (acc : ApplyAcc) (h : Nat) (w : Bytes)
    (hw : acc.1.intern[h]? = some w) : (ops.foldl (stepEnum hash) acc).1.intern[h]? = some w := by
  induction ops generalizing acc with
  | nil => exact hw
  | cons o os ih =>
    simp only [List.foldl_cons]
    exact ih _ (stepEnum_intern_mono hash acc o h w hw)

/-- enum column: when the last Put/Delete of an offset is a Delete, the reader finds nothing -/
theorem foldEnum_read_last_delete (hash : Bytes → Nat) (c : Col) (pre post : List Op) (p : Op)
    (i : Nat) (hk : c.kind = .enum) (hchunk : i / 16384 < c.nchunks)
    (hin : InBounds c (pre ++ p :: post))
    (hp : p.typ = opDelete) (hpi : p.idx = i)
    (hpost : ∀ o ∈ post, o.idx = i → o.typ ≠ opPut ∧ o.typ ≠ opDelete) :
    ((pre ++ p :: post).foldl (stepEnum hash) (c, [], [])).1.read i = none := by
  have hs := foldEnum_shape hash (pre ++ p :: post) (c, [], [])
  have hslot := foldEnum_slot hash (pre ++ p :: post) (c, [], []) i hin
  have hfilter : (pre ++ p :: post).filter (fun o => o.idx = i) =
      pre.filter (fun o => o.idx = i) ++ p :: post.filter (fun o => o.idx = i) := by
    simp [List.filter_append, hpi]
  have he : ∀ st, (enumEffect hash st p).1 = false := by
    intro st; unfold enumEffect
    rw [if_neg (by rw [hp]; decide), if_pos hp]
  have hrhs : (((pre ++ p :: post).filter (fun o => o.idx = i)).foldl (enumEffect hash) (slot c i)).1 = false := by
    rw [hfilter, List.foldl_append, List.foldl_cons, foldl_enumEffect_id]
    · exact he _
    · intro o ho
      have := List.mem_filter.1 ho
      exact hpost o this.1 (by simpa using this.2)
  rw [read_enum _ i (hs.kind.trans hk) (by rw [hs.nchunks]; exact hchunk), hslot, hrhs]
  rfl

/-- enum column: an offset no op addresses reads the same, provided its hash is interned
    (a dangling hash could be claimed by a later string) -/
theorem foldEnum_read_untouched (hash : Bytes → Nat) (c : Col) (ops : List Op) (i : Nat)
    (hk : c.kind = .enum) (hchunk : i / 16384 < c.nchunks) (hin : InBounds c ops)
    (hno : ∀ o ∈ ops, o.idx ≠ i) (hint : (slot c i).1 = true → (c.intern[beNat (slot c i).2]?).isSome) :
    (ops.foldl (stepEnum hash) (c, [], [])).1.read i = c.read i := by
  have hs := foldEnum_shape hash ops (c, [], [])
  have hslot := foldEnum_slot hash ops (c, [], []) i hin
  have hf : ops.filter (fun o => o.idx = i) = [] := by
    rw [List.filter_eq_nil_iff]; intro o ho; simpa using hno o ho
  rw [hf] at hslot
  simp only [List.foldl_nil] at hslot
  rw [read_enum _ i (hs.kind.trans hk) (by rw [hs.nchunks]; exact hchunk), read_enum c i hk hchunk, hslot]
  cases hb : (slot c i).1 with
  | false => rfl
  | true =>
    simp only [if_true]
    have := hint hb
    cases hw : c.intern[beNat (slot c i).2]? with
    | none => rw [hw] at this; cases this
    | some w => rw [foldEnum_intern_mono hash ops (c, [], []) _ w hw]

/-! ## `applyData` on string / record / enum columns is the fold of the step -/

theorem applyData_str (hash : Bytes → Nat) (c : Col) (chunk : Nat) (ops : List Op)
    (hk : c.kind = .str ∨ c.kind = .record) (hc : chunk < c.nchunks) :
    applyData hash c chunk ops =
      { col := (ops.foldl stepStr (c, [], [])).1, ops := (ops.foldl stepStr (c, [], [])).2.1.reverse,
        appended := (ops.foldl stepStr (c, [], [])).2.2 } := by
  unfold applyData
  rw [if_neg (by omega)]
  rcases hk with hk | hk <;> simp only [hk, stepOf]

theorem applyData_enum (hash : Bytes → Nat) (c : Col) (chunk : Nat) (ops : List Op)
    (hk : c.kind = .enum) (hc : chunk < c.nchunks) :
    applyData hash c chunk ops =
      { col := (ops.foldl (stepEnum hash) (c, [], [])).1,
        ops := (ops.foldl (stepEnum hash) (c, [], [])).2.1.reverse,
        appended := (ops.foldl (stepEnum hash) (c, [], [])).2.2 } := by
  unfold applyData
  rw [if_neg (by omega)]
  simp only [hk, stepOf]

/-- `Col.read` of a string / record column in terms of its slot -/
theorem read_str (c : Col) (i : Nat) (hk : c.kind = .str ∨ c.kind = .record) (hchunk : i / 16384 < c.nchunks) :
    c.read i = if (slot c i).1 then some (slot c i).2 else none := by
  unfold Col.read slot
  rcases hk with hk | hk <;> rw [hk] <;> simp only [getD_eq, hchunk, true_and]

theorem VisEq.read_eq {c c2 : Col} {i : Nat} (h : VisEq (slot c2 i) (slot c i))
    (hk : c.kind = .str ∨ c.kind = .record) (hk2 : c2.kind = .str ∨ c2.kind = .record)
    (hc : i / 16384 < c.nchunks) (hc2 : i / 16384 < c2.nchunks) : c2.read i = c.read i := by
  rw [read_str c i hk hc, read_str c2 i hk2 hc2]
  obtain ⟨h1, h2⟩ := h
  rw [← h1]
  cases hb : (slot c2 i).1 with
  | false => rfl
  | true => simp [h2 hb]

end ColumnVerif.Store
