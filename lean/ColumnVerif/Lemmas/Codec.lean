import ColumnVerif.Model.Codec
/-! Helper lemmas for the op codec (round trip of one op and of runs). -/
namespace ColumnVerif.Codec

theorem readOffset_writeOffset (fuel d : Nat) (rest : Bytes) (h : d < 128 ^ (fuel+1)) :
    readOffset fuel (writeOffset fuel d ++ rest) = some (d, rest) := by
  induction fuel generalizing d with
  | zero =>
    simp [writeOffset, readOffset] at *
    omega
  | succ n ih =>
    unfold writeOffset
    split
    · rename_i hd
      simp only [List.cons_append, readOffset]
      have h1 : (UInt8.ofNat (d % 128 + 128)).toNat = d % 128 + 128 := by
        simp [UInt8.toNat_ofNat']; omega
      rw [h1]
      have : ¬ (d % 128 + 128 < 0x80) := by omega
      simp only [this, ite_false]
      have hd2 : d / 128 < 128 ^ (n+1) := by
        rw [Nat.pow_succ] at h; omega
      rw [ih (d/128) hd2]
      simp; omega
    · rename_i hd
      simp only [List.cons_append, List.nil_append, readOffset]
      have h1 : (UInt8.ofNat d).toNat = d := by
        simp [UInt8.toNat_ofNat']; omega
      simp [h1]; omega

theorem parse_header_fixed (t c : Nat) (n : Bool) (ht : t < 16) (hc : c < 4) :
    parseHeader (header t c false n) = (t, c, false, n) := by
  unfold parseHeader header
  cases n <;> simp [UInt8.toNat_ofNat'] <;> omega

theorem parse_header_str (t : Nat) (n : Bool) (ht : t < 16) :
    parseHeader (header t 1 true n) = (t, 1, true, n) := by
  unfold parseHeader header
  cases n <;> simp [UInt8.toNat_ofNat'] <;> omega

theorem parseVal_fixed (c : Nat) (bs rest : Bytes) (hlen : bs.length = sizeOfCode c) :
    parseVal false c (valBytes (.fixed c bs) ++ rest) = some (.fixed c bs, rest) := by
  simp [parseVal, valBytes, ← hlen]

theorem parseVal_str (bs rest : Bytes) (hlen : bs.length < 65536) :
    parseVal true 1 (valBytes (.str bs) ++ rest) = some (.str bs, rest) := by
  have h1 : (UInt8.ofNat (bs.length / 256)).toNat = bs.length / 256 := by
    simp [UInt8.toNat_ofNat']; omega
  have h2 : (UInt8.ofNat (bs.length % 256)).toNat = bs.length % 256 := by
    simp [UInt8.toNat_ofNat']
  have h3 : bs.length / 256 * 256 + bs.length % 256 = bs.length := by omega
  simp [parseVal, valBytes, h1, h2, h3]

theorem delta_lt (last idx : Nat) : delta last idx < M32 := by
  unfold delta M32; omega

theorem delta_add (last idx : Nat) (hl : last < M32) (hi : idx < M32) :
    (last + delta last idx) % M32 = idx := by
  unfold delta M32 at *; omega

theorem parse_val_enc (v : Val) (rest : Bytes) (hv : v.WF) :
    parseVal (codeOf v).2 (codeOf v).1 (valBytes v ++ rest) = some (v, rest) := by
  cases v with
  | fixed c bs => exact parseVal_fixed c bs rest hv.2
  | str bs => exact parseVal_str bs rest hv

theorem parse_header_enc (t : Nat) (v : Val) (n : Bool) (ht : t < 16) (hv : v.WF) :
    parseHeader (header t (codeOf v).1 (codeOf v).2 n) = (t, (codeOf v).1, (codeOf v).2, n) := by
  cases v with
  | fixed c bs => exact parse_header_fixed t c n ht hv.1
  | str bs => exact parse_header_str t n ht

/-- one op: `Next` after `Put*` returns the op, for every type nibble, width and offset move -/
theorem decode_encode (last : Nat) (o : Op) (rest : Bytes)
    (hl : last < M32) (hw : o.WF) :
    decodeOp (encodeOp last o ++ rest) last = some (o, rest) := by
  obtain ⟨typ, idx, val⟩ := o
  obtain ⟨ht, hi, hv⟩ := hw
  simp only at ht hi hv
  have hd := delta_lt last idx
  have hda := delta_add last idx hl hi
  have hd5 : delta last idx < 128 ^ (4+1) := by unfold M32 at hd; omega
  unfold encodeOp
  simp only
  by_cases h1 : delta last idx = 1
  · simp only [h1, if_true, List.cons_append]
    unfold decodeOp
    simp only [parse_header_enc typ val true ht hv, parse_val_enc val rest hv, if_true]
    rw [← h1, hda]
  · simp only [h1, if_false, List.cons_append, List.append_assoc]
    unfold decodeOp
    simp only [parse_header_enc typ val false ht hv, parse_val_enc val _ hv,
      readOffset_writeOffset 4 _ rest hd5, hda]
    simp

theorem encodeOp_ne_nil (last : Nat) (o : Op) : encodeOp last o ≠ [] := by
  unfold encodeOp; simp only; split <;> simp

theorem encodeOp_length_pos (last : Nat) (o : Op) : 0 < (encodeOp last o).length := by
  have := encodeOp_ne_nil last o
  cases h : encodeOp last o with
  | nil => exact absurd h this
  | cons a l => simp

theorem encodeAll_append (last : Nat) (xs ys : List Op) :
    encodeAll last (xs ++ ys) = encodeAll last xs ++ encodeAll (lastIdx last xs) ys := by
  induction xs generalizing last with
  | nil => simp [encodeAll, lastIdx]
  | cons x xs ih => simp [encodeAll, lastIdx, ih]

theorem lastIdx_append (last : Nat) (xs ys : List Op) :
    lastIdx last (xs ++ ys) = lastIdx (lastIdx last xs) ys := by
  induction xs generalizing last with
  | nil => simp [lastIdx]
  | cons x xs ih => simp [lastIdx, ih]

theorem lastIdx_lt (last : Nat) (ops : List Op) (hl : last < M32) (hw : ∀ o ∈ ops, o.WF) :
    lastIdx last ops < M32 := by
  induction ops generalizing last with
  | nil => simpa [lastIdx]
  | cons o os ih =>
    simp only [lastIdx]
    exact ih o.idx (hw o (by simp)).2.1 (fun x hx => hw x (by simp [hx]))

theorem length_le_encodeAll (last : Nat) (ops : List Op) :
    ops.length ≤ (encodeAll last ops).length := by
  induction ops generalizing last with
  | nil => simp [encodeAll]
  | cons o os ih =>
    simp only [encodeAll, List.length_cons, List.length_append]
    have := encodeOp_length_pos last o
    have := ih o.idx
    omega

/-- runs: `for r.Next()` over the bytes of a run of `Put*` calls returns the run, followed by
    whatever decodes from the bytes after it -/
theorem decodeAll_encodeAll_append (ops : List Op) (last : Nat) (hl : last < M32)
    (hw : ∀ o ∈ ops, o.WF) (rest : Bytes) (more : List Op) (fuel fuel' : Nat)
    (hrest : decodeAll fuel' rest (lastIdx last ops) = some more)
    (hf : ops.length + fuel' ≤ fuel) (hmono : ∀ f, fuel' ≤ f → decodeAll f rest (lastIdx last ops) = some more) :
    decodeAll fuel (encodeAll last ops ++ rest) last = some (ops ++ more) := by
  induction ops generalizing last fuel with
  | nil =>
    simp only [encodeAll, List.nil_append, lastIdx] at *
    exact hmono fuel (by omega)
  | cons o os ih =>
    have ho := hw o (by simp)
    cases fuel with
    | zero => simp at hf
    | succ f =>
      have hne : encodeAll last (o :: os) ++ rest ≠ [] := by
        simp [encodeAll, encodeOp_ne_nil]
      rw [decodeAll, if_neg hne]
      simp only [encodeAll, List.append_assoc]
      rw [decode_encode last o _ hl ho]
      simp only
      simp only [lastIdx] at hrest hmono
      rw [ih o.idx ho.2.1 (fun x hx => hw x (by simp [hx])) f hrest (by simp at hf; omega) hmono]
      simp

theorem decodeAll_nil (fuel off : Nat) : decodeAll fuel [] off = some [] := by
  cases fuel <;> simp [decodeAll]

theorem decodeAll_encodeAll (ops : List Op) (last : Nat) (hl : last < M32)
    (hw : ∀ o ∈ ops, o.WF) (fuel : Nat) (hf : ops.length ≤ fuel) :
    decodeAll fuel (encodeAll last ops) last = some ops := by
  have := decodeAll_encodeAll_append ops last hl hw [] [] fuel 0 (decodeAll_nil _ _) (by omega)
    (fun f _ => decodeAll_nil _ _)
  simpa using this

theorem decodeBytes_encodeAll (ops : List Op) (last : Nat) (hl : last < M32)
    (hw : ∀ o ∈ ops, o.WF) : decodeBytes (encodeAll last ops) last = some ops :=
  decodeAll_encodeAll ops last hl hw _ (length_le_encodeAll last ops)

end ColumnVerif.Codec
