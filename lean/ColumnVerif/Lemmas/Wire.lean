import ColumnVerif.Model.Wire
import ColumnVerif.Lemmas.Buffer
/-!
Helper lemmas for `Model/Wire`: round trips (`Reads`) and failure on strict prefixes (`Cuts`)
of every decoder, built up compositionally.
-/
namespace ColumnVerif.Wire
open ColumnVerif.Codec

/-! ### two notions that compose -/

/-- `d` reads `a` off the front of `x ++ rest`, leaves exactly `rest`, keeps the end flag -/
def Reads {α} (d : Dec α) (x : Bytes) (a : α) : Prop :=
  ∀ rest e, d ⟨x ++ rest, e⟩ = .ok (a, ⟨rest, e⟩)

/-- `d` fails on every strict prefix of `x` (written `x.take n`, `n < x.length`); if the stream
    was cut inside a compressed frame (`e = true`) the failure is never mistaken for a clean end -/
def Cuts {α} (d : Dec α) (x : Bytes) : Prop :=
  ∀ n e, n < x.length → ∃ err, d ⟨x.take n, e⟩ = .error err ∧ (e = true → err = .bad)

/-- strict prefixes are exactly the `take n` with `n < length` -/
theorem strict_prefix_iff (p x : Bytes) : (p <+: x ∧ p ≠ x) ↔ ∃ n, n < x.length ∧ p = x.take n := by
  constructor
  · rintro ⟨hp, hne⟩
    refine ⟨p.length, ?_, List.prefix_iff_eq_take.mp hp⟩
    have hle := hp.length_le
    rcases Nat.lt_or_ge p.length x.length with h | h
    · exact h
    · exfalso; apply hne
      have := List.prefix_iff_eq_take.mp hp
      rw [this, List.take_of_length_le h]
  · rintro ⟨n, hn, rfl⟩
    refine ⟨List.take_prefix n x, ?_⟩
    intro h
    have := congrArg List.length h
    simp at this; omega

theorem Cuts.of_prefix {α} {d : Dec α} {x : Bytes} (h : Cuts d x) (p : Bytes) (hp : p <+: x)
    (hne : p ≠ x) (e : Bool) : ∃ err, d ⟨p, e⟩ = .error err ∧ (e = true → err = .bad) := by
  obtain ⟨n, hn, rfl⟩ := (strict_prefix_iff p x).mp ⟨hp, hne⟩
  exact h n e hn

/-- sequencing: a cut of `x ++ y` either cuts `x` (then `d` fails) or lies in `y` (then `d` succeeds
    and leaves the corresponding cut of `y`) -/
theorem seq_cut {α} {d : Dec α} {x : Bytes} {a : α} (hr : Reads d x a) (hc : Cuts d x)
    (y : Bytes) (n : Nat) (e : Bool) :
    (∃ err, d ⟨(x ++ y).take n, e⟩ = .error err ∧ (e = true → err = .bad)) ∨
    (x.length ≤ n ∧ d ⟨(x ++ y).take n, e⟩ = .ok (a, ⟨y.take (n - x.length), e⟩)) := by
  rcases Nat.lt_or_ge n x.length with h | h
  · left
    rw [List.take_append_of_le_length (Nat.le_of_lt h)]
    exact hc n e h
  · right
    refine ⟨h, ?_⟩
    rw [List.take_append, List.take_of_length_le h]
    exact hr _ _

/-! ### uvarint -/

theorem toNat_ofNat_lt (x : Nat) (h : x < 256) : (UInt8.ofNat x).toNat = x := by
  simp [UInt8.toNat_ofNat']; omega

theorem uvarint_ne_nil (fuel x : Nat) : uvarint fuel x ≠ [] := by
  cases fuel with
  | zero => simp [uvarint]
  | succ f => unfold uvarint; split <;> simp

theorem uvarint_length_pos (fuel x : Nat) : 0 < (uvarint fuel x).length :=
  List.length_pos_iff.mpr (uvarint_ne_nil fuel x)

theorem encUvarint_length_pos (x : Nat) : 0 < (encUvarint x).length := uvarint_length_pos 9 x

theorem split_mul (x mul : Nat) : x % 128 * mul + x / 128 * (mul * 128) = x * mul := by
  have h : x = x % 128 + x / 128 * 128 := by omega
  calc x % 128 * mul + x / 128 * (mul * 128)
      = (x % 128 + x / 128 * 128) * mul := by
        rw [Nat.add_mul, Nat.mul_assoc, Nat.mul_comm mul 128]
    _ = x * mul := by rw [← h]

theorem readUvarintAux_uvarint (fuel i x mul : Nat) (hi : i + fuel = 9) (hx : x < 2 * 128 ^ fuel)
    (rest : Bytes) (e : Bool) :
    readUvarintAux (fuel+1) i mul ⟨uvarint fuel x ++ rest, e⟩ = .ok (x * mul, ⟨rest, e⟩) := by
  induction fuel generalizing i x mul with
  | zero =>
    have hx2 : x < 2 := by simpa using hx
    have hb : (UInt8.ofNat x).toNat = x := toNat_ofNat_lt x (by omega)
    simp only [uvarint, List.cons_append, List.nil_append, readUvarintAux, hb]
    rw [if_pos (by omega), if_neg (by omega)]
  | succ f ih =>
    unfold uvarint
    split
    · rename_i hge
      have hb : (UInt8.ofNat (x % 128 + 128)).toNat = x % 128 + 128 := toNat_ofNat_lt _ (by omega)
      rw [List.cons_append, readUvarintAux]
      simp only [hb]
      rw [if_neg (by omega)]
      have hx' : x / 128 < 2 * 128 ^ f := by rw [Nat.pow_succ] at hx; omega
      rw [ih (i+1) (x/128) (mul*128) (by omega) hx']
      simp only
      have : (x % 128 + 128) % 128 = x % 128 := by omega
      rw [this, split_mul]
    · rename_i hlt
      have hb : (UInt8.ofNat x).toNat = x := toNat_ofNat_lt x (by omega)
      rw [List.cons_append, List.nil_append, readUvarintAux]
      simp only [hb]
      rw [if_pos (by omega), if_neg (by omega)]

theorem uvarint_reads (x : Nat) (hx : x < 2 ^ 64) : Reads readUvarint (encUvarint x) x := by
  intro rest e
  have := readUvarintAux_uvarint 9 0 x 1 (by omega) (by omega) rest e
  simpa [readUvarint, encUvarint] using this


theorem readUvarintAux_cut (fuel : Nat) : ∀ (fuel' i mul x n : Nat) (e : Bool),
    n < (uvarint fuel x).length →
    ∃ err, readUvarintAux fuel' i mul ⟨(uvarint fuel x).take n, e⟩ = .error err ∧
      (e = true → err = .bad) := by
  induction fuel with
  | zero =>
    intro fuel' i mul x n e hn
    have : n = 0 := by simp [uvarint] at hn; exact hn
    subst this
    cases fuel' with
    | zero => exact ⟨_, rfl, fun _ => rfl⟩
    | succ f' => exact ⟨_, rfl, fun he => by subst he; rfl⟩
  | succ f ih =>
    intro fuel' i mul x n e hn
    cases fuel' with
    | zero => exact ⟨_, rfl, fun _ => rfl⟩
    | succ f' =>
      cases n with
      | zero => exact ⟨_, rfl, fun he => by subst he; rfl⟩
      | succ m =>
        unfold uvarint at hn ⊢
        split at hn
        · rename_i hge
          rw [if_pos hge, List.take_succ_cons, readUvarintAux]
          have hb : (UInt8.ofNat (x % 128 + 128)).toNat = x % 128 + 128 :=
            toNat_ofNat_lt _ (by omega)
          simp only [hb]
          rw [if_neg (by omega)]
          obtain ⟨err, h, hb'⟩ := ih f' (i+1) (mul*128) (x/128) m e (by simpa using hn)
          rw [h]
          exact ⟨_, rfl, hb'⟩
        · simp at hn

theorem uvarint_cuts (x : Nat) : Cuts readUvarint (encUvarint x) := by
  intro n e hn
  exact readUvarintAux_cut 9 10 0 1 x n e hn

theorem readUvarint_nil : readUvarint ⟨[], false⟩ = .error .eof := rfl

/-! ### `readN`, fixed-width integers -/

theorem readN_reads (b : Bytes) : Reads (readN b.length) b b := by
  intro rest e
  unfold readN
  by_cases h0 : b.length = 0
  · have : b = [] := List.eq_nil_of_length_eq_zero h0
    subst this; simp
  · rw [if_neg h0, if_pos (by simp)]
    simp

theorem readN_reads' (n : Nat) (b : Bytes) (h : b.length = n) : Reads (readN n) b b := by
  subst h; exact readN_reads b

theorem readN_cuts (b : Bytes) : Cuts (readN b.length) b := by
  intro n e hn
  unfold readN
  rw [if_neg (by omega), if_neg (by simp; omega)]
  exact ⟨_, rfl, fun he => by subst he; rfl⟩

theorem readN_cuts' (n : Nat) (b : Bytes) (h : b.length = n) : Cuts (readN n) b := by
  subst h; exact readN_cuts b

theorem readN_nil (n : Nat) (h : n ≠ 0) : readN n ⟨[], false⟩ = .error .eof := by
  unfold readN; rw [if_neg h, if_neg (by simp; omega)]; rfl

theorem leBytes_length (n v : Nat) : (leBytes n v).length = n := by
  induction n generalizing v with
  | zero => rfl
  | succ k ih => simp [leBytes, ih]

theorem leNat_leBytes (n v : Nat) : leNat (leBytes n v) = v % 256 ^ n := by
  induction n generalizing v with
  | zero => simp [leBytes, leNat, Nat.mod_one]
  | succ k ih =>
    simp only [leBytes, leNat, ih]
    rw [toNat_ofNat_lt _ (Nat.mod_lt _ (by omega)), Nat.pow_succ, Nat.mul_comm (256 ^ k) 256,
      Nat.mod_mul]

theorem encU32_length (v : Nat) : (encU32 v).length = 4 := leBytes_length 4 v

theorem u32_reads (v : Nat) (hv : v < 2 ^ 32) : Reads readU32 (encU32 v) v := by
  intro rest e
  unfold readU32
  rw [readN_reads' 4 (encU32 v) (encU32_length v) rest e]
  simp only [encU32, leNat_leBytes]
  rw [Nat.mod_eq_of_lt (by omega)]

theorem u32_cuts (v : Nat) : Cuts readU32 (encU32 v) := by
  intro n e hn
  obtain ⟨err, h, hbad⟩ := readN_cuts' 4 (encU32 v) (encU32_length v) n e hn
  exact ⟨err, by unfold readU32; rw [h], hbad⟩

theorem readU32_nil : readU32 ⟨[], false⟩ = .error .eof := rfl

/-! ### length-prefixed byte strings -/

theorem bytes_reads (b : Bytes) (hb : b.length < 2 ^ 64) : Reads readBytes (encBytes b) b := by
  intro rest e
  unfold readBytes encBytes
  rw [List.append_assoc, uvarint_reads b.length hb]
  exact readN_reads b rest e

theorem bytes_cuts (b : Bytes) (hb : b.length < 2 ^ 64) : Cuts readBytes (encBytes b) := by
  intro n e hn
  unfold readBytes encBytes
  rcases seq_cut (uvarint_reads b.length hb) (uvarint_cuts b.length) b n e with ⟨err, h, hbad⟩ | ⟨hle, h⟩
  · exact ⟨err, by rw [h], hbad⟩
  · rw [h]
    apply readN_cuts b
    simp [encBytes] at hn; omega

theorem readBytes_nil : readBytes ⟨[], false⟩ = .error .eof := rfl


/-! ### big-endian header triples -/

theorem natToBE_length (n v : Nat) : (natToBE n v).length = n := by
  induction n with
  | zero => rfl
  | succ k ih => simp [natToBE, ih]

theorem beNat_natToBE (n v : Nat) : beNat (natToBE n v) = v % 256 ^ n := by
  induction n with
  | zero => simp [natToBE, beNat, Nat.mod_one]
  | succ k ih =>
    simp only [natToBE, beNat, ih, natToBE_length]
    rw [toNat_ofNat_lt _ (Nat.mod_lt _ (by omega)), Nat.pow_succ, Nat.mod_mul,
      Nat.mul_comm (256 ^ k), Nat.add_comm]

theorem beU32_length (v : Nat) : (beU32 v).length = 4 := natToBE_length 4 v

theorem beNat_beU32 (v : Nat) (hv : v < 2 ^ 32) : beNat (beU32 v) = v := by
  unfold beU32; rw [beNat_natToBE, Nat.mod_eq_of_lt (by omega)]

theorem encHeader_length (h : Nat × Nat × Nat) : (encHeader h).length = 12 := by
  simp [encHeader, beU32_length]

/-- header fields fit 32 bits -/
def HeaderOK (h : Nat × Nat × Nat) : Prop := h.1 < 2 ^ 32 ∧ h.2.1 < 2 ^ 32 ∧ h.2.2 < 2 ^ 32

instance (h : Nat × Nat × Nat) : Decidable (HeaderOK h) := by unfold HeaderOK; exact inferInstance

theorem header_reads (h : Nat × Nat × Nat) (hh : HeaderOK h) : Reads readHeader (encHeader h) h := by
  intro rest e
  unfold readHeader
  rw [readN_reads' 12 (encHeader h) (encHeader_length h) rest e]
  obtain ⟨a, b, c⟩ := h
  obtain ⟨ha, hb, hc⟩ := hh
  simp only at ha hb hc
  simp only [encHeader]
  have t1 : (beU32 a ++ beU32 b ++ beU32 c).take 4 = beU32 a := by
    rw [List.append_assoc]; exact List.take_left' (beU32_length a)
  have t2 : (beU32 a ++ beU32 b ++ beU32 c).drop 4 = beU32 b ++ beU32 c := by
    rw [List.append_assoc]; exact List.drop_left' (beU32_length a)
  have t3 : (beU32 a ++ beU32 b ++ beU32 c).drop 8 = beU32 c := by
    exact List.drop_left' (by simp [beU32_length])
  rw [t1, t2, t3, List.take_left' (beU32_length b), beNat_beU32 a ha, beNat_beU32 b hb,
    beNat_beU32 c hc]

theorem header_cuts (h : Nat × Nat × Nat) : Cuts readHeader (encHeader h) := by
  intro n e hn
  obtain ⟨err, h', hbad⟩ := readN_cuts' 12 (encHeader h) (encHeader_length h) n e hn
  exact ⟨err, by unfold readHeader; rw [h'], hbad⟩

theorem readHeader_nil : readHeader ⟨[], false⟩ = .error .eof := rfl

/-! ### counted lists -/

/-- `xs` are the values written, `f x` what the decoder returns for `x` -/
theorem many_reads_map {α β} (d : Dec α) (enc : β → Bytes) (f : β → α) (xs : List β)
    (h : ∀ x ∈ xs, Reads d (enc x) (f x)) :
    Reads (readMany d xs.length) (xs.map enc).flatten (xs.map f) := by
  induction xs with
  | nil => intro rest e; simp [readMany]
  | cons a as ih =>
    intro rest e
    simp only [List.map_cons, List.flatten_cons, List.length_cons, readMany, List.append_assoc]
    rw [h a (by simp)]
    simp only
    rw [ih (fun x hx => h x (by simp [hx]))]

theorem many_cuts_map {α β} (d : Dec α) (enc : β → Bytes) (f : β → α) (xs : List β)
    (h : ∀ x ∈ xs, Reads d (enc x) (f x)) (hc : ∀ x ∈ xs, Cuts d (enc x)) :
    Cuts (readMany d xs.length) (xs.map enc).flatten := by
  induction xs with
  | nil => intro n e hn; simp at hn
  | cons a as ih =>
    intro n e hn
    simp only [List.map_cons, List.flatten_cons, List.length_cons, readMany]
    rcases seq_cut (h a (by simp)) (hc a (by simp)) (as.map enc).flatten n e with
      ⟨err, h1, hbad⟩ | ⟨hle, h1⟩
    · exact ⟨err, by rw [h1], hbad⟩
    · rw [h1]
      simp only
      obtain ⟨err, h2, hbad⟩ := ih (fun x hx => h x (by simp [hx])) (fun x hx => hc x (by simp [hx]))
        (n - (enc a).length) e (by
          simp only [List.map_cons, List.flatten_cons, List.length_append] at hn; omega)
      rw [h2]
      exact ⟨_, rfl, hbad⟩

theorem many_reads {α} (d : Dec α) (enc : α → Bytes) (as : List α)
    (h : ∀ a ∈ as, Reads d (enc a) a) :
    Reads (readMany d as.length) (as.map enc).flatten as := by
  have := many_reads_map d enc id as h
  rwa [List.map_id] at this

theorem many_cuts {α} (d : Dec α) (enc : α → Bytes) (as : List α)
    (h : ∀ a ∈ as, Reads d (enc a) a) (hc : ∀ a ∈ as, Cuts d (enc a)) :
    Cuts (readMany d as.length) (as.map enc).flatten :=
  many_cuts_map d enc id as h hc

theorem readMany_nil {α} (d : Dec α) (n : Nat) (h : d ⟨[], false⟩ = .error .eof) :
    readMany d (n+1) ⟨[], false⟩ = .error .eof := by
  rw [readMany]; simp only [h]

def encRange {β} (enc : β → Bytes) (xs : List β) : Bytes :=
  encUvarint xs.length ++ (xs.map enc).flatten

theorem range_reads_map {α β} (d : Dec α) (enc : β → Bytes) (f : β → α) (xs : List β)
    (hl : xs.length < 2 ^ 64) (h : ∀ x ∈ xs, Reads d (enc x) (f x)) :
    Reads (readRange d) (encRange enc xs) (xs.map f) := by
  intro rest e
  unfold readRange encRange
  rw [List.append_assoc, uvarint_reads xs.length hl]
  exact many_reads_map d enc f xs h rest e

theorem range_cuts_map {α β} (d : Dec α) (enc : β → Bytes) (f : β → α) (xs : List β)
    (hl : xs.length < 2 ^ 64) (h : ∀ x ∈ xs, Reads d (enc x) (f x)) (hc : ∀ x ∈ xs, Cuts d (enc x)) :
    Cuts (readRange d) (encRange enc xs) := by
  intro n e hn
  unfold readRange encRange
  rcases seq_cut (uvarint_reads xs.length hl) (uvarint_cuts xs.length) (xs.map enc).flatten n e with
    ⟨err, h1, hbad⟩ | ⟨hle, h1⟩
  · exact ⟨err, by rw [h1], hbad⟩
  · rw [h1]
    apply many_cuts_map d enc f xs h hc
    simp only [encRange, List.length_append] at hn; omega

theorem range_reads {α} (d : Dec α) (enc : α → Bytes) (as : List α) (hl : as.length < 2 ^ 64)
    (h : ∀ a ∈ as, Reads d (enc a) a) :
    Reads (readRange d) (encRange enc as) as := by
  have := range_reads_map d enc id as hl h
  rwa [List.map_id] at this

theorem range_cuts {α} (d : Dec α) (enc : α → Bytes) (as : List α) (hl : as.length < 2 ^ 64)
    (h : ∀ a ∈ as, Reads d (enc a) a) (hc : ∀ a ∈ as, Cuts d (enc a)) :
    Cuts (readRange d) (encRange enc as) :=
  range_cuts_map d enc id as hl h hc

theorem readRange_nil {α} (d : Dec α) : readRange d ⟨[], false⟩ = .error .eof := rfl


/-! ### `Buffer.WriteTo` / `ReadFrom` -/

/-- every field of the raw buffer fits its wire width -/
structure RawBuf.WF (r : RawBuf) : Prop where
  column_lt : r.column.length < 2 ^ 64
  last_lt : r.last < 2 ^ 32
  count_lt : r.headers.length < 2 ^ 64
  headers_ok : ∀ h ∈ r.headers, HeaderOK h
  data_lt : r.data.length < 2 ^ 64

instance (r : RawBuf) : Decidable r.WF :=
  decidable_of_iff (r.column.length < 2 ^ 64 ∧ r.last < 2 ^ 32 ∧ r.headers.length < 2 ^ 64 ∧
      (∀ h ∈ r.headers, HeaderOK h) ∧ r.data.length < 2 ^ 64)
    ⟨fun ⟨a, b, c, d, e⟩ => ⟨a, b, c, d, e⟩, fun ⟨a, b, c, d, e⟩ => ⟨a, b, c, d, e⟩⟩

theorem encRawBuf_eq (r : RawBuf) : encRawBuf r =
    encBytes r.column ++ (encU32 r.last ++ (encRange encHeader r.headers ++ encBytes r.data)) := by
  simp [encRawBuf, encRange, List.append_assoc]

theorem rawbuf_reads (r : RawBuf) (h : r.WF) : Reads readRawBuf (encRawBuf r) r := by
  intro rest e
  rw [encRawBuf_eq]
  unfold readRawBuf
  simp only [List.append_assoc]
  rw [bytes_reads r.column h.column_lt]
  simp only
  rw [u32_reads r.last h.last_lt]
  simp only
  rw [range_reads readHeader encHeader r.headers h.count_lt
    (fun x hx => header_reads x (h.headers_ok x hx))]
  simp only
  rw [bytes_reads r.data h.data_lt]

theorem rawbuf_cuts (r : RawBuf) (h : r.WF) : Cuts readRawBuf (encRawBuf r) := by
  intro n e hn
  rw [encRawBuf_eq] at hn ⊢
  simp only [List.length_append] at hn
  unfold readRawBuf
  rcases seq_cut (bytes_reads r.column h.column_lt) (bytes_cuts r.column h.column_lt) _ n e with
    ⟨err, h1, hbad⟩ | ⟨hle1, h1⟩
  · exact ⟨err, by rw [h1], hbad⟩
  rw [h1]; simp only
  rcases seq_cut (u32_reads r.last h.last_lt) (u32_cuts r.last) _ (n - (encBytes r.column).length) e
    with ⟨err, h2, hbad⟩ | ⟨hle2, h2⟩
  · exact ⟨err, by rw [h2], hbad⟩
  rw [h2]; simp only
  rcases seq_cut (range_reads readHeader encHeader r.headers h.count_lt
      (fun x hx => header_reads x (h.headers_ok x hx)))
    (range_cuts readHeader encHeader r.headers h.count_lt
      (fun x hx => header_reads x (h.headers_ok x hx)) (fun x _ => header_cuts x))
    (encBytes r.data) (n - (encBytes r.column).length - (encU32 r.last).length) e
    with ⟨err, h3, hbad⟩ | ⟨hle3, h3⟩
  · exact ⟨err, by rw [h3], hbad⟩
  rw [h3]; simp only
  obtain ⟨err, h4, hbad⟩ := bytes_cuts r.data h.data_lt
    (n - (encBytes r.column).length - (encU32 r.last).length -
      (encRange encHeader r.headers).length) e (by omega)
  exact ⟨err, by rw [h4], hbad⟩

theorem readRawBuf_nil : readRawBuf ⟨[], false⟩ = .error .eof := rfl

/-! ### `Commit.WriteTo` / `ReadFrom` -/

def encShard (p : Nat × Nat) : Bytes := encU32 p.1 ++ encU32 p.2

def ShardOK (p : Nat × Nat) : Prop := p.1 < 2 ^ 32 ∧ p.2 < 2 ^ 32

instance (p : Nat × Nat) : Decidable (ShardOK p) := by unfold ShardOK; exact inferInstance

theorem shard_reads (p : Nat × Nat) (hp : ShardOK p) : Reads readShard (encShard p) p := by
  intro rest e
  unfold readShard encShard
  rw [List.append_assoc, u32_reads p.1 hp.1]
  simp only
  rw [u32_reads p.2 hp.2]

theorem shard_cuts (p : Nat × Nat) (hp : ShardOK p) : Cuts readShard (encShard p) := by
  intro n e hn
  unfold readShard encShard
  rcases seq_cut (u32_reads p.1 hp.1) (u32_cuts p.1) (encU32 p.2) n e with ⟨err, h1, hbad⟩ | ⟨hle1, h1⟩
  · exact ⟨err, by rw [h1], hbad⟩
  rw [h1]; simp only
  obtain ⟨err, h2, hbad⟩ := u32_cuts p.2 (n - (encU32 p.1).length) e (by
    simp only [encShard, List.length_append] at hn; omega)
  exact ⟨err, by rw [h2], hbad⟩

theorem readShard_nil : readShard ⟨[], false⟩ = .error .eof := rfl

/-- one update buffer of a commit, from its parts -/
def encCBuf (col : Bytes) (sh : List (Nat × Nat)) (data : Bytes) : Bytes :=
  encBytes col ++ (encRange encShard sh ++ encBytes data)

theorem cbuf_reads (chunk : Nat) (col : Bytes) (sh : List (Nat × Nat)) (data : Bytes)
    (hcol : col.length < 2 ^ 64) (hn : sh.length < 2 ^ 64) (hsh : ∀ p ∈ sh, ShardOK p)
    (hdata : data.length < 2 ^ 64) :
    Reads (readCommitBuf chunk) (encCBuf col sh data)
      ⟨col, 0, sh.map (fun p => (chunk, p.2, p.1)), data⟩ := by
  intro rest e
  unfold readCommitBuf encCBuf
  simp only [List.append_assoc]
  rw [bytes_reads col hcol]
  simp only
  rw [range_reads readShard encShard sh hn (fun p hp => shard_reads p (hsh p hp))]
  simp only
  rw [bytes_reads data hdata]

/-- the Go code drops the error of the shard-table read and goes on with `ReadBytes`; on the
    exhausted source that read fails as well, so every strict prefix is rejected -/
theorem cbuf_cuts (chunk : Nat) (col : Bytes) (sh : List (Nat × Nat)) (data : Bytes)
    (hcol : col.length < 2 ^ 64) (hn : sh.length < 2 ^ 64) (hsh : ∀ p ∈ sh, ShardOK p)
    (hdata : data.length < 2 ^ 64) :
    Cuts (readCommitBuf chunk) (encCBuf col sh data) := by
  intro n e hlt
  unfold encCBuf at hlt ⊢
  simp only [List.length_append] at hlt
  unfold readCommitBuf
  rcases seq_cut (bytes_reads col hcol) (bytes_cuts col hcol) _ n e with ⟨err, h1, hbad⟩ | ⟨hle1, h1⟩
  · exact ⟨err, by rw [h1], hbad⟩
  rw [h1]; simp only
  rcases seq_cut (range_reads readShard encShard sh hn (fun p hp => shard_reads p (hsh p hp)))
    (range_cuts readShard encShard sh hn (fun p hp => shard_reads p (hsh p hp))
      (fun p hp => shard_cuts p (hsh p hp)))
    (encBytes data) (n - (encBytes col).length) e with ⟨err, h2, hbad⟩ | ⟨hle2, h2⟩
  · -- the ignored error: the next `readBytes` sees an empty source
    rw [h2]; simp only
    cases e
    · exact ⟨_, rfl, fun he => by cases he⟩
    · exact ⟨_, rfl, fun _ => rfl⟩
  rw [h2]; simp only
  obtain ⟨err, h3, hbad⟩ := bytes_cuts data hdata
    (n - (encBytes col).length - (encRange encShard sh).length) e (by omega)
  exact ⟨err, by rw [h3], hbad⟩


/-- the sections of `chunk` in write order, and their bytes (what `Commit.WriteTo` ships) -/
def chunkSecs (chunk : Nat) (b : Buf) : List Sec := b.secs.filter (fun s => s.chunk = chunk)
def chunkData (chunk : Nat) (b : Buf) : Bytes := ((chunkSecs chunk b).map Sec.bytes).flatten

/-- what `Commit.ReadFrom` rebuilds for one update buffer -/
def commitBufRaw (chunk : Nat) (b : Buf) : RawBuf :=
  ⟨b.column.toUTF8.toList, 0,
   (shardTable 0 (chunkSecs chunk b)).map (fun p => (chunk, p.2, p.1)), chunkData chunk b⟩

def Commit.toRaw (c : Commit) : RawCommit := ⟨c.id, c.chunk, c.updates.map (commitBufRaw c.chunk)⟩

/-- size bounds under which one update buffer of a commit fits the wire format
    (`Offset` is a `uint32`, counts and lengths are uvarints of a `uint64`) -/
structure BufFits (chunk : Nat) (b : Buf) : Prop where
  name_lt : b.column.toUTF8.toList.length < 2 ^ 64
  count_lt : (chunkSecs chunk b).length < 2 ^ 64
  data_lt : (chunkData chunk b).length < 2 ^ 32
  value_lt : ∀ s ∈ chunkSecs chunk b, s.value < 2 ^ 32

structure Commit.WF (c : Commit) : Prop where
  id_lt : c.id < 2 ^ 64
  chunk_lt : c.chunk < 2 ^ 64
  count_lt : c.updates.length < 2 ^ 64
  fits : ∀ b ∈ c.updates, BufFits c.chunk b

instance (chunk : Nat) (b : Buf) : Decidable (BufFits chunk b) :=
  decidable_of_iff (b.column.toUTF8.toList.length < 2 ^ 64 ∧ (chunkSecs chunk b).length < 2 ^ 64 ∧
      (chunkData chunk b).length < 2 ^ 32 ∧ ∀ s ∈ chunkSecs chunk b, s.value < 2 ^ 32)
    ⟨fun ⟨a, b, c, d⟩ => ⟨a, b, c, d⟩, fun ⟨a, b, c, d⟩ => ⟨a, b, c, d⟩⟩

instance (c : Commit) : Decidable c.WF :=
  decidable_of_iff (c.id < 2 ^ 64 ∧ c.chunk < 2 ^ 64 ∧ c.updates.length < 2 ^ 64 ∧
      ∀ b ∈ c.updates, BufFits c.chunk b)
    ⟨fun ⟨a, b, c, d⟩ => ⟨a, b, c, d⟩, fun ⟨a, b, c, d⟩ => ⟨a, b, c, d⟩⟩

theorem BufFits.of_inv (chunk : Nat) (b : Buf) (h : b.Inv)
    (hname : b.column.toUTF8.toList.length < 2 ^ 64)
    (hcount : (chunkSecs chunk b).length < 2 ^ 64)
    (hdata : (chunkData chunk b).length < 2 ^ 32) : BufFits chunk b := by
  refine ⟨hname, hcount, hdata, ?_⟩
  intro s hs
  have hs' : s ∈ b.rsecs := by
    have := (List.mem_filter.mp hs).1
    simpa [Buf.secs] using this
  have := (h.lt_ok.2 s hs').1
  simpa [M32] using this

theorem shardTable_length (off : Nat) (secs : List Sec) : (shardTable off secs).length = secs.length := by
  induction secs generalizing off with
  | nil => rfl
  | cons s rest ih => simp [shardTable, ih]

theorem encCommitBuf_eq (chunk : Nat) (b : Buf) : encCommitBuf chunk b =
    encCBuf b.column.toUTF8.toList (shardTable 0 (chunkSecs chunk b)) (chunkData chunk b) := by
  have hs : (fun p : Nat × Nat => encU32 p.1 ++ encU32 p.2) = encShard := rfl
  simp only [encCommitBuf, encCBuf, encRange, encString, encBytes, chunkSecs, chunkData,
    shardTable_length, List.append_assoc, hs]

theorem shardTable_ok (off : Nat) (secs : List Sec) (hv : ∀ s ∈ secs, s.value < 2 ^ 32)
    (hlen : off + ((secs.map Sec.bytes).flatten).length < 2 ^ 32 ∨ secs = []) :
    ∀ p ∈ shardTable off secs, ShardOK p := by
  induction secs generalizing off with
  | nil => intro p hp; simp [shardTable] at hp
  | cons s rest ih =>
    intro p hp
    simp only [shardTable, List.mem_cons] at hp
    have hlen' : off + (s.bytes.length + ((rest.map Sec.bytes).flatten).length) < 2 ^ 32 := by
      rcases hlen with h | h
      · simpa using h
      · simp at h
    rcases hp with rfl | hp
    · exact ⟨hv s (by simp), by simp only; omega⟩
    · exact ih (off + s.bytes.length) (fun x hx => hv x (by simp [hx])) (Or.inl (by omega)) p hp

theorem BufFits.shards_ok {chunk : Nat} {b : Buf} (h : BufFits chunk b) :
    ∀ p ∈ shardTable 0 (chunkSecs chunk b), ShardOK p :=
  shardTable_ok 0 _ h.value_lt (Or.inl (by have := h.data_lt; simpa [chunkData] using this))

theorem commitBuf_reads (chunk : Nat) (b : Buf) (h : BufFits chunk b) :
    Reads (readCommitBuf chunk) (encCommitBuf chunk b) (commitBufRaw chunk b) := by
  rw [encCommitBuf_eq]
  exact cbuf_reads chunk _ _ _ h.name_lt (by rw [shardTable_length]; exact h.count_lt) h.shards_ok
    (Nat.lt_trans h.data_lt (by omega))

theorem commitBuf_cuts (chunk : Nat) (b : Buf) (h : BufFits chunk b) :
    Cuts (readCommitBuf chunk) (encCommitBuf chunk b) := by
  rw [encCommitBuf_eq]
  exact cbuf_cuts chunk _ _ _ h.name_lt (by rw [shardTable_length]; exact h.count_lt) h.shards_ok
    (Nat.lt_trans h.data_lt (by omega))

theorem readCommitBuf_nil (chunk : Nat) : readCommitBuf chunk ⟨[], false⟩ = .error .eof := rfl

theorem encCommit_eq (c : Commit) : encCommit c =
    encUvarint c.chunk ++ (encUvarint c.id ++ encRange (encCommitBuf c.chunk) c.updates) := by
  simp [encCommit, encRange, List.append_assoc]

theorem commit_reads (c : Commit) (h : c.WF) : Reads readCommit (encCommit c) c.toRaw := by
  intro rest e
  rw [encCommit_eq]
  unfold readCommit
  simp only [List.append_assoc]
  rw [uvarint_reads c.chunk h.chunk_lt]
  simp only
  rw [uvarint_reads c.id h.id_lt]
  simp only
  rw [range_reads_map (readCommitBuf c.chunk) (encCommitBuf c.chunk) (commitBufRaw c.chunk)
    c.updates h.count_lt (fun b hb => commitBuf_reads c.chunk b (h.fits b hb)) rest e]
  rfl

theorem commit_cuts (c : Commit) (h : c.WF) : Cuts readCommit (encCommit c) := by
  intro n e hn
  rw [encCommit_eq] at hn ⊢
  simp only [List.length_append] at hn
  unfold readCommit
  rcases seq_cut (uvarint_reads c.chunk h.chunk_lt) (uvarint_cuts c.chunk) _ n e with
    ⟨err, h1, hbad⟩ | ⟨hle1, h1⟩
  · exact ⟨err, by rw [h1], hbad⟩
  rw [h1]; simp only
  rcases seq_cut (uvarint_reads c.id h.id_lt) (uvarint_cuts c.id) _
    (n - (encUvarint c.chunk).length) e with ⟨err, h2, hbad⟩ | ⟨hle2, h2⟩
  · exact ⟨err, by rw [h2], hbad⟩
  rw [h2]; simp only
  obtain ⟨err, h3, hbad⟩ := range_cuts_map (readCommitBuf c.chunk) (encCommitBuf c.chunk)
    (commitBufRaw c.chunk) c.updates h.count_lt
    (fun b hb => commitBuf_reads c.chunk b (h.fits b hb))
    (fun b hb => commitBuf_cuts c.chunk b (h.fits b hb))
    (n - (encUvarint c.chunk).length - (encUvarint c.id).length) e (by omega)
  exact ⟨err, by rw [h3], hbad⟩

theorem readCommit_nil : readCommit ⟨[], false⟩ = .error .eof := rfl

theorem encCommit_length_pos (c : Commit) : 0 < (encCommit c).length := by
  rw [encCommit_eq, List.length_append]
  have := encUvarint_length_pos c.chunk
  omega


/-! ### `Log.Range` -/

def encLog (cs : List Commit) : Bytes := (cs.map encCommit).flatten

theorem length_le_encLog (cs : List Commit) : cs.length ≤ (encLog cs).length := by
  induction cs with
  | nil => simp
  | cons c cs ih =>
    simp only [encLog, List.map_cons, List.flatten_cons, List.length_append, List.length_cons]
    have := encCommit_length_pos c
    simp only [encLog] at ih
    omega

/-- whole commits at the front of the stream are delivered one by one -/
theorem rangeLogAux_commits (cs : List Commit) (h : ∀ c ∈ cs, c.WF) (tail : Bytes) (e : Bool) :
    ∀ (fuel : Nat) (acc : List RawCommit), cs.length ≤ fuel →
    rangeLogAux fuel ⟨encLog cs ++ tail, e⟩ acc =
      rangeLogAux (fuel - cs.length) ⟨tail, e⟩ ((cs.map Commit.toRaw).reverse ++ acc) := by
  induction cs with
  | nil => intro fuel acc _; simp [encLog]
  | cons c cs ih =>
    intro fuel acc hf
    cases fuel with
    | zero => simp at hf
    | succ f =>
      simp only [encLog, List.map_cons, List.flatten_cons, List.append_assoc]
      rw [rangeLogAux, commit_reads c (h c (by simp))]
      simp only
      have := ih (fun x hx => h x (by simp [hx])) f (c.toRaw :: acc) (by simp at hf; omega)
      simp only [encLog] at this
      rw [this]
      simp

theorem rangeLogAux_error (f : Nat) (s : Src) (acc : List RawCommit) (err : RErr)
    (h : readCommit s = .error err) :
    rangeLogAux (f+1) s acc = (acc.reverse, decide (err = .bad)) := by
  rw [rangeLogAux, h]
  cases err <;> rfl

/-- number of whole items of `xs` that end at or before byte `n` -/
def wholeCount : List Bytes → Nat → Nat
  | [], _ => 0
  | x :: xs, n => if x.length ≤ n then wholeCount xs (n - x.length) + 1 else 0

theorem wholeCount_le (xs : List Bytes) (n : Nat) : wholeCount xs n ≤ xs.length := by
  induction xs generalizing n with
  | nil => simp [wholeCount]
  | cons x xs ih =>
    simp only [wholeCount]
    split
    · have := ih (n - x.length); simp; omega
    · simp

/-- a cut of a concatenation = the whole items before the cut ++ a strict prefix of the next one -/
theorem take_flatten (xs : List Bytes) (n : Nat) :
    ∃ p, xs.flatten.take n = (xs.take (wholeCount xs n)).flatten ++ p ∧
      (∀ x, xs[wholeCount xs n]? = some x → ∃ m, m < x.length ∧ p = x.take m) ∧
      (xs.length ≤ wholeCount xs n → p = []) := by
  induction xs generalizing n with
  | nil => exact ⟨[], by simp [wholeCount]⟩
  | cons x xs ih =>
    by_cases hx : x.length ≤ n
    · obtain ⟨p, h1, h2, h3⟩ := ih (n - x.length)
      refine ⟨p, ?_, ?_, ?_⟩
      · simp only [wholeCount, if_pos hx, List.flatten_cons, List.take_succ_cons]
        rw [List.take_append, List.take_of_length_le hx, h1, List.append_assoc]
      · intro y hy
        simp only [wholeCount, if_pos hx, List.getElem?_cons_succ] at hy
        exact h2 y hy
      · intro hle
        simp only [wholeCount, if_pos hx, List.length_cons] at hle
        exact h3 (by omega)
    · refine ⟨x.take n, ?_, ?_, ?_⟩
      · simp only [wholeCount, if_neg hx, List.flatten_cons, List.take_zero, List.flatten_nil,
          List.nil_append]
        rw [List.take_append_of_le_length (by omega)]
      · intro y hy
        simp only [wholeCount, if_neg hx, List.getElem?_cons_zero, Option.some.injEq] at hy
        subst hy
        exact ⟨n, by omega, rfl⟩
      · intro hle
        simp [wholeCount, if_neg hx] at hle

theorem wholeCount_all (xs : List Bytes) (n : Nat) (h : xs.flatten.length ≤ n) :
    wholeCount xs n = xs.length := by
  induction xs generalizing n with
  | nil => rfl
  | cons x xs ih =>
    simp only [List.flatten_cons, List.length_append] at h
    simp only [wholeCount, if_pos (show x.length ≤ n by omega), List.length_cons]
    rw [ih (n - x.length) (by omega)]

theorem readCommit_nil_error (e : Bool) :
    ∃ err, readCommit ⟨[], e⟩ = .error err ∧ (e = true → err = .bad) := by
  cases e
  · exact ⟨_, rfl, fun he => by cases he⟩
  · exact ⟨_, rfl, fun _ => rfl⟩

/-- cutting the log at any byte delivers exactly the whole commits before the cut; a cut inside a
    compressed frame (`e = true`) is always reported as an error -/
theorem rangeLog_take (cs : List Commit) (h : ∀ c ∈ cs, c.WF) (n : Nat) (e : Bool) :
    ∃ flag, rangeLog ⟨(encLog cs).take n, e⟩ =
      ((cs.map Commit.toRaw).take (wholeCount (cs.map encCommit) n), flag) ∧
      (e = true → flag = true) := by
  obtain ⟨p, h1, h2, h3⟩ := take_flatten (cs.map encCommit) n
  have hk := wholeCount_le (cs.map encCommit) n
  generalize wholeCount (cs.map encCommit) n = k at *
  simp only [List.length_map] at hk h3
  have hperr : ∃ err, readCommit ⟨p, e⟩ = .error err ∧ (e = true → err = .bad) := by
    rcases Nat.lt_or_ge k cs.length with hlt | hge
    · have hc : (cs.map encCommit)[k]? = some (encCommit cs[k]) := by
        simp [List.getElem?_eq_getElem hlt]
      obtain ⟨m, hm, rfl⟩ := h2 _ hc
      exact commit_cuts cs[k] (h _ (List.getElem_mem hlt)) m e hm
    · rw [h3 hge]; exact readCommit_nil_error e
  obtain ⟨err, herr, hbad⟩ := hperr
  have hflat : (encLog cs).take n = encLog (cs.take k) ++ p := by
    simp only [encLog, List.map_take]; exact h1
  have hlen : (cs.take k).length = k := by simp; omega
  refine ⟨decide (err = .bad), ?_, fun he => by simp [hbad he]⟩
  unfold rangeLog
  simp only [hflat]
  have hfuel : k ≤ (encLog (cs.take k) ++ p).length := by
    have := length_le_encLog (cs.take k)
    rw [List.length_append]; omega
  rw [rangeLogAux_commits (cs.take k) (fun c hc => h c (List.mem_of_mem_take hc)) p e _ _
    (by omega)]
  rw [hlen, show (encLog (cs.take k) ++ p).length + 1 - k
    = ((encLog (cs.take k) ++ p).length - k) + 1 by omega]
  rw [rangeLogAux_error _ _ _ err herr]
  simp [List.map_take]

theorem rangeLog_all (cs : List Commit) (h : ∀ c ∈ cs, c.WF) :
    rangeLog ⟨encLog cs, false⟩ = (cs.map Commit.toRaw, false) := by
  unfold rangeLog
  have := rangeLogAux_commits cs h [] false ((encLog cs).length + 1) []
    (by have := length_le_encLog cs; omega)
  simp only [List.append_nil] at this
  simp only [this]
  rw [show (encLog cs).length + 1 - cs.length = ((encLog cs).length - cs.length) + 1 by
    have := length_le_encLog cs; omega]
  rw [rangeLogAux_error _ _ _ .eof readCommit_nil]
  simp


theorem encLog_append (as bs : List Commit) : encLog (as ++ bs) = encLog as ++ encLog bs := by
  simp [encLog]

/-- a clean cut exactly after the `k`-th commit: the first `k` commits, no error -/
theorem rangeLog_boundary (cs : List Commit) (h : ∀ c ∈ cs, c.WF) (k : Nat) :
    rangeLog ⟨(encLog cs).take (encLog (cs.take k)).length, false⟩ =
      ((cs.map Commit.toRaw).take k, false) := by
  have : (encLog cs).take (encLog (cs.take k)).length = encLog (cs.take k) := by
    have hcs : encLog cs = encLog (cs.take k) ++ encLog (cs.drop k) := by
      rw [← encLog_append, List.take_append_drop]
    rw [hcs]; exact List.take_left' rfl
  rw [this, rangeLog_all (cs.take k) (fun c hc => h c (List.mem_of_mem_take hc)), List.map_take]

/-! ### slicing the data along the header table -/

/-- what makes a section decodable: 32-bit `Value`, well-formed ops -/
def SecOK (s : Sec) : Prop := s.value < M32 ∧ ∀ o ∈ s.rops, o.WF

theorem Sec.decodes (s : Sec) (h : SecOK s) : decodeBytes s.bytes s.value = some s.ops :=
  decodeBytes_encodeAll s.ops s.value h.1 (by intro o ho; exact h.2 o (by simpa [Sec.ops] using ho))

theorem Sec.eta (s : Sec) : (⟨s.chunk, s.value, s.ops.reverse⟩ : Sec) = s := by
  cases s; simp [Sec.ops]

theorem sectionsOf_headersFrom (secs : List Sec) (hs : ∀ s ∈ secs, SecOK s) :
    ∀ pre : Bytes, sectionsOf (headersFrom pre.length secs) (pre ++ (secs.map Sec.bytes).flatten)
      = some secs := by
  induction secs with
  | nil => intro pre; simp [headersFrom, sectionsOf]
  | cons s rest ih =>
    intro pre
    have hd := Sec.decodes s (hs s (by simp))
    cases rest with
    | nil =>
      simp only [headersFrom, List.map_cons, List.map_nil, List.flatten_cons, List.flatten_nil,
        List.append_nil, sectionsOf, List.drop_left, hd, Sec.eta]
    | cons s' rest' =>
      have ih' := ih (fun x hx => hs x (by simp [hx])) (pre ++ s.bytes)
      simp only [List.length_append, List.map_cons, List.flatten_cons, List.append_assoc] at ih'
      simp only [headersFrom] at ih' ⊢
      rw [sectionsOf]
      simp only [List.map_cons, List.flatten_cons]
      rw [ih']
      simp only [List.drop_left, Nat.add_sub_cancel_left, List.take_left, hd, Sec.eta]

theorem Buf.secOK (b : Buf) (h : b.Inv) : ∀ s ∈ b.secs, SecOK s := by
  intro s hs
  exact h.lt_ok.2 s (by simpa [Buf.secs] using hs)

theorem sectionsOf_buf (b : Buf) (h : b.Inv) : sectionsOf b.headers b.bytes = some b.secs := by
  have := sectionsOf_headersFrom b.secs (Buf.secOK b h) []
  simpa [Buf.headers, Buf.bytes] using this

theorem shardTable_headers (chunk off : Nat) (secs : List Sec) (hc : ∀ s ∈ secs, s.chunk = chunk) :
    (shardTable off secs).map (fun p => (chunk, p.2, p.1)) = headersFrom off secs := by
  induction secs generalizing off with
  | nil => rfl
  | cons s rest ih =>
    simp only [shardTable, headersFrom, List.map_cons]
    rw [ih _ (fun x hx => hc x (by simp [hx])), hc s (by simp)]

theorem chunkSecs_chunk (chunk : Nat) (b : Buf) : ∀ s ∈ chunkSecs chunk b, s.chunk = chunk := by
  intro s hs
  simpa using (List.mem_filter.mp hs).2

/-- the buffer `Commit.ReadFrom` rebuilds slices and decodes to the sections of the commit's chunk -/
theorem sectionsOf_commitBufRaw (chunk : Nat) (b : Buf) (h : b.Inv) :
    sectionsOf (commitBufRaw chunk b).headers (commitBufRaw chunk b).data = some (chunkSecs chunk b) := by
  have hok : ∀ s ∈ chunkSecs chunk b, SecOK s := fun s hs =>
    Buf.secOK b h s (List.mem_filter.mp hs).1
  have := sectionsOf_headersFrom (chunkSecs chunk b) hok []
  simp only [commitBufRaw, shardTable_headers chunk 0 _ (chunkSecs_chunk chunk b), chunkData]
  simpa using this


/-! ### `RawBuf.toBuf ∘ Buf.toRaw` -/

theorem byteArray_toList_loop (bs : ByteArray) (i : Nat) (r : List UInt8) :
    ByteArray.toList.loop bs i r = r.reverse ++ bs.data.toList.drop i := by
  have hsz : bs.size = bs.data.toList.length := by
    rw [← ByteArray.size_data]; simp
  induction h : bs.size - i generalizing i r with
  | zero =>
    rw [ByteArray.toList.loop, if_neg (by omega)]
    rw [List.drop_of_length_le (by omega)]; simp
  | succ k ih =>
    have hi : i < bs.size := by omega
    rw [ByteArray.toList.loop, if_pos hi, ih (i+1) _ (by omega)]
    have hi' : i < bs.data.toList.length := by omega
    rw [List.drop_eq_getElem_cons hi']
    have hg : bs.get! i = bs.data.toList[i] := by
      cases bs with
      | mk d =>
        simp only [ByteArray.get!]
        have : i < d.size := by simpa using hi'
        simp [getElem!_pos, this]
    rw [hg]; simp

theorem byteArray_toList (bs : ByteArray) : bs.toList = bs.data.toList := by
  simp [ByteArray.toList, byteArray_toList_loop]

/-- a column name survives `toUTF8` → byte list → `fromUTF8?` -/
theorem fromUTF8_toUTF8 (s : String) : String.fromUTF8? ⟨s.toUTF8.toList.toArray⟩ = some s := by
  rw [byteArray_toList]
  have : (⟨s.toUTF8.data.toList.toArray⟩ : ByteArray) = s.toByteArray := by simp
  rw [this]
  simp [String.fromUTF8?, s.isValidUTF8, String.fromUTF8]

/-- the UTF-8 length used in the size hypotheses is the string's byte size -/
theorem utf8_length (s : String) : s.toUTF8.toList.length = s.utf8ByteSize := by
  rw [byteArray_toList]; simp [String.utf8ByteSize, ← ByteArray.size_data]

theorem headersFrom_chunks (start : Nat) (secs : List Sec) :
    (headersFrom start secs).map (·.1) = secs.map Sec.chunk := by
  induction secs generalizing start with
  | nil => rfl
  | cons s rest ih => simp [headersFrom, ih]

theorem headers_last (b : Buf) :
    (b.headers.getLast?).map (·.1) = b.rsecs.head?.map Sec.chunk := by
  rw [← List.getLast?_map, Buf.headers, headersFrom_chunks, List.getLast?_map, Buf.secs,
    List.getLast?_reverse]

/-- decoding the raw form gives the buffer back; `cur` (the writer's current chunk) is rebuilt from
    the last header -/
theorem toRaw_toBuf (b : Buf) (h : b.Inv) :
    (Buf.toRaw b).toBuf = some { b with cur := b.rsecs.head?.map Sec.chunk } := by
  unfold RawBuf.toBuf Buf.toRaw
  simp only [sectionsOf_buf b h, fromUTF8_toUTF8, headers_last, Buf.secs, List.reverse_reverse]

theorem Buf.cur_eq_head (b : Buf) (h : b.Inv) (hc : b.cur = none → b.rsecs = []) :
    b.rsecs.head?.map Sec.chunk = b.cur := by
  cases hr : b.rsecs with
  | nil => simp [h.nil_ok hr]
  | cons s rest =>
    cases hcur : b.cur with
    | none => rw [hc hcur] at hr; simp at hr
    | some c => simp [h.cur_ok s rest hr c hcur]

theorem toRaw_toBuf_eq (b : Buf) (h : b.Inv) (hc : b.cur = none → b.rsecs = []) :
    (Buf.toRaw b).toBuf = some b := by
  rw [toRaw_toBuf b h, Buf.cur_eq_head b h hc]

theorem Buf.put_cur (b : Buf) (o : Op) : (b.put o).cur ≠ none := by
  unfold Buf.put
  simp only
  split
  · rename_i hc; split <;> simp [hc]
  · simp

theorem Buf.putAll_cur (b : Buf) (ops : List Op) (hc : b.cur = none → b.rsecs = []) :
    (b.putAll ops).cur = none → (b.putAll ops).rsecs = [] := by
  induction ops generalizing b with
  | nil => simpa [Buf.putAll] using hc
  | cons o os ih =>
    rw [Buf.putAll_cons]
    exact ih (b.put o) (fun h => absurd h (Buf.put_cur b o))

theorem headersFrom_length (start : Nat) (secs : List Sec) :
    (headersFrom start secs).length = secs.length := by
  induction secs generalizing start with
  | nil => rfl
  | cons s rest ih => simp [headersFrom, ih]

theorem headersFrom_ok (start : Nat) (secs : List Sec)
    (hv : ∀ s ∈ secs, s.chunk < 2 ^ 32 ∧ s.value < 2 ^ 32)
    (hlen : start + ((secs.map Sec.bytes).flatten).length < 2 ^ 32) :
    ∀ p ∈ headersFrom start secs, HeaderOK p := by
  induction secs generalizing start with
  | nil => intro p hp; simp [headersFrom] at hp
  | cons s rest ih =>
    intro p hp
    simp only [headersFrom, List.mem_cons] at hp
    simp only [List.map_cons, List.flatten_cons, List.length_append] at hlen
    rcases hp with rfl | hp
    · exact ⟨(hv s (by simp)).1, by simp only; omega, (hv s (by simp)).2⟩
    · exact ih (start + s.bytes.length) (fun x hx => hv x (by simp [hx])) (by omega) p hp

/-- size bounds under which a whole buffer fits `Buffer.WriteTo`'s format -/
theorem Buf.toRaw_wf (b : Buf) (h : b.Inv) (hname : b.column.toUTF8.toList.length < 2 ^ 64)
    (hcount : b.secs.length < 2 ^ 64) (hdata : b.bytes.length < 2 ^ 32)
    (hchunk : ∀ s ∈ b.secs, s.chunk < 2 ^ 32) : (Buf.toRaw b).WF := by
  refine ⟨hname, ?_, ?_, ?_, ?_⟩
  · have := h.lt_ok.1; simpa [Buf.toRaw, M32] using this
  · simpa [Buf.toRaw, Buf.headers, headersFrom_length] using hcount
  · apply headersFrom_ok 0 b.secs
    · intro s hs
      refine ⟨hchunk s hs, ?_⟩
      have := (Buf.secOK b h s hs).1
      simpa [M32] using this
    · simpa [Buf.bytes] using hdata
  · exact Nat.lt_trans hdata (by omega)

end ColumnVerif.Wire
