import ColumnVerif.Model.Wire
import ColumnVerif.Model.Swap
import ColumnVerif.Model.SnapRes
import ColumnVerif.Model.Expire
import ColumnVerif.Model.Widen
import Driver.Util
/-! `codec` mode: one commit buffer driven through the writer API, read back in every way. -/
namespace Driver.CodecMode
open ColumnVerif.Codec ColumnVerif.Wire Driver

def parseVal (kind hex : String) : Option Val :=
  match unhex hex with
  | none => none
  | some bs =>
    match kind with
    | "f0" => if bs.length = 0 then some (.fixed 0 bs) else none
    | "f2" => if bs.length = 2 then some (.fixed 1 bs) else none
    | "f4" => if bs.length = 4 then some (.fixed 2 bs) else none
    | "f8" => if bs.length = 8 then some (.fixed 3 bs) else none
    | "s"  => if bs.length < 65536 then some (.str bs) else none
    | _ => none

def valHex : Val → String
  | .fixed _ bs => hexOf bs
  | .str bs => hexOf bs

def showOp (o : Op) : String := s!"{o.typ}:{o.idx}:{valHex o.val}"

def showOps (ops : List Op) : String := joinSp (ops.map showOp)

def showHeaders (hs : List (Nat × Nat × Nat)) : String :=
  String.intercalate "," (hs.map (fun h => s!"{h.1}:{h.2.1}:{h.2.2}"))

def commaOps (ops : List Op) : String := String.intercalate "," (ops.map showOp)

def utf8 (bs : List UInt8) : String :=
  match String.fromUTF8? ⟨bs.toArray⟩ with | some s => s | none => "?"

/-- what `Seek` + `RangeChunks` show of a buffer read by `Buffer.ReadFrom` -/
def showReadBuf (r : RawBuf) (rest : Nat) : String :=
  match decodeBytes r.data 0 with
  | none => "panic"
  | some ops =>
    let chunks := String.intercalate "," (r.headers.map (fun h => toString h.1))
    -- what `Range` shows per chunk: the sections of the chunk, decoded from their header values
    match sectionsOf r.headers r.data with
    | none => "panic"
    | some secs =>
      let cs := (r.headers.map (fun h => h.1)).eraseDups
      let ranges := String.intercalate ";" (cs.map (fun c =>
        s!"{c}:" ++ String.intercalate ",|," ((secs.filter (fun s => s.chunk == c)).map (fun s => commaOps s.ops))))
      s!"buf col={utf8 r.column} chunks={chunks} ops={commaOps ops} ranges={ranges} rest={rest}"

/-- what `Range(update, commit.Chunk)` shows of one update buffer of a commit read back -/
def showCommitBuf (r : RawBuf) : String :=
  match sectionsOf r.headers r.data with
  | none => "panic"
  | some secs =>
    s!"col={utf8 r.column} ops=" ++ String.intercalate ",|," (secs.map (fun s => commaOps s.ops))

def trimR (s : String) : String := (s.dropEndWhile (· == ' ')).toString

structure St where
  buf : Buf := Buf.empty "x"
  log : Bytes := []          -- plain (decompressed) content of the commit log

def step (st : St) (line : String) : St × String :=
  match words line with
  | ["new", col] => ({ st with buf := Buf.empty col }, "ok")
  | ["reset", col] => ({ st with buf := Buf.empty col }, "ok")       -- `Buffer.Reset` of a used buffer
  | ["swap", c, k, kind, hex] =>
    match c.toNat?, k.toNat?, parseVal kind hex with
    | some c, some k, some v =>
      -- the harness only swaps a 2/4/8-byte op with a value of the same width, or a string op with a string
      let cur := ((st.buf.secs.filter (fun s => s.chunk = c)).map Sec.ops).flatten[k]?
      let allowed := match cur, v with
        | some ⟨_, _, .fixed c1 _⟩, .fixed c2 _ => c1 == c2 && c1 != 0
        | some ⟨_, _, .str _⟩, .str _ => true
        | _, _ => false
      if !allowed then (st, "no-op") else
      match st.buf.swapAt c k v with
      | some b => ({ st with buf := b }, "ok")
      | none => (st, "no-op")
    | _, _, _ => (st, "bad-op")
  | ["swaps", c, k1, kind1, hex1, k2, kind2, hex2] =>
    -- two swaps during one Range pass (k1 < k2): both are checked first, then applied in order — the
    -- positions of the chunk's ops do not move (a resizing swap appends at the end)
    match c.toNat?, k1.toNat?, parseVal kind1 hex1, k2.toNat?, parseVal kind2 hex2 with
    | some c, some k1, some v1, some k2, some v2 =>
      if k1 ≥ k2 then (st, "bad-op") else
      let opsC := ((st.buf.secs.filter (fun s => s.chunk = c)).map Sec.ops).flatten
      let allowed := fun (k : Nat) (v : Val) => match opsC[k]?, v with
        | some ⟨_, _, .fixed c1 _⟩, .fixed c2 _ => c1 == c2 && c1 != 0
        | some ⟨_, _, .str _⟩, .str _ => true
        | _, _ => false
      if !(allowed k1 v1 && allowed k2 v2) then (st, "no-op") else
      match st.buf.swapAt c k1 v1 with
      | some b1 =>
        match b1.swapAt c k2 v2 with
        | some b2 => ({ st with buf := b2 }, "ok")
        | none => (st, "no-op")
      | none => (st, "no-op")
    | _, _, _, _, _ => (st, "bad-op")
  | ["snapres", rec, op, ws, cp] =>
    -- one Snapshot call of the resource model, with the clean-up actions of the repaired code
    let r0 : ColumnVerif.SnapRes.Res := ⟨rec == "1", 10, 10, 10⟩
    let (r1, err) := ColumnVerif.SnapRes.snapshot ColumnVerif.SnapRes.SnapCfg.good r0 ⟨op == "1", ws == "1", cp == "1"⟩
    (st, s!"rec={r1.recorder} dfd={(r1.fds : Int) - 10} dtemp={(r1.temps : Int) - 10} dgo={(r1.workers : Int) - 10} err={err}")
  | ["vacuum", now, present, hex] =>
    -- the decision one vacuum pass takes for a row: clock reading, is a deadline value stored, its 8 bytes
    match now.toInt?, unhex hex with
    | some n, some bs =>
      let v : Option Bytes := if present == "1" then some bs else none
      (st, if ColumnVerif.Store.vacuumDeletes n v then "delete" else "keep")
    | _, _ => (st, "bad-op")
  | ["writettl", now, ttl] =>
    match now.toInt?, ttl.toInt? with
    | some n, some t => (st, s!"deadline={ColumnVerif.Store.writeTTL n t}")
    | _, _ => (st, "bad-op")
  | ["putany", ty, idx, dec] =>
    -- `Buffer.PutAny(Put, idx, <the integer of Go type ty>)`
    match GoInt.parse ty, idx.toNat?, dec.toInt? with
    | some t, some i, some v =>
      if i < M32 ∧ t.holds v then ({ st with buf := st.buf.put ⟨opPut, i, putAnyInt t v⟩ }, "ok") else (st, "bad-op")
    | _, _, _ => (st, "bad-op")
  | ["readnum", hex] =>
    -- the any-size accessors of the reader on one operation value
    match unhex hex with
    | some bs =>
      let sh := fun {α} [ToString α] (o : Option α) => match o with | some v => toString v | none => "panic"
      (st, s!"int={sh (readIntAny bs)} uint={sh (readUintAny bs)}")
    | none => (st, "bad-op")
  | ["readany", hex] =>
    -- what an `int` / `uint` column makes of an operation value of any width (Reader.Int / Reader.Uint)
    match unhex hex with
    | some bs =>
      let sh := fun {α} [ToString α] (o : Option α) => match o with | some v => toString v | none => "panic"
      let slot := fun (o : Option Bytes) => match o with | some b => hexOf b | none => "panic"
      (st, s!"int={sh (readIntAny bs)} uint={sh (readUintAny bs)} islot={slot (widenInt true bs)} uslot={slot (widenInt false bs)}")
    | none => (st, "bad-op")
  | ["readany"] =>
    (st, s!"int=panic uint=panic islot=panic uslot=panic")
  | ["log-new"] => ({ st with log := [] }, "ok")
  | ["logplain", hex] =>
    match unhex hex with
    | some bs => ({ st with log := bs }, "ok")
    | none => (st, "bad-op")
  | ["logcut", m, corrupt] =>
    -- a cut log: the decoder sees the first `m` decompressed bytes; `corrupt` = the cut fell inside an s2 frame
    match m.toNat? with
    | some m =>
      let (cs, err) := rangeLog ⟨st.log.take m, corrupt == "true"⟩
      (st, s!"n={cs.length} err={err}")
    | none => (st, "bad-op")
  | ["log-append", c, id] =>
    match c.toNat?, id.toNat? with
    | some c, some id => ({ st with log := st.log ++ encCommit ⟨id, c, [st.buf]⟩ }, "ok")
    | _, _ => (st, "bad-op")
  | ["log-range"] =>
    let (cs, err) := rangeLog ⟨st.log, false⟩
    let shown := cs.map (fun c => s!"id={c.id} chunk={c.chunk} " ++ String.intercalate " ; " (c.updates.map showCommitBuf))
    (st, s!"log n={cs.length} err={err} " ++ String.intercalate " || " shown)
  | ["put", typ, idx, kind, hex] =>
    match typ.toNat?, idx.toNat?, parseVal kind hex with
    | some t, some i, some v =>
      if t < 16 ∧ i < M32 then ({ st with buf := st.buf.put ⟨t, i, v⟩ }, "ok") else (st, "bad-op")
    | _, _, _ => (st, "bad-op")
  | ["bytes"] =>
    (st, s!"bytes {hexOf st.buf.bytes} hdr={showHeaders st.buf.headers} last={st.buf.last} empty={st.buf.isEmpty}")
  | ["seek"] =>
    match decodeBytes st.buf.bytes 0 with
    | some ops => (st, trimR ("ops " ++ showOps ops))
    | none => (st, "panic")
  | ["chunks"] => (st, trimR ("chunks " ++ joinSp (st.buf.chunks.map toString)))
  | ["range", c] =>
    match c.toNat? with
    | some c =>
      -- decode each section from its bytes, as the reader does
      let secs := st.buf.secs.filter (fun s => s.chunk = c)
      let dec := secs.map (fun s => decodeBytes s.bytes s.value)
      if dec.all Option.isSome then
        (st, trimR ("ops " ++ String.intercalate " | " (dec.map (fun d => showOps (d.getD [])))))
      else (st, "panic")
    | none => (st, "bad-op")
  | ["writeto"] => (st, "wire " ++ hexOf (encBuf st.buf))
  | ["readfrom", hex] =>
    match unhex hex with
    | none => (st, "bad-op")
    | some bs =>
      match readRawBuf ⟨bs, false⟩ with
      | .ok (r, rest) => (st, showReadBuf r rest.bytes.length)
      | .error .eof => (st, "err eof")
      | .error .bad => (st, "err bad")
  | ["loadfrom", hex] =>
    -- `Buffer.ReadFrom` into a fresh buffer which then becomes the current one (writes continue on it)
    match unhex hex with
    | none => (st, "bad-op")
    | some bs =>
      match readRawBuf ⟨bs, false⟩ with
      | .ok (r, _) =>
        match r.toBuf with
        | some b => ({ st with buf := b }, "ok")
        | none => (st, "panic")
      | .error .eof => (st, "err eof")
      | .error .bad => (st, "err bad")
  | ["commit-writeto", c, id] =>
    match c.toNat?, id.toNat? with
    | some c, some id => (st, "wire " ++ hexOf (encCommit ⟨id, c, [st.buf]⟩))
    | _, _ => (st, "bad-op")
  | ["commit-readfrom", hex] =>
    match unhex hex with
    | none => (st, "bad-op")
    | some bs =>
      match readCommit ⟨bs, false⟩ with
      | .ok (c, rest) =>
        let ups := c.updates.map showCommitBuf
        if ups.contains "panic" then (st, "panic") else
        (st, s!"commit id={c.id} chunk={c.chunk} " ++
          String.intercalate " ; " ups ++ s!" rest={rest.bytes.length}")
      | .error .eof => (st, "err eof")
      | .error .bad => (st, "err bad")
  | ["clone-range", c] =>
    match c.toNat? with
    | some c =>
      -- `Commit.Clone` keeps the ID and drops empty buffers; the clone reads like the original
      if st.buf.isEmpty then (st, "clone id=7 none")
      else
        let secs := st.buf.secs.filter (fun s => s.chunk = c)
        (st, trimR ("clone id=7 ops " ++ String.intercalate " | " (secs.map (fun s => showOps s.ops))))
    | none => (st, "bad-op")
  | _ => (st, "bad-op")

end Driver.CodecMode
