import ColumnVerif.Model.Filter
import ColumnVerif.Model.Snapshot
import ColumnVerif.Model.StateWire
import Driver.Util
/-! `store` mode: collections, transactions, filters, snapshots and replicas driven by script lines.
    Everything here is parsing and printing; all behaviour is `ColumnVerif.Model.*`. -/
namespace Driver.StoreMode
open ColumnVerif ColumnVerif.Codec ColumnVerif.Bits ColumnVerif.Store Driver

/-! ### numeric helpers (merge functions, predicates, aggregates are *parameters* of the model) -/

def pow2 (n : Nat) : Nat := 2 ^ n

def toSigned (w : Nat) (v : Nat) : Int :=
  if v ≥ pow2 (8 * w - 1) then (v : Int) - (pow2 (8 * w) : Int) else (v : Int)

def ofSigned (w : Nat) (v : Int) : Nat := (v % (pow2 (8 * w) : Int)).toNat

def f64OfBytes (bs : Bytes) : Float := Float.ofBits (UInt64.ofNat (beNat bs))
def f32OfBytes (bs : Bytes) : Float32 := Float32.ofBits (UInt32.ofNat (beNat bs))
def bytesOfF64 (f : Float) : Bytes := natToBE 8 f.toBits.toNat
def bytesOfF32 (f : Float32) : Bytes := natToBE 4 f.toBits.toNat

/-- x86 SSE: an arithmetic result that is NaN because an operand is NaN is that operand, quieted
    (Lean's `toBits` canonicalises NaNs, so the payload is carried here by hand) -/
def quietNaN (w : Nat) (bs : Bytes) : Bytes :=
  if w = 8 then natToBE 8 (beNat bs ||| 0x0008000000000000) else natToBE 4 (beNat bs ||| 0x00400000)

/-- named merge functions for numeric columns -/
def numMerge (k : NumKind) (name : String) : Bytes → Bytes → Bytes := fun v d =>
  let w := k.width
  match k with
  | .f64 =>
    let a := f64OfBytes v; let b := f64OfBytes d
    match name with
    | "delta" => d
    | "dbl" => if a.isNaN then quietNaN 8 v else if b.isNaN then quietNaN 8 d else bytesOfF64 ((a + a) + b)
    | _ => if a.isNaN then quietNaN 8 v else if b.isNaN then quietNaN 8 d else bytesOfF64 (a + b)
  | .f32 =>
    let a := f32OfBytes v; let b := f32OfBytes d
    match name with
    | "delta" => d
    | "dbl" => if a.isNaN then quietNaN 4 v else if b.isNaN then quietNaN 4 d else bytesOfF32 ((a + a) + b)
    | _ => if a.isNaN then quietNaN 4 v else if b.isNaN then quietNaN 4 d else bytesOfF32 (a + b)
  | _ =>
    let a := beNat v; let b := beNat d
    match name with
    | "dbl" => natToBE w ((2 * a + b) % pow2 (8 * w))
    | "delta" => d
    | _ => natToBE w ((a + b) % pow2 (8 * w))

def isBadRec (b : Bytes) : Bool := match b with | 255 :: _ => true | _ => false

def strMerge (name : String) : Bytes → Bytes → Bytes := fun v d =>
  match name with
  | "concat" => v ++ d
  | "keep" => v
  | "tail" => if d.length > 2 then d.drop (d.length - 2) else v ++ d
  | "rec-concat" => if isBadRec v || isBadRec d then v else v ++ d   -- record column, harness type
  | "rec-default" => if isBadRec v || isBadRec d then v else d
  | _ => d

structure NumPred where
  op : String
  k : Int

def parsePred (s : String) : Option NumPred :=
  if s = "odd" then some ⟨"odd", 0⟩
  else if s.startsWith "gt" then (s.drop 2).toString.toInt?.map (⟨"gt", ·⟩)
  else if s.startsWith "lt" then (s.drop 2).toString.toInt?.map (⟨"lt", ·⟩)
  else if s.startsWith "eq" then (s.drop 2).toString.toInt?.map (⟨"eq", ·⟩)
  else none

def evalIntPred (p : NumPred) (v : Int) : Bool :=
  match p.op with
  | "gt" => v > p.k
  | "lt" => v < p.k
  | "eq" => v = p.k
  | "odd" => v % 2 ≠ 0
  | _ => false

def evalFloatPred (p : NumPred) (v : Float) : Bool :=
  match p.op with
  | "gt" => v > Float.ofInt p.k
  | "lt" => v < Float.ofInt p.k
  | "eq" => v == Float.ofInt p.k
  | _ => false

/-- Go's `int64(T(v))`, `uint64(T(v))`, `float64(T(v))` for the stored bit pattern -/
def asInt64 (k : NumKind) (bs : Bytes) : Int :=
  let v := beNat bs
  if k.isSigned then toSigned k.width v
  else if k.isFloat then
    -- amd64 `cvttsd2si`: truncation; NaN / out of range give the "integer indefinite" value
    let f := match k with | .f32 => (f32OfBytes bs).toFloat | _ => f64OfBytes bs
    if f.isNaN || f >= 9223372036854775808.0 || f < -9223372036854775808.0 then -9223372036854775808
    else f.toInt64.toInt
  else toSigned 8 (v % pow2 64)

def asUint64 (k : NumKind) (bs : Bytes) : Nat :=
  let v := beNat bs
  if k.isSigned then ofSigned 8 (toSigned k.width v)
  else if k.isFloat then 0
  else v

def asFloat64 (k : NumKind) (bs : Bytes) : Float :=
  match k with
  | .f64 => f64OfBytes bs
  | .f32 => (f32OfBytes bs).toFloat
  | _ => if k.isSigned then Float.ofInt (toSigned k.width (beNat bs)) else Float.ofNat (beNat bs)

/-- what `commit.Reader.Int()/Uint()/Float()` give for a value of 2/4/8 bytes -/
def readerInt (bs : Bytes) : Int :=
  if bs.length = 2 then toSigned 2 (beNat bs)
  else if bs.length = 4 then toSigned 4 (beNat bs)
  else toSigned 8 (beNat bs)

def readerFloat (bs : Bytes) : Float :=
  if bs.length = 4 then (f32OfBytes bs).toFloat else f64OfBytes bs

def isPrefix : Bytes → Bytes → Bool
  | [], _ => true
  | _ :: _, [] => false
  | a :: as, b :: bs => a == b && isPrefix as bs

/-- index rules (functions of what the reader shows for the op) -/
def parseRule (toks : List String) : Option RuleFn :=
  match toks with
  | ["int", p] => (parsePred p).map (fun p => fun o => evalIntPred p (readerInt (valRaw o.val)))
  | ["uint", p] => (parsePred p).map (fun p => fun o => evalIntPred p (beNat (valRaw o.val) : Int))
  | ["float", p] => (parsePred p).map (fun p => fun o => evalFloatPred p (readerFloat (valRaw o.val)))
  | ["streq", h] => (unhex h).map (fun b => fun o => valRaw o.val = b)
  | ["strpfx", h] => (unhex h).map (fun b => fun o => isPrefix b (valRaw o.val))
  | ["bool"] => some (fun o => o.typ = opPut)
  | ["always"] => some (fun _ => true)
  | ["never"] => some (fun _ => false)
  | _ => none

def parseNumKind : String → Option NumKind
  | "int16" => some .i16 | "int32" => some .i32 | "int64" => some .i64 | "int" => some .i64
  | "uint16" => some .u16 | "uint32" => some .u32 | "uint64" => some .u64 | "uint" => some .u64
  | "float32" => some .f32 | "float64" => some .f64
  | _ => none

/-! ### state of the driver -/

structure Coll where
  store : Store := {}
  txns : List (String × Txn) := []
  replayed : List (String × Nat) := []        -- per source collection: commits already replayed
  trigSeen : List (String × Nat) := []        -- per trigger: events already printed

structure St where
  colls : List (String × Coll) := []
  snaps : List (String × Snap × LoggerKind) := []
  hashTab : Std.HashMap Bytes Nat := {}
  dead : Bool := false

def St.coll (st : St) (cid : String) : Option Coll := (st.colls.find? (·.1 == cid)).map (·.2)

def St.setColl (st : St) (cid : String) (c : Coll) : St :=
  if st.colls.any (·.1 == cid) then { st with colls := st.colls.map (fun p => if p.1 == cid then (cid, c) else p) }
  else { st with colls := st.colls ++ [(cid, c)] }

def Coll.txn (c : Coll) (tid : String) : Option Txn := (c.txns.find? (·.1 == tid)).map (·.2)

def Coll.setTxn (c : Coll) (tid : String) (t : Txn) : Coll :=
  if c.txns.any (·.1 == tid) then { c with txns := c.txns.map (fun p => if p.1 == tid then (tid, t) else p) }
  else { c with txns := c.txns ++ [(tid, t)] }

def Coll.dropTxn (c : Coll) (tid : String) : Coll := { c with txns := c.txns.filter (·.1 != tid) }

/-! ### printing -/

def fnv64 (s : String) : UInt64 :=
  s.toUTF8.foldl (fun (h : UInt64) b => (h ^^^ b.toUInt64) * 1099511628211) 14695981039346656037

def compact (label body : String) : String :=
  if body.length > 1500 then s!"{label}=H{body.length}:{fnv64 body}" else s!"{label}={body}"

def sortStrings (xs : List String) : List String := (xs.toArray.qsort (· < ·)).toList

/-- dense ranks of the non-zero ids -/
def ranks (ids : List Nat) : List Nat :=
  let sorted := ((ids.filter (· ≠ 0)).toArray.qsort (· < ·)).toList.eraseDups
  ids.map (fun i => if i = 0 then 0 else (sorted.idxOf i) + 1)

def showOptHex : Option Bytes → String
  | some b => hexOf b
  | none => "~"

def dataCols (s : Store) : List Col :=
  let cs := s.cols.toList.filter (fun c => c.kind.isData || (match c.kind with | .bool => true | _ => false))
  (cs.toArray.qsort (fun a b => a.name < b.name)).toList

/-- what the typed readers of the harness show: a record that does not decode reads as absent -/
def readShown (c : Col) (i : Nat) : Option Bytes :=
  match c.kind, c.read i with
  | .record, some v => if isBadRec v then none else some v
  | _, r => r

def showRow (s : Store) (i : Nat) : String :=
  let parts := (dataCols s).filterMap (fun c =>
    match readShown c i with
    | some v => some s!"{c.name}={hexOf v}"
    | none => none)
  s!"{i}\{{String.intercalate "," parts}}"

def dump (s : Store) : String :=
  let live := Bits.toIdxList s.fill
  let rows := String.intercalate " " (live.map (showRow s))
  let idxs := (s.cols.toList.filter (fun c => c.kind.isIndex)).map (fun c =>
    compact s!"idx:{c.name}" (joinSp ((Bits.toIdxList c.bits).map toString)))
  let keys := match s.pk.bind s.findCol with
    | some kc => [compact "keys" (joinSp (sortStrings (kc.seek.toList.map (fun p => s!"{hexOf p.1}:{p.2}"))))]
    | none => []
  let sorted := (s.cols.toList.filter (fun c => match c.kind with | .sorted _ => true | _ => false)).map (fun c =>
    compact s!"sorted:{c.name}" (joinSp (c.entries.map (fun e => s!"{hexOf e.1}:{e.2}"))))
  let idxsS := sortStrings idxs
  let sortedS := sortStrings sorted
  joinSp ([s!"count={s.count}", s!"fillwords={Bits.words s.fill}", s!"live={live.length}",
    compact "rows" rows] ++ idxsS ++ keys ++ sortedS ++
    [s!"commits={String.intercalate "," ((ranks s.commits.toList).map toString)}"])

/-! ### row actions -/

def kindOf (s : Store) (col : String) : Option Kind := (s.findCol col).map (·.kind)

/-- the op a typed setter writes for a column of this kind -/
def mkVal (k : Kind) (bs : Bytes) : Option Val :=
  match k with
  | .num nk => if bs.length = nk.width then some (.fixed nk.code bs) else none
  | .str | .enum | .key | .record => if bs.length < 65536 then some (.str bs) else none
  | _ => none

/-- run the actions of one row callback at `cursor`; returns outputs of the reads -/
def runActions (s : Store) (t : Txn) (acts : List String) : Option (Txn × List String) :=
  acts.foldlM (fun (acc : Txn × List String) a =>
    let (t, outs) := acc
    match a.splitOn ":" with
    | ["set", col, h] =>
      match kindOf s col, unhex h with
      | some k, some bs => (mkVal k bs).map (fun v => (t.putOp col ⟨opPut, t.cursor, v⟩, outs))
      | _, _ => none
    | ["merge", col, h] =>
      match kindOf s col, unhex h with
      | some k, some bs => (mkVal k bs).map (fun v => (t.putOp col ⟨opMerge, t.cursor, v⟩, outs))
      | _, _ => none
    | ["bool", col, b] =>
      match kindOf s col with
      | some .bool => some (t.putOp col ⟨if b = "1" then opPut else opDelete, t.cursor, .fixed 0 []⟩, outs)
      | _ => none
    | ["key", h] =>
      match s.pk, unhex h with
      | some _, some bs =>
        let (t', ok) := t.setKey s bs
        some (t', outs ++ [if ok then "set" else "dup"])
      | _, _ => none
    | ["rowkey", h] =>
      -- `Row.SetKey`: `txn.Key().Set` with the error dropped
      match s.pk, unhex h with
      | some _, some bs => some ((t.setKey s bs).1, outs)
      | _, _ => none
    | ["visit", n] =>
      -- nested `QueryAt(n, …)` inside the callback: only the cursor moves
      n.toNat?.map (fun i => ({ t with cursor := i }, outs))
    | ["get", col] =>
      match s.findCol col with
      | some c =>
        match c.kind with
        | .bool | .index .. => some (t, outs ++ [s!"{col}={if (c.read t.cursor).isSome then "1" else "0"}"])
        | _ => some (t, outs ++ [s!"{col}={showOptHex (readShown c t.cursor)}"])
      | none => none
    | _ => none) (t, [])

def showOuts (outs : List String) : String := if outs.isEmpty then "ok" else joinSp outs

/-! ### filters -/

def numPredOn (conv : String) (k : Kind) (p : NumPred) : Bytes → Bool := fun bs =>
  match k with
  | .num nk =>
    match conv with
    | "int" => evalIntPred p (asInt64 nk bs)
    | "uint" => evalIntPred p (asUint64 nk bs : Int)
    | _ => evalFloatPred p (asFloat64 nk bs)
  | _ => false

def strPred (p : String) : Option (Bytes → Bool) :=
  if p.startsWith "eq" then (unhex (p.drop 2).toString).map (fun b => fun v => v = b)
  else if p.startsWith "pfx" then (unhex (p.drop 3).toString).map (fun b => fun v => isPrefix b v)
  else if p.startsWith "len" then (p.drop 3).toString.toNat?.map (fun k => fun v => v.length > k)
  else none

/-- one `select` word → one link of the chain -/
def parseFilter (s : Store) (f : String) : Option FilterOp :=
  match f.splitOn ":" with
  | ["with", ns] => some (.with_ (ns.splitOn ","))
  | ["without", ns] => some (.without (ns.splitOn ","))
  | ["union", ns] => some (.union (ns.splitOn ","))
  | ["withunion", ns] => some (.withUnion (ns.splitOn ","))
  | ["with"] => some (.with_ [])
  | ["union"] => some (.union [])
  | ["withunion"] => some (.withUnion [])
  | [conv, col, p] =>
    if conv = "int" ∨ conv = "uint" ∨ conv = "float" then
      (parsePred p).map (fun np =>
        let k := (kindOf s col).getD .bool
        .withNum col (numPredOn conv k np))
    else if conv = "str" then (strPred p).map (fun sp => .withString col sp)
    else if conv = "val" then
      -- WithValue with a predicate on the dynamic value, expressed on its stored bytes
      (strPred p).map (fun sp => .withValue col sp)
    else none
  | _ => none

def showFloatBits (f : Float) : String := if f.isNaN then "nan" else hexOf (bytesOfF64 f)

def floatSafe (f : Float) : Bool :=
  !f.isNaN && f.floor == f && f.abs < 1024 && !(f == 0 && f.toBits != 0)

def aggregate (k : NumKind) (what : String) (vals : List Bytes) : String :=
  let w := k.width
  let unsafeFloat := match k with
    | .f64 => !(vals.all (fun v => floatSafe (f64OfBytes v))) || vals.length > 8192
    | .f32 => !(vals.all (fun v => floatSafe (f32OfBytes v).toFloat)) || vals.length > 8192
    | _ => false
  if unsafeFloat then "inexact" else
  match what with
  | "sum" =>
    (match k with
     | .f64 => hexOf (bytesOfF64 (vals.foldl (fun a v => a + f64OfBytes v) 0))
     | .f32 => hexOf (bytesOfF32 (vals.foldl (fun a v => a + f32OfBytes v) 0))
     | _ => hexOf (natToBE w (vals.foldl (fun a v => (a + beNat v) % pow2 (8 * w)) 0)))
  | "avg" =>
    let n := Float.ofNat vals.length
    (match k with
     | .f64 => showFloatBits (vals.foldl (fun a v => a + f64OfBytes v) 0 / n)
     | .f32 => showFloatBits ((vals.foldl (fun a v => a + f32OfBytes v) 0).toFloat / n)
     | _ =>
       let sum := vals.foldl (fun a v => (a + beNat v) % pow2 (8 * w)) 0
       let f := if k.isSigned then Float.ofInt (toSigned w sum) else Float.ofNat sum
       showFloatBits (f / n))
  | _ =>
    -- min / max
    let better : Bytes → Bytes → Bool := fun a b =>
      let lt : Bool := match k with
        | .f64 => decide (f64OfBytes a < f64OfBytes b)
        | .f32 => decide (f32OfBytes a < f32OfBytes b)
        | _ => if k.isSigned then decide (toSigned w (beNat a) < toSigned w (beNat b)) else decide (beNat a < beNat b)
      let gt : Bool := match k with
        | .f64 => decide (f64OfBytes a > f64OfBytes b)
        | .f32 => decide (f32OfBytes a > f32OfBytes b)
        | _ => if k.isSigned then decide (toSigned w (beNat a) > toSigned w (beNat b)) else decide (beNat a > beNat b)
      if what = "min" then lt else gt
    match vals with
    | [] => "none"
    | v :: rest => hexOf (rest.foldl (fun m x => if better x m then x else m) v)

/-! ### the step function -/

def parseKV (toks : List String) (key : String) : Option String :=
  (toks.find? (fun t => t.startsWith (key ++ "="))).map (fun t => (t.drop (key.length + 1)).toString)

def loggerOf : String → LoggerKind
  | "channel" => .channel
  | "log" => .log
  | _ => .none

def splitActions (toks : List String) : List String × Bool :=
  (toks.filter (· ≠ "fail"), toks.contains "fail")

def trigDelta (c : Coll) : Coll × String :=
  let trigs := c.store.cols.toList.filter (fun col => match col.kind with | .trigger _ => true | _ => false)
  let (seen, outs) := trigs.foldl (fun (acc : List (String × Nat) × List String) col =>
    let old := ((c.trigSeen.find? (·.1 == col.name)).map (·.2)).getD 0
    let evs := col.trig.reverse.drop old
    let txt := evs.map (fun e => s!"{e.idx}:{e.typ}:{hexOf e.val}")
    ((col.name, col.trig.length) :: acc.1, if txt.isEmpty then acc.2 else acc.2 ++ [s!"{col.name}[{String.intercalate "," txt}]"])) ([], [])
  ({ c with trigSeen := seen }, if outs.isEmpty then "" else " trig=" ++ joinSp outs)

def stepColl (st : St) (cid : String) (c : Coll) (toks : List String) : St × String :=
  let fin := fun (c : Coll) (out : String) =>
    if c.store.panicked then ({ (st.setColl cid c) with dead := true }, "panic") else (st.setColl cid c, out)
  let s := c.store
  match toks with
  | ["col", name, kind] | ["col", name, kind, _] =>
    let mergeName := (parseKV toks "merge").getD "default"
    let k? : Option (Kind × (Bytes → Bytes → Bytes)) :=
      match parseNumKind kind with
      | some nk => some (.num nk, numMerge nk mergeName)
      | none =>
        match kind with
        | "bool" => some (.bool, fun _ d => d)
        | "string" => some (.str, strMerge mergeName)
        | "enum" => some (.enum, fun _ d => d)
        | "key" => some (.key, fun _ d => d)
        | "record" => some (.record, strMerge ("rec-" ++ mergeName))
        | _ => none
    match k? with
    | some (k, m) =>
      let (s', ok) := s.createColumn name k m
      fin { c with store := s' } (if ok then "ok" else "err")
    | none => (st, "bad-op")
  | "index" :: name :: target :: rule =>
    match parseRule rule with
    | some r =>
      let (s', ok) := s.createComputed name target (.index target r)
      fin { c with store := s' } (if ok then "ok" else "err")
    | none => (st, "bad-op")
  | ["sortindex", name, target] =>
    let (s', ok) := s.createComputed name target (.sorted target)
    fin { c with store := s' } (if ok then "ok" else "err")
  | ["trigger", name, target] =>
    let (s', ok) := s.createComputed name target (.trigger target)
    fin { c with store := s' } (if ok then "ok" else "err")
  | ["dropcol", name] => fin { c with store := s.dropColumn name } "ok"
  | ["dropindex", name] | ["droptrigger", name] =>
    let (s', ok) := s.dropComputed name
    fin { c with store := s' } (if ok then "ok" else "err")
  | ["begin", tid] => (st.setColl cid (c.setTxn tid {}), "ok")
  | ["commit", tid] =>
    match c.txn tid with
    | none => (st, "bad-op")
    | some t =>
      let before := s.emitted.length
      let s' := s.commit t
      let newE := (s'.emitted.take (s'.emitted.length - before)).reverse
      let c' := { (c.dropTxn tid) with store := s' }
      let (c', tr) := trigDelta c'
      fin c' (s!"committed emitted={newE.length} chunks={String.intercalate "," (newE.map (fun e => toString e.chunk))}" ++ tr)
  | ["rollback", tid] =>
    match c.txn tid with
    | none => (st, "bad-op")
    | some t =>
      let c' := { (c.dropTxn tid) with store := s.rollback t }
      let (c', tr) := trigDelta c'
      fin c' ("rolledback" ++ tr)
  | "sparse" :: offs =>
    -- sparse population through `Replay` (public API): one crafted commit of insert markers per chunk
    match offs.mapM String.toNat? with
    | none => (st, "bad-op")
    | some os =>
      let chunks := (os.map (· / 16384)).foldl (fun acc x => insertDedup x acc) []
      let s' := chunks.foldl (fun (s : Store) ch =>
        let buf := (Buf.empty rowColumn).putAll ((os.filter (fun o => o / 16384 = ch)).map (fun o => (⟨opInsert, o, .fixed 0 []⟩ : Op)))
        s.replay ch [buf]) s
      let c' := { c with store := s' }
      let (c', tr) := trigDelta c'
      fin c' ("ok" ++ tr)
  | ["statehash"] =>
    -- the bytes `writeState` hands to the compressor, with every chunk's last commit id replaced by its rank
    let (snap, p) := s.snapshot
    if p then ({ st with dead := true }, "panic") else
    let rk := ranks s.commits.toList
    let snap' : Snap := { snap with chunks := snap.chunks.zipIdx.map (fun (c, i) => { c with lastCommit := rk.getD i 0 }) }
    let bs := ColumnVerif.Wire.encState snap'
    let h := bs.foldl (fun (h : UInt64) b => (h ^^^ b.toUInt64) * 1099511628211) 14695981039346656037
    (st, s!"state len={bs.length} fnv={h}")
  | ["dump"] => (st, dump s)
  | ["count"] => (st, s!"count={s.count}")
  | ["snapshot", sid] =>
    let (snap, p) := s.snapshot
    if p then ({ st with dead := true }, "panic")
    else ({ st with snaps := (st.snaps.filter (·.1 != sid)) ++ [(sid, snap, s.logger)] }, "ok")
  | ["snapshot", sid, "with", tid] =>
    -- the open transaction `tid` commits while the snapshot is in progress, after the chunk states were written:
    -- it is recorded (the recorder is a commit log file: `.log` delivery) and ends up in the tail of the file
    match c.txn tid with
    | none => (st, "bad-op")
    | some t =>
      let (snap, p) := s.snapshot
      if p then ({ st with dead := true }, "panic") else
      let before := s.emitted.length
      let s1 := (({ s with recording := true, recorded := [] } : Store)).commit t
      let tail := s1.recorded.reverse
      let s2 : Store := { s1 with recording := false, recorded := [] }
      let newE := (s2.emitted.take (s2.emitted.length - before)).reverse
      let c' := { (c.dropTxn tid) with store := s2 }
      let (c', tr) := trigDelta c'
      let snapT : Snap := { snap with tail := tail }
      let st' : St := { st with snaps := (st.snaps.filter (fun x => x.1 != sid)) ++ [(sid, snapT, s.logger)] }
      let out := s!"ok committed emitted={newE.length} chunks={String.intercalate "," (newE.map (fun e => toString e.chunk))}" ++ tr
      if c'.store.panicked then ({ (st'.setColl cid c') with dead := true }, "panic") else (st'.setColl cid c', out)
  | ["restore", sid] =>
    match st.snaps.find? (·.1 == sid) with
    | some (_, snap, _) =>
      -- logged commits of the file are always in the commit-log-file form
      let s' := s.restore snap .log
      let c' := { c with store := s' }
      let (c', tr) := trigDelta c'
      fin c' ("ok" ++ tr)
    | none => (st, "bad-op")
  | ["replay", src] =>
    match st.coll src with
    | none => (st, "bad-op")
    | some sc =>
      let done := ((c.replayed.find? (·.1 == src)).map (·.2)).getD 0
      let all := sc.store.emitted.reverse
      let todo := all.drop done
      let s' := todo.foldl (fun (s : Store) e => s.replay e.chunk (e.received sc.store.logger)) s
      let c' := { c with store := s', replayed := (c.replayed.filter (·.1 != src)) ++ [(src, all.length)] }
      let (c', tr) := trigDelta c'
      fin c' (s!"replayed={todo.length}" ++ tr)
  | tid :: cmd :: rest =>
    match c.txn tid with
    | none => (st, "bad-op")
    | some t =>
      match cmd with
      | "insert" =>
        let (acts, fail) := splitActions rest
        if s.pk.isSome then (st, "err:unkeyed") else
        -- validate first: a malformed line changes nothing
        match runActions s t acts with
        | none => (st, "bad-op")
        | some _ =>
          let body := fun (s1 : Store) (t1 : Txn) => ((runActions s1 t1 acts).map (·.1)).getD t1
          let (s2, t2, idx) := t.insert s body fail
          let outs := ((runActions s { t with cursor := idx } acts).map (·.2)).getD []
          if fail then fin { (c.setTxn tid t2) with store := s2 } (s!"off={idx} err")
          else fin { (c.setTxn tid t2) with store := s2 } (s!"off={idx}" ++ (if outs.isEmpty then "" else " " ++ joinSp outs))
      | "at" =>
        match rest with
        | off :: acts0 =>
          let (acts, fail) := splitActions acts0
          match off.toNat? with
          | none => (st, "bad-op")
          | some i =>
            match runActions s { t with cursor := i } acts with
            | none => (st, "bad-op")
            | some (t2, outs) => (st.setColl cid (c.setTxn tid t2), showOuts outs ++ (if fail then " err" else ""))
        | [] => (st, "bad-op")
      | "del" =>
        match rest with
        | [off] =>
          match off.toNat? with
          | some i =>
            let (t2, ok) := t.deleteAt s i
            (st.setColl cid (c.setTxn tid t2), if ok then "true" else "false")
          | none => (st, "bad-op")
        | _ => (st, "bad-op")
      | "inskey" | "upskey" | "qkey" =>
        match rest with
        | kh :: acts0 =>
          let (acts, fail) := splitActions acts0
          match unhex kh, runActions s t acts with
          | some key, some _ =>
            let body := fun (s1 : Store) (t1 : Txn) => ((runActions s1 t1 acts).map (·.1)).getD t1
            let (s2, t2, res) := t.keyOp s cmd key body fail
            match res with
            | .noKey => (st, "err:nokey")
            | .notFound => (st, "err:notfound")
            | .existsAt i =>
              if cmd = "inskey" then (st, "err:exists")
              else
                let outs := ((runActions s { t with cursor := i } acts).map (·.2)).getD []
                (st.setColl cid (c.setTxn tid t2), s!"at={i} " ++ showOuts outs ++ (if fail then " err" else ""))
            | .inserted idx =>
              fin { (c.setTxn tid t2) with store := s2 } (s!"off={idx}" ++ (if fail then " err" else ""))
          | _, _ => (st, "bad-op")
        | [] => (st, "bad-op")
      | "delkey" =>
        match rest with
        | [kh] =>
          match unhex kh with
          | some key =>
            let (t2, res) := t.deleteKey s key
            match res with
            | .existsAt _ => (st.setColl cid (c.setTxn tid t2), "ok")
            | .noKey => (st, "err:nokey")
            | _ => (st, "err:notfound")
          | none => (st, "bad-op")
        | _ => (st, "bad-op")
      | "select" =>
        let filters := rest.takeWhile (· ≠ "=>")
        let action := (((rest.dropWhile (· ≠ "=>")).drop 1).map (fun a => a.splitOn ":")).flatten
        match (filters.mapM (parseFilter s)).map (fun ops => t.chain s ops) with
        | none => (st, "bad-op")
        | some t1 =>
          match action with
          | ["count"] =>
            let (t2, n) := t1.count s
            (st.setColl cid (c.setTxn tid t2), s!"count={n}")
          | ["range"] =>
            let (t2, l) := t1.rangeList s
            let t2 := match l.getLast? with | some i => { t2 with cursor := i } | none => t2
            (st.setColl cid (c.setTxn tid t2), compact "rows" (joinSp (l.map toString)))
          | ["read", col] =>
            let (t2, l) := t1.rangeList s
            let t2 := match l.getLast? with | some i => { t2 with cursor := i } | none => t2
            match s.findCol col with
            | some cc => (st.setColl cid (c.setTxn tid t2), compact "vals" (joinSp (l.map (fun i => s!"{i}:{showOptHex (readShown cc i)}"))))
            | none => (st, "bad-op")
          | ["deleteall"] =>
            let (t2, l) := t1.rangeList s
            let t3 := l.foldl (fun t i => t.putOp rowColumn ⟨opDelete, i, .fixed 0 []⟩) t2
            (st.setColl cid (c.setTxn tid t3), s!"deleted={l.length}")
          | ["ascend", name] =>
            match t1.ascend s name with
            | (t2, some l) =>
              let t2 := match l.getLast? with | some i => { t2 with cursor := i } | none => t2
              (st.setColl cid (c.setTxn tid t2), compact "rows" (joinSp (l.map toString)))
            | (t2, none) => (st.setColl cid (c.setTxn tid t2), "err:nosort")
          | [what, col] =>
            if what = "sum" ∨ what = "avg" ∨ what = "min" ∨ what = "max" then
              match kindOf s col with
              | some (.num nk) =>
                let (t2, vals) := t1.aggValues s col
                (st.setColl cid (c.setTxn tid t2), s!"{what}={aggregate nk what vals}")
              | _ => (st, "bad-op")
            else (st, "bad-op")
          | _ => (st, "bad-op")
      | _ => (st, "bad-op")
  | _ => (st, "bad-op")

def step (st : St) (line : String) : St × String :=
  match words line with
  | ["reset"] => ({}, "ok")
  | _ =>
  if st.dead then (st, "dead") else
  match words line with
  | ["hash", h, n] =>
    match unhex h, n.toNat? with
    | some b, some k => ({ st with hashTab := st.hashTab.insert b k }, "ok")
    | _, _ => (st, "bad-op")
  | "new" :: cid :: opts =>
    let cap := ((parseKV opts "cap").bind String.toNat?).getD 0
    let lg := loggerOf ((parseKV opts "logger").getD "none")
    let tab := st.hashTab
    let store := Store.new cap lg (fun b => (tab.get? b).getD 0)
    (st.setColl cid { store := store }, "ok")
  | cid :: rest =>
    match st.coll cid with
    | some c => stepColl st cid c rest
    | none => (st, "bad-op")
  | [] => (st, "bad-op")

end Driver.StoreMode
