import Driver.CodecMode
import Driver.StoreMode
/-! Line-protocol driver: `driver <mode>` reads operation lines on stdin, prints one line per op. -/
open Driver

partial def loopCodec (h : IO.FS.Stream) (out : IO.FS.Stream) (st : CodecMode.St) : IO Unit := do
  let line ← h.getLine
  if line.isEmpty then return ()
  let l := line.trimAscii.toString
  if l.isEmpty || l.startsWith "#" then
    loopCodec h out st
  else
    let (st', o) := CodecMode.step st l
    out.putStrLn o
    loopCodec h out st'

partial def loopStore (h : IO.FS.Stream) (out : IO.FS.Stream) (st : StoreMode.St) : IO Unit := do
  let line ← h.getLine
  if line.isEmpty then return ()
  let l := line.trimAscii.toString
  if l.isEmpty || l.startsWith "#" then
    loopStore h out st
  else
    let (st', o) := StoreMode.step st l
    out.putStrLn o
    loopStore h out st'

def main (args : List String) : IO UInt32 := do
  let stdin ← IO.getStdin
  let stdout ← IO.getStdout
  match args with
  | ["codec"] => loopCodec stdin stdout {}; return 0
  | ["store"] => loopStore stdin stdout {}; return 0
  | _ => IO.eprintln "usage: driver codec|store|…"; return 2
