import ColumnVerif.Model.Codec
/-! Parsing / printing helpers of the line-protocol driver (not part of the model). -/
namespace Driver
open ColumnVerif.Codec

def hexDigit (n : Nat) : Char :=
  if n < 10 then Char.ofNat (48 + n) else Char.ofNat (87 + n)

def hexOf (bs : List UInt8) : String :=
  if bs.isEmpty then "-" else
  String.ofList (bs.foldr (fun b acc => hexDigit (b.toNat / 16) :: hexDigit (b.toNat % 16) :: acc) [])

def hexVal (c : Char) : Option Nat :=
  if '0' ≤ c ∧ c ≤ '9' then some (c.toNat - 48)
  else if 'a' ≤ c ∧ c ≤ 'f' then some (c.toNat - 87)
  else if 'A' ≤ c ∧ c ≤ 'F' then some (c.toNat - 55)
  else none

partial def unhexAux : List Char → List UInt8 → Option (List UInt8)
  | [], acc => some acc.reverse
  | [_], _ => none
  | a :: b :: rest, acc =>
    match hexVal a, hexVal b with
    | some x, some y => unhexAux rest (UInt8.ofNat (x * 16 + y) :: acc)
    | _, _ => none

def unhex (s : String) : Option (List UInt8) :=
  if s = "-" then some [] else unhexAux s.toList []

def words (line : String) : List String :=
  (line.splitOn " ").filter (fun w => w ≠ "")

def joinSp (xs : List String) : String := String.intercalate " " xs

end Driver
