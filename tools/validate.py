#!/usr/bin/env python3-vt
import json, sys, glob, jsonschema
jsonschema.validate(json.load(open('/verif/MANIFEST.json')), json.load(open('/root/.vp/MANIFEST.schema.json')))
print('manifest valid')
sch = json.load(open('/root/.vp/EVIDENCE.schema.json'))
for p in sorted(glob.glob('/verif/evidence/*.json')):
    jsonschema.validate(json.load(open(p)), sch)
    print('valid', p)
