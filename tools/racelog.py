#!/usr/bin/env python3
"""Reduces Go race-detector logs to unordered pairs of top frames inside /repo."""
import glob, os, re, sys
REPO = os.environ.get('VERIF_REPO', '/repo').rstrip('/') + '/'


def norm(fn):
    fn = re.sub(r'\[[^\]]*\]', '', fn)            # generic instantiation
    fn = fn.replace('github.com/kelindar/column/', '').replace('github.com/kelindar/column.', '')
    fn = re.sub(r'\.func\d+(\.\d+)*$', '', fn)     # closures
    return fn.strip('()')


def parse(path_glob):
    pairs = {}
    for p in sorted(glob.glob(path_glob)):
        text = open(p, errors='replace').read()
        for rep in text.split('WARNING: DATA RACE')[1:]:
            rep = rep.split('==================')[0]
            # access blocks: the two stacks before "Goroutine N (running) created at"
            blocks = re.split(r'\n\s*\n', rep)
            tops = []
            for b in blocks:
                if not re.match(r'\s*(Read|Write|Previous read|Previous write|Atomic|Previous atomic)', b.strip().split('\n')[0] if b.strip() else ''):
                    continue
                lines = b.strip().split('\n')[1:]
                top = None
                for i in range(0, len(lines) - 1, 2):
                    fn = lines[i].strip()
                    loc = lines[i + 1].strip()
                    if loc.startswith(REPO):
                        top = norm(fn.split('(')[0] if fn.endswith('()') else fn)
                        top = norm(fn[:-2] if fn.endswith('()') else fn)
                        break
                if top:
                    tops.append(top)
            if len(tops) >= 2:
                key = tuple(sorted(tops[:2]))
                pairs[key] = pairs.get(key, 0) + 1
    return pairs


if __name__ == '__main__':
    for k, v in sorted(parse(sys.argv[1]).items(), key=lambda x: -x[1]):
        print(v, ' <-> '.join(k))
