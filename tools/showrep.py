#!/usr/bin/env python3
import json, sys
r = json.load(open(sys.argv[1]))
print({k: v for k, v in r.items() if k not in ('samples', 'distribution', 'violations', 'rule')})
print('violations:', len(r['violations']))
full = len(sys.argv) > 2
for v in r['violations'][:int(sys.argv[2]) if full else 3]:
    print('==', v['kind'], v['clause'])
    n = len(v['script'])
    for i, l in enumerate(v['script']):
        g = v['go_out'][i] if i < len(v['go_out']) else None
        m = v['lean_out'][i] if v.get('lean_out') and i < len(v['lean_out']) else None
        if g == m and i < n - 12 and not full:
            continue
        print('  ', l[:200])
        if g != m:
            print('      impl :', (g or '')[:400])
            print('      model:', (m or '')[:400])
        else:
            print('      both :', (g or '')[:200])
