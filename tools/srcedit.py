#!/usr/bin/env python3
"""Byte-preserving source edit: srcedit.py FILE  (reads OLD/NEW from a JSON file or args).

Usage: srcedit.py <file> <old-text-file> <new-text-file>
The old/new texts are written with LF; if the target file uses CRLF they are converted.
Exactly one occurrence of OLD must exist.
"""
import sys


def edit(path, old, new):
    data = open(path, 'rb').read()
    crlf = b'\r\n' in data
    o = old.encode()
    n = new.encode()
    if crlf:
        o = o.replace(b'\r\n', b'\n').replace(b'\n', b'\r\n')
        n = n.replace(b'\r\n', b'\n').replace(b'\n', b'\r\n')
    cnt = data.count(o)
    if cnt != 1:
        raise SystemExit(f"{path}: expected exactly one occurrence, found {cnt}")
    open(path, 'wb').write(data.replace(o, n))


if __name__ == '__main__':
    path, oldf, newf = sys.argv[1:4]
    edit(path, open(oldf).read(), open(newf).read())
