"""Per-property configuration of ./check and of MANIFEST.json (tools/gen_manifest.py)."""

TB_COMMON = [
    "Lean 4.33.0 kernel (thorough tier: re-checked by leanchecker); axioms allowed: propext, Classical.choice, Quot.sound",
    "hand-written Lean model tied to /repo by the correspondence check (harness/, differential sampling against the compiled model driver)",
    "harness generators/canonicalisation and the driver's line parser",
]

PROPS = {
    'C05': {
        'title': 'Commit buffers, commits and logs round-trip every operation sequence',
        'modules': ['ColumnVerif.Props.C05'],
        'runs': [{'mode': 'codec'}],
        'trusted_base': TB_COMMON + [
            "modelled, not verified: Go slices/append, encoding/binary, the s2 compressor (log files are compared after decompression)",
        ],
        'assumptions': [
            "values are 0/2/4/8 bytes or strings of at most 65535 bytes (the format's 2-byte length); offsets < 2^32",
            "the flat byte layout of a buffer is the concatenation of its sections (checked byte-exactly by the codec correspondence)",
        ],
        'level_text': "Lean theorems over the byte-exact codec model: every well-formed op sequence of any length decodes to itself (Seek), every chunk of an interleaved buffer reads as that chunk's ops in write order (Range), sections decode from their header values; plus byte-exact differential against commit.Buffer/Reader/Commit on exhaustive short and random long sequences and an implementation-only decode∘encode oracle.",
        'technique': 'Lean 4 proof (induction over op lists) + byte-exact model/implementation correspondence',
        'design_ref': '§6 C05',
    },
}

ALL_IDS = ['C%02d' % i for i in range(1, 20)]
