"""Per-property configuration of ./check and of MANIFEST.json (tools/gen_manifest.py)."""

TB_COMMON = [
    "Lean 4.33.0 kernel (thorough tier: re-checked by leanchecker); axioms allowed: propext, Classical.choice, Quot.sound",
    "hand-written Lean model tied to /repo by the correspondence check (harness/, differential sampling against the compiled model driver)",
    "harness generators/canonicalisation and the driver's line parser",
]

PROPS = {
    'C05': {
        'title': 'Commit buffers, commits and logs round-trip every operation sequence',
        'modules': ['ColumnVerif.Props.C05', 'ColumnVerif.Props.C05swap', 'ColumnVerif.Props.C01widen'],
        'runs': [{'mode': 'codec'}],
        'trusted_base': TB_COMMON + [
            "modelled, not verified: Go slices/append, encoding/binary, the s2 compressor (log files are compared after decompression)",
        ],
        'assumptions': [
            "values are 0/2/4/8 bytes or strings of at most 65535 bytes (the format's 2-byte length); offsets < 2^32",
            "the flat byte layout of a buffer is the concatenation of its sections (checked byte-exactly by the codec correspondence)",
            "third sentence of the property (swap): proved with the hypothesis NoLater (no later op on the swapped offset in the chunk) for resizing swaps; without it the sentence is false of model and code alike — finding D12, counterexample theorem swapAt_resize_later_counterexample",
        ],
        'level_text': "Lean theorems over the byte-exact codec model: every well-formed op sequence of any length decodes to itself (Seek), every chunk of an interleaved buffer reads as that chunk's ops in write order (Range), sections decode from their header values; the wire round trips of buffers, commits and logs; and the reader-side swap (Reader.Swap* as Buf.swapAt, the function the driver's `swap` op runs): a same-shape swap rewrites exactly the k-th op of the chunk into a Put of the result, in place, every other chunk untouched; a resizing swap marks it Skip and appends the Put at the end of the chunk's ops, and later readers see, for every offset, the same visible sequence with that merge turned into a put — provided no later op on that offset exists (swapAt_resize_visible), with the kernel-checked counterexample when one does (finding D12); plus byte-exact differential against commit.Buffer/Reader/Commit on exhaustive short and random long sequences and an implementation-only decode∘encode oracle; the any-size accessors Reader.Int/Uint and Buffer.PutAny over every Go integer type (Props/C01widen, ops `readnum`, `putany`), and writing on after Buffer.ReadFrom (`loadfrom`: RawBuf.toBuf, theorem toRaw_toBuf).",
        'technique': 'Lean 4 proof (induction over op lists) + byte-exact model/implementation correspondence',
        'design_ref': '§6 C05',
    },
}

STORE_TB = TB_COMMON + [
    "modelled, not verified: kelindar/bitmap (incl. its AVX2/SIMD kernels) as Array Bool, Go maps/slices, sync.Pool (arbitrary previous content of pooled objects), generics instantiation of the numeric columns, unsafe string aliasing",
]

PROPS['C11'] = {
    'title': 'Insert offsets never collide and reused offsets carry no stale data',
    'modules': ['ColumnVerif.Props.C11'],
    'runs': [{'mode': 'store'}],
    'trusted_base': STORE_TB,
    'assumptions': [
        "the fill list and the counter are only touched inside sections guarded by the collection lock (next, free, marker loop, recount); histories are arbitrary interleavings of these sections",
        "insert markers of a commit name offsets already reserved by next() (true for transactions of the collection itself; a replica that replays and inserts locally at the same time is outside)",
        "second sentence (no stale data) is partial: findings D9, D10, D11 (KNOWN_FINDINGS.json)",
    ],
    'level_text': "Lean theorems over the executable fill-list model (the same findFreeIndex/next/free the driver runs): for every fill pattern and length, next() returns an unoccupied offset whenever popcount ≤ count; the invariant is preserved by every atomic fill section, hence in every history/interleaving of inserts, failed inserts, commits and rollbacks no insert receives an occupied offset; freed offsets are available again; Count = popcount at quiescence. Tied to the code by differential histories steering fill patterns across 64-bit word and 16K chunk edges with all capacities. Added late: a third of the histories with a sorted index and bitmap indexes, a third with a key column (stale computed state at reused offsets).",
    'technique': 'Lean 4 proof (invariant over all histories of atomic fill sections) + model/implementation correspondence',
    'design_ref': '§6 C11',
}

PROPS['C04'] = {
    'title': 'Filters, iteration and aggregates follow set semantics over live rows',
    'modules': ['ColumnVerif.Props.C04', 'ColumnVerif.Props.C04chain'],
    'runs': [{'mode': 'store'}],
    'trusted_base': STORE_TB,
    'assumptions': [
        "numeric predicates, merge functions and float arithmetic are parameters of the model (named families in the driver)",
        "float Sum/Avg/Min/Max are compared only on exactly representable small integers (SIMD kernels reorder additions)",
        "Union after a missing name / first-call Union with a missing first name: finding D22 (KNOWN_FINDINGS.json); the theorem states the behaviour of the code and the counterexample",
    ],
    'level_text': "Lean theorems over the executable filter model: With/Without/Union/WithUnion/typed value filters/WithValue equal the pointwise set algebra over the selection for every selection length, every number of column chunks and missing names; the chunk loop 0..len>>8 reaches every bit; Count = number of rows Range visits; Range visits exactly the selected offsets, ascending, each once; aggregates fold exactly the selected rows holding a value; and for whole chains of any length (the interpreter Txn.chain which the driver runs for every select): the selection after the chain is the fold of the operators' set-algebra denotations, guarded by 'no operator reached Clear()', with Count and Range of the chain as corollaries (chain_sem, chain_den_fresh, chain_count, chain_range). Tied to the code by differential filter chains over random layouts (sparse, dense, multi-chunk, reused offsets) and all numeric types.",
    'technique': 'Lean 4 proof (pointwise semantics of every operator, induction over name lists and chunk loops) + model/implementation correspondence',
    'design_ref': '§6 C04',
}

PROPS['C16'] = {
    'title': 'Sorted-index iteration is complete and ordered',
    'modules': ['ColumnVerif.Props.C16', 'ColumnVerif.Props.C16store'],
    'runs': [{'mode': 'store'}, {'mode': 'sched'}],
    'trusted_base': STORE_TB + ["tidwall/btree is trusted to realise an ordered set for the comparator the code passes (the comparator itself is modelled)"],
    'assumptions': [
        "the index follows its string column under the guard 'no op follows a resizing merge on the same offset in one section' (finding D12)",
        "store level (Props/C16store): commit_sortInv (SortInv through Store.commit for any target kind and any ops, resizing merges included), commit_inSync / commits_inSync / commits_sorted_reads (the entry of every offset is what the column reads, after any sequence of commits) under NoAppend (merge results keep the delta's length, or no merges) — with a resizing merge only SortInv is proved (D12)",
    ],
    'level_text': "Lean theorems over the executable sorted-index model: the comparator (key, then offset) is a strict total order; SortInv (entries strictly sorted, one entry per offset, consistent back map) holds for a fresh index and is preserved by every op list, back-fill and history; the entry of an offset is decided by the last Put/Delete addressed to it (overwrite, delete, delete-then-reinsert, equal keys coexist); Ascend visits exactly the selected rows with an entry, each once, keys non-decreasing; with the index in sync with its string column (preserved by every section without resizing merges) that is exactly the selected rows holding a value in non-decreasing order of their current values. Tied to the code by differential histories over a small alphabet with the index created before/after the data and arbitrary filter chains, plus a Go-side sort oracle. Added late: scheduler scenario sort-backfill (CreateSortIndex beside a writer of the indexed column).",
    'technique': 'Lean 4 proof (order axioms, invariant by induction over op lists) + model/implementation correspondence',
    'design_ref': '§6 C16',
}

PROPS['C01'] = {
    'title': 'Committed values read back exactly, for every column type and offset',
    'modules': ['ColumnVerif.Props.C01', 'ColumnVerif.Props.C01str', 'ColumnVerif.Props.C01store', 'ColumnVerif.Props.C01storeAny', 'ColumnVerif.Props.C01widen'],
    'runs': [{'mode': 'store'}, {'mode': 'widen'}],
    'trusted_base': STORE_TB,
    'assumptions': [
        "store-level read-back through the real Store.commit (any number of dirty chunks, any sequence of commits): Props/C01store for numeric columns, Props/C01storeAny for every data kind — commit_col: the column after a commit IS the fold of applyData over the dirty chunks (markers, then the ops of the column), an equality of column records; string/record columns under the guard ChunksOK (no pass appends, or each chunk has one section in a well-formed buffer: resizing merges allowed) — without it finding D12 hits the primary itself (kernel-checked d12_on_primary: merge then put of one offset in two sections reads back the merge)",
        "guards = recorded findings: D10 (write+delete of one row), D11 (merge onto a slot occupied before), D12 (op after a resizing merge), D20 (enum hash collision); strings ≤ 65535 bytes",
    ],
    'level_text': "Lean theorems over the executable store model: commit_readback — after Store.commit (any number of dirty chunks; and after any sequence of commits) every slot of a numeric column is the fold, in issue order, of the transaction's row markers and of the operations it issued for that column and offset, over the previous content; untouched offsets and columns are unchanged; the fill bit is the fold of the markers; no panic under the cover invariant (which CreateColumn's repair and commitCapacity maintain). Column level: for numeric, string, record and enum columns, [store level, every data kind: commit_col / commits_col, commit_read_str_last_put, commit_read_key_last_put] after the chunk's pass every slot is the fold, in issue order, of the operations addressed to it (any merge function, any number of ops, offsets in any order); untouched offsets keep their content; the last Put decides; typed readers return the slot iff present; big-endian numeric bytes are bit-exact; the any-size readers of `int` / `uint` columns (Props/C01widen: a 16-, 32- or 64-bit integer written at its own width — what Row.SetAny / SetMany do with a narrower Go value — reads back as the same number, sign- resp. zero-extended into the 8-byte slot; other widths panic); missing chunk = panic (why D6 had to be repaired); counterexamples for D11/D12/D20. Tied to the code by differential histories over all 16 column kinds, boundary values, several chunks, late columns, all capacities, with a Go-side reference interpreter as implementation-only oracle.",
    'technique': 'Lean 4 proof (fold semantics of the apply pass by induction over op lists) + model/implementation correspondence',
    'design_ref': '§6 C01',
}

PROPS['C12'] = {
    'title': 'Primary keys behave like a map from key to one row',
    'modules': ['ColumnVerif.Props.C12', 'ColumnVerif.Props.C12store'],
    'runs': [{'mode': 'store'}],
    'trusted_base': STORE_TB,
    'assumptions': [
        "KeyInv is preserved under the guard WFKeyOps (each Put's key is new or already this row's; Deletes hit present rows) — at column level and, in Props/C12store, through the real Store.commit and any sequence of commits (commit_key_inv, commits_key_inv, offsetOf_after_commit: after the commit a lookup by key resolves exactly to the present row holding it, two rows never hold one key; commit_key_delete_releases: the key can be inserted again); outside the guard: findings D14 (duplicate key in one transaction) and the stale-delete observation, both with counterexample theorems",
        "concurrent InsertKey of one key (check-then-insert not atomic) is finding D14's second facet; exercised by the scheduler, not proved absent",
    ],
    'level_text': "Lean theorems over the executable key-column model and the four key operations: KeyInv (the table maps exactly the keys of present rows to their rows; hence one live row per key and lookup reaches it) is preserved by every guarded op list (fresh insert, re-key with release of the old key, same-key overwrite, delete), the old key no longer resolves and can be inserted again; InsertKey fails iff the key resolves, UpsertKey updates the existing row or reserves exactly one offset and buffers the key, QueryKey/DeleteKey fail iff absent, noKey iff there is no key column; counterexamples for D14 and stale delete. Tied to the code by differential histories over a 6-letter key alphabet with a Go-side key-map oracle. Added late: re-keying through Row.SetKey, failing keyed callbacks, callbacks ending on another row.",
    'technique': 'Lean 4 proof (invariant by induction over op lists; decision logic stated outright) + model/implementation correspondence',
    'design_ref': '§6 C12',
}

PROPS['C03'] = {
    'title': 'Bitmap indexes always equal their predicate over the current values',
    'modules': ['ColumnVerif.Props.C03', 'ColumnVerif.Props.C03store'],
    'runs': [{'mode': 'store'}, {'mode': 'sched'}],
    'trusted_base': STORE_TB,
    'assumptions': [
        "IndexInv theorems are for numeric target columns with canonical Put ops (value of the column's width) and merge functions returning non-empty values; string targets follow the same pass but with the D12 guard (no op after a resizing merge) — exercised by the correspondence",
        "the index rule is an arbitrary function of the op the reader shows (type, offset, value)",
        "store level (Props/C03store): commit_computed — a computed column after Store.commit is applyOther over what the main pass shows it (markers, rewritten ops, appended puts), an equality of column records for any computed kind; commit_indexInv / commits_indexInv / history_indexInv: for any history 'create a numeric column, commits…, create the index, commits…' the index bit of an offset is set iff the column reads a value there that satisfies the rule; hypotheses: the index is listed once in its column's computed list (Store.createComputed does not check: a name listed twice sees every section twice), canonical puts, non-empty merge results; string targets: per pass + correspondence",
        "the theorems are sequential; that back-fill and commits to one chunk do not interleave is the chunk latch (C15conc.latch_exclusive) — the back-fill takes it since the repair of D24, which the scheduler scenario index-backfill re-checks on every run",
    ],
    'level_text': "Lean theorems over the executable index model: the index bit of an offset is the fold of the Put/Delete ops addressed to it (rule on Put, clear on Delete); the main pass rewrites every Merge into a Put of the value stored right after it, so the computed pass hands the rule the merged value; IndexInv (bit ⇔ present ∧ rule(current value)) is preserved by a section pass, by marker sections, by the real commitUpdates order (main pass over all sections, then computed pass) and by the model's mainPass; the back-fill of CreateIndex establishes it for every committed chunk (index created after the data; restore uses the same pass); through the real Store.commit and any sequence of commits and an index creation in between: history_indexInv, commits_index_selects. Tied to the code by differential histories with indexes created/dropped at any point and a Go-side oracle recomputing every index from the values read back; index creation beside a writer of the indexed column is explored by the controlled scheduler (the back-fill is parked between reading a chunk and indexing it through a user-defined hook column; defect D24, repaired).",
    'technique': 'Lean 4 proof (invariant over op lists / sections / back-fill) + model/implementation correspondence',
    'design_ref': '§6 C03',
}

PROPS['C19'] = {
    'title': 'Triggers fire once per committed change, with the final value',
    'modules': ['ColumnVerif.Props.C19', 'ColumnVerif.Props.C19store'],
    'runs': [{'mode': 'store'}, {'mode': 'stress'}],
    'trusted_base': STORE_TB,
    'assumptions': [
        "final-value theorem is for numeric columns; for string/record columns a resizing merge is reported after the later ops of the section (finding D12)",
        "rollback never reaches Apply (Store.rollback touches only the counter); create/drop mid-history is exercised by the correspondence; dropping a trigger beside committing writers by the stress witness triggerChurn",
        "store level (Props/C19store): commit_trigger_events / commits_trigger_events — the call log of a trigger grows, per dirty chunk in ascending order, by the Delete markers and then one Put event with the value stored right after the op for every Put/Merge and one Delete event per Delete; commit_trigger_row_count: exactly once per op and row; needs the trigger to be listed once in the column's computed list",
    ],
    'level_text': "Lean theorems over the executable trigger model: the trigger is called exactly once per Put/Delete op of the (rewritten) section, in op order, never for Merge/Skip/Insert; per row the calls are the ops addressed to that row in issue order; combined with the rewriting lemma: for every Put or Merge the event carries the value stored right after that op (the merged value), for every Delete one delete event — exactly once each; same through mainPass and through the real Store.commit for any number of dirty chunks and any sequence of commits. Tied to the code by differential histories with triggers created and dropped mid-history, rollbacks, several chunks, and a Go-side event oracle.",
    'technique': 'Lean 4 proof (event log = image of the rewritten op list) + model/implementation correspondence',
    'design_ref': '§6 C19',
}

SKEL_TB = "skeleton extractor (extract/, go/ast pretty-printer) and its dictionary of call targets; the structural predicates are Lean code (Conc/Skel.lean), evaluated by the kernel (decide +kernel, axiom propext only)"
CONC_TB = TB_COMMON + [
    SKEL_TB,
    "modelled, not verified: sync.RWMutex / smutex latch semantics (exclusive writer, shared readers), sync/atomic; atomic sections under one lock are taken as serialisable; the controlled scheduler serialises goroutines at the yield points only",
]

for _pid, _mods in {'C03': ['ColumnVerif.Props.C03skel'], 'C11': ['ColumnVerif.Props.C11skel'], 'C12': ['ColumnVerif.Props.C12skel'],
                    'C16': ['ColumnVerif.Props.C16skel'], 'C19': ['ColumnVerif.Props.C19skel']}.items():
    PROPS[_pid]['modules'] += _mods
    PROPS[_pid]['skeleton'] = True
    PROPS[_pid]['trusted_base'] = PROPS[_pid]['trusted_base'] + [SKEL_TB]
PROPS['C11']['runs'] = [{'mode': 'store'}, {'mode': 'sched'}]
PROPS['C12']['runs'] = [{'mode': 'store'}, {'mode': 'sched'}]

PROPS['C02'] = {
    'title': 'Transactions are atomic: commit applies all, rollback leaves no trace',
    'modules': ['ColumnVerif.Props.C02', 'ColumnVerif.Props.C02skel'],
    'runs': [{'mode': 'store'}, {'mode': 'sched'}],
    'skeleton': True,
    'trusted_base': CONC_TB + STORE_TB[3:],
    'assumptions': [
        "rollback leaves no trace is proved for transactions without a successful insert; with one, the reservation stays (finding D8) and is visible while in flight (finding D17): both have counterexample theorems and KNOWN_FINDINGS entries",
        "'commit applies all' is C01's fold theorem, at store level for every data kind (Props/C01storeAny.commit_col); computed columns (indexes, triggers, sorted indexes) follow the column pass by C03/C16/C19's pass lemmas",
    ],
    'level_text': "Lean theorems over the executable transaction model: rollback is the identity on a quiescent store and never emits; buffered writes, deletions and key writes change nothing but the transaction (every key/insert operation changes at most fill and count: OnlyFill); a failed insert releases its offset and leaves every fill bit as before; counterexamples for D8/D17. Tied to the code by differential histories with rollbacks, failing inserts and in-flight observers, a Go-side reference oracle (dump before = dump after), and controlled schedules with an observer transaction between the yield points of inserting transactions.",
    'technique': 'Lean 4 proof (frame theorems over the transaction functions) + model/implementation correspondence + controlled scheduling',
    'design_ref': '§6 C02',
}

PROPS['C15'] = {
    'title': 'The change stream is exactly-once, per-block ordered and identifiable',
    'modules': ['ColumnVerif.Props.C15', 'ColumnVerif.Props.C15conc', 'ColumnVerif.Props.C15skel'],
    'runs': [{'mode': 'store'}, {'mode': 'sched'}],
    'skeleton': True,
    'trusted_base': CONC_TB + STORE_TB[3:],
    'assumptions': [
        "the commit id counter is modelled in ℕ (wrap-around after 2^64 draws is outside the model)",
        "'changed' is global to the transaction, as in the code: a transaction holding ops for a dropped column in another block emits a commit for that block too (observation recorded in DESIGN.md)",
    ],
    'level_text': "Lean theorems. Sequential (executable store model): a commit emits exactly one commit per dirty chunk, in ascending chunk order, with consecutive fresh ids, iff the transaction holds a row marker or a non-empty buffer of an existing column, and nothing otherwise (read-only, dropped columns, no logger, rollback). Schedule-quantified (small-step machine, any number of threads/chunks/steps): ids are fresh, non-zero and globally distinct; per chunk they increase in apply order when the id is drawn inside the latch — which the regenerated skeleton says it is — with an explicit counterexample run when it is not (defect D2, repaired); the logger receives each chunk's commits in apply order, each exactly once. Tied to the code by the regenerated skeleton (flag theorems), differential histories with a recording logger, and controlled schedules of racing writers with a stream oracle.",
    'technique': 'Lean 4 proof (fold over dirty chunks; invariant over all reachable worlds) + regenerated protocol skeleton + correspondence + controlled scheduling',
    'design_ref': '§6 C15',
}

PROPS['C09'] = {
    'title': 'Concurrent merges are never lost',
    'modules': ['ColumnVerif.Props.C09', 'ColumnVerif.Props.C09skel'],
    'runs': [{'mode': 'sched'}, {'mode': 'store'}, {'mode': 'stress'}],
    'skeleton': True,
    'trusted_base': CONC_TB,
    'assumptions': [
        "the read-modify-write of a merge happens inside the chunk latch section (flag theorems over the regenerated skeleton: the commit closure runs between Lock and Unlock, Apply inside it)",
        "the 'initial value' of an absent slot is whatever the slot holds (finding D11)",
    ],
    'level_text': "Lean theorems over the small-step commit machine (any number of threads, chunks, steps; arbitrary merge function): in every reachable world the merged value of a chunk equals the fold of the deltas of the commits applied to it, in apply order, over the initial value — no delta lost or applied twice; additive corollary; a thread that has read the value holds the latch and the value is current; each transaction contributes exactly one record per listed chunk. Tied to the code by the regenerated skeleton and controlled schedules of 2–3 writers merging into overlapping rows of 1–2 chunks with additive and order-sensitive merges (totals and emitted merge chains checked).",
    'technique': 'Lean 4 proof (invariant over all reachable worlds of a small-step machine) + regenerated protocol skeleton + controlled scheduling',
    'design_ref': '§6 C09',
}

PROPS['C10'] = {
    'title': 'A reader never sees a half-applied commit on a row',
    'modules': ['ColumnVerif.Props.C10', 'ColumnVerif.Props.C10skel'],
    'runs': [{'mode': 'sched'}, {'mode': 'stress'}],
    'skeleton': True,
    'trusted_base': CONC_TB,
    'assumptions': [
        "partial: the theorem is about the latch protocol (writer exclusive, readers shared, callbacks inside RLock/RUnlock of the row's chunk — flag theorems); weak-memory effects and torn multi-word reads without a latch are not exhibited by any model here and are only observed by the race-detector runs of C18",
        "Ascend takes no chunk latch and is not in the property's quantifier",
    ],
    'level_text': "PARTIAL. Lean theorems over the small-step machine: every observation a reader makes of two columns under one read-latch hold carries the same commit id, in every reachable world; the columns differ only while a writer is between its two column writes, holding the latch; readers exclude writers and vice versa. The regenerated skeleton establishes that QueryAt, rangeRead and rangeReadPair call the user function between RLock and RUnlock of the row's chunk (ChunkAt(index)). Tied to the code by controlled schedules with a reader parked inside its callback between two column reads while writers try to commit.",
    'technique': 'Lean 4 proof (latch-protocol invariant) + regenerated protocol skeleton + controlled scheduling; runtime memory model not covered',
    'design_ref': '§6 C10',
}

PROPS['C06'] = {
    'title': 'A replica fed the change stream converges to the primary',
    'modules': ['ColumnVerif.Props.C06', 'ColumnVerif.Props.C06store', 'ColumnVerif.Props.C06skel'],
    'runs': [{'mode': 'store'}, {'mode': 'sched'}, {'mode': 'stress'}],
    'skeleton': True,
    'trusted_base': CONC_TB + STORE_TB[3:],
    'assumptions': [
        "strings/records under the D12 guard (no op after a resizing merge on the same offset in one section); counterexample theorem and KNOWN_FINDINGS entry",
        "channel logger with multi-chunk transactions: finding D16 (the cloned buffers of all chunks are re-applied) — reached by the scheduler, listed in KNOWN_FINDINGS; the serialized-log path is unaffected",
        "a Delete does not carry the stale raw bytes of a slot: replica and primary agree on everything a reader can see (VisEq), not on dead bytes",
        "store level (Props/C06store): replica_converges_store / replica_converges_fresh — for any sequence of well-formed transactions committed on a primary with the log-file logger and a replica with the same column names (kinds matching, merge functions, hash, capacity free) replaying the whole emitted stream through the real Store.replay, every numeric column reads the same on both sides and the fill lists agree; inserts (reservation before the commit) included; strings/records under NoAppend/StrGuard, keys with equal lookup tables (replica_converges_store_key); channel logger: the same for single-chunk transactions, and the kernel-checked D16 history channel_multichunk_counterexample (T1 chunk 0, T3, T1 chunk 1: the channel-fed replica reads 1 where the primary and the log-fed replica read 3); enum columns by the correspondence only (the replica would need the primary's hash)",
    ],
    'level_text': "Lean theorems. Sequential core (executable column model): the section a commit emits contains no Merge (every merge rewritten into a Put of the stored result), so replaying it never consults the replica's merge function or previous data; a replica in sync stays in sync slot by slot through every pass, and over whole histories (numeric unconditionally, strings under the D12 guard); lifted through the real Store.commit / emission / Store.replay: what a commit emits is the rewritten ops of each dirty chunk in ascending order (emitted_stream_num), replaying it keeps the replica equal, for whole histories (replica_converges_store). Schedule part (small-step machine, any number of writers/chunks/steps, arbitrary merge): the value a replica holds after replaying the stream in arrival order is the primary's value after the prefix of commits already handed to the logger, and equals the primary's value whenever the primary is quiescent; streams of different chunks commute. Tied to the code by the regenerated skeleton (emission inside the latch, Clone carries the id), differential histories with a replica through both loggers, and controlled schedules of racing writers with a replica-dump oracle. Added late: the log-file form of the stream under real parallelism (stress `logFileWitness`: one writer per block, file read back and replayed into a replica) and the flag appendCopyShareMutex.",
    'technique': 'Lean 4 proof (absolute-commit replay lemma; machine invariant over all schedules) + regenerated protocol skeleton + correspondence + controlled scheduling',
    'design_ref': '§6 C06',
}

PROPS['C13'] = {
    'title': 'Truncated snapshot or log files never restore silently wrong state',
    'modules': ['ColumnVerif.Props.C13', 'ColumnVerif.Props.C07wire', 'ColumnVerif.Props.C13skel'],
    'runs': [{'mode': 'trunc'}, {'mode': 'codec'}],
    'skeleton': True,
    'trusted_base': TB_COMMON + [SKEL_TB,
        "validated assumption, not proved: s2 framing — a prefix cut inside a frame yields the payload of the complete frames and then a non-EOF error, a cut at a frame boundary yields that payload and clean EOF (the harness parses the real frames and the model is compared on every cut)",
        "modelled from its source: kelindar/iostream primitives (uvarint, little-endian ints, length-prefixed bytes)"],
    'assumptions': [
        "the model reads a source whose failing read has exhausted it (true for every prefix of a valid stream); malformed (not truncated) streams are outside",
        "the state section (writeState/readState) has its own byte-exact model (Model/StateWire, tied by the statehash op of the store correspondence) and prefix theorem (C07wire.state_prefix_fails: every strict prefix is rejected); the s2 layer around it is the validated assumption above",
        "observation (proved as an example): with a clean end, a log cut between two primitives of a commit drops the partial commit without an error flag — the property allows it (prefix of whole commits)",
    ],
    'level_text': "Lean theorems over the byte-exact wire model: every primitive, buffer, commit-buffer and commit decoder fails on every strict prefix of an encoding (never ok; never confused with EOF when the cut is inside a compressed frame); Log.Range over any cut of a log delivers exactly the first k whole commits, in order, k = number of commits whose encoding ends before the cut — never part of a commit; full log round trip; the snapshot state section: every strict prefix of writeState's bytes is rejected by readState, a version other than 1 is rejected. Decoders are total functions (no panic, no hang in the model). Tied to the code by cutting real snapshot streams (with and without commits recorded during the snapshot, several chunks, > 60 KB commits) at every byte / every s2 frame boundary ± 2: Restore must fail or equal the original at a commit boundary (implementation-only oracle with watchdog), and Log.Range's delivered count and error flag are compared with the model on every log cut.",
    'technique': 'Lean 4 proof (prefix-freeness by composition of decoders) + model/implementation correspondence on every cut',
    'design_ref': '§6 C13',
}

PROPS['C14'] = {
    'title': 'A failed snapshot reports the error and leaves the collection usable',
    'modules': ['ColumnVerif.Props.C14', 'ColumnVerif.Props.C14skel'],
    'runs': [{'mode': 'snapfail'}],
    'skeleton': True,
    'trusted_base': TB_COMMON + [SKEL_TB, "observed, not modelled: OS behaviour (descriptor numbering, unlink semantics), the s2 writer (errors surface at the latest at Flush)"],
    'assumptions': [
        "the resource model has three fault classes (open temp, write state, copy log); which write call / byte budget fails inside a class is quantified by the correspondence, not by the model",
    ],
    'level_text': "Lean theorems over the Snapshot resource machine (recorder slot, descriptors, temp files, running compressor goroutines), for every fault combination and every history of calls: an error is returned exactly when something failed; afterwards the recorder is released and no descriptor, temp file or goroutine is left; a concurrent second snapshot is refused without leak; a later healthy snapshot succeeds; counterexamples for the code before the repairs (D5; D27: 54 snapshots leave 108 goroutines). The clean-up actions (defers right after the open, clean-up on CAS failure, close before copy, both compressors closed) are read from the regenerated skeleton. Tied to the code by injecting a failure at every write call and byte budget (once / forever) on empty, one-chunk and three-chunk collections, comparing the observed (recorder, fd delta, temp delta, goroutine delta, error) of every call with the model, and checking that commits (multi-column write and read-back, a write to every chunk within 10 s), a healthy snapshot + restore still work; shapes: empty, one chunk, three chunks, one chunk larger than the compressor's block, the same with a transaction committing during the snapshot; failing snapshots beside writers on a collection with a commit log (every committed transaction reaches the log). Added late: flag column, computed columns of every sort and a late data column in the collections under test.",
    'technique': 'Lean 4 proof (case analysis over fault combinations, induction over call histories) + regenerated protocol skeleton + fault-injection correspondence',
    'design_ref': '§6 C14',
}

PROPS['C08'] = {
    'title': 'A snapshot taken under concurrent commits restores to a consistent cut',
    'modules': ['ColumnVerif.Props.C08', 'ColumnVerif.Props.C08store', 'ColumnVerif.Props.C08skel'],
    'runs': [{'mode': 'sched'}, {'mode': 'store'}],
    'skeleton': True,
    'trusted_base': CONC_TB,
    'assumptions': [
        "machine level: a chunk's content is abstracted to the list of commit ids applied to it; store level (Props/C08store, sequential core): restore_eq_readState_replay (Restore = readState, then the logged entries whose id is newer than the id stored with their chunk, in order), restore_tail_converges (state of p0 + everything committed afterwards with the recorder open restores to the primary after those commits: every numeric read and every fill bit, at every offset), restore_skips_older / restore_overlap_converges (commits recorded AND already contained in the chunk states — recorder opened before the chunks were read — are skipped by id and the result is still the primary): the id filter is what makes the replay idempotent; hypotheses SourceOK/TargetOK (covered, canonical, nothing present beyond the committed chunks) are kept by commits (sourceOK_commits)",
        "partial on in-flight reservations: an insert reserved but not yet committed shows up as an empty row in the chunk's insert markers (finding D17)",
        "the chunk read happens under the chunk's read latch and the collection lock, the recorder pointer is looked at inside the latch section, Append/Copy share the log mutex, Restore filters by id: flag theorems over the regenerated skeleton",
    ],
    'level_text': "Lean theorems over the small-step snapshot machine (any number of writers, chunks, steps; every schedule; pointer load and log append are separate steps that close/copy may split): once the log is copied, for every chunk read the restored content is a suffix of the chunk's content at copy time and of its final content (= the primary's block after a prefix of the commits applied to it, in apply order: nothing lost from the middle, nothing out of order, nothing that was not committed when Snapshot returned), it contains every commit whose latch section had finished when the call began, and it is strictly ordered (no commit twice); the recorded set is prefix-closed per chunk at every point. Tied to the code by the regenerated skeleton and by controlled schedules of a snapshot against 2–3 writers over 1–2 chunks with yield points after open, before each chunk read, before close and before copy, checked by a per-chunk prefix oracle on the restored collection. Added late: store histories in which a transaction commits during most snapshot cycles (all column kinds, merges of every width in it, marker-only transactions), restored through re-blocked streams.",
    'technique': 'Lean 4 proof (invariant over all reachable worlds of the snapshot machine) + regenerated protocol skeleton + controlled scheduling',
    'design_ref': '§6 C08',
}

PROPS['C17'] = {
    'title': 'Rows expire only after their deadline, and then do expire',
    'modules': ['ColumnVerif.Props.C17', 'ColumnVerif.Props.C17store', 'ColumnVerif.Props.C17skel'],
    'runs': [{'mode': 'ttl'}, {'mode': 'store'}],
    'skeleton': True,
    'trusted_base': TB_COMMON + [SKEL_TB, "runtime, not modelled: the ticker, the wall clock, goroutine scheduling"],
    'assumptions': [
        "PARTIAL: 'within a few cleanup intervals' depends on Go timers and scheduling, which no model here exhibits; it is observed with margins by the ttl mode",
        "Extend on a row without a deadline (observation O1) is outside the property; recorded as a counterexample theorem",
    ],
    'level_text': "PARTIAL. Lean theorems over the executable model: a vacuum pass (With(expire) + ExpiresAt + now.After) deletes a row iff it is live, holds a deadline value, the deadline is non-zero and strictly before now — for every store, clock reading and offset (via C04's filter theorems); hence rows without TTL / with a future deadline are never removed and a passed deadline is removed by the next pass; TTL arithmetic (positive TTL = now + ttl, non-positive = never; Extend adds) carried down to the stored bytes and through the real Store.commit: the deadline column is a plain int64 column whose merge is wrapping addition (addMerge64_sem), a committed Set(ttl) / Extend(delta) makes the next passes delete the row exactly when now+ttl resp. d+delta lies before the clock (commit_set_then_vacuumPass, commit_extend_then_vacuumPass; in-range, non-zero deadlines). The decision's shape in the source (ExpiresAt, now.After, `ok && expireAt != 0`, `ttl > 0`) is read from the regenerated skeleton. Tied to the code by running the real vacuum goroutine at 1–100 ms intervals over rows with all deadline kinds under concurrent updates, inserts and deletes, with generous margins, comparing every judged observation with the model's decision; and by differential histories (store mode) that write and merge the deadline column itself (Set = store, Extend = additive merge) across chunks, through offset re-use, replication (both loggers) and snapshot/restore, with replica- and restore-equality oracles. Added late: deadline read back through ExpiresAt / TTL(); a second wave of TTL writes judged against clock readings around the call.",
    'technique': 'Lean 4 proof (decision logic stated outright) + regenerated protocol skeleton + timed observation of the real goroutine',
    'design_ref': '§6 C17',
}

PROPS['C07'] = {
    'title': 'Restore of a snapshot reproduces the collection exactly',
    'modules': ['ColumnVerif.Props.C07', 'ColumnVerif.Props.C07more', 'ColumnVerif.Props.C07wire', 'ColumnVerif.Props.C08store', 'ColumnVerif.Props.C07skel'],
    'runs': [{'mode': 'store'}],
    'skeleton': True,
    'trusted_base': STORE_TB + [SKEL_TB],
    'assumptions': [
        "store-level theorem (readState ∘ snapshot through the real Store.commit) is for numeric columns and the fill list; string/record/key/bool columns are proved at column level (restoring a chunk's snapshot buffer into a fresh column reproduces every read of that chunk); enum columns, the key lookup table, index/sorted-index contents after restore and the log tail replay are exercised by the correspondence (indexes: C03's pass lemma applies)",
        "numeric slots are canonical (a present slot holds width bytes): a present empty slot is written zero-padded by the snapshot",
        "'the same Count', 'new inserts never overwrite restored rows' and 'later snapshots round-trip again' are theorems of Props/C07more (readState_count_eq, restored_insert_not_restored_row, restored_inserts_never_collide, snapshot_again_numeric, snapshot_again_row) for the fill list and numeric columns; Count equality needs the source and the target to be quiescent (count = popcount) — a target with a stale counter and a source chunk without live rows keeps the stale counter (kernel-checked example readState_count_needs_hypothesis; not reachable from NewCollection); the other kinds are exercised by continuing the same history on both collections in the correspondence",
        "byte level of the state stream: Model/StateWire (encState/readStateRaw) with C07wire.state_roundtrip / state_roundtrip_ops / snapshot_buffers_count, tied byte for byte by the statehash op (FNV of the uncompressed state section, commit ids by rank) in every snapshot cycle; s2 compression is outside the model",
    ],
    'level_text': "Lean theorems over the executable snapshot model: the state a snapshot writes for a chunk (one insert marker per occupied offset, one Put per present value) applied to a fresh column / fill list reproduces every read and every fill bit of that chunk (numeric, string, record, key, bool; other chunks untouched; no panic); readState of a snapshot is a fold of per-chunk commits, and through the real Store.commit every committed offset of a numeric column reads the same in the restored store and the fill lists agree (identical rows at identical offsets); the bytes writeState emits decode (readState) to exactly the written chunk ids and buffers, operation for operation, and every chunk carries exactly `columns` buffers. Tied to the code by differential snapshot→restore→continue cycles over all column kinds incl. enum, bool, record, key, expire, sparse and dense chunks, differing capacities, with a Go-side dump-equality oracle. Added late: every other restore reads the snapshot re-cut into irregular compression blocks (short reads at every block end).",
    'technique': 'Lean 4 proof (snapshot buffer round trip at column level; fold of chunk commits at store level) + model/implementation correspondence',
    'design_ref': '§6 C07',
}

PROPS['C18'] = {
    'title': 'Concurrent use is free of data races and deadlocks',
    'modules': ['ColumnVerif.Props.C18', 'ColumnVerif.Props.C15conc', 'ColumnVerif.Props.C10', 'ColumnVerif.Props.C08', 'ColumnVerif.Props.C18skel'],
    'runs': [{'mode': 'stress', 'race': True}, {'mode': 'sched'}],
    'skeleton': True,
    'trusted_base': CONC_TB + ["the Go race detector (sampling: it reports only races that occur in the run) and a no-progress watchdog are the observation of the runtime behaviour"],
    'assumptions': [
        "PARTIAL: absence of memory-level races is observed by the race detector on the executed workloads, not proved; the theorems cover the latch protocol of the modelled protocol functions only",
        "races present on the unchanged tree are finding D19 (identified by racing pair); any other pair is reported",
        "the termination theorems are about the modelled latch protocol (one chunk latch at a time, straight-line sections); sync.RWMutex writer preference, the collection lock, the log mutex and user callbacks are outside the machines (writer starvation by an unbounded stream of readers is possible in the model and bounded by r in the theorem)",
        "observation O3: a callback that takes a second read latch on the same shard (e.g. QueryAt inside Range) can deadlock against a waiting writer (sync.RWMutex is writer-preferring); outside the property's mix, recorded in DESIGN.md",
    ],
    'level_text': "PARTIAL. Lean theorems (small-step machines, every schedule): the chunk latch is exclusive among writers and excludes readers, a snapshot's chunk read excludes the chunk's writer, every access of the modelled commit / read / snapshot protocol to a chunk's columns happens under that latch; termination of the protocol in both machines for every schedule: no reachable world with unfinished work is stuck (no_deadlock), a waiting thread only ever waits for a thread that is inside a latch section and can run, and nobody waits while holding a latch (blocker_runs, no_wait_chain: no waits-for cycle exists), and every execution of finitely many transactions, r reads and one snapshot takes at most 9·Σ|todo| + 4r (resp. exactly 7·Σ|todo| + |chunks| + 3) steps (bounded_runs: no livelock); the regenerated skeleton establishes for the current source which calls sit inside which lock (latch around the commit closure, RLock around reader callbacks with the row's own chunk, collection lock around every fill-list access, log mutex shared by Append/Range/Copy, key table lock). Runtime: the harness built with -race runs writers, point reads, filtered iteration, bulk inserts/deletes across chunk boundaries with offset re-use, snapshot+restore into other collections, index creation and the vacuum in real parallelism; every race report is reduced to its pair of top frames inside /repo and compared with the listed pairs of D19; a watchdog flags any worker or controlled schedule that never completes.",
    'technique': 'Lean 4 proof (latch-protocol invariants, deadlock freedom and step bounds for every schedule) + regenerated protocol skeleton + race detector / watchdog runs; memory-level race freedom not proved',
    'design_ref': '§6 C18',
}

ALL_IDS = ['C%02d' % i for i in range(1, 20)]
