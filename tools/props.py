"""Per-property configuration of ./check and of MANIFEST.json (tools/gen_manifest.py)."""

TB_COMMON = [
    "Lean 4.33.0 kernel (thorough tier: re-checked by leanchecker); axioms allowed: propext, Classical.choice, Quot.sound",
    "hand-written Lean model tied to /repo by the correspondence check (harness/, differential sampling against the compiled model driver)",
    "harness generators/canonicalisation and the driver's line parser",
]

PROPS = {
    'C05': {
        'title': 'Commit buffers, commits and logs round-trip every operation sequence',
        'modules': ['ColumnVerif.Props.C05'],
        'runs': [{'mode': 'codec'}],
        'trusted_base': TB_COMMON + [
            "modelled, not verified: Go slices/append, encoding/binary, the s2 compressor (log files are compared after decompression)",
        ],
        'assumptions': [
            "values are 0/2/4/8 bytes or strings of at most 65535 bytes (the format's 2-byte length); offsets < 2^32",
            "the flat byte layout of a buffer is the concatenation of its sections (checked byte-exactly by the codec correspondence)",
        ],
        'level_text': "Lean theorems over the byte-exact codec model: every well-formed op sequence of any length decodes to itself (Seek), every chunk of an interleaved buffer reads as that chunk's ops in write order (Range), sections decode from their header values; plus byte-exact differential against commit.Buffer/Reader/Commit on exhaustive short and random long sequences and an implementation-only decode∘encode oracle.",
        'technique': 'Lean 4 proof (induction over op lists) + byte-exact model/implementation correspondence',
        'design_ref': '§6 C05',
    },
}

STORE_TB = TB_COMMON + [
    "modelled, not verified: kelindar/bitmap (incl. its AVX2/SIMD kernels) as Array Bool, Go maps/slices, sync.Pool (arbitrary previous content of pooled objects), generics instantiation of the numeric columns, unsafe string aliasing",
]

PROPS['C11'] = {
    'title': 'Insert offsets never collide and reused offsets carry no stale data',
    'modules': ['ColumnVerif.Props.C11'],
    'runs': [{'mode': 'store'}],
    'trusted_base': STORE_TB,
    'assumptions': [
        "the fill list and the counter are only touched inside sections guarded by the collection lock (next, free, marker loop, recount); histories are arbitrary interleavings of these sections",
        "insert markers of a commit name offsets already reserved by next() (true for transactions of the collection itself; a replica that replays and inserts locally at the same time is outside)",
        "second sentence (no stale data) is partial: findings D9, D10, D11 (KNOWN_FINDINGS.json)",
    ],
    'level_text': "Lean theorems over the executable fill-list model (the same findFreeIndex/next/free the driver runs): for every fill pattern and length, next() returns an unoccupied offset whenever popcount ≤ count; the invariant is preserved by every atomic fill section, hence in every history/interleaving of inserts, failed inserts, commits and rollbacks no insert receives an occupied offset; freed offsets are available again; Count = popcount at quiescence. Tied to the code by differential histories steering fill patterns across 64-bit word and 16K chunk edges with all capacities.",
    'technique': 'Lean 4 proof (invariant over all histories of atomic fill sections) + model/implementation correspondence',
    'design_ref': '§6 C11',
}

PROPS['C04'] = {
    'title': 'Filters, iteration and aggregates follow set semantics over live rows',
    'modules': ['ColumnVerif.Props.C04'],
    'runs': [{'mode': 'store'}],
    'trusted_base': STORE_TB,
    'assumptions': [
        "numeric predicates, merge functions and float arithmetic are parameters of the model (named families in the driver)",
        "float Sum/Avg/Min/Max are compared only on exactly representable small integers (SIMD kernels reorder additions)",
        "Union after a missing name / first-call Union with a missing first name: finding D22 (KNOWN_FINDINGS.json); the theorem states the behaviour of the code and the counterexample",
    ],
    'level_text': "Lean theorems over the executable filter model: With/Without/Union/WithUnion/typed value filters/WithValue equal the pointwise set algebra over the selection for every selection length, every number of column chunks and missing names; the chunk loop 0..len>>8 reaches every bit; Count = number of rows Range visits; Range visits exactly the selected offsets, ascending, each once; aggregates fold exactly the selected rows holding a value. Tied to the code by differential filter chains over random layouts (sparse, dense, multi-chunk, reused offsets) and all numeric types.",
    'technique': 'Lean 4 proof (pointwise semantics of every operator, induction over name lists and chunk loops) + model/implementation correspondence',
    'design_ref': '§6 C04',
}

PROPS['C16'] = {
    'title': 'Sorted-index iteration is complete and ordered',
    'modules': ['ColumnVerif.Props.C16'],
    'runs': [{'mode': 'store'}],
    'trusted_base': STORE_TB + ["tidwall/btree is trusted to realise an ordered set for the comparator the code passes (the comparator itself is modelled)"],
    'assumptions': [
        "the index follows its string column under the guard 'no op follows a resizing merge on the same offset in one section' (finding D12)",
        "store-level composition (mainPass + computedPass inside commit) is exercised by the correspondence, the theorems are per section",
    ],
    'level_text': "Lean theorems over the executable sorted-index model: the comparator (key, then offset) is a strict total order; SortInv (entries strictly sorted, one entry per offset, consistent back map) holds for a fresh index and is preserved by every op list, back-fill and history; the entry of an offset is decided by the last Put/Delete addressed to it (overwrite, delete, delete-then-reinsert, equal keys coexist); Ascend visits exactly the selected rows with an entry, each once, keys non-decreasing; with the index in sync with its string column (preserved by every section without resizing merges) that is exactly the selected rows holding a value in non-decreasing order of their current values. Tied to the code by differential histories over a small alphabet with the index created before/after the data and arbitrary filter chains, plus a Go-side sort oracle.",
    'technique': 'Lean 4 proof (order axioms, invariant by induction over op lists) + model/implementation correspondence',
    'design_ref': '§6 C16',
}

ALL_IDS = ['C%02d' % i for i in range(1, 20)]
