#!/usr/bin/env python3
import json, sys
r = json.load(open(sys.argv[1]))
vs = r['violations']
print(f"  cases={r['cases']} wall={r['wall_s']:.0f}s violations={len(vs)}")
for v in vs[:2]:
    print('   -', v['kind'], ':', str(v['clause'])[:260].replace('\n', ' | '))
