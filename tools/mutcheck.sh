#!/bin/bash
# tools/mutcheck.sh <patch.diff> <prop> [<prop>...]: apply a seeded change to /repo, run the registered
# quick check of each property, undo the change. Prints one line per property.
set -u
patch=$1; shift
cd /repo && git apply "$patch" || { echo "patch does not apply: $patch"; exit 2; }
trap 'cd /repo && git checkout -- . && git clean -fdq -- . >/dev/null 2>&1' EXIT
for p in "$@"; do
  out=$(cd /verif && VERIF_NOEVIDENCE=1 ./check $p 2>&1); rc=$?
  echo "== $p exit=$rc :: $(echo "$out" | grep -E 'VIOLATION|^OK' | head -3 | cut -c1-260 | tr '\n' '|')"
done
