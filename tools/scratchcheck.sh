#!/bin/bash
# tools/scratchcheck.sh <repo-copy> <props...>: run checks of a scratch copy of /verif against a scratch copy of
# the repository (harness `replace` rewritten, VERIF_REPO set, no evidence written). For testing the checks
# against changed code without touching /repo; the copy of /verif lives under /tmp/sc.<pid> and is removed.
r=$(realpath "$1"); shift
wd=/tmp/sc.$$
mkdir -p $wd
rsync -a --exclude .git --exclude replays --exclude .build/lock /verif/ $wd/verif/
mkdir -p $wd/verif/replays
sed -i "s#=> /repo#=> $r#" $wd/verif/harness/go.mod
rc=0
for p in "$@"; do
  out=$(cd $wd/verif && VERIF_REPO=$r VERIF_NOEVIDENCE=1 ./check $p 2>&1) || rc=1
  echo "$out" | grep -E 'VIOLATION|^OK|^BROKEN' | cut -c1-260
  for f in $(echo "$out" | grep -o 'replay=[^ ]*' | cut -d= -f2); do echo "--- $f"; head -30 $wd/verif/$f; done
done
rm -rf $wd
exit $rc
