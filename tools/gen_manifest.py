#!/usr/bin/env python3
"""Regenerates MANIFEST.json from tools/props.py (run after editing props.py)."""
import json, os, subprocess, sys
sys.path.insert(0, os.path.dirname(os.path.abspath(__file__)))
from props import PROPS, ALL_IDS

VERIF = os.path.dirname(os.path.dirname(os.path.abspath(__file__)))
NA_REASONS = {}
try:
    from props import NOT_APPLICABLE
    NA_REASONS = NOT_APPLICABLE
except ImportError:
    pass

hook_commits = subprocess.run(['git', '-C', '/repo', 'log', '--format=%H', '--grep=^verif:'], capture_output=True, text=True).stdout.split()
baseline = json.load(open('/root/.vp/BASELINE.json'))['cmd']

m = {
    'version': 1,
    'setup_cmd': './setup.sh',
    'hooks': {
        'guard': 'verif',
        'enable': 'go build -tags verif (the harness module replaces github.com/kelindar/column by /repo)',
        'baseline_off_cmd': baseline,
        'source_commits': hook_commits,
        'add_only': True,
    },
    'engines': [
        {'name': 'lean-model', 'path': 'lean/', 'serves_properties': sorted(PROPS), 'kind_free_text': 'Lean 4 model (ColumnVerif/Model, Conc), property theorems (ColumnVerif/Props), line-protocol driver (Driver/)'},
        {'name': 'go-harness', 'path': 'harness/', 'serves_properties': sorted(PROPS), 'kind_free_text': 'correspondence check: generators, in-process execution of kelindar/column, diff against the Lean driver, implementation-only oracles, controlled scheduler, fault injection'},
        {'name': 'skeleton-extractor', 'path': 'extract/', 'serves_properties': sorted(p for p in PROPS if PROPS[p].get('skeleton')), 'kind_free_text': 'go/ast walker regenerating lean/ColumnVerif/Generated/Skeleton.lean from /repo on every run'},
    ],
    'checks': [],
    'not_applicable': [],
    'notes': 'All checks are ./check <ID>; see DESIGN.md. Known findings: KNOWN_FINDINGS.json.',
}
for pid in ALL_IDS:
    if pid in PROPS:
        c = PROPS[pid]
        m['checks'].append({
            'property_id': pid,
            'quick_cmd': f'./check {pid} --tier quick',
            'thorough_cmd': f'./check {pid} --tier thorough',
            'evidence_file': f'evidence/{pid}.json',
            'replay_cmd_template': f'./check {pid} --replay {{path}}',
            'engine': 'lean-model + go-harness',
            'level_claimed': {'category': 'proof', 'text': c['level_text'], 'design_ref': c.get('design_ref', '')},
            'level_note': ' ; '.join(c['trusted_base'] + c['assumptions']),
            'technique': c['technique'],
        })
    else:
        m['not_applicable'].append({'property_id': pid, 'reason': NA_REASONS.get(pid, 'not claimed yet: its check is still being built (see DESIGN.md §10 build order)')})
json.dump(m, open(os.path.join(VERIF, 'MANIFEST.json'), 'w'), indent=1)
print('MANIFEST.json written:', len(m['checks']), 'checks,', len(m['not_applicable']), 'not claimed')
