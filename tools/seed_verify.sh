#!/bin/bash
# tools/seed_verify.sh <out-dir-of-mutation> <id>: confirm a seeded change in a scratch worktree:
#  suite passes with the change, demo fails with it, demo passes without it. Writes <dir>/verified.txt
set -u
d=$1; id=$2
export GOFLAGS=-mod=mod GOPROXY=off GOSUMDB=off GOTOOLCHAIN=local
wt=/tmp/seedverify/$id
rm -rf $wt; mkdir -p /tmp/seedverify
git -C /repo worktree add --detach $wt HEAD -q || exit 2
cleanup() { git -C /repo worktree remove --force $wt >/dev/null 2>&1; rm -f /tmp/column_*.log; }
trap cleanup EXIT
cd $wt
dir=$(head -1 $d/demo_test.go | sed -n 's#^// dir: *##p'); dir=${dir:-.}
name=zz_seed_demo_test.go
res=""
git apply $d/patch.diff || { echo "$id: patch does not apply" > $d/verified.txt; exit 1; }
go build ./... >/dev/null 2>&1 && res="$res build=ok" || res="$res build=FAIL"
timeout 600 go test -vet=off -count=1 ./... >/tmp/seedverify/$id.suite.log 2>&1 && res="$res suite_with_change=pass" || res="$res suite_with_change=FAIL"
cp $d/demo_test.go $dir/$name
timeout 300 go test -vet=off -count=1 ./$dir >/tmp/seedverify/$id.demo1.log 2>&1 && res="$res demo_with_change=PASS(unexpected)" || res="$res demo_with_change=fails"
rm -f $dir/$name; git checkout -- . ; cp $d/demo_test.go $dir/$name
timeout 300 go test -vet=off -count=1 ./$dir >/tmp/seedverify/$id.demo2.log 2>&1 && res="$res demo_without_change=passes" || res="$res demo_without_change=FAIL(unexpected)"
rm -f $dir/$name
echo "$id:$res" | tee $d/verified.txt
