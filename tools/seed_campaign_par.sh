#!/bin/bash
# tools/seed_campaign_par.sh <workers> [ids...]: the seeded-change campaign on scratch copies, in parallel.
# Each worker has its own git worktree of /repo HEAD and its own copy of /verif (harness `replace` rewritten,
# VERIF_REPO set), all under /tmp/camp and removed afterwards. For bulk regression of the checks only: the
# registered checks and the committed evidence always come from /verif run against /repo itself.
n=$1; shift
ids="$@"; [ -z "$ids" ] && ids=$(ls /verif/seeded | grep '^C')
rm -rf /tmp/camp; mkdir -p /tmp/camp
i=0
for id in $ids; do echo $id >> /tmp/camp/q$((i % n)); i=$((i+1)); done
for w in $(seq 0 $((n-1))); do
  (
    wd=/tmp/camp/w$w
    git -C /repo worktree add --detach $wd/repo HEAD -q
    rsync -a --exclude .git --exclude replays --exclude .build/lock /verif/ $wd/verif/
    mkdir -p $wd/verif/replays
    sed -i "s#=> /repo#=> $wd/repo#" $wd/verif/harness/go.mod
    [ -f /tmp/camp/q$w ] || exit 0
    for id in $(cat /tmp/camp/q$w); do
      p=$(python3 -c "import json;print(json.load(open('/verif/seeded/$id/meta.json'))['breaks_property'])")
      ( cd $wd/repo && git apply /verif/seeded/$id/patch.diff ) || { echo "$id patch does not apply"; continue; }
      out=$(cd $wd/verif && VERIF_REPO=$wd/repo VERIF_NOEVIDENCE=1 ./check $p 2>&1); rc=$?
      ( cd $wd/repo && git checkout -q -- . && git clean -fdq )
      echo "$id == $p exit=$rc :: $(echo "$out" | grep -E 'VIOLATION|^OK' | head -2 | cut -c1-200 | tr '\n' '|')"
    done
    git -C /repo worktree remove --force $wd/repo
    rm -rf $wd
  ) > /tmp/camp/out$w.log 2>&1 &
done
wait
cat /tmp/camp/out*.log | sort
