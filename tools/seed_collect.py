#!/usr/bin/env python3
"""Copies verified seeded changes from /tmp/seed/out/<P>/<m>/ to /verif/seeded/<P>-<m>/ with meta.json."""
import json, os, shutil, sys, glob
caught = json.load(open('/verif/seeded/caught.json')) if os.path.exists('/verif/seeded/caught.json') else {}
# round 1 lives in /tmp/seed/out (ids <P>-m<k>), round 2 in /tmp/seed2/out (ids <P>-n<k>), round 3 in /tmp/seed3/out (<P>-p<k>)
for d in sorted(glob.glob('/tmp/seed/out/C*/m*')) + sorted(glob.glob('/tmp/seed2/out/C*/m*')) + sorted(glob.glob('/tmp/seed3/out/C*/m*')):
    v = os.path.join(d, 'verified.txt')
    if not os.path.exists(v):
        continue
    line = open(v).read().strip()
    if 'suite_with_change=pass' not in line or 'demo_with_change=fails' not in line or 'demo_without_change=passes' not in line:
        print('NOT VERIFIED', d, line)
        continue
    prop = d.split('/')[-2]; m = d.split('/')[-1]
    sid = f'{prop}-{m}' if '/tmp/seed/' in d else (f'{prop}-n{m[1:]}' if '/tmp/seed2/' in d else f'{prop}-p{m[1:]}')
    dst = f'/verif/seeded/{sid}'
    os.makedirs(dst, exist_ok=True)
    shutil.copy(os.path.join(d, 'patch.diff'), dst)
    shutil.copy(os.path.join(d, 'demo_test.go'), os.path.join(dst, 'demo_test.go.txt'))
    meta_txt = open(os.path.join(d, 'meta.txt')).read() if os.path.exists(os.path.join(d, 'meta.txt')) else ''
    meta = {
        'id': sid, 'breaks_property': prop,
        'needs_to_manifest': meta_txt.strip(),
        'confirmed_by': 'tools/seed_verify.sh in a scratch worktree of /repo HEAD: ' + line.split(':', 1)[1].strip(),
        'demonstration': 'demo_test.go.txt (copy into the directory named on its first line as a _test.go file)',
        'caught_by': caught.get(sid, 'see DESIGN.md §11'),
    }
    json.dump(meta, open(os.path.join(dst, 'meta.json'), 'w'), indent=1)
    print('kept', sid)
