#!/bin/bash
# tools/seed_campaign.sh [ids...]: every seeded change (or the given ones) against the quick check of the
# property it was written for; one line per change. /repo is modified while this runs and restored after each.
cd /verif
ids="$@"; [ -z "$ids" ] && ids=$(ls seeded | grep '^C')
for id in $ids; do
  p=${id%%-*}
  line=$(tools/mutcheck.sh /verif/seeded/$id/patch.diff $p 2>&1 | grep '^==' | cut -c1-230)
  echo "$id $line"
done
